(** Exactly when the reverse check of [format_one] passes ([rc_hit], Sid/NewlineLemmas.v), in terms
    of the executable typing specification [accepts] alone (python's "$"):

      the template's regex search hits s   <->   the template accepts s,
                                                 or s = s0 ++ "\n" and the template accepts s0.

    A "false hit" (hit without acceptance) is only possible for a template whose LAST placeholder is
    closed (an open one, [^/]*, takes the final newline itself, and then the string is accepted). *)
From Coq Require Import List String Ascii Bool Arith Lia Permutation.
From Spil Require Import Base.Str Base.Dict Base.Outcome Base.Tree Base.StrProofs Base.SplitProofs
  Regex.Re Regex.MatchProofs Resolva.Template Resolva.Resolver Conf.ConfUtil Conf.Conf Conf.WF
  Sid.Query Sid.Sid Sid.TypingSpec Sid.TypingProofs Sid.SidLemmas Sid.SidProofs Sid.NewlineLemmas.
Import ListNotations.
Local Open Scope string_scope.

(* the last placeholder of the template is open: no pattern, i.e. the default class-star *)
Definition last_open (t : tpl) : bool :=
  match last (tp_items t) (Lit "") with Ph _ None => true | _ => false end.

(** ** Segments *)

(* append [x] to the last element *)
Fixpoint add_last (l : list string) (x : string) : list string :=
  match l with
  | [] => []
  | [a] => [a ++ x]
  | a :: t => a :: add_last t x
  end.

Lemma add_last_cons a b l x : add_last (a :: b :: l) x = a :: add_last (b :: l) x.
Proof. reflexivity. Qed.

Lemma add_last_ne l x : l <> [] -> add_last l x <> [].
Proof. destruct l as [|a [|b l]]; [congruence | discriminate | discriminate]. Qed.

Lemma join_add_last : forall l x, l <> [] -> join "/" (add_last l x) = join "/" l ++ x.
Proof.
  induction l as [|a l IH]; intros x Hne; [congruence|].
  destruct l as [|b l]; [reflexivity|].
  rewrite add_last_cons, (join_cons_ne "/" a _ (add_last_ne (b :: l) x ltac:(discriminate))).
  rewrite IH by discriminate. rewrite join_cons2, !app_assoc_s. reflexivity.
Qed.

Lemma add_last_nomem l : Forall (fun v => mem_c "/" v = false) l ->
  Forall (fun v => mem_c "/" v = false) (add_last l nl).
Proof.
  induction l as [|a l IH]; intros H; [constructor|].
  inversion H as [|? ? Ha Hl]; subst.
  destruct l as [|b l].
  - constructor; [apply mem_slash_nl; exact Ha | constructor].
  - rewrite add_last_cons. constructor; [exact Ha | apply IH; exact Hl].
Qed.

Lemma seg_ok_star_nl w : seg_ok (Star CNotSlash) w = true -> seg_ok (Star CNotSlash) (w ++ nl) = true.
Proof.
  unfold seg_ok. intros H. apply match_full_iff in H. destruct H as (cs & M).
  destruct (Matches_Star_inv _ _ _ M) as (Hall & _).
  apply match_full_iff. exists []. constructor.
  apply (all_cls_snoc CNotSlash w "010" Hall). reflexivity.
Qed.

(* the last pattern is open: the segments with a newline added at the end are accepted, too *)
Lemma segs_ok_add_nl : forall ps segs, segs_ok ps segs = true ->
  snd (last ps ("", Eps)) = Star CNotSlash -> segs_ok ps (add_last segs nl) = true.
Proof.
  induction ps as [|[n p] ps IH]; intros segs H Hl.
  - destruct segs; [reflexivity | discriminate].
  - destruct segs as [|g segs]; [discriminate|]. rewrite segs_ok_cons in H.
    apply andb_true_iff in H. destruct H as (H1 & H2).
    destruct ps as [|q ps].
    + destruct segs; [|discriminate]. cbn [last snd] in Hl. subst p.
      cbn [add_last segs_ok]. rewrite (seg_ok_star_nl g H1). reflexivity.
    + destruct segs as [|g2 segs]; [destruct q; discriminate|].
      rewrite add_last_cons, segs_ok_cons, H1. cbn [andb].
      apply IH; [exact H2 | exact Hl].
Qed.

(* the last pattern is newline-free: the last accepted segment has no newline *)
Lemma segs_ok_last_nl : forall ps segs, segs_ok ps segs = true -> ps <> [] ->
  nl_free (snd (last ps ("", Eps))) = true -> mem_c "010" (last segs "") = false.
Proof.
  induction ps as [|[n p] ps IH]; intros segs H Hne Hl; [congruence|].
  destruct segs as [|g segs]; [discriminate|]. rewrite segs_ok_cons in H.
  apply andb_true_iff in H. destruct H as (H1 & H2).
  destruct ps as [|q ps].
  - destruct segs; [|discriminate]. cbn [last snd] in *.
    unfold seg_ok in H1. apply match_full_iff in H1. destruct H1 as (cs & M).
    apply (Matches_nl_free p g cs M Hl).
  - destruct segs as [|g2 segs]; [destruct q; discriminate|].
    change (last (g :: g2 :: segs) "") with (last (g2 :: segs) "").
    apply (IH (g2 :: segs) H2); [discriminate | exact Hl].
Qed.

(** ** The declarative matches of the compiled regex of a sid template *)

Lemma Matches_sid_re : forall ps, ps <> [] -> Forall pat_ok (map snd ps) ->
  forall w cs, Matches (sid_re ps) w cs ->
  exists segs, w = join "/" segs /\ segs_ok ps segs = true /\
    Forall (fun v => mem_c "/" v = false) segs /\ segs <> [].
Proof.
  induction ps as [|[n p] rest IH]; intros Hne Hall w cs M; [congruence|].
  cbn [map snd] in Hall. inversion Hall as [|? ? Hp Hall']; subst.
  destruct Hp as (Hsf & _ & _).
  destruct rest as [|p2 rest2].
  - cbn [sid_re] in M. inversion M as [| | | | | | |g0 r0 w0 c0 M0]; subst.
    exists [w]. split; [reflexivity|]. split; [|split; [|discriminate]].
    + cbn [segs_ok]. unfold seg_ok. rewrite andb_true_r. apply match_full_iff. exists c0. exact M0.
    + constructor; [apply (Matches_slash_free p w c0 M0 Hsf) | constructor].
  - change (sid_re ((n, p) :: p2 :: rest2))
      with (Seq (Grp (g001 n) p) (Seq (Chr "/") (sid_re (p2 :: rest2)))) in M.
    inversion M as [| | |r1 r2 w1 w23 c1 c23 M1 M23| | | |]; subst.
    inversion M1 as [| | | | | | |g0 r0 w0 c0 M0]; subst.
    inversion M23 as [| | |r1 r2 w2 w3 c2 c3 M2 M3| | | |]; subst.
    inversion M2; subst.
    destruct (IH ltac:(discriminate) Hall' w3 c3 M3) as (segs & -> & Hok & Hsl & Hsn).
    exists (w1 :: segs). split; [|split; [|split; [|discriminate]]].
    + rewrite (join_cons_ne "/" w1 segs Hsn). reflexivity.
    + rewrite segs_ok_cons, Hok, andb_true_r. unfold seg_ok. apply match_full_iff.
      exists c0. exact M0.
    + constructor; [apply (Matches_slash_free p w1 c0 M0 Hsf) | exact Hsl].
Qed.

(** ** The last item of a sid-shaped template and the last pattern *)

Lemma phs_last : forall items, Shape items -> forall ps, phs items = Some ps ->
  exists n e p, last items (Lit "") = Ph n e /\ ph_re e = Some p /\ last ps ("", Eps) = (n, p).
Proof.
  induction 1 as [n e | n e rest Hsh IH]; intros ps Hps.
  - cbn [phs] in Hps. destruct (ph_re e) as [p|] eqn:Ee; [|discriminate]. inversion Hps; subst.
    exists n, e, p. repeat split; [exact Ee].
  - cbn [phs] in Hps. destruct (ph_re e) as [p|] eqn:Ee; [|discriminate].
    destruct (phs rest) as [l|] eqn:El; [|discriminate]. inversion Hps; subst.
    destruct (IH l eq_refl) as (n1 & e1 & p1 & Hl1 & He1 & Hl2).
    exists n1, e1, p1. split; [|split; [exact He1|]].
    + inversion Hsh; subst; cbn [last] in *; exact Hl1.
    + destruct l as [|q l].
      { exfalso. inversion Hsh; subst; cbn [phs] in El;
          repeat match type of El with context [match ?x with _ => _ end] => destruct x end;
          discriminate. }
      change (last ((n, p) :: q :: l) ("", Eps)) with (last (q :: l) ("", Eps)). exact Hl2.
Qed.

Lemma last_In {A} (l : list A) d : l <> [] -> In (last l d) l.
Proof.
  induction l as [|a l IH]; intros Hne; [congruence|].
  destruct l as [|b l]; [left; reflexivity|]. right. apply IH. discriminate.
Qed.

(* from accepted segments to the declarative match of the whole regex *)
Lemma sid_re_Matches : forall ps segs, ps <> [] -> segs_ok ps segs = true ->
  exists cs, Matches (sid_re ps) (join "/" segs) cs.
Proof.
  induction ps as [|[n p] rest IH]; intros segs Hne H; [congruence|].
  destruct segs as [|g segs]; [discriminate|]. rewrite segs_ok_cons in H.
  apply andb_true_iff in H. destruct H as (H1 & H2).
  unfold seg_ok in H1. apply match_full_iff in H1. destruct H1 as (c1 & M1).
  destruct rest as [|p2 rest2].
  - destruct segs; [|discriminate]. cbn [sid_re join]. eexists. constructor. exact M1.
  - change (sid_re ((n, p) :: p2 :: rest2))
      with (Seq (Grp (g001 n) p) (Seq (Chr "/") (sid_re (p2 :: rest2)))).
    assert (Hsn : segs <> []) by (destruct segs; [destruct p2; discriminate | discriminate]).
    destruct (IH segs ltac:(discriminate) H2) as (c3 & M3).
    rewrite (join_cons_ne "/" g segs Hsn). eexists.
    constructor; [constructor; exact M1|].
    change ("/" ++ join "/" segs) with (String "/" "" ++ join "/" segs).
    constructor; [constructor | exact M3].
Qed.

(** ** Relative to one well-formed loaded configuration *)

Section Loaded.
Variables (c : Conf) (Ld : Loaded).
Hypothesis Hload : load c = Some Ld.
Hypothesis Hwf : wf_loadedb Ld = true.

Local Notation tpls := (r_tpls (l_sid Ld)).
Local Notation r := (l_sid Ld).
Local Notation names t := (item_names (tp_items t)).

Lemma tpl_re_parts t : In t tpls ->
  Shape (tp_items t) /\ NoDup (names t) /\ forallb ph_ok (tp_items t) = true /\
  exists ps, phs (tp_items t) = Some ps /\ ps <> [] /\ map fst ps = names t /\
             Forall pat_ok (map snd ps) /\ sid_re ps = tp_re t.
Proof.
  intros Hin. pose proof (tpl_wf Ld Hwf t Hin) as H.
  unfold wf_sid_tpl in H. apply andb_true_iff in H. destruct H as (H & Hok).
  apply andb_true_iff in H. destruct H as (Hshape & Hnd).
  apply sid_shape_Shape in Hshape. apply nodupb_NoDup in Hnd.
  destruct (compile_shape (tp_items t) Hshape Hnd Hok [])
    as (ps & Hps & Hc & Hne & Hnames & Hall).
  { intros n _ []. }
  pose proof (load_compile c Ld Hload t Hin) as Hcomp.
  unfold compile in Hcomp. rewrite Hc in Hcomp.
  assert (Hre : seq_of (sid_res ps) = tp_re t) by congruence.
  rewrite seq_of_sid_res in Hre.
  split; [exact Hshape|]. split; [exact Hnd|]. split; [exact Hok|].
  exists ps. split; [exact Hps|]. split; [exact Hne|]. split; [exact Hnames|].
  split; [exact Hall | exact Hre].
Qed.

(* open last placeholder: the last pattern is the greedy class-star; closed: it is newline-free *)
Lemma last_pattern t ps : In t tpls -> phs (tp_items t) = Some ps ->
  if last_open t then snd (last ps ("", Eps)) = Star CNotSlash
  else nl_free (snd (last ps ("", Eps))) = true.
Proof.
  intros Hin Hps. destruct (tpl_re_parts t Hin) as (Hsh & _ & Hok & _).
  destruct (phs_last _ Hsh ps Hps) as (n & e & p & Hl & He & Hlp).
  unfold last_open. rewrite Hl, Hlp. cbn [snd].
  assert (Hne : tp_items t <> []) by (inversion Hsh; discriminate).
  pose proof (last_In (tp_items t) (Lit "") Hne) as Hlin. rewrite Hl in Hlin.
  rewrite forallb_forall in Hok. specialize (Hok _ Hlin).
  destruct e as [e0|].
  - cbn [ph_ok] in Hok. cbn [ph_re] in He. rewrite He in Hok.
    apply andb_true_iff in Hok. destruct Hok as (Hok & _).
    apply andb_true_iff in Hok. destruct Hok as (_ & Hok). exact Hok.
  - cbn [ph_re] in He. inversion He. reflexivity.
Qed.

Lemma accepts_of_segs t ps segs : phs (tp_items t) = Some ps -> segs <> [] ->
  Forall (fun v => mem_c "/" v = false) segs -> segs_ok ps segs = true ->
  accepts t (join "/" segs) = Some (combine (map fst ps) segs).
Proof.
  intros Hps Hsn Hsl Hok. unfold accepts. rewrite Hps. cbv zeta.
  pose proof (split_c_join "/" segs Hsn Hsl) as Hsj. unfold str1 in Hsj. rewrite Hsj, Hok.
  reflexivity.
Qed.

(* a template whose last placeholder is closed accepts no string that ends with a newline *)
Lemma closed_no_trailing t s d : In t tpls -> last_open t = false -> accepts t s = Some d ->
  forall s0, s <> s0 ++ nl.
Proof.
  intros Hin Hlo Ha s0 E.
  destruct (tpl_re_parts t Hin) as (_ & _ & _ & ps & Hps & Hne & _).
  pose proof (last_pattern t ps Hin Hps) as Hl. rewrite Hlo in Hl.
  unfold accepts in Ha. rewrite Hps in Ha. cbv zeta in Ha.
  destruct (segs_ok ps (split_c "/" s)) eqn:Eok; [|discriminate].
  pose proof (segs_ok_last_nl ps _ Eok Hne Hl) as Hm.
  pose proof (join_split_c "/" s) as J. unfold str1 in J.
  destruct (join_ends_nl (split_c "/" s) s0 (split_c_not_nil _ _)) as (v0 & Ev).
  { rewrite J. exact E. }
  rewrite Ev, mem_nl_nl in Hm. discriminate.
Qed.

(* A FALSE HIT: the reverse check passes although the template does not accept the string.
   Then the last placeholder is closed, and the template accepts the string minus its final newline. *)
Lemma false_hit_inv t s : In t tpls -> rc_hit Ld t s = true -> accepts t s = None ->
  last_open t = false /\ exists s0, s = s0 ++ nl /\ accepts t s0 <> None.
Proof.
  intros Hin Hh Ha.
  destruct (tpl_re_parts t Hin) as (_ & _ & _ & ps & Hps & Hne & _ & Hall & Hre).
  unfold rc_hit, resolve_tpl in Hh.
  destruct (search_anchored (tp_re t) s) as [cs|] eqn:Es; [|discriminate]. clear Hh.
  unfold search_anchored in Es. rewrite <- Hre in Es.
  apply m_sound in Es. destruct Es as (w & s2 & c0 & E & M & Hk).
  destruct (at_dollar s2) eqn:Ed; [|discriminate]. clear Hk.
  destruct (Matches_sid_re ps Hne Hall w c0 M) as (segs & Ew & Hok & Hsl & Hsn).
  pose proof (accepts_of_segs t ps segs Hps Hsn Hsl Hok) as Haw. rewrite <- Ew in Haw.
  destruct (at_dollar_inv s2 Ed) as [-> | ->].
  - rewrite app_nil_r_s in E. subst s. congruence.
  - split; [|exists w; split; [exact E | congruence]].
    destruct (last_open t) eqn:Elo; [exfalso | reflexivity].
    pose proof (last_pattern t ps Hin Hps) as Hl. rewrite Elo in Hl.
    pose proof (accepts_of_segs t ps (add_last segs nl) Hps (add_last_ne segs nl Hsn)
                  (add_last_nomem segs Hsl) (segs_ok_add_nl ps segs Hok Hl)) as Ha2.
    rewrite (join_add_last segs nl Hsn), <- Ew, <- E in Ha2. congruence.
Qed.

(* whenever the anchored search finds something, the resolved data is not empty: a hit *)
Lemma search_hit t s cs : In t tpls -> search_anchored (tp_re t) s = Some cs -> rc_hit Ld t s = true.
Proof.
  intros Hin Es.
  destruct (tpl_re_parts t Hin) as (_ & Hnd & _ & ps & Hps & Hne & Hnames & Hall & Hre).
  destruct (wf_loaded_parts Ld Hwf) as (_ & _ & Hdup).
  unfold rc_hit, resolve_tpl. rewrite Es, Hdup.
  unfold search_anchored in Es. rewrite <- Hre in Es.
  pose proof (sid_re_spec ps Hne Hall s [] _ kspec_init) as H. rewrite Es in H.
  destruct H as (segs & s2 & Hx & Hlen & _). cbn [app] in Hx.
  assert (Hx' : cs = combine (map g001 (names t)) segs).
  { rewrite Hx. unfold names001. rewrite <- Hnames, map_map. reflexivity. }
  unfold match_to_dict. rewrite Hx'.
  rewrite (mtd_aux (names t) segs [] Hnd) by (intros n _ []).
  cbn [app bind].
  destruct (names t) as [|n0 ns] eqn:En.
  - exfalso. rewrite <- Hnames in En. destruct ps; [congruence | discriminate].
  - destruct segs as [|g segs]; [|reflexivity]. exfalso.
    rewrite <- Hnames in En. destruct ps; [congruence | discriminate Hlen].
Qed.

(* python's "$": a string that is accepted up to one final newline passes the reverse check *)
Lemma rc_hit_nl t s0 d : In t tpls -> accepts t s0 = Some d -> rc_hit Ld t (s0 ++ nl) = true.
Proof.
  intros Hin Ha.
  destruct (tpl_re_parts t Hin) as (_ & _ & _ & ps & Hps & Hne & _ & _ & Hre).
  unfold accepts in Ha. rewrite Hps in Ha. cbv zeta in Ha.
  destruct (segs_ok ps (split_c "/" s0)) eqn:Eok; [|discriminate].
  destruct (sid_re_Matches ps _ Hne Eok) as (cs & M).
  pose proof (join_split_c "/" s0) as J. unfold str1 in J. rewrite J in M.
  pose proof (m_complete (sid_re ps) s0 cs M nl
                (fun _ rest c0 => if at_dollar rest then Some c0 else None)) as Hc.
  cbv beta in Hc. change (at_dollar nl) with true in Hc. cbv iota in Hc.
  specialize (Hc ltac:(discriminate)).
  destruct (search_anchored (tp_re t) (s0 ++ nl)) as [cs'|] eqn:Es.
  - apply (search_hit t _ cs' Hin Es).
  - exfalso. apply Hc. unfold search_anchored in Es. rewrite <- Hre in Es. exact Es.
Qed.

(** The reverse check, in terms of the typing specification alone. *)
Theorem rc_hit_iff t s : In t tpls ->
  (rc_hit Ld t s = true <->
   accepts t s <> None \/ exists s0, s = s0 ++ nl /\ accepts t s0 <> None).
Proof.
  intros Hin. split.
  - intros Hh. destruct (accepts t s) as [d|] eqn:Ea; [left; discriminate|]. right.
    apply (false_hit_inv t s Hin Hh Ea).
  - intros [Ha | (s0 & -> & Ha)].
    + destruct (accepts t s) as [d|] eqn:Ea; [|congruence].
      apply (rc_hit_accepts c Ld Hload Hwf t s d Hin Ea).
    + destruct (accepts t s0) as [d|] eqn:Ea; [|congruence].
      apply (rc_hit_nl t s0 d Hin Ea).
Qed.

End Loaded.
