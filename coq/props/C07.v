(** C07 — a search expression unfolds to exactly the typed searches its syntax denotes.  Property theorems only.
    Proved for all configurations / all search strings: the structural clauses (every result typed with no unapplied query,
    no duplicates, sorted, the only error is SpilException [or Unmodelled = outside the modelled urllib fragment]) and the
    distribution of "," alternatives in the path part as a cartesian product.  The full denotation (aliases, "**" levels
    restricted to leaf types, narrowing, query application) is an executable python specification (tools/props/c07.py,
    independent of model and code) compared with the implementation on every run: that part is NOT a theorem (partial). *)
From Coq Require Import List String Ascii Bool Arith Permutation Sorted.
From Spil Require Import Base.Str Base.Dict Base.Outcome Regex.Re Conf.Conf Conf.WF Sid.Sid
  Search.Unfold Search.FindList Search.GlobProofs Search.FindListProofs Search.UnfoldProofs.
From SpilGen Require Hamlet.
Import ListNotations.
Local Open Scope string_scope.

Theorem C07_typed_clean : forall Ld s u e l, unfold_search Ld s u e = Ok l ->
  Forall (fun x => sid_bool x = true /\ count "?" (s_string x) = 0) l.
Proof. exact unfold_typed_clean. Qed.
Print Assumptions C07_typed_clean.

Theorem C07_nodup : forall Ld s u e l, unfold_search Ld s u e = Ok l -> NoDup (map uri l).
Proof. exact unfold_uri_nodup. Qed.
Print Assumptions C07_nodup.

Theorem C07_sorted : forall Ld s u e l, unfold_search Ld s u e = Ok l -> StronglySorted sid_key_le l.
Proof. exact unfold_sorted. Qed.
Print Assumptions C07_sorted.

Theorem C07_errors : forall c Ld, load c = Some Ld -> wf_loadedb Ld = true ->
  forall s u e ex, unfold_search Ld s u e = Raise ex -> ex = SpilException \/ ex = Unmodelled.
Proof. exact unfold_errors. Qed.
Print Assumptions C07_errors.

(* every "," alternative in a segment is distributed: or_on_path is the cartesian product of the alternatives *)
Theorem C07_comma_product : forall s, contains start_marker s = false ->
  forall r, In r (or_on_path s) <->
    exists choice, Forall2 (fun part alt => In alt (if contains ors part then map strip (split_c "," part) else [part]))
                           (split_c "/" s) choice /\ r = join "/" choice.
Proof. exact or_on_path_product'. Qed.
Print Assumptions C07_comma_product.

Example C07_instance :
  match unfold_search Hamlet.the_loaded "hamlet/a,s/*" false false with
  | Ok l => map uri l
  | Raise _ => []
  end = ["asset__assettype:hamlet/a/*"; "shot__sequence:hamlet/s/*"].
Proof. vm_compute. reflexivity. Qed.
Print Assumptions C07_instance.
