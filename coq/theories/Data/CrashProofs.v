From Coq Require Import List String Ascii Bool Arith Lia.
From Spil Require Import Base.Str Base.Dict Base.StrProofs Base.Outcome FS.Fs Data.Crash.
Import ListNotations.
Local Open Scope string_scope.
Local Open Scope list_scope.

Lemma dget_dset_same {V} (d : dict V) k v : dget (dset d k v) k = Some v.
Proof.
  induction d as [|[k' v'] r IH]; simpl.
  - rewrite String.eqb_refl. reflexivity.
  - destruct (String.eqb k k') eqn:E; simpl; rewrite E; [reflexivity | exact IH].
Qed.

Lemma dget_dset_other {V} (d : dict V) k k' v : k <> k' -> dget (dset d k v) k' = dget d k'.
Proof.
  intros Hne. induction d as [|[k0 v0] r IH]; simpl.
  - destruct (String.eqb k' k) eqn:E; [apply String.eqb_eq in E; congruence | reflexivity].
  - destruct (String.eqb k k0) eqn:E; simpl.
    + apply String.eqb_eq in E. subst k0. destruct (String.eqb k' k) eqn:E'; [apply String.eqb_eq in E'; congruence | reflexivity].
    + destruct (String.eqb k' k0); [reflexivity | exact IH].
Qed.

Lemma fs_get_remove_other f p q : p <> q -> fs_get (fs_remove f p) q = fs_get f q.
Proof.
  intros Hne. unfold fs_get. induction f as [|[k n] r IH]; simpl; [reflexivity|].
  destruct (String.eqb p k) eqn:E.
  - apply String.eqb_eq in E. subst k. destruct (String.eqb q p) eqn:E'; [apply String.eqb_eq in E'; congruence | reflexivity].
  - simpl. destruct (String.eqb q k); [reflexivity | exact IH].
Qed.

Lemma tmp_neq dp : tmp_of dp <> dp.
Proof.
  unfold tmp_of. intros H. assert (L : String.length (dp ++ ".tmp")%string = String.length dp) by (rewrite H; reflexivity).
  rewrite length_app_s in L. simpl in L. lia.
Qed.

(* effects on the temporary file never touch any other path *)
Lemma tmp_effect_frame f e dp q :
  (e = ETruncate (tmp_of dp) \/ exists c, e = EWrite (tmp_of dp) c) -> q <> tmp_of dp ->
  fs_get (apply_effect f e) q = fs_get f q.
Proof.
  intros [->|[c ->]] Hq; simpl; unfold fs_get, fs_add; apply dget_dset_other; congruence.
Qed.

Lemma fold_tmp_frame dp q : q <> tmp_of dp -> forall es f,
  Forall (fun e => e = ETruncate (tmp_of dp) \/ exists c, e = EWrite (tmp_of dp) c) es ->
  fs_get (fold_left apply_effect es f) q = fs_get f q.
Proof.
  intros Hq es. induction es as [|e es IH]; intros f Hall; simpl; [reflexivity|].
  inversion Hall as [|? ? He Hes]; subst. rewrite (IH _ Hes). apply (tmp_effect_frame f e dp q He Hq).
Qed.

Definition prefix_effects dp (chunks : nat) : list effect :=
  ETruncate (tmp_of dp) :: repeat (EWrite (tmp_of dp) CCorrupt) chunks ++ [EWrite (tmp_of dp) (CJson [])].

Lemma write_effects_shape dp new chunks :
  write_effects dp new chunks =
  (ETruncate (tmp_of dp) :: repeat (EWrite (tmp_of dp) CCorrupt) chunks) ++ [EWrite (tmp_of dp) (CJson new)] ++ [EReplace (tmp_of dp) dp].
Proof. reflexivity. Qed.

Lemma tmp_only dp new chunks :
  Forall (fun e => e = ETruncate (tmp_of dp) \/ exists c, e = EWrite (tmp_of dp) c)
         ((ETruncate (tmp_of dp) :: repeat (EWrite (tmp_of dp) CCorrupt) chunks) ++ [EWrite (tmp_of dp) (CJson new)]).
Proof.
  apply Forall_app. split.
  - constructor; [left; reflexivity|]. apply Forall_forall. intros e He. apply repeat_spec in He. right. eexists. exact He.
  - constructor; [right; eexists; reflexivity | constructor].
Qed.

Lemma Forall_firstn {A} (P : A -> Prop) l n : Forall P l -> Forall P (firstn n l).
Proof.
  revert n. induction l as [|x l IH]; intros n H; destruct n; simpl; try constructor.
  - inversion H; assumption.
  - apply IH. inversion H; assumption.
Qed.

(** C17: at EVERY crash point of the write (before anything, after each written chunk of the temporary file,
    before and after the replacement) a reader sees the complete old data or the complete new data in the
    sidecar, and every other path except the temporary sibling is untouched. *)
Theorem crash_atomic f dp new chunks n :
  let f' := crash_at f (write_effects dp new chunks) n in
  (fs_get f' dp = fs_get f dp \/ fs_get f' dp = Some (File (CJson new))) /\
  (forall q, q <> dp -> q <> tmp_of dp -> fs_get f' q = fs_get f q).
Proof.
  cbv zeta. unfold crash_at. rewrite write_effects_shape.
  set (pre := (ETruncate (tmp_of dp) :: repeat (EWrite (tmp_of dp) CCorrupt) chunks) ++ [EWrite (tmp_of dp) (CJson new)]).
  assert (Hpre : Forall (fun e => e = ETruncate (tmp_of dp) \/ exists c, e = EWrite (tmp_of dp) c) pre) by apply tmp_only.
  replace ((ETruncate (tmp_of dp) :: repeat (EWrite (tmp_of dp) CCorrupt) chunks) ++ [EWrite (tmp_of dp) (CJson new)] ++ [EReplace (tmp_of dp) dp])
    with (pre ++ [EReplace (tmp_of dp) dp]) by (unfold pre; rewrite <- app_assoc; reflexivity).
  destruct (Nat.le_gt_cases n (List.length pre)) as [Hle|Hgt].
  - (* the crash happens before the replacement *)
    rewrite firstn_app. replace (n - List.length pre) with 0 by lia. simpl. rewrite app_nil_r.
    pose proof (Forall_firstn _ pre n Hpre) as Hf.
    split.
    + left. apply (fold_tmp_frame dp dp); [intros H; symmetry in H; exact (tmp_neq dp H) | exact Hf].
    + intros q _ Hq. apply (fold_tmp_frame dp q Hq); exact Hf.
  - (* all effects happened *)
    rewrite firstn_all2 by (rewrite app_length; change (List.length [EReplace (tmp_of dp) dp]) with 1; lia).
    rewrite fold_left_app. cbn [fold_left apply_effect].
    set (g := fold_left apply_effect pre f).
    assert (Hg_tmp : fs_get g (tmp_of dp) = Some (File (CJson new))).
    { unfold g, pre. rewrite fold_left_app. simpl. unfold fs_get, fs_add. apply dget_dset_same. }
    assert (Hg_other : forall q, q <> tmp_of dp -> fs_get g q = fs_get f q).
    { intros q Hq. unfold g. apply (fold_tmp_frame dp q Hq). exact Hpre. }
    rewrite Hg_tmp. split.
    + right. unfold fs_get, fs_add. apply dget_dset_same.
    + intros q Hq Hq'. unfold fs_get at 1, fs_add. rewrite dget_dset_other by congruence.
      fold (fs_get (fs_remove g (tmp_of dp)) q). rewrite fs_get_remove_other by congruence. apply Hg_other. exact Hq'.
Qed.

(* in terms of what a reader parses *)
Corollary crash_read_old_or_new f dp new chunks n :
  let f' := crash_at f (write_effects dp new chunks) n in
  read_sidecar f' dp = read_sidecar f dp \/ read_sidecar f' dp = Some new.
Proof.
  cbv zeta. destruct (crash_atomic f dp new chunks n) as [[H|H] _]; unfold read_sidecar; rewrite H; [left|right]; reflexivity.
Qed.

(* the defective write (truncate the sidecar itself, then write): a crash after the truncation shows neither *)
Definition write_effects_in_place (dp : string) (new : dict string) (chunks : nat) : list effect :=
  ETruncate dp :: repeat (EWrite dp CCorrupt) chunks ++ [EWrite dp (CJson new)].

Theorem in_place_write_refuted : exists f dp new chunks n old,
  read_sidecar f dp = Some old /\
  read_sidecar (crash_at f (write_effects_in_place dp new chunks) n) dp <> Some old /\
  read_sidecar (crash_at f (write_effects_in_place dp new chunks) n) dp <> Some new.
Proof.
  exists [("/d/.x.data.json", File (CJson [("a", "1")]))], "/d/.x.data.json", [("a", "2")], 0, 1, [("a", "1")].
  vm_compute. repeat split; discriminate.
Qed.
