#!/usr/bin/env python3
"""seed_meta.py <seeded dir> <property> <caught-by> <result-line>  : writes meta.json next to patch.diff"""
import sys, json, os
d, prop, caught, result = sys.argv[1:5]
note = open(os.path.join(d, 'note.txt')).read() if os.path.exists(os.path.join(d, 'note.txt')) else ''
meta = {
 'property': prop,
 'breaks': note.strip(),
 'needs_to_manifest': note.strip().splitlines()[-1] if note.strip() else '',
 'confirmed': 'patch applied in a scratch worktree: repository test suite unchanged (46 passed, 1 known failure); demo.py exits 1 with the patch and 0 without (tools/seed_verify.sh)',
 'checks_run': 'tools/seed_run.sh %s/patch.diff %s' % (d, caught),
 'result': result,
}
json.dump(meta, open(os.path.join(d, 'meta.json'), 'w'), indent=1)
