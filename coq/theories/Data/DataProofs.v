(** Theorems for C15 / C16 about the data layer (WriteToPaths, GetFromPaths, GetByFinder, GetFromAll).
    Standing hypotheses [load c = Some Ld] and [wf_loadedb Ld = true] are written explicitly.

    A failing operation has outcome [Raise e], which carries no file-system state: "a failing write
    changes nothing" holds by construction of the outcome type (the caller keeps [F]). *)
From Coq Require Import List String Ascii Bool Arith Lia.
From Spil Require Import Base.Str Base.Dict Base.Outcome Base.PyPath Base.StrProofs Base.SplitProofs
  Regex.Re Resolva.Template Resolva.Resolver Conf.ConfUtil Conf.Conf Conf.WF Conf.Routing
  Sid.Query Sid.Sid Search.Unfold Search.FindList Search.Finders FS.Fs Data.Data Data.Crash Data.CrashProofs Sid.SidLemmas Path.PathProofs.
Import ListNotations.
Local Open Scope string_scope.

(** * generic facts *)

Lemma mapM_Forall2 {A B} (f : A -> outcome B) : forall l ys,
  mapM f l = Ok ys -> Forall2 (fun a b => f a = Ok b) l ys.
Proof.
  induction l as [|a l IH]; intros ys H; cbn [mapM] in H.
  - inversion H. constructor.
  - unfold bind in H. destruct (f a) as [y|e] eqn:Ea; [|discriminate].
    destruct (mapM f l) as [ys'|e] eqn:El; [|discriminate].
    inversion H; subst. constructor; [exact Ea | apply IH; reflexivity].
Qed.

Lemma Forall2_length' {A B} (R : A -> B -> Prop) l1 l2 : Forall2 R l1 l2 -> List.length l1 = List.length l2.
Proof. induction 1; simpl; congruence. Qed.

Lemma dupdate_app_nodup {V} : forall (e d : dict V), NoDup (map fst (d ++ e)%list) -> dupdate d e = (d ++ e)%list.
Proof.
  unfold dupdate. induction e as [|[k v] e IH]; intros d Hnd; cbn [fold_left fst snd].
  - rewrite app_nil_r. reflexivity.
  - assert (Hk : ~ In k (map fst d)).
    { rewrite map_app in Hnd. cbn [map fst] in Hnd. apply NoDup_remove_2 in Hnd.
      intros Hin. apply Hnd. apply in_or_app. left. exact Hin. }
    rewrite (dset_new d k v Hk). rewrite IH.
    + rewrite <- app_assoc. reflexivity.
    + rewrite <- app_assoc. exact Hnd.
Qed.

Lemma dupdate_nil_nodup {V} (e : dict V) : NoDup (map fst e) -> dupdate [] e = e.
Proof. intros H. apply (dupdate_app_nodup e []). exact H. Qed.

Lemma dget_map_some (d : dict string) k :
  dget (map (fun kv => (fst kv, Some (snd kv))) d) k = option_map Some (dget d k).
Proof.
  induction d as [|[k' v] d IH]; cbn [map dget fst snd option_map]; [reflexivity|].
  destruct (String.eqb k k'); [reflexivity | exact IH].
Qed.

Lemma concat_mapM_nil {A B} (f : A -> outcome (list B)) : forall l,
  (forall a, In a l -> f a = Ok []) -> concat_mapM f l = Ok [].
Proof.
  induction l as [|a l IH]; intros H; cbn [concat_mapM]; [reflexivity|].
  rewrite (H a (or_introl eq_refl)). cbn [bind]. rewrite IH by (intros; apply H; right; assumption).
  reflexivity.
Qed.

Section Proofs.
Variables (c : Conf) (Ld : Loaded) (Rt : Routing).
Hypothesis Hload : load c = Some Ld.
Hypothesis Hwf : wf_loadedb Ld = true.

(** * D1 / D2 (C15): create on an existing path, update on a missing path, no path at all *)

Theorem create_existing_fails F cfg s data x p :
  Sid Ld s = Ok x -> sid_path Ld x (default_cfg Ld cfg) = Ok (Some p) -> fs_exists F p = true ->
  w_create Ld Rt F cfg s data = Raise SpilException.
Proof using Hload Hwf. intros Hs Hp He. unfold w_create. rewrite Hs. cbn [bind]. rewrite Hp. cbn [bind]. rewrite He. reflexivity. Qed.

Theorem update_missing_fails F cfg s data x p :
  Sid Ld s = Ok x -> sid_path Ld x (default_cfg Ld cfg) = Ok (Some p) -> fs_exists F p = false ->
  w_update Ld F cfg s data = Raise SpilException.
Proof using Hload Hwf. intros Hs Hp He. unfold w_update. rewrite Hs. cbn [bind]. rewrite Hp. cbn [bind]. rewrite He. reflexivity. Qed.

Theorem no_path_write_fails F cfg s data x :
  Sid Ld s = Ok x -> sid_path Ld x (default_cfg Ld cfg) = Ok None ->
  w_create Ld Rt F cfg s data = Raise SpilException /\ w_update Ld F cfg s data = Raise SpilException.
Proof using Hload Hwf. intros Hs Hp. unfold w_create, w_update. rewrite Hs. cbn [bind]. rewrite Hp. split; reflexivity. Qed.

(** * the shape of a successful update *)

Lemma w_update_inv F cfg s data F' b : w_update Ld F cfg s data = Ok (F', b) ->
  exists x p, Sid Ld s = Ok x /\ sid_path Ld x (default_cfg Ld cfg) = Ok (Some p) /\
    fs_exists F p = true /\ write_data Ld F p data = Ok F' /\ b = true.
Proof.
  unfold w_update, bind. intros H.
  destruct (Sid Ld s) as [x|e] eqn:Es; [|discriminate].
  destruct (sid_path Ld x (default_cfg Ld cfg)) as [[p|]|e] eqn:Ep; try discriminate.
  destruct (fs_exists F p) eqn:Ee; cbn [negb] in H; [|discriminate].
  destruct (write_data Ld F p data) as [F2|e] eqn:Ew; [|discriminate].
  inversion H; subst. exists x, p. repeat split; auto.
Qed.

Lemma write_data_inv F p data F' : write_data Ld F p data = Ok F' ->
  (fs_get F (sidecar Ld p) = None /\ F' = fs_add F (sidecar Ld p) (File (CJson data))) \/
  (exists prev, fs_get F (sidecar Ld p) = Some (File (CJson prev)) /\
                F' = fs_add F (sidecar Ld p) (File (CJson (dupdate prev data)))).
Proof.
  unfold write_data. intros H.
  destruct (fs_get F (sidecar Ld p)) as [[|[|prev|]|]|]; try discriminate; inversion H; subst.
  - right. exists prev. split; reflexivity.
  - left. split; reflexivity.
Qed.

Lemma write_data_frame F p data F' q : write_data Ld F p data = Ok F' ->
  q <> sidecar Ld p -> fs_get F' q = fs_get F q.
Proof.
  intros H Hq.
  destruct (write_data_inv F p data F' H) as [(_ & ->) | (prev & _ & ->)];
    unfold fs_get, fs_add; apply dget_dset_other; congruence.
Qed.

(** * D4 (C15): a write touches the sidecar of the Sid's path and nothing else *)

Theorem write_isolation F cfg s data F' b : w_update Ld F cfg s data = Ok (F', b) ->
  exists x p, Sid Ld s = Ok x /\ sid_path Ld x (default_cfg Ld cfg) = Ok (Some p) /\
    forall q, q <> sidecar Ld p -> fs_get F' q = fs_get F q.
Proof using Hload Hwf.
  intros H. destruct (w_update_inv _ _ _ _ _ _ H) as (x & p & Hs & Hp & _ & Hw & _).
  exists x, p. split; [exact Hs|]. split; [exact Hp|]. intros q Hq. apply (write_data_frame F p data F' q Hw Hq).
Qed.

(* the data of any Sid whose sidecar is another file is unchanged (whatever configuration it is read with) *)
Theorem write_isolation_get F cfg s data F' b x p : w_update Ld F cfg s data = Ok (F', b) ->
  Sid Ld s = Ok x -> sid_path Ld x (default_cfg Ld cfg) = Ok (Some p) ->
  forall cfg' y attrs enc,
    (forall py, sid_path Ld y (default_cfg Ld cfg') = Ok (Some py) -> sidecar Ld py <> sidecar Ld p) ->
    get_data_paths Ld F' cfg' y attrs enc = get_data_paths Ld F cfg' y attrs enc.
Proof using Hload Hwf.
  intros H Hs Hp cfg' y attrs enc Hy.
  destruct (write_isolation _ _ _ _ _ _ H) as (x' & p' & Hs' & Hp' & Hfr).
  rewrite Hs in Hs'. inversion Hs'; subst x'. rewrite Hp in Hp'. inversion Hp'; subst p'.
  unfold get_data_paths, bind.
  destruct (sid_path Ld y (default_cfg Ld cfg')) as [[py|]|e] eqn:Ey; try reflexivity.
  unfold load_sidecar. rewrite (Hfr (sidecar Ld py) (Hy py eq_refl)). reflexivity.
Qed.

(** * D3 (C15): what is read after a successful update is the previous data overlaid with the new data *)

Theorem read_after_write_sidecar F cfg s data F' b x p : w_update Ld F cfg s data = Ok (F', b) ->
  Sid Ld s = Ok x -> sid_path Ld x (default_cfg Ld cfg) = Ok (Some p) ->
  load_sidecar F' (sidecar Ld p) =
    match fs_get F (sidecar Ld p) with
    | None => data                                            (* json.dump of the argument as it is *)
    | Some _ => dupdate (load_sidecar F (sidecar Ld p)) data
    end.
Proof using Hload Hwf.
  intros H Hs Hp. destruct (w_update_inv _ _ _ _ _ _ H) as (x' & p' & Hs' & Hp' & _ & Hw & _).
  rewrite Hs in Hs'. inversion Hs'; subst x'. rewrite Hp in Hp'. inversion Hp'; subst p'.
  destruct (write_data_inv F p data F' Hw) as [(E & ->) | (prev & E & ->)]; rewrite E.
  - unfold load_sidecar, fs_get, fs_add. rewrite dget_dset_same. reflexivity.
  - unfold load_sidecar at 1. unfold fs_get at 1. unfold fs_add. rewrite dget_dset_same.
    unfold load_sidecar. rewrite E. reflexivity.
Qed.

(* guard for the uniform statement: the keys of [data] are distinct (a python dict) *)
Theorem read_after_write F cfg s data F' b x p : w_update Ld F cfg s data = Ok (F', b) ->
  Sid Ld s = Ok x -> sid_path Ld x (default_cfg Ld cfg) = Ok (Some p) ->
  NoDup (map fst data) ->
  load_sidecar F' (sidecar Ld p) = dupdate (load_sidecar F (sidecar Ld p)) data.
Proof using Hload Hwf.
  intros H Hs Hp Hnd. rewrite (read_after_write_sidecar _ _ _ _ _ _ _ _ H Hs Hp).
  destruct (fs_get F (sidecar Ld p)) eqn:E; [reflexivity|].
  unfold load_sidecar. rewrite E. symmetry. apply dupdate_nil_nodup. exact Hnd.
Qed.

(* and at the level of the record that get_data returns: every stored key other than "sid" reads the overlay;
   without an encoder the record is exactly the overlay *)
Theorem read_after_write_record F cfg s data F' b x enc r : w_update Ld F cfg s data = Ok (F', b) ->
  Sid Ld s = Ok x -> NoDup (map fst data) ->
  get_data_paths Ld F' cfg x [] enc = Ok r ->
  exists p, sid_path Ld x (default_cfg Ld cfg) = Ok (Some p) /\
    (forall k, k <> "sid" -> dget r k = option_map Some (dget (dupdate (load_sidecar F (sidecar Ld p)) data) k)) /\
    (encode enc x = None -> r = map (fun kv => (fst kv, Some (snd kv))) (dupdate (load_sidecar F (sidecar Ld p)) data)).
Proof using Hload Hwf.
  intros H Hs Hnd Hg. destruct (w_update_inv _ _ _ _ _ _ H) as (x' & p & Hs' & Hp & _).
  rewrite Hs in Hs'. inversion Hs'; subst x'. exists p. split; [exact Hp|].
  pose proof (read_after_write _ _ _ _ _ _ _ _ H Hs Hp Hnd) as Hl.
  unfold get_data_paths in Hg. rewrite Hp in Hg. cbn [bind project_record] in Hg. rewrite Hl in Hg.
  inversion Hg as [Hr]. clear Hg. split.
  - intros k Hk. destruct (encode enc x) as [e|]; [destruct (truthy e)|]; try apply dget_map_some.
    rewrite dget_dset_other by congruence. apply dget_map_some.
  - intros ->. reflexivity.
Qed.

(** * D6 (C16): get is the map of get_data over find, in order *)

Theorem get_is_map_of_find F cfg q attrs enc recs : get_paths Ld F cfg q attrs enc = Ok recs ->
  exists found, ffind Ld F (FPaths "" (default_cfg Ld cfg)) q = Ok found /\
    List.length recs = List.length found /\
    Forall2 (fun s r => exists x, Sid Ld s = Ok x /\ get_data_paths Ld F cfg x attrs enc = Ok r) found recs.
Proof using Hload Hwf.
  unfold get_paths, bind. intros H.
  destruct (ffind Ld F (FPaths "" (default_cfg Ld cfg)) q) as [found|e]; [|discriminate].
  exists found. split; [reflexivity|].
  apply mapM_Forall2 in H.
  assert (G : Forall2 (fun s r => exists x, Sid Ld s = Ok x /\ get_data_paths Ld F cfg x attrs enc = Ok r) found recs).
  { induction H as [|s r l l' Hsr _ IH]; constructor; [|exact IH].
    destruct (Sid Ld s) as [x|e]; [|discriminate]. exists x. split; [reflexivity | exact Hsr]. }
  split; [symmetry; apply (Forall2_length' _ _ _ G) | exact G].
Qed.

(** * D7 (C16): the keys of a record *)

Lemma get_data_paths_inv F cfg x attrs enc r : get_data_paths Ld F cfg x attrs enc = Ok r ->
  (sid_path Ld x (default_cfg Ld cfg) = Ok None /\ r = []) \/
  (exists p, sid_path Ld x (default_cfg Ld cfg) = Ok (Some p) /\
     let data := map (fun kv => (fst kv, Some (snd kv))) (load_sidecar F (sidecar Ld p)) in
     r = project_record (match encode enc x with
                         | Some e => if truthy e then dset data "sid" (Some e) else data
                         | None => data end) attrs).
Proof.
  unfold get_data_paths, bind. intros H.
  destruct (sid_path Ld x (default_cfg Ld cfg)) as [[p|]|e]; try discriminate.
  - right. exists p. split; [reflexivity|]. inversion H. reflexivity.
  - left. inversion H. split; reflexivity.
Qed.

(* guard: the Sid has a path (a Sid without a path gets the empty record whatever the attributes) *)
Theorem record_keys F cfg x attrs enc r p : get_data_paths Ld F cfg x attrs enc = Ok r ->
  attrs <> [] -> sid_path Ld x (default_cfg Ld cfg) = Ok (Some p) -> map fst r = attrs.
Proof using Hload Hwf.
  intros H Ha Hp. destruct (get_data_paths_inv _ _ _ _ _ _ H) as [(E & _) | (p' & _ & ->)]; [congruence|].
  destruct attrs as [|a attrs]; [congruence|]. unfold project_record.
  rewrite map_map. cbn [fst]. apply map_id.
Qed.

Theorem record_keys_cases F cfg x attrs enc r : get_data_paths Ld F cfg x attrs enc = Ok r ->
  attrs <> [] ->
  (sid_path Ld x (default_cfg Ld cfg) = Ok None /\ r = []) \/ map fst r = attrs.
Proof using Hload Hwf.
  intros H Ha. destruct (get_data_paths_inv _ _ _ _ _ _ H) as [G | (p & Hp & _)]; [left; exact G|].
  right. apply (record_keys _ _ _ _ _ _ p H Ha Hp).
Qed.

Theorem record_sid_key F cfg x enc r e p : get_data_paths Ld F cfg x [] enc = Ok r ->
  encode enc x = Some e -> truthy e = true -> sid_path Ld x (default_cfg Ld cfg) = Ok (Some p) ->
  dget r "sid" = Some (Some e).
Proof using Hload Hwf.
  intros H He Ht Hp. destruct (get_data_paths_inv _ _ _ _ _ _ H) as [(E & _) | (p' & _ & ->)]; [congruence|].
  rewrite He, Ht. cbn [project_record]. apply dget_dset_same.
Qed.

Theorem record_sid_key_untouched F cfg x enc r p : get_data_paths Ld F cfg x [] enc = Ok r ->
  encode enc x = None -> sid_path Ld x (default_cfg Ld cfg) = Ok (Some p) ->
  r = map (fun kv => (fst kv, Some (snd kv))) (load_sidecar F (sidecar Ld p)) /\
  dget r "sid" = option_map Some (dget (load_sidecar F (sidecar Ld p)) "sid").
Proof using Hload Hwf.
  intros H He Hp. destruct (get_data_paths_inv _ _ _ _ _ _ H) as [(E & _) | (p' & Hp' & ->)]; [congruence|].
  rewrite Hp in Hp'. inversion Hp'; subst p'. rewrite He. cbn [project_record].
  split; [reflexivity | apply dget_map_some].
Qed.

(** * D8 (C16): types without a path getter yield nothing, and never fail *)

Lemma group_by_getter_none qs :
  (forall q cfg, In q qs -> getter_for Rt (s_type q) false <> GPaths cfg) ->
  group_by_getter Rt qs = [].
Proof.
  intros Hg. unfold group_by_getter.
  assert (G : forall acc, fold_left (fun acc q => match getter_for Rt (s_type q) false with
                                                  | GPaths cfg => add_to_getter_group cfg q acc
                                                  | _ => acc end) qs acc = acc).
  { induction qs as [|q r IH]; intros acc; cbn [fold_left]; [reflexivity|].
    pose proof (Hg q) as Hq.
    destruct (getter_for Rt (s_type q) false) as [cfg| |].
    - exfalso. apply (Hq cfg); [left; reflexivity | reflexivity].
    - apply IH. intros q' cfg' Hin. apply Hg. right. exact Hin.
    - apply IH. intros q' cfg' Hin. apply Hg. right. exact Hin. }
  apply G.
Qed.

Theorem get_all_no_getter F search attrs enc qs :
  unfold_search Ld search false false = Ok qs ->
  (forall q, In q qs -> getter_for Rt (s_type q) false = GNone) ->
  get_all Ld Rt F search attrs enc = Ok [].
Proof using Hload Hwf.
  intros Hu Hg. unfold get_all. rewrite Hu. cbn [bind].
  rewrite group_by_getter_none; [reflexivity|].
  intros q cfg Hq. rewrite (Hg q Hq). discriminate.
Qed.

(* slightly more general: it is enough that no type is routed to a path getter *)
Theorem get_all_no_path_getter F search attrs enc qs :
  unfold_search Ld search false false = Ok qs ->
  (forall q cfg, In q qs -> getter_for Rt (s_type q) false <> GPaths cfg) ->
  get_all Ld Rt F search attrs enc = Ok [].
Proof using Hload Hwf.
  intros Hu Hg. unfold get_all. rewrite Hu. cbn [bind].
  rewrite group_by_getter_none; [reflexivity|].
  intros q cfg Hq. exact (Hg q cfg Hq).
Qed.

End Proofs.

(** * D5 (C15): paths that differ only in the final suffix share their sidecar *)

Lemma mem_c_app_false c a b : mem_c c a = false -> mem_c c b = false -> mem_c c (a ++ b) = false.
Proof. intros Ha Hb. rewrite mem_c_app, Ha, Hb. reflexivity. Qed.

(* the directory part of the sidecar of a path  d/name  (posix dirname of a normalised path, then "/") *)
Definition dir_prefix (d : string) : string :=
  let par := match split_c "/" d with [] => "." | [""] => "/" | parts => join "/" parts end in
  if String.eqb par "/" then "/" else par ++ "/".

(* the sidecar of  d/stem.x  (x: a non-empty final suffix without "." and "/") is  d/.stem<data_suffix> *)
Theorem sidecar_path_formula suf d stem x :
  mem_c "/" stem = false -> mem_c "/" x = false -> mem_c "." x = false -> x <> "" ->
  sidecar_path suf (d ++ "/" ++ stem ++ "." ++ x) = dir_prefix d ++ "." ++ stem ++ suf.
Proof.
  intros Hs Hx Hd Hne. unfold sidecar_path, dir_prefix.
  assert (Hl : mem_c "/" (stem ++ "." ++ x) = false).
  { apply mem_c_app_false; [exact Hs|]. cbn [append mem_c]. rewrite Hx. reflexivity. }
  assert (Hl1 : stem ++ "." ++ x <> "").
  { destruct stem; discriminate. }
  assert (Hl2 : stem ++ "." ++ x <> ".").
  { destruct stem as [|a st]; cbn [append].
    - intros E. inversion E. congruence.
    - intros E. inversion E as [[Ea Eb]]. destruct st; discriminate. }
  rewrite (path_name_last d _ Hl Hl1 Hl2), (parent_path_last d _ Hl).
  change ("." ++ stem ++ "." ++ x) with (("." ++ stem) ++ String "." x).
  rewrite (rfind_dot_last ("." ++ stem) x Hd).
  assert (Hlt : Nat.ltb 0 (String.length ("." ++ stem)) &&
                Nat.ltb (String.length ("." ++ stem)) (String.length (("." ++ stem) ++ String "." x) - 1) = true).
  { rewrite length_app_s. cbn [String.length append]. apply andb_true_iff. split; apply Nat.ltb_lt; [lia|].
    destruct x; [congruence|]. rewrite ?length_app_s. cbn [String.length]. lia. }
  rewrite Hlt, take_length_app. rewrite !app_assoc_s. reflexivity.
Qed.

Theorem sidecar_same_stem suf d stem x1 x2 :
  mem_c "/" stem = false ->
  mem_c "/" x1 = false -> mem_c "." x1 = false -> x1 <> "" ->
  mem_c "/" x2 = false -> mem_c "." x2 = false -> x2 <> "" ->
  sidecar_path suf (d ++ "/" ++ stem ++ "." ++ x1) = sidecar_path suf (d ++ "/" ++ stem ++ "." ++ x2).
Proof.
  intros Hs A1 A2 A3 B1 B2 B3.
  rewrite (sidecar_path_formula suf d stem x1 Hs A1 A2 A3), (sidecar_path_formula suf d stem x2 Hs B1 B2 B3).
  reflexivity.
Qed.

(* the instance of the brief *)
Corollary sidecar_same_stem_ma_mb suf d stem : mem_c "/" stem = false ->
  sidecar_path suf (d ++ "/" ++ stem ++ ".ma") = sidecar_path suf (d ++ "/" ++ stem ++ ".mb").
Proof.
  intros Hs. apply (sidecar_same_stem suf d stem "ma" "mb" Hs); try reflexivity; discriminate.
Qed.

(* hence, through the writer: data written for  d/stem.ma  is what is read for  d/stem.mb  (same sidecar) *)
Corollary shared_sidecar_read (c : Conf) (Ld : Loaded) F cfg s data F' b x y d stem x1 x2 :
  load c = Some Ld -> wf_loadedb Ld = true ->
  w_update Ld F cfg s data = Ok (F', b) -> Sid Ld s = Ok x -> NoDup (map fst data) ->
  sid_path Ld x (default_cfg Ld cfg) = Ok (Some (d ++ "/" ++ stem ++ "." ++ x1)) ->
  sid_path Ld y (default_cfg Ld cfg) = Ok (Some (d ++ "/" ++ stem ++ "." ++ x2)) ->
  mem_c "/" stem = false ->
  mem_c "/" x1 = false -> mem_c "." x1 = false -> x1 <> "" ->
  mem_c "/" x2 = false -> mem_c "." x2 = false -> x2 <> "" ->
  get_data_paths Ld F' cfg y [] EncNone =
  Ok (map (fun kv => (fst kv, Some (snd kv)))
          (dupdate (load_sidecar F (sidecar Ld (d ++ "/" ++ stem ++ "." ++ x1))) data)).
Proof.
  intros Hl Hw Hu Hs Hnd Hx Hy Hst A1 A2 A3 B1 B2 B3.
  unfold get_data_paths. rewrite Hy. cbn [bind encode project_record].
  assert (E : sidecar Ld (d ++ "/" ++ stem ++ "." ++ x2) = sidecar Ld (d ++ "/" ++ stem ++ "." ++ x1)).
  { unfold sidecar. symmetry. apply sidecar_same_stem; assumption. }
  rewrite E. rewrite (read_after_write c Ld Hl Hw F cfg s data F' b x _ Hu Hs Hx Hnd). reflexivity.
Qed.
