(** Declarative semantics of the regex fragment and soundness / completeness / determinism
    of the backtracking matcher [m] of Regex/Re.v with respect to it. *)
From Coq Require Import List String Ascii Bool Arith Lia.
From Spil Require Import Base.Str Base.StrProofs Regex.Re.
Import ListNotations.
Local Open Scope string_scope.

Inductive all_cls (c : cls) : string -> Prop :=
| ac_nil : all_cls c ""
| ac_cons a s : in_cls c a = true -> all_cls c s -> all_cls c (String a s).

Inductive Matches : re -> string -> caps -> Prop :=
| MEps : Matches Eps "" []
| MChr a : Matches (Chr a) (String a "") []
| MCls c a : in_cls c a = true -> Matches (Cls c) (String a "") []
| MSeq r1 r2 w1 w2 c1 c2 :
    Matches r1 w1 c1 -> Matches r2 w2 c2 -> Matches (Seq r1 r2) (w1 ++ w2) (c1 ++ c2)%list
| MAltL r1 r2 w c : Matches r1 w c -> Matches (Alt r1 r2) w c
| MAltR r1 r2 w c : Matches r2 w c -> Matches (Alt r1 r2) w c
| MStar c w : all_cls c w -> Matches (Star c) w []
| MGrp n r w c : Matches r w c -> Matches (Grp n r) w (c ++ [(n, w)])%list.

Lemma all_cls_snoc c pre a : all_cls c pre -> in_cls c a = true -> all_cls c (pre ++ str1 a).
Proof.
  intros Hpre Ha. induction Hpre as [|b s Hb Hs IH]; simpl.
  - constructor; [exact Ha | constructor].
  - constructor; assumption.
Qed.

(** ** Soundness *)

Lemma star_sound c : forall s pre k res,
  all_cls c pre ->
  star c pre s k = Some res ->
  exists w s2, pre ++ s = w ++ s2 /\ all_cls c w /\ k w s2 = Some res.
Proof.
  induction s as [|a s IH]; intros pre k res Hpre H; simpl in H.
  - exists pre, "". auto.
  - destruct (in_cls c a) eqn:Ha.
    + destruct (star c (pre ++ str1 a) s k) eqn:Hgo.
      * inversion H; subst. apply IH in Hgo.
        -- destruct Hgo as (w & s2 & E & Hw & Hk). exists w, s2. split; auto.
           rewrite <- E. rewrite app_assoc_s. reflexivity.
        -- apply all_cls_snoc; assumption.
      * exists pre, (String a s). auto.
    + exists pre, (String a s). auto.
Qed.

Lemma m_sound : forall r s k res, m r s k = Some res ->
  exists w s2 c, s = w ++ s2 /\ Matches r w c /\ k w s2 c = Some res.
Proof.
  induction r as [| a | c | r1 IHr1 r2 IHr2 | r1 IHr1 r2 IHr2 | c | name r IHr];
    intros s k res H; simpl in H.
  - exists "", s, []. repeat split; auto. constructor.
  - destruct s as [|b s']; try discriminate. destruct (Ascii.eqb a b) eqn:E; try discriminate.
    apply Ascii.eqb_eq in E; subst. exists (String b ""), s', []. repeat split; auto. constructor.
  - destruct s as [|b s']; try discriminate. destruct (in_cls c b) eqn:E; try discriminate.
    exists (String b ""), s', []. repeat split; auto. constructor; auto.
  - apply IHr1 in H. destruct H as (w1 & s1 & c1 & E1 & M1 & H).
    apply IHr2 in H. destruct H as (w2 & s2 & c2 & E2 & M2 & H).
    exists (w1 ++ w2), s2, (c1 ++ c2)%list. subst. rewrite app_assoc_s.
    repeat split; auto. constructor; auto.
  - destruct (m r1 s k) eqn:H1.
    + inversion H; subst. apply IHr1 in H1. destruct H1 as (w & s2 & c & ? & ? & ?).
      exists w, s2, c. repeat split; auto. apply MAltL; auto.
    + apply IHr2 in H. destruct H as (w & s2 & c & ? & ? & ?).
      exists w, s2, c. repeat split; auto. apply MAltR; auto.
  - apply star_sound in H; [|constructor]. destruct H as (w & s2 & E & Hw & Hk). simpl in E.
    exists w, s2, []. repeat split; auto. constructor; auto.
  - apply IHr in H. destruct H as (w & s2 & c & ? & ? & ?).
    exists w, s2, (c ++ [(name, w)])%list. repeat split; auto. constructor; auto.
Qed.

(** ** Completeness *)

Lemma star_complete c : forall w, all_cls c w -> forall pre s2 k,
  k (pre ++ w) s2 <> None -> star c pre (w ++ s2) k <> None.
Proof.
  induction 1 as [|a w Ha Hw IH]; intros pre s2 k Hk.
  - simpl. rewrite app_nil_r_s in Hk.
    destruct s2 as [|b s2']; simpl; auto.
    destruct (in_cls c b); auto.
    destruct (star c (pre ++ str1 b) s2' k); auto; try discriminate.
  - simpl. rewrite Ha.
    specialize (IH (pre ++ str1 a) s2 k).
    rewrite app_assoc_s in IH. simpl in IH. specialize (IH Hk).
    destruct (star c (pre ++ str1 a) (w ++ s2) k); auto; try discriminate.
Qed.

Lemma m_complete : forall r w c, Matches r w c -> forall s2 k,
  k w s2 c <> None -> m r (w ++ s2) k <> None.
Proof.
  induction 1 as [| a | c a Ha | r1 r2 w1 w2 c1 c2 M1 IH1 M2 IH2 | r1 r2 w c M1 IH1
                 | r1 r2 w c M2 IH2 | c w Hw | n r w c M1 IH1]; intros s2 k Hk; simpl.
  - exact Hk.
  - rewrite Ascii.eqb_refl. exact Hk.
  - rewrite Ha. exact Hk.
  - rewrite app_assoc_s. apply IH1. apply IH2. exact Hk.
  - specialize (IH1 s2 k Hk). destruct (m r1 (w ++ s2) k); auto; try discriminate.
  - destruct (m r1 (w ++ s2) k); [discriminate|]. apply IH2; auto.
  - apply (star_complete c w Hw "" s2 (fun w' s' => k w' s' [])). exact Hk.
  - apply IH1. exact Hk.
Qed.

(** ** Determinism under unambiguity *)

Theorem m_unique : forall r s k w s2 c,
  s = w ++ s2 -> Matches r w c -> k w s2 c <> None ->
  (forall w' s2' c', s = w' ++ s2' -> Matches r w' c' -> k w' s2' c' <> None ->
                     w' = w /\ s2' = s2 /\ c' = c) ->
  m r s k = k w s2 c.
Proof.
  intros r s k w s2 c E M Hk U.
  destruct (m r s k) eqn:H.
  - apply m_sound in H. destruct H as (w' & s2' & c' & E' & M' & Hk').
    destruct (U w' s2' c' E' M') as (-> & -> & ->); [congruence|]. auto.
  - exfalso. subst s. apply (m_complete r w c M s2 k Hk H).
Qed.

(* the same without the requirement that the continuation succeeds on the unique candidate *)
Theorem m_unique' : forall r s k w s2 c,
  s = w ++ s2 -> Matches r w c ->
  (forall w' s2' c', s = w' ++ s2' -> Matches r w' c' -> k w' s2' c' <> None ->
                     w' = w /\ s2' = s2 /\ c' = c) ->
  m r s k = k w s2 c.
Proof.
  intros r s k w s2 c E M U.
  destruct (k w s2 c) eqn:Hk.
  - rewrite <- Hk. apply m_unique; auto. congruence.
  - destruct (m r s k) as [res|] eqn:H; [|reflexivity].
    apply m_sound in H. destruct H as (w' & s2' & c' & E' & M' & Hk').
    destruct (U w' s2' c' E' M') as (-> & -> & ->); congruence.
Qed.

Theorem m_none : forall r s k,
  (forall w s2 c, s = w ++ s2 -> Matches r w c -> k w s2 c = None) ->
  m r s k = None.
Proof.
  intros r s k U. destruct (m r s k) as [res|] eqn:H; [|reflexivity].
  apply m_sound in H. destruct H as (w & s2 & c & E & M & Hk).
  rewrite (U w s2 c E M) in Hk. discriminate.
Qed.

(** ** Full match *)

Lemma sempty_true s : sempty s = true -> s = "".
Proof. destruct s; [reflexivity | discriminate]. Qed.

Theorem match_full_iff : forall r s, match_full r s = true <-> exists c, Matches r s c.
Proof.
  intros r s. unfold match_full. split.
  - destruct (m r s _) as [res|] eqn:H; [|discriminate]. intros _.
    apply m_sound in H. destruct H as (w & s2 & c & E & M & Hk).
    destruct (sempty s2) eqn:Es; [|discriminate]. apply sempty_true in Es. subst s2.
    rewrite app_nil_r_s in E. subst w. exists c. exact M.
  - intros (c & M).
    pose proof (m_complete r s c M "" (fun _ rest c0 => if sempty rest then Some c0 else None)) as H.
    rewrite app_nil_r_s in H.
    destruct (m r s _); [reflexivity|]. exfalso. apply H; [discriminate | reflexivity].
Qed.

(** ** The class star is greedy *)

Lemma star_greedy c : forall w, all_cls c w -> forall pre k x,
  k (pre ++ w) "" = Some x -> star c pre w k = Some x.
Proof.
  induction 1 as [|a w Ha Hw IH]; intros pre k x Hk.
  - simpl. rewrite app_nil_r_s in Hk. exact Hk.
  - simpl. rewrite Ha. rewrite (IH (pre ++ str1 a) k x).
    + reflexivity.
    + rewrite app_assoc_s. simpl. exact Hk.
Qed.

(** ** Captures and characters of a match *)

Lemma Matches_Star_inv c w cs : Matches (Star c) w cs -> all_cls c w /\ cs = [].
Proof. intros H. inversion H; subst. split; auto. Qed.
