From Coq Require Import List String.
Example C04_placeholder : True. Proof. exact I. Qed.
Print Assumptions C04_placeholder.
