(** The guard of Sid/NewlineProofs.v cannot be dropped: a loadable, well-formed configuration and
    naturally typed Sids on which the UNGUARDED statements of [roundtrip_fields], [get_as_prefix] and
    [div_parent] are false of the model.

    Two templates with the same keys; the first has a closed last placeholder, the second an open one:
      a__f : {project:(p)}/{ext:(ma|mb)}         a__g : {project:(p)}/{ext}
    The string "p/ma\n" is typed a__g (a__f rejects it: the canonical check).  Rebuilding the Sid
    from its fields, resolva's format_one tries a__f first; its reverse check searches
    ^(p)/(ma|mb)$ in "p/ma\n": "$" matches before the final newline, so a__f is (wrongly) a hit and
    is chosen; the string then does not type as a__f and the factory returns the empty Sid. *)
From Coq Require Import List String Ascii Bool Arith Lia Permutation.
From Spil Require Import Base.Str Base.Dict Base.Outcome Base.Tree
  Regex.Re Resolva.Template Resolva.Resolver Conf.ConfUtil Conf.Conf Conf.WF
  Sid.Query Sid.Sid Sid.TypingSpec Sid.TypingProofs Sid.SidLemmas Sid.SidProofs
  Sid.NewlineLemmas Sid.NewlineProofs Sid.NewlineHits Sid.NewlineConf.
Import ListNotations.
Local Open Scope string_scope.

Definition bad_conf : Conf :=
  mkConf "__" ["*"]
    [("project", "{project:(p)}");
     ("a__f", "{project:(p)}/{ext:(ma|mb)}");
     ("a__g", "{project:(p)}/{ext}");
     ("a__h", "{project:(p)}/{ext}/{leaf}")]
    [] [] [] [] None [] [] [] [] "" "".

Definition bad_loaded_opt := load bad_conf.
Lemma bad_conf_loads : bad_loaded_opt <> None.
Proof. vm_compute. discriminate. Qed.

Definition bad_loaded : Loaded :=
  match bad_loaded_opt as o return (o <> None -> Loaded) with
  | Some l => fun _ => l
  | None => fun H => match H eq_refl with end
  end bad_conf_loads.

Lemma bad_loaded_eq : load bad_conf = Some bad_loaded.
Proof. vm_compute. reflexivity. Qed.

Lemma bad_conf_wf : wf_loadedb bad_loaded = true.
Proof. vm_compute. reflexivity. Qed.

(* the configuration-level guard fails, as it must *)
Lemma bad_conf_not_safe : nl_safe (r_tpls (l_sid bad_loaded)) = false.
Proof. vm_compute. reflexivity. Qed.

(* "p/ma\n"  and  "p/ma\n/z" *)
Definition x1 : sid := mkSid ("p/ma" ++ nl) "a__g" [("project", "p"); ("ext", "ma" ++ nl)].
Definition x2 : sid :=
  mkSid ("p/ma" ++ nl ++ "/z") "a__h" [("project", "p"); ("ext", "ma" ++ nl); ("leaf", "z")].

Lemma x1_typed : naturally_typed bad_loaded x1.
Proof. vm_compute. reflexivity. Qed.
Lemma x2_typed : naturally_typed bad_loaded x2.
Proof. vm_compute. reflexivity. Qed.

(* what the string factory gives: x1 and x2 themselves *)
Example x1_from_string : Sid bad_loaded (s_string x1) = Ok x1.
Proof. vm_compute. reflexivity. Qed.
Example x2_from_string : Sid bad_loaded (s_string x2) = Ok x2.
Proof. vm_compute. reflexivity. Qed.

(** ** The three unguarded statements are false *)

Example roundtrip_fields_value_bad : sid_factory bad_loaded (FromFields (s_fields x1)) = Ok empty_sid.
Proof. vm_compute. reflexivity. Qed.

Example roundtrip_fields_refuted :
  ~ (forall x d', naturally_typed bad_loaded x -> Permutation (s_fields x) d' ->
       sid_factory bad_loaded (FromFields d') = Ok x).
Proof.
  intros H. specialize (H x1 (s_fields x1) x1_typed (Permutation_refl _)).
  rewrite roundtrip_fields_value_bad in H. discriminate H.
Qed.

Example get_as_value_bad : get_as bad_loaded x2 "ext" = Ok empty_sid.
Proof. vm_compute. reflexivity. Qed.

Example get_as_prefix_refuted :
  ~ (forall x i, naturally_typed bad_loaded x -> 1 <= i <= List.length (s_fields x) ->
       exists y, get_as bad_loaded x (nth (i - 1) (map fst (s_fields x)) "") = Ok y /\
         s_fields y = firstn i (s_fields x) /\
         s_string y = join "/" (firstn i (split_c "/" (s_string x))) /\
         sid_bool y = true).
Proof.
  intros H. destruct (H x2 2 x2_typed) as (y & Hy & _ & _ & Hb).
  - cbn. lia.
  - change (nth (2 - 1) (map fst (s_fields x2)) "") with "ext" in Hy.
    rewrite get_as_value_bad in Hy. inversion Hy; subst y. discriminate Hb.
Qed.

Example parent_value_bad : parent bad_loaded x2 = Ok empty_sid.
Proof. vm_compute. reflexivity. Qed.

Example div_parent_refuted :
  ~ (forall x y, naturally_typed bad_loaded x -> 1 < List.length (s_fields x) ->
       mem_c "?" (s_string x) = false -> mem_c ":" (s_string x) = false ->
       parent bad_loaded x = Ok y ->
       sid_div bad_loaded y (last (map snd (s_fields x)) "") = Ok x).
Proof.
  intros H. specialize (H x2 empty_sid x2_typed).
  assert (G : sid_div bad_loaded empty_sid (last (map snd (s_fields x2)) "") = Ok x2).
  { apply H; [cbn; lia | reflexivity | reflexivity | exact parent_value_bad]. }
  vm_compute in G. discriminate G.
Qed.

(* the guard detects it; without the final newline everything is fine again *)
Example x1_guard : nl_ok bad_loaded (map fst (s_fields x1)) (s_string x1) = false.
Proof. vm_compute. reflexivity. Qed.
Example x2_guard : nl_ok_prefix bad_loaded x2 2 = false.
Proof. vm_compute. reflexivity. Qed.

(* a newline INSIDE the value is harmless here, too *)
Definition x3 : sid :=
  mkSid ("p/m" ++ nl ++ "a") "a__g" [("project", "p"); ("ext", "m" ++ nl ++ "a")].
Example x3_roundtrip : naturally_typed bad_loaded x3 /\
  sid_factory bad_loaded (FromFields (rev (s_fields x3))) = Ok x3.
Proof. split; vm_compute; reflexivity. Qed.

(** ** Assumptions of the main results *)
Print Assumptions roundtrip_fields_full.
Print Assumptions get_as_prefix_full.
Print Assumptions div_parent_full.
Print Assumptions roundtrip_fields_iff.
Print Assumptions roundtrip_fields_shadow.
Print Assumptions sid_of_fields_spec.
Print Assumptions rc_hit_iff.
Print Assumptions roundtrip_fields_nl.
Print Assumptions get_as_prefix_nl.
Print Assumptions div_parent_nl.
Print Assumptions roundtrip_fields_conf.
Print Assumptions get_as_prefix_conf.
Print Assumptions div_parent_conf.
Print Assumptions roundtrip_fields_refuted.
Print Assumptions get_as_prefix_refuted.
Print Assumptions div_parent_refuted.
