(** String- and list-level lemmas for Search/DenoteProofs.v (C07). *)
From Coq Require Import List String Ascii Bool Arith Lia Permutation.
From Spil Require Import Base.Str Base.Dict Base.Outcome Base.StrProofs Base.SplitProofs
  Regex.Re Regex.MatchProofs Resolva.Template Resolva.Resolver Conf.ConfUtil Conf.Conf Conf.WF
  Sid.Query Sid.Sid Sid.TypingSpec Sid.TypingProofs Sid.SidLemmas Sid.SidProofs
  Search.Unfold Search.SortLemmas Search.UnfoldProofs Search.UnfoldSpec.
Import ListNotations.
Local Open Scope string_scope.

(** * one-character [contains] / [count] *)

Lemma contains_str1 c s : contains (str1 c) s = mem_c c s.
Proof.
  induction s as [|a s IH]; [reflexivity|].
  cbn [contains mem_c]. rewrite IH. unfold str1. cbn [startswith].
  rewrite andb_true_r, Ascii.eqb_sym. reflexivity.
Qed.

Lemma count_str1 c s : count (str1 c) s = count_c c s.
Proof.
  unfold count, str1. induction s as [|a s IH]; [reflexivity|].
  cbn [count_aux count_c startswith String.length Nat.sub]. rewrite andb_true_r, IH, Ascii.eqb_sym.
  destruct (Ascii.eqb a c); reflexivity.
Qed.

Lemma count_c_pos c s : Nat.ltb 0 (count_c c s) = mem_c c s.
Proof.
  induction s as [|a s IH]; [reflexivity|]. cbn [count_c mem_c].
  destruct (Ascii.eqb a c); [reflexivity|]. exact IH.
Qed.

Lemma count_c_zero c s : Nat.eqb (count_c c s) 0 = negb (mem_c c s).
Proof.
  induction s as [|a s IH]; [reflexivity|]. cbn [count_c mem_c].
  destruct (Ascii.eqb a c); [reflexivity|]. exact IH.
Qed.

(** * [count], [replace], [split_s] for a non-empty separator: hit / miss equations *)

Lemma count_aux_skip sub : forall x rest, count_aux sub (String.length x) (x ++ rest) = count_aux sub 0 rest.
Proof. induction x as [|a x IH]; intros rest; [reflexivity|]. cbn [String.length append count_aux]. apply IH. Qed.

Lemma replace_aux_skip old new : forall x rest,
  replace_aux old new (String.length x) (x ++ rest) = replace_aux old new 0 rest.
Proof. induction x as [|a x IH]; intros rest; [reflexivity|]. cbn [String.length append replace_aux]. apply IH. Qed.

Lemma split_s_aux_skip sep : forall x rest,
  split_s_aux sep (String.length x) (x ++ rest) = split_s_aux sep 0 rest.
Proof. induction x as [|a x IH]; intros rest; [reflexivity|]. cbn [String.length append split_s_aux]. apply IH. Qed.

Lemma startswith_self_app p rest : startswith p (p ++ rest) = true.
Proof. induction p as [|a p IH]; [reflexivity|]. cbn [append startswith]. rewrite Ascii.eqb_refl. exact IH. Qed.

Lemma startswith_inv p : forall s, startswith p s = true -> exists rest, s = p ++ rest.
Proof.
  induction p as [|a p IH]; intros s H; [exists s; reflexivity|].
  destruct s as [|b s]; [discriminate|]. cbn [startswith] in H.
  apply andb_true_iff in H. destruct H as (H1 & H2). apply Ascii.eqb_eq in H1. subst b.
  destruct (IH s H2) as (rest & ->). exists rest. reflexivity.
Qed.

Section NonEmptySep.
Variables (c0 : ascii) (sub' : string).
Local Notation sub := (String c0 sub').

Lemma len_sub_pred : String.length sub - 1 = String.length sub'.
Proof. cbn [String.length]. lia. Qed.

Lemma count_hit rest : count sub (sub ++ rest) = S (count sub rest).
Proof.
  unfold count. change (sub ++ rest) with (String c0 (sub' ++ rest)).
  cbn [count_aux]. change (String c0 (sub' ++ rest)) with (sub ++ rest).
  rewrite startswith_self_app, len_sub_pred, count_aux_skip. reflexivity.
Qed.

Lemma count_miss a s : startswith sub (String a s) = false -> count sub (String a s) = count sub s.
Proof. intros H. unfold count. cbn [count_aux]. rewrite H. reflexivity. Qed.

Lemma replace_hit new rest : replace sub new (sub ++ rest) = new ++ replace sub new rest.
Proof.
  unfold replace. cbn [sempty]. change (sub ++ rest) with (String c0 (sub' ++ rest)).
  cbn [replace_aux]. change (String c0 (sub' ++ rest)) with (sub ++ rest).
  rewrite startswith_self_app, len_sub_pred, replace_aux_skip. reflexivity.
Qed.

Lemma replace_miss new a s : startswith sub (String a s) = false ->
  replace sub new (String a s) = String a (replace sub new s).
Proof. intros H. unfold replace. cbn [sempty replace_aux]. rewrite H. reflexivity. Qed.

Lemma replace_nil new : replace sub new "" = "".
Proof. reflexivity. Qed.

Lemma split_s_hit rest : split_s sub (sub ++ rest) = "" :: split_s sub rest.
Proof.
  unfold split_s. change (sub ++ rest) with (String c0 (sub' ++ rest)).
  cbn [split_s_aux]. change (String c0 (sub' ++ rest)) with (sub ++ rest).
  rewrite startswith_self_app, len_sub_pred, split_s_aux_skip. reflexivity.
Qed.

Lemma split_s_miss a s : startswith sub (String a s) = false ->
  split_s sub (String a s) = match split_s sub s with h :: t => String a h :: t | [] => [str1 a] end.
Proof. intros H. unfold split_s. cbn [split_s_aux]. rewrite H. reflexivity. Qed.

(* the first occurrence of the separator, if any *)
Lemma first_occ : forall s,
  (count sub s = 0 /\ split_s sub s = [s] /\ forall new, replace sub new s = s) \/
  (exists pre post, s = pre ++ sub ++ post /\ hd "" (split_s sub s) = pre /\
     count sub s = S (count sub post) /\
     forall new, replace sub new s = pre ++ new ++ replace sub new post).
Proof.
  induction s as [|a s IH].
  - left. repeat split.
  - destruct (startswith sub (String a s)) eqn:E.
    + right. destruct (startswith_inv _ _ E) as (rest & Er). exists "", rest.
      rewrite Er. split; [reflexivity|]. split; [rewrite split_s_hit; reflexivity|].
      split; [apply count_hit|]. intros new. apply replace_hit.
    + destruct IH as [(Hc & Hs & Hr) | (pre & post & Es & Hh & Hc & Hr)].
      * left. split; [rewrite (count_miss _ _ E); exact Hc|].
        split; [rewrite (split_s_miss _ _ E), Hs; reflexivity|].
        intros new. rewrite (replace_miss _ _ _ E), Hr. reflexivity.
      * right. exists (String a pre), post. split; [rewrite Es; reflexivity|].
        split.
        { rewrite (split_s_miss _ _ E). destruct (split_s sub s) as [|h t]; cbn [hd] in *.
          - rewrite <- Hh. reflexivity.
          - rewrite Hh. reflexivity. }
        split; [rewrite (count_miss _ _ E); exact Hc|].
        intros new. rewrite (replace_miss _ _ _ E), Hr. reflexivity.
Qed.

Lemma count0_replace s new : count sub s = 0 -> replace sub new s = s.
Proof.
  intros H. destruct (first_occ s) as [(_ & _ & Hr) | (pre & post & _ & _ & Hc & _)]; [apply Hr | lia].
Qed.

Lemma count0_split s : count sub s = 0 -> split_s sub s = [s].
Proof.
  intros H. destruct (first_occ s) as [(_ & Hs & _) | (pre & post & _ & _ & Hc & _)]; [exact Hs | lia].
Qed.

(* exactly one occurrence *)
Lemma one_occ s : count sub s = 1 ->
  exists pre post, s = pre ++ sub ++ post /\ hd "" (split_s sub s) = pre /\ count sub post = 0 /\
    forall new, replace sub new s = pre ++ new ++ post.
Proof.
  intros H. destruct (first_occ s) as [(Hc & _) | (pre & post & Es & Hh & Hc & Hr)]; [lia|].
  exists pre, post. split; [exact Es|]. split; [exact Hh|]. split; [lia|].
  intros new. rewrite Hr, count0_replace by lia. reflexivity.
Qed.

(* the head of the split is the string itself or the text before the first occurrence *)
Lemma split_s_head s :
  hd "" (split_s sub s) = s \/ exists post, s = hd "" (split_s sub s) ++ sub ++ post.
Proof.
  destruct (first_occ s) as [(_ & Hs & _) | (pre & post & Es & Hh & _)].
  - left. rewrite Hs. reflexivity.
  - right. exists post. rewrite Hh. exact Es.
Qed.

End NonEmptySep.

(** * [strip] is idempotent *)

Definition head_ok (s : string) : Prop :=
  match s with "" => True | String a _ => is_space a = false end.

Lemma lstrip_head_ok s : head_ok (lstrip s).
Proof.
  induction s as [|a s IH]; [exact I|]. cbn [lstrip]. destruct (is_space a) eqn:E; [exact IH | exact E].
Qed.

Lemma lstrip_id s : head_ok s -> lstrip s = s.
Proof. destruct s as [|a s]; [reflexivity|]. cbn [head_ok lstrip]. intros ->. reflexivity. Qed.

Lemma head_ok_app_l a b : head_ok (a ++ b) -> a <> "" -> head_ok a.
Proof. destruct a as [|x a]; [congruence|]. cbn [append head_ok]. auto. Qed.

Lemma strip_head_ok s : head_ok (strip s).
Proof.
  unfold strip. set (t := lstrip s). pose proof (lstrip_head_ok s) as Ht. fold t in Ht.
  destruct (lstrip_suffix (rev_s t)) as (pre & E).
  set (u := lstrip (rev_s t)) in *.
  assert (Et : t = rev_s u ++ rev_s pre).
  { rewrite <- (rev_s_invol t), E, rev_s_app. reflexivity. }
  destruct (rev_s u) as [|x y] eqn:Eu; [exact I|].
  apply (head_ok_app_l (String x y) (rev_s pre)); [rewrite <- Et; exact Ht | discriminate].
Qed.

Lemma strip_tail_ok s : head_ok (rev_s (strip s)).
Proof. unfold strip. rewrite rev_s_invol. apply lstrip_head_ok. Qed.

Lemma strip_id x : head_ok x -> head_ok (rev_s x) -> strip x = x.
Proof. intros H1 H2. unfold strip. rewrite (lstrip_id x H1), (lstrip_id _ H2). apply rev_s_invol. Qed.

Lemma strip_idem s : strip (strip s) = strip s.
Proof. apply strip_id; [apply strip_head_ok | apply strip_tail_ok]. Qed.

Lemma strip_empty : strip "" = "".
Proof. reflexivity. Qed.

(** * [sort_s] is a permutation *)

Lemma sort_s_isort l : sort_s l = isort str_leb l.
Proof. reflexivity. Qed.

Lemma sort_s_In x l : In x (sort_s l) <-> In x l.
Proof.
  rewrite sort_s_isort. split; intros H.
  - apply (Permutation_in _ (Permutation_sym (isort_perm str_leb l)) H).
  - apply (Permutation_in _ (isort_perm str_leb l) H).
Qed.

Lemma sort_s_length l : List.length (sort_s l) = List.length l.
Proof. rewrite sort_s_isort. symmetry. apply Permutation_length. apply isort_perm. Qed.

(** * join / split *)

Lemma mem_c_join_two c x y l : mem_c c (join (str1 c) (x :: y :: l)) = true.
Proof.
  rewrite join_cons2, mem_c_app. unfold str1 at 1. cbn [append mem_c]. rewrite Ascii.eqb_refl.
  cbn [orb]. apply orb_true_r.
Qed.

Lemma join_nomem_single c l : l <> [] -> mem_c c (join (str1 c) l) = false -> exists x, l = [x].
Proof.
  intros Hne H. destruct l as [|x [|y l]]; [congruence | exists x; reflexivity|].
  rewrite mem_c_join_two in H. discriminate.
Qed.

Lemma map_id_in {A} (f : A -> A) l : (forall x, In x l -> f x = x) -> map f l = l.
Proof.
  induction l as [|a l IH]; intros H; [reflexivity|]. cbn [map]. rewrite (H a (or_introl eq_refl)).
  f_equal. apply IH. intros x Hx. apply H. right. exact Hx.
Qed.

Lemma removelast_last_s (l : list string) : l <> [] -> l = (removelast l ++ [last l ""])%list.
Proof. intros H. apply app_removelast_last. exact H. Qed.

Lemma Forall_removelast {A} (P : A -> Prop) l : Forall P l -> Forall P (removelast l).
Proof.
  induction l as [|a l IH]; intros H; [constructor|]. inversion H; subst.
  destruct l as [|b l]; [constructor|]. cbn [removelast]. constructor; [assumption|]. apply IH. assumption.
Qed.

Lemma Forall_last_s (P : string -> Prop) l : l <> [] -> Forall P l -> P (last l "").
Proof.
  intros Hne H. rewrite Forall_forall in H. apply H.
  rewrite (removelast_last_s l Hne) at 2. apply in_or_app. right. left. reflexivity.
Qed.

Lemma mem_c_piece a c s p : mem_c a s = false -> In p (split_c c s) -> mem_c a p = false.
Proof. intros H Hin. pose proof (mem_c_split a c s H) as Hall. rewrite Forall_forall in Hall. apply Hall. exact Hin. Qed.

Lemma mem_c_app_false a x y : mem_c a (x ++ y) = false -> mem_c a x = false /\ mem_c a y = false.
Proof. rewrite mem_c_app. apply orb_false_iff. Qed.

(** * the cartesian product *)

Lemma product_In : forall ls ch, In ch (product ls) <-> Forall2 (fun l a => In a l) ls ch.
Proof.
  induction ls as [|l ls IH]; intros ch; cbn [product].
  - split.
    + intros [<-|[]]. constructor.
    + intros H. inversion H. left. reflexivity.
  - rewrite in_flat_map. split.
    + intros (x & Hx & Hin). apply in_map_iff in Hin. destruct Hin as (t & <- & Ht).
      constructor; [exact Hx | apply IH; exact Ht].
    + intros H. inversion H as [|? a ? t Ha Ht]; subst. exists a. split; [exact Ha|].
      apply in_map. apply IH. exact Ht.
Qed.

Lemma Forall2_app_inv_l_s {A B} (R : A -> B -> Prop) l1 l2 l :
  Forall2 R (l1 ++ l2) l -> exists a b, l = (a ++ b)%list /\ Forall2 R l1 a /\ Forall2 R l2 b.
Proof.
  intros H. apply Forall2_app_inv_l in H. destruct H as (a & b & H1 & H2 & E). exists a, b. auto.
Qed.

Lemma Forall2_impl_s {A B} (R R' : A -> B -> Prop) l l' :
  (forall a b, R a b -> R' a b) -> Forall2 R l l' -> Forall2 R' l l'.
Proof. intros H. induction 1; constructor; auto. Qed.

Lemma Forall2_map_l {A B C} (f : A -> B) (R : B -> C -> Prop) l l' :
  Forall2 R (map f l) l' <-> Forall2 (fun x y => R (f x) y) l l'.
Proof.
  revert l'. induction l as [|a l IH]; intros l'; cbn [map].
  - split; intros H; inversion H; constructor.
  - split; intros H; inversion H; subst; constructor; try assumption; apply IH; assumption.
Qed.

Lemma contains_tail a M : forall t, contains (String a M) t = true -> contains M t = true.
Proof.
  induction t as [|b t IH]; intros H; [cbn in H; discriminate|].
  cbn [contains] in H. apply orb_true_iff in H. destruct H as [H|H].
  - cbn [startswith] in H. apply andb_true_iff in H. destruct H as (_ & H).
    apply contains_cons. apply startswith_contains. exact H.
  - apply contains_cons. apply IH. exact H.
Qed.

Lemma contains_self M : contains M M = true.
Proof. apply startswith_contains. rewrite <- (app_nil_r_s M) at 2. apply startswith_self_app. Qed.

Lemma count_pos_contains c0 sub' s : count (String c0 sub') s <> 0 -> contains (String c0 sub') s = true.
Proof.
  intros H. destruct (first_occ c0 sub' s) as [(Hc & _) | (pre & post & E & _)]; [congruence|].
  rewrite E. apply contains_middle. apply contains_self.
Qed.

Lemma count_nomem c0 sub' s : mem_c c0 s = false -> count (String c0 sub') s = 0.
Proof.
  induction s as [|a s IH]; intros H; [reflexivity|].
  cbn [mem_c] in H. apply orb_false_iff in H. destruct H as (Ha & Hs).
  rewrite count_miss; [apply IH; exact Hs|]. cbn [startswith]. rewrite Ascii.eqb_sym, Ha. reflexivity.
Qed.

(* an occurrence of [sub] does not straddle a separator that [sub] does not contain *)
Lemma count_app_sep c0 sub' sep : mem_c sep (String c0 sub') = false ->
  forall n a, String.length a <= n -> forall rest,
  count (String c0 sub') (a ++ String sep rest) = count (String c0 sub') a + count (String c0 sub') rest.
Proof.
  intros Hsep. induction n as [|n IH]; intros a Hlen rest.
  - destruct a; [|simpl in Hlen; lia]. cbn [append]. rewrite count_miss; [reflexivity|].
    cbn [startswith]. cbn [mem_c] in Hsep. apply orb_false_iff in Hsep. destruct Hsep as (H & _). rewrite H. reflexivity.
  - destruct a as [|x a'].
    + cbn [append]. rewrite count_miss; [reflexivity|].
      cbn [startswith]. cbn [mem_c] in Hsep. apply orb_false_iff in Hsep. destruct Hsep as (H & _). rewrite H. reflexivity.
    + destruct (startswith (String c0 sub') (String x a')) eqn:E.
      * destruct (startswith_inv _ _ E) as (r & Er). rewrite Er.
        rewrite app_assoc_s, !count_hit. rewrite IH; [reflexivity|].
        apply (f_equal String.length) in Er. rewrite length_app_s in Er. simpl in Er, Hlen. lia.
      * assert (E' : startswith (String c0 sub') (String x a' ++ String sep rest) = false).
        { destruct (startswith (String c0 sub') (String x a' ++ String sep rest)) eqn:E2; [|reflexivity].
          rewrite (startswith_sepfree sep _ rest Hsep (String x a') E2) in E. discriminate. }
        change (String x a' ++ String sep rest) with (String x (a' ++ String sep rest)) in *.
        rewrite (count_miss _ _ _ _ E'), (count_miss _ _ _ _ E). apply IH. simpl in Hlen. lia.
Qed.

(** * Stage 1a: [extensions] and [or_op] on a query-free string *)

Lemma alts_comma g : alts g = comma_alts g.
Proof. unfold alts, comma_alts. change ors with (str1 ","). rewrite contains_str1. reflexivity. Qed.

Lemma split_query_nomem s : mem_c "?" s = false -> split_query s = (s, "").
Proof. intros H. unfold split_query. rewrite (split1_c_nomem "?" s H). reflexivity. Qed.

Lemma comma_alts_ne g : comma_alts g <> [].
Proof.
  unfold comma_alts. destruct (mem_c "," g); [|discriminate].
  destruct (split_c "," g) eqn:E; [exfalso; exact (split_c_not_nil _ _ E) | discriminate].
Qed.

Lemma comma_alts_nomem a g p : mem_c a g = false -> In p (comma_alts g) -> mem_c a p = false.
Proof.
  unfold comma_alts. intros Hg. destruct (mem_c "," g).
  - intros Hin. apply in_map_iff in Hin. destruct Hin as (q & <- & Hq). apply mem_c_strip.
    apply (mem_c_piece a "," g q Hg Hq).
  - intros [<-|[]]. exact Hg.
Qed.

Lemma comma_alts_contains M g p : In p (comma_alts g) -> contains M p = true -> contains M g = true.
Proof. rewrite <- alts_comma. apply contains_alt. Qed.

Lemma comma_alts_nocomma g p : In p (comma_alts g) -> mem_c "," p = false.
Proof.
  unfold comma_alts. destruct (mem_c "," g) eqn:E.
  - intros Hin. apply in_map_iff in Hin. destruct Hin as (q & <- & Hq). apply mem_c_strip.
    pose proof (split_c_nomem_all "," g) as Hall. rewrite Forall_forall in Hall. apply Hall. exact Hq.
  - intros [<-|[]]. exact E.
Qed.

Section Stage1a.
Variable Ld : Loaded.
Hypothesis Hconf : unfold_conf_okb Ld = true.

Local Notation c := (l_conf Ld).

Definition is_member (x : string) : Prop :=
  exists a m, dget (c_extension_alias c) a = Some m /\ In x m.

Lemma alias_ok a m : dget (c_extension_alias c) a = Some m ->
  m <> [] /\ forall x, In x m -> member_ok x = true.
Proof.
  intros H. apply dget_Some_In in H. unfold unfold_conf_okb in Hconf.
  apply andb_true_iff in Hconf. destruct Hconf as (H1 & _). rewrite forallb_forall in H1.
  specialize (H1 _ H). cbn [snd] in H1. apply andb_true_iff in H1. destruct H1 as (Hne & Hall).
  split; [destruct m; [discriminate | discriminate]|]. rewrite forallb_forall in Hall. exact Hall.
Qed.

Lemma typed_narrowing_off k q : dget (c_typed_narrowing c) k = Some q -> q = "".
Proof.
  intros H. apply dget_Some_In in H. unfold unfold_conf_okb in Hconf.
  apply andb_true_iff in Hconf. destruct Hconf as (_ & H2). rewrite forallb_forall in H2.
  specialize (H2 _ H). cbn [snd] in H2. destruct q; [reflexivity | discriminate].
Qed.

Lemma member_ok_parts x : member_ok x = true ->
  mem_c "?" x = false /\ mem_c ":" x = false /\ mem_c "010" x = false /\ mem_c "/" x = false /\
  mem_c "," x = false /\ strip x = x /\ contains start_marker x = false /\ mem_c "*" x = false.
Proof.
  unfold member_ok, plain_str. intros H.
  repeat (apply andb_true_iff in H; destruct H as (H & ?)).
  repeat match goal with Hn : negb _ = true |- _ => apply negb_true_iff in Hn end.
  match goal with He : String.eqb _ _ = true |- _ => apply String.eqb_eq in He end.
  repeat split; assumption.
Qed.

Lemma is_member_ok x : is_member x -> member_ok x = true.
Proof. intros (a & m & H & Hin). apply (alias_ok a m H). exact Hin. Qed.

Lemma alias_members_cases p x : In x (alias_members Ld p) -> x = p \/ is_member x.
Proof.
  unfold alias_members. destruct (dget (c_extension_alias c) p) as [m|] eqn:E.
  - intros Hin. right. exists p, m. split; assumption.
  - intros [<-|[]]. left. reflexivity.
Qed.

Lemma alias_members_ne p : alias_members Ld p <> [].
Proof.
  unfold alias_members. destruct (dget (c_extension_alias c) p) as [m|] eqn:E; [|discriminate].
  apply (alias_ok p m E).
Qed.

Definition ext_list (g : string) : list string := flat_map (alias_members Ld) (comma_alts g).

Lemma ext_list_cases g x : In x (ext_list g) -> In x (comma_alts g) \/ is_member x.
Proof.
  unfold ext_list. intros H. apply in_flat_map in H. destruct H as (p & Hp & Hx).
  destruct (alias_members_cases p x Hx) as [->|Hm]; [left; exact Hp | right; exact Hm].
Qed.

Lemma ext_list_ne g : ext_list g <> [].
Proof.
  unfold ext_list. destruct (comma_alts g) as [|p l] eqn:E; [exfalso; exact (comma_alts_ne g E)|].
  cbn [flat_map]. pose proof (alias_members_ne p) as H. destruct (alias_members Ld p); [congruence | discriminate].
Qed.

Lemma ext_list_nocomma g x : In x (ext_list g) -> mem_c "," x = false.
Proof.
  intros H. destruct (ext_list_cases g x H) as [H1|H1].
  - apply (comma_alts_nocomma g x H1).
  - apply (member_ok_parts x (is_member_ok x H1)).
Qed.

Lemma ext_list_fixed g : (forall x, In x (ext_list g) -> strip x = x) \/ ext_list g = [g].
Proof.
  unfold ext_list, comma_alts. destruct (mem_c "," g) eqn:E.
  - left. intros x H. apply in_flat_map in H. destruct H as (p & Hp & Hx).
    apply in_map_iff in Hp. destruct Hp as (q & <- & _).
    destruct (alias_members_cases _ x Hx) as [->|Hm]; [apply strip_idem|].
    apply (member_ok_parts x (is_member_ok x Hm)).
  - cbn [flat_map]. rewrite app_nil_r. unfold alias_members.
    destruct (dget (c_extension_alias c) g) as [m|] eqn:Ea; [|right; reflexivity].
    left. intros x Hx. apply (member_ok_parts x). apply (alias_ok g m Ea). exact Hx.
Qed.

Lemma handle_extension_eq g :
  handle_extension Ld g = if sempty g then "" else join "," (sort_s (nodup_s (ext_list g))).
Proof.
  unfold handle_extension, ext_list, comma_alts, alias_members. change ors with (str1 ",").
  rewrite count_str1, count_c_pos. reflexivity.
Qed.

Lemma alts_join_sorted E : E <> [] -> (forall x, In x E -> mem_c "," x = false) ->
  ((forall x, In x E -> strip x = x) \/ exists g, E = [g]) ->
  forall a, In a (alts (join "," (sort_s (nodup_s E)))) <-> In a E.
Proof.
  intros Hne Hnc Hfix a. set (S := sort_s (nodup_s E)).
  assert (HS : forall x, In x S <-> In x E).
  { intros x. unfold S. rewrite sort_s_In, nodup_s_In. reflexivity. }
  assert (HSne : S <> []).
  { destruct E as [|e E']; [congruence|]. intros E0.
    assert (Hin : In e S) by (apply HS; left; reflexivity). rewrite E0 in Hin. destruct Hin. }
  assert (HSnc : Forall (fun x => mem_c "," x = false) S).
  { apply Forall_forall. intros x Hx. apply Hnc. apply HS. exact Hx. }
  rewrite alts_comma. unfold comma_alts.
  destruct (mem_c "," (join "," S)) eqn:Ec.
  - pose proof (split_c_join "," S HSne HSnc) as Hsp. unfold str1 in Hsp. rewrite Hsp.
    destruct Hfix as [Hfix | (g & Eg)].
    + rewrite map_id_in; [apply HS|]. intros x Hx. apply Hfix. apply HS. exact Hx.
    + exfalso. assert (ES : S = [g]) by (unfold S; rewrite Eg; reflexivity).
      rewrite ES in Ec. cbn [join] in Ec. rewrite (Hnc g) in Ec; [discriminate|]. rewrite Eg. left. reflexivity.
  - destruct (join_nomem_single "," S HSne Ec) as (x & Ex). rewrite Ex. cbn [join].
    rewrite <- HS, Ex. reflexivity.
Qed.

Lemma alts_handle g a : In a (alts (handle_extension Ld g)) <-> In a (last_alts Ld g).
Proof.
  rewrite handle_extension_eq. unfold last_alts. destruct (sempty g); [reflexivity|].
  fold (ext_list g). rewrite nodup_s_In. apply alts_join_sorted.
  - apply ext_list_ne.
  - apply ext_list_nocomma.
  - destruct (ext_list_fixed g) as [H|H]; [left; exact H | right; exists g; exact H].
Qed.

Lemma last_alts_cases g x : In x (last_alts Ld g) -> x = "" \/ In x (comma_alts g) \/ is_member x.
Proof.
  unfold last_alts. destruct (sempty g).
  - intros [<-|[]]. left. reflexivity.
  - rewrite nodup_s_In. intros H. right. apply (ext_list_cases g x H).
Qed.

Lemma handle_extension_nomem a g : Ascii.eqb "," a = false ->
  mem_c a g = false -> (forall x, is_member x -> mem_c a x = false) ->
  mem_c a (handle_extension Ld g) = false.
Proof.
  intros Ha Hg Hm. rewrite handle_extension_eq. destruct (sempty g); [reflexivity|].
  apply mem_c_join; [cbn [mem_c]; rewrite Ha; reflexivity|].
  apply Forall_forall. intros x Hx. rewrite sort_s_In, nodup_s_In in Hx.
  destruct (ext_list_cases g x Hx) as [H1|H1]; [apply (comma_alts_nomem a g x Hg H1) | apply Hm; exact H1].
Qed.

Lemma extensions_plain s : mem_c "?" s = false ->
  extensions Ld s =
  Ok (join "/" (removelast (split_c "/" s) ++ [handle_extension Ld (last (split_c "/" s) "")])).
Proof.
  intros H. unfold extensions. rewrite (split_query_nomem s H). cbn [sempty bind].
  rewrite app_nil_r_s. reflexivity.
Qed.

(* alternatives of all segments, written with the initial segments and the last one *)
Lemma alts_of_parts_snoc : forall init g,
  alts_of_parts Ld (init ++ [g]) = (map comma_alts init ++ [last_alts Ld g])%list.
Proof.
  induction init as [|p init IH]; intros g; [reflexivity|].
  cbn [app map]. rewrite <- IH. cbn [alts_of_parts]. destruct (init ++ [g])%list eqn:E; [|reflexivity].
  destruct init; discriminate.
Qed.

Lemma choice_ok_snoc init h ch :
  choice_ok (init ++ [h]) ch <->
  exists ci cl, ch = (ci ++ [cl])%list /\ Forall2 (fun p a => In a (comma_alts p)) init ci /\ In cl (alts h).
Proof.
  unfold choice_ok. split.
  - intros H. apply Forall2_app_inv_l_s in H. destruct H as (ci & b & -> & H1 & H2).
    inversion H2 as [|? cl ? t Hcl Ht]; subst. inversion Ht; subst.
    exists ci, cl. split; [reflexivity|]. split; [|exact Hcl].
    eapply Forall2_impl_s; [|exact H1]. intros p a Ha. rewrite <- alts_comma. exact Ha.
  - intros (ci & cl & -> & H1 & H2). apply Forall2_app.
    + eapply Forall2_impl_s; [|exact H1]. intros p a Ha. cbv beta in Ha. rewrite alts_comma. exact Ha.
    + constructor; [exact H2 | constructor].
Qed.

Lemma product_snoc init g ch :
  In ch (product (alts_of_parts Ld (init ++ [g]))) <->
  exists ci cl, ch = (ci ++ [cl])%list /\ Forall2 (fun p a => In a (comma_alts p)) init ci /\ In cl (last_alts Ld g).
Proof.
  rewrite product_In, alts_of_parts_snoc. split.
  - intros H. apply Forall2_app_inv_l_s in H. destruct H as (ci & b & -> & H1 & H2).
    inversion H2 as [|? cl ? t Hcl Ht]; subst. inversion Ht; subst.
    exists ci, cl. split; [reflexivity|]. split; [|exact Hcl]. apply Forall2_map_l in H1. exact H1.
  - intros (ci & cl & -> & H1 & H2). apply Forall2_app.
    + apply Forall2_map_l. exact H1.
    + constructor; [exact H2 | constructor].
Qed.

(* the string produced by [extensions] *)
Definition extended (s : string) : string :=
  join "/" (removelast (split_c "/" s) ++ [handle_extension Ld (last (split_c "/" s) "")]).

Lemma member_noslash x : is_member x -> mem_c "/" x = false.
Proof. intros H. apply (member_ok_parts x (is_member_ok x H)). Qed.

Lemma extended_split s :
  split_c "/" (extended s) = (removelast (split_c "/" s) ++ [handle_extension Ld (last (split_c "/" s) "")])%list.
Proof.
  unfold extended. apply (split_c_join "/").
  - destruct (removelast (split_c "/" s)); discriminate.
  - apply Forall_app. split.
    + apply Forall_removelast. apply split_c_nomem_all.
    + constructor; [|constructor]. apply handle_extension_nomem; [reflexivity | | apply member_noslash].
      apply (Forall_last_s (fun x => mem_c "/" x = false)); [apply split_c_not_nil | apply split_c_nomem_all].
Qed.

(* the choices of [or_on_path] on the extended string are the bodies of s *)
Lemma choices_bodies s r :
  (exists choice, choice_ok (split_c "/" (extended s)) choice /\ r = join "/" choice) <-> In r (bodies Ld s).
Proof.
  rewrite extended_split. unfold bodies, alts_of_segments.
  set (parts := split_c "/" s).
  assert (Ep : parts = (removelast parts ++ [last parts ""])%list) by (apply removelast_last_s, split_c_not_nil).
  replace (alts_of_parts Ld parts) with (alts_of_parts Ld (removelast parts ++ [last parts ""]))
    by (rewrite <- Ep; reflexivity).
  rewrite in_map_iff. split.
  - intros (ch & Hc & ->). exists ch. split; [reflexivity|].
    apply product_snoc. apply choice_ok_snoc in Hc. destruct Hc as (ci & cl & E & H1 & H2).
    exists ci, cl. split; [exact E|]. split; [exact H1|]. apply alts_handle. exact H2.
  - intros (ch & <- & Hc). exists ch. split; [|reflexivity].
    apply choice_ok_snoc. apply product_snoc in Hc. destruct Hc as (ci & cl & E & H1 & H2).
    exists ci, cl. split; [exact E|]. split; [exact H1|]. apply alts_handle. exact H2.
Qed.

(* what the alternatives of a body are *)
Lemma bodies_inv s b : In b (bodies Ld s) ->
  exists ch, b = join "/" ch /\ ch <> [] /\
    forall x, In x ch -> x = "" \/ is_member x \/ exists p, In p (split_c "/" s) /\ In x (comma_alts p).
Proof.
  unfold bodies, alts_of_segments. rewrite in_map_iff. intros (ch & <- & Hc).
  rewrite (removelast_last_s (split_c "/" s) (split_c_not_nil _ _)) in Hc.
  apply product_snoc in Hc. destruct Hc as (ci & cl & -> & H1 & H2).
  exists (ci ++ [cl])%list. split; [reflexivity|]. split; [destruct ci; discriminate|].
  intros x Hx. apply in_app_or in Hx. destruct Hx as [Hx|[<-|[]]].
  - destruct (Forall2_In_r _ _ _ _ H1 Hx) as (p & Hp & Hin). right. right. exists p. split; [|exact Hin].
    rewrite (removelast_last_s (split_c "/" s) (split_c_not_nil _ _)). apply in_or_app. left. exact Hp.
  - destruct (last_alts_cases _ _ H2) as [->|[H|H]]; [left; reflexivity | | right; left; exact H].
    right. right. exists (last (split_c "/" s) ""). split; [|exact H].
    rewrite (removelast_last_s (split_c "/" s) (split_c_not_nil _ _)) at 2. apply in_or_app. right. left. reflexivity.
Qed.

Lemma bodies_nomem a s b : Ascii.eqb "/" a = false -> mem_c a s = false ->
  (forall x, is_member x -> mem_c a x = false) -> In b (bodies Ld s) -> mem_c a b = false.
Proof.
  intros Ha Hs Hm Hb. destruct (bodies_inv s b Hb) as (ch & -> & _ & Hch).
  apply mem_c_join; [cbn [mem_c]; rewrite Ha; reflexivity|]. apply Forall_forall. intros x Hx.
  destruct (Hch x Hx) as [->|[H|(p & Hp & Hin)]]; [reflexivity | apply Hm; exact H|].
  apply (comma_alts_nomem a p x); [|exact Hin]. apply (mem_c_piece a "/" s p Hs Hp).
Qed.

Lemma bodies_plain s b : search_ok s = true -> In b (bodies Ld s) ->
  mem_c "?" b = false /\ mem_c ":" b = false /\ mem_c "010" b = false /\ contains start_marker b = false.
Proof.
  unfold search_ok, plain_str. intros Hs Hb.
  apply andb_true_iff in Hs. destruct Hs as (Hs & Hmk).
  apply andb_true_iff in Hs. destruct Hs as (Hs & H3).
  apply andb_true_iff in Hs. destruct Hs as (H1 & H2).
  apply negb_true_iff in H1, H2, H3, Hmk.
  repeat split.
  - apply (bodies_nomem "?" s b); auto. intros x Hx. apply (member_ok_parts x (is_member_ok x Hx)).
  - apply (bodies_nomem ":" s b); auto. intros x Hx. apply (member_ok_parts x (is_member_ok x Hx)).
  - apply (bodies_nomem "010" s b); auto. intros x Hx. apply (member_ok_parts x (is_member_ok x Hx)).
  - destruct (contains start_marker b) eqn:E; [|reflexivity]. exfalso.
    destruct (bodies_inv s b Hb) as (ch & -> & _ & Hch).
    destruct (contains_join "/" "-" "-start--" eq_refl ch E) as (x & Hx & Hcx).
    destruct (Hch x Hx) as [->|[H|(p & Hp & Hin)]].
    + discriminate.
    + pose proof (member_ok_parts x (is_member_ok x H)) as Hp. unfold start_marker in Hcx.
      destruct Hp as (_ & _ & _ & _ & _ & _ & Hp & _). unfold start_marker in Hp. congruence.
    + pose proof (comma_alts_contains _ _ _ Hin Hcx) as H1'.
      pose proof (contains_split_piece _ _ _ _ Hp H1') as H2'. unfold start_marker_s, start_marker in *. congruence.
Qed.

(* a sufficient condition for "no body contains /**" *)
Lemma bodies_no_dstar s b : contains "**" s = false -> In b (bodies Ld s) -> count "/**" b = 0.
Proof.
  intros Hs Hb. destruct (Nat.eq_dec (count "/**" b) 0) as [E|E]; [exact E|]. exfalso.
  apply count_pos_contains in E. apply contains_tail in E.
  destruct (bodies_inv s b Hb) as (ch & -> & _ & Hch).
  destruct (contains_join "/" "*" "*" eq_refl ch E) as (x & Hx & Hcx).
  destruct (Hch x Hx) as [->|[H|(p & Hp & Hin)]].
  - discriminate.
  - pose proof (member_ok_parts x (is_member_ok x H)) as Hp.
    destruct Hp as (_ & _ & _ & _ & _ & _ & _ & Hp).
    rewrite (contains_first_char "*" "*" x Hp) in Hcx. discriminate.
  - pose proof (comma_alts_contains _ _ _ Hin Hcx) as H1'.
    pose proof (contains_split_piece _ _ _ _ Hp H1') as H2'. congruence.
Qed.

Lemma extended_no_marker s : search_ok s = true -> no_marker (extended s).
Proof.
  intros Hs choice Hc. destruct (contains marker_sip (join "/" choice)) eqn:E; [|reflexivity]. exfalso.
  assert (Hb : In (join "/" choice) (bodies Ld s)) by (apply choices_bodies; exists choice; auto).
  destruct (bodies_plain s _ Hs Hb) as (_ & _ & _ & Hm).
  unfold marker_sip in E. apply contains_prefix in E. congruence.
Qed.

Lemma extended_noquery s : mem_c "?" s = false -> (forall x, is_member x -> mem_c "?" x = false) ->
  mem_c "?" (extended s) = false.
Proof.
  intros Hs Hm. unfold extended. apply mem_c_join; [reflexivity|]. apply Forall_app. split.
  - apply Forall_removelast. apply mem_c_split. exact Hs.
  - constructor; [|constructor]. apply handle_extension_nomem; [reflexivity | | exact Hm].
    apply (Forall_last_s (fun x => mem_c "?" x = false)); [apply split_c_not_nil | apply mem_c_split; exact Hs].
Qed.

End Stage1a.

(** [or_op] on a query-free string *)

Lemma choice_ok_single parts choice :
  Forall (fun p => mem_c "," p = false) parts -> (choice_ok parts choice <-> choice = parts).
Proof.
  intros Hall. unfold choice_ok. split.
  - intros H. induction H as [|p a parts ch Ha H IH]; [reflexivity|].
    inversion Hall as [|? ? Hp Hall']; subst. rewrite alts_comma in Ha. unfold comma_alts in Ha. rewrite Hp in Ha.
    destruct Ha as [<-|[]]. f_equal. apply IH. exact Hall'.
  - intros ->. induction Hall as [|p parts Hp Hall IH]; constructor; [|exact IH].
    rewrite alts_comma. unfold comma_alts. rewrite Hp. left. reflexivity.
Qed.

Lemma or_op_plain s1 : mem_c "?" s1 = false -> no_marker s1 ->
  exists l, or_op s1 = Ok l /\
    forall r, In r l <-> exists choice, choice_ok (split_c "/" s1) choice /\ r = join "/" choice.
Proof.
  intros Hq Hmk. unfold or_op. change ors with (str1 ","). rewrite count_str1, count_c_zero.
  destruct (mem_c "," s1) eqn:Ec; cbn [negb].
  - rewrite (split_query_nomem s1 Hq). cbn [sempty]. eexists. split; [reflexivity|].
    intros r. rewrite (or_on_path_product s1 Hmk). reflexivity.
  - exists [s1]. split; [reflexivity|]. intros r.
    assert (Hall : Forall (fun p => mem_c "," p = false) (split_c "/" s1)) by (apply mem_c_split; exact Ec).
    split.
    + intros [<-|[]]. exists (split_c "/" s1). split; [apply choice_ok_single; auto|].
      symmetry. apply (join_split_c "/" s1).
    + intros (ch & Hc & ->). apply (choice_ok_single _ _ Hall) in Hc. subst ch.
      left. symmetry. apply (join_split_c "/" s1).
Qed.

(** * Stage 1b: typing one body *)

Lemma mapM_ok_map {A B} (f : A -> outcome B) (g : A -> B) l :
  (forall x, In x l -> f x = Ok (g x)) -> mapM f l = Ok (map g l).
Proof.
  induction l as [|a l IH]; intros H; [reflexivity|]. cbn [mapM map].
  rewrite (H a (or_introl eq_refl)). cbn [bind]. rewrite IH by (intros x Hx; apply H; right; exact Hx).
  reflexivity.
Qed.

Lemma split_c_app_sep c b : forall a,
  split_c c (a ++ String c b) = (split_c c a ++ split_c c b)%list.
Proof.
  induction a as [|x a IH]; cbn [append split_c].
  - rewrite Ascii.eqb_refl. reflexivity.
  - destruct (Ascii.eqb x c); [rewrite IH; reflexivity|].
    rewrite IH. destruct (split_c c a) as [|h t] eqn:Ea; [exfalso; exact (split_c_not_nil c a Ea)|].
    reflexivity.
Qed.

Lemma firstn_app_exact {A} (a b : list A) : firstn (List.length a) (a ++ b) = a.
Proof. induction a as [|x a IH]; [reflexivity|]. cbn [List.length app firstn]. rewrite IH. reflexivity. Qed.

Lemma natural_in_some s : forall l t, In t l -> accepts t s <> None -> natural_in l s <> None.
Proof.
  induction l as [|a l IH]; intros t Hin Ha; [destruct Hin|]. cbn [natural_in].
  destruct (accepts a s) eqn:E; [discriminate|]. destruct Hin as [<-|Hin]; [congruence|].
  apply (IH t Hin Ha).
Qed.

Lemma natural_in_none s : forall l, (forall t, In t l -> accepts t s = None) -> natural_in l s = None.
Proof.
  induction l as [|a l IH]; intros H; [reflexivity|]. cbn [natural_in].
  rewrite (H a (or_introl eq_refl)). apply IH. intros t Ht. apply H. right. exact Ht.
Qed.

Section Typing.
Variables (c : Conf) (Ld : Loaded).
Hypothesis Hload : load c = Some Ld.
Hypothesis Hwf : wf_loadedb Ld = true.

Local Notation tpls := (r_tpls (l_sid Ld)).
Local Notation r := (l_sid Ld).
Local Notation names t := (item_names (tp_items t)).

Lemma accepts_empty t : In t tpls -> accepts t "" = None.
Proof.
  intros Hin. destruct (accepts t "") as [d|] eqn:E; [|reflexivity]. exfalso.
  apply (first_seg_nonempty Ld Hwf t "" d Hin E). reflexivity.
Qed.

Lemma accepts_ne t s d : In t tpls -> accepts t s = Some d -> s <> "".
Proof. intros Hin Ha ->. rewrite (accepts_empty t Hin) in Ha. discriminate. Qed.

Lemma natural_none s : (forall t, In t tpls -> accepts t s = None) -> natural Ld s = None.
Proof. intros H. unfold natural. destruct (sempty s); [reflexivity|]. apply natural_in_none. exact H. Qed.

Lemma natural_some s t : In t tpls -> accepts t s <> None -> natural Ld s <> None.
Proof.
  intros Hin Ha. unfold natural. destruct (sempty s) eqn:E.
  - destruct s; [|discriminate]. rewrite (accepts_empty t Hin) in Ha. congruence.
  - apply (natural_in_some s tpls t Hin Ha).
Qed.

(* prefix closure: a "/"-prefix of an accepted string is accepted by some template *)
Lemma accepts_prefix tp b d root rest : In tp tpls -> accepts tp b = Some d ->
  b = root ++ String "/" rest -> exists tq, In tq tpls /\ accepts tq root <> None.
Proof.
  intros Hin Ha Eb.
  destruct (tpl_parts Ld Hwf tp Hin) as (Hsh & _ & ps & Hps & _ & Hpn).
  destruct (accepts_inv Ld Hwf tp b d Hin Ha) as (_ & Hlen).
  assert (Hsp : split_c "/" b = (split_c "/" root ++ split_c "/" rest)%list).
  { rewrite Eb. apply split_c_app_sep. }
  set (i := List.length (split_c "/" root)).
  assert (Hi1 : 1 <= i).
  { unfold i. destruct (split_c "/" root) eqn:E; [exfalso; exact (split_c_not_nil _ _ E) | simpl; lia]. }
  assert (Hi2 : i < List.length (names tp)).
  { rewrite <- Hlen, Hsp, app_length. fold i.
    destruct (split_c "/" rest) eqn:E; [exfalso; exact (split_c_not_nil _ _ E) | simpl; lia]. }
  destruct (prefix_tpl Ld Hwf tp (i - 1) Hin) as (tq & Hq & Hitems); [lia|].
  exists tq. split; [exact Hq|].
  unfold accepts. rewrite Hitems, (phs_firstn _ Hsh ps (i - 1) Hps).
  replace (i - 1 + 1) with i by lia. cbv zeta.
  assert (Hf : split_c "/" root = firstn i (split_c "/" b)).
  { rewrite Hsp. unfold i. symmetry. apply firstn_app_exact. }
  rewrite Hf. unfold accepts in Ha. rewrite Hps in Ha. cbv zeta in Ha.
  destruct (segs_ok ps (split_c "/" b)) eqn:Eok; [|discriminate].
  rewrite (segs_ok_firstn i _ _ Eok). discriminate.
Qed.

Definition hit (b : string) (t : tpl) : list (string * dict string) :=
  match accepts t b with Some d => [(tp_name t, d)] | None => [] end.

Lemma resolve_all_accepts b : mem_c "010" b = false -> forall l, incl l tpls ->
  resolve_all_in r l b = Ok (flat_map (hit b) l).
Proof.
  intros Hnl. induction l as [|t l IH]; intros Hincl; [reflexivity|].
  cbn [resolve_all_in flat_map].
  rewrite (resolve_tpl_nonl c Ld Hload Hwf t b (Hincl t (or_introl eq_refl)) Hnl). cbn [bind].
  rewrite IH by (intros x Hx; apply Hincl; right; exact Hx). cbn [bind]. unfold hit.
  destruct (accepts t b); reflexivity.
Qed.

Lemma hit_nil_empty : forall l, incl l tpls -> flat_map (hit "") l = [].
Proof.
  induction l as [|t l IH]; intros Hincl; [reflexivity|]. cbn [flat_map]. unfold hit at 1.
  rewrite (accepts_empty t (Hincl t (or_introl eq_refl))). apply IH. intros x Hx. apply Hincl. right. exact Hx.
Qed.

Lemma sid_to_dicts_accepts b : mem_c "010" b = false ->
  sid_to_dicts Ld b = Ok (flat_map (hit b) tpls).
Proof.
  intros Hnl. unfold sid_to_dicts, resolve_all. destruct (sempty b) eqn:E.
  - destruct b; [|discriminate]. rewrite (hit_nil_empty tpls (incl_refl _)). reflexivity.
  - apply (resolve_all_accepts b Hnl tpls (incl_refl _)).
Qed.

Lemma hit_In b n d : In (n, d) (flat_map (hit b) tpls) <->
  exists tp, In tp tpls /\ tp_name tp = n /\ accepts tp b = Some d.
Proof.
  rewrite in_flat_map. split.
  - intros (tp & Hin & H). exists tp. unfold hit in H. destruct (accepts tp b) as [d0|]; [|destruct H].
    destruct H as [H|[]]. inversion H; subst. auto.
  - intros (tp & Hin & Hn & Ha). exists tp. split; [exact Hin|]. unfold hit. rewrite Ha, Hn. left. reflexivity.
Qed.

Lemma Sid_typed b tp d : In tp tpls -> accepts tp b = Some d -> mem_c "?" b = false ->
  Sid Ld (typed_uri (tp_name tp) b "") = Ok (mkSid b (tp_name tp) d).
Proof.
  intros Hin Ha Hq. unfold typed_uri. cbn [sempty]. rewrite app_nil_r_s.
  destruct (tpl_name_ok Ld Hwf tp Hin) as (Hne & Hc & Hq').
  rewrite (Sid_uri c Ld Hload Hwf (tp_name tp) b Hq Hc Hq').
  apply sempty_false in Hne. rewrite Hne.
  rewrite (forced_of_accepts c Ld Hload Hwf tp b d Hin (accepts_ne tp b d Hin Ha) Ha). reflexivity.
Qed.

Definition typed_list (b : string) : list sid :=
  map (fun td => mkSid b (fst td) (snd td)) (flat_map (hit b) tpls).

Lemma typed_list_In b y : In y (typed_list b) <-> typed_plain Ld b y.
Proof.
  unfold typed_list, typed_plain. rewrite in_map_iff. split.
  - intros ([n d] & <- & H). apply hit_In in H. destruct H as (tp & Hin & <- & Ha). exists tp, d. auto.
  - intros (tp & d & Hin & Ha & ->). exists (tp_name tp, d). split; [reflexivity|]. apply hit_In. exists tp. auto.
Qed.

Lemma mapM_Sid_typed b query : query = "" -> mem_c "?" b = false ->
  mapM (fun td => Sid Ld (typed_uri (fst td) b query)) (flat_map (hit b) tpls) = Ok (typed_list b).
Proof.
  intros -> Hq. unfold typed_list. apply mapM_ok_map. intros [n d] H. cbn [fst snd].
  apply hit_In in H. destruct H as (tp & Hin & <- & Ha). apply (Sid_typed b tp d Hin Ha Hq).
Qed.

Lemma basetype_typed_or_untyped s o :
  (forall t d, o = Some (t, d) -> t <> "") ->
  basetype Ld (typed_or_untyped s o) = match o with Some (t, _) => Some (basetype_of Ld t) | None => None end.
Proof.
  intros H. destruct o as [[t d]|]; [|reflexivity]. unfold basetype. cbn [typed_or_untyped s_type].
  specialize (H t d eq_refl). apply sempty_false in H. rewrite H. reflexivity.
Qed.

Lemma natural_type_ne s t d : natural Ld s = Some (t, d) -> t <> "".
Proof.
  intros H. destruct (natural_inv Ld _ _ _ H) as (_ & pre & tp & post & E & Hn & _). rewrite <- Hn.
  apply (tpl_name_ok Ld Hwf tp). rewrite E. apply in_elt.
Qed.

Lemma basetype_Sid_root root :
  basetype Ld (typed_or_untyped root (natural Ld root)) =
  match natural Ld root with Some (t, _) => Some (basetype_of Ld t) | None => None end.
Proof. apply basetype_typed_or_untyped. intros t d H. apply (natural_type_ne root t d H). Qed.

(* what [simple_typing] computes: [ss] is the body b followed by the query; [F] is what the factory makes
   of a typed string followed by the query; [X] is the factory on the whole string *)
Theorem simple_typing_gen ss b query F X :
  mem_c "?" b = false -> mem_c ":" b = false -> mem_c "010" b = false ->
  split_query ss = (b, query) ->
  (forall tp d, In tp tpls -> accepts tp b = Some d ->
     Sid Ld (typed_uri (tp_name tp) b query) = Ok (F (mkSid b (tp_name tp) d))) ->
  (typed_list b = [] -> Sid Ld ss = Ok X) ->
  simple_typing Ld ss = Ok (match typed_list b with [] => [X] | l => nodup_sid (map F l) end).
Proof.
  intros Hq Hc Hnl Hsp HF HX. unfold simple_typing. rewrite Hsp.
  set (root := hd "" (split_s "/*" b)).
  assert (Hroot : root = b \/ exists post, b = root ++ "/*" ++ post) by (apply split_s_head).
  assert (Hrq : mem_c "?" root = false /\ mem_c ":" root = false).
  { destruct Hroot as [->|(post & E)]; [auto|]. rewrite E in Hq, Hc.
    apply mem_c_app_false in Hq, Hc. tauto. }
  destruct Hrq as (Hrq & Hrc).
  rewrite (Sid_plain c Ld Hload Hwf root Hrq Hrc). cbn [bind]. rewrite basetype_Sid_root.
  assert (HM : mapM (fun td => Sid Ld (typed_uri (fst td) b query)) (flat_map (hit b) tpls)
               = Ok (map F (typed_list b))).
  { unfold typed_list. rewrite map_map. apply mapM_ok_map. intros [n d] H. cbn [fst snd].
    apply hit_In in H. destruct H as (tp & Hin & <- & Ha). apply (HF tp d Hin Ha). }
  destruct (natural Ld root) as [[rt rd]|] eqn:En.
  - rewrite (sid_to_dicts_accepts b Hnl). cbn [bind]. rewrite HM. cbn [bind].
    destruct (typed_list b) eqn:E; [|reflexivity]. cbn [map]. rewrite (HX eq_refl). reflexivity.
  - destruct (typed_list b) as [|y l] eqn:E; [rewrite (HX eq_refl); reflexivity|]. exfalso.
    assert (Hy : typed_plain Ld b y) by (apply typed_list_In; rewrite E; left; reflexivity).
    destruct Hy as (tp & d & Hin & Ha & _).
    destruct Hroot as [Er|(post & Eb)].
    + rewrite Er in En. apply (natural_some b tp Hin); [congruence | exact En].
    + destruct (accepts_prefix tp b d root (String "*" post) Hin Ha Eb) as (tq & Hq' & Hacc).
      apply (natural_some root tq Hq' Hacc En).
Qed.

Lemma typed_list_nil_natural b : typed_list b = [] -> natural Ld b = None.
Proof.
  intros E. apply natural_none. intros t Ht.
  destruct (accepts t b) as [d|] eqn:Ea; [|reflexivity]. exfalso.
  assert (Hin : In (mkSid b (tp_name t) d) (typed_list b)) by (apply typed_list_In; exists t, d; auto).
  rewrite E in Hin. destruct Hin.
Qed.

(** ** well typed Sids are determined by their uri *)

Definition wt (x : sid) : Prop := forced Ld (s_type x) (s_string x) = Some (s_type x, s_fields x).

Lemma wt_parts x : wt x ->
  s_type x <> "" /\ mem_c ":" (s_type x) = false /\ mem_c "?" (s_type x) = false /\
  s_fields x <> [] /\ s_string x <> "" /\ uri x = s_type x ++ ":" ++ s_string x.
Proof.
  intros H. destruct (forced_inv Ld _ _ _ _ H) as (_ & Hs & tp & Hin & Hn & Ha).
  destruct (tpl_name_ok Ld Hwf tp Hin) as (H1 & H2 & H3). rewrite Hn in *.
  destruct (accepts_fields Ld Hwf tp _ _ Hin Ha) as (_ & _ & Hd & _).
  repeat split; auto. unfold uri. apply sempty_false in H1. rewrite H1, app_assoc_s. reflexivity.
Qed.

Lemma wt_typed b tp d : In tp tpls -> accepts tp b = Some d -> wt (mkSid b (tp_name tp) d).
Proof.
  intros Hin Ha. unfold wt. cbn [s_type s_string s_fields].
  apply (forced_of_accepts c Ld Hload Hwf tp b d Hin (accepts_ne tp b d Hin Ha) Ha).
Qed.

Lemma uri_split ty s ty' s' : mem_c ":" ty = false -> mem_c ":" ty' = false ->
  ty ++ ":" ++ s = ty' ++ ":" ++ s' -> ty = ty' /\ s = s'.
Proof.
  intros H1 H2 E. apply (f_equal (split1_c ":")) in E.
  change (ty ++ ":" ++ s) with (ty ++ String ":" s) in E.
  change (ty' ++ ":" ++ s') with (ty' ++ String ":" s') in E.
  rewrite (split1_c_app ":" _ _ H1), (split1_c_app ":" _ _ H2) in E. inversion E. auto.
Qed.

Lemma wt_uri_inj x y : wt x -> wt y -> uri x = uri y -> x = y.
Proof.
  intros Hx Hy E. destruct (wt_parts x Hx) as (_ & Hcx & _ & _ & _ & Ex).
  destruct (wt_parts y Hy) as (_ & Hcy & _ & _ & _ & Ey).
  rewrite Ex, Ey in E. destruct (uri_split _ _ _ _ Hcx Hcy E) as (Et & Es).
  unfold wt in Hx, Hy. rewrite Et, Es, Hy in Hx. inversion Hx as [Hd].
  destruct x, y. cbn in *. congruence.
Qed.

End Typing.

(** * Stage 2: [expand] on a body with one "/**" *)

Lemma repeat_s_srepeat s n : repeat_s s n = srepeat s n.
Proof. induction n as [|n IH]; [reflexivity|]. cbn [repeat_s srepeat]. rewrite IH. reflexivity. Qed.

Lemma srepeat_count n : count_c "/" (srepeat "/*" n) = n.
Proof. induction n as [|n IH]; [reflexivity|]. cbn [srepeat]. rewrite count_c_app, IH. reflexivity. Qed.

Lemma srepeat_nomem a n : Ascii.eqb "/" a = false -> Ascii.eqb "*" a = false -> mem_c a (srepeat "/*" n) = false.
Proof.
  intros H1 H2. induction n as [|n IH]; [reflexivity|]. cbn [srepeat]. rewrite mem_c_app, IH.
  cbn [mem_c]. rewrite H1, H2. reflexivity.
Qed.

Lemma fold_left_ok {A S} (f : outcome S -> A -> outcome S) (g : S -> A -> S) (P : A -> Prop) :
  (forall st a, P a -> f (Ok st) a = Ok (g st a)) ->
  forall l st, Forall P l -> fold_left f l (Ok st) = Ok (fold_left g l st).
Proof.
  intros H. induction l as [|a l IH]; intros st Hl; [reflexivity|]. inversion Hl; subst.
  cbn [fold_left]. rewrite H by assumption. apply IH. assumption.
Qed.

Lemma last_opt_last (l : list string) : l <> [] -> last_opt l = Some (last l "").
Proof.
  induction l as [|a l IH]; [congruence|]. intros _. destruct l; [reflexivity|].
  change (last_opt (a :: s :: l)) with (last_opt (s :: l)).
  change (last (a :: s :: l) "") with (last (s :: l) ""). apply IH. discriminate.
Qed.

Section Dstar.
Variables (c : Conf) (Ld : Loaded).
Hypothesis Hload : load c = Some Ld.
Hypothesis Hwf : wf_loadedb Ld = true.

Local Notation tpls := (r_tpls (l_sid Ld)).
Local Notation r := (l_sid Ld).
Local Notation names t := (item_names (tp_items t)).

Variables (b lk : string).
Hypothesis Hq : mem_c "?" b = false.
Hypothesis Hnl : mem_c "010" b = false.

(* the trailing query and what the factory makes of a typed string followed by it *)
Variables (query : string) (F : sid -> sid).
Hypothesis HF : forall k tp d, In tp tpls -> accepts tp k = Some d -> mem_c "?" k = false ->
  Sid Ld (typed_uri (tp_name tp) k query) = Ok (F (mkSid k (tp_name tp) d)).

Definition kn (n : nat) : string := replace "/**" (srepeat "/*" n) b.
Definition needed (t : tpl) : nat := n_placeholders t - 1 + 1 - count "/" b.
Definition test_of (t : tpl) : string := kn (needed t).
Definition matching (k : string) : list (string * dict string) := flat_map (hit k) tpls.

Definition leaf_hit (k : string) (td : string * dict string) : list sid :=
  match last_opt (dkeys (snd td)) with
  | Some key => if String.eqb key lk then [F (mkSid k (fst td) (snd td))] else []
  | None => []
  end.

Definition estate := (list string * list string * list sid)%type.

Definition estep (st : estate) (t : tpl) : estate :=
  let '(tested, found, result) := st in
  if in_list (tp_name t) found then st else
  if negb (match last_key t with Some k => String.eqb k lk | None => false end) then st else
  if in_list (test_of t) tested then st else
  ((tested ++ [test_of t])%list, (found ++ map fst (matching (test_of t)))%list,
   (result ++ flat_map (leaf_hit (test_of t)) (matching (test_of t)))%list).

Hypothesis Hone : count "/**" b = 1.

Lemma b_decomp : exists pre post, b = pre ++ "/**" ++ post /\ root_of b = pre /\
  forall new, replace "/**" new b = pre ++ new ++ post.
Proof.
  destruct (one_occ "/" "**" b Hone) as (pre & post & E & Hh & _ & Hr). exists pre, post. auto.
Qed.

Lemma kn_nomem a n : Ascii.eqb "/" a = false -> Ascii.eqb "*" a = false -> mem_c a b = false -> mem_c a (kn n) = false.
Proof.
  intros H1 H2 Hb. destruct b_decomp as (pre & post & E & _ & Hr). unfold kn. rewrite Hr.
  rewrite E in Hb. apply mem_c_app_false in Hb. destruct Hb as (Hp & Hb).
  apply mem_c_app_false in Hb. destruct Hb as (_ & Hb).
  rewrite !mem_c_app, Hp, Hb, (srepeat_nomem a n H1 H2). reflexivity.
Qed.

Lemma kn_count n : count_c "/" (kn n) + 1 = count_c "/" b + n.
Proof.
  destruct b_decomp as (pre & post & E & _ & Hr). unfold kn. rewrite Hr. rewrite E at 1.
  rewrite !count_c_app, srepeat_count. cbn [count_c Ascii.eqb]. cbn. lia.
Qed.

(* [accepts] forces the number of segments: only one n can fit a given template *)
Lemma accepts_kn_needed tp n d : In tp tpls -> accepts tp (kn n) = Some d -> needed tp = n.
Proof.
  intros Hin Ha. destruct (accepts_inv Ld Hwf tp _ d Hin Ha) as (_ & Hlen).
  rewrite count_split in Hlen. pose proof (kn_count n) as Hk.
  unfold needed, n_placeholders. change "/" with (str1 "/"). rewrite count_str1. lia.
Qed.

Lemma expand_step_eq st t : In t tpls ->
  expand_step Ld b query lk (Ok st) t = Ok (estep st t).
Proof.
  intros Hin. destruct st as [[tested found] result]. unfold expand_step, estep. cbn [bind].
  destruct (in_list (tp_name t) found); [reflexivity|].
  destruct (negb _); [reflexivity|]. cbv zeta.
  assert (Et : replace "/**" (repeat_s "/*" (n_placeholders t - 1 + 1 - count "/" b)) b = test_of t).
  { unfold test_of, kn, needed. rewrite repeat_s_srepeat. reflexivity. }
  rewrite Et. destruct (in_list (test_of t) tested); [reflexivity|].
  rewrite (sid_to_dicts_accepts c Ld Hload Hwf (test_of t)) by (apply kn_nomem; auto). cbn [bind].
  fold (matching (test_of t)).
  rewrite (mapM_ok_map _ (leaf_hit (test_of t))).
  - cbn [bind]. rewrite <- flat_map_concat_map. reflexivity.
  - intros [n d] Htd. unfold leaf_hit. cbn [fst snd].
    destruct (last_opt (dkeys d)) as [key|]; [|reflexivity].
    destruct (String.eqb key lk); [|reflexivity].
    apply (hit_In Ld) in Htd. destruct Htd as (tp & Htp & <- & Ha).
    rewrite (HF (test_of t) tp d Htp Ha) by (apply kn_nomem; auto). reflexivity.
Qed.

Lemma expand_fold_eq st : 
  fold_left (expand_step Ld b query lk) tpls (Ok st) = Ok (fold_left estep tpls st).
Proof.
  apply (fold_left_ok _ estep (fun t => In t tpls)).
  - intros st0 a Ha. apply expand_step_eq. exact Ha.
  - apply Forall_forall. auto.
Qed.

Definition einv (done : list tpl) (st : estate) : Prop :=
  let '(tested, found, result) := st in
  (forall y, In y result <-> exists k td, In k tested /\ In td (matching k) /\ In y (leaf_hit k td)) /\
  (forall n, In n found <-> exists k td, In k tested /\ In td (matching k) /\ n = fst td) /\
  (forall k, In k tested -> exists t, In t done /\ k = test_of t) /\
  (forall t, In t done -> last_key t = Some lk -> In (test_of t) tested \/ In (tp_name t) found).

Lemma einv_step done t st : einv done st -> einv (done ++ [t]) (estep st t).
Proof.
  destruct st as [[tested found] result]. intros (I1 & I2 & I3 & I4). unfold estep.
  assert (I3' : forall k, In k tested -> exists t0, In t0 (done ++ [t]) /\ k = test_of t0).
  { intros k Hk. destruct (I3 k Hk) as (t0 & H0 & E). exists t0. split; [apply in_or_app; left; exact H0 | exact E]. }
  destruct (in_list (tp_name t) found) eqn:Ef.
  { split; [exact I1|]. split; [exact I2|]. split; [exact I3'|].
    intros t0 H0 Hl. apply in_app_or in H0. destruct H0 as [H0|[<-|[]]]; [apply I4; assumption|].
    right. apply in_list_In. exact Ef. }
  destruct (match last_key t with Some k => String.eqb k lk | None => false end) eqn:El; cbn [negb].
  2:{ split; [exact I1|]. split; [exact I2|]. split; [exact I3'|].
      intros t0 H0 Hl. apply in_app_or in H0. destruct H0 as [H0|[<-|[]]]; [apply I4; assumption|].
      rewrite Hl, String.eqb_refl in El. discriminate. }
  destruct (in_list (test_of t) tested) eqn:Et.
  { split; [exact I1|]. split; [exact I2|]. split; [exact I3'|].
    intros t0 H0 Hl. apply in_app_or in H0. destruct H0 as [H0|[<-|[]]]; [apply I4; assumption|].
    left. apply in_list_In. exact Et. }
  split; [|split; [|split]].
  - intros y. rewrite in_app_iff, I1, in_flat_map. split.
    + intros [(k & td & Hk & Htd & Hy) | (td & Htd & Hy)].
      * exists k, td. split; [apply in_or_app; left; exact Hk | auto].
      * exists (test_of t), td. split; [apply in_or_app; right; left; reflexivity | auto].
    + intros (k & td & Hk & Htd & Hy). apply in_app_or in Hk. destruct Hk as [Hk|[<-|[]]].
      * left. exists k, td. auto.
      * right. exists td. auto.
  - intros n. rewrite in_app_iff, I2, in_map_iff. split.
    + intros [(k & td & Hk & Htd & Hn) | (td & Hn & Htd)].
      * exists k, td. split; [apply in_or_app; left; exact Hk | auto].
      * exists (test_of t), td. split; [apply in_or_app; right; left; reflexivity | auto].
    + intros (k & td & Hk & Htd & Hn). apply in_app_or in Hk. destruct Hk as [Hk|[<-|[]]].
      * left. exists k, td. auto.
      * right. exists td. auto.
  - intros k Hk. apply in_app_or in Hk. destruct Hk as [Hk|[<-|[]]]; [apply I3'; exact Hk|].
    exists t. split; [apply in_or_app; right; left; reflexivity | reflexivity].
  - intros t0 H0 Hl. apply in_app_or in H0. destruct H0 as [H0|[<-|[]]].
    + destruct (I4 t0 H0 Hl) as [H|H]; [left | right]; apply in_or_app; left; exact H.
    + left. apply in_or_app. right. left. reflexivity.
Qed.

Lemma einv_final : einv tpls (fold_left estep tpls ([], [], [])).
Proof.
  apply (fold_left_inv estep einv tpls).
  - split; [|split; [|split]].
    + intros y. split; [intros [] | intros (k & td & [] & _)].
    + intros n. split; [intros [] | intros (k & td & [] & _)].
    + intros k [].
    + intros t [].
  - intros done x todo acc _ H. apply einv_step. exact H.
Qed.

Lemma tpl_by_name t1 t2 : In t1 tpls -> In t2 tpls -> tp_name t1 = tp_name t2 -> t1 = t2.
Proof.
  intros H1 H2 E. pose proof (tpl_find c Ld Hload Hwf t1 H1) as F1.
  pose proof (tpl_find c Ld Hload Hwf t2 H2) as F2. rewrite E in F1. congruence.
Qed.

Lemma names_last_key tp d k : In tp tpls -> accepts tp k = Some d ->
  last_opt (dkeys d) = tpl_last_key tp.
Proof.
  intros Hin Ha. destruct (accepts_fields Ld Hwf tp k d Hin Ha) as (Hf & _). unfold dkeys, tpl_last_key.
  rewrite Hf. reflexivity.
Qed.

(* the result list of the loop denotes exactly the typed "**" completions *)
Lemma efold_result tested found result :
  fold_left estep tpls ([], [], []) = (tested, found, result) ->
  forall y, In y result <->
    exists n tp d, In tp tpls /\ accepts tp (kn n) = Some d /\ tpl_last_key tp = Some lk /\
                   y = F (mkSid (kn n) (tp_name tp) d).
Proof.
  intros E y. pose proof einv_final as H. rewrite E in H. destruct H as (I1 & I2 & I3 & I4).
  rewrite I1. split.
  - intros (k & [n d] & Hk & Htd & Hy). apply (hit_In Ld) in Htd. destruct Htd as (tp & Hin & <- & Ha).
    unfold leaf_hit in Hy. cbn [fst snd] in Hy. rewrite (names_last_key tp d k Hin Ha) in Hy.
    destruct (tpl_last_key tp) as [key|] eqn:Ek; [|destruct Hy].
    destruct (String.eqb key lk) eqn:Ekl; [|destruct Hy]. apply String.eqb_eq in Ekl. subst key.
    destruct Hy as [<-|[]]. destruct (I3 k Hk) as (t & _ & Et). subst k.
    exists (needed t), tp, d. auto.
  - intros (n & tp & d & Hin & Ha & Hl & ->).
    assert (Hgoal : In (kn n) tested ->
              exists k td, In k tested /\ In td (matching k) /\ In (F (mkSid (kn n) (tp_name tp) d)) (leaf_hit k td)).
    { intros Hk. exists (kn n), (tp_name tp, d). split; [exact Hk|]. split.
      - apply (hit_In Ld). exists tp. auto.
      - unfold leaf_hit. cbn [fst snd]. rewrite (names_last_key tp d (kn n) Hin Ha), Hl, String.eqb_refl.
        left. reflexivity. }
    apply Hgoal. pose proof (accepts_kn_needed tp n d Hin Ha) as Hn.
    destruct (I4 tp Hin Hl) as [H|H].
    + unfold test_of in H. rewrite Hn in H. exact H.
    + apply I2 in H. destruct H as (k' & [n' d'] & Hk' & Htd & En). cbn [fst] in En. subst n'.
      apply (hit_In Ld) in Htd. destruct Htd as (tp' & Hin' & En' & Ha').
      assert (tp' = tp) by (apply tpl_by_name; auto). subst tp'.
      destruct (I3 k' Hk') as (t'' & _ & Ek'). unfold test_of in Ek'.
      rewrite Ek' in Ha'. pose proof (accepts_kn_needed tp _ d' Hin Ha') as Hn'.
      rewrite <- Hn, Hn', <- Ek'. exact Hk'.
Qed.

End Dstar.
