"""C11 all Finders give the same answer for the same data (file tree x2 configurations, list, FindInAll; junk)."""
import posixpath
from harness.runner import PropBase, Case
from harness import gen, core
from props.c05 import C05, PATH_VALUES
from props.c01 import natural
from props import listsearch as ls

class C11(PropBase):
    id = 'C11'
    rule = ('universes of concrete entities materialised as a local tree and a server tree (and as the list of their Sids with all ancestors that have a path), '
            'with and without injected junk (misnamed files, desynchronised duplicate fields, stray folders, sidecar files); searches of the C07 / C09 families derived '
            'from the entities; every finder on every search; non-trivial = a search finding at least one entity; distinct by (universe, search, finder)')
    partial_note = 'real scandir order, symlinks, case-insensitive file systems and permission errors are not modelled'
    def confdir(self, ws):
        return core.make_fs_confdir(ws)
    def leafs(self, rng, v, n):
        c05 = C05()
        out = []
        base = None
        for _ in range(n):
            t = rng.choice([t for t in v.order if len(v.types[t]) >= 4])
            s = c05.concrete(rng, v, t)
            # share prefixes so that groups have several members
            if base and rng.random() < 0.6:
                bs = base.split('/'); ss = s.split('/')
                k = rng.randint(2, min(len(bs), len(ss)) - 1) if min(len(bs), len(ss)) > 3 else 2
                if bs[1] == ss[1]:
                    s = '/'.join(bs[:k] + ss[k:])
            base = s
            out.append(s)
            # a sibling whose open value extends this one across the file-name separator (x / x_y): the glob of a search on x also sees x_y
            keys = v.types[t]
            opens = [i for i, (k, e) in enumerate(keys) if v.alternatives(e) is None]
            if opens and rng.random() < 0.5:
                i = rng.choice(opens)
                ss = s.split('/')
                ss[i] = (ss[i] + rng.choice(['_y', '_WORK', '-b', '.x'])) if rng.random() < 0.6 else (rng.choice(['zz_', 'y_', 'b_']) + ss[i])
                out.append('/'.join(ss))
        return out
    def cases(self, rng, ctx, tier):
        v = gen.vocab_from_ctx(ctx)
        self.nu = 4 if tier == 'quick' else 30
        self.universes = [self.leafs(rng, v, rng.randint(4, 12)) for _ in range(self.nu)]
        # one deliberate pair per universe: an open value deep in the hierarchy and a sibling extending it across a separator
        self.targets = {}
        with_path = set(k for pc in ctx['rawd']['path_configs'] for k, _ in dict((k, vv) for k, vv in pc[1])['templates'])
        deep = [t for t in v.order if t in with_path and any(v.alternatives(e) is None and i > 4 for i, (k, e) in enumerate(v.types[t]))]
        for ui, leafs in enumerate(self.universes):
            if not deep:
                break
            t = rng.choice(deep)
            s0 = C05().concrete(rng, v, t).split('/')
            i = max(i for i, (k, e) in enumerate(v.types[t]) if v.alternatives(e) is None)
            s0[i] = 'x'
            s1 = list(s0); s1[i] = 'x' + rng.choice(['_y', '_WORK', '_v001'])
            leafs.append('/'.join(s0)); leafs.append('/'.join(s1))
            self.targets[ui] = '/'.join(s0[:4] + ['*'] * (i - 4) + [s0[i]] + ['*'] * (len(s0) - i - 1))
        cfgs = [pc[0] for pc in ctx['rawd']['path_configs']]
        out = []
        for ui, leafs in enumerate(self.universes):
            for s in leafs:
                parts = s.split('/')
                for i in range(1, len(parts) + 1):
                    for cfg in cfgs:
                        out.append(Case('path', [['s', '/'.join(parts[:i])], cfg, 'pos'], 'paths', {'u': ui, 'sid': '/'.join(parts[:i]), 'cfg': cfg}))
        return out
    def junk(self, rng, files, dirs):
        """non-conforming paths, as (relative-to-root path, kind): the same junk is injected into every tree"""
        out = []
        for dd in dirs[:16]:
            d, f = posixpath.split(dd)
            out.append((d + '/.' + f + '.data.json', 'json'))          # every folder entity has a (hidden) sidecar next to it
        for _ in range(rng.randint(2, 6)):
            r = rng.random()
            if r < 0.35 and files:
                p = rng.choice(files)
                d, f = posixpath.split(p)
                toks = f.replace('.', '_').split('_')
                dup = [t for t in toks if t and d.count(t) >= 1]          # a field repeated in folder and file name
                if dup:
                    t = rng.choice(dup)
                    i = f.find(t)
                    out.append((d + '/' + f[:i] + rng.choice(['zz', 'X', 'v999', 'other']) + f[i + len(t):], 'empty'))   # desynchronised
                    continue
            if r < 0.55 and files:
                out.append((rng.choice(files) + rng.choice(['.bak', '~', '.tmp', '.ma.swp']), 'empty'))                  # misnamed
            elif r < 0.75 and dirs:
                out.append((rng.choice(dirs) + '/' + rng.choice(['stray dir', 'tmp#1', '.hidden', 'Thumbs.db']), 'dir'))
            elif r < 0.9 and (files or dirs):
                if files and rng.random() < 0.5:
                    d, f = posixpath.split(rng.choice(files))
                    out.append((d + '/.' + posixpath.splitext(f)[0] + '.data.json', 'json'))                           # sidecar of a file
                else:
                    d, f = posixpath.split(rng.choice(dirs))
                    out.append((d + '/.' + f + '.data.json', 'json'))                                                  # sidecar of a folder entity
            else:
                out.append((rng.choice(['HAMLET2/PROD', 'zzz/PROD/ASSETS', 'HAMLET/prod']), 'dir'))
        return out
    def phase2(self, rng, ctx, cases, impl_out, tier):
        v = gen.vocab_from_ctx(ctx)
        cfgs = [pc[0] for pc in ctx['rawd']['path_configs']]
        default = ctx['rawd']['default_path_config'] or cfgs[0]
        roots = {}
        for pc in ctx['rawd']['path_configs']:
            tpls = dict((k, vv) for k, vv in dict((k, vv) for k, vv in pc[1])['templates'])
            r = posixpath.commonprefix([t.split('{')[0] for t in tpls.values()])
            roots[pc[0]] = r.rstrip('/')
        per_u = {}
        for c, o in zip(cases, impl_out):
            if c.stream == 'paths' and o[0] == 'ok' and o[1]:
                per_u.setdefault(c.meta['u'], {}).setdefault(c.meta['cfg'], {})[c.meta['sid']] = o[1][0]
        more = []
        ns = 20 if tier == 'quick' else 44
        self.entity_lists = {}
        for ui in range(self.nu):
            ent = per_u.get(ui, {})
            if not ent:
                continue
            for with_junk in (False, True):
                more.append(Case('fs_reset', [], 'setup', {}))
                leaf_keys = dict(ctx['rawd']['leaf_keys'])
                def is_file(sid):
                    n = natural(v, sid)
                    return bool(n) and n[1][-1][0] == leaf_keys.get(n[0].split(ctx['rawd']['sep'])[0])
                rel = {}
                for cfg in cfgs:
                    paths = ent.get(cfg, {})
                    for sid, p in sorted(paths.items(), key=lambda kv: len(kv[1])):
                        more.append(Case('fs_put', [p, 'empty' if is_file(sid) else 'dir'], 'setup', {}))
                    rel[cfg] = {sid: p[len(roots[cfg]) + 1:] for sid, p in paths.items() if p.startswith(roots[cfg] + '/')}
                if with_junk:
                    for cfg in cfgs:
                        state_j = rng.getstate() if cfg == cfgs[0] else state_j
                        rng.setstate(state_j)
                        files = sorted(r for sid, r in rel[cfg].items() if is_file(sid))
                        dirs = sorted(r for sid, r in rel[cfg].items() if not is_file(sid))
                        cand = self.junk(rng, files, dirs)
                        # junk must not conform to any template: ask the implementation (a conforming path is an entity, not junk)
                        probe = core.run_impl(ctx['ws'], [('path_owner', [roots[cfg] + '/' + jp, cfg]) for jp, _ in cand], confdir=ctx['confdir'])
                        for (jp, kind), pr in zip(cand, probe):
                            hidden = any(part.startswith('.') for part in jp.split('/'))
                            if pr[0] == 'ok' and pr[1][0][1] and not hidden:
                                continue      # (hidden names stay: sidecar files are junk by the property's own list, whatever they would resolve to)
                            more.append(Case('fs_put', [roots[cfg] + '/' + jp, kind] + ([[['a', 'b']]] if kind == 'json' else []), 'setup', {}))
                # the list of existing Sids with all ancestors that have a path (per default configuration)
                L = sorted(ent.get(default, {}).keys())
                self.entity_lists[(ui, with_junk)] = L
                if not L:
                    continue      # nothing of this universe has a path in the default configuration
                state = rng.getstate()
                for qi in range(ns):
                    if qi == 1 and ui in self.targets:
                        q = self.targets[ui]
                    elif qi == 7:
                        files = [e for e in L if is_file(e)]
                        base = rng.choice(files or L).split('/')
                        q = '/'.join(base[:-2] + ['*']) if len(base) > 3 else '/'.join(base)       # the state level (no path template): constants
                    elif qi in (4, 24) and any('.' in e.split('/')[-1] and not is_file(e) for e in L):
                        # a folder entity whose free value holds a dot, named exactly, with an inner star, or in a ',' list
                        e = rng.choice([e for e in L if '.' in e.split('/')[-1] and not is_file(e)]).split('/')
                        w = e[-1]
                        k_ = w.index('.')
                        q = '/'.join(e[:-1] + [rng.choice([w, w[:k_ + 1] + '*', '*' + w[k_:], w + ',zz', w[:k_] + ',' + w])])
                    elif qi in (19, 33) and v.alias:
                        # an extension alias as the only search feature (every other value explicit): still a search, on every Finder
                        files = [e for e in L if is_file(e)]
                        base = rng.choice(files or L).split('/')
                        als = [a for a, ms in sorted(v.alias.items()) if base[-1] in ms]
                        q = '/'.join(base[:-1] + [rng.choice(als)]) if als and files else '/'.join(base)
                    elif qi in (8, 9, 10, 11, 12, 13, 14, 15):
                        base = rng.choice(L).split('/')
                        q = '/'.join(base[:-1] + ['*']) if len(base) > 1 else base[0]             # siblings of an entity
                    elif qi in (2, 3, 5):
                        base = rng.choice(L).split('/')
                        k = rng.randint(min(2, len(base)), len(base))
                        q = '/'.join(base[:k] + ['*'] * rng.choice([1, 1, 2]))      # children / grand-children level, incl. levels without path
                    elif qi in (6, 16, 17, 18):
                        # '>' with wildcards after it: the last of each group among several matches (files of several types / states)
                        deep_ = [e for e in L if len(e.split('/')) > 6] or L
                        base = rng.choice(deep_).split('/')
                        i = 5 if qi != 18 else 3
                        if len(base) > i:
                            base[i] = '>'
                            q = '/'.join(base[:i + 1] + ['*'] * (len(base) - i - 1))
                        else:
                            q = '/'.join(base)
                    elif qi % 4 == 0:
                        # a literal open value followed by stars
                        base = rng.choice(L).split('/')
                        n = natural(v, '/'.join(base))
                        opens = [i for i, (k, e) in enumerate(v.types[n[0]]) if v.alternatives(e) is None] if n else []
                        if opens:
                            i = rng.choice(opens)
                            if rng.random() < 0.5 and i > 4:
                                q = '/'.join(base[:4] + ['*'] * (i - 4) + [base[i]] + ['*'] * (len(base) - i - 1))
                            else:
                                q = '/'.join(base[:i + 1] + ['*'] * (len(base) - i - 1))
                        else:
                            q = '/'.join(base)
                    else:
                        q = ls.search_from(rng, v, L, allow_gt=(rng.random() < 0.25)) if rng.random() < 0.85 else rng.choice(L)
                    m = {'u': ui, 'junk': with_junk, 'q': q}
                    more.append(Case('unfold', [q, '0', '0', 'default'], 'unfold', dict(m, finder='unfold0')))      # before any finder saw the string
                    for cfg in cfgs:
                        more.append(Case('find_paths', [cfg, q], 'find', dict(m, finder='paths:' + cfg)))
                    more.append(Case('find_all', [q], 'find', dict(m, finder='all')))
                    more.append(Case('find_list', [L, q], 'find', dict(m, finder='list')))
                    more.append(Case('unfold', [q, '0', '0', 'default'], 'unfold', dict(m)))      # (spelled as the finders call it: the same cache entry)
                    if qi % 3 == 0 and not any(ch in q for ch in '?:'):
                        # the same search handed over as a Sid object (built from the plain string)
                        more.append(Case('find_paths', [default, q, 'sidarg'], 'find', dict(m, finder='paths-sidarg')))
                        more.append(Case('find_list', [L, q, 'sidarg'], 'find', dict(m, finder='list-sidarg')))
                        more.append(Case('find_all', [q, 'sidarg'], 'find', dict(m, finder='all-sidarg')))
                if not with_junk:
                    rng.setstate(state)      # the same searches again with junk injected
        more.append(Case('fs_reset', [], 'setup', {}))
        return more
    def compare(self, case, model, impl):
        if case.op == 'find_list' and model[0] == 'ok' and impl[0] == 'ok':
            return None if sorted(model[1]) == sorted(impl[1]) else 'find_list differs (as sets)'
        return None if model == impl else 'model and implementation differ'
    def oracle(self, case, impl, ctx):
        if case.stream == 'find' and impl[0] != 'ok':
            if impl[1] != 'SpilException':
                return '%s(%r) raised %r' % (case.meta.get('finder'), case.meta.get('q'), impl)
        return None
    def oracle_bulk(self, cases, impl_out, ctx):
        v = gen.vocab_from_ctx(ctx)
        cfgs = [pc[0] for pc in ctx['rawd']['path_configs']]
        default = ctx['rawd']['default_path_config'] or cfgs[0]
        path_types = {}
        for pc in ctx['rawd']['path_configs']:
            path_types[pc[0]] = set(k for k, _ in dict((k, vv) for k, vv in pc[1])['templates'])
        routed_paths = set()
        for t, d in dict((k, vv) for k, vv in dict((k, vv) for k, vv in ctx['raw'])['routing'])['finders']:
            if d and d[0] == 'paths':
                routed_paths.add(t)
        groups = {}
        for c, o in zip(cases, impl_out):
            if c.stream in ('find', 'unfold'):
                key = (c.meta['u'], c.meta['junk'], c.meta['q'])
                groups.setdefault(key, {})[c.meta.get('finder', 'unfold')] = (c, o)
        fails = []
        clean = {}
        for (u, junk, q), d in sorted(groups.items(), key=lambda kv: (kv[0][0], kv[0][1], kv[0][2])):
            if any(o[0] != 'ok' for _, o in d.values()):
                kinds = set((o[0], o[1] if o[0] != 'ok' else '') for _, o in d.values())
                if len(kinds) > 1:
                    c0, o0 = list(d.values())[0]
                    fails.append((c0, o0, 'finders do not fail alike on %r: %r' % (q, {k: o[:2] if o[0] != 'ok' else 'ok' for k, (_, o) in d.items()})))
                continue
            if 'unfold0' in d and d['unfold0'][1] != d['unfold'][1]:
                fails.append((d['unfold'][0], d['unfold'][1], 'unfold_search(%r) answers %r before the finders searched that string and %r afterwards (one process)' % (
                    q, d['unfold0'][1][1][:6], d['unfold'][1][1][:6])))
            res = {k: sorted(o[1]) for k, (c, o) in d.items() if k not in ('unfold', 'unfold0')}
            # a Sid object built from the search string denotes the same search
            for k in list(res):
                if k.endswith('-sidarg'):
                    base_k = {'paths-sidarg': 'paths:' + default, 'list-sidarg': 'list', 'all-sidarg': 'all'}[k]
                    if base_k in res and res[k] != res[base_k]:
                        fails.append((d[k][0], d[k][1], '%s.find(Sid(%r)) = %r but find(%r) = %r' % (base_k.split(':')[0], q, res[k], q, res[base_k])))
                    del res[k]
            (uc, uo) = d['unfold']
            utypes = set(x[1] for x in uo[1])
            # local and server trees hold the same entities
            ps = [res['paths:' + cfg] for cfg in cfgs]
            if any(p != ps[0] for p in ps):
                fails.append((d['paths:' + cfgs[0]][0], d['paths:' + cfgs[0]][1], 'path configurations answer differently for %r: %r' % (q, {cfg: res['paths:' + cfg] for cfg in cfgs})))
                continue
            # FindInPaths = FindInList restricted to types that have a path (non-'>' searches; '>' needs the same candidate set: covered by C09)
            if '>' not in q and ls.plain(q):
                lst = [e for e in res['list'] if (natural(v, e) or ('', None))[0] in utypes and (natural(v, e) or ('', None))[0] in path_types[default]]
                if sorted(lst) != res['paths:' + default]:
                    fails.append((d['paths:' + default][0], d['paths:' + default][1],
                                  'FindInPaths(%s).find(%r) = %r but the list of existing Sids gives %r' % (default, q, res['paths:' + default], sorted(lst))))
            if '>' in q and ls.plain(q) and utypes and utypes <= path_types[default]:
                if res['list'] != res['paths:' + default]:
                    fails.append((d['paths:' + default][0], d['paths:' + default][1],
                                  "'>' search %r: FindInPaths gives %r, FindInList over the same entities %r" % (q, res['paths:' + default], res['list'])))
            # FindInAll = FindInPaths when every unfolded type is served by the path finder
            if utypes and utypes <= routed_paths:
                if res['all'] != res['paths:' + default]:
                    fails.append((d['all'][0], d['all'][1], 'FindInAll.find(%r) = %r differs from FindInPaths %r' % (q, res['all'], res['paths:' + default])))
            # junk never changes the result
            if not junk:
                clean[(u, q)] = res
            else:
                base = clean.get((u, q))
                if base is not None:
                    for k in res:
                        if k != 'list' and res[k] != base[k]:
                            fails.append((d[k][0], d[k][1], 'junk changed the result of %s.find(%r): %r -> %r' % (k, q, base[k], res[k])))
        return fails
    def nontrivial(self, case, impl):
        return [case.op, case.args] if case.stream == 'find' and impl[0] == 'ok' and impl[1] else None
    def histogram_key(self, case, impl):
        if case.stream == 'find':
            return '%s:%s' % (case.meta['finder'].split(':')[0].split('-')[0] + ('-sidarg' if 'sidarg' in case.meta['finder'] else ''), 'raise' if impl[0] != 'ok' else min(len(impl[1]), 3))
        return case.stream

PROP = C11()
