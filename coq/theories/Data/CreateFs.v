(** C15: what [fs_mkdir_parents] / [fs_touch] / [w_create] do to the set of paths of the tree, and the
    directories above a path ([ancestors_and_self], [parent_path]). *)
From Coq Require Import List String Ascii Bool Arith Lia.
From Spil Require Import Base.Str Base.Dict Base.Outcome Base.PyPath Base.StrProofs Base.SplitProofs
  Conf.Conf Conf.Routing Sid.Sid Sid.SidLemmas FS.Fs Data.Data Data.CreateDefs.
Import ListNotations.
Local Open Scope string_scope.

(** * The directories above a path *)

Lemma prefixes_In parts a : forall n,
  In a (prefixes_asc parts n) <-> exists k, 1 <= k <= n /\ a = join "/" (firstn k parts).
Proof.
  induction n as [|n IH]; cbn [prefixes_asc].
  - split; [intros [] | intros (k & Hk & _); lia].
  - rewrite in_app_iff, IH. cbn [In]. split.
    + intros [(k & Hk & E) | [E | []]].
      * exists k. split; [lia | exact E].
      * exists (S n). split; [lia | symmetry; exact E].
    + intros (k & Hk & E). destruct (Nat.eq_dec k (S n)) as [->|Hne].
      * right. left. symmetry. exact E.
      * left. exists k. split; [lia | exact E].
Qed.

Lemma anc_char p a :
  In a (ancestors_and_self p) <->
  a <> "" /\ exists k, 1 <= k <= List.length (split_c "/" p) /\ a = join "/" (firstn k (split_c "/" p)).
Proof.
  unfold ancestors_and_self. rewrite filter_In, prefixes_In. split.
  - intros (H & Hne). split; [|exact H]. intros ->. discriminate.
  - intros (Hne & H). split; [exact H|]. destruct a; [congruence | reflexivity].
Qed.

Lemma firstn_not_nil {A} (l : list A) k : 1 <= k -> l <> [] -> firstn k l <> [].
Proof. destruct k; [lia|]. destruct l; [congruence|]. discriminate. Qed.

Lemma Forall_firstn {A} (P : A -> Prop) (l : list A) k : Forall P l -> Forall P (firstn k l).
Proof.
  intros H. apply Forall_forall. intros x Hx. rewrite Forall_forall in H. apply H.
  rewrite <- (firstn_skipn k l). apply in_or_app. left. exact Hx.
Qed.

(* a prefix of the components of a path is read back as it is *)
Lemma split_firstn p k : 1 <= k ->
  split_c "/" (join "/" (firstn k (split_c "/" p))) = firstn k (split_c "/" p).
Proof.
  intros Hk. apply (split_c_join "/"%char).
  - apply firstn_not_nil; [exact Hk | apply split_c_not_nil].
  - apply Forall_firstn. apply split_c_nomem_all.
Qed.

Lemma anc_self p : p <> "" -> In p (ancestors_and_self p).
Proof.
  intros Hne. apply anc_char. split; [exact Hne|]. exists (List.length (split_c "/" p)). split.
  - pose proof (split_c_not_nil "/"%char p) as H. destruct (split_c "/" p); [congruence | cbn; lia].
  - rewrite firstn_all. symmetry. exact (join_split_c "/"%char p).
Qed.

(* a directory above a directory above q is above q *)
Lemma anc_trans q a b : In a (ancestors_and_self q) -> In b (ancestors_and_self a) -> In b (ancestors_and_self q).
Proof.
  rewrite !anc_char. intros (Ha & k & Hk & Ea) (Hb & j & Hj & Eb). split; [exact Hb|].
  destruct Hk as (Hk1 & Hk2). subst a. rewrite (split_firstn q k Hk1) in Hj, Eb.
  rewrite firstn_length in Hj. rewrite firstn_firstn in Eb.
  exists (Nat.min j k). split; [lia | exact Eb].
Qed.

Lemma abs_path_inv p : abs_path p = true -> exists r, p = String "/" r.
Proof.
  unfold abs_path. destruct p as [|a r]; [discriminate|]. cbn [startswith].
  destruct (Ascii.eqb "/" a) eqn:E; cbn [andb]; [|discriminate]. apply Ascii.eqb_eq in E. subst a. intros _. exists r. reflexivity.
Qed.

Lemma abs_split_len p : abs_path p = true -> 2 <= List.length (split_c "/" p).
Proof.
  intros H. destruct (abs_path_inv p H) as (r & ->). cbn [split_c]. rewrite Ascii.eqb_refl.
  pose proof (split_c_not_nil "/"%char r) as Hn. destruct (split_c "/" r); [congruence | cbn; lia].
Qed.

Lemma abs_split_head p : abs_path p = true -> exists rest, split_c "/" p = "" :: rest.
Proof.
  intros H. destruct (abs_path_inv p H) as (r & ->). cbn [split_c]. rewrite Ascii.eqb_refl.
  exists (split_c "/" r). reflexivity.
Qed.

Lemma removelast_firstn_pred {A} (l : list A) : removelast l = firstn (List.length l - 1) l.
Proof.
  induction l as [|x l IH]; [reflexivity|]. destruct l as [|y l]; [reflexivity|].
  change (removelast (x :: y :: l)) with (x :: removelast (y :: l)). rewrite IH.
  cbn [List.length]. replace (S (S (List.length l)) - 1) with (S (S (List.length l) - 1)) by lia.
  reflexivity.
Qed.

(* the directory of a path with at least three components ("", a, b, ...) *)
Lemma parent_path_long p : 3 <= List.length (split_c "/" p) ->
  parent_path p = join "/" (firstn (List.length (split_c "/" p) - 1) (split_c "/" p)).
Proof.
  intros Hl. unfold parent_path. rewrite removelast_firstn_pred.
  set (l := firstn (List.length (split_c "/" p) - 1) (split_c "/" p)).
  assert (Hlen : 2 <= List.length l) by (unfold l; rewrite firstn_length; lia).
  destruct l as [|s [|b t]]; cbn in Hlen; try lia. destruct s; reflexivity.
Qed.

Lemma parent_path_short p : abs_path p = true -> List.length (split_c "/" p) = 2 -> parent_path p = "/".
Proof.
  intros Ha Hl. destruct (abs_split_head p Ha) as (rest & E). unfold parent_path. rewrite E in *.
  destruct rest as [|y [|z t]]; cbn in Hl; try lia. reflexivity.
Qed.

(* the directories above the directory of p are above p ... *)
Lemma proper_dirs_anc p a : abs_path p = true -> In a (proper_dirs p) ->
  a = "/" \/ In a (ancestors_and_self p).
Proof.
  intros Ha H. pose proof (abs_split_len p Ha) as Hl. unfold proper_dirs in H.
  destruct (Nat.eq_dec (List.length (split_c "/" p)) 2) as [E2|N2].
  - rewrite (parent_path_short p Ha E2) in H. left. vm_compute in H. destruct H as [H|[]]. symmetry. exact H.
  - right. rewrite (parent_path_long p) in H by lia. apply anc_char in H. destruct H as (Hne & k & Hk & E).
    rewrite split_firstn in Hk, E by lia. rewrite firstn_length in Hk. rewrite firstn_firstn in E.
    apply anc_char. split; [exact Hne|]. exists (Nat.min k (List.length (split_c "/" p) - 1)).
    split; [lia | exact E].
Qed.

(* ... and they are all of them, but p *)
Lemma anc_proper_dirs p a : abs_path p = true -> In a (ancestors_and_self p) ->
  a = p \/ In a (proper_dirs p).
Proof.
  intros Ha H. pose proof (abs_split_len p Ha) as Hl. apply anc_char in H. destruct H as (Hne & k & Hk & E).
  destruct (Nat.eq_dec k (List.length (split_c "/" p))) as [->|Nk].
  - left. rewrite firstn_all in E. rewrite E. exact (join_split_c "/"%char p).
  - right. unfold proper_dirs.
    destruct (Nat.eq_dec (List.length (split_c "/" p)) 2) as [E2|N2].
    + exfalso. destruct (abs_split_head p Ha) as (rest & Es). rewrite Es in E.
      assert (k = 1) by lia. subst k. cbn in E. congruence.
    + rewrite (parent_path_long p) by lia. apply anc_char. split; [exact Hne|].
      rewrite split_firstn by lia. rewrite firstn_length. exists k. split; [lia|].
      rewrite firstn_firstn. replace (Nat.min k (List.length (split_c "/" p) - 1)) with k by lia. exact E.
Qed.

Lemma proper_dirs_trans p a b : In a (proper_dirs p) -> In b (ancestors_and_self a) -> In b (proper_dirs p).
Proof. unfold proper_dirs. apply anc_trans. Qed.

(** * Keys of the tree *)

Lemma fs_exists_In (F : fs) p : fs_exists F p = true <-> In p (dkeys F).
Proof.
  unfold fs_exists, dmem, dkeys. rewrite <- dget_In_keys. destruct (dget F p); split; intros H; congruence.
Qed.

Lemma fs_exists_false (F : fs) p : fs_exists F p = false <-> ~ In p (dkeys F).
Proof. rewrite <- fs_exists_In. destruct (fs_exists F p); split; intros H; congruence. Qed.

Lemma fs_add_keys (F : fs) p n k : In k (dkeys (fs_add F p n)) <-> In k (dkeys F) \/ k = p.
Proof.
  unfold fs_add, dkeys. rewrite dset_keys. destruct (in_list p (map fst F)) eqn:E.
  - apply in_list_In in E. split; [intros H; left; exact H | intros [H | ->]; assumption].
  - rewrite in_app_iff. cbn [In]. split; [intros [H | [H | []]]; [left; exact H | right; symmetry; exact H]
                                         | intros [H | ->]; [left; exact H | right; left; reflexivity]].
Qed.

Lemma mkdir_fold_keys k : forall (l : list string) (F : fs),
  In k (dkeys (fold_left (fun acc a => if fs_exists acc a then acc else fs_add acc a Dir) l F))
  <-> In k (dkeys F) \/ In k l.
Proof.
  induction l as [|a l IH]; intros F; cbn [fold_left In].
  - split; [intros H; left; exact H | intros [H | []]; exact H].
  - rewrite IH. destruct (fs_exists F a) eqn:E.
    + apply fs_exists_In in E. split.
      * intros [H | H]; [left; exact H | right; right; exact H].
      * intros [H | [<- | H]]; [left; exact H | left; exact E | right; exact H].
    + rewrite fs_add_keys. split.
      * intros [[H | ->] | H]; [left; exact H | right; left; reflexivity | right; right; exact H].
      * intros [H | [<- | H]]; [left; left; exact H | left; right; reflexivity | right; exact H].
Qed.

(* mkdir -p : the paths of the tree afterwards *)
Lemma mkdir_keys (F F' : fs) q : fs_mkdir_parents F q = Ok F' ->
  forall k, In k (dkeys F') <-> In k (dkeys F) \/ In k (ancestors_and_self q).
Proof.
  unfold fs_mkdir_parents. destruct (fs_exists F q); [discriminate|].
  destruct (existsb _ (ancestors_and_self q)); [discriminate|].
  intros H k. inversion H. apply mkdir_fold_keys.
Qed.

Lemma mkdir_raise (F : fs) q e : fs_mkdir_parents F q = Raise e -> e = OSError.
Proof.
  unfold fs_mkdir_parents. destruct (fs_exists F q); [intros H; inversion H; reflexivity|].
  destruct (existsb _ (ancestors_and_self q)); [intros H; inversion H; reflexivity | discriminate].
Qed.

Lemma fs_get_In (F : fs) p n : fs_get F p = Some n -> In p (dkeys F).
Proof. unfold fs_get, dkeys. intros H. apply dget_In_keys. congruence. Qed.

(* _create_parent + touch : the paths of the tree afterwards *)
Lemma touch_keys (F F' : fs) p : fs_touch F p = Ok F' ->
  (forall k, In k (dkeys F) -> In k (dkeys F')) /\ In p (dkeys F') /\
  (forall k, In k (dkeys F') -> In k (dkeys F) \/ k = p \/ In k (proper_dirs p)) /\
  (fs_exists F (parent_path p) = false -> forall a, In a (proper_dirs p) -> In a (dkeys F')).
Proof.
  unfold fs_touch, proper_dirs. intros H.
  assert (H1 : exists F1, (if fs_exists F (parent_path p)
                           then (if fs_isdir F (parent_path p) then Ok F else Raise OSError)
                           else fs_mkdir_parents F (parent_path p)) = Ok F1 /\
            match fs_get F1 p with Some Dir => Raise OSError | Some _ => Ok F1
                                 | None => Ok (fs_add F1 p (File CEmpty)) end = Ok F').
  { destruct (if fs_exists F (parent_path p) then _ else _) as [F1|e]; [|discriminate].
    exists F1. split; [reflexivity | exact H]. }
  clear H. destruct H1 as (F1 & H1 & H2).
  assert (K1 : (forall k, In k (dkeys F1) <-> In k (dkeys F) \/
                 (fs_exists F (parent_path p) = false /\ In k (ancestors_and_self (parent_path p))))).
  { destruct (fs_exists F (parent_path p)) eqn:Ex.
    - destruct (fs_isdir F (parent_path p)); [|discriminate]. inversion H1. subst F1. intros k.
      split; [intros Hk; left; exact Hk | intros [Hk | (Hf & _)]; [exact Hk | discriminate]].
    - intros k. rewrite (mkdir_keys F F1 _ H1 k). split.
      + intros [Hk | Hk]; [left; exact Hk | right; split; [reflexivity | exact Hk]].
      + intros [Hk | (_ & Hk)]; [left; exact Hk | right; exact Hk]. }
  assert (K2 : forall k, In k (dkeys F') <-> In k (dkeys F1) \/ k = p).
  { destruct (fs_get F1 p) as [n|] eqn:Eg.
    - pose proof (fs_get_In F1 p n Eg) as Hin. destruct n; try discriminate; inversion H2; subst F';
        (intros k; split; [intros Hk; left; exact Hk | intros [Hk | ->]; assumption]).
    - inversion H2. intros k. apply fs_add_keys. }
  split; [|split; [|split]].
  - intros k Hk. apply K2. left. apply K1. left. exact Hk.
  - apply K2. right. reflexivity.
  - intros k Hk. apply K2 in Hk. destruct Hk as [Hk | ->]; [|right; left; reflexivity].
    apply K1 in Hk. destruct Hk as [Hk | (_ & Hk)]; [left; exact Hk | right; right; exact Hk].
  - intros Hf a Ha. apply K2. left. apply K1. right. split; assumption.
Qed.

Lemma touch_raise (F : fs) p e : fs_touch F p = Raise e -> e = OSError.
Proof.
  unfold fs_touch. destruct (fs_exists F (parent_path p)).
  - destruct (fs_isdir F (parent_path p)); cbn [bind].
    + destruct (fs_get F p) as [[| |]|]; intros H; inversion H; reflexivity.
    + intros H; inversion H; reflexivity.
  - destruct (fs_mkdir_parents F (parent_path p)) as [F1|e1] eqn:Em; cbn [bind].
    + destruct (fs_get F1 p) as [[| |]|]; intros H; inversion H; reflexivity.
    + intros H. inversion H. subst e1. exact (mkdir_raise _ _ _ Em).
Qed.

(** * [fs_inv] : decidable, holds of the root alone, kept by adding a path with its directories *)

Lemma fs_invb_sound F : fs_invb F = true -> fs_inv F.
Proof.
  unfold fs_invb, fs_inv. intros H. apply andb_true_iff in H. destruct H as (H1 & H2). split.
  - apply in_list_In. exact H1.
  - intros q a Hq Ha. rewrite forallb_forall in H2. specialize (H2 q Hq). rewrite forallb_forall in H2.
    apply in_list_In. exact (H2 a Ha).
Qed.

Lemma fs_inv_root : fs_inv fs_root.
Proof. apply fs_invb_sound. vm_compute. reflexivity. Qed.

Lemma fs_inv_step (F F' : fs) p : abs_path p = true -> fs_inv F ->
  (forall k, In k (dkeys F) -> In k (dkeys F')) -> In p (dkeys F') ->
  (forall k, In k (dkeys F') -> In k (dkeys F) \/ k = p \/ In k (proper_dirs p)) ->
  (forall a, In a (proper_dirs p) -> In a (dkeys F')) ->
  fs_inv F'.
Proof.
  intros Ha (Hroot & Hcl) Hsub Hp Hnew Hdirs. split; [exact (Hsub _ Hroot)|].
  intros q a Hq Hqa. destruct (Hnew q Hq) as [HF | [-> | Hd]].
  - apply Hsub. exact (Hcl q a HF Hqa).
  - destruct (anc_proper_dirs p a Ha Hqa) as [-> | Hd]; [exact Hp | exact (Hdirs a Hd)].
  - apply Hdirs. exact (proper_dirs_trans p q a Hd Hqa).
Qed.

(** * [w_create] without data: the shape of a success, and the paths of the tree afterwards *)

Section Create.
Variables (Ld : Loaded) (Rt : Routing).

(* the file-system operation of create() on the path p of the Sid x *)
Definition create_op (F : fs) (x : sid) (p : string) : outcome fs :=
  if truthy (path_suffix p) && is_leaf Ld x
  then (if rt_touch Rt then fs_touch F p else Ok F)
  else fs_mkdir_parents F p.

Lemma w_create_ok_inv F cfg s F' b : w_create Ld Rt F cfg s [] = Ok (F', b) ->
  exists x p, Sid Ld s = Ok x /\ sid_path Ld x (default_cfg Ld cfg) = Ok (Some p) /\
    fs_exists F p = false /\ create_op F x p = Ok F' /\ b = fs_exists F' p.
Proof.
  unfold w_create, create_op. destruct (Sid Ld s) as [x|e] eqn:Es; [|discriminate]. cbn [bind].
  destruct (sid_path Ld x (default_cfg Ld cfg)) as [[p|]|e] eqn:Ep; try discriminate. cbn [bind].
  destruct (fs_exists F p) eqn:Ex; [discriminate|].
  destruct (if truthy (path_suffix p) && is_leaf Ld x then _ else _) as [F1|e] eqn:Eo; [|discriminate]. cbn [bind].
  intros H. exists x, p. destruct (fs_exists F1 p) eqn:E1; cbn [negb] in H; inversion H; subst;
    repeat split; try reflexivity; try assumption; symmetry; exact E1.
Qed.

Lemma create_op_keys F x p F' : abs_path p = true -> create_op F x p = Ok F' ->
  (forall k, In k (dkeys F) -> In k (dkeys F')) /\
  (forall k, In k (dkeys F') -> In k (dkeys F) \/ k = p \/ In k (proper_dirs p)) /\
  (fs_exists F' p = false -> F' = F) /\
  (fs_exists F' p = true -> fs_inv F -> forall a, In a (proper_dirs p) -> In a (dkeys F')).
Proof.
  intros Ha. assert (Hne : p <> "") by (destruct (abs_path_inv p Ha) as (r & ->); discriminate).
  unfold create_op. destruct (truthy (path_suffix p) && is_leaf Ld x).
  - destruct (rt_touch Rt).
    + intros H. destruct (touch_keys F F' p H) as (T1 & T2 & T3 & T4).
      split; [exact T1|]. split; [exact T3|]. split.
      * intros Hf. apply fs_exists_false in Hf. contradiction.
      * intros _ (Hroot & Hcl) a Hd. destruct (fs_exists F (parent_path p)) eqn:Ex.
        -- apply T1. apply fs_exists_In in Ex. exact (Hcl _ a Ex Hd).
        -- exact (T4 eq_refl a Hd).
    + intros H. inversion H. subst F'. split; [auto|]. split; [auto|]. split; [auto|].
      intros Hex (Hroot & Hcl) a Hd. destruct (proper_dirs_anc p a Ha Hd) as [-> | Hanc]; [exact Hroot|].
      apply fs_exists_In in Hex. exact (Hcl p a Hex Hanc).
  - intros H. pose proof (mkdir_keys F F' p H) as K.
    assert (Hp : In p (dkeys F')) by (apply K; right; exact (anc_self p Hne)).
    split; [intros k Hk; apply K; left; exact Hk|]. split.
    + intros k Hk. apply K in Hk. destruct Hk as [Hk | Hk]; [left; exact Hk|].
      right. exact (anc_proper_dirs p k Ha Hk).
    + split.
      * intros Hf. apply fs_exists_false in Hf. contradiction.
      * intros _ (Hroot & _) a Hd. destruct (proper_dirs_anc p a Ha Hd) as [-> | Hanc].
        -- apply K. left. exact Hroot.
        -- apply K. right. exact Hanc.
Qed.

End Create.
