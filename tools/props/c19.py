"""C19 template extrapolation / pattern replacement."""
from harness.runner import PropBase, Case

KEYS = ['project', 'type', 'sequence', 'shot', 'asset', 'assettype', 'task', 'version', 'state', 'ext', 'node', 'step', 'cat', 'name', 'a', 'b']

def gen_config(rng):
    sep = '__' if rng.random() < 0.85 else rng.choice(['_', '--', '__'])
    nb = rng.randint(1, 4)
    basetypes = rng.sample(['asset', 'shot', 'project', 'render', 'type', 'task', 'a', 'sequence'], nb)
    templates = []
    to_ex = []
    shared = ['project'] if rng.random() < 0.8 else []
    for bt in basetypes:
        n = rng.randint(2, 9)
        pool = [k for k in KEYS if k not in shared]
        rng.shuffle(pool)
        keys = (shared + pool)[:n]
        if rng.random() < 0.4 and bt in KEYS and bt not in keys:
            keys[rng.randrange(len(shared), len(keys)) if len(keys) > len(shared) else 0] = bt  # key named like the basetype
        def ph(k):
            r = rng.random()
            if r < 0.2:
                return '{%s:%s}' % (k, rng.choice(['a', 's', 'x', bt[0]]))
            return '{%s}' % k
        parts = [ph(k) for k in keys]
        # leaf / explicit entries: deepest first or in random order
        levels = sorted(set([len(keys)] + [rng.randint(1, len(keys)) for _ in range(rng.randint(0, 3))]), reverse=True)
        if rng.random() < 0.3:
            rng.shuffle(levels)
        ents = []
        for lv in levels:
            r = rng.random()
            if r < 0.7:
                name = bt + sep + keys[lv - 1]
            elif r < 0.85:
                name = bt + sep + rng.choice(['file', 'movie_file', keys[lv - 1] + '_x'])
            else:
                name = bt if lv <= 2 else bt + sep + keys[lv - 1]
            ents.append((name, '/'.join(parts[:lv])))
        if rng.random() < 0.35 and len(keys) >= 3:
            # a second chain of the same basetype that diverges from the first (a level inserted or renamed below a shared prefix):
            # its prefixes propose type names that the first chain may have generated already
            d = rng.randrange(1, len(keys))
            extra = [k for k in KEYS if k not in keys] or ['zz']
            keys2 = keys[:d] + [rng.choice(extra)] + (keys[d:] if rng.random() < 0.6 else keys[d + 1:])
            parts2 = [ph(k) if i_ >= d else parts[i_] for i_, k in enumerate(keys2)]
            for lv in sorted(set([len(keys2)] + [rng.randint(d + 1, len(keys2)) for _ in range(rng.randint(0, 1))]), reverse=True):
                ents.append((bt + sep + keys2[lv - 1] if rng.random() < 0.8 else bt + sep + keys2[lv - 1] + '_2', '/'.join(parts2[:lv])))
        templates.extend(ents)
        for name, _ in ents:
            if rng.random() < 0.6:
                to_ex.append(name)
    # dictionary semantics: unique names (later duplicates would overwrite): keep first
    seen = set(); uniq = []
    for n, t in templates:
        if n not in seen:
            seen.add(n); uniq.append([n, t])
    if rng.random() < 0.1:
        to_ex.append('nonexistent' + sep + 'x')
    return uniq, sorted(set(to_ex), key=to_ex.index), sep

def gen_patterns(rng, templates):
    sels = []
    names = [n for n, _ in templates]
    for _ in range(rng.randint(0, 4)):
        r = rng.random()
        if r < 0.3:
            sel = '__'
        elif r < 0.6 and names:
            n = rng.choice(names); i = rng.randrange(len(n)); sel = n[i:i + rng.randint(1, 4)]
        elif r < 0.8:
            sel = rng.choice(['t', 'a', 's', 'e'])
        else:
            sel = rng.choice(['zzz', 'asset__', 'shot__'])
        repl = []
        for _ in range(rng.randint(1, 3)):
            k = rng.choice(KEYS)
            f = rng.choice(['{%s}' % k, '{%s:a}' % k, '{%s:s}' % k, k])
            repl.append([f, '{%s:(%s|\\*|\\>)}' % (k, rng.choice(['x|y', 'v\\d\\d\\d', 'a', 'w|p']))])
        sels.append([sel, repl])
    # unique selectors / finds (dict semantics)
    out = []; seen = set()
    for s, r in sels:
        if s in seen:
            continue
        seen.add(s)
        rr = []; sf = set()
        for f, t in r:
            if f not in sf:
                sf.add(f); rr.append([f, t])
        out.append([s, rr])
    return out

def spec_extrapolate(templates, to_ex, sep):
    """Independent statement of the property (not the model, not the code)."""
    in_names = [n for n, _ in templates]
    in_tpls = [t for _, t in templates]
    result = []
    for name, tpl in templates:
        result.append([name, tpl])
        if name in to_ex:
            keytype = name.split(sep)[-1]
            stem = name[:len(name) - len(keytype)]
            parts = tpl.split('/')
            for n in range(len(parts) - 1, 0, -1):
                prefix = '/'.join(parts[:n])
                lastkey = parts[n - 1].split(':')[0].replace('{', '').replace('}', '')
                new = stem + lastkey
                owned = prefix in in_tpls or prefix in [t for _, t in result]
                taken = new in in_names or new in [x for x, _ in result]
                if not owned and not taken:
                    result.append([new, prefix])
    return result

class C19(PropBase):
    id = 'C19'
    rule = ('template sets from the grammar of the property (1-4 basetypes, chains of 2-9 keys, explicit intermediates, '
            'shared prefixes, a second diverging chain per basetype, key named like the basetype, custom separators) + random selectors; a case is non-trivial '
            'when extrapolation adds at least one type / replacement changes at least one template; distinct by input')
    partial_note = ''
    def cases(self, rng, ctx, tier):
        n = 300 if tier == 'quick' else 5000
        out = []
        for _ in range(n):
            t, te, sep = gen_config(rng)
            out.append(Case('extrapolate', [t, te, sep], 'structured'))
            out.append(Case('pattern_replacing', [t, gen_patterns(rng, t)], 'structured'))
        # the live configuration itself
        rd = ctx.get('rawd')
        if rd:
            out.append(Case('extrapolate', [rd['sid_templates'], rd['to_extrapolate'], rd['sep']], 'live'))
            out.append(Case('pattern_replacing', [rd['sid_templates'], rd['key_patterns']], 'live'))
        return out
    def oracle(self, case, impl, ctx):
        if case.op == 'extrapolate':
            t, te, sep = case.args
            exp = spec_extrapolate(t, te, sep)
            if impl != exp:
                return 'extrapolate_templates differs from the property statement: expected %r' % (exp,)
            names = [n for n, _ in impl]
            if len(set(names)) != len(names):
                return 'duplicate type names'
            tpls = [x for _, x in impl]
            if len(set(x for _, x in t)) == len(t) and len(set(tpls)) != len(tpls):
                return 'duplicate templates'
        elif case.op == 'pattern_replacing':
            t, kp = case.args
            if [n for n, _ in impl] != [n for n, _ in t]:
                return 'type names or order changed'
            for (n, old), (_, new) in zip(t, impl):
                exp = old
                for sel, repl in kp:
                    if sel in n:
                        for f, r in repl:
                            exp = exp.replace(f, r)
                if new != exp:
                    return 'template of %s: expected %r got %r' % (n, exp, new)
        return None
    def nontrivial(self, case, impl):
        if case.op == 'extrapolate':
            return [case.args] if len(impl) > len(case.args[0]) else None
        return [case.args] if impl != case.args[0] else None
    def histogram_key(self, case, impl):
        if case.op == 'extrapolate':
            return 'extrapolate:+%d' % (len(impl) - len(case.args[0]))
        return 'replace:%d changed' % sum(1 for a, b in zip(case.args[0], impl) if a != b)

PROP = C19()
