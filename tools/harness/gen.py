"""Vocabulary-driven generators (DESIGN.md 3.3).  Parsing of templates here is for *generation only*."""
import re

OPEN_VALUES = ['x', 'a_b', 'a-b', 'a.b', 'a+b', 'WORK', 'w', 'hamlet', 'maya', 'ophelia', 'main', 'v001', 'sq001', 'n1', 'X', 'p', 'HAMLET']
ODD_VALUES = ['', ' a', 'a b', '.', '..', 'a:b', 'a?b', 'a,b', '*', '>', '**', 'a*', '~x', 'a%2Fb', 'a#b', 'a&b', 'a=b', 'x\n', '\t', "a'b", 'a\\b', '{x}', '[x]', 'é']

PH = re.compile(r'\{([^:{}]+)(?::((?:[^{}])+))?\}')

class Vocab:
    def __init__(self, sid_templates, extension_alias=None):
        # sid_templates: list of [type, template] after extrapolation and replacement
        self.types = {}
        self.order = []
        for t, tpl in sid_templates:
            keys = []
            for m in PH.finditer(tpl):
                keys.append((m.group(1), m.group(2)))
            self.types[t] = keys
            self.order.append(t)
        self.alias = dict((k, v) for k, v in (extension_alias or []))

    @staticmethod
    def alternatives(expr):
        """closed pattern '(a|b|\\*|\\>)' -> list of raw alternatives, else None (open)"""
        if expr is None:
            return None
        e = expr
        if e.startswith('(') and e.endswith(')'):
            e = e[1:-1]
        if any(ch in e for ch in '()[]+?{}'):
            return None
        return e.split('|')

    @staticmethod
    def instantiate(alt, rng, mode='random'):
        out = ''
        i = 0
        while i < len(alt):
            if alt[i] == '\\' and i + 1 < len(alt):
                c = alt[i + 1]
                if c == 'd':
                    out += {'min': '0', 'max': '9'}.get(mode, str(rng.randrange(10)))
                else:
                    out += c
                i += 2
            elif alt[i] == '.':
                out += rng.choice('ax.')
                i += 1
            else:
                out += alt[i]; i += 1
        return out

    def concrete_values(self, expr, rng, n=3):
        alts = self.alternatives(expr)
        if alts is None:
            return [rng.choice(OPEN_VALUES) for _ in range(n)]
        vals = []
        for a in alts:
            if a in ('\\*', '\\>'):
                continue
            vals.append(self.instantiate(a, rng, rng.choice(['min', 'max', 'random'])))
        return vals or ['x']

    def value(self, expr, rng, search_p=0.0):
        alts = self.alternatives(expr)
        if rng.random() < search_p:
            return rng.choice(['*', '>', '*', '*'])
        if alts is None:
            return rng.choice(OPEN_VALUES)
        conc = [a for a in alts if a not in ('\\*', '\\>')]
        if not conc:
            return '*'
        return self.instantiate(rng.choice(conc), rng, rng.choice(['min', 'max', 'random', 'random']))

    def fields(self, t, rng, search_p=0.0):
        return [(k, self.value(e, rng, search_p)) for k, e in self.types[t]]

    def sid(self, t, rng, search_p=0.0):
        return '/'.join(v for _, v in self.fields(t, rng, search_p))

    def any_type(self, rng):
        return rng.choice(self.order)

    def all_keys(self):
        ks = []
        for t in self.order:
            for k, _ in self.types[t]:
                if k not in ks:
                    ks.append(k)
        return ks

def vocab_from_ctx(ctx):
    if 'vocab' not in ctx:
        ctx['vocab'] = Vocab(ctx['loaded_templates'], ctx['rawd'].get('extension_alias'))
    return ctx['vocab']

def mutate_string(s, rng, vocab):
    """One mutation of a valid sid string (segments / prefixes / queries / control characters)."""
    segs = s.split('/')
    r = rng.random()
    if r < 0.12 and segs:
        i = rng.randrange(len(segs)); segs[i] = rng.choice(OPEN_VALUES + ODD_VALUES); return '/'.join(segs)
    if r < 0.2 and len(segs) > 1:
        i = rng.randrange(len(segs)); del segs[i]; return '/'.join(segs)
    if r < 0.27 and segs:
        i = rng.randrange(len(segs)); segs.insert(i, segs[i]); return '/'.join(segs)
    if r < 0.33 and len(segs) > 1:
        i = rng.randrange(len(segs) - 1); segs[i], segs[i + 1] = segs[i + 1], segs[i]; return '/'.join(segs)
    if r < 0.38:
        i = rng.randrange(len(segs) + 1); segs.insert(i, ''); return '/'.join(segs)
    if r < 0.48:
        return s + rng.choice(['/', '\n', '\r', '\t', ' ', '/ ', '//', '\n\n', '/\n'])
    if r < 0.56:
        return rng.choice(['\n', ' ', '/', '\t']) + s
    if r < 0.7:
        t = rng.choice(vocab.order + ['', 'nosuchtype', 'asset', 'a:b', ':'])
        return t + ':' + s
    if r < 0.75:
        return rng.choice(vocab.order) + ':' + rng.choice(vocab.order) + ':' + s
    if r < 0.83:
        i = rng.randrange(len(segs)); segs[i] = rng.choice(['*', '>', '**', 'a,b', '*,x']); return '/'.join(segs)
    if r < 0.9 and segs:
        i = rng.randrange(len(segs)); segs[i] = segs[i] + rng.choice(['x', '\n', ' ', '*', '0']); return '/'.join(segs)
    if r < 0.95 and segs:
        i = rng.randrange(len(segs)); segs[i] = segs[i][:-1]; return '/'.join(segs)
    return s.upper()

def junk_string(rng):
    n = rng.randint(0, 12)
    alphabet = 'abcxyz019_-.*>, :?=&~#%+\n\t\r' + "'\\"
    segs = []
    for _ in range(n):
        segs.append(''.join(rng.choice(alphabet) for _ in range(rng.randint(0, 6))))
    return '/'.join(segs)

def gen_query(rng, vocab, fields, style=None):
    """query text of 1-3 pairs over existing / deeper / foreign / optional / invalid / search / odd values"""
    keys_here = [k for k, _ in fields]
    allk = vocab.all_keys()
    pairs = []
    for _ in range(rng.randint(1, 3)):
        r = rng.random()
        if r < 0.45 and keys_here:
            k = rng.choice(keys_here)
        elif r < 0.8:
            k = rng.choice(allk)
        else:
            k = rng.choice(['foo', 'bar', '', 'Project', 'ext '])
        # a value: valid for some type's pattern of k, or junk
        exprs = [e for t in vocab.order for kk, e in vocab.types[t] if kk == k]
        r2 = rng.random()
        if exprs and r2 < 0.55:
            v = vocab.value(rng.choice(exprs), rng)
        elif r2 < 0.7:
            v = rng.choice(['*', '>', 'a,b', '*,x', 'ma,mb', 'maya', 'movie'])
        elif r2 < 0.85:
            v = rng.choice(OPEN_VALUES)
        else:
            v = rng.choice(ODD_VALUES)
        if rng.random() < 0.25:
            v = '~' + v
        pairs.append(k + '=' + v)
    q = '&'.join(pairs)
    r = rng.random()
    if r < 0.08:
        q = '?' + q
    elif r < 0.14:
        q = q.replace('&', '?', 1)
    elif r < 0.18:
        q = q + '&'
    elif r < 0.22:
        q = q + '#frag'
    elif r < 0.25:
        q = q.replace('=', '', 1)
    return q
