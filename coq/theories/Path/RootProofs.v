(** C05: "the paths of one Sid under two configurations differ only by the configured root".
    Two loaded path configurations related by [same_up_to_root lp1 lp2 r1 r2] (Path/RootDefs.v) give, for
    EVERY Sid (no guard on the Sid), paths [r1 ++ rel] and [r2 ++ rel] with the same [rel], the same
    undefined paths and the same exceptions.  The only standing hypothesis is that the two resolvers are
    the compiled ones ([tp_re] is the compilation of [tp_items], which [load] guarantees). *)
From Coq Require Import List String Ascii Bool Arith Lia.
From Spil Require Import Base.Str Base.Dict Base.Outcome Base.PyPath Base.StrProofs Base.SplitProofs
  Regex.Re Resolva.Template Resolva.Resolver Conf.ConfUtil Conf.Conf Conf.WF
  Regex.MatchProofs Sid.Query Sid.Sid Sid.SidLemmas Path.PathProofs Path.UnambiguousProofs
  Path.RootDefs Path.RootLemmas.
Import ListNotations.
Local Open Scope string_scope.

Notation chars := list_ascii_of_string.

(* the templates of the resolver of a loaded path configuration are compiled *)
Definition compiled (lp : LoadedPath) : Prop :=
  forall t, In t (r_tpls (lp_resolver lp)) -> compile (tp_items t) = Some (tp_re t).

Lemma load_compiled c Ld lp : load c = Some Ld -> In lp (l_paths Ld) -> compiled lp.
Proof. intros Hl Hin t Ht. exact (load_path_compile c Ld Hl lp Hin t Ht). Qed.

(* the body of [dict_to_path] once the path configuration is known *)
Definition dtp_body (pc : LoadedPath) (data : dict string) (ty : string) : outcome string :=
  let pr := lp_resolver pc in
  let defaults := pc_defaults (lp_conf pc) in
  let mapping := pc_mapping (lp_conf pc) in
  let d1 := map (fun kv => match dget defaults (fst kv) with
                           | Some dv => if negb (truthy (snd kv)) && truthy dv then (fst kv, dv) else kv
                           | None => kv end) data in
  do ty' <- (if sempty ty
             then do ff <- format_first pr d1;
                  match ff with Some (t, _) => Ok t | None => Raise SpilException end
             else Ok ty);
  match find_tpl pr ty' with
  | None => Raise SpilException
  | Some tp =>
    match tp_keys tp with
    | [] => Raise SpilException
    | template_keys =>
      let d2 := map (fun kv => match dget mapping (fst kv) with
                               | Some ((_ :: _) as m) => if truthy (snd kv) then (fst kv, get_key m (snd kv)) else kv
                               | _ => kv end) d1 in
      let d3 := fold_left (fun d k => match dget defaults k with
                                      | Some dv => if negb (dmem d k) && truthy dv then dset d k dv else d
                                      | None => d end) template_keys d2 in
      if negb (keys_eq (dkeys d3) template_keys) then Raise SpilException else
      do path <- fmt (tp_items tp) d3;
      do checked <- format_one pr d3 ty';
      match checked with
      | Some p' => if String.eqb p' path then Ok (norm_path path) else Raise SpilException
      | None => Raise SpilException
      end
    end
  end.

Lemma dict_to_path_body Ld data ty cfg :
  dict_to_path Ld data ty cfg =
  match data with
  | [] => Raise SpilException
  | _ => do pc <- get_path_config Ld cfg; dtp_body pc data ty
  end.
Proof. destruct data; reflexivity. Qed.

Section Root.
Variables r1 r2 : string.
Hypothesis Hr1 : root_okb r1 = true.
Hypothesis Hr2 : root_okb r2 = true.

Lemma root_plain r : root_okb r = true -> all_c plain_char r = true.
Proof. intros H. destruct (root_ok_inv r H) as (r' & -> & _ & Hp & _). cbn [all_c]. rewrite Hp. reflexivity. Qed.

Lemma root_app_nonempty r g : root_okb r = true -> sempty (r ++ g) = false.
Proof. intros H. destruct (root_ok_inv r H) as (r' & -> & _). reflexivity. Qed.

(** ** Two templates that differ by the root *)

Record tpl_rel (t1 t2 : tpl) : Prop := mk_tpl_rel {
  tr_name : tp_name t1 = tp_name t2;
  tr_keys : tp_keys t1 = tp_keys t2;
  tr_items : exists l rest, tp_items t1 = Lit (r1 ++ l) :: rest /\ tp_items t2 = Lit (r2 ++ l) :: rest
                            /\ tail_okb l rest = true;
  tr_re : exists R, tp_re t1 = seq_of (map Chr (chars r1) ++ R) /\ tp_re t2 = seq_of (map Chr (chars r2) ++ R)
}.

Lemma compile_root r l rest re : root_okb r = true -> compile (Lit (r ++ l) :: rest) = Some re ->
  exists L R', parse_lit (String.length l) l = Some L /\ compile_items rest [] = Some R'
               /\ re = seq_of (map Chr (chars r) ++ (L ++ R')).
Proof.
  intros Hr. unfold compile. cbn [compile_items]. rewrite (parse_lit_plain r l (root_plain r Hr)).
  destruct (parse_lit (String.length l) l) as [L|]; [|discriminate].
  destruct (compile_items rest []) as [R'|]; [|discriminate].
  intros H. inversion H. exists L, R'. rewrite <- app_assoc. auto.
Qed.

Lemma tpl_rootb_rel t1 t2 : tpl_rootb r1 r2 t1 t2 = true ->
  compile (tp_items t1) = Some (tp_re t1) -> compile (tp_items t2) = Some (tp_re t2) -> tpl_rel t1 t2.
Proof.
  unfold tpl_rootb. intros H C1 C2.
  apply andb_true_iff in H. destruct H as (H & Hk). apply andb_true_iff in H. destruct H as (Hn & Hi).
  apply String.eqb_eq in Hn. apply strs_eqb_eq in Hk.
  unfold items_rootb in Hi.
  destruct (tp_items t1) as [|[s1|] rest1] eqn:E1; try discriminate.
  destruct (tp_items t2) as [|[s2|] rest2] eqn:E2; try discriminate.
  destruct (strip_prefix r1 s1) as [l1|] eqn:S1; [|discriminate].
  destruct (strip_prefix r2 s2) as [l2|] eqn:S2; [|discriminate].
  apply andb_true_iff in Hi. destruct Hi as (Hi & Hrest). apply andb_true_iff in Hi. destruct Hi as (Hl & Ht).
  apply String.eqb_eq in Hl. subst l2. apply items_eqb_eq in Hrest. subst rest2.
  apply strip_prefix_some in S1. apply strip_prefix_some in S2. subst s1 s2.
  destruct (compile_root r1 l1 rest1 _ Hr1 C1) as (L & R' & P1 & Q1 & Ea).
  destruct (compile_root r2 l1 rest1 _ Hr2 C2) as (L' & R'' & P2 & Q2 & Eb).
  rewrite P1 in P2. inversion P2. subst L'. rewrite Q1 in Q2. inversion Q2. subst R''.
  constructor; [exact Hn | exact Hk | exists l1, rest1; auto | exists (L ++ R')%list; auto].
Qed.

Lemma tpls_rootb_rel : forall l1 l2, tpls_rootb r1 r2 l1 l2 = true ->
  (forall t, In t l1 -> compile (tp_items t) = Some (tp_re t)) ->
  (forall t, In t l2 -> compile (tp_items t) = Some (tp_re t)) ->
  Forall2 tpl_rel l1 l2.
Proof.
  induction l1 as [|t1 l1 IH]; intros [|t2 l2] H C1 C2; cbn [tpls_rootb] in H; try discriminate; [constructor|].
  apply andb_true_iff in H. destruct H as (Ht & Hl). constructor.
  - apply tpl_rootb_rel; [exact Ht | apply C1; left; reflexivity | apply C2; left; reflexivity].
  - apply IH; [exact Hl | intros t Hin; apply C1; right; exact Hin | intros t Hin; apply C2; right; exact Hin].
Qed.

(* formatting: the same text after the root, or the same KeyError *)
Lemma fmt_rel t1 t2 d : tpl_rel t1 t2 ->
  (exists g, gshape g /\ fmt (tp_items t1) d = Ok (r1 ++ g) /\ fmt (tp_items t2) d = Ok (r2 ++ g))
  \/ (exists e, fmt (tp_items t1) d = Raise e /\ fmt (tp_items t2) d = Raise e).
Proof.
  intros Hrel. destruct (tr_items _ _ Hrel) as (l & rest & E1 & E2 & Ht). rewrite E1, E2. cbn [fmt].
  destruct (fmt rest d) as [q|e] eqn:Ef; cbn [bind]; [left | right; exists e; auto].
  exists (l ++ q). rewrite !app_assoc_s. split; [|auto].
  destruct l as [|a l']; cbn [tail_okb] in Ht.
  - destruct rest; [|discriminate]. cbn [fmt] in Ef. inversion Ef. left. reflexivity.
  - apply Ascii.eqb_eq in Ht. subst a. right. exists (l' ++ q). reflexivity.
Qed.

(* the reverse match does not see the root *)
Lemma search_rel t1 t2 g : tpl_rel t1 t2 ->
  search_anchored (tp_re t1) (r1 ++ g) = search_anchored (tp_re t2) (r2 ++ g).
Proof.
  intros Hrel. destruct (tr_re _ _ Hrel) as (R & E1 & E2). rewrite E1, E2, !search_strip_chars. reflexivity.
Qed.

Lemma find_rel name : forall l1 l2, Forall2 tpl_rel l1 l2 ->
  (find (fun t => String.eqb (tp_name t) name) l1 = None /\ find (fun t => String.eqb (tp_name t) name) l2 = None)
  \/ (exists t1 t2, find (fun t => String.eqb (tp_name t) name) l1 = Some t1
                    /\ find (fun t => String.eqb (tp_name t) name) l2 = Some t2 /\ tpl_rel t1 t2).
Proof.
  induction 1 as [|t1 t2 l1 l2 Ht _ IH]; [left; split; reflexivity|].
  cbn [find]. rewrite <- (tr_name _ _ Ht).
  destruct (String.eqb (tp_name t1) name); [right; exists t1, t2; auto | exact IH].
Qed.

(** ** Two resolvers whose templates differ by the root *)

Section Resolvers.
Variables pr1 pr2 : resolver.
Hypothesis Htpls : Forall2 tpl_rel (r_tpls pr1) (r_tpls pr2).
Hypothesis Hdup : r_check_dup pr1 = r_check_dup pr2.

Lemma resolve_tpl_rel t1 t2 g : tpl_rel t1 t2 -> resolve_tpl pr1 t1 (r1 ++ g) = resolve_tpl pr2 t2 (r2 ++ g).
Proof. intros Hrel. unfold resolve_tpl. rewrite (search_rel t1 t2 g Hrel), Hdup. reflexivity. Qed.

Lemma resolve_one_rel g name : resolve_one pr1 (r1 ++ g) name = resolve_one pr2 (r2 ++ g) name.
Proof.
  unfold resolve_one, find_tpl. rewrite !root_app_nonempty by assumption.
  destruct (find_rel name _ _ Htpls) as [(F1 & F2) | (t1 & t2 & F1 & F2 & Hrel)]; rewrite F1, F2; [reflexivity|].
  rewrite (resolve_tpl_rel t1 t2 g Hrel). reflexivity.
Qed.

Inductive fo_rel : outcome (option string) -> outcome (option string) -> Prop :=
| fo_some g : gshape g -> fo_rel (Ok (Some (r1 ++ g))) (Ok (Some (r2 ++ g)))
| fo_none : fo_rel (Ok None) (Ok None)
| fo_raise e : fo_rel (Raise e) (Raise e).

Lemma format_tpl_rel t1 t2 d : tpl_rel t1 t2 -> fo_rel (format_tpl pr1 t1 d) (format_tpl pr2 t2 d).
Proof.
  intros Hrel. unfold format_tpl. rewrite <- (tr_keys _ _ Hrel).
  destruct (negb (keys_eq (dkeys d) (tp_keys t1))); [constructor|].
  destruct (fmt_rel t1 t2 d Hrel) as [(g & Hg & F1 & F2) | (e & F1 & F2)]; rewrite F1, F2; cbn [bind];
    [|constructor].
  rewrite (tr_name _ _ Hrel), (resolve_one_rel g (tp_name t2)).
  destruct (resolve_one pr2 (r2 ++ g) (tp_name t2)) as [[|kv back]|e]; cbn [bind]; constructor; exact Hg.
Qed.

Lemma format_one_rel d ty : fo_rel (format_one pr1 d ty) (format_one pr2 d ty).
Proof.
  unfold format_one, find_tpl. destruct d as [|kv d]; [constructor|].
  destruct (find_rel ty _ _ Htpls) as [(F1 & F2) | (t1 & t2 & F1 & F2 & Hrel)]; rewrite F1, F2; [constructor|].
  apply format_tpl_rel. exact Hrel.
Qed.

(* the type [dict_to_path] picks for an untyped call *)
Definition ff_name (o : outcome (option (string * string))) : outcome string :=
  do ff <- o; match ff with Some (t, _) => Ok t | None => Raise SpilException end.

Lemma format_first_in_rel d : forall l1 l2, Forall2 tpl_rel l1 l2 ->
  ff_name (format_first_in pr1 l1 d) = ff_name (format_first_in pr2 l2 d).
Proof.
  induction 1 as [|t1 t2 l1 l2 Ht _ IH]; [reflexivity|]. cbn [format_first_in].
  pose proof (format_tpl_rel t1 t2 d Ht) as Hf.
  inversion Hf as [g Hg E1 E2 | E1 E2 | e E1 E2]; cbn [bind]; [|exact IH | reflexivity].
  unfold ff_name. cbn [bind]. rewrite (tr_name _ _ Ht). reflexivity.
Qed.

Lemma format_first_rel d : ff_name (format_first pr1 d) = ff_name (format_first pr2 d).
Proof. unfold format_first. destruct d; [reflexivity|]. apply format_first_in_rel. exact Htpls. Qed.

End Resolvers.

(** ** [dict_to_path] under two related path configurations *)

Inductive path_rel : outcome string -> outcome string -> Prop :=
| pr_ok g : gshape g -> path_rel (Ok (r1 ++ rel_of g)) (Ok (r2 ++ rel_of g))
| pr_raise e : path_rel (Raise e) (Raise e).

Section Configs.
Variables lp1 lp2 : LoadedPath.
Hypothesis Htpls : Forall2 tpl_rel (r_tpls (lp_resolver lp1)) (r_tpls (lp_resolver lp2)).
Hypothesis Hdup : r_check_dup (lp_resolver lp1) = r_check_dup (lp_resolver lp2).
Hypothesis Hmap : pc_mapping (lp_conf lp1) = pc_mapping (lp_conf lp2).
Hypothesis Hdef : pc_defaults (lp_conf lp1) = pc_defaults (lp_conf lp2).

Lemma dtp_body_rel data ty : path_rel (dtp_body lp1 data ty) (dtp_body lp2 data ty).
Proof.
  unfold dtp_body. rewrite <- Hmap, <- Hdef. cbv zeta.
  match goal with |- path_rel (bind ?a _) (bind ?b _) => assert (E : a = b) end.
  { destruct (sempty ty); [|reflexivity].
    apply (format_first_rel (lp_resolver lp1) (lp_resolver lp2) Htpls Hdup). }
  rewrite E. clear E.
  match goal with |- path_rel (bind ?a _) _ => destruct a as [ty'|e] end; cbn [bind]; [|constructor].
  unfold find_tpl.
  destruct (find_rel ty' _ _ Htpls) as [(F1 & F2) | (t1 & t2 & F1 & F2 & Hrel)]; rewrite F1, F2; [constructor|].
  rewrite <- (tr_keys _ _ Hrel). destruct (tp_keys t1) as [|k ks]; [constructor|].
  match goal with |- path_rel (if negb (keys_eq ?a ?b) then _ else _) _ => destruct (negb (keys_eq a b)) end;
    [constructor|].
  match goal with |- path_rel (bind (fmt _ ?d3) _) _ => generalize d3; intro D3 end.
  destruct (fmt_rel t1 t2 D3 Hrel) as [(g & Hg & G1 & G2) | (e & G1 & G2)];
    pose proof (format_one_rel (lp_resolver lp1) (lp_resolver lp2) Htpls Hdup D3 ty') as Hfo;
    rewrite G1, G2; cbn [bind]; [|constructor].
  revert Hfo. generalize (format_one (lp_resolver lp1) D3 ty') (format_one (lp_resolver lp2) D3 ty').
  intros o1 o2 Hfo. destruct Hfo as [g' Hg' | | e]; cbn [bind]; try constructor.
  rewrite !eqb_app_l. destruct (String.eqb g' g); [|constructor].
  rewrite (norm_root r1 g Hr1 Hg), (norm_root r2 g Hr2 Hg). constructor. exact Hg.
Qed.

End Configs.
End Root.

(** * The theorems *)

Lemma rel_of_shape g : gshape (rel_of g).
Proof.
  destruct g as [|a g']; [left; reflexivity|]. cbn [rel_of].
  destruct (filter keep_partb (split_c "/" g')) as [|q Q]; [left; reflexivity|].
  right. exists (join "/" (q :: Q)). reflexivity.
Qed.

Lemma same_up_to_root_inv lp1 lp2 r1 r2 : same_up_to_root lp1 lp2 r1 r2 = true -> compiled lp1 -> compiled lp2 ->
  root_okb r1 = true /\ root_okb r2 = true
  /\ Forall2 (tpl_rel r1 r2) (r_tpls (lp_resolver lp1)) (r_tpls (lp_resolver lp2))
  /\ r_check_dup (lp_resolver lp1) = r_check_dup (lp_resolver lp2)
  /\ pc_mapping (lp_conf lp1) = pc_mapping (lp_conf lp2)
  /\ pc_defaults (lp_conf lp1) = pc_defaults (lp_conf lp2).
Proof.
  unfold same_up_to_root. intros H C1 C2.
  apply andb_true_iff in H. destruct H as (H & Hd). apply andb_true_iff in H. destruct H as (H & Hm).
  apply andb_true_iff in H. destruct H as (H & Hc). apply andb_true_iff in H. destruct H as (H & Ht).
  apply andb_true_iff in H. destruct H as (Hr1 & Hr2).
  split; [exact Hr1|]. split; [exact Hr2|].
  split; [apply (tpls_rootb_rel r1 r2 Hr1 Hr2 _ _ Ht C1 C2)|].
  split; [apply Bool.eqb_prop; exact Hc|].
  split; [apply mapping_eqb_eq; exact Hm | apply assoc_eqb_eq; exact Hd].
Qed.

(* the two outcomes of [sid_path] *)
Inductive opath_rel (r1 r2 : string) : outcome (option string) -> outcome (option string) -> Prop :=
| or_some rel : gshape rel -> opath_rel r1 r2 (Ok (Some (r1 ++ rel))) (Ok (Some (r2 ++ rel)))
| or_none : opath_rel r1 r2 (Ok None) (Ok None)
| or_raise e : opath_rel r1 r2 (Raise e) (Raise e).

Lemma opath_rel_spec r1 r2 o1 o2 : opath_rel r1 r2 o1 o2 ->
  (forall p1, o1 = Ok (Some p1) -> exists rel, p1 = r1 ++ rel /\ o2 = Ok (Some (r2 ++ rel))) /\
  (forall p2, o2 = Ok (Some p2) -> exists rel, p2 = r2 ++ rel /\ o1 = Ok (Some (r1 ++ rel))) /\
  (o1 = Ok None <-> o2 = Ok None) /\
  (forall e, o1 = Raise e <-> o2 = Raise e).
Proof.
  intros H. destruct H as [rel Hs | | e].
  - split; [intros p E; inversion E; exists rel; auto|].
    split; [intros p E; inversion E; exists rel; auto|].
    split; [split; discriminate | intros e; split; discriminate].
  - split; [intros p E; discriminate|]. split; [intros p E; discriminate|].
    split; [split; reflexivity | intros e; split; discriminate].
  - split; [intros p E; discriminate|]. split; [intros p E; discriminate|].
    split; [split; discriminate | intros e0; split; intros E; inversion E; reflexivity].
Qed.

Section Main.
Variables (Ld : Loaded) (cfg1 cfg2 : string) (lp1 lp2 : LoadedPath) (r1 r2 : string).
Hypothesis Hpc1 : get_path_config Ld cfg1 = Ok lp1.
Hypothesis Hpc2 : get_path_config Ld cfg2 = Ok lp2.
Hypothesis Hc1 : compiled lp1.
Hypothesis Hc2 : compiled lp2.
Hypothesis Hsame : same_up_to_root lp1 lp2 r1 r2 = true.

(* [dict_to_path] (before SpilException is turned into None): same text after the root, or the same exception *)
Theorem dict_to_path_root data ty :
  (exists rel, (rel = "" \/ exists rel', rel = String "/" rel')
               /\ dict_to_path Ld data ty cfg1 = Ok (r1 ++ rel) /\ dict_to_path Ld data ty cfg2 = Ok (r2 ++ rel))
  \/ (exists e, dict_to_path Ld data ty cfg1 = Raise e /\ dict_to_path Ld data ty cfg2 = Raise e).
Proof.
  destruct (same_up_to_root_inv lp1 lp2 r1 r2 Hsame Hc1 Hc2) as (Hr1 & Hr2 & Ht & Hd & Hm & Hf).
  rewrite !dict_to_path_body, Hpc1, Hpc2. destruct data as [|kv d]; [right; exists SpilException; auto|].
  cbn [bind].
  pose proof (dtp_body_rel r1 r2 Hr1 Hr2 lp1 lp2 Ht Hd Hm Hf (kv :: d) ty) as H. revert H.
  generalize (dtp_body lp1 (kv :: d) ty) (dtp_body lp2 (kv :: d) ty). intros o1 o2 H.
  destruct H as [g Hg | e]; [left; exists (rel_of g); split; [apply rel_of_shape | auto] | right; exists e; auto].
Qed.

Lemma sid_path_rel x : opath_rel r1 r2 (sid_path Ld x cfg1) (sid_path Ld x cfg2).
Proof.
  unfold sid_path. destruct (s_fields x) as [|kv d]; [constructor|].
  destruct (dict_to_path_root (kv :: d) (s_type x)) as [(rel & Hs & E1 & E2) | (e & E1 & E2)]; rewrite E1, E2.
  - constructor. exact Hs.
  - destruct e; constructor.
Qed.

Theorem sid_path_root_compiled x :
  (forall p1, sid_path Ld x cfg1 = Ok (Some p1) ->
     exists rel, p1 = r1 ++ rel /\ sid_path Ld x cfg2 = Ok (Some (r2 ++ rel))) /\
  (forall p2, sid_path Ld x cfg2 = Ok (Some p2) ->
     exists rel, p2 = r2 ++ rel /\ sid_path Ld x cfg1 = Ok (Some (r1 ++ rel))) /\
  (sid_path Ld x cfg1 = Ok None <-> sid_path Ld x cfg2 = Ok None) /\
  (forall e, sid_path Ld x cfg1 = Raise e <-> sid_path Ld x cfg2 = Raise e).
Proof. apply opath_rel_spec. apply sid_path_rel. Qed.

(* the root is a whole number of path components: what follows it is empty or starts with "/" *)
Theorem sid_path_root_boundary x p1 : sid_path Ld x cfg1 = Ok (Some p1) ->
  exists rel, p1 = r1 ++ rel /\ (rel = "" \/ exists rel', rel = String "/" rel')
              /\ sid_path Ld x cfg2 = Ok (Some (r2 ++ rel)).
Proof.
  intros E. pose proof (sid_path_rel x) as H. rewrite E in H. inversion H as [rel Hs E1 E2 | |].
  exists rel. auto.
Qed.

End Main.

(** ** With the loaded configuration of [load] *)

Theorem paths_differ_only_by_root (c : Conf) (Ld : Loaded) (cfg1 cfg2 : string) (lp1 lp2 : LoadedPath)
    (r1 r2 : string) (x : sid) :
  load c = Some Ld ->
  get_path_config Ld cfg1 = Ok lp1 -> get_path_config Ld cfg2 = Ok lp2 ->
  same_up_to_root lp1 lp2 r1 r2 = true ->
  (forall p1, sid_path Ld x cfg1 = Ok (Some p1) ->
     exists rel, p1 = r1 ++ rel /\ sid_path Ld x cfg2 = Ok (Some (r2 ++ rel))) /\
  (forall p2, sid_path Ld x cfg2 = Ok (Some p2) ->
     exists rel, p2 = r2 ++ rel /\ sid_path Ld x cfg1 = Ok (Some (r1 ++ rel))) /\
  (sid_path Ld x cfg1 = Ok None <-> sid_path Ld x cfg2 = Ok None) /\
  (forall e, sid_path Ld x cfg1 = Raise e <-> sid_path Ld x cfg2 = Raise e).
Proof.
  intros Hl H1 H2 Hs.
  apply (sid_path_root_compiled Ld cfg1 cfg2 lp1 lp2 r1 r2 H1 H2); [| |exact Hs].
  - apply (load_compiled c Ld lp1 Hl). apply (get_path_config_In Ld cfg1 lp1 H1).
  - apply (load_compiled c Ld lp2 Hl). apply (get_path_config_In Ld cfg2 lp2 H2).
Qed.

Theorem paths_root_boundary (c : Conf) (Ld : Loaded) (cfg1 cfg2 : string) (lp1 lp2 : LoadedPath)
    (r1 r2 : string) (x : sid) (p1 : string) :
  load c = Some Ld ->
  get_path_config Ld cfg1 = Ok lp1 -> get_path_config Ld cfg2 = Ok lp2 ->
  same_up_to_root lp1 lp2 r1 r2 = true ->
  sid_path Ld x cfg1 = Ok (Some p1) ->
  exists rel, p1 = r1 ++ rel /\ (rel = "" \/ exists rel', rel = String "/" rel')
              /\ sid_path Ld x cfg2 = Ok (Some (r2 ++ rel)).
Proof.
  intros Hl H1 H2 Hs.
  apply (sid_path_root_boundary Ld cfg1 cfg2 lp1 lp2 r1 r2 H1 H2); [| |exact Hs].
  - apply (load_compiled c Ld lp1 Hl). apply (get_path_config_In Ld cfg1 lp1 H1).
  - apply (load_compiled c Ld lp2 Hl). apply (get_path_config_In Ld cfg2 lp2 H2).
Qed.

Theorem dict_to_path_differs_only_by_root (c : Conf) (Ld : Loaded) (cfg1 cfg2 : string) (lp1 lp2 : LoadedPath)
    (r1 r2 : string) (data : dict string) (ty : string) :
  load c = Some Ld ->
  get_path_config Ld cfg1 = Ok lp1 -> get_path_config Ld cfg2 = Ok lp2 ->
  same_up_to_root lp1 lp2 r1 r2 = true ->
  (exists rel, (rel = "" \/ exists rel', rel = String "/" rel')
               /\ dict_to_path Ld data ty cfg1 = Ok (r1 ++ rel) /\ dict_to_path Ld data ty cfg2 = Ok (r2 ++ rel))
  \/ (exists e, dict_to_path Ld data ty cfg1 = Raise e /\ dict_to_path Ld data ty cfg2 = Raise e).
Proof.
  intros Hl H1 H2 Hs.
  apply (dict_to_path_root Ld cfg1 cfg2 lp1 lp2 r1 r2 H1 H2); [| |exact Hs].
  - apply (load_compiled c Ld lp1 Hl). apply (get_path_config_In Ld cfg1 lp1 H1).
  - apply (load_compiled c Ld lp2 Hl). apply (get_path_config_In Ld cfg2 lp2 H2).
Qed.

Print Assumptions paths_differ_only_by_root.
Print Assumptions paths_root_boundary.
Print Assumptions dict_to_path_differs_only_by_root.
