(** Model of resolva/resolver.py: the Resolver class (third-party). *)
From Coq Require Import List String Ascii Bool Arith.
From Spil Require Import Base.Str Base.Dict Base.Outcome Regex.Re Resolva.Template.
Import ListNotations.
Local Open Scope string_scope.

Record tpl := mkTpl {
  tp_name : string;
  tp_items : list item;
  tp_re : re;
  tp_keys : list string
}.

Record resolver := mkResolver {
  r_tpls : list tpl;
  r_check_dup : bool
}.

Definition mk_tpl (name src : string) : option tpl :=
  match parse_template src with
  | None => None
  | Some items =>
      match compile items with
      | None => None
      | Some r => Some (mkTpl name items r (tkeys items))
      end
  end.

Fixpoint mk_tpls (l : list (string * string)) : option (list tpl) :=
  match l with
  | [] => Some []
  | (n, s) :: t =>
      match mk_tpl n s, mk_tpls t with
      | Some x, Some r => Some (x :: r)
      | _, _ => None
      end
  end.

Definition mk_resolver (l : list (string * string)) (check : bool) : option resolver :=
  match mk_tpls l with Some t => Some (mkResolver t check) | None => None end.

(* template.match_to_dict *)
Fixpoint match_to_dict_aux (check : bool) (c : caps) (data : dict string) : outcome (dict string) :=
  match c with
  | [] => Ok data
  | (g, v) :: rest =>
      let key := drop_last 3 g in
      match dget data key with
      | Some old =>
          if check && negb (String.eqb old v) then Raise ResolvaException
          else match_to_dict_aux check rest (dset data key v)
      | None => match_to_dict_aux check rest (dset data key v)
      end
  end.
Definition match_to_dict (check : bool) (c : caps) : outcome (dict string) :=
  match_to_dict_aux check c [].

Definition find_tpl (r : resolver) (label : string) : option tpl :=
  find (fun t => String.eqb (tp_name t) label) (r_tpls r).

(* one template against a string: None = no match or empty data *)
Definition resolve_tpl (r : resolver) (t : tpl) (s : string) : outcome (option (dict string)) :=
  match search_anchored (tp_re t) s with
  | None => Ok None
  | Some c => do d <- match_to_dict (r_check_dup r) c;
              match d with [] => Ok None | _ => Ok (Some d) end
  end.

Fixpoint resolve_first_in (r : resolver) (l : list tpl) (s : string) : outcome (option (string * dict string)) :=
  match l with
  | [] => Ok None
  | t :: rest =>
      do x <- resolve_tpl r t s;
      match x with
      | Some d => Ok (Some (tp_name t, d))
      | None => resolve_first_in r rest s
      end
  end.

Definition resolve_first (r : resolver) (s : string) : outcome (option (string * dict string)) :=
  if sempty s then Ok None else resolve_first_in r (r_tpls r) s.

(* returns {} (here []) when nothing matches *)
Definition resolve_one (r : resolver) (s label : string) : outcome (dict string) :=
  if sempty s then Ok [] else
  match find_tpl r label with
  | None => Ok []
  | Some t => do x <- resolve_tpl r t s; Ok (match x with Some d => d | None => [] end)
  end.

Fixpoint resolve_all_in (r : resolver) (l : list tpl) (s : string) : outcome (list (string * dict string)) :=
  match l with
  | [] => Ok []
  | t :: rest =>
      do x <- resolve_tpl r t s;
      do ys <- resolve_all_in r rest s;
      match x with
      | Some d => Ok ((tp_name t, d) :: ys)
      | None => Ok ys
      end
  end.
Definition resolve_all (r : resolver) (s : string) : outcome (list (string * dict string)) :=
  if sempty s then Ok [] else resolve_all_in r (r_tpls r) s.

(* format + reverse check for one template; None = keys differ or reverse check failed *)
Definition format_tpl (r : resolver) (t : tpl) (d : dict string) : outcome (option string) :=
  if negb (keys_eq (dkeys d) (tp_keys t)) then Ok None else
  do f <- fmt (tp_items t) d;
  do back <- resolve_one r f (tp_name t);
  match back with [] => Ok None | _ => Ok (Some f) end.

Fixpoint format_all_in (r : resolver) (l : list tpl) (d : dict string) : outcome (list (string * string)) :=
  match l with
  | [] => Ok []
  | t :: rest =>
      do x <- format_tpl r t d;
      do ys <- format_all_in r rest d;
      match x with Some f => Ok ((tp_name t, f) :: ys) | None => Ok ys end
  end.
Definition format_all (r : resolver) (d : dict string) : outcome (list (string * string)) :=
  match d with [] => Ok [] | _ => format_all_in r (r_tpls r) d end.

Fixpoint format_first_in (r : resolver) (l : list tpl) (d : dict string) : outcome (option (string * string)) :=
  match l with
  | [] => Ok None
  | t :: rest =>
      do x <- format_tpl r t d;
      match x with Some f => Ok (Some (tp_name t, f)) | None => format_first_in r rest d end
  end.
Definition format_first (r : resolver) (d : dict string) : outcome (option (string * string)) :=
  match d with [] => Ok None | _ => format_first_in r (r_tpls r) d end.

Definition format_one (r : resolver) (d : dict string) (label : string) : outcome (option string) :=
  match d with
  | [] => Ok None
  | _ => match find_tpl r label with
         | None => Ok None
         | Some t => format_tpl r t d
         end
  end.
