(** B5, first half: [to_dict (to_string d) = Ok d] for query-safe dicts (Sid/Query.v only). *)
From Coq Require Import List String Ascii Bool Arith Lia.
From Spil Require Import Base.Str Base.Dict Base.Outcome Base.StrProofs Base.SplitProofs
  Sid.Query Sid.SidLemmas.
Import ListNotations.
Local Open Scope string_scope.

Definition q_safe_char (a : ascii) : bool :=
  negb (is_space a) &&
  negb (existsb (Ascii.eqb a) ["&"; "="; "?"; "#"; "%"; "+"; "~"; ";"]%char).

Definition q_safe_str (s : string) : bool := negb (sempty s) && all_c q_safe_char s.

(* every key and value is non-empty and made of characters other than whitespace & = ? # % + ~ ; *)
Definition query_safe (d : dict string) : Prop :=
  Forall (fun kv => q_safe_str (fst kv) = true /\ q_safe_str (snd kv) = true) d.

Lemma all_c_mem f s a : all_c f s = true -> f a = false -> mem_c a s = false.
Proof.
  induction s as [|b s IH]; simpl; intros H Ha; [reflexivity|].
  apply andb_true_iff in H. destruct H as (Hb & Hs). rewrite (IH Hs Ha), orb_false_r.
  destruct (Ascii.eqb b a) eqn:E; [|reflexivity]. apply Ascii.eqb_eq in E. subst. congruence.
Qed.

Lemma q_safe_mem s a : q_safe_str s = true -> q_safe_char a = false -> mem_c a s = false.
Proof.
  unfold q_safe_str. intros H Ha. apply andb_true_iff in H. destruct H as (_ & H).
  apply (all_c_mem _ _ _ H Ha).
Qed.

Lemma q_safe_ne s : q_safe_str s = true -> s <> "".
Proof. unfold q_safe_str. destruct s; simpl; [discriminate | discriminate]. Qed.

(** ** replace, remove_chars, unquote, strip_one_amp on strings without the special character *)

Lemma replace_id a new s : mem_c a s = false -> replace (str1 a) new s = s.
Proof.
  unfold replace, str1. cbn [sempty]. induction s as [|b s IH]; intros H; [reflexivity|].
  cbn [mem_c] in H. apply orb_false_iff in H. destruct H as (Hb & Hs).
  cbn [replace_aux startswith]. rewrite Ascii.eqb_sym, Hb. cbn [andb]. rewrite (IH Hs). reflexivity.
Qed.

Lemma remove_chars_id s :
  mem_c "009" s = false -> mem_c "010" s = false -> mem_c "013" s = false ->
  remove_chars unsafe_url_char s = s.
Proof.
  induction s as [|b s IH]; intros H1 H2 H3; [reflexivity|].
  cbn [mem_c] in *. apply orb_false_iff in H1, H2, H3.
  destruct H1 as (A1 & B1), H2 as (A2 & B2), H3 as (A3 & B3).
  assert (Hu : unsafe_url_char b = false) by (unfold unsafe_url_char; rewrite A1, A2, A3; reflexivity).
  cbn [remove_chars]. rewrite Hu, (IH B1 B2 B3). reflexivity.
Qed.

Lemma unquote_other a s : Ascii.eqb a "%" = false ->
  unquote (String a s) = do r <- unquote s; Ok (String a r).
Proof.
  destruct a as [[] [] [] [] [] [] [] []]; intros H; try discriminate H; reflexivity.
Qed.

Lemma unquote_id s : mem_c "%" s = false -> unquote s = Ok s.
Proof.
  induction s as [|a s IH]; intros H; [reflexivity|].
  cbn [mem_c] in H. apply orb_false_iff in H. destruct H as (Ha & Hs).
  rewrite (unquote_other a s Ha), (IH Hs). reflexivity.
Qed.

Lemma rev_s_aux_snoc s b acc : rev_s_aux (s ++ str1 b) acc = String b (rev_s_aux s acc).
Proof.
  revert acc. induction s as [|x s IH]; intros acc; [reflexivity|].
  cbn [append rev_s_aux]. apply IH.
Qed.

Lemma endswith_snoc a s b : endswith (str1 a) (s ++ str1 b) = Ascii.eqb a b.
Proof.
  unfold endswith, rev_s. rewrite rev_s_aux_snoc. cbn [str1 rev_s_aux startswith].
  apply andb_true_r.
Qed.

Lemma string_snoc s : s <> "" -> exists s' b, s = s' ++ str1 b.
Proof.
  induction s as [|a s IH]; intros H; [congruence|].
  destruct s as [|a2 s2].
  - exists "", a. reflexivity.
  - destruct IH as (s' & b & E); [discriminate|]. exists (String a s'), b. rewrite E. reflexivity.
Qed.

Lemma amp_head s : (forall rest, s <> String "&" rest) ->
  match s with String "&" rest => rest | _ => s end = s.
Proof.
  intros H. destruct s as [|a s]; [reflexivity|].
  destruct a as [[] [] [] [] [] [] [] []]; try reflexivity.
  exfalso. apply (H s). reflexivity.
Qed.

Lemma strip_one_amp_id s :
  (forall rest, s <> String "&" rest) -> endswith "&" s = false -> strip_one_amp s = s.
Proof.
  intros H1 H2. unfold strip_one_amp. rewrite (amp_head s H1), H2. reflexivity.
Qed.

(** ** the encoded string *)

Definition enc (kv : string * string) : string := fst kv ++ "=" ++ snd kv.

Lemma mem_c_enc a kv : Ascii.eqb "=" a = false ->
  mem_c a (fst kv) = false -> mem_c a (snd kv) = false -> mem_c a (enc kv) = false.
Proof.
  intros H0 H1 H2. unfold enc. rewrite mem_c_app, H1. cbn [append mem_c orb]. rewrite H0, H2. reflexivity.
Qed.

Lemma to_string_enc d : query_safe d -> to_string d = join "&" (map enc d).
Proof.
  intros H. unfold to_string. f_equal. apply map_ext_in. intros [k v] Hin.
  unfold query_safe in H. rewrite Forall_forall in H. destruct (H _ Hin) as (Hk & Hv).
  cbn [fst snd] in *. unfold q_encode, enc. cbn [fst snd].
  change " " with (str1 " ").
  rewrite (replace_id " " "" k), (replace_id " " "" v); [reflexivity | |];
    apply q_safe_mem; auto.
Qed.

Lemma mem_c_query a d : query_safe d -> q_safe_char a = false ->
  Ascii.eqb "=" a = false -> Ascii.eqb "&" a = false ->
  mem_c a (join "&" (map enc d)) = false.
Proof.
  intros H Ha H1 H2. apply mem_c_join.
  - cbn [mem_c]. rewrite H2. reflexivity.
  - apply Forall_forall. intros x Hx. apply in_map_iff in Hx. destruct Hx as (kv & <- & Hin).
    unfold query_safe in H. rewrite Forall_forall in H. destruct (H _ Hin) as (Hk & Hv).
    apply mem_c_enc; [exact H1 | |]; apply q_safe_mem; auto.
Qed.

Lemma join_last sep (l : list string) : l <> [] -> exists p, join sep l = p ++ last l "".
Proof.
  induction l as [|x l IH]; intros H; [congruence|].
  destruct l as [|y l].
  - exists "". reflexivity.
  - destruct IH as (p & E); [discriminate|]. exists (x ++ sep ++ p).
    rewrite join_cons2, E. change (last (x :: y :: l) "") with (last (y :: l) "").
    rewrite !app_assoc_s. reflexivity.
Qed.

Lemma parse_items_enc d : query_safe d -> parse_qsl_items (map enc d) = Ok d.
Proof.
  induction d as [|[k v] d IH]; intros H; [reflexivity|].
  inversion H as [|? ? (Hk & Hv) Hd]; subst. cbn [fst snd] in *.
  cbn [map parse_qsl_items]. rewrite (IH Hd). cbn [bind].
  unfold enc. cbn [fst snd].
  change (k ++ "=" ++ v) with (k ++ String "=" v). rewrite sempty_app_r.
  rewrite (split1_c_app "=" k v) by (apply q_safe_mem; auto).
  assert (Ev : sempty v = false) by (apply sempty_false; apply q_safe_ne; exact Hv).
  rewrite Ev. unfold plus_to_space. change "+" with (str1 "+").
  rewrite (replace_id "+" " " k), (replace_id "+" " " v) by (apply q_safe_mem; auto).
  rewrite (unquote_id k), (unquote_id v) by (apply q_safe_mem; auto).
  reflexivity.
Qed.

Lemma fold_dset_app : forall (l acc : dict string),
  NoDup (map fst acc ++ map fst l) ->
  fold_left (fun a kv => dset a (fst kv) (snd kv)) l acc = (acc ++ l)%list.
Proof.
  induction l as [|[k v] l IH]; intros acc H; simpl.
  - rewrite app_nil_r. reflexivity.
  - cbn [map fst] in H.
    assert (Hk : ~ In k (map fst acc)).
    { apply NoDup_remove_2 in H. intros Hin. apply H. apply in_or_app. left. exact Hin. }
    rewrite (dset_new acc k v Hk). rewrite IH.
    + rewrite <- app_assoc. reflexivity.
    + rewrite map_app. cbn [map fst]. rewrite <- app_assoc. exact H.
Qed.

Lemma dict_of_pairs_id (d : dict string) : NoDup (map fst d) -> dict_of_pairs d = d.
Proof. intros H. unfold dict_of_pairs, dupdate. apply (fold_dset_app d []). exact H. Qed.

Lemma qs_first d : query_safe d -> d <> [] ->
  exists a rest, join "&" (map enc d) = String a rest /\ Ascii.eqb a "&" = false.
Proof.
  intros Hs Hne. destruct d as [|[k v] d]; [congruence|].
  inversion Hs as [|? ? (Hk & _) _]; subst. cbn [fst] in Hk.
  pose proof (q_safe_mem _ "&" Hk eq_refl) as Hm. pose proof (q_safe_ne _ Hk) as Hn.
  destruct k as [|a k']; [congruence|].
  cbn [mem_c] in Hm. apply orb_false_iff in Hm. destruct Hm as (Ha & _).
  cbn [map]. unfold enc at 1. cbn [fst snd].
  destruct (map enc d); cbn [join append]; eexists _, _; (split; [reflexivity | exact Ha]).
Qed.

(** B5 (first half).  [NoDup] of the keys is needed: [to_dict] builds a python dict. *)
Theorem to_dict_to_string d : query_safe d -> NoDup (map fst d) -> to_dict (to_string d) = Ok d.
Proof.
  intros Hs Hnd. destruct d as [|kv0 d0] eqn:Ed; [reflexivity|]. rewrite <- Ed in *.
  assert (Hne : d <> []) by (rewrite Ed; discriminate).
  rewrite (to_string_enc d Hs). set (qs := join "&" (map enc d)).
  assert (Hq : mem_c "?" qs = false) by (apply mem_c_query; auto).
  assert (H9 : mem_c "009" qs = false) by (apply mem_c_query; auto).
  assert (H10 : mem_c "010" qs = false) by (apply mem_c_query; auto).
  assert (H13 : mem_c "013" qs = false) by (apply mem_c_query; auto).
  assert (Hh : mem_c "#" qs = false) by (apply mem_c_query; auto).
  assert (Hmne : map enc d <> []) by (intros E; apply map_eq_nil in E; congruence).
  (* first and last characters *)
  destruct (qs_first d Hs Hne) as (a0 & rest0 & Eq0 & Ea0). fold qs in Eq0.
  assert (Hfirst : forall rest, qs <> String "&" rest).
  { intros rest E. rewrite Eq0 in E. inversion E; subst a0. discriminate Ea0. }
  assert (Hlast : endswith "&" qs = false).
  { destruct (join_last "&" (map enc d) Hmne) as (p & E). fold qs in E.
    assert (exists kv, In kv d /\ last (map enc d) "" = enc kv) as (kv & Hin & El).
    { clear -Hne. induction d as [|x d IH]; [congruence|]. destruct d as [|y d].
      - exists x. split; [left; reflexivity | reflexivity].
      - destruct IH as (kv & Hin & El); [discriminate|]. exists kv. split; [right; exact Hin|].
        exact El. }
    unfold query_safe in Hs. rewrite Forall_forall in Hs. destruct (Hs kv Hin) as (_ & Hv).
    destruct (string_snoc (snd kv) (q_safe_ne _ Hv)) as (v' & b & Ev).
    assert (Hb : Ascii.eqb "&" b = false).
    { pose proof (q_safe_mem _ "&" Hv eq_refl) as Hm. rewrite Ev, mem_c_app in Hm.
      apply orb_false_iff in Hm. destruct Hm as (_ & Hm). cbn [str1 mem_c] in Hm.
      rewrite orb_false_r in Hm. rewrite Ascii.eqb_sym. exact Hm. }
    rewrite E, El. unfold enc. rewrite Ev.
    replace (p ++ fst kv ++ "=" ++ v' ++ str1 b) with ((p ++ fst kv ++ "=" ++ v') ++ str1 b)
      by (rewrite !app_assoc_s; reflexivity).
    change "&" with (str1 "&"). rewrite endswith_snoc. exact Hb. }
  unfold to_dict. change "?" with (str1 "?"). rewrite (replace_id "?" "&" qs Hq).
  rewrite (strip_one_amp_id qs Hfirst Hlast).
  unfold urlsplit_query. rewrite (remove_chars_id qs H9 H10 H13).
  rewrite (split1_c_nomem "#" qs Hh). cbn [fst].
  unfold parse_qsl.
  assert (Eqs : sempty qs = false) by (rewrite Eq0; reflexivity).
  rewrite Eqs.
  assert (Hsplit : split_c "&" qs = map enc d).
  { unfold qs. apply (split_c_join "&" _ Hmne).
    apply Forall_forall. intros x Hx. apply in_map_iff in Hx. destruct Hx as (kv & <- & Hin).
    unfold query_safe in Hs. rewrite Forall_forall in Hs. destruct (Hs _ Hin) as (Hk & Hv).
    apply mem_c_enc; [reflexivity | |]; apply q_safe_mem; auto. }
  rewrite Hsplit, (parse_items_enc d Hs). cbn [bind]. rewrite (dict_of_pairs_id d Hnd). reflexivity.
Qed.
