(** How spil's cached entry points compute their cache key from a python call, and why equal keys
    mean "the same pure call" (key soundness).  caching.py after the repair:
        key = tuple(args) + tuple(sorted(kwargs.items()))
    [bind] is python's binding of positional / keyword arguments to a parameter list with defaults. *)
From Coq Require Import List String Ascii Bool Arith Lia Permutation.
From Spil Require Import Base.Str Base.Dict Cache.Memo.
Import ListNotations.
Local Open Scope string_scope.

Inductive pyarg :=
| AStr (s : string)
| ANone
| ABool (b : bool)
| ASid (uri : string) (str : string).     (* a Sid object: repr = "Sid('" ++ uri ++ "')", str = its string *)

Definition pyarg_eqb (a b : pyarg) : bool :=
  match a, b with
  | AStr x, AStr y => String.eqb x y
  | ANone, ANone => true
  | ABool x, ABool y => Bool.eqb x y
  | ASid u _, ASid v _ => String.eqb u v                 (* Sid.__eq__(Sid): uri equality *)
  | ASid _ s, AStr y | AStr y, ASid _ s => String.eqb s y  (* Sid.__eq__(str): string equality *)
  | _, _ => false
  end.

(* what hash() is a function of: Sid.__hash__ = hash(repr(self)) *)
Definition hashkey (a : pyarg) : string :=
  match a with
  | AStr s => "str:" ++ s
  | ANone => "None"
  | ABool true => "True"
  | ABool false => "False"
  | ASid u _ => "str:" ++ "Sid('" ++ u ++ "')"
  end.

(* dict key equality: same hash and == *)
Definition key_eqb (a b : pyarg) : bool := String.eqb (hashkey a) (hashkey b) && pyarg_eqb a b.

Record call := mkCall { c_pos : list pyarg; c_kw : list (string * pyarg) }.

Fixpoint insert_kw (x : string * pyarg) (l : list (string * pyarg)) : list (string * pyarg) :=
  match l with
  | [] => [x]
  | y :: t => if str_leb (fst x) (fst y) then x :: l else y :: insert_kw x t
  end.
Definition sort_kw (l : list (string * pyarg)) : list (string * pyarg) := fold_right insert_kw [] l.

Definition keyof (c : call) : list pyarg * list (string * pyarg) := (c_pos c, sort_kw (c_kw c)).

(* the defective key of the pinned tree: keyword NAMES only *)
Definition keyof_names_only (c : call) : list pyarg * list string := (c_pos c, map fst (c_kw c)).

(* binding: parameters with defaults; positional first, then keywords by name *)
Fixpoint bind_rest (params : list (string * pyarg)) (kw : list (string * pyarg)) : list pyarg :=
  match params with
  | [] => []
  | (n, dflt) :: r => (match dget kw n with Some v => v | None => dflt end) :: bind_rest r kw
  end.

Fixpoint bind_pos (params : list (string * pyarg)) (pos : list pyarg) (kw : list (string * pyarg)) : option (list pyarg) :=
  match pos, params with
  | [], _ => Some (bind_rest params kw)
  | _ :: _, [] => None                                    (* too many positional arguments: TypeError *)
  | a :: pos', (n, _) :: params' =>
      if dmem kw n then None                              (* multiple values for argument: TypeError *)
      else option_map (cons a) (bind_pos params' pos' kw)
  end.

Definition bind (params : list (string * pyarg)) (c : call) : option (list pyarg) :=
  if forallb (fun kv => in_list (fst kv) (map fst params)) (c_kw c)
  then bind_pos params (c_pos c) (c_kw c)
  else None.                                              (* unexpected keyword argument: TypeError *)

(** Lookups are invariant under sorting when names are distinct. *)
Lemma insert_kw_perm x l : Permutation (x :: l) (insert_kw x l).
Proof.
  induction l as [|y t IH]; simpl; [reflexivity|].
  destruct (str_leb (fst x) (fst y)); [reflexivity|].
  rewrite perm_swap. apply perm_skip. exact IH.
Qed.

Lemma sort_kw_perm l : Permutation l (sort_kw l).
Proof.
  induction l as [|x t IH]; simpl; [reflexivity|].
  rewrite <- insert_kw_perm. apply perm_skip. exact IH.
Qed.

Lemma dget_perm (l1 l2 : list (string * pyarg)) : Permutation l1 l2 -> NoDup (map fst l1) ->
  forall k, dget l1 k = dget l2 k.
Proof.
  induction 1 as [|[k0 v0] l l' HP IH|[k1 v1] [k2 v2] l|l l' l'' HP1 IH1 HP2 IH2]; intros Hnd k.
  - reflexivity.
  - simpl. destruct (String.eqb k k0); [reflexivity|]. apply IH. simpl in Hnd. inversion Hnd; assumption.
  - simpl. destruct (String.eqb k k2) eqn:E2; destruct (String.eqb k k1) eqn:E1; try reflexivity.
    apply String.eqb_eq in E1. apply String.eqb_eq in E2. subst.
    simpl in Hnd. inversion Hnd as [|? ? Hni _]; subst. exfalso. apply Hni. left. reflexivity.
  - rewrite IH1; [|exact Hnd]. apply IH2.
    apply (Permutation_NoDup (Permutation_map fst HP1)). exact Hnd.
Qed.

Lemma bind_rest_ext params kw1 kw2 : (forall k, dget kw1 k = dget kw2 k) -> bind_rest params kw1 = bind_rest params kw2.
Proof.
  intros H. induction params as [|[n d] r IH]; simpl; [reflexivity|]. rewrite H, IH. reflexivity.
Qed.

Lemma bind_pos_ext params pos kw1 kw2 : (forall k, dget kw1 k = dget kw2 k) -> bind_pos params pos kw1 = bind_pos params pos kw2.
Proof.
  intros H. revert params. induction pos as [|a pos IH]; intros params.
  - destruct params as [|p r]; simpl; [reflexivity|]. f_equal. exact (bind_rest_ext (p :: r) kw1 kw2 H).
  - destruct params as [|[n d] r]; simpl; [reflexivity|]. unfold dmem. rewrite H. rewrite IH. reflexivity.
Qed.

Lemma forallb_perm {A} (p : A -> bool) l1 l2 : Permutation l1 l2 -> forallb p l1 = forallb p l2.
Proof.
  induction 1; simpl; try congruence.
  - destruct (p y), (p x); reflexivity.
Qed.

Definition canon (c : call) : call := mkCall (c_pos c) (sort_kw (c_kw c)).

Lemma bind_canon params c : NoDup (map fst (c_kw c)) -> bind params (canon c) = bind params c.
Proof.
  intros Hnd. unfold bind, canon. simpl.
  rewrite <- (forallb_perm _ _ _ (sort_kw_perm (c_kw c))).
  destruct (forallb _ (c_kw c)); [|reflexivity].
  apply bind_pos_ext. intros k. symmetry. apply dget_perm; [apply sort_kw_perm | exact Hnd].
Qed.

(** Key soundness: calls with equal keys bind to the same arguments, whatever the spelling. *)
Theorem key_sound params c1 c2 :
  NoDup (map fst (c_kw c1)) -> NoDup (map fst (c_kw c2)) ->
  keyof c1 = keyof c2 -> bind params c1 = bind params c2.
Proof.
  intros H1 H2 E. rewrite <- (bind_canon params c1 H1), <- (bind_canon params c2 H2).
  unfold keyof in E. inversion E as [[Ep Ek]]. unfold canon. rewrite Ep, Ek. reflexivity.
Qed.

(* positional and keyword spelling of the same call bind alike (they may use two cache entries, both correct) *)
Example spelling_example :
  bind [("path", ANone); ("_type", ANone); ("config", ANone)] (mkCall [AStr "/p"] [("config", AStr "server")])
  = bind [("path", ANone); ("_type", ANone); ("config", ANone)] (mkCall [AStr "/p"; ANone; AStr "server"] []).
Proof. reflexivity. Qed.

(* the pinned tree's key (keyword names only) is NOT sound: witness of the repaired defect *)
Theorem names_only_key_refuted : exists params c1 c2,
  keyof_names_only c1 = keyof_names_only c2 /\ bind params c1 <> bind params c2.
Proof.
  exists [("path", ANone); ("_type", ANone); ("config", ANone)],
         (mkCall [AStr "/p"] [("config", AStr "local")]), (mkCall [AStr "/p"] [("config", AStr "server")]).
  split; [reflexivity | discriminate].
Qed.

(* a Sid object used as a key never equals a plain string key: hash(repr) differs from the string's own repr-less text
   only when the strings differ, and then == is decided on the Sid's string, which is shorter than its repr *)
Lemma length_append_s (a b : string) : String.length (a ++ b) = String.length a + String.length b.
Proof. induction a as [|x a IH]; simpl; congruence. Qed.

Theorem sid_key_vs_str_key u s y : s = u \/ (exists t, u = t ++ ":" ++ s) -> key_eqb (ASid u s) (AStr y) = false.
Proof.
  intros Hus. unfold key_eqb. cbn [hashkey pyarg_eqb].
  destruct (String.eqb ("str:" ++ "Sid('" ++ u ++ "')") ("str:" ++ y)) eqn:E1; [|reflexivity].
  destruct (String.eqb s y) eqn:E2; [|reflexivity].
  exfalso. apply String.eqb_eq in E1. apply String.eqb_eq in E2. subst y.
  simpl in E1. inversion E1 as [E]. clear E1.
  assert (Hl : String.length (u ++ "')") = String.length u + 2) by (rewrite length_append_s; reflexivity).
  assert (Hlen : String.length s = 5 + String.length u + 2).
  { rewrite <- E. simpl. rewrite Hl. lia. }
  destruct Hus as [->|(t & ->)].
  - lia.
  - rewrite !length_append_s in Hlen. simpl in Hlen. lia.
Qed.

(** Two nested caches (as sid_to_sid over sid_to_dict, or path_to_dict over Resolver.resolve_first):
    the outer body calls the inner cached function; the composition is pure. *)
Section Nested.
Variables (K1 V1 K2 V2 : Type).
Variables (keq1 : K1 -> K1 -> bool) (keq2 : K2 -> K2 -> bool).
Variable f2 : K2 -> V2.
Variable g : K1 -> K2.
Variable h : K1 -> V2 -> V1.
Hypothesis keq2_sound : forall a b, keq2 a b = true -> f2 a = f2 b.
Variable n2 : nat.

Definition inner_body (k : K2) (s : unit) : V2 * unit := (f2 k, s).
Definition f1 (k : K1) : V1 := h k (f2 (g k)).
Hypothesis keq1_sound : forall a b, keq1 a b = true -> f1 a = f1 b.

Definition outer_body (k : K1) (s : table K2 V2 * unit) : V1 * (table K2 V2 * unit) :=
  let (v2, s') := cached_call K2 V2 unit keq2 inner_body n2 s (g k) in (h k v2, s').

Lemma inner_pure : forall k s, True -> fst (inner_body k s) = f2 k /\ True.
Proof. intros; split; [reflexivity | exact I]. Qed.

Lemma outer_body_pure : forall k s, InvSt K2 V2 unit f2 (fun _ => True) s ->
  fst (outer_body k s) = f1 k /\ InvSt K2 V2 unit f2 (fun _ => True) (snd (outer_body k s)).
Proof.
  intros k s Hs. unfold outer_body.
  destruct (cached_call_pure K2 V2 unit keq2 f2 inner_body (fun _ => True) inner_pure keq2_sound n2 s (g k) Hs) as [Hv Hs'].
  destruct (cached_call K2 V2 unit keq2 inner_body n2 s (g k)) as [v2 s'] eqn:E. simpl in *.
  subst v2. split; [reflexivity | exact Hs'].
Qed.

Theorem nested_pure n1 st k :
  InvSt K1 V1 (table K2 V2 * unit) f1 (InvSt K2 V2 unit f2 (fun _ => True)) st ->
  fst (cached_call K1 V1 _ keq1 outer_body n1 st k) = f1 k.
Proof.
  intros Hst.
  exact (proj1 (cached_call_pure K1 V1 _ keq1 f1 outer_body _ outer_body_pure keq1_sound n1 st k Hst)).
Qed.
End Nested.
