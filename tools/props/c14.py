"""C14 Sids are immutable values."""
from harness.runner import PropBase, Case
from harness import gen
from props.c01 import natural

class C14(PropBase):
    id = 'C14'
    rule = ('pairs of Sids from the C01/C02 families incl. same-string Sids of different (forced) types: ==, hash, set/dict behaviour, == with plain '
            'strings, sorting; histories with mutation attempts on every returned fields dictionary followed by re-observation of the Sid and of '
            'new Sids of the same string; non-trivial = pair of typed sids / mutation on a typed sid')
    def forced_variants(self, v, s):
        segs = s.split('/')
        out = [s]
        for t in v.order:
            if len(v.types[t]) == len(segs) and natural(v, s, forced=t):
                out.append(t + ':' + s)
        return out
    def cases(self, rng, ctx, tier):
        v = gen.vocab_from_ctx(ctx)
        n = 150 if tier == 'quick' else 3000
        out = []
        pool = []
        for _ in range(n // 3):
            s = v.sid(v.any_type(rng), rng, search_p=rng.choice([0, 0, 0.3]))
            pool.extend(self.forced_variants(v, s))
            if rng.random() < 0.3:
                pool.append(gen.mutate_string(s, rng, v).replace('?', ''))
        # typed Sids that carry an un-applied query (same type and fields as the plain Sid, another uri)
        for a in list(pool[:40]):
            if ':' not in a and natural(v, a):
                pool.append(a + rng.choice(['?foo=bar', '?' + natural(v, a)[1][-1][0] + '=zz/zz']))
        pool.append(''); pool.append('bla')
        for _ in range(n):
            a = rng.choice(pool)
            r = rng.random()
            if r < 0.4:
                b = a
            elif r < 0.5 and '?' not in a and natural(v, a.split(':')[-1]):
                b = a + '?foo=bar'
            elif r < 0.7:
                b = rng.choice(self.forced_variants(v, a.split(':')[-1]))
            else:
                b = rng.choice(pool)
            out.append(Case('eq_hash', [['s', a], ['s', b]], 'pairs', {'a': a, 'b': b}))
        for _ in range(n // 10):
            k = rng.randint(2, 8)
            out.append(Case('sorted', [[['s', rng.choice(pool)] for _ in range(k)]], 'sorted', {}))
        # a value that extends another one by a character sorting below '/': by string 'x/a-b' < 'x/a/y'
        for _ in range(n // 10):
            t2 = rng.choice([t for t in v.order if len(v.types[t]) > 2])
            opens = [i for i, (k_, e) in enumerate(v.types[t2][:-1]) if v.alternatives(e) is None]
            if not opens:
                continue
            i = rng.choice(opens)
            s2 = v.sid(t2, rng).split('/')
            s2[i] = rng.choice(['a', 'x', 'dagger'])
            lst = ['/'.join(s2)] + ['/'.join(s2[:i] + [s2[i] + suf]) for suf in rng.sample(['-b', '.b', '+b', ' b', '-old', '_b', 'b'], 3)]
            rng.shuffle(lst)
            out.append(Case('sorted', [[['s', x] for x in lst]], 'sorted', {}))
        # histories: observe, mutate returned containers, re-observe, derive other sids, re-observe
        for _ in range(n // 2):
            a = rng.choice(pool)
            out.append(Case('obs', [['s', a]], 'frame', {'key': a, 'step': 0}))
            out.append(Case('fields_mutate', [['s', a], rng.choice(v.all_keys() + ['foo']), rng.choice(['zzz', '', '*'])], 'frame', {'key': a, 'step': 1}))
            for _ in range(rng.randint(0, 3)):
                r = rng.random()
                if r < 0.3:
                    out.append(Case('parent', [['s', a]], 'frame-op', {}))
                elif r < 0.45 and natural(v, a.split(':')[-1].split('?')[0]):
                    # removal only: get_with(key=None ...) on the last key(s) of the Sid itself
                    ks = [k_ for k_, _ in natural(v, a.split(':')[-1].split('?')[0])[1]]
                    out.append(Case('get_with_kw', [['s', a], [[k_, []] for k_ in ks[-rng.randint(1, min(2, len(ks))):]]], 'frame-op', {}))
                elif r < 0.52 and natural(v, a.split(':')[-1].split('?')[0]) and '?' not in a:
                    # an optional ("~") value on a key the Sid has: through get_with(query=) and through the string form
                    kk, vv = rng.choice(natural(v, a.split(':')[-1])[1])
                    out.append(Case('get_with_q', [['s', a], kk + '=~' + rng.choice([vv, 'zzz', '*'])], 'frame-op', {}))
                    out.append(Case('obs', [['s', a + '?' + kk + '=~' + rng.choice(['zzz', vv])]], 'frame-op', {}))
                elif r < 0.6:
                    out.append(Case('get_with_kw', [['s', a], [[rng.choice(v.all_keys()), [rng.choice(gen.OPEN_VALUES)]]]], 'frame-op', {}))
                elif r < 0.8:
                    out.append(Case('path', [['s', a], '', 'pos'], 'frame-op', {}))
                else:
                    out.append(Case('fields_mutate', [['s', a.split(':')[-1]], 'project', 'zzz'], 'frame-op', {}))
            if rng.random() < 0.5:
                body = a.split(':')[-1]
                out.append(Case('sid_multi', [a, rng.choice(['task=render', 'state=p', 'project=x', 'foo=bar']),
                                              rng.choice([[], [['project', 'hamlet']]])], 'frame-op', {}))
            if rng.random() < 0.5:
                t = v.any_type(rng)
                f = v.fields(t, rng)
                out.append(Case('fields_arg_mutate', [[list(kv) for kv in f], rng.choice(v.all_keys()), rng.choice(['zzz', 'render', '*'])], 'frame-op', {}))
            out.append(Case('obs', [['s', a]], 'frame', {'key': a, 'step': 2}))
        return out
    def oracle(self, case, impl, ctx):
        if case.op == 'eq_hash':
            if impl[0] != 'ok':
                return None if impl[0] == 'raise-src' else 'eq/hash raised %r' % (impl,)
            eq, heq, set1, eqstr, dict1, ux, uy = impl[1]
            if (eq == '1') != (ux == uy):
                return 'Sid == Sid is %s for uris %r and %r' % (eq, ux, uy)
            if eq == '1' and heq != '1':
                return 'equal Sids hash differently'
            if (set1 == '1') != (eq == '1') or (dict1 == '1') != (eq == '1'):
                return 'set / dict of two Sids disagrees with =='
            return None
        if case.op == 'fields_mutate':
            if impl[0] != 'ok':
                return None if impl[0] == 'raise-src' else 'raised %r' % (impl,)
            x_after, y_new, same, private = impl[1]
            if same != '1':
                return 'a Sid changed after mutating the dictionaries returned by .fields'
            if private != '1':
                return '.fields returned the same object twice (not a private copy)'
            if x_after != y_new:
                return 'a new Sid of the same string differs from the old one after mutation: %r vs %r' % (x_after, y_new)
        if case.op in ('sid_multi', 'fields_arg_mutate') and impl[0] == 'ok':
            if impl[1][1] != '1':
                return '%s changed an existing Sid (%r)' % (case.op, case.args)
        if case.op == 'sorted' and impl[0] == 'ok':
            if impl[1] != sorted(impl[1]):
                return 'sorted(sids) is not ordered by string'
        return None
    def oracle_bulk(self, cases, impl_out, ctx):
        fails = []
        # uri equality <=> ==  (needs both observations): checked through the pairs' own obs
        first = {}
        pend = {}
        for c, o in zip(cases, impl_out):
            if c.stream == 'frame' and c.op == 'obs':
                k = c.meta['key']
                if c.meta['step'] == 0:
                    pend[k] = o
                elif k in pend and pend[k] != o:
                    fails.append((c, o, 'observations of Sid(%r) changed over a history of operations: %r -> %r' % (k, pend[k], o)))
        return fails
    def nontrivial(self, case, impl):
        return [case.op, case.args] if case.op in ('eq_hash', 'fields_mutate') else None
    def histogram_key(self, case, impl):
        if case.op == 'eq_hash' and impl[0] == 'ok':
            return 'eq_hash:' + ''.join(impl[1][:5])
        return case.stream + ':' + case.op

PROP = C14()
