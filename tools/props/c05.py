"""C05 Sid -> path -> Sid is the identity in every path configuration."""
import posixpath, json
from harness.runner import PropBase, Case
from harness import gen

PATH_VALUES = ['x', 'a_b', 'a-b', 'a.b', 'WORK', 'w', 'HAMLET', 'hamlet', 'PUBLISH', 'p', 'ASSETS', 'a', 'n1', 'cam_L', 'x_model', 'v001', 'char']

class C05(PropBase):
    id = 'C05'
    rule = ('every concrete Sid of every configured type over value sets incl. mapped values used as open values (WORK, w, HAMLET, hamlet), values with "_" "." "-", '
            'node / no-node cache files, free values containing ":" (written as uri); each in every path configuration, positional and keyword; non-trivial = the Sid has a path; distinct by (sid, config)')
    def concrete(self, rng, v, t):
        segs = []
        for k, e in v.types[t]:
            if v.alternatives(e) is None:
                segs.append(rng.choice(PATH_VALUES))
            else:
                segs.append(v.value(e, rng))
        return '/'.join(segs)
    def cases(self, rng, ctx, tier):
        v = gen.vocab_from_ctx(ctx)
        n = 60 if tier == 'quick' else 1500
        cfgs = [pc[0] for pc in ctx['rawd']['path_configs']]
        out = []
        for t in v.order:
            for _ in range(n):
                s = self.concrete(rng, v, t)
                opens = [i for i, (k, e) in enumerate(v.types[t]) if v.alternatives(e) is None]
                if opens and rng.random() < 0.06:
                    # a free value with a backslash: an ordinary character of a posix path component, not a separator
                    segs = s.split('/')
                    segs[rng.choice(opens)] = rng.choice(['old\\man', 'a\\', '\\b'])
                    s = '/'.join(segs)
                if opens and rng.random() < 0.15:
                    # a free value with the uri separator in it: such a Sid is written as a uri (type:string)
                    segs = s.split('/')
                    segs[rng.choice(opens)] = rng.choice(['a:b', 'x:', ':y', 'a:b:c'])
                    s = t + ':' + '/'.join(segs)
                for cfg in cfgs + ['']:
                    out.append(Case('pathroundtrip', [['s', s], cfg, cfg], 'roundtrip', {'sid': s, 'cfg': cfg}))
                    out.append(Case('path', [['s', s], cfg, rng.choice(['pos', 'kw'])], 'path', {'sid': s, 'cfg': cfg}))
                if rng.random() < 0.5:
                    from props.c14 import C14
                    for u in C14().forced_variants(v, s)[1:]:
                        for cfg in cfgs:
                            out.append(Case('path', [['s', u], cfg, 'pos'], 'path', {'sid': u, 'cfg': cfg}))
                            out.append(Case('path', [['s', s], cfg, 'pos'], 'path', {'sid': s, 'cfg': cfg}))
        for _ in range(n):
            s = gen.junk_string(rng).replace('?', '')
            out.append(Case('path', [['s', s], rng.choice(cfgs + ['']), 'pos'], 'untyped', {'sid': s}))
        return out
    def phase2(self, rng, ctx, cases, impl_out, tier):
        more = []
        seen = set()
        for c in cases:
            if c.stream in ('roundtrip', 'path') and c.meta['sid'] not in seen:
                seen.add(c.meta['sid'])
                more.append(Case('obs', [['s', c.meta['sid']]], 'obs', {'sid': c.meta['sid']}))
        return more
    def oracle_bulk(self, cases, impl_out, ctx):
        fails = []
        obs = {}
        for c, o in zip(cases, impl_out):
            if c.op == 'obs' and isinstance(o, list) and o and isinstance(o[0], list):
                obs[c.meta['sid']] = o
        roots = {}
        for pc in ctx['rawd']['path_configs']:
            tpls = dict((k, v) for k, v in dict((k, v) for k, v in pc[1])['templates'])
            # the configured root = longest common prefix of the templates up to the first placeholder
            firsts = [t.split('{')[0] for t in tpls.values()]
            roots[pc[0]] = posixpath.commonprefix(firsts)
        default = ctx['rawd']['default_path_config'] or ctx['rawd']['path_configs'][0][0]
        path_types = {pc[0]: set(k for k, _ in dict((k, vv) for k, vv in pc[1])['templates']) for pc in ctx['rawd']['path_configs']}
        paths = {}     # cfg -> path -> uri
        bysid = {}     # sid -> cfg -> path
        for c, o in zip(cases, impl_out):
            if c.op == 'path' and c.stream == 'path':
                if o[0] != 'ok':
                    fails.append((c, o, 'path() raised %r (must be a path or None)' % (o,))); continue
                ob = obs.get(c.meta['sid'])
                if ob is None:
                    continue
                uri = ob[3]
                cfg = c.meta['cfg'] or default
                ty = ob[0][1]
                # a Sid whose type has no path template (or an untyped Sid) has path None; a typed one with a template has a path
                if o[1] and (not ty or ty not in path_types.get(cfg, set())):
                    fails.append((c, o, 'path(%s) of %r is %r although its type %r has no path template' % (cfg, uri, o[1][0], ty))); continue
                if not o[1] and ty and ty in path_types.get(cfg, set()):
                    fails.append((c, o, 'path(%s) of %r is None although its type %r has a path template' % (cfg, uri, ty))); continue
                if o[1]:
                    p = o[1][0]
                    other = paths.setdefault(cfg, {}).get(p)
                    if other is not None and other != uri:
                        fails.append((c, o, 'two different Sids map to the same path %r: %r and %r' % (p, other, uri)))
                    paths[cfg][p] = uri
                    prev = bysid.setdefault(uri, {}).get(cfg)
                    if prev is not None and prev != p:
                        fails.append((c, o, 'path(%s) of %r is not a function: %r then %r' % (cfg, uri, prev, p)))
                    bysid[uri][cfg] = p
            elif c.op == 'path' and c.stream == 'untyped':
                ob_typed = None
                if o[0] != 'ok':
                    fails.append((c, o, 'path() of an untyped / arbitrary Sid raised %r' % (o,)))
            elif c.op == 'pathroundtrip':
                if o[0] != 'ok':
                    fails.append((c, o, 'Sid(path=sid.path(c), config=c) raised %r' % (o,))); continue
                ob = obs.get(c.meta['sid'])
                if ob is None or ob[1] != '1':
                    continue
                if o[1]:
                    if o[1][0] != ob[0]:
                        fails.append((c, o, 'Sid(path=sid.path(%r), config=%r) = %r differs from the Sid %r' % (c.meta['cfg'], c.meta['cfg'], o[1][0], ob[0])))
        # paths under two configurations differ only by the configured root
        # (configurations with the same value mappings: a configuration with other mappings differs by more, by design)
        sig = {pc[0]: json.dumps(dict((k, vv) for k, vv in pc[1]).get('path_mapping'), sort_keys=True) for pc in ctx['rawd']['path_configs']}
        for uri, d0 in bysid.items():
          for sg in set(sig.get(cfg) for cfg in d0):
            d = {cfg: p for cfg, p in d0.items() if sig.get(cfg) == sg}
            rel = set()
            for cfg, p in d.items():
                r = roots.get(cfg, '')
                rel.add(p[len(r):] if p.startswith(r) else ('!' + p))
            if len(rel) > 1:
                fails.append((Case('path', [['s', uri], '', 'pos'], 'root'), ['ok', sorted(d.items())], 'paths of %r differ by more than the configured root: %r' % (uri, sorted(d.items()))))
        return fails
    def nontrivial(self, case, impl):
        return [case.op, case.args] if case.op in ('path', 'pathroundtrip') and impl[0] == 'ok' and impl[1] else None
    def histogram_key(self, case, impl):
        return '%s:%s:%s' % (case.stream, case.op, 'raise' if impl[0] != 'ok' else ('some' if impl[1] else 'none'))

PROP = C05()
