(** Sid.__lt__ (comparison of the strings by code point) is a strict total order on strings. *)
From Coq Require Import List String Ascii Bool Arith Lia.
From Spil Require Import Base.Str.
Local Open Scope string_scope.

Lemma str_ltb_irrefl a : str_ltb a a = false.
Proof.
  induction a as [|x a IH]; simpl; [reflexivity|].
  rewrite Nat.ltb_irrefl. exact IH.
Qed.

Lemma str_ltb_trans : forall a b c, str_ltb a b = true -> str_ltb b c = true -> str_ltb a c = true.
Proof.
  induction a as [|x a IH]; intros b c Hab Hbc.
  - destruct b as [|y b]; simpl in Hab; [discriminate|]. destruct c as [|z c]; simpl in Hbc; [discriminate|]. reflexivity.
  - destruct b as [|y b]; simpl in Hab; [discriminate|]. destruct c as [|z c]; simpl in Hbc; [discriminate|].
    simpl.
    destruct (Nat.ltb (nat_of_ascii x) (nat_of_ascii y)) eqn:Exy.
    + apply Nat.ltb_lt in Exy.
      destruct (Nat.ltb (nat_of_ascii y) (nat_of_ascii z)) eqn:Eyz.
      * apply Nat.ltb_lt in Eyz. assert (H : nat_of_ascii x < nat_of_ascii z) by lia. apply Nat.ltb_lt in H. rewrite H. reflexivity.
      * destruct (Nat.ltb (nat_of_ascii z) (nat_of_ascii y)) eqn:Ezy; [discriminate|].
        apply Nat.ltb_ge in Eyz. apply Nat.ltb_ge in Ezy.
        assert (H : nat_of_ascii x < nat_of_ascii z) by lia. apply Nat.ltb_lt in H. rewrite H. reflexivity.
    + destruct (Nat.ltb (nat_of_ascii y) (nat_of_ascii x)) eqn:Eyx; [discriminate|].
      apply Nat.ltb_ge in Exy. apply Nat.ltb_ge in Eyx.
      destruct (Nat.ltb (nat_of_ascii y) (nat_of_ascii z)) eqn:Eyz.
      * apply Nat.ltb_lt in Eyz. assert (H : nat_of_ascii x < nat_of_ascii z) by lia. apply Nat.ltb_lt in H. rewrite H. reflexivity.
      * destruct (Nat.ltb (nat_of_ascii z) (nat_of_ascii y)) eqn:Ezy; [discriminate|].
        apply Nat.ltb_ge in Eyz. apply Nat.ltb_ge in Ezy.
        assert (H1 : Nat.ltb (nat_of_ascii x) (nat_of_ascii z) = false) by (apply Nat.ltb_ge; lia).
        assert (H2 : Nat.ltb (nat_of_ascii z) (nat_of_ascii x) = false) by (apply Nat.ltb_ge; lia).
        rewrite H1, H2. exact (IH b c Hab Hbc).
Qed.

Lemma nat_of_ascii_inj x y : nat_of_ascii x = nat_of_ascii y -> x = y.
Proof. intros H. rewrite <- (ascii_nat_embedding x), <- (ascii_nat_embedding y). rewrite H. reflexivity. Qed.

Lemma str_ltb_total : forall a b, str_ltb a b = false -> str_ltb b a = false -> a = b.
Proof.
  induction a as [|x a IH]; intros b Hab Hba.
  - destruct b; [reflexivity | discriminate].
  - destruct b as [|y b]; [discriminate|]. simpl in Hab, Hba.
    destruct (Nat.ltb (nat_of_ascii x) (nat_of_ascii y)) eqn:Exy; [discriminate|].
    destruct (Nat.ltb (nat_of_ascii y) (nat_of_ascii x)) eqn:Eyx; [discriminate|].
    apply Nat.ltb_ge in Exy. apply Nat.ltb_ge in Eyx.
    assert (E : x = y) by (apply nat_of_ascii_inj; lia). subst y.
    f_equal. exact (IH b Hab Hba).
Qed.
