"""C18 get_last / get_next / get_new implement a gap-free version workflow."""
from harness.runner import PropBase, Case
from harness import gen, core
from props import datalayer as dl

def ver(n):
    return 'v%03d' % n

class C18(PropBase):
    id = 'C18'
    rule = ('task / version / state / file Sids (asset and shot) over trees with arbitrary version sets (empty, dense, sparse, maximal v999, files in only some versions / states); '
            'get_last / get_next / get_new on each, incl. "*" and ">" versions and Sids without version; sequences of up to 8 create(get_new()) steps; '
            'non-trivial = a call on a tree with at least one version; distinct by (version set, sid, operation)')
    def confdir(self, ws):
        return core.make_fs_confdir(ws)
    def cases(self, rng, ctx, tier):
        out = []
        nt = 10 if tier == 'quick' else 120
        bases = [('hamlet/a/char/x/model', 'w', 'ma'), ('hamlet/s/sq001/sh0010/anim', 'p', 'mov'), ('hamlet/a/prop/a_b/rig', 'w', 'mb')]
        hid = 0
        for _ in range(nt):
            hid += 1
            base, st, ext = rng.choice(bases)
            kind = rng.choice(['empty', 'dense', 'sparse', 'max', 'single', 'nearmax'])
            if kind == 'empty':
                vs = []
            elif kind == 'dense':
                vs = list(range(1, rng.randint(2, 6)))
            elif kind == 'sparse':
                vs = sorted(rng.sample(range(0, 60), rng.randint(1, 5)))
            elif kind == 'nearmax':
                vs = sorted(set(rng.sample(range(985, 998), rng.randint(0, 2)) + [998]))
            elif kind == 'max':
                vs = sorted(set(rng.sample(range(990, 1000), rng.randint(1, 3)) + [999]))
            else:
                vs = [rng.randint(0, 998)]
            m = {'h': hid, 'base': base, 'vs': vs, 'st': st, 'ext': ext}
            out.append(Case('fs_reset', [], 'setup', m))
            out.append(Case('w_create', ['', base, []], 'setup', m))
            for n in vs:
                # a version exists as a folder; some also hold a file
                if rng.random() < 0.7:
                    out.append(Case('w_create', ['', '%s/%s/%s/%s' % (base, ver(n), st, ext), []], 'setup', m))
                else:
                    out.append(Case('w_create', ['', '%s/%s' % (base, ver(n)), []], 'setup', m))
            mine = (max(vs) if rng.random() < 0.5 else rng.choice(vs)) if vs and rng.random() < 0.7 else rng.randint(0, 999)
            subjects = [base,                                         # task Sid (no version)
                        '%s/%s' % (base, ver(mine)),                  # version Sid
                        '%s/%s/%s' % (base, ver(mine), st),           # state Sid
                        '%s/%s/%s/%s' % (base, ver(mine), st, ext),   # file Sid
                        '%s/*/%s/%s' % (base, st, ext), '%s/>' % base, '%s/*' % base]
            for s in subjects:
                for op in ('get_last', 'get_next', 'get_new'):
                    out.append(Case(op, [['s', s], 'version'], 'query', dict(m, subject=s, mine=mine)))
            # publishing get_new repeatedly (on the version Sid): strictly increasing, never reused
            k = rng.randint(2, 8)
            out.append(Case('publish_chain', ['', '%s/%s' % (base, ver(mine)), str(k)], 'chain', dict(m, k=k)))
            # files of a second state lag behind: publishing them lands in already existing version folders
            if vs and max(vs) < 990:
                st2 = 'p' if st == 'w' else 'w'
                out.append(Case('w_create', ['', '%s/%s/%s/%s' % (base, ver(vs[0]), st2, ext), []], 'setup', m))
                out.append(Case('get_last', [['s', '%s/%s/%s/%s' % (base, ver(vs[0]), st2, ext)], 'version'], 'query2', m))
                out.append(Case('publish_chain', ['', '%s/%s/%s/%s' % (base, ver(vs[0]), st2, ext), str(min(k, 4))], 'chain2', dict(m, k=min(k, 4), start=vs[0])))
        # the first publish of a task: lookups while nothing exists below the asset / shot (not even the task folder), then
        # create(get_new) repeatedly and the lookups again, in one process
        for base, st, ext in bases:
            hid += 1
            parent = '/'.join(base.split('/')[:-1])
            first = '%s/%s/%s/%s' % (base, ver(1), st, ext)
            m = {'h': hid, 'base': base, 'vs': [], 'st': st, 'ext': ext}
            out.append(Case('fs_reset', [], 'setup', m))
            out.append(Case('w_create', ['', parent, []], 'setup', m))
            out.append(Case('get_last', [['s', first], 'version'], 'query2', m))
            out.append(Case('get_new', [['s', first], 'version'], 'query2', m))
            out.append(Case('publish_chain', ['', first, '3'], 'chain2', dict(m, k=3, start=0)))
            out.append(Case('get_last', [['s', first], 'version'], 'query2', m))
        # a second state lagging behind in already existing version folders (search, create, search again in one process)
        for base, st, ext in bases:
            hid += 1
            st2 = 'p' if st == 'w' else 'w'
            m = {'h': hid, 'base': base, 'vs': [1, 2, 3], 'st': st, 'ext': ext}
            out.append(Case('fs_reset', [], 'setup', m))
            for n in (1, 2, 3):
                out.append(Case('w_create', ['', '%s/%s/%s/%s' % (base, ver(n), st, ext), []], 'setup', m))
            lag = '%s/%s/%s/%s' % (base, ver(1), st2, ext)
            out.append(Case('w_create', ['', lag, []], 'setup', m))
            out.append(Case('get_last', [['s', lag], 'version'], 'query2', m))
            out.append(Case('get_new', [['s', lag], 'version'], 'query2', m))
            out.append(Case('publish_chain', ['', lag, '4'], 'chain2', dict(m, k=4, start=1)))
            out.append(Case('get_last', [['s', lag], 'version'], 'query2', m))
        out.append(Case('fs_reset', [], 'setup', {}))
        return out
    def compare(self, case, model, impl):
        return None if model == impl else 'model and implementation differ'
    def oracle(self, case, impl, ctx):
        m = case.meta
        if case.stream == 'query':
            if impl[0] != 'ok':
                return '%s(%r) raised %r' % (case.op, m['subject'], impl)
            s = m['subject']; vs = m['vs']; base = m['base']
            got = impl[1]
            segs = s.split('/')
            nbase = len(base.split('/'))
            has_version = len(segs) > nbase
            cur = segs[nbase] if has_version else None
            rest = segs[nbase + 1:]
            def with_version(n):
                return '/'.join(base.split('/') + [ver(n)] + rest)
            if case.op == 'get_next':
                if not has_version:
                    exp = base + '/' + ver(1)
                elif cur in ('*', '>'):
                    # successor of the last existing version that has the remaining segments
                    return None if not rest else None if True else None
                else:
                    n = int(cur[1:]) + 1
                    exp = with_version(n) if n <= 999 else ''
                if has_version and cur in ('*', '>'):
                    return None
                if got[0] != exp:
                    return 'get_next(%r) = %r, expected %r' % (s, got[0], exp)
                if got[0] and not got[1]:
                    return 'get_next returned an untyped non-empty Sid %r' % (got,)
            if case.op == 'get_last' and has_version is False:
                # keytype of the task Sid is "task": get_last('version') on it: the greatest existing version under it
                pass
            if case.op in ('get_last', 'get_new') and got[0]:
                if not got[1]:
                    return '%s returned an untyped non-empty Sid %r' % (case.op, got)
                # every field other than the version is unchanged
                gsegs = got[0].split('/')
                if has_version and cur not in ('*', '>'):
                    if gsegs[:nbase] != segs[:nbase] or gsegs[nbase + 1:] != rest:
                        return '%s(%r) changed other fields: %r' % (case.op, s, got[0])
            if case.op == 'get_new' and has_version and cur not in ('*', '>') and not rest:
                # version Sid: successor of the last existing version (first version if none), which does not exist yet
                exp = (base + '/' + ver(max(vs) + 1)) if vs and max(vs) < 999 else ((base + '/' + ver(1)) if not vs else '')
                if got[0] != exp:
                    return 'get_new(%r) with existing versions %r = %r, expected %r' % (s, vs, got[0], exp)
            if case.op == 'get_last' and has_version and cur not in ('*', '>') and not rest:
                exp = base + '/' + ver(max(vs)) if vs else ''
                if got[0] != exp:
                    return 'get_last(%r) with existing versions %r = %r, expected %r' % (s, vs, got[0], exp)
        if case.stream == 'chain2' and impl[0] != 'ok':
            return 'publishing a lagging state repeatedly (create(get_new), %d times, from %r) failed with %r: get_new returned a version that exists' % (m.get('k', 0), case.args[1], impl)
        if case.stream == 'chain2' and impl[0] == 'ok':
            nums = [int(s.split('/')[-3][1:]) for s in impl[1] if s]
            if len(set(nums)) != len(nums) or nums != sorted(nums) or (nums and nums[0] <= m['start']) or (m.get('k') == 4 and m['vs'] == [1, 2, 3] and nums != [2, 3, 4, 5]):
                return 'publishing a lagging state repeatedly produced versions %r (start %r): reused or not increasing' % (nums, m['start'])
        if case.stream == 'chain':
            if impl[0] != 'ok':
                return 'publishing get_new repeatedly failed: %r' % (impl,)
            chain = impl[1]
            vs = m['vs']
            nums = []
            for s in chain:
                if s == '':
                    break
                nums.append(int(s.split('/')[-1][1:]))
            if nums != sorted(set(nums)) or any(n in vs for n in nums):
                return 'published versions %r are not strictly increasing / reuse existing %r' % (chain, vs)
            start = (max(vs) if vs else 0)
            exp = [n for n in range(start + 1, start + 1 + m['k']) if n <= 999]
            if nums != exp:
                return 'publishing %d times over versions %r produced %r, expected %r' % (m['k'], vs, nums, exp)
        return None
    def nontrivial(self, case, impl):
        return [case.meta.get('h'), case.op, case.args] if case.stream in ('query', 'chain') and case.meta.get('vs') else None
    def histogram_key(self, case, impl):
        if case.stream == 'query':
            try:
                return '%s:%s' % (case.op, 'empty' if not impl[1][0] else 'sid')
            except Exception:
                return case.op + ':raise'
        return case.stream

PROP = C18()
