(** C07: unfold_search (extensions, or_op, expand, type_narrow, extrapolate, sort, filter). *)
From Coq Require Import List String Ascii Bool Arith Lia Permutation Sorted Setoid.
From Spil Require Import Base.Str Base.Dict Base.Outcome Base.StrProofs Base.SplitProofs
  Regex.Re Regex.MatchProofs Resolva.Template Resolva.Resolver Conf.ConfUtil Conf.Conf Conf.WF
  Sid.Query Sid.Sid Sid.TypingSpec Sid.TypingProofs Sid.SidLemmas Sid.SidProofs Sid.QueryStringProofs Sid.QueryProofs Cache.OrderProofs
  Search.Unfold Search.SortLemmas.
Import ListNotations.
Local Open Scope string_scope.

(** * order facts *)

Lemma str_ltb_asym a b : str_ltb a b = true -> str_ltb b a = false.
Proof.
  intros H. destruct (str_ltb b a) eqn:E; [|reflexivity].
  pose proof (str_ltb_trans a b a H E) as H1. rewrite str_ltb_irrefl in H1. discriminate.
Qed.

Lemma str_ge_trans a b c : str_ltb a b = false -> str_ltb b c = false -> str_ltb a c = false.
Proof.
  intros Hab Hbc. destruct (str_ltb a c) eqn:E; [|reflexivity]. exfalso.
  destruct (str_ltb c b) eqn:Ecb.
  - rewrite (str_ltb_trans a c b E Ecb) in Hab. discriminate.
  - pose proof (str_ltb_total b c Hbc Ecb) as ->. congruence.
Qed.

Lemma sid_key_leb_total x y : sid_key_leb x y = false -> sid_key_leb y x = true.
Proof.
  unfold sid_key_leb, str_leb. destruct (str_ltb (s_string x) (s_string y)) eqn:E1; [discriminate|].
  destruct (str_ltb (s_string y) (s_string x)) eqn:E2; [reflexivity|].
  intros H. apply negb_false_iff in H. apply negb_true_iff. apply str_ltb_asym. exact H.
Qed.

Lemma sid_key_leb_trans x y z : sid_key_leb x y = true -> sid_key_leb y z = true -> sid_key_leb x z = true.
Proof.
  unfold sid_key_leb, str_leb.
  destruct (str_ltb (s_string x) (s_string y)) eqn:Exy.
  - intros _. destruct (str_ltb (s_string y) (s_string z)) eqn:Eyz.
    + intros _. rewrite (str_ltb_trans _ _ _ Exy Eyz). reflexivity.
    + destruct (str_ltb (s_string z) (s_string y)) eqn:Ezy; [discriminate|]. intros _.
      rewrite <- (str_ltb_total _ _ Eyz Ezy). rewrite Exy. reflexivity.
  - destruct (str_ltb (s_string y) (s_string x)) eqn:Eyx; [discriminate|].
    rewrite <- (str_ltb_total _ _ Exy Eyx). intros Ht1.
    destruct (str_ltb (s_string x) (s_string z)); [reflexivity|].
    destruct (str_ltb (s_string z) (s_string x)); [discriminate|]. intros Ht2.
    apply negb_true_iff in Ht1, Ht2. apply negb_true_iff. apply (str_ge_trans _ _ _ Ht2 Ht1).
Qed.

Lemma sort_sids_isort l : sort_sids l = isort sid_key_leb l.
Proof. reflexivity. Qed.

Definition sid_key_le (x y : sid) : Prop := sid_key_leb x y = true.

Lemma sort_sids_perm l : Permutation l (sort_sids l).
Proof. rewrite sort_sids_isort. apply isort_perm. Qed.

Lemma sort_sids_sorted l : StronglySorted sid_key_le (sort_sids l).
Proof. rewrite sort_sids_isort. apply (isort_sorted sid_key_leb sid_key_leb_total sid_key_leb_trans). Qed.

(** * duplicates: [sid_eqb] compares uris *)

Lemma nodup_sid_incl l : incl (nodup_sid l) l.
Proof.
  induction l as [|x t IH]; simpl; [intros e []|].
  destruct (existsb (sid_eqb x) t).
  - intros e He. right. apply IH. exact He.
  - intros e [<-|He]; [left; reflexivity | right; apply IH; exact He].
Qed.

Lemma nodup_sid_In l : forall x, In x l -> exists y, In y (nodup_sid l) /\ uri y = uri x.
Proof.
  induction l as [|a t IH]; intros x H; [destruct H|]. simpl.
  destruct (existsb (sid_eqb a) t) eqn:E.
  - destruct H as [<-|H]; [|apply IH; exact H].
    apply existsb_exists in E. destruct E as (y & Hy & Heq). apply String.eqb_eq in Heq.
    destruct (IH y Hy) as (y' & Hy' & E'). exists y'. split; [exact Hy' | congruence].
  - destruct H as [<-|H].
    + exists a. split; [left; reflexivity | reflexivity].
    + destruct (IH x H) as (y & Hy & E'). exists y. split; [right; exact Hy | exact E'].
Qed.

Lemma nodup_sid_NoDup l : NoDup (map uri (nodup_sid l)).
Proof.
  induction l as [|x t IH]; simpl; [constructor|].
  destruct (existsb (sid_eqb x) t) eqn:E; [exact IH|]. simpl. constructor; [|exact IH].
  intros Hin. apply in_map_iff in Hin. destruct Hin as (y & Hy & Hin). apply nodup_sid_incl in Hin.
  assert (H : existsb (sid_eqb x) t = true).
  { apply existsb_exists. exists y. split; [exact Hin|]. unfold sid_eqb. rewrite Hy. apply String.eqb_refl. }
  congruence.
Qed.

Lemma NoDup_map_filter {A B} (f : A -> B) (p : A -> bool) l : NoDup (map f l) -> NoDup (map f (filter p l)).
Proof.
  induction l as [|x t IH]; simpl; intros H; [constructor|].
  inversion H as [|? ? Hx Ht]; subst. destruct (p x); simpl; [|apply IH; exact Ht].
  constructor; [|apply IH; exact Ht]. intros Hin. apply Hx.
  apply in_map_iff in Hin. destruct Hin as (y & Hy & Hin). apply filter_In in Hin.
  apply in_map_iff. exists y. tauto.
Qed.

Lemma uniquify_incl : forall l done, incl (uniquify done l) l.
Proof.
  induction l as [|x t IH]; intros done; simpl; [intros e []|].
  destruct (in_list (s_string x) done).
  - intros e He. right. apply (IH _ e He).
  - intros e [<-|He]; [left; reflexivity | right; apply (IH _ e He)].
Qed.

Lemma uniquify_NoDup_map {B} (f : sid -> B) : forall l done, NoDup (map f l) -> NoDup (map f (uniquify done l)).
Proof.
  induction l as [|x t IH]; intros done H; simpl; [constructor|].
  inversion H as [|? ? Hx Ht]; subst. destruct (in_list (s_string x) done); [apply IH; exact Ht|].
  simpl. constructor; [|apply IH; exact Ht]. intros Hin. apply Hx.
  apply in_map_iff in Hin. destruct Hin as (y & Hy & Hin). apply uniquify_incl in Hin.
  apply in_map_iff. exists y. tauto.
Qed.

Lemma filter_sorted {A} (R : A -> A -> Prop) (p : A -> bool) l : StronglySorted R l -> StronglySorted R (filter p l).
Proof.
  induction 1 as [|x t Hs IH Hall]; simpl; [constructor|]. destruct (p x); [|exact IH].
  constructor; [exact IH|]. rewrite Forall_forall in *. intros y Hy. apply filter_In in Hy. apply Hall. tauto.
Qed.

Lemma uniquify_sorted (R : sid -> sid -> Prop) : forall l, StronglySorted R l ->
  forall done, StronglySorted R (uniquify done l).
Proof.
  induction 1 as [|x t Hs IH Hall]; intros done; simpl; [constructor|].
  destruct (in_list (s_string x) done); [apply IH|].
  constructor; [apply IH|]. rewrite Forall_forall in *. intros y Hy. apply uniquify_incl in Hy. apply Hall. exact Hy.
Qed.

(* with uniquify the strings are pairwise different *)
Lemma uniquify_strings : forall l done,
  NoDup (map s_string (uniquify done l)) /\ forall x, In x (uniquify done l) -> ~ In (s_string x) done.
Proof.
  induction l as [|x t IH]; intros done; simpl; [split; [constructor | intros ? []]|].
  destruct (in_list (s_string x) done) eqn:E; [apply IH|].
  destruct (IH (s_string x :: done)) as (Hnd & Hnot). split.
  - simpl. constructor; [|exact Hnd]. intros Hin. apply in_map_iff in Hin. destruct Hin as (y & Hy & Hin).
    apply (Hnot y Hin). left. symmetry. exact Hy.
  - intros y [<-|Hy].
    + apply in_list_false. exact E.
    + intros Hd. apply (Hnot y Hy). right. exact Hd.
Qed.

Section UnfoldBasic.
Variable Ld : Loaded.

Definition clean (x : sid) : bool := sid_bool x && Nat.eqb (count "?" (s_string x)) 0.

Lemma unfold_search_inv s u e l : unfold_search Ld s u e = Ok l ->
  exists s5, l = (if u then uniquify [] else fun z => z) (filter clean (sort_sids (nodup_sid s5))).
Proof.
  unfold unfold_search, apply_unfolders. intros H.
  destruct (extensions Ld s) as [s1|]; [|discriminate]. cbn [bind] in H.
  destruct (or_op s1) as [s2|]; [|discriminate]. cbn [bind] in H.
  destruct (concat_mapM (expand Ld) s2) as [s3|]; [|discriminate]. cbn [bind] in H.
  destruct (mapM (type_narrow Ld) s3) as [s4|]; [|discriminate]. cbn [bind] in H.
  destruct (if e then concat_mapM (extrapolate_one_sid Ld) s4 else Ok s4) as [s5|]; [|discriminate].
  cbn [bind] in H. exists s5. inversion H. destruct u; reflexivity.
Qed.

(** U1 *)
Theorem unfold_typed_clean s u e l : unfold_search Ld s u e = Ok l ->
  Forall (fun x => sid_bool x = true /\ count "?" (s_string x) = 0) l.
Proof.
  intros H. destruct (unfold_search_inv _ _ _ _ H) as (s5 & ->).
  assert (G : Forall (fun x => sid_bool x = true /\ count "?" (s_string x) = 0)
                (filter clean (sort_sids (nodup_sid s5)))).
  { apply Forall_forall. intros x Hx. apply filter_In in Hx. destruct Hx as (_ & Hc).
    unfold clean in Hc. apply andb_true_iff in Hc. destruct Hc as (H1 & H2). apply Nat.eqb_eq in H2. tauto. }
  destruct u; [|exact G]. rewrite Forall_forall in *. intros x Hx. apply G. apply (uniquify_incl _ _ x Hx).
Qed.

Lemma unfold_uri_nodup s u e l : unfold_search Ld s u e = Ok l -> NoDup (map uri l).
Proof.
  intros H. destruct (unfold_search_inv _ _ _ _ H) as (s5 & ->).
  assert (G : NoDup (map uri (filter clean (sort_sids (nodup_sid s5))))).
  { apply NoDup_map_filter.
    apply (Permutation_NoDup (Permutation_map uri (sort_sids_perm (nodup_sid s5)))). apply nodup_sid_NoDup. }
  destruct u; [apply uniquify_NoDup_map|]; exact G.
Qed.

(** U2 (for both values of do_uniquify) *)
Theorem unfold_nodup s u e l : unfold_search Ld s u e = Ok l ->
  forall i j, i < j < List.length l -> sid_eqb (nth i l empty_sid) (nth j l empty_sid) = false.
Proof.
  intros H i j Hij. pose proof (unfold_uri_nodup _ _ _ _ H) as Hnd.
  unfold sid_eqb. apply String.eqb_neq. intros Heq.
  rewrite NoDup_nth in Hnd. specialize (Hnd i j).
  rewrite map_length in Hnd. rewrite !(nth_indep _ _ (uri empty_sid)) in Hnd by (rewrite map_length; lia).
  rewrite !map_nth in Hnd. specialize (Hnd ltac:(lia) ltac:(lia) Heq). lia.
Qed.

(** U3 (for both values of do_uniquify) *)
Theorem unfold_sorted s u e l : unfold_search Ld s u e = Ok l -> StronglySorted sid_key_le l.
Proof.
  intros H. destruct (unfold_search_inv _ _ _ _ H) as (s5 & ->).
  assert (G : StronglySorted sid_key_le (filter clean (sort_sids (nodup_sid s5)))).
  { apply filter_sorted. apply sort_sids_sorted. }
  destruct u; [apply uniquify_sorted|]; exact G.
Qed.

Corollary unfold_sorted_nth s u e l : unfold_search Ld s u e = Ok l ->
  forall i j, i < j < List.length l -> sid_key_leb (nth i l empty_sid) (nth j l empty_sid) = true.
Proof. intros H i j Hij. apply (StronglySorted_nth _ _ _ (unfold_sorted _ _ _ _ H) i j Hij). Qed.

(* with do_uniquify the result strings are pairwise different *)
Theorem unfold_uniquify_strings s e l : unfold_search Ld s true e = Ok l -> NoDup (map s_string l).
Proof.
  intros H. destruct (unfold_search_inv _ _ _ _ H) as (s5 & ->). apply uniquify_strings.
Qed.

End UnfoldBasic.

(** * U4: which exceptions can escape *)

Lemma unquote_pct_short h :
  unquote (String "%" (String h "")) = do r <- unquote (String h ""); Ok (String "%" r).
Proof. reflexivity. Qed.

Lemma unquote_pct h l rest :
  unquote (String "%" (String h (String l rest))) =
  match hexval h, hexval l with
  | Some a, Some b =>
      if Nat.leb 128 (16 * a + b) then Raise Unmodelled
      else do r <- unquote rest; Ok (String (ascii_of_nat (16 * a + b)) r)
  | _, _ => do r <- unquote (String h (String l rest)); Ok (String "%" r)
  end.
Proof. reflexivity. Qed.

Lemma unquote_raise : forall n s ex, String.length s <= n -> unquote s = Raise ex -> ex = Unmodelled.
Proof.
  induction n as [|n IH]; intros s ex Hlen H.
  - destruct s; [simpl in H; discriminate | simpl in Hlen; lia].
  - destruct s as [|a s']; [simpl in H; discriminate|]. simpl in Hlen.
    destruct (Ascii.eqb a "%") eqn:Ea.
    + apply Ascii.eqb_eq in Ea. subst a. destruct s' as [|h [|l rest]].
      * simpl in H. discriminate.
      * rewrite unquote_pct_short in H.
        destruct (unquote (String h "")) as [r|e] eqn:E; cbn [bind] in H; [discriminate|].
        inversion H; subst e. apply (IH (String h "")); [simpl in *; lia | exact E].
      * rewrite unquote_pct in H.
        destruct (hexval h) as [x|]; [destruct (hexval l) as [y|]|].
        -- destruct (Nat.leb 128 (16 * x + y)); [inversion H; reflexivity|].
           destruct (unquote rest) as [r|e] eqn:E; cbn [bind] in H; [discriminate|].
           inversion H; subst e. apply (IH rest); [simpl in *; lia | exact E].
        -- destruct (unquote (String h (String l rest))) as [r|e] eqn:E; cbn [bind] in H; [discriminate|].
           inversion H; subst e. apply (IH (String h (String l rest))); [simpl in *; lia | exact E].
        -- destruct (unquote (String h (String l rest))) as [r|e] eqn:E; cbn [bind] in H; [discriminate|].
           inversion H; subst e. apply (IH (String h (String l rest))); [simpl in *; lia | exact E].
    + rewrite (unquote_other a s' Ea) in H.
      destruct (unquote s') as [r|e] eqn:E; cbn [bind] in H; [discriminate|].
      inversion H; subst e. apply (IH s'); [lia | exact E].
Qed.

Lemma unquote_raise' s ex : unquote s = Raise ex -> ex = Unmodelled.
Proof. apply (unquote_raise (String.length s)). apply le_n. Qed.

Lemma parse_qsl_items_raise : forall items ex, parse_qsl_items items = Raise ex -> ex = Unmodelled.
Proof.
  induction items as [|it rest IH]; intros ex H; cbn [parse_qsl_items] in H; [discriminate|].
  destruct (parse_qsl_items rest) as [r|e] eqn:E; cbn [bind] in H.
  - destruct (sempty it); [discriminate|]. destruct (split1_c "=" it) as [n [v|]]; [|discriminate].
    destruct (sempty v); [discriminate|].
    destruct (unquote (plus_to_space n)) as [n'|e] eqn:E1; cbn [bind] in H.
    + destruct (unquote (plus_to_space v)) as [v'|e] eqn:E2; cbn [bind] in H; [discriminate|].
      inversion H; subst e. apply (unquote_raise' _ _ E2).
    + inversion H; subst e. apply (unquote_raise' _ _ E1).
  - inversion H; subst e. apply (IH ex eq_refl).
Qed.

Lemma to_dict_raise q ex : to_dict q = Raise ex -> ex = Unmodelled.
Proof.
  unfold to_dict. destruct (parse_qsl _) as [p|e] eqn:E; cbn [bind]; [discriminate|].
  intros H. inversion H; subst e. unfold parse_qsl in E. destruct (sempty _); [discriminate|].
  apply (parse_qsl_items_raise _ _ E).
Qed.

Lemma update_raise d q ex : update d q = Raise ex -> ex = Unmodelled.
Proof.
  unfold update. destruct (to_dict q) as [nd|e] eqn:E; cbn [bind]; [discriminate|].
  intros H. inversion H; subst e. apply (to_dict_raise _ _ E).
Qed.

Section UnfoldErrors.
Variables (c : Conf) (Ld : Loaded).
Hypothesis Hload : load c = Some Ld.
Hypothesis Hwf : wf_loadedb Ld = true.

Lemma sid_to_dict_ok str ty : exists res, sid_to_dict Ld str ty = Ok res /\
  match res with Some (t, d) => t <> "" | None => True end.
Proof.
  destruct (sempty ty) eqn:Ety.
  - destruct ty; [|discriminate]. rewrite (sid_to_dict_natural c Ld str Hload Hwf).
    eexists. split; [reflexivity|].
    destruct (natural Ld str) as [[t d]|] eqn:En; [|exact I].
    destruct (natural_inv Ld _ _ _ En) as (_ & pre & tp & post & E & Hn & _). rewrite <- Hn.
    apply (tpl_name_ok Ld Hwf tp). rewrite E. apply in_elt.
  - assert (Hne : ty <> "") by (apply sempty_false; exact Ety).
    rewrite (sid_to_dict_forced c Ld str ty Hload Hwf Hne). eexists; split; [reflexivity|].
    destruct (forced Ld ty str) as [[t d]|] eqn:Ef; [|exact I].
    destruct (forced_inv Ld _ _ _ _ Ef) as (-> & _). exact Hne.
Qed.

Lemma apply_query_raise s q t d ex : (t = "" -> d = []) ->
  apply_query Ld s q t d = Raise ex -> ex = Unmodelled.
Proof.
  intros Hg H. destruct (update d q) as [ov|e] eqn:Hu.
  - destruct (apply_query_never_raises c Ld Hload Hwf s q t d ov Hg Hu) as (res & E). congruence.
  - rewrite apply_query_unfold in H.
    assert (G : sempty t && negb (match d with [] => true | _ => false end) = false).
    { destruct (sempty t) eqn:E; [|reflexivity]. destruct t; [|discriminate]. rewrite (Hg eq_refl). reflexivity. }
    rewrite G in H. destruct (sempty q); [discriminate|]. rewrite Hu in H. cbn [bind] in H.
    inversion H; subst e. apply (update_raise _ _ _ Hu).
Qed.

Lemma sid_of_string_tail str query res ex :
  match res with Some (t, d) => t <> "" | None => True end ->
  (let (ty, fields) := match res with Some (t, d) => (t, d) | None => ("", []) end in
   if truthy query && truthy str && (match fields with [] => true | _ => false end)
   then Ok (mkSid (str ++ "?" ++ query) "" []) else
   if sempty query then Ok (mkSid str ty fields)
   else do '(s', t', f') <- apply_query Ld str query ty fields; Ok (mkSid s' t' f')) = Raise ex ->
  ex = Unmodelled.
Proof.
  intros Hres. destruct res as [[t d]|].
  - destruct (truthy query && truthy str && _); [discriminate|]. destruct (sempty query); [discriminate|].
    destruct (apply_query Ld str query t d) as [[[s' t'] f']|e] eqn:Ea; cbn [bind]; [discriminate|].
    intros H. inversion H; subst e. apply (apply_query_raise _ _ _ _ _ (fun E => False_ind _ (Hres E)) Ea).
  - destruct (truthy query && truthy str && _); [discriminate|]. destruct (sempty query); [discriminate|].
    destruct (apply_query Ld str query "" []) as [[[s' t'] f']|e] eqn:Ea; cbn [bind]; [discriminate|].
    intros H. inversion H; subst e. apply (apply_query_raise _ _ _ _ _ (fun _ => eq_refl) Ea).
Qed.

(* the factory on strings raises at most [Unmodelled] (an escape >= %80 in a query) *)
Lemma Sid_raise s ex : Sid Ld s = Raise ex -> ex = Unmodelled.
Proof.
  unfold Sid, sid_factory. destruct (sempty s); [discriminate|]. unfold sid_of_string.
  destruct (split1_c "?" s) as [body q].
  destruct (split1_c ":" body) as [t0 [rest|]].
  - destruct (sid_to_dict_ok rest t0) as (res & E & Hres). rewrite E. cbn [bind].
    apply sid_of_string_tail. exact Hres.
  - destruct (sid_to_dict_ok body "") as (res & E & Hres). rewrite E. cbn [bind].
    apply sid_of_string_tail. exact Hres.
Qed.

Lemma narrow_with_raise table key x ex : narrow_with Ld table key x = Raise ex -> ex = Unmodelled.
Proof.
  unfold narrow_with. destruct key as [k|]; [|discriminate]. destruct (dget table k) as [q|]; [|discriminate].
  destruct (sempty q) eqn:Eq; [discriminate|]. unfold get_with_query.
  destruct (truthy (s_string x) && negb (sid_bool x)); [discriminate|]. rewrite Eq. apply Sid_raise.
Qed.

Lemma type_narrow_raise x ex : type_narrow Ld x = Raise ex -> ex = Unmodelled.
Proof.
  unfold type_narrow. destruct (Nat.ltb 0 (count "?" (s_string x))); [discriminate|].
  destruct (narrow_with Ld _ (basetype Ld x) x) as [x1|e] eqn:E1; cbn [bind].
  - apply narrow_with_raise.
  - intros H. inversion H; subst e. apply (narrow_with_raise _ _ _ _ E1).
Qed.

Lemma resolve_all_in_ok s : forall l, incl l (r_tpls (l_sid Ld)) ->
  exists m, resolve_all_in (l_sid Ld) l s = Ok m.
Proof.
  induction l as [|t l IH]; intros Hincl; [eexists; reflexivity|]. cbn [resolve_all_in].
  destruct (resolve_tpl_total c Ld Hload Hwf t s (Hincl t (or_introl eq_refl))) as (x & Hx & _).
  rewrite Hx. cbn [bind]. destruct (IH (fun y Hy => Hincl y (or_intror Hy))) as (m & Hm). rewrite Hm. cbn [bind].
  destruct x; eexists; reflexivity.
Qed.

Lemma sid_to_dicts_ok s : exists m, sid_to_dicts Ld s = Ok m.
Proof.
  unfold sid_to_dicts, resolve_all. destruct (sempty s); [eexists; reflexivity|].
  apply resolve_all_in_ok. apply incl_refl.
Qed.

Lemma extensions_raise s ex : extensions Ld s = Raise ex -> ex = Unmodelled.
Proof.
  unfold extensions. destruct (split_query s) as [body query].
  destruct (sempty query); cbn [bind]; [discriminate|].
  destruct (to_dict query) as [qd|e] eqn:E; cbn [bind]; [discriminate|].
  intros H. inversion H; subst e. apply (to_dict_raise _ _ E).
Qed.

Lemma or_op_raise s ex : or_op s = Raise ex -> ex = Unmodelled.
Proof.
  unfold or_op. destruct (Nat.eqb (count ors s) 0); [discriminate|].
  destruct (split_query s) as [body query]. destruct (sempty query); [discriminate|].
  unfold or_on_query. destruct (to_dict query) as [qd|e] eqn:E; cbn [bind]; [discriminate|].
  intros H. inversion H; subst e. apply (to_dict_raise _ _ E).
Qed.

Lemma Sid_single_raise s ex : (do x <- Sid Ld s; Ok [x]) = Raise ex -> ex = Unmodelled.
Proof.
  destruct (Sid Ld s) as [x|e] eqn:E; cbn [bind]; [discriminate|]. intros H. inversion H; subst e.
  apply (Sid_raise _ _ E).
Qed.

Lemma simple_typing_raise s ex : simple_typing Ld s = Raise ex -> ex = Unmodelled.
Proof.
  unfold simple_typing. destruct (split_query s) as [body query].
  destruct (Sid Ld (hd "" (split_s "/*" body))) as [rs|e] eqn:E1; cbn [bind].
  2:{ intros H. inversion H; subst e. apply (Sid_raise _ _ E1). }
  destruct (basetype Ld rs); [|apply Sid_single_raise].
  destruct (sid_to_dicts_ok body) as (m & Em). rewrite Em. cbn [bind].
  destruct (mapM _ m) as [result|e] eqn:E2; cbn [bind].
  - destruct result; [apply Sid_single_raise | discriminate].
  - intros H. inversion H; subst e. apply mapM_raise in E2. destruct E2 as (td & _ & Htd).
    apply (Sid_raise _ _ Htd).
Qed.

Lemma expand_step_raise body query lk st t ex :
  expand_step Ld body query lk st t = Raise ex -> st = Raise ex \/ ex = Unmodelled.
Proof.
  unfold expand_step. destruct st as [[[tested found] result]|e]; cbn [bind]; [|intros H; left; exact H].
  destruct (in_list (tp_name t) found); [discriminate|].
  destruct (negb _); [discriminate|]. cbv zeta.
  destruct (in_list _ tested); [discriminate|].
  match goal with |- context [sid_to_dicts Ld ?x] => destruct (sid_to_dicts_ok x) as (m & Em) end.
  rewrite Em. cbn [bind].
  destruct (mapM _ m) as [news|e] eqn:E2; cbn [bind]; [discriminate|].
  intros H. inversion H; subst e. right.
  apply mapM_raise in E2. destruct E2 as (td & _ & Htd).
  destruct (last_opt (dkeys (snd td))); [|discriminate]. destruct (String.eqb _ lk); [|discriminate].
  destruct (Sid Ld _) as [x|e] eqn:E3; cbn [bind] in Htd; [discriminate|].
  inversion Htd; subst e. apply (Sid_raise _ _ E3).
Qed.

Lemma expand_fold_raise body query lk : forall tpls st ex,
  fold_left (expand_step Ld body query lk) tpls st = Raise ex -> st = Raise ex \/ ex = Unmodelled.
Proof.
  induction tpls as [|t tpls IH]; intros st ex H; cbn [fold_left] in H; [left; exact H|].
  destruct (IH _ _ H) as [H1|H1]; [|right; exact H1]. apply (expand_step_raise _ _ _ _ _ _ H1).
Qed.

Lemma expand_raise s ex : expand Ld s = Raise ex -> ex = SpilException \/ ex = Unmodelled.
Proof.
  unfold expand. destruct (Nat.eqb (count "/**" s) 0); [intros H; right; apply (simple_typing_raise _ _ H)|].
  destruct (Nat.ltb 1 (count "/**" s)); [intros H; inversion H; left; reflexivity|].
  destruct (split_query s) as [body query].
  destruct (Sid Ld (hd "" (split_s "/**" body))) as [rs|e] eqn:E1; cbn [bind].
  2:{ intros H. inversion H; subst e. right. apply (Sid_raise _ _ E1). }
  destruct (basetype Ld rs) as [bt|]; [|intros H; inversion H; left; reflexivity].
  destruct (dget _ bt) as [lk|]; [|intros H; inversion H; left; reflexivity].
  destruct (sempty lk); [intros H; inversion H; left; reflexivity|].
  destruct (fold_left _ _ _) as [[[a b] result]|e] eqn:Ef; cbn [bind]; [discriminate|].
  intros H. inversion H; subst e. destruct (expand_fold_raise _ _ _ _ _ _ Ef) as [H1|H1]; [discriminate | right; exact H1].
Qed.

Lemma extrapolate_raise x ex : extrapolate_one_sid Ld x = Raise ex -> ex = Unmodelled.
Proof.
  unfold extrapolate_one_sid. intros H. apply mapM_raise in H. destruct H as (s & _ & E).
  apply (Sid_raise _ _ E).
Qed.

Lemma apply_unfolders_raise s e ex : apply_unfolders Ld s e = Raise ex ->
  ex = SpilException \/ ex = Unmodelled.
Proof.
  unfold apply_unfolders.
  destruct (extensions Ld s) as [s1|e1] eqn:E1; cbn [bind].
  2:{ intros H. inversion H; subst e1. right. apply (extensions_raise _ _ E1). }
  destruct (or_op s1) as [s2|e2] eqn:E2; cbn [bind].
  2:{ intros H. inversion H; subst e2. right. apply (or_op_raise _ _ E2). }
  destruct (concat_mapM (expand Ld) s2) as [s3|e3] eqn:E3; cbn [bind].
  2:{ intros H. inversion H; subst e3. apply concat_mapM_raise in E3. destruct E3 as (x & _ & Hx).
      apply (expand_raise _ _ Hx). }
  destruct (mapM (type_narrow Ld) s3) as [s4|e4] eqn:E4; cbn [bind].
  2:{ intros H. inversion H; subst e4. apply mapM_raise in E4. destruct E4 as (x & _ & Hx).
      right. apply (type_narrow_raise _ _ Hx). }
  destruct e.
  - destruct (concat_mapM (extrapolate_one_sid Ld) s4) as [s5|e5] eqn:E5; cbn [bind]; [discriminate|].
    intros H. inversion H; subst e5. apply concat_mapM_raise in E5. destruct E5 as (x & _ & Hx).
    right. apply (extrapolate_raise _ _ Hx).
  - cbn [bind]. discriminate.
Qed.

(** U4 *)
Theorem unfold_errors s u e ex : unfold_search Ld s u e = Raise ex ->
  ex = SpilException \/ ex = Unmodelled.
Proof.
  unfold unfold_search. destruct (apply_unfolders Ld s e) as [l|e0] eqn:E; cbn [bind]; [discriminate|].
  intros H. inversion H; subst e0. apply (apply_unfolders_raise _ _ _ E).
Qed.

End UnfoldErrors.

(** * U5: or_on_path is the cartesian product of the comma alternatives *)

Definition alts (part : string) : list string :=
  if contains ors part then map strip (split_c "," part) else [part].

Definition addseg (a cur : string) : string := cur ++ sip ++ a.
Definition expand_alts (found al : list string) : list string :=
  flat_map (fun a => map (addseg a) found) al.

Definition slashes (k : nat) (l : list string) : Prop := Forall (fun x => count_c "/" x = k) l.

Lemma replace_first_skip pre old new post : ~ In old pre ->
  replace_first (pre ++ old :: post) old new = (pre ++ new :: post)%list.
Proof.
  induction pre as [|a pre IH]; simpl; intros H.
  - rewrite String.eqb_refl. reflexivity.
  - destruct (String.eqb a old) eqn:E.
    + apply String.eqb_eq in E. exfalso. apply H. left. exact E.
    + f_equal. apply IH. intros Hin. apply H. right. exact Hin.
Qed.

Lemma mem_c_count0 c s : mem_c c s = false -> count_c c s = 0.
Proof.
  induction s as [|a s IH]; simpl; intros H; [reflexivity|].
  apply orb_false_iff in H. destruct H as (Ha & Hs). rewrite Ha. simpl. apply IH. exact Hs.
Qed.

Lemma addseg_count a cur : mem_c "/" a = false -> count_c "/" (addseg a cur) = S (count_c "/" cur).
Proof.
  intros Ha. unfold addseg, sip. rewrite count_c_app. change ("/" ++ a) with (String "/" a).
  cbn [count_c]. rewrite (mem_c_count0 _ _ Ha), Ascii.eqb_refl. lia.
Qed.

Lemma not_in_slashes k l x : slashes k l -> count_c "/" x <> k -> ~ In x l.
Proof. intros Hl Hx Hin. unfold slashes in Hl. rewrite Forall_forall in Hl. apply Hx. apply Hl. exact Hin. Qed.

Lemma slashes_map a k l : mem_c "/" a = false -> slashes k l -> slashes (S k) (map (addseg a) l).
Proof.
  intros Ha Hl. unfold slashes in *. rewrite Forall_forall in *. intros x Hx.
  apply in_map_iff in Hx. destruct Hx as (y & <- & Hy). rewrite (addseg_count _ _ Ha). f_equal. apply Hl. exact Hy.
Qed.

Lemma slashes_snoc k l x : slashes k l -> count_c "/" x = k -> slashes k (l ++ [x]).
Proof. intros Hl Hx. apply Forall_app. split; [exact Hl | constructor; [exact Hx | constructor]]. Qed.

Lemma plain_fold part k : mem_c "/" part = false -> forall todo pre, slashes k todo -> slashes (S k) pre ->
  fold_left (fun fnd cur => replace_first fnd cur (cur ++ sip ++ part)) todo (pre ++ todo)%list
  = (pre ++ map (addseg part) todo)%list.
Proof.
  intros Hp. induction todo as [|cur todo IH]; intros pre Ht Hpre; [reflexivity|].
  inversion Ht as [|? ? Hc Ht']; subst. cbn [fold_left map].
  rewrite replace_first_skip by (apply (not_in_slashes (S (count_c "/" cur))); [exact Hpre | lia]).
  change (cur ++ sip ++ part) with (addseg part cur).
  change (pre ++ addseg part cur :: todo)%list with (pre ++ [addseg part cur] ++ todo)%list.
  rewrite app_assoc. rewrite IH; [rewrite <- app_assoc; reflexivity | exact Ht'|].
  apply slashes_snoc; [exact Hpre | apply addseg_count; exact Hp].
Qed.

Lemma or_alt_first a k : mem_c "/" a = false -> forall todo pre, slashes k todo -> slashes (S k) pre ->
  fold_left (fun fnd cur => let new := cur ++ sip ++ a in
                            if in_list cur fnd then replace_first fnd cur new else (fnd ++ [new])%list)
            todo (pre ++ todo)%list
  = (pre ++ map (addseg a) todo)%list.
Proof.
  intros Hp. induction todo as [|cur todo IH]; intros pre Ht Hpre; [reflexivity|].
  inversion Ht as [|? ? Hc Ht']; subst. cbn [fold_left map]. cbv zeta.
  assert (Hin : in_list cur (pre ++ cur :: todo) = true).
  { apply in_list_In. apply in_or_app. right. left. reflexivity. }
  rewrite Hin.
  rewrite replace_first_skip by (apply (not_in_slashes (S (count_c "/" cur))); [exact Hpre | lia]).
  change (cur ++ sip ++ a) with (addseg a cur).
  change (pre ++ addseg a cur :: todo)%list with (pre ++ [addseg a cur] ++ todo)%list.
  rewrite app_assoc. rewrite IH; [rewrite <- app_assoc; reflexivity | exact Ht'|].
  apply slashes_snoc; [exact Hpre | apply addseg_count; exact Hp].
Qed.

Lemma or_alt_later a k : mem_c "/" a = false -> forall todo fnd, slashes k todo -> slashes (S k) fnd ->
  or_alt todo a fnd = (fnd ++ map (addseg a) todo)%list.
Proof.
  intros Hp. unfold or_alt. induction todo as [|cur todo IH]; intros fnd Ht Hf.
  - simpl. rewrite app_nil_r. reflexivity.
  - inversion Ht as [|? ? Hc Ht']; subst. cbn [fold_left map]. cbv zeta.
    assert (Hin : in_list cur fnd = false).
    { apply in_list_false. apply (not_in_slashes (S (count_c "/" cur))); [exact Hf | lia]. }
    rewrite Hin. change (cur ++ sip ++ a) with (addseg a cur).
    rewrite IH; [rewrite <- app_assoc; reflexivity | exact Ht'|].
    apply slashes_snoc; [exact Hf | apply addseg_count; exact Hp].
Qed.

Lemma or_fold_later k found : slashes k found -> forall ps fnd,
  Forall (fun p => mem_c "/" (strip p) = false) ps -> slashes (S k) fnd ->
  fold_left (fun fnd alt => or_alt found (strip alt) fnd) ps fnd
    = (fnd ++ expand_alts found (map strip ps))%list /\
  slashes (S k) (fnd ++ expand_alts found (map strip ps)).
Proof.
  intros Hfound. induction ps as [|p ps IH]; intros fnd Hps Hf.
  - simpl. rewrite app_nil_r. split; [reflexivity | exact Hf].
  - inversion Hps as [|? ? Hp Hps']; subst. cbn [fold_left map].
    rewrite (or_alt_later (strip p) k Hp found fnd Hfound Hf).
    assert (Hf' : slashes (S k) (fnd ++ map (addseg (strip p)) found)).
    { apply Forall_app. split; [exact Hf | apply slashes_map; assumption]. }
    destruct (IH _ Hps' Hf') as (E & Hs). rewrite E.
    unfold expand_alts. cbn [flat_map]. rewrite <- !app_assoc in *. split; [reflexivity | exact Hs].
Qed.

Lemma mem_c_lstrip c s : mem_c c s = false -> mem_c c (lstrip s) = false.
Proof.
  induction s as [|a s IH]; simpl; intros H; [reflexivity|].
  destruct (is_space a); [|exact H]. apply orb_false_iff in H. apply IH. tauto.
Qed.

Lemma mem_c_rev_s_aux c s : forall acc, mem_c c (rev_s_aux s acc) = mem_c c s || mem_c c acc.
Proof.
  induction s as [|a s IH]; intros acc; simpl; [reflexivity|]. rewrite IH. simpl.
  destruct (Ascii.eqb a c), (mem_c c s), (mem_c c acc); reflexivity.
Qed.

Lemma mem_c_rev_s c s : mem_c c (rev_s s) = mem_c c s.
Proof. unfold rev_s. rewrite mem_c_rev_s_aux. simpl. apply orb_false_r. Qed.

Lemma mem_c_strip c s : mem_c c s = false -> mem_c c (strip s) = false.
Proof.
  intros H. unfold strip. rewrite mem_c_rev_s. apply mem_c_lstrip. rewrite mem_c_rev_s.
  apply mem_c_lstrip. exact H.
Qed.

Lemma alts_nomem c part : mem_c c part = false -> Forall (fun a => mem_c c a = false) (alts part).
Proof.
  intros Hp. unfold alts. destruct (contains ors part).
  - apply Forall_forall. intros a Ha. apply in_map_iff in Ha. destruct Ha as (p & <- & Hin).
    apply mem_c_strip. pose proof (mem_c_split c "," part Hp) as Hall. rewrite Forall_forall in Hall.
    apply Hall. exact Hin.
  - constructor; [exact Hp | constructor].
Qed.

Lemma or_part_expand k found part : slashes k found -> mem_c "/" part = false ->
  or_part found part = expand_alts found (alts part) /\ slashes (S k) (expand_alts found (alts part)).
Proof.
  intros Hf Hp. pose proof (alts_nomem "/" part Hp) as Halts. unfold or_part, alts in *.
  destruct (contains ors part).
  - destruct (split_c "," part) as [|p1 ps] eqn:Es; [exfalso; exact (split_c_not_nil _ _ Es)|].
    cbn [map] in Halts. inversion Halts as [|? ? Hp1 Hps]; subst.
    cbn [fold_left map].
    assert (E1 : or_alt found (strip p1) found = map (addseg (strip p1)) found).
    { unfold or_alt. apply (or_alt_first (strip p1) k Hp1 found [] Hf (Forall_nil _)). }
    rewrite E1.
    assert (Hps' : Forall (fun p => mem_c "/" (strip p) = false) ps).
    { rewrite Forall_forall in *. intros p Hin. apply Hps. apply in_map. exact Hin. }
    destruct (or_fold_later k found Hf ps _ Hps' (slashes_map _ _ _ Hp1 Hf)) as (E & Hs).
    rewrite E. unfold expand_alts in *. cbn [flat_map]. split; [reflexivity | exact Hs].
  - pose proof (plain_fold part k Hp found [] Hf (Forall_nil _)) as E. cbn [app] in E. rewrite E.
    unfold expand_alts. cbn [flat_map]. rewrite app_nil_r. split; [reflexivity|].
    apply slashes_map; assumption.
Qed.

Lemma fold_or_part : forall parts k init, slashes k init ->
  Forall (fun p => mem_c "/" p = false) parts ->
  fold_left or_part parts init = fold_left (fun fnd part => expand_alts fnd (alts part)) parts init.
Proof.
  induction parts as [|part parts IH]; intros k init Hi Hp; [reflexivity|].
  inversion Hp as [|? ? Hp1 Hp']; subst. cbn [fold_left].
  destruct (or_part_expand k init part Hi Hp1) as (E & Hs). rewrite E. apply (IH (S k) _ Hs Hp').
Qed.

Definition choice_ok (parts choice : list string) : Prop :=
  Forall2 (fun part alt => In alt (alts part)) parts choice.
Definition path_of (base : string) (choice : list string) : string :=
  fold_left (fun acc a => addseg a acc) choice base.

Lemma expand_fold_In : forall parts init x,
  In x (fold_left (fun fnd part => expand_alts fnd (alts part)) parts init) <->
  exists base choice, In base init /\ choice_ok parts choice /\ x = path_of base choice.
Proof.
  induction parts as [|part parts IH]; intros init x; cbn [fold_left].
  - split.
    + intros H. exists x, []. split; [exact H|]. split; [constructor | reflexivity].
    + intros (base & choice & Hb & Hc & ->). inversion Hc; subst. exact Hb.
  - rewrite IH. split.
    + intros (base' & choice' & Hb & Hc & ->). unfold expand_alts in Hb. apply in_flat_map in Hb.
      destruct Hb as (a & Ha & Hb). apply in_map_iff in Hb. destruct Hb as (cur & <- & Hcur).
      exists cur, (a :: choice'). split; [exact Hcur|]. split; [constructor; assumption | reflexivity].
    + intros (base & choice & Hb & Hc & ->). inversion Hc as [|? a ? choice' Ha Hc']; subst.
      exists (addseg a base), choice'. split; [|split; [exact Hc' | reflexivity]].
      unfold expand_alts. apply in_flat_map. exists a. split; [exact Ha|]. apply in_map. exact Hb.
Qed.

Lemma path_of_join : forall l base a, path_of base (a :: l) = base ++ "/" ++ join "/" (a :: l).
Proof.
  induction l as [|b l IH]; intros base a; [reflexivity|].
  change (path_of base (a :: b :: l)) with (path_of (addseg a base) (b :: l)). rewrite IH.
  rewrite (join_cons2 "/" a b l). unfold addseg, sip. rewrite !app_assoc_s. reflexivity.
Qed.

Lemma final_pass (g : string -> string) : forall todo acc,
  (forall x, In x todo -> ~ In x (acc ++ map g todo)) ->
  fold_left (fun result s => if in_list s result then result else (result ++ [g s])%list) todo acc
  = (acc ++ map g todo)%list.
Proof.
  induction todo as [|x todo IH]; intros acc H; cbn [fold_left map]; [rewrite app_nil_r; reflexivity|].
  assert (Hx : in_list x acc = false).
  { apply in_list_false. intros Hin. apply (H x (or_introl eq_refl)). apply in_or_app. left. exact Hin. }
  rewrite Hx. rewrite IH; [rewrite <- app_assoc; reflexivity|].
  intros y Hy. rewrite <- app_assoc. apply H. right. exact Hy.
Qed.

Lemma replace_aux_nocontain old new : forall t, contains old t = false -> replace_aux old new 0 t = t.
Proof.
  induction t as [|a t IH]; intros H; [reflexivity|].
  cbn [contains] in H. apply orb_false_iff in H. destruct H as (Hs & Hc).
  cbn [replace_aux]. rewrite Hs. f_equal. apply IH. exact Hc.
Qed.

Lemma startswith_contains sub s : startswith sub s = true -> contains sub s = true.
Proof. intros H. destruct s; cbn [contains]; rewrite H; reflexivity. Qed.

Definition marker_sip : string := start_marker ++ sip.

Lemma replace_marker t : contains marker_sip t = false ->
  replace marker_sip "" (start_marker ++ "/" ++ t) = t.
Proof.
  intros H. transitivity (replace_aux marker_sip "" 0 t); [reflexivity|]. apply replace_aux_nocontain. exact H.
Qed.

(* the guard: no combination of alternatives contains the internal marker followed by "/" *)
Definition no_marker (s : string) : Prop :=
  forall choice, choice_ok (split_c "/" s) choice -> contains marker_sip (join "/" choice) = false.

(** U5 *)
Theorem or_on_path_product s : no_marker s ->
  forall r, In r (or_on_path s) <->
    exists choice,
      Forall2 (fun part alt => In alt (if contains ors part then map strip (split_c "," part) else [part]))
              (split_c "/" s) choice /\
      r = join "/" choice.
Proof.
  intros Hguard r. unfold or_on_path.
  rewrite (fold_or_part (split_c "/" s) 0 [start_marker]);
    [|constructor; [reflexivity | constructor] | apply split_c_nomem_all].
  set (found := fold_left (fun fnd part => expand_alts fnd (alts part)) (split_c "/" s) [start_marker]).
  assert (Hfound : forall x, In x found <->
            exists choice, choice_ok (split_c "/" s) choice /\ x = start_marker ++ "/" ++ join "/" choice).
  { intros x. unfold found. rewrite expand_fold_In. split.
    - intros (base & choice & [<-|[]] & Hc & ->). exists choice. split; [exact Hc|].
      destruct choice as [|a l]; [|apply path_of_join].
      inversion Hc as [E|]. exfalso. symmetry in E. exact (split_c_not_nil _ _ E).
    - intros (choice & Hc & ->). exists start_marker, choice. split; [left; reflexivity|]. split; [exact Hc|].
      destruct choice as [|a l]; [|symmetry; apply path_of_join].
      inversion Hc as [E|]. exfalso. symmetry in E. exact (split_c_not_nil _ _ E). }
  change (start_marker ++ sip) with marker_sip.
  rewrite (final_pass (replace marker_sip "") found []).
  - cbn [app]. rewrite in_map_iff. split.
    + intros (x & <- & Hx). apply Hfound in Hx. destruct Hx as (choice & Hc & ->).
      exists choice. split; [exact Hc|]. apply replace_marker. apply Hguard. exact Hc.
    + intros (choice & Hc & ->). exists (start_marker ++ "/" ++ join "/" choice). split.
      * apply replace_marker. apply Hguard. exact Hc.
      * apply Hfound. exists choice. split; [exact Hc | reflexivity].
  - intros x Hx. cbn [app]. intros Hin. apply in_map_iff in Hin. destruct Hin as (y & Hy & Hyin).
    apply Hfound in Hx. destruct Hx as (cx & Hcx & ->).
    apply Hfound in Hyin. destruct Hyin as (cy & Hcy & ->).
    rewrite (replace_marker _ (Hguard cy Hcy)) in Hy.
    pose proof (Hguard cy Hcy) as Hn. rewrite Hy in Hn.
    assert (Ht : contains marker_sip (start_marker ++ "/" ++ join "/" cx) = true)
      by (apply startswith_contains; reflexivity).
    congruence.
Qed.

(* a simple sufficient condition for the guard *)
Lemma contains_first_char a m : forall t, mem_c a t = false -> contains (String a m) t = false.
Proof.
  induction t as [|b t IH]; intros H; [reflexivity|].
  cbn [mem_c] in H. apply orb_false_iff in H. destruct H as (Hb & Ht).
  cbn [contains startswith]. rewrite Ascii.eqb_sym, Hb. cbn [andb orb]. apply IH. exact Ht.
Qed.

Lemma no_marker_dash s : mem_c "-" s = false -> no_marker s.
Proof.
  intros Hs choice Hc. apply (contains_first_char "-"). apply mem_c_join; [reflexivity|].
  pose proof (mem_c_split "-" "/" s Hs) as Hparts. unfold choice_ok in Hc.
  induction Hc as [|part alt parts choice Ha Hc IH]; [constructor|].
  inversion Hparts as [|? ? Hp Hparts']; subst. constructor; [|apply IH; exact Hparts'].
  pose proof (alts_nomem "-" part Hp) as Hall. rewrite Forall_forall in Hall. apply Hall. exact Ha.
Qed.

(** ** the guard of U5 follows from: [s] does not contain the marker "--start--" *)

Lemma contains_cons M a t : contains M t = true -> contains M (String a t) = true.
Proof. intros H. cbn [contains]. rewrite H. apply orb_true_r. Qed.

Lemma contains_app_l M pre t : contains M t = true -> contains M (pre ++ t) = true.
Proof. intros H. induction pre as [|a pre IH]; [exact H|]. simpl append. apply contains_cons. exact IH. Qed.

Lemma startswith_app M : forall t post, startswith M t = true -> startswith M (t ++ post) = true.
Proof.
  induction M as [|m M IH]; intros t post H; [reflexivity|].
  destruct t as [|b t]; [discriminate|]. cbn [startswith append] in *.
  apply andb_true_iff in H. destruct H as (H1 & H2). rewrite H1. cbn [andb]. apply IH. exact H2.
Qed.

Lemma contains_app_r M post : forall t, contains M t = true -> contains M (t ++ post) = true.
Proof.
  induction t as [|a t IH]; intros H.
  - cbn [contains] in H. rewrite orb_false_r in H. destruct M; [|discriminate].
    destruct post; reflexivity.
  - cbn [contains] in H. apply orb_true_iff in H. destruct H as [H|H].
    + apply startswith_contains. apply (startswith_app _ _ post H).
    + simpl append. apply contains_cons. apply IH. exact H.
Qed.

Lemma startswith_prefix M N : forall t, startswith (M ++ N) t = true -> startswith M t = true.
Proof.
  induction M as [|m M IH]; intros t H; [reflexivity|].
  destruct t as [|b t]; [discriminate|]. cbn [startswith append] in *.
  apply andb_true_iff in H. destruct H as (H1 & H2). rewrite H1. cbn [andb]. apply IH. exact H2.
Qed.

Lemma contains_prefix M N : forall t, contains (M ++ N) t = true -> contains M t = true.
Proof.
  induction t as [|a t IH]; intros H; cbn [contains] in *.
  - rewrite orb_false_r in *. apply (startswith_prefix _ _ _ H).
  - apply orb_true_iff in H. destruct H as [H|H].
    + rewrite (startswith_prefix _ _ _ H). reflexivity.
    + rewrite (IH H). apply orb_true_r.
Qed.

Lemma startswith_sepfree c M rest : mem_c c M = false ->
  forall x, startswith M (x ++ String c rest) = true -> startswith M x = true.
Proof.
  induction M as [|m M IH]; intros Hm x H; [reflexivity|].
  cbn [mem_c] in Hm. apply orb_false_iff in Hm. destruct Hm as (Hm1 & Hm2).
  destruct x as [|b x]; cbn [startswith append] in *.
  - rewrite Hm1 in H. discriminate.
  - apply andb_true_iff in H. destruct H as (H1 & H2). rewrite H1. cbn [andb]. apply (IH Hm2 x H2).
Qed.

Lemma contains_sep_split c m M rest : mem_c c (String m M) = false ->
  forall x, contains (String m M) (x ++ String c rest) = true ->
  contains (String m M) x = true \/ contains (String m M) rest = true.
Proof.
  intros Hm. induction x as [|a x IH]; intros H.
  - cbn [append contains] in H. apply orb_true_iff in H. destruct H as [H|H]; [|right; exact H].
    cbn [startswith] in H. cbn [mem_c] in Hm. apply orb_false_iff in Hm. destruct Hm as (Hm1 & _).
    rewrite Hm1 in H. discriminate.
  - simpl append in H. cbn [contains] in H. apply orb_true_iff in H. destruct H as [H|H].
    + left. apply startswith_contains. apply (startswith_sepfree c _ rest Hm (String a x)). exact H.
    + destruct (IH H) as [H1|H1]; [left; apply contains_cons; exact H1 | right; exact H1].
Qed.

Lemma contains_join c m M : mem_c c (String m M) = false ->
  forall l, contains (String m M) (join (str1 c) l) = true -> exists x, In x l /\ contains (String m M) x = true.
Proof.
  intros Hm. induction l as [|x l IH]; intros H; [discriminate|].
  destruct l as [|y l].
  - exists x. split; [left; reflexivity | exact H].
  - rewrite join_cons2 in H. unfold str1 at 1 in H. cbn [append] in H.
    destruct (contains_sep_split c m M _ Hm x H) as [H1|H1].
    + exists x. split; [left; reflexivity | exact H1].
    + destruct (IH H1) as (z & Hz & Hc). exists z. split; [right; exact Hz | exact Hc].
Qed.

Lemma join_In_decomp sep p : forall l, In p l -> exists pre post, join sep l = pre ++ p ++ post.
Proof.
  induction l as [|x l IH]; intros H; [destruct H|].
  destruct l as [|y l].
  - destruct H as [<-|[]]. exists "", "". simpl. rewrite app_nil_r_s. reflexivity.
  - rewrite join_cons2. destruct H as [<-|H].
    + exists "", (sep ++ join sep (y :: l)). reflexivity.
    + destruct (IH H) as (pre & post & E). rewrite E. exists (x ++ sep ++ pre), post.
      rewrite !app_assoc_s. reflexivity.
Qed.

Lemma contains_middle M pre p post : contains M p = true -> contains M (pre ++ p ++ post) = true.
Proof. intros H. apply contains_app_l. apply contains_app_r. exact H. Qed.

Lemma contains_split_piece M c s p : In p (split_c c s) -> contains M p = true -> contains M s = true.
Proof.
  intros Hin H. destruct (join_In_decomp (str1 c) p _ Hin) as (pre & post & E).
  rewrite join_split_c in E. rewrite E. apply contains_middle. exact H.
Qed.

Lemma lstrip_suffix s : exists pre, s = pre ++ lstrip s.
Proof.
  induction s as [|a s IH]; [exists ""; reflexivity|]. simpl. destruct (is_space a).
  - destruct IH as (pre & E). exists (String a pre). simpl. rewrite <- E. reflexivity.
  - exists "". reflexivity.
Qed.

Lemma rev_s_aux_app s : forall acc, rev_s_aux s acc = rev_s s ++ acc.
Proof.
  unfold rev_s. induction s as [|a s IH]; intros acc; [reflexivity|]. cbn [rev_s_aux].
  rewrite (IH (String a acc)), (IH (String a "")). rewrite app_assoc_s. reflexivity.
Qed.

Lemma rev_s_cons a s : rev_s (String a s) = rev_s s ++ String a "".
Proof. unfold rev_s at 1. cbn [rev_s_aux]. apply rev_s_aux_app. Qed.

Lemma rev_s_app a b : rev_s (a ++ b) = rev_s b ++ rev_s a.
Proof.
  induction a as [|x a IH]; [simpl; rewrite app_nil_r_s; reflexivity|].
  simpl append. rewrite !rev_s_cons, IH, app_assoc_s. reflexivity.
Qed.

Lemma rev_s_invol s : rev_s (rev_s s) = s.
Proof. induction s as [|a s IH]; [reflexivity|]. rewrite rev_s_cons, rev_s_app, IH. reflexivity. Qed.

Lemma strip_decomp y : exists pre post, y = pre ++ strip y ++ post.
Proof.
  destruct (lstrip_suffix y) as (pre0 & E0). unfold strip.
  destruct (lstrip_suffix (rev_s (lstrip y))) as (pre1 & E1).
  exists pre0, (rev_s pre1). rewrite <- rev_s_app, <- E1, rev_s_invol. exact E0.
Qed.

Lemma contains_alt M part alt : In alt (alts part) -> contains M alt = true -> contains M part = true.
Proof.
  unfold alts. destruct (contains ors part).
  - intros Hin H. apply in_map_iff in Hin. destruct Hin as (p & <- & Hp).
    apply (contains_split_piece M "," part p Hp).
    destruct (strip_decomp p) as (pre & post & E). rewrite E. apply contains_middle. exact H.
  - intros [<-|[]] H. exact H.
Qed.

Lemma Forall2_In_r {A B} (R : A -> B -> Prop) l1 l2 y : Forall2 R l1 l2 -> In y l2 ->
  exists x, In x l1 /\ R x y.
Proof.
  induction 1 as [|x y' l1 l2 Hxy H IH]; intros Hin; [destruct Hin|].
  destruct Hin as [<-|Hin].
  - exists x. split; [left; reflexivity | exact Hxy].
  - destruct (IH Hin) as (x0 & Hx0 & HR). exists x0. split; [right; exact Hx0 | exact HR].
Qed.

(* the guard in the form of the brief *)
Lemma no_marker_contains s : contains start_marker s = false -> no_marker s.
Proof.
  intros Hs choice Hc. destruct (contains marker_sip (join "/" choice)) eqn:E; [|reflexivity]. exfalso.
  unfold marker_sip in E. apply contains_prefix in E.
  destruct (contains_join "/" "-" "-start--" eq_refl choice E) as (alt & Halt & Hca).
  destruct (Forall2_In_r _ _ _ _ Hc Halt) as (part & Hpart & Hin).
  pose proof (contains_alt _ _ _ Hin Hca) as Hcp.
  pose proof (contains_split_piece _ _ _ _ Hpart Hcp) as Hcs. unfold start_marker in Hs. congruence.
Qed.

(** U5 with the guard "s does not contain the marker" *)
Corollary or_on_path_product' s : contains start_marker s = false ->
  forall r, In r (or_on_path s) <->
    exists choice,
      Forall2 (fun part alt => In alt (if contains ors part then map strip (split_c "," part) else [part]))
              (split_c "/" s) choice /\
      r = join "/" choice.
Proof. intros H. apply or_on_path_product. apply no_marker_contains. exact H. Qed.
