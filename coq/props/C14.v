(** C14 — Sids are immutable values.  Property theorems only. *)
From Coq Require Import List String Bool Arith.
From Spil Require Import Base.Str Base.Dict Sid.Sid Cache.Heap Cache.OrderProofs.
Import ListNotations.

(* equal exactly when the uris are equal; equal Sids hash equally (hash is a function of repr) *)
Theorem C14_eq_uri : forall x y, sid_eqb x y = true <-> uri x = uri y.
Proof. intros x y. unfold sid_eqb. apply String.eqb_eq. Qed.
Print Assumptions C14_eq_uri.

Theorem C14_hash : forall x y, sid_eqb x y = true -> repr x = repr y.
Proof. intros x y H. apply String.eqb_eq in H. unfold repr. rewrite H. reflexivity. Qed.
Print Assumptions C14_hash.

Theorem C14_eq_str : forall x s, sid_eq_str x s = true <-> s_string x = s.
Proof. intros x s. unfold sid_eq_str. apply String.eqb_eq. Qed.
Print Assumptions C14_eq_str.

(* sorting uses __lt__ = comparison of the strings: a strict total order *)
Theorem C14_order : (forall x, sid_ltb x x = false)
  /\ (forall x y z, sid_ltb x y = true -> sid_ltb y z = true -> sid_ltb x z = true)
  /\ (forall x y, sid_ltb x y = false -> sid_ltb y x = false -> s_string x = s_string y).
Proof.
  unfold sid_ltb. repeat split.
  - intros x. apply str_ltb_irrefl.
  - intros x y z. apply str_ltb_trans.
  - intros x y. apply str_ltb_total.
Qed.
Print Assumptions C14_order.

(* frame: no sequence of public operations (new Sids sharing the dictionary, copies handed out, the caller
   mutating every container it holds) changes the fields an existing Sid refers to *)
Theorem C14_frame : forall ops w s ty l, WInv w -> In (s, ty, l) (w_sids w) ->
  hget (w_heap (fold_left hstep ops w)) l = hget (w_heap w) l.
Proof. exact frame. Qed.
Print Assumptions C14_frame.

Theorem C14_fields_private : forall w i, WInv w ->
  forall l, In l (w_user (hstep w (HFields i))) -> forall s ty l', In (s, ty, l') (w_sids (hstep w (HFields i))) -> l <> l'.
Proof. exact fields_private. Qed.
Print Assumptions C14_fields_private.

(* non-vacuity: a reachable world with a Sid, a copy, a mutation of the copy *)
Example C14_example :
  let w := fold_left hstep [HNewFresh "hamlet" "project" [("project", "hamlet")]; HFields 0; HMutate 1 "project" "zzz"]%string init_world in
  hget (w_heap w) 0 = Some [("project", "hamlet")]%string /\ hget (w_heap w) 1 = Some [("project", "zzz")]%string.
Proof. vm_compute. split; reflexivity. Qed.
Print Assumptions C14_example.
