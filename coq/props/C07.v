(** C07 — a search expression unfolds to exactly the typed searches its syntax denotes.  Property theorems only.
    Proved for all configurations / all search strings: the structural clauses (every result typed with no unapplied query,
    no duplicates, sorted, the only error is SpilException [or Unmodelled = outside the modelled urllib fragment]) and the
    distribution of "," alternatives in the path part as a cartesian product; and, for every configuration that passes the
    decidable guards [wf_loadedb] and [unfold_conf_okb] (aliases have members that are plain tokens, no typed narrowing),
    the full denotation of Search/UnfoldSpec.v: the result of [unfold_search] is exactly
        { x | b in bodies s, y typed search denoted by b ("/**" = n levels "/*" up to a leaf type), x = y narrowed }
    for a query-free search, and the same with one url-safe query per choice of "," alternatives / alias members applied
    through the C04 table before narrowing for a search with a trailing query k1=v1&..&kn=vn; together with the exact
    error condition (SpilException iff some body has several "/**" or one "/**" on a root without type or leaf key).
    What stays outside the theorems (partial): queries outside the url-safe fragment (percent escapes, ";" "+" blank
    values: the oracle tools/props/c07.py states their denotation and is compared with the implementation on every run),
    search strings containing "?" in the body, ":" (uri form), newline or the internal start marker, and
    configurations with typed narrowing. *)
From Coq Require Import List String Ascii Bool Arith Permutation Sorted.
From Spil Require Import Base.Str Base.Dict Base.Outcome Regex.Re Conf.Conf Conf.WF Sid.Sid
  Search.Unfold Search.FindList Search.GlobProofs Search.FindListProofs Search.UnfoldProofs
  Search.UnfoldSpec Search.DenoteTable Search.DenoteProofs.
From SpilGen Require Hamlet.
Import ListNotations.
Local Open Scope string_scope.

Theorem C07_typed_clean : forall Ld s u e l, unfold_search Ld s u e = Ok l ->
  Forall (fun x => sid_bool x = true /\ count "?" (s_string x) = 0) l.
Proof. exact unfold_typed_clean. Qed.
Print Assumptions C07_typed_clean.

Theorem C07_nodup : forall Ld s u e l, unfold_search Ld s u e = Ok l -> NoDup (map uri l).
Proof. exact unfold_uri_nodup. Qed.
Print Assumptions C07_nodup.

Theorem C07_sorted : forall Ld s u e l, unfold_search Ld s u e = Ok l -> StronglySorted sid_key_le l.
Proof. exact unfold_sorted. Qed.
Print Assumptions C07_sorted.

Theorem C07_errors : forall c Ld, load c = Some Ld -> wf_loadedb Ld = true ->
  forall s u e ex, unfold_search Ld s u e = Raise ex -> ex = SpilException \/ ex = Unmodelled.
Proof. exact unfold_errors. Qed.
Print Assumptions C07_errors.

(* every "," alternative in a segment is distributed: or_on_path is the cartesian product of the alternatives *)
Theorem C07_comma_product : forall s, contains start_marker s = false ->
  forall r, In r (or_on_path s) <->
    exists choice, Forall2 (fun part alt => In alt (if contains ors part then map strip (split_c "," part) else [part]))
                           (split_c "/" s) choice /\ r = join "/" choice.
Proof. exact or_on_path_product'. Qed.
Print Assumptions C07_comma_product.

Example C07_instance :
  match unfold_search Hamlet.the_loaded "hamlet/a,s/*" false false with
  | Ok l => map uri l
  | Raise _ => []
  end = ["asset__assettype:hamlet/a/*"; "shot__sequence:hamlet/s/*"].
Proof. vm_compute. reflexivity. Qed.
Print Assumptions C07_instance.

(** ** The denotation (Search/UnfoldSpec.v), for every configuration passing the guards *)

(* query-free search: exactly the narrowed typed searches of its bodies *)
Theorem C07_denotation : forall c Ld, load c = Some Ld -> wf_loadedb Ld = true -> unfold_conf_okb Ld = true ->
  forall s l, search_ok s = true -> unfold_search Ld s false false = Ok l ->
  forall x, In x l <-> exists b y, In b (bodies Ld s) /\ typed_of Ld b y /\ narrowed Ld y x.
Proof. exact unfold_noquery_spec. Qed.
Print Assumptions C07_denotation.

(* ... and exactly when it is an error *)
Theorem C07_denotation_errors : forall c Ld, load c = Some Ld -> wf_loadedb Ld = true -> unfold_conf_okb Ld = true ->
  forall s, search_ok s = true ->
  ((exists b, In b (bodies Ld s) /\ body_error Ld b) -> unfold_search Ld s false false = Raise SpilException) /\
  ((forall b, In b (bodies Ld s) -> ~ body_error Ld b) -> narrowing_readable Ld = true ->
   exists l, unfold_search Ld s false false = Ok l).
Proof. exact unfold_noquery_errors. Qed.
Print Assumptions C07_denotation_errors.

(* the same with narrowing read declaratively (the C04 table on the fields; no apply_query in the statement) *)
Theorem C07_denotation_decl : forall c Ld, load c = Some Ld -> wf_loadedb Ld = true -> unfold_conf_okb Ld = true ->
  forall s l, search_ok s = true -> narrowing_simple Ld = true -> unfold_search Ld s false false = Ok l ->
  forall x, In x l <-> exists b y, In b (bodies Ld s) /\ typed_of Ld b y /\ narrowed_decl Ld y x.
Proof. exact unfold_noquery_decl. Qed.
Print Assumptions C07_denotation_decl.

(* trailing url-safe query: every choice of value alternatives / alias members, applied, then narrowed *)
Theorem C07_query_denotation : forall c Ld, load c = Some Ld -> wf_loadedb Ld = true -> unfold_conf_okb Ld = true ->
  forall body qd l, search_ok body = true -> query_okb qd = true -> ~ In "" (bodies Ld body) ->
  unfold_search Ld (body ++ "?" ++ query_str qd) false false = Ok l ->
  forall x, In x l <->
    exists b u y x1, In b (bodies Ld body) /\ In u (queries Ld qd) /\ typed_of Ld b y /\
                     query_applied Ld u y x1 /\ narrowed Ld x1 x.
Proof. exact unfold_query_spec. Qed.
Print Assumptions C07_query_denotation.

Theorem C07_query_errors : forall c Ld, load c = Some Ld -> wf_loadedb Ld = true -> unfold_conf_okb Ld = true ->
  forall body qd, search_ok body = true -> query_okb qd = true -> ~ In "" (bodies Ld body) ->
  ((exists b, In b (bodies Ld body) /\ body_error Ld b) ->
   unfold_search Ld (body ++ "?" ++ query_str qd) false false = Raise SpilException) /\
  ((forall b, In b (bodies Ld body) -> ~ body_error Ld b) -> narrowing_readable Ld = true ->
   exists l, unfold_search Ld (body ++ "?" ++ query_str qd) false false = Ok l).
Proof. exact unfold_query_errors. Qed.
Print Assumptions C07_query_errors.

Theorem C07_query_denotation_decl : forall c Ld, load c = Some Ld -> wf_loadedb Ld = true -> unfold_conf_okb Ld = true ->
  forall body qd l, search_ok body = true -> query_okb qd = true -> ~ In "" (bodies Ld body) ->
  narrowing_simple Ld = true ->
  unfold_search Ld (body ++ "?" ++ query_str qd) false false = Ok l ->
  forall x, In x l <->
    exists b ud y x1, In b (bodies Ld body) /\ In ud (query_dicts Ld qd) /\ typed_of Ld b y /\
                      table_applied Ld ud y x1 /\ narrowed_decl Ld x1 x.
Proof. exact unfold_query_decl. Qed.
Print Assumptions C07_query_denotation_decl.

(* a search with at least two segments has no empty body (the guard of the query theorems) *)
Theorem C07_bodies_nonempty : forall Ld body, mem_c "/" body = true -> ~ In "" (bodies Ld body).
Proof. exact bodies_nonempty. Qed.
Print Assumptions C07_bodies_nonempty.

(* the configuration of this run passes every guard of the theorems above *)
Example C07_guards_hold :
  unfold_conf_okb Hamlet.the_loaded = true /\ narrowing_readable Hamlet.the_loaded = true
  /\ narrowing_simple Hamlet.the_loaded = true.
Proof. vm_compute. auto. Qed.
Print Assumptions C07_guards_hold.

(* non-vacuity: searches with aliases, "**" and a query satisfy the guards *)
Example C07_guards_inputs :
  search_ok "hamlet/a,s/**/movie" = true /\ query_okb [("task", "rig,~x"); ("ext", "movie")] = true.
Proof. vm_compute. auto. Qed.
Print Assumptions C07_guards_inputs.
