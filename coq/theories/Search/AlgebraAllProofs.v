(** C10 / C11 for the third finder, FindInAll ([find_all Ld Rt F s] of Search/Finders.v), over a tree, when
    the routing table sends every typed search of the unfolding to the path finder [FPaths id cfg]:

    1. [find_all_routed*]: FindInAll.find(s) is the first-occurrence de-duplication of FindInPaths.find(s)
       (same exception, same set; the same LIST whenever the path finder's answer has no duplicates: ">" searches,
       or good searches over a data set);
    2. [find_all_denotes*]: over a data set, FindInAll.find(s) = { e in strings(E) | matched Ld s e }, no duplicates;
    3. the five rules of the search algebra for FindInAll ([all_comma_rule], [all_alias_rule], [all_dstar_rule],
       [all_filter_rule], [all_literal_rule]);
    4. [find_all_eq_find_paths_eq_find_list]: the three finders return the same set.

    FindInAll ALWAYS unfolds; FindInPaths.find first tries the Sid itself ([find_searches]).  Wherever the two are
    compared, the hypothesis [same_searches Ld s] (or "both are given the list qs") says that they look at the same
    typed searches; the characterisation (2) and the rules (3) are stated with the guard [all_guard] on the UNFOLDING
    and need neither [same_searches] nor [shortcut_okb]. *)
From Coq Require Import List String Ascii Bool Arith Lia Permutation.
From Spil Require Import Base.Str Base.Dict Base.Outcome Base.StrProofs Base.SplitProofs Base.PyPath
  Regex.Re Regex.MatchProofs Resolva.Template Resolva.Resolver Conf.ConfUtil Conf.Conf Conf.WF Conf.Routing
  Sid.Query Sid.Sid Sid.TypingSpec Sid.TypingProofs Sid.SidLemmas Sid.SidProofs Sid.QueryStringProofs Sid.QueryProofs
  Path.PathProofs Path.UnambiguousDefs Path.UnambiguousProofs FS.Fs
  Search.Unfold Search.FindList Search.SortLemmas Search.UnfoldProofs Search.GlobProofs Search.FindListProofs
  Search.UnfoldSpec Search.DenoteLemmas Search.DenoteQuery Search.DenoteTable Search.DenoteProofs
  Search.Finders Search.FindersProofs Search.TreeListDefs Search.TreeGlob Search.TreePattern Search.TreeListProofs
  Data.Data Data.VersionOrderProofs Data.DataSpecProofs Data.SidLevelDefs Data.SidLevelProofs
  Search.LastAgreeProofs Search.AlgebraDefs Search.AlgebraProofs Search.AlgebraTreeDefs Search.AlgebraTreeProofs
  Search.AlgebraAllDefs.
Import ListNotations.
Local Open Scope string_scope.

(** * 0. The guards *)

Lemma all_routedb_sound Ld Rt id cfg s : all_routedb Ld Rt id cfg s = true -> all_routed Ld Rt id cfg s.
Proof.
  unfold all_routedb, all_routed. intros H qs Hqs. rewrite Hqs in H. exact (routed_tob_sound Rt id cfg qs H).
Qed.

Lemma all_guardb_sound Ld Rt id cfg E s : all_guardb Ld Rt id cfg E s = true -> all_guard Ld Rt id cfg E s.
Proof.
  unfold all_guardb, all_guard. intros H qs Hqs. rewrite Hqs in H.
  apply andb_true_iff in H. destruct H as (H & H4). apply andb_true_iff in H. destruct H as (H & H3).
  apply andb_true_iff in H. destruct H as (H1 & H2).
  split; [exact (routed_tob_sound Rt id cfg qs H1)|]. split; [exact (searches_okb_sound Ld cfg qs H2)|].
  split; [exact (pat_injb_sound Ld cfg qs H3) | exact (types_coveredb_sound E qs H4)].
Qed.

Lemma all_guard0b_sound Ld Rt id cfg s : all_guard0b Ld Rt id cfg s = true -> all_guard0 Ld Rt id cfg s.
Proof.
  unfold all_guard0b, all_guard0. intros H qs Hqs. rewrite Hqs in H.
  apply andb_true_iff in H. destruct H as (H & H3). apply andb_true_iff in H. destruct H as (H1 & H2).
  split; [exact (routed_tob_sound Rt id cfg qs H1)|]. split; [exact (searches_okb_sound Ld cfg qs H2)|].
  exact (pat_injb_sound Ld cfg qs H3).
Qed.

Lemma all_guard_guard0 Ld Rt id cfg E s : all_guard Ld Rt id cfg E s -> all_guard0 Ld Rt id cfg s.
Proof. intros H qs Hqs. destruct (H qs Hqs) as (H1 & H2 & H3 & _). auto. Qed.

Lemma all_guard_routed Ld Rt id cfg E s : all_guard Ld Rt id cfg E s -> all_routed Ld Rt id cfg s.
Proof. intros H qs Hqs. destruct (H qs Hqs) as (H1 & _). exact H1. Qed.

(* when the shortcut is not taken (and the Sid factory accepts the string), [Finder.find] unfolds *)
Lemma same_searches_unfolded Ld s x : shortcut Ld s = false -> Sid Ld s = Ok x -> same_searches Ld s.
Proof.
  unfold same_searches, find_searches. rewrite shortcut_direct. intros Hsc Hx. rewrite Hx in Hsc |- *.
  cbn [bind]. rewrite Hsc. reflexivity.
Qed.

(* ... and in any case when both are known to be given the list qs *)
Lemma same_searches_both Ld s qs :
  unfold_search Ld s false false = Ok qs -> find_searches Ld s = Ok qs -> same_searches Ld s.
Proof. unfold same_searches. intros -> ->. reflexivity. Qed.

(* the guard of the tree finder and the guard of FindInAll, when both look at the same searches *)
Lemma tree_guard_all_guard Ld Rt id cfg E s :
  same_searches Ld s -> all_routed Ld Rt id cfg s -> tree_guard Ld cfg E s -> all_guard Ld Rt id cfg E s.
Proof.
  intros Hss Hr Hg qs Hu. split; [exact (Hr qs Hu)|]. unfold same_searches in Hss.
  rewrite <- Hss in Hu. exact (Hg qs Hu).
Qed.

Lemma all_guard_tree_guard Ld Rt id cfg E s :
  same_searches Ld s -> all_guard Ld Rt id cfg E s -> tree_guard Ld cfg E s.
Proof.
  intros Hss Hg qs Hfs. unfold same_searches in Hss. rewrite Hss in Hfs.
  destruct (Hg qs Hfs) as (_ & H). exact H.
Qed.

(** * 1. FindInAll when every typed search is routed to the path finder *)

Lemma fstar_paths Ld F id cfg qs :
  do_find_g Ld (fstar Ld F (FPaths id cfg)) qs = do_find_g Ld (paths_star Ld F cfg) qs.
Proof. reflexivity. Qed.

(* one group, one [do_find] of the path finder, then the de-duplication of FindInAll *)
Lemma find_all_routed_do_find Ld Rt F id cfg s qs :
  unfold_search Ld s false false = Ok qs -> routed_to Rt (FPaths id cfg) qs ->
  find_all Ld Rt F s = do r <- do_find_g Ld (paths_star Ld F cfg) qs; Ok (dedup_first r).
Proof.
  intros Hu Hr. unfold find_all. rewrite Hu. cbn [bind]. rewrite (group_by_finder_same Rt _ qs Hr).
  destruct qs as [|q qs'].
  - reflexivity.
  - cbn [concat_mapM fst snd]. rewrite fstar_paths.
    destruct (do_find_g Ld (paths_star Ld F cfg) (q :: qs')) as [r|e]; cbn [bind]; [|reflexivity].
    rewrite app_nil_r. reflexivity.
Qed.

Lemma same_outcome_dedup (o : outcome (list string)) : same_outcome (do r <- o; Ok (dedup_first r)) o.
Proof.
  destruct o as [l|e]; cbn [bind same_outcome]; [|reflexivity].
  split; [reflexivity|]. split; [intros e; apply dedup_first_In | intros H; apply dedup_first_id; exact H].
Qed.

(** (1), general form: FindInAll unfolds to qs, [Finder.find] of the path finder is given qs' (the Sid itself when
    it takes the shortcut); if [do_find] of the path finder answers the same on both lists, FindInAll.find(s) is the
    de-duplication of FindInPaths.find(s) *)
Theorem find_all_routed_gen Ld Rt F id cfg s qs qs' :
  unfold_search Ld s false false = Ok qs -> find_searches Ld s = Ok qs' ->
  routed_to Rt (FPaths id cfg) qs ->
  do_find_g Ld (paths_star Ld F cfg) qs = do_find_g Ld (paths_star Ld F cfg) qs' ->
  find_all Ld Rt F s = do r <- ffind Ld F (FPaths id cfg) s; Ok (dedup_first r).
Proof.
  intros Hu Hfs Hr Heq. rewrite (find_all_routed_do_find Ld Rt F id cfg s qs Hu Hr).
  unfold ffind. rewrite find_g_via_searches, Hfs. cbn [bind]. rewrite fstar_paths, Heq. reflexivity.
Qed.

(** (1), the equation: both look at the same searches ([same_searches]: in particular whenever the shortcut is
    not taken), every typed search routed to the path finder.  Covers the failure of the unfolding. *)
Theorem find_all_routed_eq Ld Rt F id cfg s :
  same_searches Ld s -> all_routed Ld Rt id cfg s ->
  find_all Ld Rt F s = do r <- ffind Ld F (FPaths id cfg) s; Ok (dedup_first r).
Proof.
  intros Hss Hr. unfold same_searches in Hss.
  destruct (unfold_search Ld s false false) as [qs|e] eqn:Hu.
  - apply (find_all_routed_gen Ld Rt F id cfg s qs qs Hu Hss (Hr qs Hu) eq_refl).
  - unfold find_all, ffind. rewrite find_g_via_searches, Hss, Hu. reflexivity.
Qed.

(** (1), in the form of the brief: the two succeed / fail alike (same exception) and return the same set; the
    FindInAll list is the de-duplicated FindInPaths list, hence the same list when that one has no duplicates *)
Theorem find_all_routed Ld Rt F id cfg s qs :
  unfold_search Ld s false false = Ok qs -> find_searches Ld s = Ok qs ->
  routed_tob Rt id cfg qs = true ->
  same_outcome (find_all Ld Rt F s) (ffind Ld F (FPaths id cfg) s).
Proof.
  intros Hu Hfs Hr.
  rewrite (find_all_routed_gen Ld Rt F id cfg s qs qs Hu Hfs (routed_tob_sound Rt id cfg qs Hr) eq_refl).
  apply same_outcome_dedup.
Qed.

Corollary find_all_routed_shortcut_free Ld Rt F id cfg s x :
  shortcut Ld s = false -> Sid Ld s = Ok x -> all_routed Ld Rt id cfg s ->
  same_outcome (find_all Ld Rt F s) (ffind Ld F (FPaths id cfg) s).
Proof.
  intros Hsc Hx Hr. rewrite (find_all_routed_eq Ld Rt F id cfg s (same_searches_unfolded Ld s x Hsc Hx) Hr).
  apply same_outcome_dedup.
Qed.

(* unpacked: the set *)
Corollary find_all_routed_set Ld Rt F id cfg s qs l l' :
  unfold_search Ld s false false = Ok qs -> find_searches Ld s = Ok qs ->
  routed_tob Rt id cfg qs = true ->
  find_all Ld Rt F s = Ok l -> ffind Ld F (FPaths id cfg) s = Ok l' ->
  l = dedup_first l' /\ forall e, In e l <-> In e l'.
Proof.
  intros Hu Hfs Hr H H'. pose proof (find_all_routed Ld Rt F id cfg s qs Hu Hfs Hr) as Hso.
  rewrite H, H' in Hso. destruct Hso as (H1 & H2 & _). auto.
Qed.

(* unpacked: success and failure *)
Corollary find_all_routed_ok Ld Rt F id cfg s qs :
  unfold_search Ld s false false = Ok qs -> find_searches Ld s = Ok qs ->
  routed_tob Rt id cfg qs = true ->
  (forall l', ffind Ld F (FPaths id cfg) s = Ok l' -> find_all Ld Rt F s = Ok (dedup_first l')) /\
  (forall l, find_all Ld Rt F s = Ok l -> exists l', ffind Ld F (FPaths id cfg) s = Ok l' /\ l = dedup_first l') /\
  (forall e, find_all Ld Rt F s = Raise e <-> ffind Ld F (FPaths id cfg) s = Raise e).
Proof.
  intros Hu Hfs Hr.
  rewrite (find_all_routed_gen Ld Rt F id cfg s qs qs Hu Hfs (routed_tob_sound Rt id cfg qs Hr) eq_refl).
  destruct (ffind Ld F (FPaths id cfg) s) as [r|ex]; cbn [bind].
  - split; [intros l' H; inversion H; reflexivity|]. split.
    + intros l H. inversion H. exists r. auto.
    + intros e. split; discriminate.
  - split; [discriminate|]. split; [discriminate|]. intros e. tauto.
Qed.

(** the same LIST, (a): a ">" search (the sorted search never returns duplicates; no data set needed) *)
Theorem find_all_routed_last Ld Rt F id cfg s qs :
  unfold_search Ld s false false = Ok qs -> find_searches Ld s = Ok qs ->
  routed_tob Rt id cfg qs = true -> existsb has_gt qs = true ->
  find_all Ld Rt F s = ffind Ld F (FPaths id cfg) s.
Proof.
  intros Hu Hfs Hr Hgt.
  rewrite (find_all_routed_gen Ld Rt F id cfg s qs qs Hu Hfs (routed_tob_sound Rt id cfg qs Hr) eq_refl).
  unfold ffind. rewrite find_g_via_searches, Hfs. cbn [bind].
  destruct (do_find_g Ld (fstar Ld F (FPaths id cfg)) qs) as [r|e] eqn:Er; cbn [bind]; [|reflexivity].
  rewrite (do_find_g_sorted Ld _ qs Hgt) in Er. rewrite (dedup_first_id r (sorted_search_g_NoDup Ld _ qs r Er)).
  reflexivity.
Qed.

(** * 2. The characterisation of FindInAll over a data set *)

Section AllAlgebra.
Variables (c : Conf) (Ld : Loaded).
Hypothesis Hload : load c = Some Ld.
Hypothesis Hwf : wf_loadedb Ld = true.
Hypothesis Hconf : unfold_conf_okb Ld = true.
Hypothesis Hpu : paths_unambiguousb Ld = true.
Variable cfg : string.
Variable E : list sid.
Variable F : fs.
Hypothesis HD : dataset_ok Ld cfg E F.
Variable Rt : Routing.
Variable id : string.

Local Notation items := (map s_string E).
Local Notation fnd := (find_all Ld Rt F).
Local Notation G := (all_guard Ld Rt id cfg E).
Local Notation G0 := (all_guard0 Ld Rt id cfg).

(** the same LIST, (b): good searches over a data set (the path finder returns no duplicates) *)
Theorem find_all_routed_dataset s qs :
  unfold_search Ld s false false = Ok qs -> find_searches Ld s = Ok qs ->
  routed_tob Rt id cfg qs = true -> searches_ok Ld cfg qs ->
  find_all Ld Rt F s = ffind Ld F (FPaths id cfg) s.
Proof.
  intros Hu Hfs Hr Hqs.
  rewrite (find_all_routed_gen Ld Rt F id cfg s qs qs Hu Hfs (routed_tob_sound Rt id cfg qs Hr) eq_refl).
  unfold ffind. rewrite find_g_via_searches, Hfs. cbn [bind]. rewrite fstar_paths.
  destruct (do_find_g Ld (paths_star Ld F cfg) qs) as [r|e] eqn:Er; cbn [bind]; [|reflexivity].
  rewrite (dedup_first_id r (tree_do_find_NoDup c Ld Hload Hwf Hpu cfg E F HD qs r Hqs Er)). reflexivity.
Qed.

(* what FindInAll runs under the guard: [do_find] of the path finder on the unfolding (nothing to de-duplicate) *)
Lemma find_all_guarded s l : G0 s -> fnd s = Ok l ->
  exists qs, unfold_search Ld s false false = Ok qs /\ searches_ok Ld cfg qs /\ pat_inj Ld cfg qs /\
             do_find_g Ld (paths_star Ld F cfg) qs = Ok l.
Proof.
  intros Hg H. destruct (unfold_search Ld s false false) as [qs|e] eqn:Hu.
  2:{ unfold find_all in H. rewrite Hu in H. discriminate. }
  destruct (Hg qs Hu) as (Hr & Hqs & Hinj).
  rewrite (find_all_routed_do_find Ld Rt F id cfg s qs Hu Hr) in H.
  destruct (do_find_g Ld (paths_star Ld F cfg) qs) as [r|e] eqn:Er; cbn [bind] in H; [|discriminate].
  rewrite (dedup_first_id r (tree_do_find_NoDup c Ld Hload Hwf Hpu cfg E F HD qs r Hqs Er)) in H.
  inversion H; subst l. exists qs. auto.
Qed.

(** Rule 0 for FindInAll.  Neither [shortcut_okb] nor [nosort] is asked: FindInAll always unfolds, and
    [searches_ok] excludes ">" *)
Theorem find_all_result s l :
  search_ok s = true -> G s -> fnd s = Ok l ->
  forall e, In e l <-> In e items /\ matched Ld s e.
Proof.
  intros Hs Hg H. destruct (find_all_guarded s l (all_guard_guard0 _ _ _ _ _ _ Hg) H) as (qs & Hu & Hqs & Hinj & Hf).
  destruct (Hg qs Hu) as (_ & _ & _ & Hcov).
  pose proof (tree_do_find c Ld Hload Hwf Hpu cfg E F HD qs l Hqs Hinj Hcov Hf) as Hin.
  pose proof (unfold_noquery_spec c Ld Hload Hwf Hconf s qs Hs Hu) as Hspec.
  intros e. rewrite Hin. split; intros (Hi & q & Hq & Hgl); (split; [exact Hi|]); exists q;
    (split; [apply Hspec; exact Hq | exact Hgl]).
Qed.

(* FindInAll de-duplicates: no hypothesis at all *)
Lemma all_nd s l : fnd s = Ok l -> NoDup l.
Proof. exact (find_all_nodup Ld Rt F s l). Qed.

(** (2), with the guard on the unfolding *)
Theorem find_all_denotes_unf s l :
  search_ok s = true -> G s -> fnd s = Ok l ->
  NoDup l /\ forall e, In e l <-> In e items /\ matched Ld s e.
Proof. intros Hs Hg H. split; [exact (all_nd s l H) | exact (find_all_result s l Hs Hg H)]. Qed.

(** (2), in the form of the brief: the guard of [find_paths_denotes] ([tree_guard], on what [Finder.find] of the
    path finder globs), the routing hypothesis, and [same_searches] (FindInAll looks at the same list).
    [shortcut_okb] of [find_paths_denotes] is NOT needed. *)
Theorem find_all_denotes s l :
  search_ok s = true -> tree_guard Ld cfg E s ->
  all_routed Ld Rt id cfg s -> same_searches Ld s ->
  fnd s = Ok l ->
  NoDup l /\ forall e, In e l <-> In e items /\ matched Ld s e.
Proof.
  intros Hs Hg Hr Hss H.
  exact (find_all_denotes_unf s l Hs (tree_guard_all_guard Ld Rt id cfg E s Hss Hr Hg) H).
Qed.

(* ... decidable routing hypothesis, shortcut not taken *)
Corollary find_all_denotes_b s x l :
  search_ok s = true -> tree_guard Ld cfg E s ->
  all_routedb Ld Rt id cfg s = true -> shortcut Ld s = false -> Sid Ld s = Ok x ->
  fnd s = Ok l ->
  NoDup l /\ forall e, In e l <-> In e items /\ matched Ld s e.
Proof.
  intros Hs Hg Hr Hsc Hx H.
  exact (find_all_denotes s l Hs Hg (all_routedb_sound _ _ _ _ _ Hr) (same_searches_unfolded Ld s x Hsc Hx) H).
Qed.

(** without [types_covered]: the members matched by a denoted typed search of their own type *)
Theorem find_all_denotes_typed s l :
  search_ok s = true -> G0 s -> fnd s = Ok l ->
  forall e, In e l <-> exists x, In x E /\ e = s_string x /\ matched_typed Ld s x.
Proof.
  intros Hs Hg H. destruct (find_all_guarded s l Hg H) as (qs & Hu & Hqs & Hinj & Hf).
  pose proof (tree_do_find_typed c Ld Hload Hwf Hpu cfg E F HD qs l Hqs Hinj Hf) as Hin.
  pose proof (unfold_noquery_spec c Ld Hload Hwf Hconf s qs Hs Hu) as Hspec.
  intros e. rewrite Hin. split.
  - intros (x & q & Hx & Hq & -> & Hty & Hgl). exists x. split; [exact Hx|]. split; [reflexivity|].
    exists q. split; [apply Hspec; exact Hq | auto].
  - intros (x & Hx & -> & q & Hq & Hty & Hgl). exists x, q. split; [exact Hx|]. split; [apply Hspec; exact Hq | auto].
Qed.

(** with a trailing url-safe query *)
Theorem find_all_query_denotes body qd l :
  search_ok body = true -> query_okb qd = true -> ~ In "" (bodies Ld body) ->
  G (body ++ "?" ++ query_str qd) ->
  fnd (body ++ "?" ++ query_str qd) = Ok l ->
  NoDup l /\ forall e, In e l <-> In e items /\ matched_by (denotes_q Ld body qd) e.
Proof.
  intros Hs Hq Hne Hg H. split; [exact (all_nd _ l H)|].
  destruct (find_all_guarded _ l (all_guard_guard0 _ _ _ _ _ _ Hg) H) as (qs & Hu & Hqs & Hinj & Hf).
  destruct (Hg qs Hu) as (_ & _ & _ & Hcov).
  pose proof (tree_do_find c Ld Hload Hwf Hpu cfg E F HD qs l Hqs Hinj Hcov Hf) as Hin.
  pose proof (unfold_query_spec c Ld Hload Hwf Hconf body qd qs Hs Hq Hne Hu) as Hspec.
  intros e. rewrite Hin. split; intros (Hi & q & Hq' & Hgl); (split; [exact Hi|]); exists q;
    (split; [apply Hspec; exact Hq' | exact Hgl]).
Qed.

(** * 3. The five rules for FindInAll.

    The proofs are those of [Section DenotingFinder] of Search/AlgebraTreeProofs.v ([gen_union_rule] ...) with the
    hypothesis [fnd_den] replaced by [find_all_result], which has no [shortcut_okb] premise: so the rules for
    FindInAll carry NO shortcut hypothesis (the instances of the generic section are the corollaries [all_*_g]
    at the end of this section). *)

Lemma all_unf : forall s l, fnd s = Ok l -> exists qs, unfold_search Ld s false false = Ok qs.
Proof.
  intros s l H. unfold find_all in H. destruct (unfold_search Ld s false false) as [qs|e]; [|discriminate].
  exists qs. reflexivity.
Qed.

(* the result set of s is the union of the result sets of the searches ss *)
Theorem all_union_rule s ss l ls :
  (forall b, In b (bodies Ld s) <-> exists s', In s' ss /\ In b (bodies Ld s')) ->
  search_ok s = true -> G s ->
  (forall s', In s' ss -> search_ok s' = true /\ G s') ->
  fnd s = Ok l ->
  Forall2 (fun s' l' => fnd s' = Ok l') ss ls ->
  NoDup l /\ forall e, In e l <-> exists l', In l' ls /\ In e l'.
Proof.
  intros Hb Hs Hg Hss H Hall. split; [exact (all_nd s l H)|]. intros e.
  rewrite (find_all_result s l Hs Hg H e). split.
  - intros (Hi & Hm). apply (matched_union Ld s ss Hb) in Hm. destruct Hm as (s' & Hs' & Hm).
    destruct (Forall2_In_l _ _ _ _ Hall Hs') as (l' & Hl' & Hf). exists l'. split; [exact Hl'|].
    destruct (Hss s' Hs') as (H1 & H3). apply (find_all_result s' l' H1 H3 Hf). auto.
  - intros (l' & Hl' & He). destruct (Forall2_In_r _ _ _ _ Hall Hl') as (s' & Hs' & Hf).
    destruct (Hss s' Hs') as (H1 & H3). apply (find_all_result s' l' H1 H3 Hf) in He. destruct He as (Hi & Hm).
    split; [exact Hi|]. apply (matched_union Ld s ss Hb). exists s'. auto.
Qed.

(* Rule 1, n alternatives *)
Theorem all_comma_rule pre alts post l ls :
  alts <> [] -> Forall noslash pre -> Forall noslash post ->
  Forall (fun a => alt_okb a = true) alts -> (post = [] -> Forall (fun a => a <> "") alts) ->
  search_ok (mk pre (join "," alts) post) = true -> G (mk pre (join "," alts) post) ->
  (forall a, In a alts -> search_ok (mk pre a post) = true /\ G (mk pre a post)) ->
  fnd (mk pre (join "," alts) post) = Ok l ->
  Forall2 (fun a l' => fnd (mk pre a post) = Ok l') alts ls ->
  NoDup l /\ forall e, In e l <-> exists l', In l' ls /\ In e l'.
Proof.
  intros Hne Hpre Hpost Hall Hlast Hs Hg Hss H Hfs.
  apply (all_union_rule _ (map (fun a => mk pre a post) alts) l ls
           (comma_bodies Ld pre alts post Hne Hpre Hpost Hall Hlast) Hs Hg).
  - intros s' Hs'. apply in_map_iff in Hs'. destruct Hs' as (a & <- & Ha). apply (Hss a Ha).
  - exact H.
  - apply Forall2_map_l. exact Hfs.
Qed.

(* Rule 1, two alternatives *)
Corollary all_comma_rule2 pre a b post l la lb :
  Forall noslash pre -> Forall noslash post -> alt_okb a = true -> alt_okb b = true ->
  (post = [] -> a <> "" /\ b <> "") ->
  search_ok (mk pre (a ++ "," ++ b) post) = true -> G (mk pre (a ++ "," ++ b) post) ->
  search_ok (mk pre a post) = true -> G (mk pre a post) ->
  search_ok (mk pre b post) = true -> G (mk pre b post) ->
  fnd (mk pre (a ++ "," ++ b) post) = Ok l ->
  fnd (mk pre a post) = Ok la -> fnd (mk pre b post) = Ok lb ->
  NoDup l /\ forall e, In e l <-> In e la \/ In e lb.
Proof.
  intros Hpre Hpost Ha Hb Hlast Hs Hg Hsa Hga Hsb Hgb H Hfa Hfb.
  change (a ++ "," ++ b) with (join "," [a; b]) in *.
  destruct (all_comma_rule pre [a; b] post l [la; lb]) as (Hnd & Hin); try assumption.
  - discriminate.
  - constructor; [exact Ha|]. constructor; [exact Hb | constructor].
  - intros E0. destruct (Hlast E0). constructor; [assumption|]. constructor; [assumption | constructor].
  - intros x [<-|[<-|[]]]; auto.
  - constructor; [exact Hfa|]. constructor; [exact Hfb | constructor].
  - split; [exact Hnd|]. intros e. rewrite Hin. split.
    + intros (l' & [<-|[<-|[]]] & He); auto.
    + intros [He|He]; [exists la | exists lb]; cbn; auto.
Qed.

(* Rule 2 *)
Theorem all_alias_rule pre a ms l ls :
  Forall noslash pre -> noslash a ->
  dget (c_extension_alias (l_conf Ld)) a = Some ms -> a <> "" -> mem_c "," a = false ->
  Forall (fun m => dmem (c_extension_alias (l_conf Ld)) m = false) ms ->
  search_ok (mk pre a []) = true -> G (mk pre a []) ->
  (forall m, In m ms -> search_ok (mk pre m []) = true /\ G (mk pre m [])) ->
  fnd (mk pre a []) = Ok l ->
  Forall2 (fun m l' => fnd (mk pre m []) = Ok l') ms ls ->
  NoDup l /\ forall e, In e l <-> exists l', In l' ls /\ In e l'.
Proof.
  intros Hpre Hsl Ha Hne Hc Hms Hs Hg Hss H Hfs.
  apply (all_union_rule _ (map (fun m => mk pre m []) ms) l ls
           (alias_bodies Ld Hconf pre a ms Hpre Hsl Ha Hne Hc Hms) Hs Hg).
  - intros s' Hs'. apply in_map_iff in Hs'. destruct Hs' as (m & <- & Hm). apply (Hss m Hm).
  - exact H.
  - apply Forall2_map_l. exact Hfs.
Qed.

(* Rule 3 *)
Theorem all_dstar_rule pre post l :
  pre <> [] -> Forall noslash pre -> Forall noslash post ->
  (post = [] -> dmem (c_extension_alias (l_conf Ld)) "**" = false) ->
  (post = [] -> dmem (c_extension_alias (l_conf Ld)) "*" = false) ->
  (post = [] -> lastpre_ok Ld pre) ->
  search_ok (mk pre "**" post) = true -> G (mk pre "**" post) ->
  fnd (mk pre "**" post) = Ok l ->
  NoDup l /\ forall e, In e l <-> In e items /\ exists n, matched_by (levels_on Ld pre n post) e.
Proof.
  intros Hne Hpre Hpost Hdd Hstar Hlp Hs Hg H. split; [exact (all_nd _ l H)|]. intros e.
  rewrite (find_all_result _ l Hs Hg H e).
  rewrite (dstar_matched c Ld Hload Hwf Hconf pre post Hne Hpre Hpost Hdd Hstar Hlp Hs (all_unf _ l H) e).
  reflexivity.
Qed.

(* every result of pre/**/post is a result of one of the n-level searches *)
Corollary all_dstar_rule_incl pre post l e :
  pre <> [] -> Forall noslash pre -> Forall noslash post ->
  (post = [] -> dmem (c_extension_alias (l_conf Ld)) "**" = false) ->
  (post = [] -> dmem (c_extension_alias (l_conf Ld)) "*" = false) ->
  (post = [] -> lastpre_ok Ld pre) ->
  search_ok (mk pre "**" post) = true -> G (mk pre "**" post) ->
  fnd (mk pre "**" post) = Ok l -> In e l ->
  exists n, forall ln, search_ok (mkn pre n post) = true ->
    G (mkn pre n post) -> contains "**" (mkn pre n post) = false ->
    fnd (mkn pre n post) = Ok ln -> In e ln.
Proof.
  intros Hne Hpre Hpost Hdd Hstar Hlp Hs Hg H He.
  apply (all_dstar_rule pre post l Hne Hpre Hpost Hdd Hstar Hlp Hs Hg H) in He.
  destruct He as (Hi & n & x & Hx & Hgl). exists n. intros ln Hsn Hgn Hd Hf.
  apply (find_all_result _ ln Hsn Hgn Hf). split; [exact Hi|]. exists x. split; [|exact Hgl].
  apply (plain_denotes_iff Ld Hconf _ x Hd). apply levels_plain. exact Hx.
Qed.

(* conversely, a level all of whose typed searches are of a leaf type is included *)
Corollary all_dstar_rule_level pre post l n ln :
  pre <> [] -> Forall noslash pre -> Forall noslash post ->
  (post = [] -> dmem (c_extension_alias (l_conf Ld)) "**" = false) ->
  (post = [] -> dmem (c_extension_alias (l_conf Ld)) "*" = false) ->
  (post = [] -> lastpre_ok Ld pre) ->
  search_ok (mk pre "**" post) = true -> G (mk pre "**" post) ->
  fnd (mk pre "**" post) = Ok l ->
  (forall x, plain_denotes Ld (mkn pre n post) x -> levels_on Ld pre n post x) ->
  search_ok (mkn pre n post) = true ->
  G (mkn pre n post) -> contains "**" (mkn pre n post) = false ->
  fnd (mkn pre n post) = Ok ln -> incl ln l.
Proof.
  intros Hne Hpre Hpost Hdd Hstar Hlp Hs Hg H Hleaf Hsn Hgn Hd Hf e He.
  apply (find_all_result _ ln Hsn Hgn Hf) in He. destruct He as (Hi & x & Hx & Hgl).
  apply (all_dstar_rule pre post l Hne Hpre Hpost Hdd Hstar Hlp Hs Hg H). split; [exact Hi|].
  exists n, x. split; [|exact Hgl]. apply Hleaf. apply (plain_denotes_iff Ld Hconf _ x Hd). exact Hx.
Qed.

(* Rule 4 *)
Theorem all_filter_rule body k v l lf :
  search_ok body = true -> contains "**" body = false ->
  narrow_stableb Ld body = true -> G body ->
  atomb k = true -> atomb v = true -> literalb v = true -> startswith "~" v = false ->
  value_alts Ld k v = [v] -> filt_okb Ld body k v = true ->
  ~ In "" (bodies Ld body) ->
  G (body ++ "?" ++ k ++ "=" ++ v) ->
  fnd body = Ok l ->
  fnd (body ++ "?" ++ k ++ "=" ++ v) = Ok lf ->
  NoDup lf /\ forall e, In e lf <-> In e l /\ field_in Ld body k e v.
Proof.
  intros Hs Hd Hst Hg Hk Hv Hl Ht Hva Hf Hne Hgf H Hff. split; [exact (all_nd _ lf Hff)|]. intros e.
  change (body ++ "?" ++ k ++ "=" ++ v) with (body ++ "?" ++ query_str [(k, v)]) in Hgf, Hff.
  rewrite (proj2 (find_all_query_denotes body [(k, v)] lf Hs (filter_query_okb k v Hk Hv) Hne Hgf Hff) e).
  rewrite (find_all_result body l Hs Hg H e).
  rewrite (filter_matched_field c Ld Hload Hwf Hconf body k v e Hs Hd Hst Hk Hv Hl Ht Hva Hf). tauto.
Qed.

(* Rule 5 *)
Theorem all_literal_rule pre v post l lv :
  Forall noslash pre -> Forall noslash post -> noslash v -> literalb v = true -> mem_c "," v = false ->
  (post = [] -> v <> "" /\ dmem (c_extension_alias (l_conf Ld)) v = false) ->
  (post = [] -> dmem (c_extension_alias (l_conf Ld)) "*" = false) ->
  lit_ok Ld pre post v ->
  search_ok (mk pre "*" post) = true -> contains "**" (mk pre "*" post) = false ->
  narrow_stableb Ld (mk pre "*" post) = true -> G (mk pre "*" post) ->
  search_ok (mk pre v post) = true -> contains "**" (mk pre v post) = false ->
  narrow_stableb Ld (mk pre v post) = true -> G (mk pre v post) ->
  fnd (mk pre "*" post) = Ok l ->
  fnd (mk pre v post) = Ok lv ->
  NoDup lv /\ forall e, In e lv <-> In e l /\ nth_error (split_c "/" e) (List.length pre) = Some v.
Proof.
  intros Hpre Hpost Hv Hl Hc Hlastv Hlasts Hlit Hs Hd Hst Hg Hsv Hdv Hstv Hgv H Hfv.
  split; [exact (all_nd _ lv Hfv)|]. intros e.
  rewrite (find_all_result _ l Hs Hg H e), (find_all_result _ lv Hsv Hgv Hfv e).
  rewrite (literal_matched Ld Hconf pre v post e Hpre Hpost Hv Hl Hc Hlastv Hlasts Hlit Hs Hd Hst Hsv Hdv Hstv). tauto.
Qed.

(** ** the hypotheses of [Section DenotingFinder] hold for FindInAll: its lemmas [gen_*] instantiate
       (with their [shortcut_okb] premises, which FindInAll does not need) *)

Lemma all_den : forall s l, search_ok s = true -> shortcut_okb Ld s = true -> G s -> fnd s = Ok l ->
  forall e, In e l <-> In e items /\ matched Ld s e.
Proof. intros s l Hs _ Hg H. exact (find_all_result s l Hs Hg H). Qed.

Lemma all_unf_g : forall s l, shortcut Ld s = false -> fnd s = Ok l ->
  exists qs, unfold_search Ld s false false = Ok qs.
Proof. intros s l _ H. exact (all_unf s l H). Qed.

Lemma all_qden : forall body qd l, search_ok body = true -> query_okb qd = true -> ~ In "" (bodies Ld body) ->
  shortcut Ld (body ++ "?" ++ query_str qd) = false -> G (body ++ "?" ++ query_str qd) ->
  fnd (body ++ "?" ++ query_str qd) = Ok l ->
  forall e, In e l <-> In e items /\ matched_by (denotes_q Ld body qd) e.
Proof. intros body qd l Hs Hq Hne _ Hg H. exact (proj2 (find_all_query_denotes body qd l Hs Hq Hne Hg H)). Qed.

Corollary all_comma_rule_g pre alts post l ls :
  alts <> [] -> Forall noslash pre -> Forall noslash post ->
  Forall (fun a => alt_okb a = true) alts -> (post = [] -> Forall (fun a => a <> "") alts) ->
  search_ok (mk pre (join "," alts) post) = true -> shortcut_okb Ld (mk pre (join "," alts) post) = true ->
  G (mk pre (join "," alts) post) ->
  (forall a, In a alts -> search_ok (mk pre a post) = true /\ shortcut_okb Ld (mk pre a post) = true /\ G (mk pre a post)) ->
  fnd (mk pre (join "," alts) post) = Ok l ->
  Forall2 (fun a l' => fnd (mk pre a post) = Ok l') alts ls ->
  forall e, In e l <-> exists l', In l' ls /\ In e l'.
Proof. exact (gen_comma_rule Ld fnd items G all_den pre alts post l ls). Qed.

Corollary all_alias_rule_g pre a ms l ls :
  Forall noslash pre -> noslash a ->
  dget (c_extension_alias (l_conf Ld)) a = Some ms -> a <> "" -> mem_c "," a = false ->
  Forall (fun m => dmem (c_extension_alias (l_conf Ld)) m = false) ms ->
  search_ok (mk pre a []) = true -> shortcut_okb Ld (mk pre a []) = true -> G (mk pre a []) ->
  (forall m, In m ms -> search_ok (mk pre m []) = true /\ shortcut_okb Ld (mk pre m []) = true /\ G (mk pre m [])) ->
  fnd (mk pre a []) = Ok l ->
  Forall2 (fun m l' => fnd (mk pre m []) = Ok l') ms ls ->
  forall e, In e l <-> exists l', In l' ls /\ In e l'.
Proof. exact (gen_alias_rule Ld Hconf fnd items G all_den pre a ms l ls). Qed.

Corollary all_dstar_rule_g pre post l :
  pre <> [] -> Forall noslash pre -> Forall noslash post ->
  (post = [] -> dmem (c_extension_alias (l_conf Ld)) "**" = false) ->
  (post = [] -> dmem (c_extension_alias (l_conf Ld)) "*" = false) ->
  (post = [] -> lastpre_ok Ld pre) ->
  search_ok (mk pre "**" post) = true -> shortcut Ld (mk pre "**" post) = false -> G (mk pre "**" post) ->
  fnd (mk pre "**" post) = Ok l ->
  forall e, In e l <-> In e items /\ exists n, matched_by (levels_on Ld pre n post) e.
Proof. exact (gen_dstar_rule c Ld Hload Hwf Hconf fnd items G all_den all_unf_g pre post l). Qed.

Corollary all_filter_rule_g body k v l lf :
  search_ok body = true -> contains "**" body = false ->
  narrow_stableb Ld body = true -> shortcut_okb Ld body = true -> G body ->
  atomb k = true -> atomb v = true -> literalb v = true -> startswith "~" v = false ->
  value_alts Ld k v = [v] -> filt_okb Ld body k v = true ->
  ~ In "" (bodies Ld body) ->
  shortcut Ld (body ++ "?" ++ k ++ "=" ++ v) = false ->
  G (body ++ "?" ++ k ++ "=" ++ v) ->
  fnd body = Ok l ->
  fnd (body ++ "?" ++ k ++ "=" ++ v) = Ok lf ->
  forall e, In e lf <-> In e l /\ field_in Ld body k e v.
Proof. exact (gen_filter_rule c Ld Hload Hwf Hconf fnd items G all_den all_qden body k v l lf). Qed.

Corollary all_literal_rule_g pre v post l lv :
  Forall noslash pre -> Forall noslash post -> noslash v -> literalb v = true -> mem_c "," v = false ->
  (post = [] -> v <> "" /\ dmem (c_extension_alias (l_conf Ld)) v = false) ->
  (post = [] -> dmem (c_extension_alias (l_conf Ld)) "*" = false) ->
  lit_ok Ld pre post v ->
  search_ok (mk pre "*" post) = true -> contains "**" (mk pre "*" post) = false ->
  narrow_stableb Ld (mk pre "*" post) = true -> shortcut_okb Ld (mk pre "*" post) = true -> G (mk pre "*" post) ->
  search_ok (mk pre v post) = true -> contains "**" (mk pre v post) = false ->
  narrow_stableb Ld (mk pre v post) = true -> shortcut_okb Ld (mk pre v post) = true -> G (mk pre v post) ->
  fnd (mk pre "*" post) = Ok l ->
  fnd (mk pre v post) = Ok lv ->
  forall e, In e lv <-> In e l /\ nth_error (split_c "/" e) (List.length pre) = Some v.
Proof. exact (gen_literal_rule Ld Hconf fnd items G all_den pre v post l lv). Qed.

(** * 4. The three finders return the same set (C11) *)

(** FindInAll over the tree = FindInPaths over the tree = FindInList over the strings of the data set.
    [guarded] is the guard of the list finder, [tree_guard] that of the path finder (on what [Finder.find] globs),
    [all_guard] that of FindInAll (on the unfolding, with the routing) *)
Theorem find_all_eq_find_paths_eq_find_list s l l' l'' :
  guarded Ld s -> tree_guard Ld cfg E s -> G s ->
  fnd s = Ok l -> ffind Ld F (FPaths id cfg) s = Ok l' -> find_list Ld items s = Ok l'' ->
  forall e, (In e l <-> In e l') /\ (In e l' <-> In e l'').
Proof.
  intros Hgd Hg Hga H H' H'' e. pose proof Hgd as (Hs & Hok & _).
  rewrite (find_all_result s l Hs Hga H e).
  rewrite (find_paths_result c Ld Hload Hwf Hconf Hpu cfg E F HD id s l' Hs Hok Hg H' e).
  destruct (find_list_denotes c Ld Hload Hwf Hconf items s l'' Hgd H'') as (_ & Hin). rewrite Hin. tauto.
Qed.

(** ... under the hypotheses of [find_all_denotes] ([tree_guard], routing, same searches): moreover FindInAll and
    FindInPaths return the same LIST, and all three lists are duplicate-free *)
Theorem find_all_eq_find_paths_eq_find_list_same s l l' l'' :
  guarded Ld s -> tree_guard Ld cfg E s -> all_routed Ld Rt id cfg s -> same_searches Ld s ->
  fnd s = Ok l -> ffind Ld F (FPaths id cfg) s = Ok l' -> find_list Ld items s = Ok l'' ->
  l = l' /\ NoDup l /\ NoDup l'' /\ forall e, In e l <-> In e l''.
Proof.
  intros Hgd Hg Hr Hss H H' H''. pose proof Hgd as (Hs & Hok & _).
  pose proof (find_paths_NoDup c Ld Hload Hwf Hpu cfg E F HD id s l' (tree_guard_guard0 Ld cfg E s Hg) H') as Hnd'.
  assert (El : l = l').
  { rewrite (find_all_routed_eq Ld Rt F id cfg s Hss Hr), H' in H. cbn [bind] in H.
    rewrite (dedup_first_id l' Hnd') in H. inversion H. reflexivity. }
  subst l'. split; [reflexivity|]. split; [exact Hnd'|].
  destruct (find_list_denotes c Ld Hload Hwf Hconf items s l'' Hgd H'') as (Hnd'' & Hin). split; [exact Hnd''|].
  intros e. rewrite Hin. exact (find_paths_result c Ld Hload Hwf Hconf Hpu cfg E F HD id s l Hs Hok Hg H' e).
Qed.

End AllAlgebra.

Print Assumptions find_all_routed_gen.
Print Assumptions find_all_routed_eq.
Print Assumptions find_all_routed.
Print Assumptions find_all_routed_shortcut_free.
Print Assumptions find_all_routed_set.
Print Assumptions find_all_routed_ok.
Print Assumptions find_all_routed_last.
Print Assumptions find_all_routed_dataset.
Print Assumptions find_all_result.
Print Assumptions find_all_denotes_unf.
Print Assumptions find_all_denotes.
Print Assumptions find_all_denotes_b.
Print Assumptions find_all_denotes_typed.
Print Assumptions find_all_query_denotes.
Print Assumptions all_union_rule.
Print Assumptions all_comma_rule.
Print Assumptions all_comma_rule2.
Print Assumptions all_alias_rule.
Print Assumptions all_dstar_rule.
Print Assumptions all_dstar_rule_incl.
Print Assumptions all_dstar_rule_level.
Print Assumptions all_filter_rule.
Print Assumptions all_literal_rule.
Print Assumptions all_comma_rule_g.
Print Assumptions all_alias_rule_g.
Print Assumptions all_dstar_rule_g.
Print Assumptions all_filter_rule_g.
Print Assumptions all_literal_rule_g.
Print Assumptions find_all_eq_find_paths_eq_find_list.
Print Assumptions find_all_eq_find_paths_eq_find_list_same.
Print Assumptions all_guardb_sound.
Print Assumptions tree_guard_all_guard.
