(** C05, "the paths of one Sid under two configurations differ only by the configured root":
    the decidable relation [same_up_to_root] between two loaded path configurations
    (definitions only; the theorems are in Path/RootProofs.v). *)
From Coq Require Import List String Ascii Bool Arith.
From Spil Require Import Base.Str Base.Dict Base.Outcome Base.PyPath Regex.Re Resolva.Template Resolva.Resolver
  Conf.ConfUtil Conf.Conf Conf.WF.
Import ListNotations.
Local Open Scope string_scope.

(** ** Roots *)

(* a path part that pathlib keeps: neither "" nor "." *)
Definition keep_partb (x : string) : bool := negb (sempty x) && negb (String.eqb x ".").

(* a root: an absolute literal, "/"-separated into parts pathlib keeps (so: no "//", no trailing "/",
   not "/" alone), all of whose characters stand for themselves in the regular expression resolva
   builds from the template text (resolva does not escape literal text) *)
Definition root_okb (r : string) : bool :=
  match r with
  | String "/" r' => forallb keep_partb (split_c "/" r') && all_c plain_char r'
  | _ => false
  end.

(** ** Templates *)

(* [strip_prefix p s = Some l]  iff  [s = p ++ l] *)
Fixpoint strip_prefix (p s : string) : option string :=
  match p with
  | "" => Some s
  | String a p' =>
      match s with
      | String b s' => if Ascii.eqb a b then strip_prefix p' s' else None
      | "" => None
      end
  end.

(* the root ends before a "/": what follows it in the template is nothing at all, or starts with "/" *)
Definition tail_okb (l : string) (rest : list item) : bool :=
  match l with
  | "" => match rest with [] => true | _ => false end
  | String a _ => Ascii.eqb a "/"
  end.

(* the items of the second template are the items of the first with the leading literal [r1] replaced by [r2] *)
Definition items_rootb (r1 r2 : string) (i1 i2 : list item) : bool :=
  match i1, i2 with
  | Lit t1 :: rest1, Lit t2 :: rest2 =>
      match strip_prefix r1 t1, strip_prefix r2 t2 with
      | Some l1, Some l2 => String.eqb l1 l2 && tail_okb l1 rest1 && items_eqb rest1 rest2
      | _, _ => false
      end
  | _, _ => false
  end.

Definition tpl_rootb (r1 r2 : string) (t1 t2 : tpl) : bool :=
  String.eqb (tp_name t1) (tp_name t2)
  && items_rootb r1 r2 (tp_items t1) (tp_items t2)
  && strs_eqb (tp_keys t1) (tp_keys t2).

(* same template names in the same order, template by template *)
Fixpoint tpls_rootb (r1 r2 : string) (l1 l2 : list tpl) : bool :=
  match l1, l2 with
  | [], [] => true
  | t1 :: l1', t2 :: l2' => tpl_rootb r1 r2 t1 t2 && tpls_rootb r1 r2 l1' l2'
  | _, _ => false
  end.

(** ** The other settings [sid_path] reads: mapping, defaults, duplicate check of the resolver *)

Fixpoint mapping_eqb (a b : list (string * list (string * string))) : bool :=
  match a, b with
  | [], [] => true
  | (k, m) :: a', (k', m') :: b' => String.eqb k k' && assoc_eqb m m' && mapping_eqb a' b'
  | _, _ => false
  end.

Definition same_up_to_root (lp1 lp2 : LoadedPath) (r1 r2 : string) : bool :=
  root_okb r1 && root_okb r2
  && tpls_rootb r1 r2 (r_tpls (lp_resolver lp1)) (r_tpls (lp_resolver lp2))
  && Bool.eqb (r_check_dup (lp_resolver lp1)) (r_check_dup (lp_resolver lp2))
  && mapping_eqb (pc_mapping (lp_conf lp1)) (pc_mapping (lp_conf lp2))
  && assoc_eqb (pc_defaults (lp_conf lp1)) (pc_defaults (lp_conf lp2)).

(** ** The roots of a loaded path configuration, computed: the longest common prefix of the leading
    literals of its templates, cut before its last "/" (so that it ends before a "/") *)

Fixpoint common_prefix (a b : string) : string :=
  match a, b with
  | String x a', String y b' => if Ascii.eqb x y then String x (common_prefix a' b') else ""
  | _, _ => ""
  end.

Definition leading_lit (t : tpl) : string :=
  match tp_items t with Lit s :: _ => s | _ => "" end.

Definition cut_last_slash (s : string) : string := join "/" (removelast (split_c "/" s)).

Definition root_of (lp : LoadedPath) : string :=
  match map leading_lit (r_tpls (lp_resolver lp)) with
  | [] => ""
  | x :: l => cut_last_slash (fold_left common_prefix l x)
  end.
