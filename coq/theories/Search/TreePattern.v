(** C11: the path pattern of a typed search globs the path of every Sid of its type whose fields match
    the search field-wise. *)
From Coq Require Import List String Ascii Bool Arith Lia.
From Spil Require Import Base.Str Base.Dict Base.Outcome Base.Tree Base.StrProofs Base.SplitProofs Base.PyPath
  Regex.Re Resolva.Template Resolva.Resolver Conf.ConfUtil Conf.ConfUtilProofs Conf.Conf Conf.WF
  Sid.Query Sid.Sid Sid.TypingSpec Sid.TypingProofs Sid.SidLemmas Sid.SidProofs
  Path.PathProofs Path.ShapeProofs Path.UnambiguousDefs Path.UnambiguousProofs
  FS.Fs Search.FindList Search.GlobProofs Search.Finders Search.TreeListDefs Search.TreeGlob.
Import ListNotations.
Local Open Scope list_scope.

(** * The formatted template without the "concrete" clause: every placeholder has a usable value.
    (UnambiguousProofs.elem_val_ok also asks the value to be one of the non-symbol alternatives of a closed
    placeholder; a search value "*" is not.)  The normalisation lemmas only need this much. *)

Definition elem_val_wk (d : dict string) (e : elem) : Prop :=
  match e with
  | ELit _ => True
  | EPh n _ _ => exists v, dget d n = Some v /\ val_ok v
  end.

Lemma word_noslash_wk d e : elem_val_wk d e -> is_sl e = false -> mem_c "/" (eword d e) = false.
Proof.
  destruct e as [a | n g b]; cbn [is_sl eword elem_val_wk].
  - intros _ H. cbn [str1 mem_c]. rewrite H. reflexivity.
  - intros (v & -> & (_ & _ & H & _)) _. exact H.
Qed.

Lemma split_words_wk d : forall es, Forall (elem_val_wk d) es ->
  split_c "/" (cword d es) = map (cword d) (split_at is_sl es).
Proof.
  induction es as [|e es IH]; intros Hv; [reflexivity|].
  inversion Hv as [|? ? Hv1 Hv2]; subst. unfold cword. cbn [map sconcat split_at]. fold (cword d es).
  destruct (is_sl e) eqn:E.
  - rewrite (is_sl_word d e E). cbn [append split_c]. rewrite (IH Hv2). reflexivity.
  - rewrite (split_c_prepend "/" _ _ (word_noslash_wk d e Hv1 E)), (IH Hv2).
    destruct (split_at is_sl es) as [|h r] eqn:Es; [exfalso; exact (split_at_not_nil _ _ Es)|]. reflexivity.
Qed.

Lemma word_len_wk d e : elem_val_wk d e -> 1 <= String.length (eword d e).
Proof.
  destruct e as [a | n g b]; cbn [eword elem_val_wk]; [simpl; lia|].
  intros (v & -> & (H & _)). destruct v; [congruence | simpl; lia].
Qed.

Lemma cword_noslash_wk d : forall c, (forall x, In x c -> elem_val_wk d x /\ is_sl x = false) ->
  mem_c "/" (cword d c) = false.
Proof.
  induction c as [|e c IH]; intros H; [reflexivity|]. unfold cword. cbn [map sconcat]. fold (cword d c).
  destruct (H e (or_introl eq_refl)) as (H1 & H2).
  rewrite mem_c_app, (word_noslash_wk d e H1 H2), IH; [reflexivity|]. intros x Hx. apply H. right. exact Hx.
Qed.

Lemma comp_part_ok_wk d c : comp_ok c = true -> (forall x, In x c -> elem_val_wk d x /\ is_sl x = false) ->
  part_ok (cword d c).
Proof.
  intros Hc H. pose proof (cword_noslash_wk d c H) as Hns.
  destruct c as [|e1 [|e2 r]]; [discriminate| |].
  - destruct (H e1 (or_introl eq_refl)) as (H1 & H2). unfold cword in *. cbn [map sconcat] in *.
    rewrite app_nil_r_s in *. destruct e1 as [a | n g b].
    + cbn [eword comp_ok] in *. repeat split; [discriminate | | exact Hns].
      intros E. inversion E; subst. discriminate Hc.
    + cbn [eword elem_val_wk] in *. destruct H1 as (v & -> & (Ha & Hb & Hc2 & _)).
      split; [exact Ha | split; [exact Hb | exact Hc2]].
  - destruct (H e1 (or_introl eq_refl)) as (H1 & _). destruct (H e2 (or_intror (or_introl eq_refl))) as (H2 & _).
    pose proof (word_len_wk d e1 H1) as L1. pose proof (word_len_wk d e2 H2) as L2.
    assert (L : 2 <= String.length (cword d (e1 :: e2 :: r))).
    { unfold cword. cbn [map sconcat]. rewrite !length_app_s. lia. }
    repeat split; [| | exact Hns]; intros E; rewrite E in L; simpl in L; lia.
Qed.

Theorem own_norm_wk d es : comps_ok es = true -> Forall (elem_val_wk d) es ->
  norm_path (cword d es) = cword d es.
Proof.
  unfold comps_ok. intros Hc Hv.
  destruct es as [|e1 es1]; [discriminate|]. cbn [split_at] in Hc.
  destruct (is_sl e1) eqn:E1.
  2:{ destruct (split_at is_sl es1) as [|h r]; discriminate. }
  destruct (split_at is_sl es1) as [|c cs] eqn:Es; [discriminate|].
  inversion Hv as [|? ? Hv1 Hv2]; subst.
  unfold cword. cbn [map sconcat]. fold (cword d es1). rewrite (is_sl_word d e1 E1). cbn [append].
  apply norm_path_fixed. rewrite (split_words_wk d es1 Hv2), Es.
  rewrite forallb_forall in Hc. apply Forall_forall. intros x Hx. apply in_map_iff in Hx.
  destruct Hx as (c0 & <- & Hc0). apply comp_part_ok_wk; [exact (Hc c0 Hc0)|].
  intros y Hy. rewrite <- Es in Hc0. destruct (split_at_In is_sl es1 c0 y Hc0 Hy) as (G1 & G2).
  split; [|exact G1]. rewrite Forall_forall in Hv2. exact (Hv2 y G2).
Qed.

(** * Small facts *)

Lemma replace_gt_id v : mem_c ">" v = false -> replace ">" "*" v = v.
Proof.
  unfold replace. cbn [sempty]. induction v as [|a v IH]; intros H; [reflexivity|].
  cbn [mem_c] in H. apply orb_false_iff in H. destruct H as (Ha & Hv).
  cbn [replace_aux startswith]. rewrite Ascii.eqb_sym, Ha. cbn [andb]. rewrite (IH Hv). reflexivity.
Qed.

Lemma cword_glob dq de : forall es, (forall x, In x es -> glob_rel (eword dq x) (eword de x)) ->
  glob_rel (cword dq es) (cword de es).
Proof.
  induction es as [|x es IH]; intros H; [constructor|]. unfold cword. cbn [map sconcat].
  apply glob_app; [apply H; left; reflexivity | apply IH; intros y Hy; apply H; right; exact Hy].
Qed.

Lemma in_keys_get (d : dict string) k : In k (map fst d) -> exists v, In (k, v) d.
Proof.
  intros H. apply in_map_iff in H. destruct H as ([k0 v0] & E & Hin). cbn [fst] in E. subst k0. exists v0. exact Hin.
Qed.

Lemma path_data_get pc x k v : dget (s_fields x) k = Some v ->
  dget (path_data pc x) k = Some (pm (pc_mapping (lp_conf pc)) k v).
Proof. intros H. unfold path_data. rewrite dget_map_val, H. reflexivity. Qed.

(** * Reading the path of a typed (search) Sid *)

Section Pattern.
Variables (c : Conf) (Ld : Loaded).
Hypothesis Hload : load c = Some Ld.
Hypothesis Hwf : wf_loadedb Ld = true.
Hypothesis Hpu : paths_unambiguousb Ld = true.

Lemma nat_typed_search x : naturally_typed Ld x -> typed_search Ld x.
Proof. intros H. exact (nat_forced c Ld Hload Hwf x H). Qed.

Lemma typed_parts x : typed_search Ld x ->
  exists ts, In ts (r_tpls (l_sid Ld)) /\ tp_name ts = s_type x /\
    find_tpl (l_sid Ld) (s_type x) = Some ts /\
    map fst (s_fields x) = item_names (tp_items ts) /\
    map snd (s_fields x) = split_c "/" (s_string x) /\
    s_string x = join "/" (map snd (s_fields x)) /\
    s_fields x <> [] /\ NoDup (map fst (s_fields x)) /\ s_type x <> EmptyString.
Proof.
  intros H. destruct (forced_inv Ld _ _ _ _ H) as (_ & _ & ts & Hin & Hn & Ha).
  destruct (accepts_fields Ld Hwf ts _ _ Hin Ha) as (Hfst & Hsnd & Hne & Hjoin).
  destruct (tpl_parts Ld Hwf ts Hin) as (_ & Hnd & _).
  destruct (tpl_name_ok Ld Hwf ts Hin) as (Hty & _).
  exists ts. split; [exact Hin|]. split; [exact Hn|]. split.
  { rewrite <- Hn. exact (tpl_find c Ld Hload Hwf ts Hin). }
  split; [exact Hfst|]. split; [exact Hsnd|]. split; [exact Hjoin|]. split; [exact Hne|].
  split; [rewrite Hfst; exact Hnd | rewrite <- Hn; exact Hty].
Qed.

(* the keys clause of [paths_unambiguousb]: the path template of x's type has the keys of x *)
Lemma typed_keys x lp tp : typed_search Ld x -> In lp (l_paths Ld) ->
  find_tpl (lp_resolver lp) (s_type x) = Some tp ->
  forall k, In k (item_names (tp_items tp)) <-> In k (map fst (s_fields x)).
Proof.
  intros Ht Hlp Hfind. destruct (typed_parts x Ht) as (ts & _ & _ & Hts & Hfst & _).
  destruct (path_conf_parts Ld Hpu lp Hlp) as (_ & _ & _ & Hk). rewrite forallb_forall in Hk.
  unfold find_tpl in Hfind. destruct (find_some _ _ Hfind) as (Hin & En). apply String.eqb_eq in En.
  specialize (Hk tp Hin). unfold tpl_keys_ok in Hk. rewrite En, Hts in Hk.
  apply andb_true_iff in Hk. destruct Hk as (Hk1 & _). rewrite Hfst.
  apply keys_eq_iff in Hk1. destruct Hk1 as (Ha & Hb). intros k. split; [apply Ha | apply Hb].
Qed.

Lemma search_read x cfg p :
  typed_search Ld x -> path_values_ok x -> sid_path Ld x cfg = Ok (Some p) ->
  exists pc tp es, get_path_config Ld cfg = Ok pc /\ In pc (l_paths Ld) /\
    find_tpl (lp_resolver pc) (s_type x) = Some tp /\ tpl_elems tp = Some es /\
    ekeys es = item_names (tp_items tp) /\
    p = cword (path_data pc x) es /\ Forall (elem_val_wk (path_data pc x)) es.
Proof.
  intros Ht Hvals Hsp.
  destruct (sid_path_inv Ld x cfg p Hsp) as (Hne & Hd).
  destruct (dict_to_path_config _ _ _ _ _ Hd) as (pc & Hpc).
  pose proof (get_path_config_In _ _ _ Hpc) as Hlp.
  destruct (typed_parts x Ht) as (ts & _ & _ & _ & _ & _ & _ & _ & Hnd & Hty).
  destruct (dict_to_path_inv Ld _ _ cfg pc p Hne Hty Hvals Hpc Hd) as (tp & Hfind & Hkne & Hrest).
  pose proof (typed_keys x pc tp Ht Hlp Hfind) as Hkeys.
  assert (Hin : In tp (r_tpls (lp_resolver pc))) by (unfold find_tpl in Hfind; exact (proj1 (find_some _ _ Hfind))).
  pose proof (load_path_keys c Ld Hload pc Hlp tp Hin) as Hk.
  assert (Hincl : forall k, In k (tp_keys tp) -> In k (dkeys (s_fields x))).
  { intros k Hkin. rewrite Hk in Hkin. apply Hkeys. apply tkeys_incl. exact Hkin. }
  destruct (Hrest Hincl) as (path & Hfmt & ->).
  change (pdata (pc_mapping (lp_conf pc)) (s_fields x)) with (path_data pc x) in Hfmt.
  destruct (path_conf_parts Ld Hpu pc Hlp) as (Hok & _ & Hmap & _).
  rewrite forallb_forall in Hok.
  destruct (tpl_ok_inv tp (Hok tp Hin)) as (es & ss & cs & He & _ & _ & _ & _ & Hcomps).
  pose proof (elems_keys _ _ _ He) as Hek.
  assert (Hv : Forall (elem_val_wk (path_data pc x)) es).
  { apply Forall_forall. intros [a | n g b] Hein; [exact I|]. cbn [elem_val_wk].
    pose proof (in_ekeys n g b es Hein) as Hn. rewrite Hek in Hn. apply Hkeys in Hn.
    destruct (in_keys_get _ _ Hn) as (v0 & Hkv).
    pose proof (dget_In _ _ _ Hnd Hkv) as Hg.
    exists (pm (pc_mapping (lp_conf pc)) n v0). split; [exact (path_data_get pc x n v0 Hg)|].
    apply pm_val_ok; [exact Hmap|]. unfold path_values_ok in Hvals. rewrite Forall_forall in Hvals.
    exact (Hvals _ Hkv). }
  pose proof (fmt_elems _ _ _ _ _ He Hfmt) as Epath. fold (cword (path_data pc x) es) in Epath.
  exists pc, tp, es. split; [exact Hpc|]. split; [exact Hlp|]. split; [exact Hfind|]. split; [exact He|].
  split; [exact Hek|]. split; [|exact Hv]. rewrite Epath. exact (own_norm_wk _ es Hcomps Hv).
Qed.

(** * The pattern of a search globs the path of a field-wise matching Sid of its type *)

Theorem pattern_globs_path e q cfg p pat :
  naturally_typed Ld e -> path_values_ok e -> sid_path Ld e cfg = Ok (Some p) ->
  typed_search Ld q -> path_values_ok q -> no_gtb q = true -> sid_path Ld q cfg = Ok (Some pat) ->
  (forall pc, get_path_config Ld cfg = Ok pc -> search_map_okb pc q = true) ->
  s_type e = s_type q -> fields_match q e = true ->
  glob_rel pat p.
Proof.
  intros Hnat Hve Hpe Htq Hvq Hgt Hpq Hmapq Hty Hfm.
  pose proof (nat_typed_search e Hnat) as Hte.
  destruct (search_read e cfg p Hte Hve Hpe) as (pc & tp & es & Hpc & Hlp & Hfind & He & Hek & -> & _).
  destruct (search_read q cfg pat Htq Hvq Hpq) as (pc' & tp' & es' & Hpc' & _ & Hfind' & He' & _ & -> & _).
  rewrite Hpc in Hpc'. inversion Hpc'; subst pc'. rewrite <- Hty, Hfind in Hfind'. inversion Hfind'; subst tp'.
  rewrite He in He'. inversion He'; subst es'.
  specialize (Hmapq pc Hpc).
  pose proof (typed_keys e pc tp Hte Hlp Hfind) as Hke.
  assert (Hfindq : find_tpl (lp_resolver pc) (s_type q) = Some tp) by (rewrite <- Hty; exact Hfind).
  pose proof (typed_keys q pc tp Htq Hlp Hfindq) as Hkq.
  destruct (typed_parts e Hte) as (_ & _ & _ & _ & _ & _ & _ & _ & Hnde & _).
  destruct (typed_parts q Htq) as (_ & _ & _ & _ & _ & _ & _ & _ & Hndq & _).
  destruct (path_conf_parts Ld Hpu pc Hlp) as (_ & _ & Hmap & _).
  apply cword_glob. intros [a | n g b] Hin; [apply glob_refl|].
  pose proof (in_ekeys n g b es Hin) as Hn. rewrite Hek in Hn.
  destruct (in_keys_get _ _ (proj1 (Hke n) Hn)) as (ve & Hine).
  destruct (in_keys_get _ _ (proj1 (Hkq n) Hn)) as (vq & Hinq).
  pose proof (dget_In _ _ _ Hnde Hine) as Hge. pose proof (dget_In _ _ _ Hndq Hinq) as Hgq.
  cbn [eword]. rewrite (path_data_get pc q n vq Hgq), (path_data_get pc e n ve Hge).
  (* the values *)
  unfold path_values_ok in Hve. rewrite Forall_forall in Hve. pose proof (Hve _ Hine) as Hvale. cbn [snd] in Hvale.
  destruct Hvale as (Hve1 & Hve2 & Hve3 & Hve4).
  unfold no_gtb in Hgt. rewrite forallb_forall in Hgt. pose proof (Hgt _ Hinq) as Hgtq. cbn [snd] in Hgtq.
  apply negb_true_iff in Hgtq.
  unfold fields_match in Hfm. rewrite forallb_forall in Hfm. pose proof (Hfm _ Hinq) as Hm. cbn [fst snd] in Hm.
  cbv zeta in Hm. unfold sid_get in Hm. rewrite Hge, (replace_gt_id vq Hgtq) in Hm.
  pose proof (fn_match_glob _ _ _ Hm Hve3) as G.
  unfold search_map_okb in Hmapq. rewrite forallb_forall in Hmapq. pose proof (Hmapq _ Hinq) as Hmq.
  cbn [fst snd] in Hmq. unfold pm.
  destruct (dget (pc_mapping (lp_conf pc)) n) as [[|m0 m]|] eqn:Em; try exact G.
  apply orb_true_iff in Hmq. destruct Hmq as [Hlit | Hstar].
  - apply negb_true_iff in Hlit. rewrite (glob_nomagic_eq _ _ G Hlit). apply glob_refl.
  - apply andb_true_iff in Hstar. destruct Hstar as (E1 & E2). apply String.eqb_eq in E1, E2. subst vq.
    rewrite E2. apply glob_star_any.
    assert (Hvo : val_ok (pm (pc_mapping (lp_conf pc)) n ve)).
    { apply pm_val_ok; [exact Hmap|]. repeat split; assumption. }
    unfold pm in Hvo. rewrite Em in Hvo. exact (proj1 (proj2 (proj2 Hvo))).
Qed.

End Pattern.
