From Coq Require Import List String.
Example C05_placeholder : True. Proof. exact I. Qed.
Print Assumptions C05_placeholder.
