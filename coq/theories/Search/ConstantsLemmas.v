(** C11 / C12: what the constants-backed finder (FindInConstants) answers. *)
From Coq Require Import List String Ascii Bool Arith Lia.
From Spil Require Import Base.Str Base.Dict Base.Outcome Base.PyPath Base.StrProofs Base.SplitProofs Regex.Re
  Regex.MatchProofs Resolva.Template Resolva.Resolver Conf.ConfUtil Conf.Conf Conf.WF Conf.Routing
  Sid.Query Sid.Sid Sid.TypingSpec Sid.TypingProofs Sid.SidLemmas Sid.SidProofs Sid.QueryProofs
  Search.Unfold Search.SortLemmas Search.FindList Search.FindListProofs FS.Fs Search.Finders
  Search.FindersProofs Search.DenoteLemmas Search.TreeListDefs Search.TreePattern Search.TreeListProofs
  Data.Data Data.DataSpecProofs Data.SidLevelDefs Data.SidLevelProofs Search.ConstantsDefs.
Import ListNotations.
Local Open Scope string_scope.

(* [FindersProofs.accepts] (the field check of the path finder) shadows the typing specification *)
Local Notation accepts := TypingSpec.accepts.

(** * The model, one search at a time *)

Lemma fstar_constants Ld F id key values pfd qs :
  fstar Ld F (FConstants id key values pfd) qs =
  concat_mapM (const_one Ld key values (option_map (fstar Ld F) pfd)) qs.
Proof. destruct pfd; reflexivity. Qed.

Lemma concat_mapM_one {A B} (f : A -> outcome (list B)) x : concat_mapM f [x] = f x.
Proof.
  cbn [concat_mapM]. destruct (f x) as [y|e]; cbn [bind]; [|reflexivity]. rewrite app_nil_r. reflexivity.
Qed.

Corollary fstar_constants_one Ld F id key values pfd q :
  fstar Ld F (FConstants id key values pfd) [q] = const_one Ld key values (option_map (fstar Ld F) pfd) q.
Proof. rewrite fstar_constants. apply concat_mapM_one. Qed.

Lemma concat_mapM_flat {A B} (f : A -> outcome (list B)) (g : A -> list B) l :
  (forall x, In x l -> f x = Ok (g x)) -> concat_mapM f l = Ok (flat_map g l).
Proof.
  induction l as [|x l IH]; intros H; [reflexivity|]. cbn [concat_mapM flat_map].
  rewrite (H x (or_introl eq_refl)), IH; [reflexivity|]. intros y Hy. apply H. right. exact Hy.
Qed.

(** * Lists and strings *)

Lemma strs_eqb_refl l : strs_eqb l l = true.
Proof. induction l as [|x l IH]; [reflexivity|]. cbn [strs_eqb]. rewrite String.eqb_refl, IH. reflexivity. Qed.

Lemma last_In (l : list string) : l <> [] -> In (last l "") l.
Proof.
  induction l as [|a l IH]; [congruence|]. intros _. destruct l as [|b l]; [left; reflexivity|].
  right. apply IH. discriminate.
Qed.

Lemma nil_dec {A} (l : list A) : {l = []} + {l <> []}.
Proof. destruct l; [left; reflexivity | right; discriminate]. Qed.

Lemma last_cons_ne (a : string) l : l <> [] -> last (a :: l) "" = last l "".
Proof. destruct l; [congruence | reflexivity]. Qed.

Lemma fields_upto_last : forall (d : dict string), NoDup (map fst d) -> d <> [] ->
  fields_upto d (last (map fst d) "") = d.
Proof.
  induction d as [|[k v] d IH]; intros Hnd Hne; [congruence|].
  cbn [map fst] in Hnd. inversion Hnd as [|? ? Hk Hnd']; subst.
  destruct (nil_dec d) as [->|Hd].
  - cbn. rewrite String.eqb_refl. reflexivity.
  - assert (Hm : map fst d <> []) by (intros E; apply map_eq_nil in E; congruence).
    cbn [map fst]. rewrite (last_cons_ne k _ Hm). cbn [fields_upto].
    destruct (String.eqb k (last (map fst d) "")) eqn:E.
    + apply String.eqb_eq in E. exfalso. apply Hk. rewrite E. apply last_In. exact Hm.
    + rewrite (IH Hnd' Hd). reflexivity.
Qed.

Lemma dmem_last (d : dict string) : d <> [] -> dmem d (last (map fst d) "") = true.
Proof.
  intros Hne. unfold dmem.
  destruct (dget d (last (map fst d) "")) eqn:E; [reflexivity|]. exfalso.
  apply dget_None_keys in E. apply E. apply last_In. intros H. apply map_eq_nil in H. congruence.
Qed.

(* setting the last key: same keys, the last value replaced *)
Lemma dset_last : forall (d : dict string) v, NoDup (map fst d) -> d <> [] ->
  map fst (dset d (last (map fst d) "") v) = map fst d /\
  map snd (dset d (last (map fst d) "") v) = (removelast (map snd d) ++ [v])%list.
Proof.
  induction d as [|[k w] d IH]; intros v Hnd Hne; [congruence|].
  cbn [map fst] in Hnd. inversion Hnd as [|? ? Hk Hnd']; subst.
  destruct (nil_dec d) as [->|Hd].
  - cbn. rewrite String.eqb_refl. split; reflexivity.
  - assert (Hm : map fst d <> []) by (intros E; apply map_eq_nil in E; congruence).
    assert (Hs : map snd d <> []) by (intros E; apply map_eq_nil in E; congruence).
    cbn [map fst snd]. rewrite (last_cons_ne k _ Hm). cbn [dset].
    destruct (String.eqb (last (map fst d) "") k) eqn:E.
    + apply String.eqb_eq in E. exfalso. apply Hk. rewrite <- E. apply last_In. exact Hm.
    + destruct (IH v Hnd' Hd) as (I1 & I2). cbn [map fst snd]. rewrite I1, I2. split; [reflexivity|].
      destruct (map snd d); [congruence | reflexivity].
Qed.

Lemma join_hd_empty sep : forall l, join sep l = "" -> hd "" l = "".
Proof.
  intros [|a [|b l]] H; [reflexivity | exact H |]. rewrite join_cons2 in H.
  destruct a; [reflexivity | discriminate].
Qed.

Lemma Forall_removelast' {A} (P : A -> Prop) : forall l, Forall P l -> Forall P (removelast l).
Proof.
  induction l as [|a l IH]; intros H; [constructor|]. inversion H; subst.
  destruct l as [|b l]; [constructor|]. change (removelast (a :: b :: l)) with (a :: removelast (b :: l)).
  constructor; [assumption | apply IH; assumption].
Qed.

Lemma removelast_length {A} (l : list A) : List.length (removelast l) = List.length l - 1.
Proof. rewrite removelast_firstn_len, firstn_length. lia. Qed.

Lemma map_removelast' {A B} (f : A -> B) : forall l, map f (removelast l) = removelast (map f l).
Proof.
  induction l as [|a l IH]; [reflexivity|]. destruct l as [|b l]; [reflexivity|].
  change (removelast (a :: b :: l)) with (a :: removelast (b :: l)).
  change (map f (a :: b :: l)) with (f a :: f b :: map f l).
  change (removelast (f a :: f b :: map f l)) with (f a :: removelast (f b :: map f l)).
  cbn [map]. rewrite IH. reflexivity.
Qed.

(* "<s>" = "<parent>/<last>" for a string of at least two segments *)
Lemma par_str_last s : 2 <= List.length (split_c "/" s) ->
  s = par_str s ++ "/" ++ last (split_c "/" s) "".
Proof.
  intros Hl. unfold par_str. rewrite <- (join_split_c "/" s) at 1.
  rewrite (app_removelast_last "" (split_c_not_nil "/" s)) at 1.
  apply (join_snoc "/"). intros E. pose proof (removelast_length (split_c "/" s)) as L. rewrite E in L.
  simpl in L. lia.
Qed.

Lemma set_last_child s v : 2 <= List.length (split_c "/" s) -> set_last s v = child_str (par_str s) v.
Proof.
  intros Hl. unfold set_last, child_str, par_str. apply (join_snoc "/"). intros E.
  pose proof (removelast_length (split_c "/" s)) as L. rewrite E in L. simpl in L. lia.
Qed.

Lemma set_last_single s v : List.length (split_c "/" s) = 1 -> set_last s v = v.
Proof.
  intros Hl. unfold set_last. destruct (split_c "/" s) as [|a [|b l]]; try discriminate Hl. reflexivity.
Qed.

Lemma split_c_snoc c a v : mem_c c v = false -> split_c c (a ++ String c v) = (split_c c a ++ [v])%list.
Proof.
  intros Hv. induction a as [|x a IH].
  - cbn [append split_c]. rewrite Ascii.eqb_refl. rewrite (split_c_nomem c v Hv). reflexivity.
  - cbn [append split_c]. destruct (Ascii.eqb x c); [rewrite IH; reflexivity|].
    rewrite IH. destruct (split_c c a) as [|h t] eqn:E; [exfalso; exact (split_c_not_nil c a E)|]. reflexivity.
Qed.

(* below a parent: the last segment of "<p>/<w>" replaced by v is "<p>/<v>" *)
Lemma set_last_below p w v : mem_c "/" w = false -> set_last (child_str p w) v = child_str p v.
Proof.
  intros Hw. unfold set_last, child_str. change ("/" ++ w) with (String "/" w).
  rewrite (split_c_snoc "/" p w Hw), removelast_last.
  rewrite (join_snoc "/" (split_c "/" p) v (split_c_not_nil _ _)).
  change (join "/") with (join (str1 "/")). rewrite join_split_c. reflexivity.
Qed.

Lemma par_str_child p w : mem_c "/" w = false -> par_str (child_str p w) = p.
Proof.
  intros Hw. unfold par_str, child_str. change ("/" ++ w) with (String "/" w).
  rewrite (split_c_snoc "/" p w Hw), removelast_last.
  change (join "/") with (join (str1 "/")). apply join_split_c.
Qed.

(** * Sids: typed searches through the factory, [get_as], [parent], [get_with] *)

Lemma acceptedb_spec Ld keys s : acceptedb Ld keys s = true <-> accepted Ld keys s.
Proof.
  unfold acceptedb, accepted. rewrite existsb_exists. split.
  - intros (t & Hin & H). apply andb_true_iff in H. destruct H as (H1 & H2). exists t.
    split; [exact Hin|]. split; [apply strs_eqb_eq; exact H1|]. destruct (accepts t s); [discriminate | discriminate].
  - intros (t & Hin & <- & H). exists t. split; [exact Hin|]. rewrite strs_eqb_refl.
    destruct (accepts t s); [reflexivity | congruence].
Qed.

Lemma const_value_okb_spec v : const_value_okb v = true ->
  v <> "" /\ mem_c "/" v = false /\ mem_c "010" v = false.
Proof.
  unfold const_value_okb. intros H. apply andb_true_iff in H. destruct H as (H & H3).
  apply andb_true_iff in H. destruct H as (H1 & H2). apply negb_true_iff in H1, H2, H3.
  split; [apply sempty_false; exact H1 | split; assumption].
Qed.

Section Sids.
Variables (c : Conf) (Ld : Loaded).
Hypothesis Hload : load c = Some Ld.
Hypothesis Hwf : wf_loadedb Ld = true.

Local Notation tpls := (r_tpls (l_sid Ld)).
Local Notation names t := (item_names (tp_items t)).

(* the parts of a typed search *)
Lemma ts_parts x : typed_search Ld x ->
  s_string x <> "" /\
  exists ts, In ts tpls /\ tp_name ts = s_type x /\ accepts ts (s_string x) = Some (s_fields x) /\
    map fst (s_fields x) = names ts /\ map snd (s_fields x) = split_c "/" (s_string x) /\
    s_fields x <> [] /\ s_string x = join "/" (map snd (s_fields x)) /\ NoDup (map fst (s_fields x)).
Proof.
  intros H. destruct (forced_inv Ld _ _ _ _ H) as (_ & Hs & ts & Hin & Hn & Ha).
  destruct (accepts_fields Ld Hwf ts _ _ Hin Ha) as (Hfst & Hsnd & Hne & Hjoin).
  destruct (tpl_parts Ld Hwf ts Hin) as (_ & Hnd & _).
  split; [exact Hs|]. exists ts. repeat split; try assumption. rewrite Hfst. exact Hnd.
Qed.

Lemma ts_sid_bool x : typed_search Ld x -> sid_bool x = true.
Proof.
  intros H. destruct (ts_parts x H) as (_ & ts & _ & _ & _ & _ & _ & Hne & _).
  unfold sid_bool. destruct (s_fields x); [congruence | reflexivity].
Qed.

Lemma ts_len x : typed_search Ld x -> List.length (split_c "/" (s_string x)) = List.length (s_fields x).
Proof.
  intros H. destruct (ts_parts x H) as (_ & ts & _ & _ & _ & _ & Hsnd & _).
  rewrite <- Hsnd, map_length. reflexivity.
Qed.

Lemma ts_uri x : typed_search Ld x -> uri x = s_type x ++ ":" ++ s_string x.
Proof.
  intros H. destruct (ts_parts x H) as (_ & ts & Hin & Hn & _).
  destruct (tpl_name_ok Ld Hwf ts Hin) as (Hne & _). rewrite Hn in Hne. unfold uri.
  apply sempty_false in Hne. rewrite Hne. rewrite app_assoc_s. reflexivity.
Qed.

(* the factory reads a typed search back as itself (Sid(sid), Sid(uri)) *)
Lemma ts_roundtrip x : typed_search Ld x -> mem_c "?" (s_string x) = false ->
  sid_factory Ld (FromSid x) = Ok x /\ Sid Ld (uri x) = Ok x.
Proof.
  intros H Hq. destruct (ts_parts x H) as (_ & ts & Hin & Hn & _).
  destruct (tpl_name_ok Ld Hwf ts Hin) as (Hne & Hc & Hq1). rewrite Hn in Hne, Hc, Hq1.
  assert (G : Sid Ld (uri x) = Ok x).
  { rewrite (ts_uri x H), (Sid_uri c Ld Hload Hwf _ _ Hq Hc Hq1).
    apply sempty_false in Hne. rewrite Hne. unfold typed_search in H. rewrite H. destruct x; reflexivity. }
  split; [|exact G]. cbn [sid_factory]. rewrite (ts_sid_bool x H).
  unfold Sid, sid_factory in G. destruct (sempty (uri x)) eqn:E; [|exact G].
  rewrite (ts_uri x H) in E. apply sempty_false in Hne. destruct (s_type x); discriminate.
Qed.

(** ** The factory on a dict in the key order of an existing template: typed iff some template with
    these keys accepts the joined values *)
Lemma fields_decide (dd : dict string) tq :
  dd <> [] -> NoDup (map fst dd) -> Forall (fun v => mem_c "/" v = false) (map snd dd) ->
  mem_c "010" (join "/" (map snd dd)) = false -> join "/" (map snd dd) <> "" ->
  In tq tpls -> names tq = map fst dd ->
  if acceptedb Ld (map fst dd) (join "/" (map snd dd))
  then exists n, sid_of_fields Ld dd = Ok (mkSid (join "/" (map snd dd)) n dd) /\
                 forced Ld n (join "/" (map snd dd)) = Some (n, dd)
  else sid_of_fields Ld dd = Ok empty_sid.
Proof.
  intros Hdd Hnd Hsl Hnl Hne Hq Hnq. set (j := join "/" (map snd dd)) in *.
  destruct (acceptedb Ld (map fst dd) j) eqn:Eacc.
  - apply acceptedb_spec in Eacc. destruct Eacc as (t & Hin & Hn & Ha).
    exact (fields_hit c Ld Hload Hwf dd t Hdd Hnd Hsl Hnl Hne Hin Hn Ha).
  - rewrite (sid_of_fields_eq c Ld Hload Hwf dd Hdd).
    destruct (flat_map (fhit Ld dd) tpls) as [|[n f] rest] eqn:E; [reflexivity|]. exfalso.
    destruct (fhit_in Ld dd n f) as (t1 & Hin1 & Hn1 & Hf). { rewrite E. left. reflexivity. }
    destruct (format_tpl_cases c Ld Hload Hwf t1 dd Hin1) as [H | (Hk & H & Hne1)];
      [rewrite H in Hf; discriminate|].
    assert (Hnames : names t1 = map fst dd).
    { rewrite <- Hnq. apply keys_eq_iff in Hk. destruct Hk as (Hk1 & Hk2). unfold dkeys in *.
      rewrite <- Hnq in Hk1, Hk2. apply (same_seq Ld Hwf t1 tq Hin1 Hq); assumption. }
    assert (Hfs : fmt_str t1 dd = j) by (apply fmt_str_same; [exact Hnd | exact Hnames | reflexivity]).
    pose proof (format_tpl_nonl c Ld Hload Hwf t1 dd Hin1 Hk) as Hfn. rewrite Hfs in Hfn.
    specialize (Hfn Hnl Hne). rewrite Hf in Hfn.
    assert (Hacc : accepted Ld (map fst dd) j).
    { exists t1. split; [exact Hin1|]. split; [exact Hnames|].
      destruct (accepts t1 j); [discriminate | discriminate]. }
    apply acceptedb_spec in Hacc. congruence.
Qed.

(** ** [get_as] at the last key: the Sid built again from its own fields (the type may change among
    the templates with these keys that accept the string; string and fields are kept) *)
Lemma ts_root x : typed_search Ld x -> mem_c "010" (s_string x) = false ->
  exists n, get_as Ld x (last (map fst (s_fields x)) "") = Ok (mkSid (s_string x) n (s_fields x)) /\
            typed_search Ld (mkSid (s_string x) n (s_fields x)).
Proof.
  intros H Hnl. destruct (ts_parts x H) as (Hs & ts & Hin & Hn & Ha & Hfst & Hsnd & Hne & Hj & Hnd).
  destruct (fields_hit c Ld Hload Hwf (s_fields x) ts Hne Hnd) as (n & Hsf & Hfo).
  - rewrite Hsnd. apply split_c_nomem_all.
  - rewrite <- Hj. exact Hnl.
  - rewrite <- Hj. exact Hs.
  - exact Hin.
  - symmetry. exact Hfst.
  - rewrite <- Hj, Ha. discriminate.
  - rewrite <- Hj in Hsf, Hfo. exists n. split; [|exact Hfo].
    unfold get_as. destruct (s_fields x) as [|p d0] eqn:Ed; [congruence|].
    rewrite (dmem_last _ Hne), (fields_upto_last _ Hnd Hne). exact Hsf.
Qed.

(* a naturally typed Sid is its own root *)
Lemma nat_root x : naturally_typed Ld x -> mem_c "010" (s_string x) = false ->
  get_as Ld x (last (map fst (s_fields x)) "") = Ok x.
Proof.
  intros H Hnl. pose proof (nat_forced c Ld Hload Hwf x H) as Ht.
  destruct (ts_parts x Ht) as (_ & ts & _ & _ & _ & _ & _ & Hne & _ & Hnd).
  pose proof (roundtrip_fields c Ld Hload Hwf x (s_fields x) H Hnl (Permutation.Permutation_refl _)) as Hr.
  unfold get_as. destruct (s_fields x) as [|p d0] eqn:Ed; [congruence|].
  rewrite (dmem_last _ Hne), (fields_upto_last _ Hnd Hne). exact Hr.
Qed.

(** ** the prefix of a typed search, built from fields (SidProofs.prefix_fields without natural typing) *)
Lemma ts_prefix x i : typed_search Ld x -> mem_c "010" (s_string x) = false ->
  1 <= i <= List.length (s_fields x) ->
  exists n, sid_of_fields Ld (firstn i (s_fields x)) =
            Ok (mkSid (join "/" (firstn i (split_c "/" (s_string x)))) n (firstn i (s_fields x))) /\
            forced Ld n (join "/" (firstn i (split_c "/" (s_string x)))) = Some (n, firstn i (s_fields x)).
Proof.
  intros H Hnl Hi.
  destruct (ts_parts x H) as (Hs & tp & Hin & _ & Ha & Hfst & Hsnd & Hne & _ & Hnd).
  destruct (tpl_parts Ld Hwf tp Hin) as (Hsh & _ & ps & Hps & _ & Hpn).
  set (d := s_fields x) in *. set (s := s_string x) in *.
  assert (Hlen : List.length (names tp) = List.length d) by (rewrite <- Hfst, map_length; reflexivity).
  destruct (prefix_tpl Ld Hwf tp (i - 1) Hin) as (tq & Hq & Hitems); [lia|].
  assert (Hi1 : i - 1 + 1 = i) by lia.
  assert (Hnq : names tq = map fst (firstn i d)).
  { rewrite Hitems, (names_firstn _ Hsh), Hi1, <- Hfst, firstn_map. reflexivity. }
  assert (Hsnd' : map snd (firstn i d) = firstn i (split_c "/" s)).
  { rewrite <- firstn_map, Hsnd. reflexivity. }
  rewrite <- Hsnd'.
  assert (Hsl : Forall (fun v => mem_c "/" v = false) (map snd (firstn i d))).
  { rewrite Hsnd'. apply Forall_firstn. apply split_c_nomem_all. }
  assert (Hdd : firstn i d <> []) by (apply firstn_ne; [lia | exact Hne]).
  assert (Hne' : join "/" (map snd (firstn i d)) <> "").
  { pose proof (first_seg_nonempty Ld Hwf tp s _ Hin Ha) as Hg.
    rewrite Hsnd'. destruct (split_c "/" s) as [|g segs]; cbn [hd] in Hg; [congruence|].
    destruct i as [|i]; [lia|]. cbn [firstn].
    destruct (firstn i segs); [exact Hg|]. rewrite join_cons2. destruct g; [congruence | discriminate]. }
  apply (fields_hit c Ld Hload Hwf (firstn i d) tq Hdd).
  - rewrite <- firstn_map. apply NoDup_firstn. exact Hnd.
  - exact Hsl.
  - rewrite Hsnd'. apply mem_c_join; [reflexivity|]. apply Forall_firstn. apply mem_c_split. exact Hnl.
  - exact Hne'.
  - exact Hq.
  - exact Hnq.
  - unfold TypingSpec.accepts. rewrite Hitems, (phs_firstn _ Hsh ps (i - 1) Hps), Hi1. cbv zeta.
    assert (Hmne : map snd (firstn i d) <> []) by (intros E; apply map_eq_nil in E; congruence).
    pose proof (split_c_join "/" _ Hmne Hsl) as Hsj. unfold str1 in Hsj. rewrite Hsj.
    unfold TypingSpec.accepts in Ha. rewrite Hps in Ha. cbv zeta in Ha.
    destruct (segs_ok ps (split_c "/" s)) eqn:Eok; [|discriminate].
    rewrite Hsnd', (segs_ok_firstn i _ _ Eok). discriminate.
Qed.

Lemma ts_get_as_prefix x i : typed_search Ld x -> mem_c "010" (s_string x) = false ->
  1 <= i <= List.length (s_fields x) ->
  exists n, get_as Ld x (nth (i - 1) (map fst (s_fields x)) "") =
            Ok (mkSid (join "/" (firstn i (split_c "/" (s_string x)))) n (firstn i (s_fields x))) /\
            forced Ld n (join "/" (firstn i (split_c "/" (s_string x)))) = Some (n, firstn i (s_fields x)).
Proof.
  intros H Hnl Hi.
  destruct (ts_prefix x i H Hnl Hi) as (n & Hsf & Hfo).
  destruct (ts_parts x H) as (_ & ts & _ & _ & _ & _ & _ & _ & _ & Hnd).
  exists n. split; [|exact Hfo].
  assert (Hm : dmem (s_fields x) (nth (i - 1) (map fst (s_fields x)) "") = true).
  { unfold dmem. destruct (dget (s_fields x) (nth (i - 1) (map fst (s_fields x)) "")) eqn:E; [reflexivity|].
    exfalso. apply dget_None_keys in E. apply E. apply nth_In. rewrite map_length. lia. }
  unfold get_as.
  destruct (s_fields x) as [|p d0] eqn:Ed; [simpl in Hi; lia|].
  rewrite Hm. rewrite (fields_upto_nth _ (i - 1) Hnd) by lia.
  replace (S (i - 1)) with i by lia.
  unfold sid_factory. destruct i as [|i]; [lia|]. exact Hsf.
Qed.

(** ** [parent] of a typed search *)
Lemma ts_parent_top x : typed_search Ld x -> mem_c "?" (s_string x) = false ->
  List.length (s_fields x) = 1 -> parent Ld x = Ok x.
Proof.
  intros H Hq Hn. destruct (ts_roundtrip x H Hq) as (_ & G). unfold parent, sid_copy, dkeys.
  destruct (s_fields x) as [|[k v] [|p d0]]; try discriminate Hn. exact G.
Qed.

Lemma ts_parent x : typed_search Ld x -> mem_c "010" (s_string x) = false ->
  2 <= List.length (s_fields x) ->
  exists n, parent Ld x = Ok (mkSid (par_str (s_string x)) n (removelast (s_fields x))) /\
            typed_search Ld (mkSid (par_str (s_string x)) n (removelast (s_fields x))).
Proof.
  intros H Hnl Hn.
  destruct (ts_get_as_prefix x (List.length (s_fields x) - 1) H Hnl) as (n & Hg & Hfo); [lia|].
  replace (List.length (s_fields x) - 1 - 1) with (List.length (s_fields x) - 2) in Hg by lia.
  assert (E1 : firstn (List.length (s_fields x) - 1) (s_fields x) = removelast (s_fields x)).
  { rewrite removelast_firstn_len. f_equal. lia. }
  assert (E2 : join "/" (firstn (List.length (s_fields x) - 1) (split_c "/" (s_string x))) = par_str (s_string x)).
  { unfold par_str. rewrite removelast_firstn_len, (ts_len x H). f_equal. f_equal. lia. }
  rewrite E1, E2 in Hg, Hfo. exists n. split; [|exact Hfo].
  unfold parent, dkeys.
  destruct (rev_second (map fst (s_fields x))) as (a & l' & E); [rewrite map_length; lia|].
  rewrite E, map_length. exact Hg.
Qed.

(** ** [get_with(key=v)]: typed iff a template with the resulting keys accepts the resulting string *)
Lemma kw_generic x key v tq : sid_bool x = true ->
  let data := dset (s_fields x) key v in
  NoDup (map fst data) -> Forall (fun w => mem_c "/" w = false) (map snd data) ->
  mem_c "010" (join "/" (map snd data)) = false -> join "/" (map snd data) <> "" ->
  In tq tpls -> names tq = map fst data ->
  if acceptedb Ld (map fst data) (join "/" (map snd data))
  then exists n, get_with_kw Ld x [(key, Some v)] = Ok (mkSid (join "/" (map snd data)) n data) /\
                 typed_search Ld (mkSid (join "/" (map snd data)) n data)
  else get_with_kw Ld x [(key, Some v)] = Ok empty_sid.
Proof.
  intros Hb data Hnd Hsl Hnl Hne Hq Hnq.
  assert (Hdd : data <> []).
  { unfold data. destruct (s_fields x) as [|[k' v'] t]; cbn [dset]; [discriminate|].
    destruct (String.eqb key k'); discriminate. }
  pose proof (fields_decide data tq Hdd Hnd Hsl Hnl Hne Hq Hnq) as Hdec.
  unfold get_with_kw. rewrite Hb. cbn [negb]. rewrite andb_false_r.
  change (apply_kwargs (s_fields x) [(key, Some v)]) with data.
  assert (Hf : sid_factory Ld (FromFields data) = sid_of_fields Ld data).
  { cbn [sid_factory]. destruct data; [congruence | reflexivity]. }
  rewrite Hf. destruct (acceptedb Ld (map fst data) (join "/" (map snd data))).
  - destruct Hdec as (n & Hsf & Hfo). exists n. split; [|exact Hfo]. rewrite Hsf. cbn [bind].
    assert (Hb' : sid_bool (mkSid (join "/" (map snd data)) n data) = true).
    { unfold sid_bool. cbn [s_fields]. destruct data; [congruence | reflexivity]. }
    rewrite Hb'. cbn [negb]. rewrite andb_false_r. reflexivity.
  - rewrite Hdec. cbn [bind]. rewrite (is_search_empty Ld Hwf). reflexivity.
Qed.

Lemma hd_app_ne (l : list string) v : l <> [] -> hd "" (l ++ [v])%list = hd "" l.
Proof. destruct l; [congruence | reflexivity]. Qed.

(* replacing the value of the last key *)
Lemma kw_last x v : typed_search Ld x -> mem_c "010" (s_string x) = false -> const_value_okb v = true ->
  if acceptedb Ld (map fst (s_fields x)) (set_last (s_string x) v)
  then exists r, get_with_kw Ld x [(last (map fst (s_fields x)) "", Some v)] = Ok r /\
                 sid_bool r = true /\ s_string r = set_last (s_string x) v
  else get_with_kw Ld x [(last (map fst (s_fields x)) "", Some v)] = Ok empty_sid.
Proof.
  intros H Hnl Hv. destruct (const_value_okb_spec v Hv) as (Hv1 & Hv2 & Hv3).
  destruct (ts_parts x H) as (Hs & ts & Hin & _ & Ha & Hfst & Hsnd & Hne & _ & Hnd).
  destruct (dset_last (s_fields x) v Hnd Hne) as (D1 & D2). rewrite Hsnd in D2.
  pose proof (kw_generic x (last (map fst (s_fields x)) "") v ts (ts_sid_bool x H)) as G. cbv zeta in G.
  rewrite D1, D2 in G. fold (set_last (s_string x) v) in G.
  assert (Hsl : Forall (fun w => mem_c "/" w = false) (removelast (split_c "/" (s_string x)) ++ [v])%list).
  { apply Forall_app. split; [apply Forall_removelast'; apply split_c_nomem_all|].
    constructor; [exact Hv2 | constructor]. }
  assert (Hnl' : mem_c "010" (set_last (s_string x) v) = false).
  { unfold set_last. apply mem_c_join; [reflexivity|]. apply Forall_app.
    split; [apply Forall_removelast'; apply mem_c_split; exact Hnl|]. constructor; [exact Hv3 | constructor]. }
  assert (Hne' : set_last (s_string x) v <> "").
  { unfold set_last. intros E. apply join_hd_empty in E.
    pose proof (first_seg_nonempty Ld Hwf ts _ _ Hin Ha) as Hg.
    destruct (nil_dec (removelast (split_c "/" (s_string x)))) as [E0|E0].
    - rewrite E0 in E. cbn in E. congruence.
    - rewrite (hd_app_ne _ v E0) in E. apply Hg. rewrite <- E.
      destruct (split_c "/" (s_string x)) as [|a [|b l]]; [reflexivity | cbn in E0; congruence | reflexivity]. }
  specialize (G Hnd Hsl Hnl' Hne' Hin (eq_sym Hfst)).
  destruct (acceptedb Ld (map fst (s_fields x)) (set_last (s_string x) v)); [|exact G].
  destruct G as (n & G & Ht). eexists. split; [exact G|]. split; [|reflexivity].
  exact (ts_sid_bool _ Ht).
Qed.

(* adding the key below a naturally typed Sid of the parent level *)
Lemma kw_below p t d key v tq : natural Ld p = Some (t, d) -> mem_c "010" p = false ->
  const_value_okb v = true -> In tq tpls -> names tq = (map fst d ++ [key])%list ->
  if acceptedb Ld (map fst d ++ [key])%list (child_str p v)
  then exists r, get_with_kw Ld (mkSid p t d) [(key, Some v)] = Ok r /\
                 sid_bool r = true /\ s_string r = child_str p v
  else get_with_kw Ld (mkSid p t d) [(key, Some v)] = Ok empty_sid.
Proof.
  intros Hnat Hnl Hv Hq Hnq. destruct (const_value_okb_spec v Hv) as (Hv1 & Hv2 & Hv3).
  set (x := mkSid p t d).
  assert (H : typed_search Ld x) by (apply (nat_forced c Ld Hload Hwf x); exact Hnat).
  destruct (ts_parts x H) as (Hs & ts & Hin & _ & Ha & Hfst & Hsnd & Hne & Hj & Hnd).
  cbn [x s_string s_fields] in Hs, Ha, Hfst, Hsnd, Hne, Hj, Hnd.
  assert (Hk : ~ In key (map fst d)).
  { destruct (tpl_parts Ld Hwf tq Hq) as (_ & Hndq & _). rewrite Hnq in Hndq.
    apply NoDup_remove_2 in Hndq. rewrite app_nil_r in Hndq. exact Hndq. }
  pose proof (kw_generic x key v tq (ts_sid_bool x H)) as G. cbv zeta in G. cbn [x s_fields] in G.
  rewrite (dset_new d key v Hk) in G. rewrite !map_app in G. cbn [map fst snd] in G.
  assert (Hms : map snd d <> []) by (intros E; apply map_eq_nil in E; congruence).
  assert (Ej : join "/" (map snd d ++ [v])%list = child_str p v).
  { rewrite (join_snoc "/" _ v Hms), <- Hj. reflexivity. }
  rewrite Ej in G.
  assert (P1 : NoDup (map fst d ++ [key])%list).
  { destruct (tpl_parts Ld Hwf tq Hq) as (_ & Hndq & _). rewrite Hnq in Hndq. exact Hndq. }
  assert (P2 : Forall (fun w => mem_c "/" w = false) (map snd d ++ [v])%list).
  { apply Forall_app. split; [rewrite Hsnd; apply split_c_nomem_all|]. constructor; [exact Hv2 | constructor]. }
  assert (P3 : mem_c "010" (child_str p v) = false).
  { unfold child_str. rewrite !mem_c_app, Hnl, Hv3. reflexivity. }
  assert (P4 : child_str p v <> "").
  { unfold child_str. destruct p; [congruence | discriminate]. }
  specialize (G P1 P2 P3 P4 Hq Hnq).
  destruct (acceptedb Ld (map fst d ++ [key])%list (child_str p v)); [|exact G].
  destruct G as (n & G & Ht). eexists. split; [exact G|]. split; [|reflexivity].
  exact (ts_sid_bool _ Ht).
Qed.

End Sids.
