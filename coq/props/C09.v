(** C09 — the ">" (last) operator returns the greatest entry of each group.  Property theorems only (list-backed finder;
    the file-system finders use the same sorted_search over their own star search). *)
From Coq Require Import List String Ascii Bool Arith Permutation Sorted.
From Spil Require Import Base.Str Base.Dict Base.Outcome Regex.Re Conf.Conf Conf.WF Sid.Sid
  Search.Unfold Search.FindList Search.Finders Search.GlobProofs Search.FindListProofs Search.UnfoldProofs Search.FindersProofs FS.Fs.
From Spil Require Import Conf.Routing Sid.SidProofs Path.UnambiguousDefs FS.Fs Search.Finders Search.TreeListDefs Search.TreeListProofs Data.Data Data.SidLevelDefs Search.LastAgreeProofs.
From SpilGen Require Hamlet.
Import ListNotations.
Local Open Scope string_scope.

(* comparison "segment by segment as strings" is a strict total order *)
Theorem C09_order : (forall a, segs_ltb a a = false)
  /\ (forall a b c, segs_ltb a b = true -> segs_ltb b c = true -> segs_ltb a c = true)
  /\ (forall a b, segs_ltb a b = false -> segs_ltb b a = false -> a = b).
Proof. exact segs_ltb_strict_total_order. Qed.
Print Assumptions C09_order.

Theorem C09_sort : forall l, Permutation l (sort_paths l) /\ StronglySorted path_le (sort_paths l).
Proof. exact sort_paths_spec. Qed.
Print Assumptions C09_sort.

(* one result per distinct combination of the segments before the ">" position: the greatest of its group *)
Theorem C09_groups : forall index l, StronglySorted seg_ge l ->
  let res := group_firsts (fun x => firstn index (split_c "/" x)) l None in
  incl res l /\
  (forall e, In e l -> exists r, In r res /\ firstn index (split_c "/" r) = firstn index (split_c "/" e) /\
                                  segs_ltb (split_c "/" r) (split_c "/" e) = false) /\
  NoDup (map (fun x => firstn index (split_c "/" x)) res).
Proof. exact group_firsts_spec. Qed.
Print Assumptions C09_groups.

Theorem C09_sorted_search : forall L qs items l, sorted_search L qs items = Ok l ->
  (qs = [] /\ l = []) \/
  exists q0 rest index founds,
    qs = q0 :: rest /\ index_of ">" (split_c "/" (s_string q0)) = Some index /\
    concat_mapM (fun q => do q' <- Sid L (replace ">" "*" (uri q)); star_search [q'] items) qs = Ok founds /\
    (let k := fun x => firstn index (split_c "/" x) in
     (forall r, In r l -> In r founds) /\
     (forall e, In e founds -> exists r, In r l /\ k r = k e /\ segs_ltb (split_c "/" r) (split_c "/" e) = false) /\
     NoDup (map k l)).
Proof. exact sorted_search_spec. Qed.
Print Assumptions C09_sorted_search.

(* the answer does not depend on which Finder serves it: two star searches enumerating the same candidate SET
   (in any order, with any duplicates) give the identical ">" answer *)
Theorem C09_finder_independent : forall Ld star1 star2,
  (forall qs l1 l2, star1 qs = Ok l1 -> star2 qs = Ok l2 -> forall e, In e l1 <-> In e l2) ->
  (forall qs, (exists l, star1 qs = Ok l) <-> (exists l, star2 qs = Ok l)) ->
  forall qs, match sorted_search_g Ld star1 qs, sorted_search_g Ld star2 qs with
             | Ok l1, Ok l2 => l1 = l2
             | Raise _, Raise _ => True
             | _, _ => False
             end.
Proof. exact set_equal_stars. Qed.
Print Assumptions C09_finder_independent.

(* junk in the tree does not change a ">" answer *)
Theorem C09_junk : forall Ld cfg F F',
  (forall p, In p (dkeys F) -> In p (dkeys F')) ->
  (forall p, In p (dkeys F') -> ~ In p (dkeys F) -> sid_factory Ld (FromPath p cfg) = Ok empty_sid) ->
  forall qs, match sorted_search_g Ld (paths_star Ld F cfg) qs, sorted_search_g Ld (paths_star Ld F' cfg) qs with
             | Ok l1, Ok l2 => l1 = l2
             | Raise _, Raise _ => True
             | _, _ => False
             end.
Proof. exact sorted_search_junk. Qed.
Print Assumptions C09_junk.

(* the repaired defect (D11): names containing a character below "/" *)
Example C09_instance :
  find_list Hamlet.the_loaded ["hamlet/a/fx/a/model"; "hamlet/a/fx/a-b/model"; "hamlet/a/fx/a-b"; "hamlet/a/fx/a"] "hamlet/a/*/>/model"
  = Ok ["hamlet/a/fx/a-b/model"].
Proof. vm_compute. reflexivity. Qed.
Print Assumptions C09_instance.

(** ** the answer does not depend on which Finder serves it (Search/LastAgreeProofs.v): over a data set materialised as a tree,
    the tree finder and the list finder give the IDENTICAL list for a ">" search (guards computed: the "*" versions of the
    searches are good path searches and their types cover the matching entities) *)

Theorem C09_tree_and_list_agree : forall c Ld cfg E F, load c = Some Ld -> wf_loadedb Ld = true -> paths_unambiguousb Ld = true ->
  dataset_okb Ld cfg E F = true ->
  forall qs l l', last_agree_guardb Ld cfg E qs = true ->
  sorted_search_g Ld (paths_star Ld F cfg) qs = Ok l ->
  sorted_search_g Ld (fun q => star_search q (map s_string E)) qs = Ok l' -> l = l'.
Proof. exact last_agree_sortedb. Qed.
Print Assumptions C09_tree_and_list_agree.

(* at the level of Finder.find: FindInPaths and FindInList *)
Theorem C09_find_agree : forall c Ld cfg E F, load c = Some Ld -> wf_loadedb Ld = true -> paths_unambiguousb Ld = true ->
  dataset_okb Ld cfg E F = true ->
  forall s qs idp l l', find_searches Ld s = Ok qs -> last_agree_guardb Ld cfg E qs = true -> existsb has_gt qs = true ->
  ffind Ld F (FPaths idp cfg) s = Ok l -> find_list Ld (map s_string E) s = Ok l' -> l = l'.
Proof. exact last_agree_findb. Qed.
Print Assumptions C09_find_agree.

(* ... and FindInAll (every typed search routed to the path finder) *)
Theorem C09_find_all_agree : forall c Ld cfg E F, load c = Some Ld -> wf_loadedb Ld = true -> paths_unambiguousb Ld = true ->
  dataset_okb Ld cfg E F = true ->
  forall Rt id s qs l l', unfold_search Ld s false false = Ok qs -> find_searches Ld s = Ok qs ->
  routed_tob Rt id cfg qs = true -> last_agree_guardb Ld cfg E qs = true -> existsb has_gt qs = true ->
  find_all Ld Rt F s = Ok l -> find_list Ld (map s_string E) s = Ok l' -> l = l'.
Proof. exact last_agree_find_allb. Qed.
Print Assumptions C09_find_all_agree.

(* instance: versions v001, v002 of one task, each with a scene and a movie file; the last version's files *)
Definition mk9 (s : string) : sid := match Sid Hamlet.the_loaded s with Ok x => x | Raise _ => empty_sid end.
Definition E9 : list sid := map mk9
  ["hamlet/a/char/ophelia/model/v001/w/ma"; "hamlet/a/char/ophelia/model/v001/w/mov";
   "hamlet/a/char/ophelia/model/v002/w/ma"; "hamlet/a/char/ophelia/model/v002/w/mov"].
Definition F9 : fs := map (fun e => (match sid_path Hamlet.the_loaded e "" with Ok (Some p) => p | _ => "" end, File CEmpty)) E9.
Definition qs9 : list sid := match unfold_search Hamlet.the_loaded "hamlet/a/char/ophelia/model/>/w/*" false false with Ok l => l | Raise _ => [] end.
Example C09_agree_instance :
  dataset_okb Hamlet.the_loaded "" E9 F9 = true /\ last_agree_guardb Hamlet.the_loaded "" E9 qs9 = true /\ existsb has_gt qs9 = true /\
  sorted_search_g Hamlet.the_loaded (paths_star Hamlet.the_loaded F9 "") qs9 = Ok ["hamlet/a/char/ophelia/model/v002/w/mov"] /\
  sorted_search_g Hamlet.the_loaded (fun q => star_search q (map s_string E9)) qs9 = Ok ["hamlet/a/char/ophelia/model/v002/w/mov"].
Proof. vm_compute. repeat split; reflexivity. Qed.
Print Assumptions C09_agree_instance.
