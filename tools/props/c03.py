"""C03 parent / get_as / '/' navigate one hierarchy."""
from harness.runner import PropBase, Case
from harness import gen

class C03(PropBase):
    id = 'C03'
    rule = ('every key of naturally typed sids (concrete and search) of every type: get_as(k), parent, parent / last value; '
            'untyped sids; non-trivial = navigation on a typed sid; distinct by (sid, op, key)')
    def cases(self, rng, ctx, tier):
        v = gen.vocab_from_ctx(ctx)
        n = 60 if tier == 'quick' else 1500
        out = []
        for t in v.order:
            for _ in range(n):
                out.append(Case('obs', [['s', v.sid(t, rng, search_p=rng.choice([0, 0, 0.3]))]], 'structured'))
        # a free last value that is the empty string (get_with(asset='') makes such Sids): parent / '' gives the Sid back
        for t in v.order:
            if v.alternatives(v.types[t][-1][1]) is None and len(v.types[t]) > 1:
                for _ in range(max(2, n // 20)):
                    segs = v.sid(t, rng).split('/')
                    out.append(Case('obs', [['s', '/'.join(segs[:-1] + [''])]], 'structured'))
        for _ in range(n * 3):
            s = gen.mutate_string(v.sid(v.any_type(rng), rng), rng, v)
            if '?' not in s:
                out.append(Case('obs', [['s', s]], 'malformed'))
        for _ in range(n):
            out.append(Case('obs', [['s', gen.junk_string(rng).replace('?', '')]], 'junk'))
        return out
    def phase2(self, rng, ctx, cases, impl_out, tier):
        more = []
        v = gen.vocab_from_ctx(ctx)
        for c, o in zip(cases, impl_out):
            if c.op != 'obs' or not isinstance(o, list) or not o or not isinstance(o[0], list):
                continue
            sid = o[0]
            string, ty, fields = sid
            src = ['s', o[3]]      # uri
            meta = {'orig': sid, 'natural': (o[3] == (ty + ':' + string if ty else string)) and c.args[0][1] == string}
            if o[1] == '1':
                for k, _ in fields:
                    more.append(Case('get_as', [src, k], 'get_as', meta))
                more.append(Case('get_as', [src, rng.choice(['foo', 'ext', 'node', ''])], 'get_as_absent', meta))
                more.append(Case('parent', [src], 'parent', meta))
                if len(fields) > 1:
                    pstr = '/'.join(val for _, val in fields[:-1])
                    more.append(Case('div', [['f', fields[:-1]], fields[-1][1]], 'div', meta))
                if rng.random() < 0.25 and not c.args[0][1].count(':') and not any(ch in string for ch in '*>,?\n') \
                        and not any(val in ('', '.', '..') for _, val in fields):      # (such values vanish in pathlib normalisation: D26, outside C05's value sets)
                    # the same Sid made from its own path (fields as the path resolver gives them)
                    for cfg in [pc[0] for pc in ctx['rawd']['path_configs']][:1]:
                        more.append(Case('via_path', [src, cfg, 'obs', ''], 'via_path', dict(meta, what='obs')))
                        k = rng.choice([a for a, _ in fields])
                        more.append(Case('via_path', [src, cfg, 'get_as', k], 'via_path', dict(meta, what='get_as', key=k)))
                        more.append(Case('via_path', [src, cfg, 'parent', ''], 'via_path', dict(meta, what='parent')))
                if rng.random() < 0.12 and len(fields) > 1:
                    # the same navigations after a caller played with the dictionary returned by .fields (in one process)
                    k = rng.choice([a for a, _ in fields])
                    more.append(Case('seq', [['fields_mutate', [src, rng.choice([a for a, _ in fields] + ['foo']), rng.choice(['zzz', '*', ''])]],
                                             ['get_as', [src, k]], ['parent', [src]], ['obs', [src]]], 'after_mutation', dict(meta, key=k)))
            else:
                more.append(Case('parent', [c.args[0]], 'untyped', meta))
                more.append(Case('get_as', [c.args[0], 'project'], 'untyped', meta))
                more.append(Case('div', [c.args[0], rng.choice(['x', 'a', '*', ''])], 'untyped', meta))
        return more
    def oracle(self, case, impl, ctx):
        v = gen.vocab_from_ctx(ctx)
        if case.op == 'obs':
            if not isinstance(impl, list) or not impl or not isinstance(impl[0], list):
                return 'Sid() failed: %r' % (impl,)
            string, ty, fields = impl[0]
            if impl[1] == '1':
                if impl[2] != str(len(fields)):
                    return 'len'
                if impl[5] != [fields[-1][0]]:
                    return 'keytype %r is not the last field name' % (impl[5],)
                if impl[4] != [ty.split(ctx['rawd']['sep'])[0]]:
                    return 'basetype %r is not the type prefix' % (impl[4],)
            else:
                if impl[2] != '0' or impl[4] != [] or impl[5] != []:
                    return 'untyped sid has len/basetype/keytype %r' % (impl[2:6],)
            return None
        orig = case.meta.get('orig')
        string, ty, fields = orig
        if case.op == 'via_path':
            if impl[0] != 'ok':
                return 'Sid(path=sid.path()) then %s raised %r' % (case.meta['what'], impl)
            got = impl[1]
            if got == []:
                return None          # no path for this type
            if not case.meta.get('natural'):
                return None
            w = case.meta['what']
            if w == 'obs' and got != orig:
                return 'the Sid made from the path of %r is %r (fields in another order, or another Sid)' % (orig, got)
            if w == 'get_as':
                i = [a for a, _ in fields].index(case.meta['key']) + 1
                if got[2] != fields[:i] or got[0] != '/'.join(string.split('/')[:i]):
                    return 'on the Sid made from the path of %r, get_as(%s) is %r' % (string, case.meta['key'], got)
            if w == 'parent' and len(fields) > 1 and got[2] != fields[:-1]:
                return 'on the Sid made from the path of %r, parent is %r' % (string, got)
            return None
        if case.op == 'seq':
            k = case.meta['key']
            i = [a for a, _ in fields].index(k) + 1
            _, ga, pa, ob = impl
            if ga[0] != 'ok' or ga[1][2] != fields[:i] or ga[1][0] != '/'.join(string.split('/')[:i]):
                return 'after mutating the dictionary returned by Sid(%r).fields, get_as(%s) is %r' % (case.args[0][1][0][1], k, ga)
            if pa[0] != 'ok' or pa[1][2] != fields[:-1]:
                return 'after mutating the dictionary returned by Sid(%r).fields, parent is %r' % (case.args[0][1][0][1], pa)
            if not isinstance(ob, list) or ob[0] != orig or ob[2] != str(len(fields)):
                return 'after mutating the dictionary returned by Sid(%r).fields, the Sid is %r (len %r)' % (case.args[0][1][0][1], ob[0] if isinstance(ob, list) else ob, ob[2] if isinstance(ob, list) and len(ob) > 2 else None)
            return None
        if impl[0] != 'ok':
            return '%s raised: %r' % (case.op, impl)
        got = impl[1]
        if case.stream == 'untyped':
            if case.op in ('parent', 'get_as') and got != ['', '', []]:
                return '%s on an untyped sid returned %r' % (case.op, got)
            return None
        if case.stream == 'get_as_absent':
            k = case.args[1]
            if k not in [a for a, _ in fields] and got != ['', '', []]:
                return 'get_as(absent key) returned %r' % (got,)
            return None
        if case.op == 'get_as':
            k = case.args[1]
            i = [a for a, _ in fields].index(k) + 1
            if got[2] != fields[:i]:
                return 'get_as(%s) fields %r are not the fields up to the key' % (k, got[2])
            if got[0] != '/'.join(string.split('/')[:i]):
                return 'get_as(%s) string %r is not the prefix of %r' % (k, got[0], string)
            if not got[1]:
                return 'get_as(%s) is untyped' % k
            return None
        if case.op == 'parent':
            if len(fields) == 1:
                if got != orig:
                    return 'a one-field Sid is not its own parent: %r' % (got,)
            else:
                if got[2] != fields[:-1] or got[0] != '/'.join(string.split('/')[:-1]) or not got[1]:
                    return 'parent is %r' % (got,)
            return None
        if case.op == 'div':
            # parent / last value gives back the Sid (for naturally typed sids)
            from props.c01 import natural
            nat = natural(v, string)
            if nat is not None and nat[0] == ty and got != orig:
                return 'parent / value = %r, expected %r' % (got, orig)
            return None
        return None
    def nontrivial(self, case, impl):
        if case.op == 'obs':
            return None
        return [case.op, case.args] if case.stream != 'untyped' else None
    def histogram_key(self, case, impl):
        return case.stream if case.op != 'obs' else 'obs:' + case.stream

PROP = C03()
