(** C12 at the level of Sids over a data set: find_all / exists / children / siblings for the types the
    routing table sends to the path finder. *)
From Coq Require Import List String Ascii Bool Arith Lia.
From Spil Require Import Base.Str Base.Dict Base.Outcome Base.PyPath Base.StrProofs Base.SplitProofs Regex.Re
  Resolva.Template Resolva.Resolver Conf.ConfUtil Conf.Conf Conf.WF Conf.Routing Sid.Query Sid.Sid Sid.TypingSpec
  Sid.SidLemmas Sid.SidProofs Path.UnambiguousDefs Path.UnambiguousProofs FS.Fs
  Search.Unfold Search.UnfoldProofs Search.SortLemmas Search.FindList Search.FindListProofs Search.Finders
  Search.FindersProofs Search.GlobProofs Search.DenoteLemmas Search.TreeGlob Search.TreePattern
  Search.TreeListDefs Search.TreeListProofs
  Data.Data Data.DataSpecProofs Data.SidLevelDefs.
Import ListNotations.
Local Open Scope string_scope.
Local Open Scope list_scope.

(** * Boolean guards are sound *)

Lemma is_pathsb_sound id cfg o : is_pathsb id cfg o = true -> o = Some (FPaths id cfg).
Proof.
  destruct o as [[i c'| |]|]; cbn [is_pathsb]; try discriminate.
  intros H. apply andb_true_iff in H. destruct H as (H1 & H2).
  apply String.eqb_eq in H1, H2. subst. reflexivity.
Qed.

Lemma routed_tob_sound Rt id cfg qs : routed_tob Rt id cfg qs = true -> routed_to Rt (FPaths id cfg) qs.
Proof.
  unfold routed_tob, routed_to. rewrite forallb_forall. intros H q Hq. apply is_pathsb_sound. exact (H q Hq).
Qed.

Lemma paths_searchesb_sound Ld Rt id cfg qs : paths_searchesb Ld Rt id cfg qs = true ->
  routed_to Rt (FPaths id cfg) qs /\ searches_ok Ld cfg qs /\ pat_inj Ld cfg qs.
Proof.
  unfold paths_searchesb. intros H. apply andb_true_iff in H. destruct H as (H & H3).
  apply andb_true_iff in H. destruct H as (H1 & H2).
  split; [exact (routed_tob_sound _ _ _ _ H1)|].
  split; [exact (searches_okb_sound _ _ _ H2) | exact (pat_injb_sound _ _ _ H3)].
Qed.

Lemma self_unfoldb_sound x qs : self_unfoldb x qs = true ->
  In x qs /\ forall q, In q qs -> s_string q = s_string x.
Proof.
  unfold self_unfoldb. intros H. apply andb_true_iff in H. destruct H as (H1 & H2). split.
  - apply existsb_exists in H1. destruct H1 as (y & Hy & Heq). rewrite (sid_eqb_full_eq _ _ Heq). exact Hy.
  - rewrite forallb_forall in H2. intros q Hq. apply String.eqb_eq. exact (H2 q Hq).
Qed.

Lemma under_parentb_sound par qs : under_parentb par qs = true ->
  forall q, In q qs -> parent_str (s_string q) = par.
Proof. unfold under_parentb. rewrite forallb_forall. intros H q Hq. apply String.eqb_eq. exact (H q Hq). Qed.

Lemma coveredb_sound E qs par : coveredb E qs par = true -> covered E qs par.
Proof.
  unfold coveredb, covered. rewrite forallb_forall. intros H e He Hp. specialize (H e He).
  rewrite Hp, String.eqb_refl in H. cbn [negb orb] in H. apply existsb_exists in H.
  destruct H as (q & Hq & Hc). apply andb_true_iff in Hc. destruct Hc as (Ht & Hg).
  apply String.eqb_eq in Ht. exists q. split; [exact Hq|]. split; [exact Ht|].
  unfold globs_b in Hg. destruct (glob_match (s_string q) (s_string e)) as [[|]|ex] eqn:Eg; try discriminate.
  apply (glob_match_spec _ _ _ Eg). reflexivity.
Qed.

(** * Grouping: searches that are all routed to one finder form one group *)

Lemma group_by_finder_one Rt fd : forall qs acc,
  routed_to Rt fd qs -> group_by_finder Rt qs [(fd, acc)] = [(fd, acc ++ qs)].
Proof.
  induction qs as [|q qs IH]; intros acc H.
  - cbn [group_by_finder]. rewrite app_nil_r. reflexivity.
  - rewrite group_by_finder_cons, (H q (or_introl eq_refl)). cbn [add_to].
    rewrite String.eqb_refl, IH.
    + rewrite <- app_assoc. reflexivity.
    + intros q' Hq'. apply H. right. exact Hq'.
Qed.

Lemma group_by_finder_same Rt fd qs : routed_to Rt fd qs ->
  group_by_finder Rt qs [] = match qs with [] => [] | _ => [(fd, qs)] end.
Proof.
  destruct qs as [|q qs]; intros H; [reflexivity|].
  rewrite group_by_finder_cons, (H q (or_introl eq_refl)). cbn [add_to].
  rewrite group_by_finder_one; [reflexivity|]. intros q' Hq'. apply H. right. exact Hq'.
Qed.

(* find_all, when every typed search is routed to the same finder: one do_find of that finder *)
Lemma find_all_one_finder Ld Rt F fd s qs l :
  unfold_search Ld s false false = Ok qs -> routed_to Rt fd qs ->
  find_all Ld Rt F s = Ok l ->
  exists r, do_find_g Ld (fstar Ld F fd) qs = Ok r /\ forall x, In x l <-> In x r.
Proof.
  intros Hu Hr H. unfold find_all in H. rewrite Hu in H. cbn [bind] in H.
  rewrite (group_by_finder_same Rt fd qs Hr) in H. destruct qs as [|q qs].
  - cbn [concat_mapM bind] in H. inversion H; subst l. exists []. split; [reflexivity|]. intros x. reflexivity.
  - cbn [concat_mapM fst snd] in H.
    destruct (do_find_g Ld (fstar Ld F fd) (q :: qs)) as [r|e]; cbn [bind] in H; [|discriminate].
    inversion H; subst l. exists r. split; [reflexivity|]. intros x.
    rewrite dedup_first_In, app_nil_r. reflexivity.
Qed.

(* conversely the search succeeds when the unfolding and that do_find do *)
Lemma find_all_one_finder_ok Ld Rt F fd s qs r :
  unfold_search Ld s false false = Ok qs -> routed_to Rt fd qs ->
  do_find_g Ld (fstar Ld F fd) qs = Ok r ->
  find_all Ld Rt F s = Ok (dedup_first r).
Proof.
  intros Hu Hr H. unfold find_all. rewrite Hu. cbn [bind].
  rewrite (group_by_finder_same Rt fd qs Hr). destruct qs as [|q qs].
  - cbn [concat_mapM bind]. cbn in H. inversion H. reflexivity.
  - cbn [concat_mapM fst snd]. rewrite H. cbn [bind]. rewrite app_nil_r. reflexivity.
Qed.

(** * 1. find_all over a data set, path-routed types *)

Section Level.
Variables (c : Conf) (Ld : Loaded).
Hypothesis Hload : load c = Some Ld.
Hypothesis Hwf : wf_loadedb Ld = true.
Hypothesis Hpu : paths_unambiguousb Ld = true.
Variable cfg : string.
Variable E : list sid.
Variable F : fs.
Hypothesis HD : dataset_ok Ld cfg E F.
Variable Rt : Routing.
Variable id : string.

(* a good search has no ">" in its string *)
Lemma search_ok_no_gt q : typed_search Ld q -> search_okb Ld cfg q = true -> count ">" (s_string q) = 0.
Proof.
  intros Ht Hok. unfold search_okb in Hok.
  apply andb_true_iff in Hok. destruct Hok as (Hok & _). apply andb_true_iff in Hok. destruct Hok as (Hok & _).
  apply andb_true_iff in Hok. destruct Hok as (_ & Hgt).
  destruct (typed_parts c Ld Hload Hwf q Ht) as (_ & _ & _ & _ & _ & _ & Hj & _).
  change ">" with (str1 ">"). rewrite count_str1. apply mem_c_count0. rewrite Hj.
  apply mem_c_join; [reflexivity|]. apply Forall_forall. intros v Hv.
  apply in_map_iff in Hv. destruct Hv as (kv & <- & Hkv).
  unfold no_gtb in Hgt. rewrite forallb_forall in Hgt. specialize (Hgt kv Hkv).
  apply negb_true_iff in Hgt. exact Hgt.
Qed.

Lemma searches_ok_no_gt qs : searches_ok Ld cfg qs ->
  existsb (fun q => Nat.ltb 0 (count ">" (s_string q))) qs = false.
Proof.
  intros Hqs. destruct (existsb _ qs) eqn:Ex; [|reflexivity]. exfalso.
  apply existsb_exists in Ex. destruct Ex as (q & Hq & Hlt). destruct (Hqs q Hq) as (Ht & Hok).
  rewrite (search_ok_no_gt q Ht Hok) in Hlt. discriminate.
Qed.

(** C12 / C11 at the level of FindInAll: the set of results of a search whose typed searches are all
    served by the path finder *)
Theorem find_all_paths_spec s qs l :
  unfold_search Ld s false false = Ok qs ->
  routed_to Rt (FPaths id cfg) qs -> searches_ok Ld cfg qs -> pat_inj Ld cfg qs ->
  find_all Ld Rt F s = Ok l ->
  forall r, In r l <->
    exists e q, In e E /\ In q qs /\ r = s_string e /\ s_type e = s_type q /\
                glob_rel (s_string q) (s_string e).
Proof.
  intros Hu Hr Hqs Hinj H r.
  destruct (find_all_one_finder Ld Rt F _ s qs l Hu Hr H) as (res & Hres & Hin).
  rewrite (do_find_star_g Ld _ qs (searches_ok_no_gt qs Hqs) eq_refl) in Hres. cbn [fstar] in Hres.
  rewrite (Hin r). exact (tree_search_glob c Ld Hload Hwf Hpu cfg E F HD qs Hqs Hinj res Hres r).
Qed.

(* the same with the guards as one boolean *)
Corollary find_all_paths_specb s qs l :
  unfold_search Ld s false false = Ok qs -> paths_searchesb Ld Rt id cfg qs = true ->
  find_all Ld Rt F s = Ok l ->
  forall r, In r l <->
    exists e q, In e E /\ In q qs /\ r = s_string e /\ s_type e = s_type q /\
                glob_rel (s_string q) (s_string e).
Proof.
  intros Hu Hg. destruct (paths_searchesb_sound _ _ _ _ _ Hg) as (H1 & H2 & H3).
  exact (find_all_paths_spec s qs l Hu H1 H2 H3).
Qed.

(** * 2. exists() *)

(* members of the data set have a non empty string *)
Lemma member_truthy e : In e E -> truthy (s_string e) = true.
Proof.
  intros He. pose proof (nat_typed_search c Ld Hload Hwf e (ds_nat _ _ _ _ HD e He)) as Ht.
  destruct (wt_parts Ld Hwf e Ht) as (_ & _ & _ & _ & Hs & _).
  unfold truthy. destruct (s_string e); [congruence | reflexivity].
Qed.

(* a naturally typed Sid is determined by its string *)
Lemma nat_typed_inj x y : naturally_typed Ld x -> naturally_typed Ld y -> s_string x = s_string y -> x = y.
Proof.
  unfold naturally_typed. intros Hx Hy E0. rewrite E0 in Hx. rewrite Hx in Hy. inversion Hy.
  destruct x, y. cbn in *. subst. reflexivity.
Qed.

Theorem sid_exists_spec x qs b :
  naturally_typed Ld x -> glob_magic (s_string x) = false ->
  unfold_search Ld (s_string x) false false = Ok qs ->
  In x qs -> (forall q, In q qs -> s_string q = s_string x) ->
  routed_to Rt (FPaths id cfg) qs -> searches_ok Ld cfg qs -> pat_inj Ld cfg qs ->
  sid_exists Ld Rt F x = Ok b -> (b = true <-> In x E).
Proof.
  intros Hnat Hpl Hu Hx Hstr Hr Hqs Hinj H.
  assert (Hne : s_fields x <> []).
  { destruct (typed_parts c Ld Hload Hwf x (nat_typed_search c Ld Hload Hwf x Hnat))
      as (_ & _ & _ & _ & _ & _ & _ & Hne & _). exact Hne. }
  destruct (Spil.Search.FindersProofs.sid_exists_spec Ld Rt F x b H Hne) as (l & Hl & ->).
  pose proof (find_all_paths_spec (s_string x) qs l Hu Hr Hqs Hinj Hl) as Hspec.
  split.
  - intros Hb. destruct l as [|s l']; [discriminate|].
    destruct (proj1 (Hspec s) (or_introl eq_refl)) as (e & q & He & Hq & -> & Hty & G).
    rewrite (Hstr q Hq) in G. apply glob_nomagic_eq in G; [|exact Hpl].
    rewrite (nat_typed_inj x e Hnat (ds_nat _ _ _ _ HD e He) G). exact He.
  - intros He. assert (Hin : In (s_string x) l).
    { apply Hspec. exists x, x. split; [exact He|]. split; [exact Hx|]. split; [reflexivity|].
      split; [reflexivity | apply glob_refl]. }
    destruct l as [|s l']; [destruct Hin|].
    destruct (proj1 (Hspec s) (or_introl eq_refl)) as (e & q & He' & _ & -> & _). exact (member_truthy e He').
Qed.

(* the guard as one boolean on x *)
Corollary sid_exists_specb x b :
  exists_guardb Ld Rt id cfg x = true ->
  sid_exists Ld Rt F x = Ok b -> (b = true <-> In x E).
Proof.
  unfold exists_guardb, plain_glob. intros Hg. apply andb_true_iff in Hg. destruct Hg as (Hg & Hu).
  apply andb_true_iff in Hg. destruct Hg as (Hnat & Hpl). apply negb_true_iff in Hpl.
  destruct (unfold_search Ld (s_string x) false false) as [qs|ex] eqn:Eu; [|discriminate].
  apply andb_true_iff in Hu. destruct Hu as (Hp & Hs).
  destruct (paths_searchesb_sound _ _ _ _ _ Hp) as (H1 & H2 & H3).
  destruct (self_unfoldb_sound _ _ Hs) as (H4 & H5).
  exact (sid_exists_spec x qs b (nat_typedb_sound Ld x Hnat) Hpl Eu H4 H5 H1 H2 H3).
Qed.

(** * 3. children() and siblings() *)

Lemma Forall2_removelast {A B} (P : A -> B -> Prop) : forall l1 l2,
  Forall2 P l1 l2 -> Forall2 P (removelast l1) (removelast l2).
Proof.
  induction 1 as [|a b l1 l2 Hab H IH]; [constructor|].
  cbn [removelast]. destruct H as [|a' b' l1' l2' Hab' H']; [constructor|].
  constructor; [exact Hab | exact IH].
Qed.

(* a glob match is a glob match of the parent strings *)
Lemma glob_parent p e : glob_rel p e -> glob_rel (parent_str p) (parent_str e).
Proof.
  intros G. apply glob_segmentwise in G. apply Forall2_removelast in G. unfold parent_str.
  destruct (removelast (split_c "/" p)) as [|a lp] eqn:Ep.
  - inversion G. cbn [join]. constructor.
  - rewrite <- Ep in *. apply glob_join_segments.
    + rewrite Ep. discriminate.
    + apply Spil.Search.DenoteLemmas.Forall_removelast. apply Spil.Sid.SidLemmas.split_c_nomem_all.
    + change (join "/") with (join (str1 "/")). rewrite split_c_join; [exact G | |].
      * intros E0. rewrite E0 in G. inversion G as [E1|]. rewrite Ep in E1. discriminate.
      * apply Spil.Search.DenoteLemmas.Forall_removelast. apply Spil.Sid.SidLemmas.split_c_nomem_all.
Qed.

(* what a search under a plain parent string globs has that parent string *)
Lemma glob_under_parent par q e :
  glob_magic par = false -> parent_str q = par -> glob_rel q e -> parent_str e = par.
Proof.
  intros Hpl Hq G. apply glob_parent in G. rewrite Hq in G. symmetry. exact (glob_nomagic_eq _ _ G Hpl).
Qed.

(* the set of results of a search whose typed searches all have the parent string [par] *)
Lemma find_under_parent s qs par l :
  unfold_search Ld s false false = Ok qs ->
  routed_to Rt (FPaths id cfg) qs -> searches_ok Ld cfg qs -> pat_inj Ld cfg qs ->
  glob_magic par = false -> (forall q, In q qs -> parent_str (s_string q) = par) ->
  find_all Ld Rt F s = Ok l ->
  forall r, In r l <->
    exists e, In e E /\ r = s_string e /\ parent_str (s_string e) = par /\
      exists q, In q qs /\ s_type e = s_type q /\ glob_rel (s_string q) (s_string e).
Proof.
  intros Hu Hr Hqs Hinj Hpl Hpar H r.
  rewrite (find_all_paths_spec s qs l Hu Hr Hqs Hinj H r). split.
  - intros (e & q & He & Hq & -> & Hty & G). exists e. split; [exact He|]. split; [reflexivity|].
    split; [exact (glob_under_parent par _ _ Hpl (Hpar q Hq) G)|]. exists q. repeat split; assumption.
  - intros (e & He & -> & _ & q & Hq & Hty & G). exists e, q. repeat split; assumption.
Qed.

Lemma find_under_parent_covered s qs par l :
  unfold_search Ld s false false = Ok qs ->
  routed_to Rt (FPaths id cfg) qs -> searches_ok Ld cfg qs -> pat_inj Ld cfg qs ->
  glob_magic par = false -> (forall q, In q qs -> parent_str (s_string q) = par) ->
  covered E qs par ->
  find_all Ld Rt F s = Ok l ->
  forall r, In r l <-> exists e, In e E /\ r = s_string e /\ parent_str (s_string e) = par.
Proof.
  intros Hu Hr Hqs Hinj Hpl Hpar Hcov H r.
  rewrite (find_under_parent s qs par l Hu Hr Hqs Hinj Hpl Hpar H r). split.
  - intros (e & He & Hr' & Hp & _). exists e. repeat split; assumption.
  - intros (e & He & Hr' & Hp). exists e. split; [exact He|]. split; [exact Hr'|]. split; [exact Hp|].
    exact (Hcov e He Hp).
Qed.

(** C12, children: the existing Sids whose parent string is the Sid, of the types of the searches
    "<sid>/*" unfolds to *)
Theorem children_spec_set x q0 qs l :
  is_leaf Ld x = false -> glob_magic (s_string x) = false ->
  sid_div Ld x "*" = Ok q0 -> unfold_search Ld (s_string q0) false false = Ok qs ->
  routed_to Rt (FPaths id cfg) qs -> searches_ok Ld cfg qs -> pat_inj Ld cfg qs ->
  (forall q, In q qs -> parent_str (s_string q) = s_string x) ->
  children Ld Rt F x = Ok l ->
  forall r, In r l <->
    exists e, In e E /\ r = s_string e /\ parent_str (s_string e) = s_string x /\
      exists q, In q qs /\ s_type e = s_type q /\ glob_rel (s_string q) (s_string e).
Proof.
  intros Hleaf Hpl Hdiv Hu Hr Hqs Hinj Hpar H.
  destruct (children_spec Ld Rt F x l Hleaf H) as ((q & Hq & Hf) & _).
  rewrite Hdiv in Hq. inversion Hq; subst q.
  exact (find_under_parent _ qs _ l Hu Hr Hqs Hinj Hpl Hpar Hf).
Qed.

(* when every member under x is of a searched type: exactly the members whose parent string is x *)
Theorem children_spec_covered x q0 qs l :
  is_leaf Ld x = false -> glob_magic (s_string x) = false ->
  sid_div Ld x "*" = Ok q0 -> unfold_search Ld (s_string q0) false false = Ok qs ->
  routed_to Rt (FPaths id cfg) qs -> searches_ok Ld cfg qs -> pat_inj Ld cfg qs ->
  (forall q, In q qs -> parent_str (s_string q) = s_string x) ->
  covered E qs (s_string x) ->
  children Ld Rt F x = Ok l ->
  forall r, In r l <-> exists e, In e E /\ r = s_string e /\ parent_str (s_string e) = s_string x.
Proof.
  intros Hleaf Hpl Hdiv Hu Hr Hqs Hinj Hpar Hcov H.
  destruct (children_spec Ld Rt F x l Hleaf H) as ((q & Hq & Hf) & _).
  rewrite Hdiv in Hq. inversion Hq; subst q.
  exact (find_under_parent_covered _ qs _ l Hu Hr Hqs Hinj Hpl Hpar Hcov Hf).
Qed.

(* the guards as one boolean on x *)
Corollary children_spec_setb x l :
  children_guardb Ld Rt id cfg x = true -> children Ld Rt F x = Ok l ->
  exists q0 qs, sid_div Ld x "*" = Ok q0 /\ unfold_search Ld (s_string q0) false false = Ok qs /\
    forall r, In r l <->
      exists e, In e E /\ r = s_string e /\ parent_str (s_string e) = s_string x /\
        exists q, In q qs /\ s_type e = s_type q /\ glob_rel (s_string q) (s_string e).
Proof.
  unfold children_guardb, plain_glob. intros Hg H. apply andb_true_iff in Hg. destruct Hg as (Hg & Hu).
  apply andb_true_iff in Hg. destruct Hg as (Hpl & Hleaf). apply negb_true_iff in Hpl, Hleaf.
  destruct (sid_div Ld x "*") as [q0|ex] eqn:Ed; [|discriminate].
  destruct (unfold_search Ld (s_string q0) false false) as [qs|ex] eqn:Eu; [|discriminate].
  apply andb_true_iff in Hu. destruct Hu as (Hp & Hpar).
  destruct (paths_searchesb_sound _ _ _ _ _ Hp) as (H1 & H2 & H3).
  exists q0, qs. split; [reflexivity|]. split; [exact Eu|].
  exact (children_spec_set x q0 qs l Hleaf Hpl Ed Eu H1 H2 H3 (under_parentb_sound _ _ Hpar) H).
Qed.

Corollary children_spec_coveredb x l :
  children_guardb Ld Rt id cfg x = true ->
  (forall q0 qs, sid_div Ld x "*" = Ok q0 -> unfold_search Ld (s_string q0) false false = Ok qs ->
                 covered E qs (s_string x)) ->
  children Ld Rt F x = Ok l ->
  forall r, In r l <-> exists e, In e E /\ r = s_string e /\ parent_str (s_string e) = s_string x.
Proof.
  unfold children_guardb, plain_glob. intros Hg Hcov H. apply andb_true_iff in Hg. destruct Hg as (Hg & Hu).
  apply andb_true_iff in Hg. destruct Hg as (Hpl & Hleaf). apply negb_true_iff in Hpl, Hleaf.
  destruct (sid_div Ld x "*") as [q0|ex] eqn:Ed; [|discriminate].
  specialize (Hcov q0).
  destruct (unfold_search Ld (s_string q0) false false) as [qs|ex] eqn:Eu; [|discriminate].
  apply andb_true_iff in Hu. destruct Hu as (Hp & Hpar).
  destruct (paths_searchesb_sound _ _ _ _ _ Hp) as (H1 & H2 & H3).
  exact (children_spec_covered x q0 qs l Hleaf Hpl Ed Eu H1 H2 H3 (under_parentb_sound _ _ Hpar)
           (Hcov qs eq_refl eq_refl) H).
Qed.

(** C12, siblings: the existing Sids with the parent string of the Sid, of the types of the searches
    "<parent>/*" unfolds to *)
Theorem siblings_spec_set x k a q0 qs l :
  keytype x = Some k -> glob_magic (parent_str (s_string x)) = false ->
  get_as Ld x k = Ok a -> get_with_kw Ld a [(k, Some "*")] = Ok q0 ->
  unfold_search Ld (s_string q0) false false = Ok qs ->
  routed_to Rt (FPaths id cfg) qs -> searches_ok Ld cfg qs -> pat_inj Ld cfg qs ->
  (forall q, In q qs -> parent_str (s_string q) = parent_str (s_string x)) ->
  siblings Ld Rt F x = Ok l ->
  forall r, In r l <->
    exists e, In e E /\ r = s_string e /\ parent_str (s_string e) = parent_str (s_string x) /\
      exists q, In q qs /\ s_type e = s_type q /\ glob_rel (s_string q) (s_string e).
Proof.
  intros Hk Hpl Ha Hq0 Hu Hr Hqs Hinj Hpar H.
  destruct (siblings_spec Ld Rt F x k l H Hk) as (a' & q' & Ha' & Hq' & Hf).
  rewrite Ha in Ha'. inversion Ha'; subst a'. rewrite Hq0 in Hq'. inversion Hq'; subst q'.
  exact (find_under_parent _ qs _ l Hu Hr Hqs Hinj Hpl Hpar Hf).
Qed.

Theorem siblings_spec_covered x k a q0 qs l :
  keytype x = Some k -> glob_magic (parent_str (s_string x)) = false ->
  get_as Ld x k = Ok a -> get_with_kw Ld a [(k, Some "*")] = Ok q0 ->
  unfold_search Ld (s_string q0) false false = Ok qs ->
  routed_to Rt (FPaths id cfg) qs -> searches_ok Ld cfg qs -> pat_inj Ld cfg qs ->
  (forall q, In q qs -> parent_str (s_string q) = parent_str (s_string x)) ->
  covered E qs (parent_str (s_string x)) ->
  siblings Ld Rt F x = Ok l ->
  forall r, In r l <->
    exists e, In e E /\ r = s_string e /\ parent_str (s_string e) = parent_str (s_string x).
Proof.
  intros Hk Hpl Ha Hq0 Hu Hr Hqs Hinj Hpar Hcov H.
  destruct (siblings_spec Ld Rt F x k l H Hk) as (a' & q' & Ha' & Hq' & Hf).
  rewrite Ha in Ha'. inversion Ha'; subst a'. rewrite Hq0 in Hq'. inversion Hq'; subst q'.
  exact (find_under_parent_covered _ qs _ l Hu Hr Hqs Hinj Hpl Hpar Hcov Hf).
Qed.

Corollary siblings_spec_setb x l :
  siblings_guardb Ld Rt id cfg x = true -> siblings Ld Rt F x = Ok l ->
  exists k a q0 qs, keytype x = Some k /\ get_as Ld x k = Ok a /\ get_with_kw Ld a [(k, Some "*")] = Ok q0 /\
    unfold_search Ld (s_string q0) false false = Ok qs /\
    forall r, In r l <->
      exists e, In e E /\ r = s_string e /\ parent_str (s_string e) = parent_str (s_string x) /\
        exists q, In q qs /\ s_type e = s_type q /\ glob_rel (s_string q) (s_string e).
Proof.
  unfold siblings_guardb, plain_glob. intros Hg H. apply andb_true_iff in Hg. destruct Hg as (Hpl & Hu).
  apply negb_true_iff in Hpl.
  destruct (keytype x) as [k|] eqn:Ek; [|discriminate].
  destruct (get_as Ld x k) as [a|ex] eqn:Ea; [|discriminate].
  destruct (get_with_kw Ld a [(k, Some "*")]) as [q0|ex] eqn:Eq; [|discriminate].
  destruct (unfold_search Ld (s_string q0) false false) as [qs|ex] eqn:Eu; [|discriminate].
  apply andb_true_iff in Hu. destruct Hu as (Hp & Hpar).
  destruct (paths_searchesb_sound _ _ _ _ _ Hp) as (H1 & H2 & H3).
  exists k, a, q0, qs. split; [reflexivity|]. split; [exact Ea|]. split; [exact Eq|]. split; [exact Eu|].
  exact (siblings_spec_set x k a q0 qs l Ek Hpl Ea Eq Eu H1 H2 H3 (under_parentb_sound _ _ Hpar) H).
Qed.

(* a Sid of the data set is one of its own siblings *)
Corollary siblings_self x k a q0 qs l :
  keytype x = Some k -> glob_magic (parent_str (s_string x)) = false ->
  get_as Ld x k = Ok a -> get_with_kw Ld a [(k, Some "*")] = Ok q0 ->
  unfold_search Ld (s_string q0) false false = Ok qs ->
  routed_to Rt (FPaths id cfg) qs -> searches_ok Ld cfg qs -> pat_inj Ld cfg qs ->
  (forall q, In q qs -> parent_str (s_string q) = parent_str (s_string x)) ->
  covered E qs (parent_str (s_string x)) ->
  siblings Ld Rt F x = Ok l -> In x E -> In (s_string x) l.
Proof.
  intros Hk Hpl Ha Hq0 Hu Hr Hqs Hinj Hpar Hcov H Hx.
  apply (siblings_spec_covered x k a q0 qs l Hk Hpl Ha Hq0 Hu Hr Hqs Hinj Hpar Hcov H).
  exists x. repeat split. exact Hx.
Qed.

End Level.

Print Assumptions find_all_paths_spec.
Print Assumptions sid_exists_spec.
Print Assumptions sid_exists_specb.
Print Assumptions children_spec_set.
Print Assumptions children_spec_covered.
Print Assumptions children_spec_setb.
Print Assumptions siblings_spec_set.
Print Assumptions siblings_spec_covered.
Print Assumptions siblings_spec_setb.

(** * 4. What exists has an existing parent (file-system backed entities) *)

Lemma fs_closedb_sound F : fs_closedb F = true -> fs_closed F.
Proof.
  unfold fs_closedb, fs_closed. rewrite forallb_forall. intros H p Hp Hne. specialize (H p Hp).
  apply orb_true_iff in H. destruct H as [H|H].
  - apply String.eqb_eq in H. contradiction.
  - apply in_list_In. exact H.
Qed.

Section Parent.
Variables (c : Conf) (Ld : Loaded).
Hypothesis Hload : load c = Some Ld.
Hypothesis Hwf : wf_loadedb Ld = true.
Hypothesis Hpu : paths_unambiguousb Ld = true.
Variable cfg : string.
Variable E : list sid.
Variable F : fs.
Hypothesis HD : dataset_ok Ld cfg E F.
Hypothesis Hclosed : fs_closed F.

(* a Sid y whose path is the parent directory of the path of a member (in the intended use y is the parent
   Sid of the member: the guard [sid_path Ld y cfg = Ok (Some (parent_path p))] says that the path template
   of the parent type is the directory of the path template of the type) is a member *)
Theorem exists_parent_tree e y p :
  In e E -> sid_path Ld e cfg = Ok (Some p) ->
  naturally_typed Ld y -> concrete Ld y -> path_values_ok y ->
  sid_path Ld y cfg = Ok (Some (parent_path p)) -> parent_path p <> p ->
  In y E.
Proof.
  intros He Hp Hnat Hconc Hvals Hpy Hne.
  destruct (ds_path _ _ _ _ HD e He) as (p' & Hp' & Hk & _). rewrite Hp in Hp'. inversion Hp'; subst p'.
  pose proof (Hclosed p Hk Hne) as Hkp.
  destruct (own_read c Ld Hload Hwf Hpu y cfg _ Hnat Hconc Hvals Hpy)
    as (pc & tp & es & d' & _ & _ & _ & _ & _ & _ & Hpne & _).
  apply (ds_only _ _ _ _ HD (parent_path p) y Hkp).
  - cbn [sid_factory]. apply sempty_false in Hpne. rewrite Hpne.
    exact (roundtrip c Ld y cfg _ Hload Hwf Hpu Hnat Hconc Hvals Hpy).
  - destruct (typed_parts c Ld Hload Hwf y (nat_typed_search c Ld Hload Hwf y Hnat))
      as (_ & _ & _ & _ & _ & _ & _ & Hnef & _).
    unfold sid_bool. destruct (s_fields y); [congruence | reflexivity].
Qed.

(* with exists(): the parent of an existing Sid exists *)
Corollary exists_parent Rt id e y p b :
  In e E -> parent Ld e = Ok y -> sid_path Ld e cfg = Ok (Some p) ->
  nat_typedb Ld y = true -> concreteb Ld y = true -> path_values_okb y = true ->
  sid_path Ld y cfg = Ok (Some (parent_path p)) -> parent_path p <> p ->
  exists_guardb Ld Rt id cfg y = true ->
  sid_exists Ld Rt F y = Ok b -> b = true.
Proof.
  intros He _ Hp Hnat Hconc Hvals Hpy Hne Hg Hex.
  apply (sid_exists_specb c Ld Hload Hwf Hpu cfg E F HD Rt id y b Hg Hex).
  exact (exists_parent_tree e y p He Hp (nat_typedb_sound Ld y Hnat) (concreteb_sound Ld y Hconc)
           (path_values_okb_sound y Hvals) Hpy Hne).
Qed.

End Parent.

Print Assumptions exists_parent_tree.
Print Assumptions exists_parent.
