(** C18 — get_last, get_next and get_new implement a gap-free version workflow.  Property theorems only.
    Proved about the model of the demo NextGetter and the Sid methods: the successor of "v"+ddd is requested as exactly
    "v"+(n+1) formatted with 3 digits through get_with on the same Sid (all other fields untouched), the first version is
    v001, formatted versions parse back, are pairwise distinct and ordered like the numbers (so ">" picks the numerically
    last), and a number needing 4 digits cannot be a version; get_last over a data set materialised as a tree is the member
    agreeing with the Sid off the key that carries the greatest value (numeric for versions), or the empty Sid when there is
    none (levels served by the path finder; decidable guards evaluated on the live configuration below).  get_new chains
    over a tree: checked on the implementation over generated trees and create(get_new) chains and by correspondence. *)
From Coq Require Import List String Ascii Bool Arith Permutation Sorted.
From Spil Require Import Base.Str Base.Dict Base.Outcome Regex.Re Conf.Conf Conf.Routing Conf.WF Sid.Sid
  Search.Unfold Search.FindList Search.Finders Search.FindListProofs Search.FindersProofs FS.Fs Data.Data Data.VersionProofs Data.VersionOrderProofs Data.DataSpecProofs.
From Spil Require Import Base.PyPath Sid.Query Sid.SidProofs Path.UnambiguousDefs Path.UnambiguousProofs Search.GlobProofs
  Search.TreeListDefs Search.TreeListProofs Data.SidLevelDefs Data.SidLevelProofs Data.SidLevelLast.
From Spil Require Import Data.CreateDefs Data.PublishDefs Data.PublishLemmas Data.PublishProofs Driver.DispatchFs.
From SpilGen Require Hamlet.
Import ListNotations.
Local Open Scope string_scope.

Theorem C18_next_concrete : forall Ld Rt F x0 x n,
  sid_factory Ld (FromSid x0) = Ok x -> sid_get x "version" = Some ("v" ++ fmt_03d n) ->
  next_version Ld Rt F x0 = request_version Ld x (S n).
Proof. exact next_version_concrete. Qed.
Print Assumptions C18_next_concrete.

Theorem C18_next_first : forall Ld Rt F x0 x,
  sid_factory Ld (FromSid x0) = Ok x -> sid_get x "version" = None ->
  next_version Ld Rt F x0 = request_version Ld x 1 /\ "v" ++ fmt_03d 1 = "v001".
Proof. exact next_version_first. Qed.
Print Assumptions C18_next_first.

Theorem C18_versions_ordered : forall n m, n < m -> m < 1000 -> str_ltb (vname n) (vname m) = true.
Proof. exact vname_monotone. Qed.
Print Assumptions C18_versions_ordered.

Theorem C18_versions_distinct : forall n m, n <> m -> vname n <> vname m.
Proof. exact vname_distinct. Qed.
Print Assumptions C18_versions_distinct.

Theorem C18_parse_format : forall n, py_int (fmt_03d n) = Some n.
Proof. exact py_int_fmt. Qed.
Print Assumptions C18_parse_format.

Theorem C18_three_digits : forall n, n < 1000 -> String.length (fmt_03d n) = 3.
Proof. exact fmt_03d_length. Qed.
Print Assumptions C18_three_digits.

(* the order used by ">" (segment by segment, as strings) IS the numeric order on versions *)
Theorem C18_version_order_is_numeric : forall pre post n m, n < 1000 -> m < 1000 ->
  segs_ltb (pre ++ [vname n] ++ post)%list (pre ++ [vname m] ++ post)%list = Nat.ltb n m.
Proof. exact version_order_is_numeric. Qed.
Print Assumptions C18_version_order_is_numeric.

(* so the ">" answer of ANY finder carries the numerically greatest version among the candidates of its group *)
Theorem C18_last_is_greatest : forall Ld star qs l q0 rest founds pre,
  sorted_search_g Ld star qs = Ok l -> qs = q0 :: rest ->
  index_of ">" (split_c "/" (s_string q0)) = Some (List.length pre) ->
  founds_of Ld star qs = Ok founds ->
  forall r e post n m, In r l -> In e founds ->
    split_c "/" r = (pre ++ [vname n] ++ post)%list -> split_c "/" e = (pre ++ [vname m] ++ post)%list ->
    n < 1000 -> m < 1000 -> m <= n.
Proof. exact sorted_search_g_greatest_version. Qed.
Print Assumptions C18_last_is_greatest.

(* get_last(key): the first answer of FindInAll for the Sid with key := ">", when it carries a value for the key; else the empty Sid *)
Theorem C18_get_last : forall Ld Rt F x key y, get_last Ld Rt F x key = Ok y ->
  y = empty_sid \/
  exists k q l s v, effective_key x key = Some k /\
    get_with_kw Ld x [(k, Some ">")] = Ok q /\ find_all Ld Rt F (s_string q) = Ok l /\
    hd_error l = Some s /\ Sid Ld s = Ok y /\ sid_get y k = Some v /\ truthy v = true.
Proof. exact get_last_cases. Qed.
Print Assumptions C18_get_last.

(* beyond the last representable version the result is the empty Sid: instance on today's configuration *)
Example C18_beyond_last :
  match sid_factory Hamlet.the_loaded (FromString "hamlet/a/char/x/model/v999") with
  | Ok x => match next_version Hamlet.the_loaded (mkRouting [] [] true) [] x with
            | Ok y => negb (sid_bool y)
            | Raise _ => false
            end
  | Raise _ => false
  end = true.
Proof. vm_compute. reflexivity. Qed.
Print Assumptions C18_beyond_last.

(** ** get_last over a data set materialised as a tree (Data/SidLevelLast.v): the existing sibling with the greatest value *)

(* get_last(k): the empty Sid iff no member agrees with the Sid off k; otherwise a member that does, carrying the greatest value of k *)
Theorem C18_get_last_greatest :
  forall (c : Conf) (Ld : Loaded),
  load c = Some Ld ->
  wf_loadedb Ld = true ->
  paths_unambiguousb Ld = true ->
  forall (cfg : string) (E : list sid) (F : fs),
  dataset_ok Ld cfg E F ->
  forall (Rt : Routing) (id : string) (x : sid) (k : string) (y : sid),
  last_guardb Ld Rt id cfg x k = true ->
  (forall e : sid, In e E -> plain_member e) ->
  get_last Ld Rt F x (Some k) = Ok y ->
  exists (i : nat) (q0 : sid) (qs : list sid),
    key_index x k = Some i /\
    get_with_kw Ld x [(k, Some ">")] = Ok q0 /\
    unfold_search Ld (s_string q0) false false = Ok qs /\
    (let pre := firstn i (split_c "/" (s_string x)) in
     let post := skipn (S i) (split_c "/" (s_string x)) in
     y = empty_sid /\ (forall e : sid, ~ last_candidate Ld E qs pre post e) \/
     last_candidate Ld E qs pre post y /\
     (exists wy : string,
        split_c "/" (s_string y) = (pre ++ [wy] ++ post)%list /\
        sid_get y k = Some wy /\
        (forall (e : sid) (w : string),
         last_candidate Ld E qs pre post e -> split_c "/" (s_string e) = (pre ++ [w] ++ post)%list -> str_ltb wy w = false))).
Proof. exact get_last_greatestb. Qed.
Print Assumptions C18_get_last_greatest.

(* the same read on fields *)
Theorem C18_get_last_fields :
  forall (c : Conf) (Ld : Loaded),
  load c = Some Ld ->
  wf_loadedb Ld = true ->
  paths_unambiguousb Ld = true ->
  forall (cfg : string) (E : list sid) (F : fs),
  dataset_ok Ld cfg E F ->
  forall (Rt : Routing) (id : string) (x : sid) (k : string) (q0 : sid) (qs : list sid) (pre : list string) 
    (v : string) (post : list string) (y : sid),
  naturally_typed Ld x ->
  sempty k = false ->
  split_c "/" (s_string x) = (pre ++ [v] ++ post)%list ->
  nth_error (map fst (s_fields x)) (List.length pre) = Some k ->
  get_with_kw Ld x [(k, Some ">")] = Ok q0 ->
  unfold_search Ld (s_string q0) false false = Ok qs ->
  routed_to Rt (FPaths id cfg) qs ->
  existsb has_gt qs = true ->
  (exists (q1 : sid) (rest : list sid),
     qs = q1 :: rest /\ index_of ">" (split_c "/" (s_string q1)) = Some (List.length pre)) ->
  Forall (fun g : string => glob_magic g = false) (pre ++ post) ->
  stars_ok Ld cfg k pre post qs ->
  (forall q : sid, In q qs -> exists q' : sid, starred Ld q = Ok q' /\ s_type q' = s_type x) ->
  (forall e : sid, In e E -> plain_member e) ->
  get_last Ld Rt F x (Some k) = Ok y ->
  y = empty_sid /\ (forall e : sid, In e E -> s_type e = s_type x -> ~ agree_but k x e) \/
  In y E /\
  s_type y = s_type x /\
  agree_but k x y /\
  (exists wy : string,
     sid_get y k = Some wy /\
     (forall (e : sid) (w : string),
      In e E -> s_type e = s_type x -> agree_but k x e -> sid_get e k = Some w -> str_ltb wy w = false)).
Proof. exact get_last_spec_fields. Qed.
Print Assumptions C18_get_last_fields.

(* for versions "v" + 3 digits the order is numeric *)
Theorem C18_get_last_numeric :
  forall (c : Conf) (Ld : Loaded),
  load c = Some Ld ->
  wf_loadedb Ld = true ->
  paths_unambiguousb Ld = true ->
  forall (cfg : string) (E : list sid) (F : fs),
  dataset_ok Ld cfg E F ->
  forall (Rt : Routing) (id : string) (x : sid) (k : string) (q0 : sid) (qs : list sid) (pre post : list string) 
    (y : sid) (n : nat),
  sempty k = false ->
  s_fields x <> [] ->
  get_with_kw Ld x [(k, Some ">")] = Ok q0 ->
  unfold_search Ld (s_string q0) false false = Ok qs ->
  routed_to Rt (FPaths id cfg) qs ->
  existsb has_gt qs = true ->
  (exists (q1 : sid) (rest : list sid),
     qs = q1 :: rest /\ index_of ">" (split_c "/" (s_string q1)) = Some (List.length pre)) ->
  Forall (fun g : string => glob_magic g = false) (pre ++ post) ->
  stars_ok Ld cfg k pre post qs ->
  (forall e : sid, In e E -> plain_member e) ->
  get_last Ld Rt F x (Some k) = Ok y ->
  split_c "/" (s_string y) = (pre ++ [vname n] ++ post)%list ->
  n < 1000 ->
  forall (e : sid) (m : nat),
  last_candidate Ld E qs pre post e -> split_c "/" (s_string e) = (pre ++ [vname m] ++ post)%list -> m < 1000 -> m <= n.
Proof. exact get_last_greatest_numeric. Qed.
Print Assumptions C18_get_last_numeric.

(* the empty Sid exactly when there is no candidate *)
Theorem C18_get_last_empty_iff :
  forall (c : Conf) (Ld : Loaded),
  load c = Some Ld ->
  wf_loadedb Ld = true ->
  paths_unambiguousb Ld = true ->
  forall (cfg : string) (E : list sid) (F : fs),
  dataset_ok Ld cfg E F ->
  forall (Rt : Routing) (id : string) (x : sid) (k : string) (q0 : sid) (qs : list sid) (pre post : list string) (y : sid),
  sempty k = false ->
  s_fields x <> [] ->
  get_with_kw Ld x [(k, Some ">")] = Ok q0 ->
  unfold_search Ld (s_string q0) false false = Ok qs ->
  routed_to Rt (FPaths id cfg) qs ->
  existsb has_gt qs = true ->
  (exists (q1 : sid) (rest : list sid),
     qs = q1 :: rest /\ index_of ">" (split_c "/" (s_string q1)) = Some (List.length pre)) ->
  Forall (fun g : string => glob_magic g = false) (pre ++ post) ->
  stars_ok Ld cfg k pre post qs ->
  (forall e : sid, In e E -> plain_member e) ->
  get_last Ld Rt F x (Some k) = Ok y -> y = empty_sid <-> (forall e : sid, ~ last_candidate Ld E qs pre post e).
Proof. exact get_last_empty_iff. Qed.
Print Assumptions C18_get_last_empty_iff.

(** ** instance on the configuration of this run: a project down to a task with two versions, as a tree *)
Definition Rt_opt : option Routing := parse_routing Hamlet.raw.
Lemma Rt_parses : Rt_opt <> None.
Proof. vm_compute. discriminate. Qed.
Definition Rt0 : Routing :=
  match Rt_opt as o return (o <> None -> Routing) with
  | Some r => fun _ => r
  | None => fun H => match H eq_refl with end
  end Rt_parses.
Definition mk0 (s : string) : sid := match Sid Hamlet.the_loaded s with Ok x => x | Raise _ => empty_sid end.
Definition v1 := mk0 "hamlet/a/char/ophelia/model/v001".
Definition v3 := mk0 "hamlet/a/char/ophelia/model/v003".
Definition task0 := mk0 "hamlet/a/char/ophelia/model".
(* the path finder that serves the version level, and its configuration, read from the routing table *)
Definition fp : string * string := match finder_for Rt0 (s_type v1) with Some (FPaths i c) => (i, c) | _ => ("", "") end.
Definition E0 : list sid := map mk0
  ["hamlet"; "hamlet/a"; "hamlet/a/char"; "hamlet/a/char/ophelia"; "hamlet/a/char/ophelia/model";
   "hamlet/a/char/ophelia/model/v001"; "hamlet/a/char/ophelia/model/v002"].
Definition pathof0 (x : sid) : string := match sid_path Hamlet.the_loaded x (snd fp) with Ok (Some p) => p | _ => "" end.
Definition F0 : fs :=
  fold_left (fun f x => match fs_mkdir_parents f (pathof0 x) with Ok f' => f' | Raise _ => f end) E0 [("/", Dir)].
Lemma Hpu0 : paths_unambiguousb Hamlet.the_loaded = true.
Proof. vm_compute. reflexivity. Qed.
Lemma HD0 : dataset_ok Hamlet.the_loaded (snd fp) E0 F0.
Proof. apply dataset_okb_sound. vm_compute. reflexivity. Qed.

Lemma Hplain0 : forall e, In e E0 -> plain_member e.
Proof.
  assert (H : forallb plain_memberb E0 = true) by (vm_compute; reflexivity).
  rewrite forallb_forall in H. intros e He. specialize (H e He). unfold plain_memberb in H.
  apply andb_true_iff in H. destruct H as (H1 & H2). apply negb_true_iff in H1, H2. split; assumption.
Qed.

Example C18_instance_values :
  get_last Hamlet.the_loaded Rt0 F0 v1 (Some "version") = Ok (mk0 "hamlet/a/char/ophelia/model/v002") /\
  get_last Hamlet.the_loaded Rt0 F0 v3 (Some "version") = Ok (mk0 "hamlet/a/char/ophelia/model/v002") /\
  get_last Hamlet.the_loaded Rt0 F0 (mk0 "hamlet/a/char/ophelia/rig/v001") (Some "version") = Ok empty_sid /\
  map (fun x => last_guardb Hamlet.the_loaded Rt0 (fst fp) (snd fp) x "version") [v1; v3; mk0 "hamlet/a/char/ophelia/rig/v001"] = [true; true; true].
Proof. vm_compute. repeat split; reflexivity. Qed.
Print Assumptions C18_instance_values.

Example C18_instance_greatest y :
  get_last Hamlet.the_loaded Rt0 F0 v1 (Some "version") = Ok y ->
  exists i q0 qs,
    key_index v1 "version" = Some i /\ get_with_kw Hamlet.the_loaded v1 [("version", Some ">")] = Ok q0 /\
    unfold_search Hamlet.the_loaded (s_string q0) false false = Ok qs /\
    let pre := firstn i (split_c "/" (s_string v1)) in
    let post := skipn (S i) (split_c "/" (s_string v1)) in
    (y = empty_sid /\ forall e, ~ last_candidate Hamlet.the_loaded E0 qs pre post e) \/
    (last_candidate Hamlet.the_loaded E0 qs pre post y /\
     exists wy, split_c "/" (s_string y) = (pre ++ [wy] ++ post)%list /\ sid_get y "version" = Some wy /\
       forall e w, last_candidate Hamlet.the_loaded E0 qs pre post e -> split_c "/" (s_string e) = (pre ++ [w] ++ post)%list ->
                   str_ltb wy w = false).
Proof.
  apply (get_last_greatestb Hamlet.the_conf Hamlet.the_loaded Hamlet.the_loaded_eq Hamlet.conf_wf Hpu0 (snd fp) E0 F0 HD0 Rt0 (fst fp) v1 "version" y).
  - vm_compute. reflexivity.
  - exact Hplain0.
Qed.
Print Assumptions C18_instance_greatest.

(** ** get_new and publishing chains over a data set materialised as a tree (Data/PublishProofs.v).
    [chain_top E x n]: the versions of x that exist are of the form "v"+3 digits, at most n, and n itself exists (or n = 0: none).
    [vsid x w]: x with its version set to w (every other field unchanged, same type).  All guards are computed booleans. *)

(* get_new: the successor of the last existing version - which does not exist yet - or the empty Sid beyond v999 *)
Theorem C18_get_new :
  forall (c : Conf) (Ld : Loaded) (Rt : Routing) (id cfg : string) (x : sid) (E : list sid) (F : fs) (n : nat) (y : sid),
  load c = Some Ld ->
  wf_loadedb Ld = true ->
  paths_unambiguousb Ld = true ->
  version_confb Ld = true ->
  chain_guardb Ld Rt id cfg x = true ->
  dataset_okb Ld cfg E F = true ->
  forallb plain_memberb E = true ->
  chain_topb E x n = true ->
  get_new Ld Rt F x "version" = Ok y ->
  y = (if (S n <? 1000)%nat then vsid x (vname (S n)) else empty_sid) /\ ~ In (vsid x (vname (S n))) E.
Proof. exact get_new_b. Qed.
Print Assumptions C18_get_new.

(* publishing get_new k times: the k (or, at the end of the range, 999 - n) next versions, in order, each new, the data set
   growing accordingly; once v999 exists the chain yields the empty Sid and creates nothing *)
Theorem C18_publish_chain :
  forall (c : Conf) (Ld : Loaded) (Rt : Routing) (id cfg0 : string) (x : sid) (E : list sid) (F : fs) 
    (n k : nat) (F' : fs) (out : list string),
  load c = Some Ld ->
  wf_loadedb Ld = true ->
  paths_unambiguousb Ld = true ->
  version_confb Ld = true ->
  rt_touch Rt = true ->
  chain_guardb Ld Rt id (default_cfg Ld cfg0) x = true ->
  dataset_okb Ld (default_cfg Ld cfg0) E F = true ->
  fs_invb F = true ->
  forallb plain_memberb E = true ->
  chain_topb E x n = true ->
  creatableb Ld (default_cfg Ld cfg0) x n k = true ->
  publish_chain Ld Rt F cfg0 x k [] = Ok (F', out) ->
  let j := Nat.min k (999 - n) in
  out = (map s_string (published x n j) ++ (if (k <=? 999 - n)%nat then [] else [""]))%list /\
  (exists E' : list sid,
     dataset_ok Ld (default_cfg Ld cfg0) E' F' /\
     chain_top E' x (n + j) /\ incl E E' /\ (forall e : sid, In e (published x n j) -> In e E' /\ ~ In e E)).
Proof. exact publish_chain_b. Qed.
Print Assumptions C18_publish_chain.

(* the published versions are strictly increasing and pairwise distinct *)
Theorem C18_published_increasing :
  forall (x : sid) (n j i i' : nat),
  n + j < 1000 ->
  1 <= i ->
  i < i' -> i' <= j -> str_ltb (vname (n + i)) (vname (n + i')) = true /\ vsid x (vname (n + i)) <> vsid x (vname (n + i')).
Proof. exact published_increasing. Qed.
Print Assumptions C18_published_increasing.

(* instance on the configuration of this run (the data set E0 / F0 above: versions v001, v002 of one task) *)
Example C18_publish_instance :
  version_confb Hamlet.the_loaded = true /\
  chain_guardb Hamlet.the_loaded Rt0 (fst fp) (snd fp) v1 = true /\
  chain_topb E0 v1 2 = true /\ fs_invb F0 = true /\
  creatableb Hamlet.the_loaded (snd fp) v1 2 3 = true /\
  get_new Hamlet.the_loaded Rt0 F0 v1 "version" = Ok (mk0 "hamlet/a/char/ophelia/model/v003") /\
  match publish_chain Hamlet.the_loaded Rt0 F0 "" v1 3 [] with
  | Ok (_, out) => out
  | Raise _ => []
  end = ["hamlet/a/char/ophelia/model/v003"; "hamlet/a/char/ophelia/model/v004"; "hamlet/a/char/ophelia/model/v005"].
Proof. vm_compute. repeat split; reflexivity. Qed.
Print Assumptions C18_publish_instance.
