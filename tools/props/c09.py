"""C09 the '>' (last) operator."""
from harness.runner import PropBase, Case
from harness import gen, core
from props import listsearch as ls
from props.c01 import natural

class C09(PropBase):
    id = 'C09'
    rule = ("universes with several versions / names per group (names containing '-', '.', '+', '_') x searches with '>' at any position "
            "(optionally a second '>' further right, '*', aliases, '**' elsewhere) on FindInList; the same over real trees on FindInPaths, FindInAll (find and find_one), "
            "FindInList and Sid.get_last (version families with files of several types and states, names with digit runs); non-trivial = at least one group answered; distinct by (universe, search)")
    partial_note = 'theorems are about the generic sorted search (any finder); the agreement of the three finders and get_last is oracle + correspondence'
    def confdir(self, ws):
        return core.make_fs_confdir(ws)
    def fs_cases(self, rng, ctx, tier, v):
        """the same entities as a real tree: FindInPaths, FindInAll (find and find_one), FindInList and Sid.get_last on '>' searches"""
        from props.c11 import C11
        from props.c05 import C05
        default = ctx['rawd']['default_path_config'] or ctx['rawd']['path_configs'][0][0]
        self.with_path = set(k for pc in ctx['rawd']['path_configs'] if pc[0] == default for k, _ in dict((k, vv) for k, vv in pc[1])['templates'])
        ok = lambda e: bool(natural(v, e)) and natural(v, e)[0] in self.with_path and not any(g in v.alias for g in e.split('/'))
        out = []
        nu, ns = (3, 14) if tier == 'quick' else (30, 40)
        fam = {}
        for t in v.order:
            if t in self.with_path:
                fam.setdefault(tuple(k for k, _ in v.types[t]), []).append(t)
        fams = [g for g in fam.values() if len(g) > 1 and len(v.types[g[0]]) > 6]
        for ui in range(nu):
            leafs = [e for e in C11().leafs(rng, v, rng.randint(3, 6)) if ok(e)]
            # a family of versions under one task: files of several types / states, not every file in every version
            if fams:
                g = rng.choice(fams)
                base = C05().concrete(rng, v, g[0]).split('/')
                vi = max(i for i, (k, e) in enumerate(v.types[g[0]]) if e and '\\d' in e and i < len(base) - 1) if any(e and '\\d' in e for k, e in v.types[g[0]][:-1]) else None
                if vi is not None:
                    for _ in range(rng.randint(4, 8)):
                        t = rng.choice(g)
                        e = list(base)
                        e[vi] = v.value(v.types[t][vi][1], rng)[:-1] + rng.choice('1239')
                        for j in range(vi + 1, len(e) - 1):
                            e[j] = v.value(v.types[t][j][1], rng)
                        e[-1] = v.value(v.types[t][-1][1], rng)
                        if ok('/'.join(e)):
                            leafs.append('/'.join(e))
            # free names with digit runs of different lengths / a digit next to '-'
            more = []
            for e in leafs[:3]:
                n = natural(v, e)
                opens = [i for i, (k, ex) in enumerate(n and v.types[n[0]] or []) if v.alternatives(ex) is None]
                if opens:
                    i = rng.choice(opens)
                    for val in rng.choice([['n9', 'n10'], ['a-9', 'a-10'], ['dust9', 'dust-1']]):
                        segs = e.split('/'); segs[i] = val
                        if ok('/'.join(segs)):
                            more.append('/'.join(segs))
            leafs = leafs + more
            if not leafs:
                continue
            out.append(Case('fs_reset', [], 'setup', {}))
            L = set()
            for e in leafs:
                out.append(Case('w_create', ['', e, []], 'setup', {}))
                parts = e.split('/')
                keys = [k for k, _ in natural(v, e)[1]]
                for i in range(1, len(parts) + 1):
                    a = '/'.join(parts[:i])
                    na = natural(v, a)
                    if na and na[0] in self.with_path and [k for k, _ in na[1]] == keys[:i]:
                        L.add(a)
            L = sorted(L)
            for _ in range(ns):
                base = rng.choice(leafs).split('/')
                i = rng.randrange(1, len(base))
                q = list(base); q[i] = '>'
                for j in range(i + 1, len(q)):
                    if rng.random() < 0.6:
                        q[j] = '*'
                for j in range(1, i):
                    if rng.random() < 0.2:
                        q[j] = '*'
                if rng.random() < 0.3 and v.alias and i < len(q) - 1:
                    als = [al for al, ms in v.alias.items() if base[-1] in ms]
                    if als:
                        q[-1] = rng.choice(als)
                q = '/'.join(q)
                m = {'u': ui, 'q': q, 'fs': True}
                out.append(Case('find_paths', [default, q], 'fsfind', dict(m, finder='paths')))
                out.append(Case('find_all', [q], 'fsfind', dict(m, finder='all')))
                out.append(Case('find_all_one', [q], 'fsfind', dict(m, finder='all_one')))
                out.append(Case('find_all_raw', [q], 'fsfind', dict(m, finder='all_raw')))
                out.append(Case('find_list', [L, q], 'fsfind', dict(m, finder='list')))
                out.append(Case('unfold', [q, '0', '0'], 'unfold', {}))
            for _ in range(ns // 2):
                e = rng.choice(leafs)
                n = natural(v, e)
                k, _ = rng.choice(n[1][1:])
                out.append(Case('get_last', [['s', e], k], 'get_last', {'u': ui, 'sid': e, 'key': k, 'pos': [kk for kk, _ in n[1]].index(k), 'L': L}))
            # ... and again after a greater entry was created (same process): the answer follows the data
            grown = list(L)
            for _ in range(2):
                e = rng.choice(leafs)
                n = natural(v, e)
                digit_keys = [(i, k) for i, (k, ex) in enumerate(v.types[n[0]]) if ex and '\\d' in ex and i < len(n[1])]
                if not digit_keys:
                    continue
                i, k = rng.choice(digit_keys)
                segs = e.split('/')
                if not segs[i][-1:].isdigit() or segs[i].endswith('9' * 2):
                    continue
                bigger = segs[i][:-3] + '%03d' % min(int(segs[i][-3:]) + rng.randint(1, 5), 999) if segs[i][-3:].isdigit() else None
                if not bigger or bigger == segs[i]:
                    continue
                e2 = '/'.join(segs[:i] + [bigger] + segs[i + 1:])
                if not ok(e2):
                    continue
                out.append(Case('get_last', [['s', e], k], 'get_last', {'u': ui, 'sid': e, 'key': k, 'pos': i, 'L': list(grown)}))
                out.append(Case('w_create', ['', e2, []], 'setup', {}))
                parts = e2.split('/')
                keys2 = [kk for kk, _ in natural(v, e2)[1]]
                for j in range(1, len(parts) + 1):
                    a = '/'.join(parts[:j]); na = natural(v, a)
                    if na and na[0] in self.with_path and [kk for kk, _ in na[1]] == keys2[:j] and a not in grown:
                        grown.append(a)
                grown.sort()
                out.append(Case('get_last', [['s', e], k], 'get_last', {'u': ui, 'sid': e, 'key': k, 'pos': i, 'L': list(grown)}))
        out.append(Case('fs_reset', [], 'setup', {}))
        return out
    def gt_search(self, rng, v, items):
        cands = [s for s in items if s.count('/') >= 1]
        base = rng.choice(cands) if cands else v.sid(v.any_type(rng), rng)
        segs = base.split('/')
        i = rng.randrange(1, len(segs)) if len(segs) > 1 else 0
        segs[i] = '>'
        for j in range(len(segs)):
            if j == i:
                continue
            r = rng.random()
            if r < 0.35:
                segs[j] = '*'
            elif r < 0.42 and j > i:
                segs[j] = '>'
            elif r < 0.5:
                segs[j] = segs[j] + ',' + rng.choice(ls.NAMES)
        if rng.random() < 0.15 and v.alias and i != len(segs) - 1:
            segs[-1] = rng.choice(list(v.alias))
        if rng.random() < 0.15 and i >= 2:
            segs = segs[:1] + ['**'] + segs[i:]
        return '/'.join(segs)
    def cases(self, rng, ctx, tier):
        v = gen.vocab_from_ctx(ctx)
        nu, ns = (50, 30) if tier == 'quick' else (600, 100)
        out = []
        for _ in range(nu):
            items = ls.universe(rng, v, kind=rng.choice(['full', 'leaf', 'full']), size=rng.randint(6, 20))
            plain_items = all(e and ':' not in e and '?' not in e for e in items)
            for _ in range(ns):
                q = self.gt_search(rng, v, items)
                out.append(Case('find_list', [items, q], 'find', {}))
                if plain_items and rng.random() < 0.3:
                    # the same search answered as Sid objects (as_sid=True, the default of find): the same Sids in the same order
                    out.append(Case('find_list_sids', [items, q], 'find_sids', {'q': q}))
        # two '>' with '*' between them: still ONE answer per combination of the segments before the FIRST '>' - the entry whose
        # remaining segments are greatest - however many values the '*' levels take below it
        from props.c01 import natural
        deep = [t for t in v.order if len(v.types[t]) >= 6]
        for _ in range(12 if tier == 'quick' else 200):
            if not deep:
                break
            t = rng.choice(deep)
            base = v.sid(t, rng).split('/')
            if any(ch in '/'.join(base) for ch in '*>,?:\n') or not natural(v, '/'.join(base)):
                continue
            n = len(base)
            i = rng.randrange(2, n - 3)
            j = rng.randrange(i + 2, n - 1)
            pool = {}
            for p_ in range(i, j + 1):
                vals = [x for x in v.concrete_values(v.types[t][p_][1], rng) if x and not any(ch in x for ch in '*>,?:\n/')]
                pool[p_] = sorted(set(vals + [base[p_]]))[:3]
            items = set()
            for _k in range(rng.randint(5, 9)):
                e = list(base)
                for p_ in range(i, j + 1):
                    e[p_] = rng.choice(pool[p_])
                if natural(v, '/'.join(e)) and natural(v, '/'.join(e))[0] == t:
                    items.add('/'.join(e))
            items = sorted(items)
            rng.shuffle(items)
            q = list(base)
            q[i] = '>'; q[j] = '>'
            for p_ in range(i + 1, j):
                q[p_] = '*'
            if len(items) >= 2:
                out.append(Case('find_list', [items, '/'.join(q)], 'find', {}))
        out.extend(self.fs_cases(rng, ctx, tier, v))
        return out
    def phase2(self, rng, ctx, cases, impl_out, tier):
        seen = set(); more = []
        for c in cases:
            if c.op != 'find_list' or c.stream != 'find':
                continue
            q = c.args[1]
            if q not in seen:
                seen.add(q)
                more.append(Case('unfold', [q, '0', '0'], 'unfold', {}))
        return more
    def expected(self, items, forms):
        positions = set(f.split('/').index('>') for f in forms if '>' in f.split('/'))
        if len(positions) != 1 or any('>' not in f.split('/') for f in forms):
            return None          # the property speaks of '>' at one position
        index = positions.pop()
        matching = []
        for e in items:
            if e not in matching and any(ls.glob(f.replace('>', '*'), e) for f in forms):
                matching.append(e)
        groups = {}
        for e in matching:
            segs = e.split('/')
            key = tuple(segs[:index])
            if key not in groups or segs[index:] > groups[key]:
                groups[key] = segs[index:]
        return sorted('/'.join(list(k) + r) for k, r in groups.items())
    def fs_oracle(self, cases, impl_out, ctx, unfold):
        v = gen.vocab_from_ctx(ctx)
        fails = []
        groups = {}
        for c, o in zip(cases, impl_out):
            if c.stream == 'fsfind':
                groups.setdefault((c.meta['u'], c.meta['q']), {})[c.meta['finder']] = (c, o)
        for (u, q), d in sorted(groups.items()):
            uo = unfold.get(q)
            if uo is None or uo[0] != 'ok' or not uo[1] or not ls.plain(q) or len(d) < 4:
                continue
            if any(o[0] != 'ok' for _, o in d.values()):
                if len(set(tuple(o[:2]) if o[0] != 'ok' else ('ok',) for _, o in d.values())) > 1:
                    fails.append((d['all'][0], d['all'][1], 'finders do not fail alike on %r: %r' % (q, {k: o[:2] for k, (_, o) in d.items()})))
                continue
            utypes = set(x[1] for x in uo[1])
            if not utypes <= self.with_path:
                continue          # a level without path template: answered from constants (C11)
            forms = [x[0] for x in uo[1]]
            exp = self.expected(d['list'][0].args[0], forms)
            if exp is None:
                continue
            for k in ('paths', 'all', 'list'):
                got = sorted(d[k][1][1])
                if got != exp or len(set(got)) != len(got):
                    fails.append((d[k][0], d[k][1], "%s finder, find(%r): expected one greatest entry per group %r, got %r (entities %r)" % (k, q, exp, got, d['list'][0].args[0])))
            one = d['all_one'][1][1]
            allr = d['all'][1][1]
            raw = d['all_raw'][1][1] if 'all_raw' in d and d['all_raw'][1][0] == 'ok' else None
            if (one and one[0] not in allr) or (not one and allr) or (len(allr) == 1 and one != allr) or (raw is not None and one != raw[:1]):
                fails.append((d['all_one'][0], d['all_one'][1], 'FindInAll.find_one(%r) = %r, find gives %r (first %r)' % (q, one, allr, raw[:1] if raw else raw)))
        for c, o in zip(cases, impl_out):
            if c.stream != 'get_last':
                continue
            if o[0] != 'ok':
                fails.append((c, o, 'get_last raised %r' % (o,))); continue
            e, i, Lst = c.meta['sid'], c.meta['pos'], c.meta['L']
            segs = e.split('/')
            qq = '/'.join(segs[:i] + ['>'] + segs[i + 1:])
            exp = self.expected(Lst, [qq])
            want = exp[0] if exp else ''
            if o[1][0] != want:
                fails.append((c, o, "Sid(%r).get_last(%r) = %r, the single answer of %r over the existing entities is %r" % (e, c.meta['key'], o[1][0], qq, want)))
        return fails
    def oracle_bulk(self, cases, impl_out, ctx):
        unfold = {}
        for c, o in zip(cases, impl_out):
            if c.op == 'unfold':
                unfold[c.args[0]] = o
        fails = self.fs_oracle(cases, impl_out, ctx, unfold)
        prev = None
        for c, o in zip(cases, impl_out):
            if c.stream == 'find_sids' and prev is not None and prev[0].args[1] == c.args[1] and prev[0].args[0] == c.args[0]:
                po = prev[1]
                if po[0] == 'ok' and o[0] == 'ok' and [x[0] for x in o[1]] != po[1]:
                    fails.append((c, o, "find(%r, as_sid=True) gives %r, as_sid=False gives %r (same entries)" % (c.args[1], [x[0] for x in o[1]], po[1])))
                elif (po[0] == 'ok') != (o[0] == 'ok'):
                    fails.append((c, o, "find(%r) with as_sid=True / False do not fail alike: %r / %r" % (c.args[1], o[:2], po[:2])))
            if c.op == 'find_list' and c.stream == 'find':
                prev = (c, o)
        for c, o in zip(cases, impl_out):
            if c.op != 'find_list' or c.stream != 'find':
                continue
            items, q = c.args
            u = unfold.get(q)
            if u is None or u[0] != 'ok' or not u[1] or not ls.plain(q):
                continue
            forms = [x[0] for x in u[1]]
            positions = set(f.split('/').index('>') for f in forms if '>' in f.split('/'))
            if len(positions) != 1 or any('>' not in f.split('/') for f in forms):
                continue          # the property speaks of '>' at one position
            index = positions.pop()
            matching = []
            for e in items:
                if e not in matching and any(ls.glob(f.replace('>', '*'), e) for f in forms):
                    matching.append(e)
            groups = {}
            for e in matching:
                segs = e.split('/')
                key = tuple(segs[:index])
                if key not in groups or segs[index:] > groups[key]:
                    groups[key] = segs[index:]
            exp = sorted('/'.join(list(k) + r) for k, r in groups.items())
            if o[0] != 'ok':
                fails.append((c, o, 'find(%r) raised %r' % (q, o))); continue
            if sorted(o[1]) != exp or len(set(o[1])) != len(o[1]):
                fails.append((c, o, "find(%r): expected one greatest entry per group %r, got %r" % (q, exp, sorted(o[1]))))
        return fails
    def compare(self, case, model, impl):
        if case.op == 'find_all_raw':
            return None      # the order of enumeration is not modelled; used by the oracle only
        if case.op == 'find_list' and case.stream == 'fsfind' and model[0] == 'ok' and impl[0] == 'ok':
            return None if sorted(model[1]) == sorted(impl[1]) else 'find_list differs (as sets)'
        return None if model == impl else 'model and implementation differ'
    def nontrivial(self, case, impl):
        if case.stream in ('fsfind', 'get_last'):
            return [case.op, case.args[-2:]] if impl[0] == 'ok' and impl[1] else None
        return case.args if case.op == 'find_list' and impl[0] == 'ok' and impl[1] else None
    def histogram_key(self, case, impl):
        if case.stream in ('fsfind', 'get_last', 'setup'):
            return '%s:%s' % (case.stream, case.meta.get('finder', case.op))
        if case.op == 'find_list':
            return 'find:%s' % ('raise' if impl[0] != 'ok' else min(len(impl[1]), 5))
        return case.op

PROP = C09()
