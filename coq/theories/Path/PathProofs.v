(** Theorems for C05 / C06 about the path layer (fs_resolver, PathSid.path, the factory on paths).
    Standing hypotheses [load c = Some Ld] and [wf_loadedb Ld = true] are written explicitly. *)
From Coq Require Import List String Ascii Bool Arith Lia.
From Spil Require Import Base.Str Base.Dict Base.Outcome Base.PyPath Base.StrProofs Base.SplitProofs
  Regex.Re Resolva.Template Resolva.Resolver Conf.ConfUtil Conf.Conf Conf.WF
  Regex.MatchProofs Sid.Query Sid.Sid Sid.TypingSpec Sid.TypingProofs Sid.SidLemmas FS.Fs.
Import ListNotations.
Local Open Scope string_scope.

(** * The shape of a successful [sid_of_path] *)


Lemma sid_of_path_inv Ld p cfg x : sid_of_path Ld p cfg = Ok x ->
  x = empty_sid \/
  exists ty fields rs, x = mkSid rs ty fields /\ fields <> [] /\
    path_to_dict Ld p cfg = Ok (Some (ty, fields)) /\
    rdict_to_sid Ld fields ty = Ok rs /\ rs <> "" /\
    dict_to_path Ld fields ty cfg = Ok (norm_path p).
Proof.
  unfold sid_of_path. intros H.
  destruct (path_to_dict Ld p cfg) as [[[ty fields]|]|e] eqn:Ep.
  - destruct fields as [|kv fields'] eqn:Ef.
    + left. inversion H. reflexivity.
    + rewrite <- Ef in *.
      assert (Hne : fields <> []) by (rewrite Ef; discriminate).
      assert (H' : (do rs <- rdict_to_sid Ld fields ty;
                    if sempty rs then Ok empty_sid else
                    match dict_to_path Ld fields ty cfg with
                    | Raise SpilException => Ok empty_sid
                    | Raise e => Raise e
                    | Ok p0 => if String.eqb p0 (norm_path p) then Ok (mkSid rs ty fields) else Ok empty_sid
                    end) = Ok x).
      { rewrite Ef. rewrite Ef in H. exact H. }
      clear H. unfold bind in H'.
      destruct (rdict_to_sid Ld fields ty) as [rs|e] eqn:Er; [|discriminate].
      destruct (sempty rs) eqn:Es; [left; inversion H'; reflexivity|].
      destruct (dict_to_path Ld fields ty cfg) as [p0|e] eqn:Ed.
      * destruct (String.eqb p0 (norm_path p)) eqn:Eq; [|left; inversion H'; reflexivity].
        apply String.eqb_eq in Eq. subst p0. right. exists ty, fields, rs.
        inversion H'. repeat split; auto. apply sempty_false. exact Es.
      * destruct e; try discriminate. left. inversion H'. reflexivity.
  - left. inversion H. reflexivity.
  - destruct e; try discriminate. left. inversion H. reflexivity.
Qed.

(** * P1 (C06): whenever Sid(path=p, config=cfg) is a typed Sid, that Sid's path(cfg) is (the normal form of) p *)

Theorem path_owner (c : Conf) (Ld : Loaded) p cfg x :
  load c = Some Ld -> wf_loadedb Ld = true ->
  sid_of_path Ld p cfg = Ok x -> sid_bool x = true ->
  sid_path Ld x cfg = Ok (Some (norm_path p)).
Proof.
  intros _ _ H Hb. destruct (sid_of_path_inv Ld p cfg x H) as [-> | (ty & fields & rs & -> & Hne & _ & _ & _ & Hd)].
  - discriminate.
  - unfold sid_path. cbn [s_fields s_type]. destruct fields; [congruence|]. rewrite Hd. reflexivity.
Qed.

(** * P2: an untyped result is the empty Sid *)

Theorem path_untyped_is_empty (c : Conf) (Ld : Loaded) p cfg x :
  load c = Some Ld -> wf_loadedb Ld = true ->
  sid_of_path Ld p cfg = Ok x -> sid_bool x = false -> x = empty_sid.
Proof.
  intros _ _ H Hb. destruct (sid_of_path_inv Ld p cfg x H) as [-> | (ty & fields & rs & -> & Hne & _)].
  - reflexivity.
  - unfold sid_bool in Hb. cbn [s_fields] in Hb. destruct fields; [congruence | discriminate].
Qed.

(** * P4: Sids without a path *)

Theorem no_path_is_none_untyped (c : Conf) (Ld : Loaded) x cfg :
  load c = Some Ld -> wf_loadedb Ld = true ->
  s_fields x = [] -> sid_path Ld x cfg = Ok None.
Proof. intros _ _ H. unfold sid_path. rewrite H. reflexivity. Qed.

(* guard added: [s_type x <> ""] (with an empty type [dict_to_path] first looks for a formatting
   template, which can succeed or raise whatever [find_tpl _ ""] says) *)
Theorem no_path_is_none_no_template (c : Conf) (Ld : Loaded) x cfg pc :
  load c = Some Ld -> wf_loadedb Ld = true ->
  get_path_config Ld cfg = Ok pc -> s_fields x <> [] -> s_type x <> "" ->
  find_tpl (lp_resolver pc) (s_type x) = None ->
  sid_path Ld x cfg = Ok None.
Proof.
  intros _ _ Hpc Hne Hty Hf. unfold sid_path.
  destruct (s_fields x) as [|kv d] eqn:Ed; [congruence|].
  unfold dict_to_path. rewrite Hpc. cbn [bind].
  destruct (s_type x) as [|a t] eqn:Et; [congruence|]. cbn [sempty bind].
  rewrite Hf. reflexivity.
Qed.

(** * [norm_path] (str(Path(p))) is idempotent *)

Definition part_ok (x : string) : Prop := x <> "" /\ x <> "." /\ mem_c "/" x = false.
Definition keep_part (x : string) : bool := negb (sempty x) && negb (String.eqb x ".").
Definition noslash_head (r : string) : Prop :=
  match r with "" => True | String a _ => a <> "/"%char end.

Lemma splitroot_0 a r : a <> "/"%char -> splitroot (String a r) = ("", String a r).
Proof.
  intros H. unfold splitroot.
  destruct a as [[] [] [] [] [] [] [] []]; try reflexivity. congruence.
Qed.

Lemma splitroot_1 r : noslash_head r -> splitroot (String "/" r) = ("/", r).
Proof.
  intros H. destruct r as [|a r]; [reflexivity|]. cbn [noslash_head] in H. unfold splitroot.
  destruct a as [[] [] [] [] [] [] [] []]; try reflexivity. congruence.
Qed.

Lemma splitroot_2 r : noslash_head r -> splitroot (String "/" (String "/" r)) = ("//", r).
Proof.
  intros H. destruct r as [|a r]; [reflexivity|]. cbn [noslash_head] in H. unfold splitroot.
  destruct a as [[] [] [] [] [] [] [] []]; try reflexivity. congruence.
Qed.

Lemma splitroot_root p root rel : splitroot p = (root, rel) -> root = "" \/ root = "/" \/ root = "//".
Proof.
  unfold splitroot. intros H.
  destruct p as [|a p]; [inversion H; auto|].
  destruct (Ascii.eqb a "/") eqn:Ea.
  - apply Ascii.eqb_eq in Ea. subst a.
    destruct p as [|b p]; [inversion H; auto|].
    destruct (Ascii.eqb b "/") eqn:Eb.
    + apply Ascii.eqb_eq in Eb. subst b.
      destruct p as [|d p]; [inversion H; auto|].
      destruct (Ascii.eqb d "/") eqn:Ed.
      * apply Ascii.eqb_eq in Ed. subst d. inversion H; auto.
      * assert (G : root = "//").
        { destruct d as [[] [] [] [] [] [] [] []]; try (inversion H; reflexivity). discriminate. }
        auto.
    + assert (G : root = "/").
      { destruct b as [[] [] [] [] [] [] [] []]; try (inversion H; reflexivity). discriminate. }
      auto.
  - assert (G : root = "").
    { destruct a as [[] [] [] [] [] [] [] []]; try (inversion H; reflexivity). discriminate. }
    auto.
Qed.

Lemma keep_part_ok x : mem_c "/" x = false -> keep_part x = true -> part_ok x.
Proof.
  unfold keep_part, part_ok. intros Hm H. apply andb_true_iff in H. destruct H as (H1 & H2).
  split; [|split; [|exact Hm]].
  - intros ->. discriminate.
  - intros ->. discriminate.
Qed.

Lemma part_ok_keep x : part_ok x -> keep_part x = true.
Proof.
  intros (H1 & H2 & _). unfold keep_part. destruct x; [congruence|]. cbn [sempty negb andb].
  destruct (String.eqb (String a x) ".") eqn:E; [apply String.eqb_eq in E; congruence | reflexivity].
Qed.

Lemma path_parts_spec p root tail : path_parts p = (root, tail) ->
  (root = "" \/ root = "/" \/ root = "//") /\ Forall part_ok tail.
Proof.
  unfold path_parts. destruct (sempty p).
  - intros H. inversion H. split; [auto | constructor].
  - destruct (splitroot p) as [root' rel] eqn:Es. intros H. inversion H; subst. clear H.
    split; [apply (splitroot_root p root rel Es)|].
    pose proof (split_c_nomem_all "/" rel) as Hall.
    induction (split_c "/" rel) as [|x l IH]; cbn [filter]; [constructor|].
    inversion Hall as [|? ? Hx Hl]; subst.
    destruct (negb (sempty x) && negb (String.eqb x ".")) eqn:Ek; [|apply IH; exact Hl].
    constructor; [apply keep_part_ok; assumption | apply IH; exact Hl].
Qed.

Lemma filter_keep_all tail : Forall part_ok tail -> filter keep_part tail = tail.
Proof.
  induction 1 as [|x l Hx _ IH]; cbn [filter]; [reflexivity|].
  rewrite (part_ok_keep x Hx), IH. reflexivity.
Qed.

Lemma join_parts_head tail : Forall part_ok tail -> noslash_head (join "/" tail).
Proof.
  intros H. destruct tail as [|x l]; [exact I|]. inversion H as [|? ? (Hne & _ & Hm) _]; subst.
  destruct x as [|a x]; [congruence|].
  assert (Ha : a <> "/"%char).
  { intros ->. cbn [mem_c] in Hm. rewrite Ascii.eqb_refl in Hm. discriminate. }
  destruct l; [exact Ha|]. rewrite join_cons2. exact Ha.
Qed.

Lemma filter_split_join tail : Forall part_ok tail ->
  filter keep_part (split_c "/" (join "/" tail)) = tail.
Proof.
  intros H. destruct tail as [|x l]; [reflexivity|].
  change (join "/" (x :: l)) with (join (str1 "/") (x :: l)). rewrite split_c_join.
  - apply filter_keep_all. exact H.
  - discriminate.
  - eapply Forall_impl; [|exact H]. intros y (_ & _ & Hy). exact Hy.
Qed.

Lemma path_parts_reparse root tail :
  (root = "" \/ root = "/" \/ root = "//") -> Forall part_ok tail ->
  sempty (root ++ join "/" tail) = false ->
  path_parts (root ++ join "/" tail) = (root, tail).
Proof.
  intros Hr Ht Hne. unfold path_parts. rewrite Hne.
  pose proof (join_parts_head tail Ht) as Hh. pose proof (filter_split_join tail Ht) as Hf.
  fold keep_part. destruct Hr as [-> | [-> | ->]].
  - cbn [append] in *. destruct (join "/" tail) as [|a r] eqn:Ej; [discriminate|].
    cbn [noslash_head] in Hh. rewrite (splitroot_0 a r Hh). rewrite Hf. reflexivity.
  - change ("/" ++ join "/" tail) with (String "/" (join "/" tail)).
    rewrite (splitroot_1 _ Hh), Hf. reflexivity.
  - change ("//" ++ join "/" tail) with (String "/" (String "/" (join "/" tail))).
    rewrite (splitroot_2 _ Hh), Hf. reflexivity.
Qed.

Theorem norm_path_idem p : norm_path (norm_path p) = norm_path p.
Proof.
  unfold norm_path at 2 3. destruct (path_parts p) as [root tail] eqn:Ep.
  destruct (path_parts_spec p root tail Ep) as (Hr & Ht).
  unfold format_parts. destruct (sempty (root ++ join "/" tail)) eqn:Es; [reflexivity|].
  unfold norm_path. rewrite (path_parts_reparse root tail Hr Ht Es).
  unfold format_parts. rewrite Es. reflexivity.
Qed.

(** * what [dict_to_path] returns is a normal form *)

Lemma dict_to_path_normal Ld d ty cfg p : dict_to_path Ld d ty cfg = Ok p -> norm_path p = p.
Proof.
  unfold dict_to_path. destruct d as [|kv d]; [discriminate|].
  destruct (get_path_config Ld cfg) as [pc|e]; [|discriminate]. cbn [bind].
  match goal with |- bind ?X _ = _ -> _ => destruct X as [ty'|e]; [|discriminate] end. cbn [bind].
  destruct (find_tpl (lp_resolver pc) ty') as [tp|]; [|discriminate].
  destruct (tp_keys tp) as [|k0 ks]; [discriminate|].
  match goal with |- (if ?B then _ else _) = _ -> _ => destruct B; [discriminate|] end.
  match goal with |- bind ?X _ = _ -> _ => destruct X as [path|e]; [|discriminate] end. cbn [bind].
  match goal with |- bind ?X _ = _ -> _ => destruct X as [[p'|]|e]; try discriminate end. cbn [bind].
  destruct (String.eqb p' path); [|discriminate].
  intros H. inversion H. apply norm_path_idem.
Qed.

Lemma sid_path_inv Ld x cfg p : sid_path Ld x cfg = Ok (Some p) ->
  s_fields x <> [] /\ dict_to_path Ld (s_fields x) (s_type x) cfg = Ok p.
Proof.
  unfold sid_path. destruct (s_fields x) as [|kv d] eqn:Ed; [discriminate|].
  destruct (dict_to_path Ld (kv :: d) (s_type x) cfg) as [p0|e].
  - intros H. inversion H. split; [discriminate | reflexivity].
  - destruct e; discriminate.
Qed.

(* the path of a Sid is always in normal form *)
Corollary sid_path_normal Ld x cfg p : sid_path Ld x cfg = Ok (Some p) -> norm_path p = p.
Proof. intros H. destruct (sid_path_inv Ld x cfg p H) as (_ & Hd). apply (dict_to_path_normal _ _ _ _ _ Hd). Qed.

(** * P5: path -> Sid gives back the Sid whose path it is, when the path resolver reads back
      that Sid's type and fields (unambiguity, an explicit hypothesis) *)

Theorem roundtrip_partial (c : Conf) (Ld : Loaded) x cfg p :
  load c = Some Ld -> wf_loadedb Ld = true ->
  s_fields x <> [] -> sid_path Ld x cfg = Ok (Some p) ->
  path_to_dict Ld p cfg = Ok (Some (s_type x, s_fields x)) ->
  rdict_to_sid Ld (s_fields x) (s_type x) = Ok (s_string x) -> s_string x <> "" ->
  sid_of_path Ld p cfg = Ok x.
Proof.
  intros _ _ Hne Hp Hpd Hrd Hs.
  destruct (sid_path_inv Ld x cfg p Hp) as (_ & Hd).
  pose proof (dict_to_path_normal _ _ _ _ _ Hd) as Hn.
  unfold sid_of_path. rewrite Hpd.
  destruct (s_fields x) as [|kv d] eqn:Ed; [congruence|]. rewrite Hrd. cbn [bind].
  apply sempty_false in Hs. rewrite Hs. rewrite Hd, Hn, String.eqb_refl.
  destruct x as [xs xt xf]. cbn [s_string s_type s_fields] in *. rewrite Ed. reflexivity.
Qed.

(** * P6: two Sids that both come back from the same path are equal *)

Theorem path_injective_partial (c : Conf) (Ld : Loaded) x y cfg p :
  load c = Some Ld -> wf_loadedb Ld = true ->
  sid_of_path Ld p cfg = Ok x -> sid_of_path Ld p cfg = Ok y -> x = y.
Proof. intros _ _ Hx Hy. rewrite Hx in Hy. inversion Hy. reflexivity. Qed.

(* in the form of the brief: both satisfy the hypotheses of P5 for the same p *)
Corollary path_injective_partial' (c : Conf) (Ld : Loaded) x y cfg p :
  load c = Some Ld -> wf_loadedb Ld = true ->
  s_fields x <> [] -> sid_path Ld x cfg = Ok (Some p) ->
  path_to_dict Ld p cfg = Ok (Some (s_type x, s_fields x)) ->
  rdict_to_sid Ld (s_fields x) (s_type x) = Ok (s_string x) -> s_string x <> "" ->
  s_fields y <> [] -> sid_path Ld y cfg = Ok (Some p) ->
  path_to_dict Ld p cfg = Ok (Some (s_type y, s_fields y)) ->
  rdict_to_sid Ld (s_fields y) (s_type y) = Ok (s_string y) -> s_string y <> "" ->
  x = y.
Proof.
  intros Hl Hw X1 X2 X3 X4 X5 Y1 Y2 Y3 Y4 Y5.
  apply (path_injective_partial c Ld x y cfg p Hl Hw).
  - apply (roundtrip_partial c Ld x cfg p Hl Hw X1 X2 X3 X4 X5).
  - apply (roundtrip_partial c Ld y cfg p Hl Hw Y1 Y2 Y3 Y4 Y5).
Qed.

(* a weaker set of hypotheses suffices: same path reading and the canonical string *)
Corollary path_injective_fields (c : Conf) (Ld : Loaded) x y cfg p :
  load c = Some Ld -> wf_loadedb Ld = true ->
  path_to_dict Ld p cfg = Ok (Some (s_type x, s_fields x)) ->
  path_to_dict Ld p cfg = Ok (Some (s_type y, s_fields y)) ->
  rdict_to_sid Ld (s_fields x) (s_type x) = Ok (s_string x) ->
  rdict_to_sid Ld (s_fields y) (s_type y) = Ok (s_string y) ->
  x = y.
Proof.
  intros _ _ X Y RX RY. rewrite X in Y. inversion Y as [[Ht Hf]].
  rewrite Ht, Hf in RX. rewrite RX in RY. inversion RY as [Hs].
  destruct x as [a1 a2 a3], y as [b1 b2 b3]. cbn [s_string s_type s_fields] in *. congruence.
Qed.

(** * P3: the failures of [sid_of_path] *)

(** ** resolvers in general: the only exception of resolving is ResolvaException (duplicate placeholders
       with different values); formatting a dict whose keys are the template's keys cannot fail by itself *)

Lemma match_to_dict_aux_raise check : forall cs data e,
  match_to_dict_aux check cs data = Raise e -> e = ResolvaException.
Proof.
  induction cs as [|[g v] cs IH]; intros data e H; cbn [match_to_dict_aux] in H; [discriminate|].
  destruct (dget data (drop_last 3 g)) as [old|].
  - destruct (check && negb (String.eqb old v)); [inversion H; reflexivity | apply (IH _ _ H)].
  - apply (IH _ _ H).
Qed.

Lemma resolve_tpl_raise r t s e : resolve_tpl r t s = Raise e -> e = ResolvaException.
Proof.
  unfold resolve_tpl. destruct (search_anchored (tp_re t) s) as [cs|]; [|discriminate].
  unfold match_to_dict. destruct (match_to_dict_aux (r_check_dup r) cs []) as [d|e'] eqn:E; cbn [bind].
  - destruct d; discriminate.
  - intros H. inversion H; subst. apply (match_to_dict_aux_raise _ _ _ _ E).
Qed.

Lemma resolve_first_in_raise r s : forall l e, resolve_first_in r l s = Raise e -> e = ResolvaException.
Proof.
  induction l as [|t l IH]; intros e H; cbn [resolve_first_in] in H; [discriminate|].
  destruct (resolve_tpl r t s) as [[d|]|e'] eqn:E; cbn [bind] in H.
  - discriminate.
  - apply (IH _ H).
  - inversion H; subst. apply (resolve_tpl_raise _ _ _ _ E).
Qed.

Lemma resolve_first_raise r s e : resolve_first r s = Raise e -> e = ResolvaException.
Proof. unfold resolve_first. destruct (sempty s); [discriminate | apply resolve_first_in_raise]. Qed.

Lemma resolve_first_in_name r s : forall l t d, resolve_first_in r l s = Ok (Some (t, d)) ->
  exists tp, In tp l /\ tp_name tp = t.
Proof.
  induction l as [|t0 l IH]; intros t d H; cbn [resolve_first_in] in H; [discriminate|].
  destruct (resolve_tpl r t0 s) as [[d0|]|e'] eqn:E; cbn [bind] in H.
  - inversion H; subst. exists t0. split; [left; reflexivity | reflexivity].
  - destruct (IH _ _ H) as (tp & Hin & Hn). exists tp. split; [right; exact Hin | exact Hn].
  - discriminate.
Qed.

Lemma resolve_first_name r s t d : resolve_first r s = Ok (Some (t, d)) ->
  exists tp, In tp (r_tpls r) /\ tp_name tp = t.
Proof. unfold resolve_first. destruct (sempty s); [discriminate | apply resolve_first_in_name]. Qed.

Lemma resolve_one_raise r s label e : resolve_one r s label = Raise e -> e = ResolvaException.
Proof.
  unfold resolve_one. destruct (sempty s); [discriminate|].
  destruct (find_tpl r label) as [t|]; [|discriminate].
  destruct (resolve_tpl r t s) as [x|e'] eqn:E; cbn [bind]; [discriminate|].
  intros H. inversion H; subst. apply (resolve_tpl_raise _ _ _ _ E).
Qed.

Lemma uniq_first_aux_In x : forall l seen, In x l -> In x seen \/ In x (uniq_first_aux seen l).
Proof.
  induction l as [|a l IH]; intros seen Hin; [destruct Hin|]. cbn [uniq_first_aux].
  destruct (in_list a seen) eqn:E.
  - destruct Hin as [<- | Hin]; [left; apply in_list_In; exact E | apply IH; exact Hin].
  - destruct Hin as [<- | Hin]; [right; left; reflexivity|].
    destruct (IH (a :: seen) Hin) as [[<- | H] | H].
    + right. left. reflexivity.
    + left. exact H.
    + right. right. exact H.
Qed.

Lemma tkeys_In items n : In n (item_names items) -> In n (tkeys items).
Proof.
  intros H. unfold tkeys, uniq_first. destruct (uniq_first_aux_In n _ [] H) as [[] | G]. exact G.
Qed.

Lemma fmt_total d : forall items, (forall n, In n (item_names items) -> dget d n <> None) ->
  exists f, fmt items d = Ok f.
Proof.
  induction items as [|[t | n e] items IH]; intros H.
  - exists "". reflexivity.
  - destruct IH as (f & Hf). { intros n Hn. apply H. exact Hn. }
    exists (t ++ f). cbn [fmt]. rewrite Hf. reflexivity.
  - destruct IH as (f & Hf). { intros n' Hn. apply H. rewrite item_names_ph. right. exact Hn. }
    destruct (dget d n) as [v|] eqn:Ev.
    + exists (v ++ f). cbn [fmt]. rewrite Ev, Hf. reflexivity.
    + exfalso. apply (H n); [rewrite item_names_ph; left; reflexivity | exact Ev].
Qed.

Lemma fmt_keys_total d items : keys_eq (dkeys d) (tkeys items) = true -> exists f, fmt items d = Ok f.
Proof.
  intros Hk. apply fmt_total. intros n Hn. apply keys_eq_iff in Hk. destruct Hk as (_ & Hk).
  apply dget_In_keys. apply Hk. apply tkeys_In. exact Hn.
Qed.

Lemma format_tpl_raise r t d e : tp_keys t = tkeys (tp_items t) ->
  format_tpl r t d = Raise e -> e = ResolvaException.
Proof.
  intros Hkeys. unfold format_tpl. destruct (keys_eq (dkeys d) (tp_keys t)) eqn:Hk; cbn [negb]; [|discriminate].
  rewrite Hkeys in Hk. destruct (fmt_keys_total d _ Hk) as (f & ->). cbn [bind].
  destruct (resolve_one r f (tp_name t)) as [back|e'] eqn:E; cbn [bind].
  - destruct back; discriminate.
  - intros H. inversion H; subst. apply (resolve_one_raise _ _ _ _ E).
Qed.

Lemma format_one_raise r d label e :
  (forall t, In t (r_tpls r) -> tp_keys t = tkeys (tp_items t)) ->
  format_one r d label = Raise e -> e = ResolvaException.
Proof.
  intros Hkeys. unfold format_one. destruct d; [discriminate|].
  destruct (find_tpl r label) as [t|] eqn:Ef; [|discriminate].
  apply format_tpl_raise. apply Hkeys. unfold find_tpl in Ef. apply (find_some _ _ Ef).
Qed.

(** ** what [load] and the wf clause give for path configurations *)

Lemma opt_all_In {A} : forall (l : list (option A)) r, Tree.opt_all l = Some r ->
  forall x, In x r -> In (Some x) l.
Proof.
  induction l as [|[a|] l IH]; intros r H x Hx; cbn [Tree.opt_all] in H.
  - inversion H; subst. destruct Hx.
  - destruct (Tree.opt_all l) as [r'|]; [|discriminate]. inversion H; subst.
    destruct Hx as [<- | Hx]; [left; reflexivity | right; apply (IH r' eq_refl); exact Hx].
  - discriminate.
Qed.

Lemma load_path_keys c Ld : load c = Some Ld ->
  forall lp, In lp (l_paths Ld) ->
  forall t, In t (r_tpls (lp_resolver lp)) -> tp_keys t = tkeys (tp_items t).
Proof.
  unfold load. destruct (mk_resolver (load_sid_templates c) false) as [r|]; [|discriminate].
  destruct (Tree.opt_all (map load_path (c_path_confs c))) as [ps|] eqn:Eo; [|discriminate].
  intros H. inversion H; subst. cbn [l_paths]. intros lp Hlp.
  pose proof (opt_all_In _ _ Eo lp Hlp) as Hin. apply in_map_iff in Hin. destruct Hin as (pcf & Hl & _).
  unfold load_path, mk_resolver in Hl.
  destruct (mk_tpls (load_path_templates pcf)) as [ts|] eqn:Et; [|discriminate].
  inversion Hl; subst. cbn [lp_resolver r_tpls]. apply (mk_tpls_keys _ _ Et).
Qed.

Lemma get_path_config_In Ld cfg pc : get_path_config Ld cfg = Ok pc -> In pc (l_paths Ld).
Proof.
  unfold get_path_config.
  match goal with |- match find ?f ?l with _ => _ end = _ -> _ => destruct (find f l) as [p|] eqn:Ef end; [|discriminate].
  intros H. inversion H; subst. apply (find_some _ _ Ef).
Qed.

Lemma wf_path_tpls Ld : wf_loadedb Ld = true -> path_tpls_ok Ld = true.
Proof.
  unfold wf_loadedb, wf_loaded_ext. intros H.
  apply andb_true_iff in H. destruct H as (_ & H).
  apply andb_true_iff in H. destruct H as (_ & H). exact H.
Qed.

Lemma path_tpl_ok Ld lp t : wf_loadedb Ld = true -> In lp (l_paths Ld) -> In t (r_tpls (lp_resolver lp)) ->
  tp_name t <> "" /\ dget (c_key_types (l_conf Ld)) (basetype_of Ld (tp_name t)) <> None.
Proof.
  intros Hwf Hlp Ht. pose proof (wf_path_tpls Ld Hwf) as H. unfold path_tpls_ok in H.
  rewrite forallb_forall in H. specialize (H lp Hlp). rewrite forallb_forall in H. specialize (H t Ht).
  apply andb_true_iff in H. destruct H as (H1 & H2). split.
  - apply sempty_false. destruct (sempty (tp_name t)); [discriminate | reflexivity].
  - unfold basetype_of. unfold dmem in H2.
    destruct (dget (c_key_types (l_conf Ld)) (hd "" (split_s (c_sep (l_conf Ld)) (tp_name t)))); [discriminate | discriminate].
Qed.

Section Total.
Variables (c : Conf) (Ld : Loaded).
Hypothesis Hload : load c = Some Ld.
Hypothesis Hwf : wf_loadedb Ld = true.

(* the canonical string of a non-empty dict under a type never fails (sid resolver: no duplicate check) *)
Lemma rdict_to_sid_total d ty : d <> [] -> exists s, rdict_to_sid Ld d ty = Ok s.
Proof.
  intros Hd. unfold rdict_to_sid. destruct d as [|kv d]; [congruence|].
  unfold format_one. destruct (find_tpl (l_sid Ld) ty) as [t|] eqn:Ef; cbn [bind]; [|eexists; reflexivity].
  assert (Hin : In t (r_tpls (l_sid Ld))) by (unfold find_tpl in Ef; apply (find_some _ _ Ef)).
  destruct (format_tpl_cases c Ld Hload Hwf t (kv :: d) Hin) as [H | (_ & H & _)]; rewrite H; cbn [bind]; eexists; reflexivity.
Qed.

(* [path_to_dict]: under the wf clause the only exception is the resolver's own ResolvaException,
   and a result names a template of the path configuration *)
Lemma path_to_dict_cases p cfg pc : get_path_config Ld cfg = Ok pc ->
  path_to_dict Ld p cfg = Raise ResolvaException \/
  path_to_dict Ld p cfg = Ok None \/
  exists ty fields tp, path_to_dict Ld p cfg = Ok (Some (ty, fields)) /\
    In tp (r_tpls (lp_resolver pc)) /\ tp_name tp = ty /\ ty <> "".
Proof.
  intros Hpc. unfold path_to_dict. rewrite Hpc. cbn [bind].
  destruct (resolve_first (lp_resolver pc) p) as [[[t data]|]|e] eqn:Er; cbn [bind].
  - destruct (resolve_first_name _ _ _ _ Er) as (tp & Hin & Hn).
    destruct (path_tpl_ok Ld pc tp Hwf (get_path_config_In _ _ _ Hpc) Hin) as (Hne & Hk).
    rewrite Hn in Hk, Hne.
    destruct (dget (c_key_types (l_conf Ld)) (basetype_of Ld t)) as [keys|]; [|congruence].
    right. right. eexists t, _, tp. repeat split; auto.
  - right. left. reflexivity.
  - left. rewrite (resolve_first_raise _ _ _ Er). reflexivity.
Qed.

(* [dict_to_path] with a given (non-empty) type: a path, SpilException, or the ResolvaException of the
   reverse check [format_one] *)
Lemma dict_to_path_cases d ty cfg pc : get_path_config Ld cfg = Ok pc -> ty <> "" ->
  (exists p, dict_to_path Ld d ty cfg = Ok p) \/
  dict_to_path Ld d ty cfg = Raise SpilException \/
  (dict_to_path Ld d ty cfg = Raise ResolvaException /\
   exists d3, format_one (lp_resolver pc) d3 ty = Raise ResolvaException).
Proof.
  intros Hpc Hty. unfold dict_to_path. destruct d as [|kv d]; [right; left; reflexivity|].
  rewrite Hpc. cbn [bind]. apply sempty_false in Hty. rewrite Hty. cbn [bind].
  destruct (find_tpl (lp_resolver pc) ty) as [tp|] eqn:Ef; [|right; left; reflexivity].
  assert (Hin : In tp (r_tpls (lp_resolver pc))) by (unfold find_tpl in Ef; apply (find_some _ _ Ef)).
  pose proof (load_path_keys c Ld Hload pc (get_path_config_In _ _ _ Hpc)) as Hkeys.
  pose proof (Hkeys tp Hin) as Hk.
  destruct (tp_keys tp) as [|k0 ks] eqn:Ek; [right; left; reflexivity|].
  match goal with |- context [keys_eq (dkeys ?D) _] => set (d3 := D) end.
  destruct (keys_eq (dkeys d3) (k0 :: ks)) eqn:Eq; cbn [negb]; [|right; left; reflexivity].
  rewrite Hk in Eq. destruct (fmt_keys_total d3 _ Eq) as (path & ->). cbn [bind].
  destruct (format_one (lp_resolver pc) d3 ty) as [[p'|]|e] eqn:Eo; cbn [bind].
  - destruct (String.eqb p' path); [left; eexists; reflexivity | right; left; reflexivity].
  - right. left. reflexivity.
  - pose proof (format_one_raise _ _ _ _ Hkeys Eo) as ->. right. right. split; [reflexivity|].
    exists d3. exact Eo.
Qed.

(** P3, main statement.  [sid_of_path] succeeds or raises ResolvaException; in the second case the path
    resolver did read the path (its own ResolvaException is caught and gives the empty Sid) and the
    exception is the one of the reverse check [format_one] of [dict_to_path]. *)
Theorem path_total p cfg :
  (exists pc, get_path_config Ld cfg = Ok pc) ->
  (exists x, sid_of_path Ld p cfg = Ok x) \/ sid_of_path Ld p cfg = Raise ResolvaException.
Proof.
  intros (pc & Hpc). unfold sid_of_path.
  destruct (path_to_dict_cases p cfg pc Hpc) as [-> | [-> | (ty & fields & tp & -> & _ & _ & Hty)]].
  - left. eexists. reflexivity.
  - left. eexists. reflexivity.
  - destruct fields as [|kv fields]; [left; eexists; reflexivity|].
    destruct (rdict_to_sid_total (kv :: fields) ty) as (rs & ->); [discriminate|]. cbn [bind].
    destruct (sempty rs); [left; eexists; reflexivity|].
    destruct (dict_to_path_cases (kv :: fields) ty cfg pc Hpc Hty) as [(p0 & ->) | [-> | (-> & _)]].
    + left. destruct (String.eqb p0 (norm_path p)); eexists; reflexivity.
    + left. eexists. reflexivity.
    + right. reflexivity.
Qed.

Theorem path_raise_origin p cfg pc e :
  get_path_config Ld cfg = Ok pc -> sid_of_path Ld p cfg = Raise e ->
  e = ResolvaException /\
  exists ty fields, path_to_dict Ld p cfg = Ok (Some (ty, fields)) /\ fields <> [] /\
    dict_to_path Ld fields ty cfg = Raise ResolvaException /\
    exists d3, format_one (lp_resolver pc) d3 ty = Raise ResolvaException.
Proof.
  intros Hpc. unfold sid_of_path.
  destruct (path_to_dict_cases p cfg pc Hpc) as [-> | [-> | (ty & fields & tp & -> & _ & _ & Hty)]];
    try discriminate.
  destruct fields as [|kv fields]; [discriminate|].
  destruct (rdict_to_sid_total (kv :: fields) ty) as (rs & ->); [discriminate|]. cbn [bind].
  destruct (sempty rs); [discriminate|].
  destruct (dict_to_path_cases (kv :: fields) ty cfg pc Hpc Hty) as [(p0 & Hd) | [Hd | (Hd & d3 & H3)]]; rewrite Hd.
  - destruct (String.eqb p0 (norm_path p)); discriminate.
  - discriminate.
  - intros H. inversion H; subst. split; [reflexivity|].
    exists ty, (kv :: fields). split; [reflexivity|]. split; [discriminate|]. split; [exact Hd|].
    exists d3. exact H3.
Qed.

(* the only other failure: an unknown configuration name *)
Theorem path_config_error p cfg : get_path_config Ld cfg = Raise ConfigError ->
  sid_of_path Ld p cfg = Raise ConfigError.
Proof using Hload Hwf. intros H. unfold sid_of_path, path_to_dict. rewrite H. reflexivity. Qed.

Lemma get_path_config_cases cfg : (exists pc, get_path_config Ld cfg = Ok pc) \/ get_path_config Ld cfg = Raise ConfigError.
Proof.
  unfold get_path_config.
  match goal with |- context [find ?f ?l] => destruct (find f l) as [p|] end; [left; eexists; reflexivity | right; reflexivity].
Qed.

(* semantic hypothesis excluding the failure: the reverse check of the path resolver never meets
   differing duplicate placeholders *)
Theorem path_total_ok p cfg pc :
  get_path_config Ld cfg = Ok pc ->
  (forall d t, format_one (lp_resolver pc) d t <> Raise ResolvaException) ->
  exists x, sid_of_path Ld p cfg = Ok x.
Proof.
  intros Hpc Hsem. destruct (path_total p cfg (ex_intro _ pc Hpc)) as [H | H]; [exact H|].
  destruct (path_raise_origin p cfg pc _ Hpc H) as (_ & ty & fields & _ & _ & _ & d3 & H3).
  exfalso. apply (Hsem d3 ty H3).
Qed.

End Total.

(** * name, parent and suffix position of a path [d ++ "/" ++ l] whose last component [l] has no "/" *)

Lemma split_c_app_gen c b : forall a,
  split_c c (a ++ String c b) = (split_c c a ++ split_c c b)%list.
Proof.
  induction a as [|x a IH]; cbn [append split_c].
  - rewrite Ascii.eqb_refl. reflexivity.
  - destruct (Ascii.eqb x c); [rewrite IH; reflexivity|].
    rewrite IH. destruct (split_c c a) as [|h t] eqn:Ea; [exfalso; exact (split_c_not_nil c a Ea)|].
    reflexivity.
Qed.

Lemma split_c_last c d l : mem_c c l = false ->
  split_c c (d ++ String c l) = (split_c c d ++ [l])%list.
Proof. intros H. rewrite split_c_app_gen, (split_c_nomem c l H). reflexivity. Qed.

Lemma splitroot_rel p root rel : splitroot p = (root, rel) ->
  p = rel \/ p = String "/" rel \/ p = String "/" (String "/" rel).
Proof.
  unfold splitroot. intros H.
  destruct p as [|a p]; [inversion H; auto|].
  destruct (Ascii.eqb a "/") eqn:Ea.
  - apply Ascii.eqb_eq in Ea. subst a.
    destruct p as [|b p]; [inversion H; auto|].
    destruct (Ascii.eqb b "/") eqn:Eb.
    + apply Ascii.eqb_eq in Eb. subst b.
      destruct p as [|d p]; [inversion H; auto|].
      destruct (Ascii.eqb d "/") eqn:Ed.
      * apply Ascii.eqb_eq in Ed. subst d. inversion H; auto.
      * assert (G : rel = String d p).
        { destruct d as [[] [] [] [] [] [] [] []]; try (inversion H; reflexivity). discriminate. }
        subst rel. auto.
    + assert (G : rel = String b p).
      { destruct b as [[] [] [] [] [] [] [] []]; try (inversion H; reflexivity). discriminate. }
      subst rel. auto.
  - assert (G : rel = String a p).
    { destruct a as [[] [] [] [] [] [] [] []]; try (inversion H; reflexivity). discriminate. }
    subst rel. auto.
Qed.

Lemma cons_snoc_inv {A} (x : A) L B l : x :: L = (B ++ [l])%list -> L <> [] -> exists B', L = (B' ++ [l])%list.
Proof.
  intros H Hne. destruct B as [|b B]; cbn [app] in H; inversion H; subst; [congruence|].
  exists B. reflexivity.
Qed.

Lemma last_opt_snoc {A} (l : list A) x : last_opt (l ++ [x])%list = Some x.
Proof.
  induction l as [|a l IH]; [reflexivity|]. cbn [app].
  destruct (l ++ [x])%list eqn:E; [destruct l; discriminate|]. exact IH.
Qed.

Lemma path_name_last d l : mem_c "/" l = false -> l <> "" -> l <> "." ->
  path_name (d ++ "/" ++ l) = l.
Proof.
  intros Hm H1 H2. unfold path_name, path_parts.
  change (d ++ "/" ++ l) with (d ++ String "/" l). rewrite sempty_app_r.
  destruct (splitroot (d ++ String "/" l)) as [root rel] eqn:Es. cbn [snd].
  assert (Hsp : exists B, split_c "/" rel = (B ++ [l])%list).
  { pose proof (split_c_last "/" d l Hm) as Hp.
    destruct (splitroot_rel _ _ _ Es) as [E | [E | E]]; rewrite E in Hp.
    - eexists. exact Hp.
    - cbn [split_c] in Hp. rewrite Ascii.eqb_refl in Hp.
      apply (cons_snoc_inv _ _ _ _ Hp). apply split_c_not_nil.
    - cbn [split_c] in Hp. rewrite Ascii.eqb_refl in Hp.
      destruct (cons_snoc_inv _ _ _ _ Hp) as (B' & Hp'); [discriminate|].
      apply (cons_snoc_inv _ _ _ _ Hp'). apply split_c_not_nil. }
  destruct Hsp as (B & ->). rewrite filter_app. cbn [filter].
  assert (Hk : negb (sempty l) && negb (String.eqb l ".") = true).
  { apply (part_ok_keep l). repeat split; assumption. }
  rewrite Hk. rewrite last_opt_snoc. reflexivity.
Qed.

Lemma parent_path_last d l : mem_c "/" l = false ->
  parent_path (d ++ "/" ++ l) =
  match split_c "/" d with [] => "." | [""] => "/" | parts => join "/" parts end.
Proof.
  intros Hm. unfold parent_path. change (d ++ "/" ++ l) with (d ++ String "/" l).
  rewrite (split_c_last "/" d l Hm), removelast_last. reflexivity.
Qed.

Lemma rfind_dot_aux_app : forall a s i best,
  rfind_dot_aux (a ++ s) i best = rfind_dot_aux s (i + String.length a) (rfind_dot_aux a i best).
Proof.
  induction a as [|x a IH]; intros s i best; cbn [append rfind_dot_aux String.length].
  - rewrite Nat.add_0_r. reflexivity.
  - rewrite IH. replace (S i + String.length a) with (i + S (String.length a)) by lia. reflexivity.
Qed.

Lemma rfind_dot_aux_nodot : forall s i best, mem_c "." s = false -> rfind_dot_aux s i best = best.
Proof.
  induction s as [|x s IH]; intros i best H; cbn [rfind_dot_aux mem_c] in *; [reflexivity|].
  apply orb_false_iff in H. destruct H as (Hx & Hs). rewrite Hx. apply IH. exact Hs.
Qed.

Lemma rfind_dot_last a b : mem_c "." b = false ->
  rfind_dot (a ++ String "." b) = Some (String.length a).
Proof.
  intros Hb. unfold rfind_dot. rewrite rfind_dot_aux_app. cbn [rfind_dot_aux]. rewrite Ascii.eqb_refl.
  rewrite (rfind_dot_aux_nodot b _ _ Hb). reflexivity.
Qed.
