(** "A path never makes Sid() fail": for every string p, [sid_of_path] returns a Sid, under the decidable
    checks [paths_unambiguousb] and [paths_totalb] (Path/TotalDefs.v explains why the second is needed). *)
From Coq Require Import List String Ascii Bool Arith Lia.
From Spil Require Import Base.Str Base.Dict Base.Outcome Base.Tree Base.PyPath Base.StrProofs Base.SplitProofs
  Regex.Re Regex.MatchProofs Resolva.Template Resolva.Resolver Conf.ConfUtil Conf.Conf Conf.WF
  Sid.Query Sid.Sid Sid.TypingSpec Sid.TypingProofs Sid.SidLemmas Sid.SidProofs
  Path.PathProofs Path.ShapeProofs Path.UnambiguousDefs Path.UnambiguousProofs Path.TotalDefs.
Import ListNotations.
Local Open Scope list_scope.

(** * Part 1: the anchored search when the regex ends with a greedy class-star, and python's "$" *)

(* a class-star that accepts the newline, followed by "$": it takes everything *)
Lemma star_end c (K : string -> string -> option caps) (F : string -> caps) :
  in_cls c "010" = true ->
  (forall w s', K w s' = if at_dollar s' then Some (F w) else None) ->
  forall s pre x, star c pre s K = Some x -> all_cls c s /\ x = F (pre ++ s)%string.
Proof.
  intros Hnl HK. induction s as [|a s IH]; intros pre x H; cbn [star] in H.
  - rewrite HK in H. cbn [at_dollar] in H. inversion H. rewrite app_nil_r_s. split; [constructor | reflexivity].
  - destruct (in_cls c a) eqn:Ha.
    + destruct (star c (pre ++ str1 a) s K) as [r|] eqn:Hgo.
      * inversion H; subst r. destruct (IH _ _ Hgo) as (Hall & ->). split; [constructor; assumption|].
        rewrite app_assoc_s. reflexivity.
      * exfalso. rewrite HK in H. destruct (at_dollar (String a s)) eqn:Ed; [|discriminate].
        destruct (at_dollar_inv _ Ed) as [E | E]; [discriminate|]. unfold nl in E. inversion E; subst a s.
        cbn [star] in Hgo. rewrite HK in Hgo. cbn [at_dollar] in Hgo. discriminate.
    + exfalso. rewrite HK in H. destruct (at_dollar (String a s)) eqn:Ed; [|discriminate].
      destruct (at_dollar_inv _ Ed) as [E | E]; [discriminate|]. unfold nl in E. inversion E; subst a s.
      rewrite Hnl in Ha. discriminate.
Qed.

Lemma ML_app : forall l1 ws1 c1 l2 ws2 c2, ML l1 ws1 c1 -> ML l2 ws2 c2 -> ML (l1 ++ l2) (ws1 ++ ws2) (c1 ++ c2).
Proof.
  intros l1 ws1 c1 l2 ws2 c2 H1 H2. induction H1 as [|r l w ws c cs M HL IH]; [exact H2|].
  cbn [app]. rewrite <- app_assoc. constructor; assumption.
Qed.

Lemma ML_one r w c : Matches r w c -> ML [r] [w] c.
Proof. intros M. rewrite <- (app_nil_r c). constructor; [exact M | constructor]. Qed.

(* a successful run of the matcher on a sequence: the run of its last element *)
Lemma m_seq_last last : forall xs s k res, m (seq_of (xs ++ [last])) s k = Some res ->
  exists ws1 c1 s1 k', ML xs ws1 c1 /\ s = (sconcat ws1 ++ s1)%string /\
    (forall w2 s2 c2, k' w2 s2 c2 = k (sconcat ws1 ++ w2)%string s2 (c1 ++ c2)) /\
    m last s1 k' = Some res.
Proof.
  induction xs as [|x xs IH]; intros s k res H.
  - exists [], [], s, k. split; [constructor|]. split; [reflexivity|]. split; [intros; reflexivity | exact H].
  - cbn [app] in H. destruct (xs ++ [last]) as [|y l] eqn:El; [destruct xs; discriminate|].
    change (seq_of (x :: y :: l)) with (Seq x (seq_of (y :: l))) in H. cbn [m] in H.
    apply m_sound in H. destruct H as (w & sx & cx & Es & Mx & H).
    destruct (IH _ _ _ H) as (ws1 & c1 & s1 & k' & HML & Esx & Hk' & Hm).
    exists (w :: ws1), (cx ++ c1), s1, k'. split; [constructor; assumption|].
    split; [rewrite Es, Esx; cbn [sconcat]; rewrite app_assoc_s; reflexivity|].
    split; [|exact Hm]. intros w2 s2 c2. rewrite Hk'. cbn [sconcat]. rewrite app_assoc_s, <- app_assoc. reflexivity.
Qed.

Lemma search_open_last xs g c s res :
  in_cls c "010" = true ->
  search_anchored (seq_of (xs ++ [Grp g (Star c)])) s = Some res ->
  exists ws, ML (xs ++ [Grp g (Star c)]) ws res /\ sconcat ws = s.
Proof.
  intros Hnl H. unfold search_anchored in H.
  destruct (m_seq_last _ _ _ _ _ H) as (ws1 & c1 & s1 & k' & HML & Es & Hk' & Hm).
  cbn [m] in Hm.
  destruct (star_end c (fun w s' => k' w s' ([] ++ [(g, w)])) (fun w => c1 ++ [(g, w)]) Hnl) with (s := s1) (pre := EmptyString) (x := res)
    as (Hall & Hres).
  - intros w s'. rewrite Hk'. reflexivity.
  - exact Hm.
  - cbn [append] in Hres. exists (ws1 ++ [s1]). split.
    + rewrite Hres. apply ML_app; [exact HML|]. apply ML_one.
      change [(g, s1)] with ([] ++ [(g, s1)]). constructor. constructor. exact Hall.
    + rewrite sconcat_app. cbn [sconcat]. rewrite app_nil_r_s. symmetry. exact Es.
Qed.

(** ** words that do not end with a newline *)

Definition ends_not_nl (v : string) : Prop := exists l a, chars v = l ++ [a] /\ a <> "010"%char.

Lemma ends_not_nl_app x v w : ends_not_nl v -> (x ++ v)%string = (w ++ nl)%string -> False.
Proof.
  intros (l & a & Hv & Ha) E. apply (f_equal chars) in E. rewrite !chars_app, Hv in E.
  unfold nl in E. cbn [chars] in E. rewrite app_assoc in E. apply app_inj_tail in E. destruct E as (_ & E).
  exact (Ha E).
Qed.

Lemma no_nl_end_word sh w : no_nl_end sh = true -> wm sh w = true -> ends_not_nl (str w).
Proof.
  unfold no_nl_end. intros H Hw. destruct (rev sh) as [|c r] eqn:Er; [discriminate|].
  assert (Esh : sh = rev r ++ [c]).
  { rewrite <- (rev_involutive sh), Er. reflexivity. }
  rewrite Esh in Hw. destruct (wm_app_inv _ _ _ Hw) as (w1 & w2 & -> & _ & H2).
  destruct w2 as [|a [|a2 w2]]; cbn [wm] in H2; try discriminate.
  - rewrite andb_true_r in H2. exists w1, a. split; [apply list_ascii_of_string_of_list_ascii|].
    intros ->. rewrite H2 in H. discriminate.
  - rewrite andb_false_r in H2. discriminate.
Qed.

(** * Part 2: the words of a formatted string, without any condition on the values except their language *)

(* the value of every placeholder is a word of the placeholder's scan element *)
Definition elem_in_lang (d : dict string) (e : elem) : Prop :=
  match e with
  | ELit _ => True
  | EPh n _ _ => exists v s, dget d n = Some v /\ sel_of e = Some s /\ sel_lang s (chars v)
  end.

Lemma own_Fact_l d : forall es ss, sels_of es = Some ss -> Forall (elem_in_lang d) es ->
  Fact ss (map chars (map (eword d) es)).
Proof.
  induction es as [|e es IH]; intros ss Hc Hv.
  - inversion Hc; subst. constructor.
  - unfold sels_of in Hc. cbn [map] in Hc. destruct (opt_all_cons _ _ _ Hc) as (s & ss' & -> & He & Hc').
    inversion Hv as [|? ? Hv1 Hv2]; subst. cbn [map]. constructor; [|exact (IH ss' Hc' Hv2)].
    destruct e as [a | n g b].
    + cbn [sel_of] in He. inversion He; subst. exists [lit_cls a]. split; [left; reflexivity|].
      cbn [eword chars wm str1]. unfold lit_cls. destruct (Ascii.eqb a ".") eqn:Ea.
      * apply Ascii.eqb_eq in Ea. subst a. reflexivity.
      * rewrite in_cls_single, Ascii.eqb_refl. reflexivity.
    + destruct Hv1 as (v & s0 & Ev & Es0 & Hl). rewrite He in Es0. inversion Es0; subst s0.
      cbn [eword]. rewrite Ev. exact Hl.
Qed.

Lemma in_lang_keys d : forall es, Forall (elem_in_lang d) es -> forall n, In n (ekeys es) -> dget d n <> None.
Proof.
  induction 1 as [|e es He _ IH]; intros n Hn; [destruct Hn|].
  unfold ekeys in Hn. cbn [flat_map] in Hn. apply in_app_or in Hn. destruct Hn as [Hn | Hn]; [|exact (IH n Hn)].
  destruct e as [a | n0 g b]; [destruct Hn|]. destruct Hn as [<- | []].
  destruct He as (v & s & Ev & _). rewrite Ev. discriminate.
Qed.

Lemma map_chars_inj : forall a b : list string, map chars a = map chars b -> a = b.
Proof.
  induction a as [|x a IH]; intros [|y b] H; simpl in H; try discriminate; [reflexivity|].
  injection H as H1 H2. rewrite (chars_inj _ _ H1), (IH b H2). reflexivity.
Qed.

Lemma sconcat_snoc ws w : sconcat (ws ++ [w]) = (sconcat ws ++ w)%string.
Proof. rewrite sconcat_app. cbn [sconcat]. rewrite app_nil_r_s. reflexivity. Qed.

Lemma app_nl_not_empty w : (w ++ nl)%string <> EmptyString.
Proof. destruct w; discriminate. Qed.

(* the last word of the formatted string does not end with a newline, unless the last element is open *)
Lemma last_word_end d xs e : forallb lit_nl_ok (xs ++ [e]) = true -> tail_okb (xs ++ [e]) = true ->
  elem_in_lang d e ->
  (exists n g, e = EPh n g (Star CNotSlash)) \/ ends_not_nl (eword d e).
Proof.
  intros Hl Ht He. unfold tail_okb in Ht. rewrite rev_unit in Ht.
  rewrite forallb_app in Hl. apply andb_true_iff in Hl. destruct Hl as (_ & Hl). cbn [forallb] in Hl.
  rewrite andb_true_r in Hl. destruct e as [a | n g b].
  - right. cbn [eword lit_nl_ok] in *. exists [], a. split; [reflexivity|].
    intros ->. discriminate Hl.
  - destruct (is_open b) eqn:Eo.
    + left. exists n, g. rewrite (is_open_inv b Eo). reflexivity.
    + right. cbn [orb] in Ht. destruct (shapes b) as [Sh|] eqn:Eb; [|discriminate].
      destruct He as (v & s & Ev & Es & Hlang). cbn [sel_of] in Es. rewrite Eo, Eb in Es. inversion Es; subst s.
      cbn [eword]. rewrite Ev. destruct Hlang as (sh & Hin & Hw).
      rewrite forallb_forall in Ht. rewrite <- (string_of_list_ascii_of_string v).
      exact (no_nl_end_word sh _ (Ht sh Hin) Hw).
Qed.

Lemma rev_case {A} (l : list A) : l = [] \/ exists xs e, l = xs ++ [e].
Proof.
  destruct l as [|x l]; [left; reflexivity | right].
  destruct (@exists_last A (x :: l)) as (xs & e & E); [discriminate|]. exists xs, e. exact E.
Qed.

(* the anchored search on the own formatted string: whatever it returns is a match of the WHOLE string *)
Theorem search_full d es res :
  forallb lit_nl_ok es = true -> tail_okb es = true -> Forall (elem_in_lang d) es ->
  search_anchored (seq_of (map elem_re es)) (sconcat (map (eword d) es)) = Some res ->
  exists ws, ML (map elem_re es) ws res /\ sconcat ws = sconcat (map (eword d) es).
Proof.
  intros Hl Ht Hv H.
  assert (Hgen : forall f, search_anchored (seq_of (map elem_re es)) f = Some res ->
            (exists ws, ML (map elem_re es) ws res /\ sconcat ws = f) \/
            (exists w, f = (w ++ nl)%string)).
  { intros f Hf. unfold search_anchored in Hf. apply m_sound in Hf.
    destruct Hf as (w & s2 & c & E & M & Hk). destruct (at_dollar s2) eqn:Ed; [|discriminate].
    inversion Hk; subst c. destruct (at_dollar_inv _ Ed) as [-> | ->].
    - left. rewrite app_nil_r_s in E. subst f. destruct (seq_of_ML _ _ _ M) as (ws & HML & ->).
      exists ws. split; [exact HML | reflexivity].
    - right. exists w. exact E. }
  destruct (rev_case es) as [-> | (xs & e & ->)].
  - destruct (Hgen _ H) as [G | (w & E)]; [exact G|]. cbn [map sconcat] in E. symmetry in E.
    exfalso. exact (app_nl_not_empty w E).
  - apply Forall_app in Hv. destruct Hv as (_ & He). inversion He as [|? ? He1 _]; subst.
    destruct (last_word_end d xs e Hl Ht He1) as [(n & g & ->) | Hend].
    + rewrite map_app in H |- *. cbn [map elem_re] in H |- *.
      exact (search_open_last (map elem_re xs) g CNotSlash _ res eq_refl H).
    + destruct (Hgen _ H) as [G | (w & E)]; [exact G|]. exfalso.
      rewrite !map_app in E. cbn [map] in E. rewrite sconcat_snoc in E.
      exact (ends_not_nl_app _ _ _ Hend E).
Qed.

(** ** [match_to_dict] *)

Lemma mtd_nocheck : forall c data, exists d, match_to_dict_aux false c data = Ok d.
Proof.
  induction c as [|[g v] c IH]; intros data; cbn [match_to_dict_aux]; [eexists; reflexivity|].
  cbn [andb]. destruct (dget data (drop_last 3 g)); apply IH.
Qed.

(* a template without duplicated placeholders: the duplicate check has nothing to compare *)
Lemma mtd_nodup chk : forall es ws data, Forall elem_wf es -> NoDup (ekeys es) ->
  (forall n, In n (ekeys es) -> dget data n = None) ->
  exists d, match_to_dict_aux chk (caps_of es ws) data = Ok d.
Proof.
  induction es as [|[a | n g b] es IH]; intros ws data Hwf Hnd Hfresh.
  - exists data. reflexivity.
  - destruct ws as [|w ws]; [exists data; reflexivity|]. inversion Hwf; subst.
    cbn [caps_of elem_caps app]. apply IH; auto.
  - destruct ws as [|w ws]; [exists data; reflexivity|]. inversion Hwf as [|? ? Hg Hwf']; subst.
    cbn [elem_wf] in Hg. unfold ekeys in Hnd, Hfresh. cbn [flat_map app] in Hnd, Hfresh. fold (ekeys es) in Hnd, Hfresh.
    apply NoDup_cons_iff in Hnd. destruct Hnd as (Hnotin & Hnd').
    cbn [caps_of elem_caps app match_to_dict_aux]. rewrite Hg, (Hfresh n (or_introl eq_refl)).
    apply IH; auto. intros k Hk. rewrite dget_dset.
    destruct (String.eqb k n) eqn:E; [apply String.eqb_eq in E; subst k; contradiction|].
    apply Hfresh. right. exact Hk.
Qed.

(* with the check: a successful read gives every occurrence of a placeholder the value stored under its key *)
Lemma mtd_read : forall es ws data0 data, Forall elem_wf es -> List.length ws = List.length es ->
  match_to_dict_aux true (caps_of es ws) data0 = Ok data ->
  (forall k v, dget data0 k = Some v -> dget data k = Some v) /\
  Forall2 (fun e w => match e with EPh n _ _ => dget data n = Some w | ELit _ => True end) es ws.
Proof.
  induction es as [|[a | n g b] es IH]; intros ws data0 data Hwf Hlen H.
  - destruct ws; [|discriminate]. cbn [caps_of match_to_dict_aux] in H. inversion H; subst. split; [auto | constructor].
  - destruct ws as [|w ws]; [discriminate|]. inversion Hwf as [|? ? _ Hwf']; subst. cbn [caps_of elem_caps app] in H.
    injection Hlen as Hlen. destruct (IH ws data0 data Hwf' Hlen H) as (H1 & H2). split; [exact H1|].
    constructor; [exact I | exact H2].
  - destruct ws as [|w ws]; [discriminate|]. inversion Hwf as [|? ? Hg Hwf']; subst. cbn [elem_wf] in Hg.
    injection Hlen as Hlen. cbn [caps_of elem_caps app match_to_dict_aux] in H. rewrite Hg in H.
    assert (Hgo : match_to_dict_aux true (caps_of es ws) (dset data0 n w) = Ok data /\
                  forall k v, dget data0 k = Some v -> dget (dset data0 n w) k = Some v).
    { destruct (dget data0 n) as [old|] eqn:Eo.
      - cbn [andb] in H. destruct (String.eqb old w) eqn:Eq; cbn [negb] in H; [|discriminate].
        apply String.eqb_eq in Eq. subst old. split; [exact H|].
        intros k v Hk. rewrite dget_dset. destruct (String.eqb k n) eqn:E; [|exact Hk].
        apply String.eqb_eq in E. subst k. rewrite Eo in Hk. exact Hk.
      - split; [exact H|]. intros k v Hk. rewrite dget_dset. destruct (String.eqb k n) eqn:E; [|exact Hk].
        apply String.eqb_eq in E. subst k. rewrite Eo in Hk. discriminate. }
    destruct Hgo as (Hgo & Hpres). destruct (IH ws _ data Hwf' Hlen Hgo) as (H1 & H2). split.
    + intros k v Hk. apply H1. apply Hpres. exact Hk.
    + constructor; [|exact H2]. apply H1. rewrite dget_dset, String.eqb_refl. reflexivity.
Qed.

(** * Part 3: the reverse check of [format_one] does not raise *)

Lemma search_caps t es ss f res :
  compile (tp_items t) = Some (tp_re t) -> tpl_elems t = Some es -> sels_of es = Some ss ->
  search_anchored (tp_re t) f = Some res ->
  exists ws, res = caps_of es ws /\ Fact ss (map chars ws).
Proof.
  intros Hc He Hs H. rewrite (tpl_re_elems t es Hc He) in H. unfold search_anchored in H.
  apply m_sound in H. destruct H as (w & s2 & c & _ & M & Hk).
  destruct (at_dollar s2); [|discriminate]. inversion Hk; subst c.
  destruct (seq_of_ML _ _ _ M) as (ws & HML & _). destruct (ML_Fact es ss ws res Hs HML) as (F & E).
  exists ws. split; assumption.
Qed.

Lemma resolve_tpl_ok_of_mtd pr t f :
  (forall res, search_anchored (tp_re t) f = Some res -> exists d, match_to_dict_aux (r_check_dup pr) res [] = Ok d) ->
  forall e, resolve_tpl pr t f <> Raise e.
Proof.
  intros H e. unfold resolve_tpl. destruct (search_anchored (tp_re t) f) as [res|]; [|discriminate].
  destruct (H res eq_refl) as (d & Hd). unfold match_to_dict. rewrite Hd. cbn [bind]. destruct d; discriminate.
Qed.

(* a template without duplicated placeholders *)
Lemma resolve_tpl_nodup pr t es ss f :
  compile (tp_items t) = Some (tp_re t) -> tpl_elems t = Some es -> sels_of es = Some ss ->
  NoDup (ekeys es) -> forall e, resolve_tpl pr t f <> Raise e.
Proof.
  intros Hc He Hs Hnd. apply resolve_tpl_ok_of_mtd. intros res Hres.
  destruct (search_caps t es ss f res Hc He Hs Hres) as (ws & -> & _).
  apply mtd_nodup; [exact (elems_wf _ _ _ He) | exact Hnd | reflexivity].
Qed.

(* the own formatted string of values that are words of their placeholders *)
Lemma resolve_tpl_own pr t es ss d f :
  compile (tp_items t) = Some (tp_re t) -> tpl_elems t = Some es -> sels_of es = Some ss ->
  own_ok ss = true -> forallb lit_nl_ok es = true -> tail_okb es = true ->
  Forall (elem_in_lang d) es -> fmt (tp_items t) d = Ok f ->
  forall e, resolve_tpl pr t f <> Raise e.
Proof.
  intros Hc He Hs Hown Hnl Ht Hv Hf. apply resolve_tpl_ok_of_mtd. intros res Hres.
  pose proof (fmt_elems d _ _ _ _ He Hf) as Ef. subst f.
  rewrite (tpl_re_elems t es Hc He) in Hres.
  destruct (search_full d es res Hnl Ht Hv Hres) as (ws & HML & Ews).
  destruct (ML_Fact es ss ws res Hs HML) as (F & ->).
  assert (Hw : map chars ws = map chars (map (eword d) es)).
  { apply (own_unique ss _ _ Hown F (own_Fact_l d es ss Hs Hv)). rewrite <- !chars_sconcat, Ews. reflexivity. }
  apply map_chars_inj in Hw. subst ws.
  destruct (mtd_own (r_check_dup pr) d es [] (elems_wf _ _ _ He) (in_lang_keys d es Hv)) as (d' & Hd' & _).
  { intros k v Hk. discriminate Hk. }
  exists d'. exact Hd'.
Qed.

Lemma resolve_tpl_nocheck pr t f : r_check_dup pr = false -> forall e, resolve_tpl pr t f <> Raise e.
Proof. intros Hc. apply resolve_tpl_ok_of_mtd. intros res _. rewrite Hc. apply mtd_nocheck. Qed.

Lemma find_tpl_name pr ty tp : find_tpl pr ty = Some tp -> find_tpl pr (tp_name tp) = Some tp.
Proof.
  intros Hfind. unfold find_tpl in *. destruct (find_some _ _ Hfind) as (_ & E). apply String.eqb_eq in E.
  rewrite E. exact Hfind.
Qed.

Lemma format_one_noraise pr d ty tp :
  find_tpl pr ty = Some tp ->
  (forall f, fmt (tp_items tp) d = Ok f -> forall e, resolve_tpl pr tp f <> Raise e) ->
  (forall e, fmt (tp_items tp) d <> Raise e) ->
  forall e, format_one pr d ty <> Raise e.
Proof.
  intros Hfind Hres Hfmt e. unfold format_one. destruct d as [|kv d]; [discriminate|]. rewrite Hfind.
  unfold format_tpl. destruct (negb (keys_eq _ _)); [discriminate|].
  destruct (fmt (tp_items tp) (kv :: d)) as [f|e'] eqn:Ef; [|exfalso; exact (Hfmt e' eq_refl)]. cbn [bind].
  unfold resolve_one. destruct (sempty f); [discriminate|]. rewrite (find_tpl_name _ _ _ Hfind).
  destruct (resolve_tpl pr tp f) as [x|e'] eqn:Er; [|exfalso; exact (Hres f eq_refl e' Er)].
  cbn [bind]. destruct x as [[|? ?]|]; discriminate.
Qed.

(** * Part 4: the values that [dict_to_path] writes *)

Lemma dget_map_kv (F : string * string -> string * string) : (forall kv, fst (F kv) = fst kv) ->
  forall (d : dict string) k, dget (map F d) k = option_map (fun v => snd (F (k, v))) (dget d k).
Proof.
  intros HF. induction d as [|[k0 v0] d IH]; intros k; [reflexivity|]. cbn [map dget].
  destruct (F (k0, v0)) as [k1 v1] eqn:EF. pose proof (HF (k0, v0)) as H. rewrite EF in H. cbn [fst] in H. subst k1.
  destruct (String.eqb k k0) eqn:E; [|apply IH]. apply String.eqb_eq in E. subst k0. cbn [option_map].
  rewrite EF. reflexivity.
Qed.

Lemma dget_app {V} (a b : dict V) k :
  dget (a ++ b) k = match dget a k with Some v => Some v | None => dget b k end.
Proof.
  induction a as [|[k0 v0] a IH]; [reflexivity|]. cbn [app dget]. destruct (String.eqb k k0); [reflexivity | exact IH].
Qed.

(* the fields in the order of key_types: the keys outside that list are dropped *)
Lemma dget_ordered (data : dict string) n : forall keys,
  dget (flat_map (fun k => match dget data k with Some v => [(k, v)] | None => [] end) keys) n
  = if in_list n keys then dget data n else None.
Proof.
  induction keys as [|k keys IH]; [reflexivity|]. cbn [flat_map]. rewrite dget_app, IH.
  unfold in_list. cbn [existsb]. fold (in_list n keys).
  destruct (dget data k) as [v|] eqn:Ek; cbn [dget].
  - destruct (String.eqb n k) eqn:E; [|reflexivity]. apply String.eqb_eq in E. subst k. cbn [orb]. symmetry. exact Ek.
  - destruct (String.eqb n k) eqn:E; [|reflexivity]. apply String.eqb_eq in E. subst k. cbn [orb]. rewrite Ek.
    destruct (in_list n keys); reflexivity.
Qed.

Lemma d3_keeps (defaults : list (string * string)) n v : forall keys (d : dict string), dget d n = Some v ->
  dget (fold_left (fun d k => match dget defaults k with
                              | Some dv => if negb (dmem d k) && truthy dv then dset d k dv else d
                              | None => d end) keys d) n = Some v.
Proof.
  induction keys as [|k keys IH]; intros d Hd; [exact Hd|]. cbn [fold_left]. apply IH.
  destruct (dget defaults k) as [dv|]; [|exact Hd].
  destruct (negb (dmem d k) && truthy dv) eqn:Eb; [|exact Hd].
  apply andb_true_iff in Eb. destruct Eb as (Em & _). rewrite dget_dset.
  destruct (String.eqb n k) eqn:E; [|exact Hd]. apply String.eqb_eq in E. subst k.
  unfold dmem in Em. rewrite Hd in Em. discriminate.
Qed.

(* a value present in the fields, after the three steps of [dict_to_path] *)
Lemma d3_get lp (data : dict string) keys n s : dget data n = Some s ->
  dget (fold_left (fun d k => match dget (pc_defaults (lp_conf lp)) k with
                              | Some dv => if negb (dmem d k) && truthy dv then dset d k dv else d
                              | None => d end) keys
         (map (fun kv => match dget (pc_mapping (lp_conf lp)) (fst kv) with
                         | Some ((_ :: _) as m) => if truthy (snd kv) then (fst kv, get_key m (snd kv)) else kv
                         | _ => kv end)
           (map (fun kv => match dget (pc_defaults (lp_conf lp)) (fst kv) with
                           | Some dv => if negb (truthy (snd kv)) && truthy dv then (fst kv, dv) else kv
                           | None => kv end) data))) n
  = Some (post_val lp n s).
Proof.
  intros Hd. apply d3_keeps. rewrite dget_map_kv.
  2:{ intros [k v]. cbn [fst snd]. destruct (dget (pc_mapping (lp_conf lp)) k) as [[|? ?]|]; try reflexivity.
      destruct (truthy v); reflexivity. }
  rewrite dget_map_kv.
  2:{ intros [k v]. cbn [fst snd]. destruct (dget (pc_defaults (lp_conf lp)) k) as [dv|]; [|reflexivity].
      destruct (negb (truthy v) && truthy dv); reflexivity. }
  rewrite Hd. cbn [option_map fst snd]. f_equal. unfold post_val.
  destruct (dget (pc_defaults (lp_conf lp)) n) as [dv|]; [destruct (negb (truthy s) && truthy dv)|];
    cbn [fst snd]; destruct (dget (pc_mapping (lp_conf lp)) n) as [[|? ?]|]; try reflexivity;
    match goal with |- context [truthy ?x] => destruct (truthy x); reflexivity end.
Qed.

(** ** the round trip stays in the language of the placeholder *)

Lemma in_selb_iff s w : in_selb s w = true <-> sel_lang s (chars w).
Proof.
  destruct s as [Sh|]; cbn [in_selb sel_lang].
  - unfold in_shapesb, in_shapes. rewrite existsb_exists. reflexivity.
  - rewrite <- mem_c_chars. destruct (mem_c "/" w); cbn [negb]; split; congruence.
Qed.

Lemma get_key_notin m v : ~ In v (map snd m) -> get_key m v = v.
Proof.
  intros H. unfold get_key. destruct (find (fun kv => String.eqb (snd kv) v) m) as [[k0 v0]|] eqn:E; [|reflexivity].
  exfalso. apply H. destruct (find_some _ _ E) as (H1 & H2). cbn [snd] in H2. apply String.eqb_eq in H2. subst v0.
  apply in_map_iff. exists (k0, v). split; [reflexivity | exact H1].
Qed.

Lemma rt_id lp n w : ~ In w (cands lp n) -> rt_val lp n w = w.
Proof.
  unfold cands. intros H.
  assert (Hne : truthy w = true).
  { destruct w; [exfalso; apply H; left; reflexivity | reflexivity]. }
  unfold rt_val, post_val, map_in.
  destruct (dget (pc_mapping (lp_conf lp)) n) as [[|p m]|] eqn:Em.
  - rewrite Hne. cbn [negb andb]. destruct (dget (pc_defaults (lp_conf lp)) n); reflexivity.
  - assert (H1 : ~ In w (map fst (p :: m))) by (intros G; apply H; right; apply in_or_app; left; exact G).
    assert (H2 : ~ In w (map snd (p :: m))) by (intros G; apply H; right; apply in_or_app; right; exact G).
    apply dget_None_keys in H1. rewrite H1, Hne. cbn [negb andb].
    assert (E : match dget (pc_defaults (lp_conf lp)) n with Some _ => w | None => w end = w)
      by (destruct (dget (pc_defaults (lp_conf lp)) n); reflexivity).
    rewrite E, Hne. apply get_key_notin. exact H2.
  - rewrite Hne. cbn [negb andb]. destruct (dget (pc_defaults (lp_conf lp)) n); reflexivity.
Qed.

Lemma rt_in_lang lp n g b s w : elem_rt_ok lp (EPh n g b) = true -> sel_of (EPh n g b) = Some s ->
  sel_lang s (chars w) -> sel_lang s (chars (rt_val lp n w)).
Proof.
  unfold elem_rt_ok. intros H Hs Hw. rewrite Hs in H.
  destruct (in_dec string_dec w (cands lp n)) as [Hin | Hout].
  - rewrite forallb_forall in H. specialize (H w Hin). apply in_selb_iff in Hw. rewrite Hw in H.
    cbn [implb] in H. apply in_selb_iff. exact H.
  - rewrite (rt_id lp n w Hout). exact Hw.
Qed.

(** * Part 5: from the path that was read to the string that is checked *)

Lemma resolve_first_in_some pr p : forall l ty data, resolve_first_in pr l p = Ok (Some (ty, data)) ->
  exists tp, In tp l /\ tp_name tp = ty /\ resolve_tpl pr tp p = Ok (Some data).
Proof.
  induction l as [|t0 l IH]; intros ty data H; cbn [resolve_first_in] in H; [discriminate|].
  destruct (resolve_tpl pr t0 p) as [[d0|]|e'] eqn:E; cbn [bind] in H.
  - inversion H; subst. exists t0. split; [left; reflexivity|]. split; [reflexivity | exact E].
  - destruct (IH _ _ H) as (tp & Hin & Hn & Hr). exists tp. split; [right; exact Hin|]. split; assumption.
  - discriminate.
Qed.

Lemma find_tpl_nodup pr tp : NoDup (map tp_name (r_tpls pr)) -> In tp (r_tpls pr) ->
  find_tpl pr (tp_name tp) = Some tp.
Proof.
  unfold find_tpl. induction (r_tpls pr) as [|t l IH]; intros Hnd Hin; [destruct Hin|].
  cbn [map] in Hnd. apply NoDup_cons_iff in Hnd. destruct Hnd as (Hn & Hnd). cbn [find].
  destruct Hin as [-> | Hin].
  - rewrite String.eqb_refl. reflexivity.
  - destruct (String.eqb (tp_name t) (tp_name tp)) eqn:E.
    + exfalso. apply String.eqb_eq in E. apply Hn. rewrite E. apply in_map. exact Hin.
    + apply IH; assumption.
Qed.

Lemma opt_all_length {A} : forall (l : list (option A)) r, opt_all l = Some r -> List.length r = List.length l.
Proof.
  induction l as [|x l IH]; intros r H.
  - inversion H; subst. reflexivity.
  - destruct (opt_all_cons _ _ _ H) as (a & r' & -> & _ & Hr). cbn [List.length]. rewrite (IH r' Hr). reflexivity.
Qed.

(* what was read: the value stored under a key is a word of every placeholder with that key *)
Lemma read_lang data : forall es ss ws, sels_of es = Some ss -> Fact ss (map chars ws) ->
  Forall2 (fun e w => match e with EPh n _ _ => dget data n = Some w | ELit _ => True end) es ws ->
  Forall (elem_in_lang data) es.
Proof.
  induction es as [|e es IH]; intros ss ws Hs F H2; [constructor|].
  inversion H2 as [|? w ? ws' Hw H2']; subst.
  unfold sels_of in Hs. cbn [map] in Hs. destruct (opt_all_cons _ _ _ Hs) as (s & ss' & -> & He & Hs').
  cbn [map] in F. inversion F as [|? ? ? ? Hl F']; subst.
  constructor; [|exact (IH ss' ws' Hs' F' H2')].
  destruct e as [a | n g b]; [exact I|]. exists w, s. split; [exact Hw|]. split; [exact He | exact Hl].
Qed.

Lemma lang_transport lp data d3 es : forallb (elem_rt_ok lp) es = true ->
  (forall n w, In n (ekeys es) -> dget data n = Some w -> dget d3 n = Some (rt_val lp n w)) ->
  Forall (elem_in_lang data) es -> Forall (elem_in_lang d3) es.
Proof.
  intros Hrt Hget Hv. rewrite forallb_forall in Hrt. rewrite Forall_forall in Hv. apply Forall_forall.
  intros [a | n g b] Hin; [exact I|]. destruct (Hv _ Hin) as (w & s & Hw & Hs & Hl).
  exists (rt_val lp n w), s. split; [exact (Hget n w (in_ekeys n g b es Hin) Hw)|]. split; [exact Hs|].
  exact (rt_in_lang lp n g b s w (Hrt _ Hin) Hs Hl).
Qed.

Lemma resolve_tpl_read pr t es ss p data :
  compile (tp_items t) = Some (tp_re t) -> tpl_elems t = Some es -> sels_of es = Some ss ->
  r_check_dup pr = true -> resolve_tpl pr t p = Ok (Some data) -> Forall (elem_in_lang data) es.
Proof.
  intros Hc He Hs Hchk H. unfold resolve_tpl in H.
  destruct (search_anchored (tp_re t) p) as [res|] eqn:Es; [|discriminate].
  destruct (search_caps t es ss p res Hc He Hs Es) as (ws & -> & F).
  unfold match_to_dict in H. rewrite Hchk in H.
  destruct (match_to_dict_aux true (caps_of es ws) []) as [d0|] eqn:Em; [|discriminate]. cbn [bind] in H.
  assert (d0 = data) by (destruct d0; [discriminate | inversion H; reflexivity]). subst d0.
  assert (Hlen : List.length ws = List.length es).
  { pose proof (Fact_length _ _ F) as L. rewrite map_length in L. rewrite L.
    unfold sels_of in Hs. rewrite (opt_all_length _ _ Hs), map_length. reflexivity. }
  destruct (mtd_read es ws [] data (elems_wf _ _ _ He) Hlen Em) as (_ & H2).
  exact (read_lang data es ss ws Hs F H2).
Qed.

(** * Part 6: assembling *)

Section Main.
Variables (c : Conf) (Ld : Loaded).
Hypothesis Hload : load c = Some Ld.
Hypothesis Hwf : wf_loadedb Ld = true.
Hypothesis Hpu : paths_unambiguousb Ld = true.
Hypothesis Htot : paths_totalb Ld = true.

Lemma total_parts lp : In lp (l_paths Ld) ->
  NoDup (map tp_name (r_tpls (lp_resolver lp))) /\
  forall t, In t (r_tpls (lp_resolver lp)) -> tpl_total_ok lp t = true.
Proof.
  intros Hin. unfold paths_totalb in Htot. rewrite forallb_forall in Htot. specialize (Htot lp Hin).
  unfold path_total_conf_ok in Htot. apply andb_true_iff in Htot. destruct Htot as (H1 & H2).
  split; [apply nodupb_NoDup; exact H1|]. rewrite forallb_forall in H2. exact H2.
Qed.

(* every key of a path template named like a sid template is listed in key_types *)
Lemma keys_in tp keys n : tpl_keys_ok Ld tp = true -> find_tpl (l_sid Ld) (tp_name tp) <> None ->
  dget (c_key_types (l_conf Ld)) (basetype_of Ld (tp_name tp)) = Some keys ->
  In n (item_names (tp_items tp)) -> In n keys.
Proof.
  unfold tpl_keys_ok, basetype_of. intros H Hs Hk Hn.
  destruct (find_tpl (l_sid Ld) (tp_name tp)) as [ts|]; [|congruence].
  rewrite Hk in H. apply andb_true_iff in H. destruct H as (H1 & H2).
  apply keys_eq_iff in H1. destruct H1 as (Ha & _). apply strs_eqb_eq in H2.
  specialize (Ha n Hn). rewrite <- H2 in Ha. apply filter_In in Ha. exact (proj1 Ha).
Qed.

(* the reverse check of the template that read the path, on the values it read *)
Lemma reverse_check_total pc tp p data keys d3 :
  In pc (l_paths Ld) -> In tp (r_tpls (lp_resolver pc)) ->
  resolve_tpl (lp_resolver pc) tp p = Ok (Some data) ->
  find_tpl (l_sid Ld) (tp_name tp) <> None ->
  dget (c_key_types (l_conf Ld)) (basetype_of Ld (tp_name tp)) = Some keys ->
  (forall n s, In n keys -> dget data n = Some s ->
     dget d3 n = Some (rt_val pc n s)) ->
  forall f, fmt (tp_items tp) d3 = Ok f -> forall e, resolve_tpl (lp_resolver pc) tp f <> Raise e.
Proof.
  intros Hlp Hin Hrt Hsid Hkt Hget f Hf.
  destruct (r_check_dup (lp_resolver pc)) eqn:Echk; [|apply resolve_tpl_nocheck; exact Echk].
  destruct (path_conf_parts Ld Hpu pc Hlp) as (Hok & _ & _ & Hkeysok).
  rewrite forallb_forall in Hok, Hkeysok.
  destruct (tpl_ok_inv tp (Hok tp Hin)) as (es & ss & cs & He & Hs & _ & Hown & Hnl & _).
  pose proof (load_path_compile c Ld Hload pc Hlp tp Hin) as Hcomp.
  destruct (total_parts pc Hlp) as (_ & Htp). specialize (Htp tp Hin). unfold tpl_total_ok in Htp.
  pose proof (elems_keys _ _ _ He) as Hek.
  apply orb_true_iff in Htp. destruct Htp as [Hnd | Htp].
  - apply (resolve_tpl_nodup _ tp es ss f Hcomp He Hs). rewrite Hek. apply nodupb_NoDup. exact Hnd.
  - rewrite He in Htp. apply andb_true_iff in Htp. destruct Htp as (Htail & Hrtok).
    apply (resolve_tpl_own _ tp es ss d3 f Hcomp He Hs Hown Hnl Htail); [|exact Hf].
    apply (lang_transport pc data d3 es Hrtok).
    + intros n w Hn Hw. apply Hget; [|exact Hw]. rewrite Hek in Hn.
      exact (keys_in tp keys n (Hkeysok tp Hin) Hsid Hkt Hn).
    + exact (resolve_tpl_read _ tp es ss p data Hcomp He Hs Echk Hrt).
Qed.

Lemma dict_to_path_no_resolva p cfg pc ty fields :
  get_path_config Ld cfg = Ok pc -> path_to_dict Ld p cfg = Ok (Some (ty, fields)) ->
  find_tpl (l_sid Ld) ty <> None -> dict_to_path Ld fields ty cfg <> Raise ResolvaException.
Proof.
  intros Hpc Hpd Hsid Hraise.
  pose proof (get_path_config_In _ _ _ Hpc) as Hlp.
  destruct (total_parts pc Hlp) as (Hnames & _).
  unfold path_to_dict in Hpd. rewrite Hpc in Hpd. cbn [bind] in Hpd.
  destruct (resolve_first (lp_resolver pc) p) as [[[t data]|]|e] eqn:Er; cbn [bind] in Hpd; try discriminate.
  cbv zeta in Hpd.
  destruct (dget (c_key_types (l_conf Ld)) (basetype_of Ld t)) as [keys|] eqn:Ekt; [|discriminate].
  injection Hpd as Ety Efields. subst t.
  unfold resolve_first in Er. destruct (sempty p); [discriminate|].
  destruct (resolve_first_in_some _ _ _ _ _ Er) as (tp & Hin & Hname & Hrt).
  pose proof (find_tpl_nodup _ tp Hnames Hin) as Hfind. rewrite Hname in Hfind.
  destruct (path_tpl_ok Ld pc tp Hwf Hlp Hin) as (Hne & _). rewrite Hname in Hne. apply sempty_false in Hne.
  assert (Hfget : forall n w, In n keys -> dget data n = Some w ->
            dget fields n = Some (map_in (pc_mapping (lp_conf pc)) n w)).
  { intros n w Hn Hw. rewrite <- Efields, dget_ordered. apply in_list_In in Hn. rewrite Hn.
    rewrite dget_map_val, Hw. reflexivity. }
  clear Efields.
  unfold dict_to_path in Hraise. destruct fields as [|kv fl]; [discriminate|].
  rewrite Hpc in Hraise. cbn [bind] in Hraise. cbv zeta in Hraise. rewrite Hne in Hraise. cbn [bind] in Hraise.
  rewrite Hfind in Hraise.
  pose proof (load_path_keys c Ld Hload pc Hlp tp Hin) as Hk.
  destruct (tp_keys tp) as [|k0 ks] eqn:Ek; [discriminate|].
  match type of Hraise with context [keys_eq (dkeys ?D) _] => set (d3 := D) in Hraise end.
  destruct (keys_eq (dkeys d3) (k0 :: ks)) eqn:Eq; cbn [negb] in Hraise; [|discriminate].
  rewrite Hk in Eq. destruct (fmt_keys_total d3 _ Eq) as (path & Efmt). rewrite Efmt in Hraise. cbn [bind] in Hraise.
  destruct (format_one (lp_resolver pc) d3 ty) as [[p'|]|e] eqn:Eo; cbn [bind] in Hraise.
  - destruct (String.eqb p' path); discriminate.
  - discriminate.
  - apply (format_one_noraise (lp_resolver pc) d3 ty tp Hfind) with (e := e); [| |exact Eo].
    + rewrite <- Hname in Hsid, Ekt.
      apply (reverse_check_total pc tp p data keys d3 Hlp Hin Hrt Hsid Ekt).
      intros n s Hn Hs. unfold d3, rt_val. apply d3_get. exact (Hfget n s Hn Hs).
    + intros e'. rewrite Efmt. discriminate.
Qed.

Lemma rdict_find d ty rs : rdict_to_sid Ld d ty = Ok rs -> sempty rs = false -> find_tpl (l_sid Ld) ty <> None.
Proof.
  unfold rdict_to_sid, format_one. destruct d as [|kv d]; [discriminate|]. intros H Hrs Hf. rewrite Hf in H.
  cbn [bind] in H. inversion H; subst rs. discriminate.
Qed.

Theorem path_never_raises_sec p cfg pc :
  get_path_config Ld cfg = Ok pc -> exists x, sid_of_path Ld p cfg = Ok x.
Proof.
  intros Hpc. unfold sid_of_path.
  destruct (path_to_dict_cases Ld Hwf p cfg pc Hpc) as [-> | [-> | (ty & fields & tp & Hpd & _ & _ & Hty)]].
  - eexists. reflexivity.
  - eexists. reflexivity.
  - rewrite Hpd. destruct fields as [|kv fields]; [eexists; reflexivity|].
    destruct (rdict_to_sid_total c Ld Hload Hwf (kv :: fields) ty) as (rs & Hrs); [discriminate|].
    rewrite Hrs. cbn [bind]. destruct (sempty rs) eqn:Es; [eexists; reflexivity|].
    pose proof (rdict_find _ _ _ Hrs Es) as Hsid.
    destruct (dict_to_path_cases c Ld Hload (kv :: fields) ty cfg pc Hpc Hty) as [(p0 & ->) | [-> | (Hd & _)]].
    + destruct (String.eqb p0 (norm_path p)); eexists; reflexivity.
    + eexists. reflexivity.
    + exfalso. exact (dict_to_path_no_resolva p cfg pc ty (kv :: fields) Hpc Hpd Hsid Hd).
Qed.

End Main.

(** * The final statements *)

(** For EVERY string p (any characters, any length, newlines included): Sid(path=p, config=cfg) returns
    a Sid.  No guard on p. *)
Theorem path_never_raises (c : Conf) (Ld : Loaded) p cfg pc :
  load c = Some Ld -> wf_loadedb Ld = true -> paths_unambiguousb Ld = true -> paths_totalb Ld = true ->
  get_path_config Ld cfg = Ok pc ->
  exists x, sid_of_path Ld p cfg = Ok x.
Proof. intros H1 H2 H3 H4. apply (path_never_raises_sec c Ld H1 H2 H3 H4). Qed.

(* with the configuration name left open: the only failure is the unknown configuration *)
Corollary path_never_raises' (c : Conf) (Ld : Loaded) p cfg :
  load c = Some Ld -> wf_loadedb Ld = true -> paths_unambiguousb Ld = true -> paths_totalb Ld = true ->
  (exists x, sid_of_path Ld p cfg = Ok x) \/ sid_of_path Ld p cfg = Raise ConfigError.
Proof.
  intros H1 H2 H3 H4. destruct (get_path_config_cases Ld cfg) as [(pc & Hpc) | Hc].
  - left. exact (path_never_raises c Ld p cfg pc H1 H2 H3 H4 Hpc).
  - right. exact (path_config_error c Ld H1 H2 p cfg Hc).
Qed.

(* the factory itself *)
Corollary factory_path_never_raises (c : Conf) (Ld : Loaded) p cfg pc :
  load c = Some Ld -> wf_loadedb Ld = true -> paths_unambiguousb Ld = true -> paths_totalb Ld = true ->
  get_path_config Ld cfg = Ok pc ->
  exists x, sid_factory Ld (FromPath p cfg) = Ok x.
Proof.
  intros H1 H2 H3 H4 Hpc. cbn [sid_factory]. destruct (sempty p); [eexists; reflexivity|].
  exact (path_never_raises c Ld p cfg pc H1 H2 H3 H4 Hpc).
Qed.

Print Assumptions path_never_raises.
Print Assumptions factory_path_never_raises.

(** * The clause [paths_totalb] is needed: three small configurations that pass [wf_loadedb] and
      [paths_unambiguousb], each failing exactly one part of [paths_totalb], and a path on which
      [sid_of_path] raises ResolvaException.  So the statement without the clause is false. *)

Local Open Scope string_scope.

Definition cx_loaded (c : Conf) : Loaded :=
  match load c with Some Ld => Ld | None => mkLoaded c [] (mkResolver [] false) [] end.

(* the three parts of the clause, separately: names, end of the template, round trip *)
Definition clause_parts (Ld : Loaded) : bool * bool * bool :=
  (forallb (fun lp => nodupb (map tp_name (r_tpls (lp_resolver lp)))) (l_paths Ld),
   forallb (fun lp => forallb (fun t => nodupb (item_names (tp_items t)) ||
              match tpl_elems t with Some es => tail_okb es | None => false end) (r_tpls (lp_resolver lp))) (l_paths Ld),
   forallb (fun lp => forallb (fun t => nodupb (item_names (tp_items t)) ||
              match tpl_elems t with Some es => forallb (elem_rt_ok lp) es | None => false end)
              (r_tpls (lp_resolver lp))) (l_paths Ld)).

Definition probe (c : Conf) (p : string) :=
  (load c, wf_loadedb (cx_loaded c), paths_unambiguousb (cx_loaded c), clause_parts (cx_loaded c),
   sid_of_path (cx_loaded c) p "").

(* 1. python's "$" before a final newline: the closed pattern (x|x\n) at the end of the template *)
Definition cx_pat : string := "{a:(x|x" ++ nl ++ ")}".
Definition cx1 : Conf :=
  mkConf "/" ["*"] [("t", "{a:(x|y)}")] [] [] [("t", ["a"])] [] None [] [] []
    [mkPathConf "local" [("t", "/" ++ cx_pat ++ "/" ++ cx_pat)] [] [] []] "local" "".
Definition cx1_path : string := "/x" ++ nl ++ "/x" ++ nl ++ nl.

Example clause_needed_newline :
  probe cx1 cx1_path = (Some (cx_loaded cx1), true, true, (true, false, true), Raise ResolvaException).
Proof. vm_compute. reflexivity. Qed.

(* 2. a mapping that is not injective: "yy" is read, maps to "S", and is written back as "zz",
      which is not a word of the first {a}; "/zz/zz" then reads a = "z" and a = "zz" *)
Definition cx2 : Conf :=
  mkConf "/" ["*"] [("t0", "{a:(S|x)}"); ("t", "{a:(S|x)}/{b:(z|)}")] [] []
    [("t0", ["a"]); ("t", ["a"; "b"])] [] None [] [] []
    [mkPathConf "local" [("t", "/{a:(yy|z)}{b:(z|)}/{a:(yy|z|zz)}")] []
       [("a", [("zz", "S"); ("yy", "S")])] []] "local" "".

Example clause_needed_mapping :
  probe cx2 "/yy/yy" = (Some (cx_loaded cx2), true, true, (true, true, false), Raise ResolvaException).
Proof. vm_compute. reflexivity. Qed.

(* 3. two templates with one name: the second reads "/kzz/", the first formats and checks "/zz/zz" *)
Definition cx3 : Conf :=
  mkConf "/" ["*"] [("t0", "{a:(zz|z)}"); ("t", "{a:(zz|z)}/{b:(z|)}")] [] []
    [("t0", ["a"]); ("t", ["a"; "b"])] [] None [] [] []
    [mkPathConf "local" [("t", "/{a:(z)}{b:(z|)}/{a:(z|zz)}"); ("t", "/k{a:(zz|z)}/{b:(z|)}")] [] [] []]
    "local" "".

Example clause_needed_names :
  probe cx3 "/kzz/" = (Some (cx_loaded cx3), true, true, (false, true, true), Raise ResolvaException).
Proof. vm_compute. reflexivity. Qed.

(* hence: the statement asked for, without the extra clause, is false of the model *)
Theorem path_never_raises_without_clause_false :
  ~ (forall (c : Conf) (Ld : Loaded) p cfg pc,
       load c = Some Ld -> wf_loadedb Ld = true -> paths_unambiguousb Ld = true ->
       get_path_config Ld cfg = Ok pc -> exists x, sid_of_path Ld p cfg = Ok x).
Proof.
  intros H.
  assert (E1 : load cx1 = Some (cx_loaded cx1)) by (vm_compute; reflexivity).
  assert (E2 : wf_loadedb (cx_loaded cx1) = true) by (vm_compute; reflexivity).
  assert (E3 : paths_unambiguousb (cx_loaded cx1) = true) by (vm_compute; reflexivity).
  assert (E5 : sid_of_path (cx_loaded cx1) cx1_path "" = Raise ResolvaException) by (vm_compute; reflexivity).
  assert (Hpc : exists pc, get_path_config (cx_loaded cx1) "" = Ok pc) by (vm_compute; eexists; reflexivity).
  destruct Hpc as (pc & Hpc).
  destruct (H cx1 (cx_loaded cx1) cx1_path "" pc E1 E2 E3 Hpc) as (x & Hx).
  rewrite E5 in Hx. discriminate.
Qed.

Print Assumptions path_never_raises_without_clause_false.
