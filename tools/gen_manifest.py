#!/usr/bin/env python3
"""Writes MANIFEST.json from the table below (kept in one place so it stays valid)."""
import json, os
V = os.path.dirname(os.path.dirname(os.path.abspath(__file__)))

CLAIMED = {
 'C19': dict(
    text='General theorems (Coq, no bound on number of types / keys / levels) about a line-by-line Gallina model of extrapolate_templates and pattern_replacing: explicit types kept in order, no duplicate names or templates, every added entry is a well-named prefix level of an extrapolated type, nothing else, every level covered; tied to spil/conf/util.py by differential runs of the extracted model against the implementation on grammar-generated configurations and on the live configuration.',
    note='Trusted: Coq kernel + vm_compute; the hand-written model (validated by correspondence, not verified); extraction (ExtrOcamlBasic, ExtrOcamlString) and ocaml/driver.ml; python str.split/replace/join semantics as modelled. Placement (directly after, longest first) is checked by the oracle and correspondence, not yet a theorem.',
    technique='Coq proof by fold invariant over the template list + correspondence (extracted model vs impl)',
    design='6 C19'),
}

NOT_APPLICABLE = {}

def main():
    checks = []
    for pid in sorted(CLAIMED):
        c = CLAIMED[pid]
        checks.append({
            'property_id': pid,
            'quick_cmd': './check %s --tier quick' % pid,
            'thorough_cmd': './check %s --tier thorough' % pid,
            'evidence_file': 'evidence/%s.json' % pid,
            'replay_cmd_template': './check %s --replay {path}' % pid,
            'engine': 'coq-model',
            'level_claimed': {'category': 'proof', 'text': c['text'], 'design_ref': c['design']},
            'level_note': c['note'],
            'technique': c['technique'],
        })
    props = [json.loads(l)['id'] for l in open(os.path.join(V, 'properties.jsonl'))]
    na = []
    for pid in props:
        if pid not in CLAIMED:
            na.append({'property_id': pid, 'reason': NOT_APPLICABLE.get(pid, 'not yet built in this round: model and theorems for this property are still to be written (see DESIGN.md section 10); the technique applies')})
    m = {
        'version': 1,
        'setup_cmd': 'tools/setup.sh',
        'hooks': {'guard': 'SPIL_VERIF', 'enable': 'no source hooks are needed: checks drive the unmodified working tree of /repo from the harness (PYTHONPATH=/repo)',
                  'baseline_off_cmd': 'cd /repo && /venv/bin/python -m pytest -ra -q -p no:cacheprovider --timeout=900 --continue-on-collection-errors',
                  'source_commits': [], 'add_only': True},
        'engines': [{'name': 'coq-model', 'path': 'coq/', 'serves_properties': sorted(CLAIMED),
                     'kind_free_text': 'Coq 8.16.1 development (hand-written executable model + theorems), configuration regenerated from /repo on every run, extracted model compared with the implementation'}],
        'checks': checks,
        'not_applicable': na,
        'notes': 'See DESIGN.md. fix: commits in /repo are listed in known_findings.json (fixed entries).',
    }
    json.dump(m, open(os.path.join(V, 'MANIFEST.json'), 'w'), indent=1)

if __name__ == '__main__':
    main()
