(** Model of spil/sid/read/finders/find_list.py (glob2re, FindInList.star_search),
    find_glob.py (do_find, sorted_search), finder.py (find, find_one, exists) and TypedSid.match. *)
From Coq Require Import List String Ascii Bool Arith.
From Spil Require Import Base.Str Base.Dict Base.Outcome Regex.Re
  Resolva.Template Resolva.Resolver Conf.ConfUtil Conf.Conf Sid.Query Sid.Sid Search.Unfold.
Import ListNotations.
Local Open Scope string_scope.

(* does a "[" at this point open a character class (fnmatch rule)?  s = text after the "[" *)
Definition opens_class (s : string) : bool :=
  let s1 := match s with String "!" r => r | _ => s end in
  let s2 := match s1 with String "]" r => r | _ => s1 end in
  mem_c "]" s2.

(* glob2re as a regex AST; None = a "[...]" class is formed (outside the modelled fragment) *)
Fixpoint glob2re_items (pat : string) : option (list re) :=
  match pat with
  | "" => Some []
  | String a rest =>
      if Ascii.eqb a "[" && opens_class rest then None else
      match glob2re_items rest with
      | None => None
      | Some l =>
          Some ((if Ascii.eqb a "*" then Star CNotSlash
                 else if Ascii.eqb a "?" then Cls CNotSlash
                 else Chr a) :: l)
      end
  end.
Definition glob2re (pat : string) : option re := option_map seq_of (glob2re_items pat).

(* re.match(glob2re(pat), item) *)
Definition glob_match (pat item : string) : outcome bool :=
  match glob2re pat with
  | Some r => Ok (match_full r item)
  | None => Raise Unmodelled
  end.

Section WithConf.
Variable L : Loaded.

(* FindInList.star_search with as_sid=False: items matching any search, each once, grouped by search *)
Fixpoint star_search_aux (searches : list sid) (items : list string) (done : list string) : outcome (list string) :=
  match searches with
  | [] => Ok []
  | q :: rest =>
      do hits <- mapM (fun it => do b <- glob_match (s_string q) it; Ok (it, b)) items;
      let new := fold_left (fun acc ib => if snd ib && negb (in_list (fst ib) acc) then (acc ++ [fst ib])%list else acc)
                           hits done in
      do more <- star_search_aux rest items new;
      Ok (skipn (List.length done) new ++ more)%list
  end.
Definition star_search (searches : list sid) (items : list string) : outcome (list string) :=
  star_search_aux searches items [].

Fixpoint index_of (x : string) (l : list string) : option nat :=
  match l with
  | [] => None
  | y :: t => if String.eqb x y then Some 0 else option_map S (index_of x t)
  end.

Fixpoint list_eqb (a b : list string) : bool :=
  match a, b with
  | [], [] => true
  | x :: a', y :: b' => String.eqb x y && list_eqb a' b'
  | _, _ => false
  end.

(* itertools.groupby on consecutive equal keys: first element of each run *)
Fixpoint group_firsts (key : string -> list string) (l : list string) (prev : option (list string)) : list string :=
  match l with
  | [] => []
  | x :: t =>
      let k := key x in
      match prev with
      | Some p => if list_eqb p k then group_firsts key t prev else x :: group_firsts key t (Some k)
      | None => x :: group_firsts key t (Some k)
      end
  end.

(* python list comparison of segment lists *)
Fixpoint segs_ltb (a b : list string) : bool :=
  match a, b with
  | [], [] => false
  | [], _ :: _ => true
  | _ :: _, [] => false
  | x :: a', y :: b' => if str_ltb x y then true else if str_ltb y x then false else segs_ltb a' b'
  end.
Definition path_leb (a b : string) : bool := negb (segs_ltb (split_c "/" b) (split_c "/" a)).
Fixpoint insert_path (x : string) (l : list string) : list string :=
  match l with
  | [] => [x]
  | y :: t => if path_leb x y then x :: l else y :: insert_path x t
  end.
Definition sort_paths (l : list string) : list string := fold_right insert_path [] l.

(* find_glob.sorted_search (as_sid=False) *)
Definition sorted_search (searches : list sid) (items : list string) : outcome (list string) :=
  match searches with
  | [] => Ok []
  | q0 :: _ =>
      match index_of ">" (split_c "/" (s_string q0)) with
      | None => Raise ValueError
      | Some index =>
          do founds <- concat_mapM (fun q => do q' <- Sid L (replace ">" "*" (uri q)); star_search [q'] items) searches;
          let sorted_desc := rev (sort_paths (nodup_s founds)) in
          Ok (group_firsts (fun x => firstn index (split_c "/" x)) sorted_desc None)
      end
  end.

Definition do_find (searches : list sid) (items : list string) : outcome (list string) :=
  match searches with
  | [] => Ok []
  | _ => if existsb (fun q => Nat.ltb 0 (count ">" (s_string q))) searches
         then sorted_search searches items
         else star_search searches items
  end.

(* Finder.find(search, as_sid=False) for a string argument *)
Definition find_list (items : list string) (search : string) : outcome (list string) :=
  do x <- Sid L search;
  let is_alias := dmem (c_extension_alias (l_conf L)) (last (split_c "/" (s_string x)) "") in
  if sid_bool x && negb (is_search L x) && negb is_alias && negb (mem_c "?" (s_string x)) then do_find [x] items
  else do qs <- unfold_search L search false false; do_find qs items.

(* as_sid=True: each result retyped by Sid(item) *)
Definition find_list_sids (items : list string) (search : string) : outcome (list sid) :=
  do r <- find_list items search; mapM (Sid L) r.

(* find_one(search, as_sid=False): None when nothing *)
Definition find_one (items : list string) (search : string) : outcome (option string) :=
  do r <- find_list items search; Ok (hd_error r).

Definition exists_ (items : list string) (search : string) : outcome bool :=
  do r <- find_one items search; Ok (match r with Some s => truthy s | None => false end).

(* TypedSid.match(search) for a string argument *)
Definition sid_match (x : sid) (search : string) : outcome bool :=
  do q <- Sid L search;
  if sid_eqb q x then Ok true else
  if negb (sid_bool x) then Ok false else
  do r <- find_one [s_string x] search;
  Ok (match r with Some s => String.eqb s (s_string x) | None => false end).

End WithConf.
