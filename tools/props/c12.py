"""C12 exists / find_one / as_sid agree with find (list-backed part; Sid.exists/children/siblings need the file system: see C15)."""
from harness.runner import PropBase, Case
from harness import gen
from props import listsearch as ls

class C12(PropBase):
    id = 'C12'
    rule = ('universes x searches of the C07 family and concrete sids (existing or not): find (both as_sid), find_one, exists on FindInList; '
            'non-trivial = something found; distinct by (universe, search)')
    partial_note = 'Finder-level clauses on FindInList; Sid.exists/children/siblings are checked over the file-system model in the data checks'
    def cases(self, rng, ctx, tier):
        v = gen.vocab_from_ctx(ctx)
        nu, ns = (40, 25) if tier == 'quick' else (400, 80)
        out = []
        gid = 0
        for _ in range(nu):
            items = [e for e in ls.universe(rng, v) if ':' not in e and '?' not in e]      # entries are Sid strings, not uris (the theorem's plain_entry guard)
            for _ in range(ns):
                gid += 1
                r = rng.random()
                if r < 0.6:
                    q = ls.search_from(rng, v, items, allow_gt=(rng.random() < 0.3))
                elif r < 0.85 and items:
                    q = rng.choice(items)
                else:
                    q = v.sid(v.any_type(rng), rng)
                for op in ('find_list', 'find_list_sids', 'find_one', 'exists'):
                    out.append(Case(op, [items, q], 'quad', {'g': gid}))
        return out
    def oracle_bulk(self, cases, impl_out, ctx):
        groups = {}
        for c, o in zip(cases, impl_out):
            if 'g' in c.meta:
                groups.setdefault(c.meta['g'], {})[c.op] = (c, o)
        fails = []
        for g, d in groups.items():
            if len(d) < 4:
                continue
            (fc, fo), (sc, so), (oc, oo), (ec, eo) = d['find_list'], d['find_list_sids'], d['find_one'], d['exists']
            kinds = set(o[0] for o in (fo, so, oo, eo))
            if kinds != {'ok'}:
                if len(kinds) > 1 or len(set(o[1] for o in (fo, so, oo, eo))) > 1:
                    fails.append((fc, fo, 'find / find_one / exists do not fail alike: %r %r %r %r' % (fo, so, oo, eo)))
                continue
            found = fo[1]
            if [x[0] for x in so[1]] != found:
                fails.append((sc, so, 'as_sid=False strings %r differ from the strings of as_sid=True %r' % (found, [x[0] for x in so[1]])))
            first = found[:1]
            if oo[1] != first:
                fails.append((oc, oo, 'find_one %r is not the first element of find %r' % (oo[1], first)))
            if '' not in found[:1]:
                if eo[1] != ('1' if found else '0'):
                    fails.append((ec, eo, 'exists %r but find yields %r' % (eo[1], found)))
        return fails
    def nontrivial(self, case, impl):
        return case.args if case.op == 'find_list' and impl[0] == 'ok' and impl[1] else None
    def histogram_key(self, case, impl):
        return '%s:%s' % (case.op, 'raise' if impl[0] != 'ok' else (min(len(impl[1]), 3) if isinstance(impl[1], list) else impl[1]))

PROP = C12()
