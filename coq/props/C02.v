(** C02 — string, fields, query and uri forms of a typed Sid all denote the same Sid.  Property theorems only.
    [naturally_typed Ld x]: x is what natural (first-match) typing of its own string gives.
    Guards: "no newline in the string" for the rebuild from fields (python's "$" tolerates one trailing newline in
    resolva's reverse check, which has no canonical check; DESIGN.md 6/C02), [query_safe] for the query round trip
    (the property's own restriction). *)
From Coq Require Import List String Ascii Bool Arith Permutation.
From Spil Require Import Base.Str Base.Dict Base.Outcome Regex.Re Regex.MatchProofs Resolva.Template Resolva.Resolver
  Conf.Conf Conf.WF Sid.Query Sid.Sid Sid.TypingSpec Sid.TypingProofs Sid.SidProofs Sid.QueryStringProofs Sid.QueryProofs Sid.ReprProofs.
From Spil Require Import Sid.NewlineLemmas Sid.NewlineProofs Sid.NewlineHits Sid.NewlineConf Sid.NewlineRefute.
From SpilGen Require Hamlet.
Import ListNotations.
Local Open Scope string_scope.

(* the string of a typed Sid is the canonical rendering of its fields through its type's template *)
Theorem C02_canonical : forall c Ld, load c = Some Ld -> wf_loadedb Ld = true ->
  forall s t d, natural Ld s = Some (t, d) ->
  exists tp, find_tpl (l_sid Ld) t = Some tp /\ map fst d = item_names (tp_items tp) /\ s = join "/" (map snd d).
Proof. exact natural_canonical. Qed.
Print Assumptions C02_canonical.

Theorem C02_uri_copy : forall c Ld, load c = Some Ld -> wf_loadedb Ld = true ->
  forall x, naturally_typed Ld x -> mem_c "?" (s_string x) = false ->
  Sid Ld (uri x) = Ok x /\ sid_copy Ld x = Ok x.
Proof. exact roundtrip_uri. Qed.
Print Assumptions C02_uri_copy.

(* rebuilt from the field dictionary in ANY key order *)
Theorem C02_fields_partial : forall c Ld, load c = Some Ld -> wf_loadedb Ld = true ->
  forall x d', naturally_typed Ld x -> mem_c "010" (s_string x) = false ->
  Permutation (s_fields x) d' -> sid_factory Ld (FromFields d') = Ok x.
Proof. exact roundtrip_fields. Qed.
Print Assumptions C02_fields_partial.

(* ... in full: no guard on the string, for every configuration passing the decidable check [nl_safe] (no template with a
   closed last placeholder comes before a template with the same keys and an open last placeholder) *)
Theorem C02_fields : forall c Ld, load c = Some Ld -> wf_loadedb Ld = true -> nl_safe (r_tpls (l_sid Ld)) = true ->
  forall x d', naturally_typed Ld x -> Permutation (s_fields x) d' -> sid_factory Ld (FromFields d') = Ok x.
Proof. exact roundtrip_fields_conf. Qed.
Print Assumptions C02_fields.

(* the exact condition, for any well-formed configuration: the rebuild gives back the Sid iff the first template with its
   keys whose reverse check (python "$": also before a final newline) passes accepts its string *)
Theorem C02_fields_iff : forall c Ld, load c = Some Ld -> wf_loadedb Ld = true ->
  forall x d', naturally_typed Ld x -> Permutation (s_fields x) d' ->
  (sid_factory Ld (FromFields d') = Ok x <-> nl_ok Ld (map fst (s_fields x)) (s_string x) = true).
Proof. exact roundtrip_fields_iff. Qed.
Print Assumptions C02_fields_iff.

(* without [nl_safe] the unguarded statement is false: a well-formed configuration (closed (ma|mb) before an open placeholder with
   the same keys) where Sid("p/ma" ++ newline) does not rebuild from its fields *)
Theorem C02_fields_unguarded_refuted :
  ~ (forall x d', naturally_typed bad_loaded x -> Permutation (s_fields x) d' -> sid_factory bad_loaded (FromFields d') = Ok x).
Proof. exact roundtrip_fields_refuted. Qed.
Print Assumptions C02_fields_unguarded_refuted.

Example C02_nl_safe_here : nl_safe (r_tpls (l_sid Hamlet.the_loaded)) = true.
Proof. vm_compute. reflexivity. Qed.
Print Assumptions C02_nl_safe_here.

(* two typed Sids are equal exactly when type and fields are equal *)
Theorem C02_eq_iff : forall Ld, wf_loadedb Ld = true ->
  forall x y, naturally_typed Ld x -> naturally_typed Ld y ->
  (sid_eqb x y = true <-> s_type x = s_type y /\ s_fields x = s_fields y).
Proof. exact eq_iff. Qed.
Print Assumptions C02_eq_iff.

(* the urllib fragment: as_query then to_dict is the identity on url-safe fields *)
Theorem C02_query_string : forall d, query_safe d -> NoDup (map fst d) -> to_dict (to_string d) = Ok d.
Proof. exact to_dict_to_string. Qed.
Print Assumptions C02_query_string.

(* query round trip; guard: the Sid is a search, or no other template with the same key set accepts its string *)
Theorem C02_query : forall c Ld, load c = Some Ld -> wf_loadedb Ld = true ->
  forall x, naturally_typed Ld x -> query_safe (s_fields x) ->
  (is_search_str Ld ("?" ++ as_query x) = true \/
   (forall t', In t' (r_tpls (l_sid Ld)) -> tp_name t' <> s_type x ->
      keys_eq (dkeys (s_fields x)) (item_names (tp_items t')) = true -> accepts t' (s_string x) = None)) ->
  to_dict (to_string (s_fields x)) = Ok (s_fields x) /\ sid_factory Ld (FromQuery (as_query x)) = Ok x.
Proof. exact roundtrip_query. Qed.
Print Assumptions C02_query.

(* eval(repr(sid)): [py_unrepr] is what python's eval gives for the literal Sid('<uri>') when the uri has no quote,
   backslash, newline, carriage return or NUL (modelled, not verified) *)
Theorem C02_repr : forall c Ld, load c = Some Ld -> wf_loadedb Ld = true ->
  forall x, naturally_typed Ld x -> mem_c "?" (s_string x) = false -> all_c plain_char (uri x) = true ->
  exists u, py_unrepr (repr x) = Some u /\ Sid Ld u = Ok x.
Proof. exact repr_roundtrip. Qed.
Print Assumptions C02_repr.

(* instance + non-vacuity on today's configuration: a concrete typed Sid, rebuilt from shuffled fields *)
Example C02_instance :
  sid_factory Hamlet.the_loaded (FromFields [("assettype", "char"); ("project", "hamlet"); ("type", "a")])
  = Ok (mkSid "hamlet/a/char" "asset__assettype" [("project", "hamlet"); ("type", "a"); ("assettype", "char")]).
Proof. vm_compute. reflexivity. Qed.
Print Assumptions C02_instance.
Example C02_instance_hyp : naturally_typed Hamlet.the_loaded
  (mkSid "hamlet/a/char" "asset__assettype" [("project", "hamlet"); ("type", "a"); ("assettype", "char")]).
Proof. vm_compute. reflexivity. Qed.
Print Assumptions C02_instance_hyp.
