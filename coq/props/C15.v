(** C15 — created entities exist, and attribute data reads back what was written.  Property theorems only
    (over the file-system model FS/Fs.v and the writer / getter model Data/Data.v).  A failing operation returns no new
    state (outcome type): "changes nothing" holds by construction.  Existence through searches goes through FindInAll and
    is checked on the implementation over exhaustive short and random histories and by tree-to-model comparison. *)
From Coq Require Import List String Ascii Bool Arith.
From Spil Require Import Base.Str Base.Dict Base.Outcome Base.PyPath Resolva.Resolver Conf.Conf Conf.Routing Conf.WF Sid.Sid
  Search.Unfold Search.Finders FS.Fs Data.Data Data.Crash Path.PathProofs Data.DataProofs Data.CrashProofs.
From Spil Require Import Sid.SidProofs Path.UnambiguousDefs Search.TreeListDefs Data.SidLevelDefs Data.CreateDefs Data.CreateFs Data.CreateProofs.
From SpilGen Require Hamlet.
Import ListNotations.
Local Open Scope string_scope.

Theorem C15_create_existing_fails : forall c Ld Rt, load c = Some Ld -> wf_loadedb Ld = true ->
  forall F cfg s data x p, Sid Ld s = Ok x -> sid_path Ld x (default_cfg Ld cfg) = Ok (Some p) ->
  fs_exists F p = true -> w_create Ld Rt F cfg s data = Raise SpilException.
Proof. exact create_existing_fails. Qed.
Print Assumptions C15_create_existing_fails.

Theorem C15_update_missing_fails : forall c Ld, load c = Some Ld -> wf_loadedb Ld = true ->
  forall F cfg s data x p, Sid Ld s = Ok x -> sid_path Ld x (default_cfg Ld cfg) = Ok (Some p) ->
  fs_exists F p = false -> w_update Ld F cfg s data = Raise SpilException.
Proof. exact update_missing_fails. Qed.
Print Assumptions C15_update_missing_fails.

Theorem C15_no_path_fails : forall c Ld Rt, load c = Some Ld -> wf_loadedb Ld = true ->
  forall F cfg s data x, Sid Ld s = Ok x -> sid_path Ld x (default_cfg Ld cfg) = Ok None ->
  w_create Ld Rt F cfg s data = Raise SpilException /\ w_update Ld F cfg s data = Raise SpilException.
Proof. exact no_path_write_fails. Qed.
Print Assumptions C15_no_path_fails.

(* what is read after a write is the overlay of the previous data with the written values (later replace earlier, other keys persist) *)
Theorem C15_read_after_write : forall c Ld, load c = Some Ld -> wf_loadedb Ld = true ->
  forall F cfg s data F' b x p, w_update Ld F cfg s data = Ok (F', b) -> Sid Ld s = Ok x ->
  sid_path Ld x (default_cfg Ld cfg) = Ok (Some p) ->
  load_sidecar F' (sidecar Ld p) = match fs_get F (sidecar Ld p) with
                                    | Some _ => dupdate (load_sidecar F (sidecar Ld p)) data
                                    | None => data
                                    end.
Proof. exact read_after_write_sidecar. Qed.
Print Assumptions C15_read_after_write.

(* a write touches exactly one file: the sidecar of the written entity *)
Theorem C15_isolation : forall c Ld, load c = Some Ld -> wf_loadedb Ld = true ->
  forall F cfg s data F' b, w_update Ld F cfg s data = Ok (F', b) ->
  exists x p, Sid Ld s = Ok x /\ sid_path Ld x (default_cfg Ld cfg) = Ok (Some p) /\
              forall q, q <> sidecar Ld p -> fs_get F' q = fs_get F q.
Proof. exact write_isolation. Qed.
Print Assumptions C15_isolation.

Theorem C15_isolation_read : forall c Ld, load c = Some Ld -> wf_loadedb Ld = true ->
  forall F cfg s data F' b x p, w_update Ld F cfg s data = Ok (F', b) -> Sid Ld s = Ok x ->
  sid_path Ld x (default_cfg Ld cfg) = Ok (Some p) ->
  forall cfg' y attrs enc,
  (forall py, sid_path Ld y (default_cfg Ld cfg') = Ok (Some py) -> sidecar Ld py <> sidecar Ld p) ->
  get_data_paths Ld F' cfg' y attrs enc = get_data_paths Ld F cfg' y attrs enc.
Proof. exact write_isolation_get. Qed.
Print Assumptions C15_isolation_read.

(* entities whose paths differ only by the file extension share one sidecar (by design of get_data_json_path) *)
Theorem C15_same_stem_shares : forall suf d stem, mem_c "/" stem = false ->
  sidecar_path suf (d ++ "/" ++ stem ++ ".ma") = sidecar_path suf (d ++ "/" ++ stem ++ ".mb").
Proof. exact sidecar_same_stem_ma_mb. Qed.
Print Assumptions C15_same_stem_shares.

(** ** "an entity exists exactly from the moment it or a descendant was created": an invariant over histories of creations
    (Data/CreateProofs.v).  [dataset_ok] (the tree holds exactly the paths of a set of Sids, everything else resolves to nothing)
    is kept by every successful creation of a Sid passing the decidable guard [create_guardb] (good values, no hidden component,
    and path templates that mirror the Sid hierarchy on this Sid: every directory above its path resolves to nothing or to
    one of its own prefix Sids); so after ANY history from the empty tree the members are exactly the created Sids and their
    ancestors that have a path, and exists() says so.  Creations with data add a hidden sidecar, which at a level with a free
    value resolves to a Sid (the junk class "sidecar files"): they are covered by the history correspondence, not by this theorem. *)

(* one successful creation *)
Theorem C15_create_step :
  forall (c : Conf) (Ld : Loaded),
  load c = Some Ld ->
  wf_loadedb Ld = true ->
  paths_unambiguousb Ld = true ->
  forall (Rt : Routing) (cfg : string) (E : list sid) (F F' : fs) (s : string) (x : sid),
  dataset_ok Ld (default_cfg Ld cfg) E F ->
  fs_inv F ->
  w_create Ld Rt F cfg s [] = Ok (F', true) ->
  Sid Ld s = Ok x ->
  create_guardb Ld (default_cfg Ld cfg) x = true ->
  exists E' : list sid,
    dataset_ok Ld (default_cfg Ld cfg) E' F' /\
    fs_inv F' /\
    (forall e : sid,
     In e E' <->
     In e E \/ e = x \/ (exists k pe : string, get_as Ld x k = Ok e /\ sid_path Ld e (default_cfg Ld cfg) = Ok (Some pe))).
Proof. exact create_step_spec. Qed.
Print Assumptions C15_create_step.

(* what a failing creation can be (and, the outcome carrying no new state, it changes nothing) *)
Theorem C15_create_raise :
  forall (Ld : Loaded) (Rt : Routing) (F : fs) (cfg s : string) (data : dict string) (e : exn),
  w_create Ld Rt F cfg s data = Raise e ->
  Sid Ld s = Raise e \/
  (exists x : sid,
     Sid Ld s = Ok x /\
     (sid_path Ld x (default_cfg Ld cfg) = Raise e \/
      sid_path Ld x (default_cfg Ld cfg) = Ok None /\ e = SpilException \/
      (exists p : string,
         sid_path Ld x (default_cfg Ld cfg) = Ok (Some p) /\
         (fs_exists F p = true /\ e = SpilException \/
          fs_exists F p = false /\ create_op Ld Rt F x p = Raise OSError /\ e = OSError \/
          fs_exists F p = false /\ data <> [] /\ (e = JSONDecodeError \/ e = OSError))))).
Proof. exact create_raise. Qed.
Print Assumptions C15_create_raise.

(* creating fails with SpilException exactly when the entity exists already *)
Theorem C15_create_existing_iff :
  forall (c : Conf) (Ld : Loaded),
  load c = Some Ld ->
  wf_loadedb Ld = true ->
  paths_unambiguousb Ld = true ->
  forall (Rt : Routing) (cfg : string) (E : list sid) (F : fs) (s : string) (x : sid) (p : string),
  dataset_ok Ld (default_cfg Ld cfg) E F ->
  Sid Ld s = Ok x ->
  naturally_typed Ld x ->
  concrete Ld x ->
  path_values_ok x ->
  sid_path Ld x (default_cfg Ld cfg) = Ok (Some p) -> w_create Ld Rt F cfg s [] = Raise SpilException <-> In x E.
Proof. exact create_existing_iff. Qed.
Print Assumptions C15_create_existing_iff.

(* any history of creations from the empty tree *)
Theorem C15_history_invariant :
  forall (c : Conf) (Ld : Loaded),
  load c = Some Ld ->
  wf_loadedb Ld = true ->
  paths_unambiguousb Ld = true ->
  forall (Rt : Routing) (cfg : string) (ss : list string),
  dataset_okb Ld (default_cfg Ld cfg) [] fs_root = true ->
  hist_okb Ld cfg ss = true ->
  dataset_ok Ld (default_cfg Ld cfg) (closure Ld cfg (created Ld Rt cfg fs_root ss)) (run_creates Ld Rt cfg fs_root ss) /\
  fs_inv (run_creates Ld Rt cfg fs_root ss).
Proof. exact history_from_root. Qed.
Print Assumptions C15_history_invariant.

(* exists() after any history: true exactly when the Sid or a descendant of it was created *)
Theorem C15_exists_after_history :
  forall (c : Conf) (Ld : Loaded),
  load c = Some Ld ->
  wf_loadedb Ld = true ->
  paths_unambiguousb Ld = true ->
  forall (Rt : Routing) (cfg id : string) (ss : list string) (x : sid) (b : bool),
  dataset_okb Ld (default_cfg Ld cfg) [] fs_root = true ->
  hist_okb Ld cfg ss = true ->
  exists_guardb Ld Rt id (default_cfg Ld cfg) x = true ->
  sid_exists Ld Rt (run_creates Ld Rt cfg fs_root ss) x = Ok b ->
  b = true <->
  (exists (s : string) (z : sid) (p : string),
     In s (created Ld Rt cfg fs_root ss) /\
     Sid Ld s = Ok z /\ sid_path Ld z (default_cfg Ld cfg) = Ok (Some p) /\ anc_with_path Ld (default_cfg Ld cfg) z x).
Proof. exact exists_after_history. Qed.
Print Assumptions C15_exists_after_history.

(* ... and false on the empty tree *)
Theorem C15_exists_before :
  forall (c : Conf) (Ld : Loaded),
  load c = Some Ld ->
  wf_loadedb Ld = true ->
  paths_unambiguousb Ld = true ->
  forall (Rt : Routing) (cfg id : string) (x : sid) (b : bool),
  dataset_okb Ld (default_cfg Ld cfg) [] fs_root = true ->
  exists_guardb Ld Rt id (default_cfg Ld cfg) x = true -> sid_exists Ld Rt fs_root x = Ok b -> b = false.
Proof. exact exists_before. Qed.
Print Assumptions C15_exists_before.

(* instance on the configuration of this run: the guards hold for a history of creations, and what exists() answers *)
Definition Rt15 : Routing := match parse_routing Hamlet.raw with Some r => r | None => mkRouting [] [] false end.
Definition hist15 : list string :=
  ["hamlet/a/char/ophelia/model/v001/w/ma"; "hamlet/a/char/ophelia/model/v001/w/ma"; "hamlet/a/char/ophelia";
   "hamlet/a/char/ophelia/model/v001/w"; "hamlet/s/sq010/sh0010/anim/v002/p/mov"; "hamlet/a/prop/skull"].
Example C15_instance :
  dataset_okb Hamlet.the_loaded (default_cfg Hamlet.the_loaded "") [] fs_root = true /\
  hist_okb Hamlet.the_loaded "" hist15 = true /\
  map (fun s => match Sid Hamlet.the_loaded s with
                | Ok x => sid_exists Hamlet.the_loaded Rt15 (run_creates Hamlet.the_loaded Rt15 "" fs_root hist15) x
                | Raise e => Raise e end)
      ["hamlet/a/char/ophelia/model/v001"; "hamlet/a/char/ophelia/rig"; "hamlet/a/prop/skull"; "hamlet/s/sq010/sh0010/anim"; "hamlet/s/sq010/sh0020"]
  = [Ok true; Ok false; Ok true; Ok true; Ok false].
Proof. vm_compute. repeat split; reflexivity. Qed.
Print Assumptions C15_instance.
