#!/usr/bin/env python3
"""C20 configuration family: real configuration packages derived from the demo configuration's *shape*
(ordered templates per basetype, a leaf key per basetype, mutually exclusive value patterns per level, path templates
mirroring the Sid templates, one-to-one value mappings) with other key names, basetype names, type codes, leaf key,
number of levels, file-name separators, fixed folders, vocabularies, digit patterns, a third basetype, a third path configuration.

    confgen.py <member index> <output dir>      writes the package (spil_sid_conf.py, spil_fs_conf.py, ..., spil_data_conf.py)
"""
import os, sys, random, json

def member_params(i):
    rng = random.Random(1000 + i)
    demo = dict(project='project', type='type', leaf='ext', assettype='assettype', asset='asset', task='task', version='version', state='state',
                sequence='sequence', shot='shot', node='node', bt_asset='asset', bt_shot='shot', bt_project='project',
                code_a='a', code_s='s', vprefix='v', vdigits=3, sq=('sq', 3), sh=('sh', 4), sep='_', prod='PROD', assets='ASSETS', shots='SHOTS',
                states=[('w', 'WORK'), ('p', 'PUBLISH')], projects=[('hamlet', 'HAMLET')],
                asset_tasks=['art', 'model', 'surface', 'rig'], shot_tasks=['board', 'layout', 'anim', 'fx', 'render', 'comp'],
                asset_types=['char', 'location', 'prop', 'fx'],
                scenes=['ma', 'mb', 'hip', 'blend', 'hou', 'psd', 'nk', 'maya'], caches=['abc', 'json', 'fur', 'grm', 'vdb', 'cache'], movies=['mp4', 'mov', 'avi', 'movie'],
                alias={'cache': ['abc', 'json', 'fur', 'grm', 'vdb'], 'hou': ['hip', 'hipnc'], 'maya': ['ma', 'mb'], 'movie': ['mp4', 'mov', 'avi']},
                episode=None, drop_state_in_assets=False, third_basetype=False, third_path_config=False, outdir='OUTPUT', exportdir='EXPORT',
                pin_intermediate=False, two_branches=False, no_default_leaf=False, third_mapping=False)
    if i == 0:
        return demo
    p = dict(demo)
    kinds = ['rename_keys', 'rename_types', 'separators', 'vocab', 'insert_level', 'third_basetype', 'third_path', 'leaf', 'pin_intermediate', 'two_branches', 'no_default_leaf', 'third_mapping', 'underscore_keys', 'upper_alias']
    chosen = set(rng.sample(kinds, rng.randint(2, 5)))
    if i == 1:
        chosen = {'rename_keys', 'leaf', 'rename_types'}
    if i == 2:
        chosen = {'separators', 'vocab', 'insert_level', 'third_path'}
    if i == 3:
        chosen = {'third_basetype', 'vocab', 'rename_types', 'underscore_keys', 'upper_alias'}
    if i == 4:
        chosen = {'pin_intermediate', 'two_branches', 'no_default_leaf', 'leaf', 'rename_keys', 'third_mapping'}
    if 'rename_keys' in chosen:
        p.update(project='proj', type='kind', assettype='category', asset='name', task='step', version='rev', state='status', sequence='seq', shot='plan', node='part')
    if 'leaf' in chosen:
        p['leaf'] = 'format'
    if 'rename_types' in chosen:
        p.update(bt_asset='thing', bt_shot='scene', code_a='t', code_s='c')
        if 'rename_keys' not in chosen:
            pass
    if 'separators' in chosen:
        p.update(sep=rng.choice(['-', '~', '__']), prod=rng.choice(['WORKAREA', 'prod_v2']), assets='LIB', shots='SEQS', outdir='OUT', exportdir='EXP')
    if 'vocab' in chosen:
        p.update(vprefix=rng.choice(['r', 'ver']), vdigits=rng.choice([2, 4]), sq=('s', 2), sh=('p', 3),
                 states=[('wip', 'WIP'), ('pub', 'PUB'), ('rev', 'REVIEW')][:rng.choice([2, 3])],
                 asset_tasks=['design', 'mod', 'tex'], shot_tasks=['lay', 'ani', 'lgt', 'cmp'], asset_types=['chr', 'env', 'prp'],
                 scenes=['ma', 'blend', 'nk', 'maya'], caches=['abc', 'vdb', 'cache'], movies=['mp4', 'mov', 'movie'],
                 alias={'cache': ['abc', 'vdb'], 'maya': ['ma'], 'movie': ['mp4', 'mov']},
                 projects=[('macbeth', 'MACBETH'), ('lear', 'KING_LEAR')])
    if 'underscore_keys' in chosen:
        # key names holding the character of the type separator (the keytype of an extrapolated type among them)
        p.update(state='pub_status', task='work_step')
    if 'upper_alias' in chosen:
        # alias names that are not lower case
        ren = {a: (a.upper() if j % 2 == 0 else a.capitalize()) for j, a in enumerate(sorted(p['alias']))}
        p['alias'] = {ren[a]: list(ms) for a, ms in p['alias'].items()}
        for lst in ('scenes', 'caches', 'movies'):
            p[lst] = [ren.get(x, x) for x in p[lst]]
    if 'insert_level' in chosen:
        p['episode'] = ('episode', 'ep', 2)
    if 'third_basetype' in chosen:
        p['third_basetype'] = True
    if 'third_path' in chosen:
        p['third_path_config'] = True
    if 'third_mapping' in chosen:
        p['third_path_config'] = True
    for k in ('pin_intermediate', 'two_branches', 'no_default_leaf', 'third_mapping'):
        if k in chosen:
            p[k] = True
    p['chosen'] = sorted(chosen)
    return p

def digits(prefix, n):
    return prefix + '\\d' * n

def build(p):
    K = p
    sep = K['sep']
    def closed(vals):
        return '(' + '|'.join(vals) + r'|\*|\>)'
    leaf = K['leaf']
    A, S, P = K['bt_asset'], K['bt_shot'], K['bt_project']
    a_head = '{%s}/{%s:%s}/{%s}/{%s}/{%s}/{%s}/{%s}' % (K['project'], K['type'], K['code_a'], K['assettype'], K['asset'], K['task'], K['version'], K['state'])
    ep = K['episode']
    s_levels = ['{%s}' % K['project'], '{%s:%s}' % (K['type'], K['code_s'])] + (['{%s}' % ep[0]] if ep else []) + ['{%s}' % K['sequence'], '{%s}' % K['shot'], '{%s}' % K['task'], '{%s}' % K['version'], '{%s}' % K['state']]
    s_head = '/'.join(s_levels)
    sid_templates = [
        (A + '__file', a_head + '/{%s:scenes}' % leaf), (A + '__movie_file', a_head + '/{%s:movies}' % leaf), (A + '__cache_file', a_head + '/{%s:caches}' % leaf),
        (A + '__' + K['state'], a_head), (A, '{%s}/{%s:%s}' % (K['project'], K['type'], K['code_a'])),
        (S + '__file', s_head + '/{%s:scenes}' % leaf), (S + '__movie_file', s_head + '/{%s:movies}' % leaf), (S + '__cache_file', s_head + '/{%s:caches}' % leaf),
        (S + '__cache_node_file', s_head + '/{%s}/{%s:caches}' % (K['node'], leaf)), (S + '__cache_node', s_head + '/{%s}' % K['node']),
        (S + '__' + K['state'], s_head), (S, '{%s}/{%s:%s}' % (K['project'], K['type'], K['code_s'])),
    ]
    to_extrapolate = [A + '__' + K['state'], S + '__' + K['state']]
    if K['two_branches']:
        # a second branch of the same depth as the cache nodes: image layers (another key, another extension family)
        sid_templates[9:9] = [(S + '__image_aov_file', s_head + '/{aov}/{%s:images}' % leaf), (S + '__image_aov', s_head + '/{aov}')]
    if K['pin_intermediate']:
        # intermediate levels given explicitly (the extrapolation must skip them and still generate the levels above)
        sid_templates += [(A + '__' + K['version'], '/'.join(a_head.split('/')[:-1])), (S + '__' + K['shot'], '/'.join(s_levels[:-3]))]
    if K['third_basetype']:
        l_head = '{%s}/{%s:l}/{shelf}/{item}/{%s}' % (K['project'], K['type'], K['version'])
        sid_templates += [('item__file', l_head + '/{%s:scenes}' % leaf), ('item__' + K['version'], l_head),
                          ('item__item', '{%s}/{%s:l}/{shelf}/{item}' % (K['project'], K['type'])), ('item', '{%s}/{%s:l}' % (K['project'], K['type']))]
        to_extrapolate.append('item__item')      # the keytype also occurs in the basetype name (like shot__shot)
    sid_templates.append((P, '{%s}' % K['project']))
    st_sid = [s for s, _ in K['states']]
    kp_common = [
        ('{%s}' % K['state'], '{%s:%s}' % (K['state'], closed(st_sid))),
        ('{%s}' % K['version'], '{%s:%s}' % (K['version'], closed([digits(K['vprefix'], K['vdigits'])]))),
        ('{%s}' % K['sequence'], '{%s:%s}' % (K['sequence'], closed([digits(*K['sq'])]))),
        ('{%s}' % K['shot'], '{%s:%s}' % (K['shot'], closed([digits(*K['sh'])]))),
        ('{%s:scenes}' % leaf, '{%s:%s}' % (leaf, closed(K['scenes']))),
        ('{%s:caches}' % leaf, '{%s:%s}' % (leaf, closed(K['caches']))),
        ('{%s:movies}' % leaf, '{%s:%s}' % (leaf, closed(K['movies']))),
    ]
    if K['two_branches']:
        kp_common.append(('{%s:images}' % leaf, '{%s:%s}' % (leaf, closed(['exr', 'png', 'tif']))))
    if ep:
        kp_common.append(('{%s}' % ep[0], '{%s:%s}' % (ep[0], closed([digits(ep[1], ep[2])]))))
    key_patterns = [
        ('__', kp_common),
        (A + '__', [('{%s}' % K['task'], '{%s:%s}' % (K['task'], closed(K['asset_tasks']))), ('{%s}' % K['assettype'], '{%s:%s}' % (K['assettype'], closed(K['asset_types'])))]),
        (S + '__', [('{%s}' % K['task'], '{%s:%s}' % (K['task'], closed(K['shot_tasks'])))]),
    ]
    everywhere = [('{%s}' % K['project'], '{%s:%s}' % (K['project'], closed([s for s, _ in K['projects']]))),
                  ('{%s:%s}' % (K['type'], K['code_a']), '{%s:%s}' % (K['type'], closed([K['code_a']]))),
                  ('{%s:%s}' % (K['type'], K['code_s']), '{%s:%s}' % (K['type'], closed([K['code_s']])))]
    if K['third_basetype']:
        everywhere.append(('{%s:l}' % K['type'], '{%s:%s}' % (K['type'], closed(['l']))))
        key_patterns.append(('item__', [('{shelf}', '{shelf:%s}' % closed(['tools', 'hdri']))]))
    key_patterns.append(('', everywhere))      # the demo uses 't' (a letter every type name contains); '' matches every type name
    key_types = [(A, [K['project'], K['type'], K['assettype'], K['asset'], K['task'], K['version'], K['state'], leaf]),
                 (S, [K['project'], K['type']] + ([ep[0]] if ep else []) + [K['sequence'], K['shot'], K['task'], K['version'], K['state'], K['node']] + (['aov'] if K['two_branches'] else []) + [leaf]),
                 (P, [K['project']])]
    leaf_keys = [(A, leaf), (S, leaf), (P, leaf)]
    narrowing = [(A, '%s=~%s' % (K['type'], K['code_a'])), (S, '%s=~%s' % (K['type'], K['code_s']))]
    if K['third_basetype']:
        key_types.append(('item', [K['project'], K['type'], 'shelf', 'item', K['version'], leaf]))
        leaf_keys.append(('item', leaf))
        narrowing.append(('item', '%s=~l' % K['type']))
    # paths
    R = '{@project_root}'
    a_dir = R + '/{%s}/%s/{%s:%s}/{%s}/{%s}/{%s}/{%s}' % (K['project'], K['prod'], K['type'], K['assets'], K['assettype'], K['asset'], K['task'], K['version'])
    a_file = sep.join('{%s}' % k for k in (K['assettype'], K['asset'], K['task'], K['state'], K['version']))
    seqdir = ('/{%s}' % ep[0] if ep else '') + '/{%s}/{%s}%s{%s}' % (K['sequence'], K['sequence'], sep, K['shot'])
    s_base = R + '/{%s}/%s/{%s:%s}' % (K['project'], K['prod'], K['type'], K['shots'])
    s_dir = s_base + seqdir + '/{%s}/{%s}' % (K['task'], K['version'])
    s_file = sep.join('{%s}' % k for k in (K['sequence'], K['shot'], K['task'], K['state'], K['version']))
    s_nodefile = sep.join('{%s}' % k for k in (K['sequence'], K['shot'], K['task'], K['node'], K['state'], K['version']))
    s_cachefile = sep.join('{%s}' % k for k in (K['sequence'], K['shot'], K['state'], K['version']))
    path_templates = [
        (A + '__file', a_dir + '/' + a_file + '.{%s:scenes}' % leaf),
        (A + '__movie_file', a_dir + '/%s/' % K['outdir'] + a_file + '.{%s:movies}' % leaf),
        (A + '__cache_file', a_dir + '/%s/' % K['outdir'] + a_file + '.{%s:caches}' % leaf),
        (A + '__' + K['version'], a_dir),
        (A + '__' + K['task'], a_dir.rsplit('/', 1)[0]),
        (A + '__' + K['asset'], a_dir.rsplit('/', 2)[0]),
        (A + '__' + K['assettype'], a_dir.rsplit('/', 3)[0]),
        (A, a_dir.rsplit('/', 4)[0]),
        (S + '__file', s_dir + '/' + s_file + '.{%s:scenes}' % leaf),
        (S + '__movie_file', s_dir + '/%s/' % K['exportdir'] + s_file + '.{%s:movies}' % leaf),
        (S + '__cache_node_file', s_dir + '/%s/' % K['exportdir'] + s_nodefile + '.{%s:caches}' % leaf),
        (S + '__cache_file', s_dir + '/%s/' % K['exportdir'] + s_cachefile + '.{%s:caches}' % leaf),
    ] + ([(S + '__image_aov_file', s_dir + '/IMAGES/' + sep.join('{%s}' % k for k in (K['sequence'], K['shot'], K['task'], 'aov', K['state'], K['version'])) + '.{%s:images}' % leaf)] if K['two_branches'] else []) + [
        (S + '__' + K['version'], s_dir),
        (S + '__' + K['task'], s_dir.rsplit('/', 1)[0]),
        (S + '__' + K['shot'], s_dir.rsplit('/', 2)[0]),
        (S + '__' + K['sequence'], s_dir.rsplit('/', 3)[0]),
    ]
    if ep:
        path_templates.append((S + '__' + ep[0], s_base + '/{%s}' % ep[0]))
    path_templates.append((S, s_base))
    if K['third_basetype']:
        l_dir = R + '/{%s}/%s/{%s:LIBRARY}/{shelf}/{item}/{%s}' % (K['project'], K['prod'], K['type'], K['version'])
        path_templates += [('item__file', l_dir + '/{item}%s{%s}.{%s:scenes}' % (sep, K['version'], leaf)), ('item__' + K['version'], l_dir),
                           ('item__item', l_dir.rsplit('/', 1)[0]), ('item__shelf', l_dir.rsplit('/', 2)[0]), ('item', l_dir.rsplit('/', 3)[0])]
    path_templates.append((P, R + '/{%s}' % K['project']))
    path_mapping = [(K['project'], [(pp, sp) for sp, pp in K['projects']]),
                    (K['type'], [(K['assets'], K['code_a']), (K['shots'], K['code_s'])] + ([('LIBRARY', 'l')] if K['third_basetype'] else [])),
                    (K['state'], [(pp, sp) for sp, pp in K['states']])]
    st_path = [pp for _, pp in K['states']]
    fs_kp = {'__': [('{%s}' % K['state'], '{%s:%s}' % (K['state'], closed(st_path)))],
             '': [('{%s}' % K['project'], '{%s:%s}' % (K['project'], closed([pp for _, pp in K['projects']]))),
                  ('{%s:%s}' % (K['type'], K['shots']), '{%s:%s}' % (K['type'], closed([K['shots']]))),
                  ('{%s:%s}' % (K['type'], K['assets']), '{%s:%s}' % (K['type'], closed([K['assets']])))]
                 + ([('{%s:LIBRARY}' % K['type'], '{%s:%s}' % (K['type'], closed(['LIBRARY'])))] if K['third_basetype'] else [])}
    return dict(sid_templates=sid_templates, to_extrapolate=to_extrapolate, key_patterns=key_patterns, key_types=key_types, leaf_keys=leaf_keys, narrowing=narrowing,
                path_templates=path_templates, path_mapping=path_mapping, fs_kp=fs_kp, alias=K['alias'], projects=[s for s, _ in K['projects']],
                default_state=st_path[0], state_key=K['state'], asset_types=K['asset_types'], type_codes=[K['code_a'], K['code_s']] + (['l'] if K['third_basetype'] else []),
                keys=K, third_path=K['third_path_config'], third_mapping=K['third_mapping'])

def py(o):
    return repr(o)

def write_package(i, out):
    p = member_params(i)
    b = build(p)
    os.makedirs(out, exist_ok=True)
    K = p
    A, S, P = K['bt_asset'], K['bt_shot'], K['bt_project']
    def odict(pairs):
        return '{' + ', '.join('%r: %r' % (k, v) for k, v in pairs) + '}'
    def odict2(pairs):
        return '{' + ', '.join('%r: %s' % (k, odict(v)) for k, v in pairs) + '}'
    with open(os.path.join(out, 'spil_sid_conf.py'), 'w') as f:
        f.write('# generated configuration family member %d: %s\n' % (i, json.dumps(p.get('chosen', ['demo-shape']))))
        f.write("sip = '/'\nprojects = %r\nasset_types = %r\n" % (b['projects'], b['asset_types']))
        f.write('sid_templates = %s\n' % odict(b['sid_templates']))
        f.write('to_extrapolate = %r\n' % b['to_extrapolate'])
        f.write('extension_alias = %s\n' % odict(b['alias'].items()))
        f.write('key_patterns = %s\n' % odict2(b['key_patterns']))
        f.write('key_types = %s\n' % odict(b['key_types']))
        f.write('leaf_keys = %s\n' % odict(b['leaf_keys']))
        if not K['no_default_leaf']:
            f.write('leaf_keys[None] = %r\n' % K['leaf'])
        f.write('basetyped_search_narrowing = %s\ntyped_search_narrowing = {}\n' % odict(b['narrowing']))
    with open(os.path.join(out, 'spil_fs_conf.py'), 'w') as f:
        f.write("from spil_sid_conf import key_patterns\nfrom pathlib import Path\n")
        f.write("project_root_path = Path(__file__).parent / 'data' / 'testing' / 'SPIL_PROJECTS' / 'LOCAL' / 'PROJECTS'\n")
        f.write('path_templates = %s\n' % odict(b['path_templates']))
        f.write("path_templates = {k: v.replace('{@project_root}', project_root_path.as_posix()) for k, v in path_templates.items()}\n")
        f.write('path_defaults = {%r: %r}\nsidkeys_to_extrakeys = {}\nextrakeys_to_sidkeys = {}\nsearch_path_mapping = {}\n' % (b['state_key'], b['default_state']))
        f.write('path_mapping = %s\n' % odict2(b['path_mapping']))
        f.write('key_patterns = key_patterns.copy()\n')
        for sel, repl in b['fs_kp'].items():
            f.write('key_patterns[%r] = dict(key_patterns[%r])\nkey_patterns[%r].update(%s)\n' % (sel, sel, sel, odict(repl)))
    def other_fs(name, folder, remap=False):
        with open(os.path.join(out, name + '.py'), 'w') as f:
            f.write("from spil_fs_conf import *  # type: ignore\nfrom pathlib import Path\n")
            if remap:
                # the same templates with other one-to-one value mappings (and the patterns that go with them)
                f.write("import copy\npath_mapping = copy.deepcopy(path_mapping)\nkey_patterns = copy.deepcopy(key_patterns)\npath_templates = dict(path_templates)\npath_defaults = dict(path_defaults)\n")
                f.write("_ren = {}\nfor _k, _m in list(path_mapping.items()):\n    path_mapping[_k] = {('X' + _pv): _sv for _pv, _sv in _m.items()}\n    _ren.update({_pv: 'X' + _pv for _pv in _m})\n")
                f.write("import re as _re\ndef _rn(s):\n    return _re.sub(r'(?<![A-Za-z0-9_])(' + '|'.join(sorted(map(_re.escape, _ren), key=len, reverse=True)) + r')(?![A-Za-z0-9_])', lambda m: _ren[m.group(1)], s)\n")
                f.write("key_patterns = {sel: {_rn(a): _rn(b) for a, b in repl.items()} for sel, repl in key_patterns.items()}\n")
                f.write("path_templates = {k: _rn(v) for k, v in path_templates.items()}\npath_defaults = {k: _rn(v) for k, v in path_defaults.items()}\n")
            f.write("other_root_path = Path(__file__).parent / 'data' / 'testing' / 'SPIL_PROJECTS' / %r / 'PROJECTS'\n" % folder)
            f.write("path_templates = path_templates.copy()\n")
            f.write("path_templates = {k: v.replace(project_root_path.as_posix(), other_root_path.as_posix()) for k, v in path_templates.items()}\n")
    other_fs('spil_fs_server_conf', 'SERVER')
    if b['third_path']:
        other_fs('spil_fs_backup_conf', 'BACKUP', remap=b['third_mapping'])
    with open(os.path.join(out, 'spil_data_conf.py'), 'w') as f:
        f.write("from pathlib import Path\n")
        f.write("path_configs = {'local': 'spil_fs_conf', 'server': 'spil_fs_server_conf'%s}\n" % (", 'backup': 'spil_fs_backup_conf'" if b['third_path'] else ''))
        f.write("default_path_config = %r\n_finders = {}\n" % ('backup' if b['third_path'] else 'local'))
        f.write('''
def get_finder_for(search_sid, config=None):
    from spil_sid_conf import projects, asset_types
    from spil import FindInConstants, FindInPaths
    t = _finders.get(config)
    if t is None:
        fp = FindInPaths()
        f_proj = FindInConstants(%r, projects)
        f_types = FindInConstants(%r, %r, parent_source=f_proj)
        f_at = FindInConstants(%r, asset_types, parent_source=f_types)
        t = {%r: f_proj, %r: f_types, %r: f_types, %r: f_at, 'default': fp}
        _finders[config] = t
    return t.get(search_sid.type) or t.get('default')

_getters = {}

def get_getter_for(sid, attribute=None, config=None):
    from spil import GetFromPaths
    if config not in _getters:
        _getters[config] = GetFromPaths()      # built once per config: GetFromAll groups typed searches by Getter instance
    return _getters[config]

def get_writer_for(sid):
    raise NotImplementedError()

path_data_suffix = '.data.json'
create_file_using_template = {}
create_file_using_touch = True

def get_data_json_path(sid_path):
    return sid_path.with_name('.' + sid_path.name).with_suffix(path_data_suffix)
''' % (K['project'], K['type'], b['type_codes'], K['assettype'], P, A, S, A + '__' + K['assettype']))
    return p

if __name__ == '__main__':
    print(json.dumps(write_package(int(sys.argv[1]), sys.argv[2])))
