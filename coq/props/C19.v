(** C19 — template extrapolation gives every level one well-named type.  Property theorems only;
    each is closed by [exact] of a lemma proved in theories/Conf/ConfUtilProofs.v.
    Model functions: ConfUtil.extrapolate_templates / pattern_replacing (tied to spil/conf/util.py
    by the correspondence stream of tools/props/c19.py).  All statements quantify over arbitrary
    template lists (any number of types, keys, levels) with unique names and templates. *)
From Coq Require Import List String Ascii.
From Spil Require Import Base.Str Base.Dict Conf.ConfUtil Conf.ConfUtilProofs Conf.ConfBlocksProofs.
Import ListNotations.
Local Open Scope string_scope.

(* explicit types are kept, with their template, in their relative order *)
Theorem C19_keeps : forall sep orig te, NoDup (names orig) -> NoDup (tpls orig) ->
  filter (is_orig orig) (extrapolate_templates sep orig te) = orig.
Proof. exact extrapolate_keeps. Qed.
Print Assumptions C19_keeps.

(* no duplicate type names or templates *)
Theorem C19_nodup : forall sep orig te, NoDup (names orig) -> NoDup (tpls orig) ->
  NoDup (names (extrapolate_templates sep orig te)) /\ NoDup (tpls (extrapolate_templates sep orig te)).
Proof. exact extrapolate_nodup. Qed.
Print Assumptions C19_nodup.

(* every added entry: a proper "/"-prefix of an extrapolated explicit type's template,
   named  <type without its keytype> ++ <last key of the prefix> *)
Theorem C19_adds : forall sep orig te, NoDup (names orig) -> NoDup (tpls orig) ->
  Forall (fun kv => In kv orig \/
            exists t tpl, In (t, tpl) orig /\ in_list t te = true /\
              exists (pre : list string) (part : string) (rest : list string), rev (removelast (split_c "/"%char tpl)) = (pre ++ part :: rest)%list /\
                fst kv = (take (String.length t - String.length (keytype_of sep t)) t ++ part_key part) /\
                snd kv = join "/" (rev (part :: rest)))
         (extrapolate_templates sep orig te).
Proof. exact extrapolate_added_form. Qed.
Print Assumptions C19_adds.

(* nothing else is added: a non-explicit entry has a new name and a new template *)
Theorem C19_nothing_else : forall sep orig te, NoDup (names orig) -> NoDup (tpls orig) ->
  Forall (fun kv => In kv orig \/ (~ In (fst kv) (names orig) /\ ~ In (snd kv) (tpls orig)))
         (extrapolate_templates sep orig te).
Proof. exact extrapolate_nothing_else. Qed.
Print Assumptions C19_nothing_else.

(* every "/"-prefix of an extrapolated type is owned by some type afterwards, unless the name it would get is taken *)
Theorem C19_every_level : forall sep orig te t tpl, NoDup (names orig) -> NoDup (tpls orig) ->
  In (t, tpl) orig -> in_list t te = true ->
  forall (pre : list string) (part : string) (rest : list string), rev (removelast (split_c "/"%char tpl)) = (pre ++ part :: rest)%list ->
    In (join "/" (rev (part :: rest))) (tpls (extrapolate_templates sep orig te)) \/
    In (take (String.length t - String.length (keytype_of sep t)) t ++ part_key part)
       (names (extrapolate_templates sep orig te)).
Proof. exact extrapolate_complete. Qed.
Print Assumptions C19_every_level.

(* placement: the result is the explicit entries in order, each followed directly by its own block of generated types,
   every one a proper non-empty "/"-prefix of that type's template, from longest to shortest; no block for a type not listed *)
Theorem C19_blocks : forall sep orig te, NoDup (names orig) -> NoDup (tpls orig) ->
  exists groups : list templates,
    List.length groups = List.length orig /\
    extrapolate_templates sep orig te = List.concat (map (fun kg => fst kg :: snd kg) (combine orig groups)) /\
    Forall2 (fun kv g => (in_list (fst kv) te = false -> g = []) /\
                         Forall (generated_from sep (fst kv) (snd kv)) g /\
                         strictly_shorter (snd kv) g) orig groups.
Proof. exact extrapolate_blocks. Qed.
Print Assumptions C19_blocks.

Theorem C19_generated_is_prefix : forall sep t tpl kv, generated_from sep t tpl kv ->
  exists n, 1 <= n < seglen tpl /\ snd kv = join "/" (firstn n (split_c "/"%char tpl)) /\ seglen (snd kv) = n.
Proof. exact generated_from_prefix. Qed.
Print Assumptions C19_generated_is_prefix.

(* pattern replacement keeps names and order, and rewrites only types a selector matches *)
Theorem C19_replace_names : forall t kp, names (pattern_replacing t kp) = names t.
Proof. exact pattern_replacing_names. Qed.
Print Assumptions C19_replace_names.

Theorem C19_replace_untouched : forall t kp n tpl, In (n, tpl) t ->
  (forall sel repl, In (sel, repl) kp -> contains sel n = false) ->
  In (n, tpl) (pattern_replacing t kp).
Proof. exact pattern_replacing_untouched. Qed.
Print Assumptions C19_replace_untouched.

(* non-vacuity and the shot__shot case (D18, fixed): hypotheses hold and levels are named with the basetype kept *)
Example C19_shot_shot :
  extrapolate_templates "__" [("shot__shot", "{project}/{type:s}/{sequence}/{shot}"); ("project", "{project}")] ["shot__shot"]
  = [("shot__shot", "{project}/{type:s}/{sequence}/{shot}"); ("shot__sequence", "{project}/{type:s}/{sequence}");
     ("shot__type", "{project}/{type:s}"); ("project", "{project}")].
Proof. vm_compute. reflexivity. Qed.
Print Assumptions C19_shot_shot.
