(** When does the guard [nl_ok] of Sid/NewlineProofs.v hold?

    1. [nl_ok_false_inv]: it can only fail through a template with the same keys whose LAST placeholder
       is CLOSED, that does not accept the string s but accepts s minus its final newline.
    2. [roundtrip_fields_shadow]: for a naturally typed Sid the fields round trip holds IF AND ONLY IF
       no template that comes BEFORE the Sid's type in the configuration and has the same keys accepts
       the Sid's string minus a final newline ([nl_shadowed]); purely in terms of [accepts].
    3. String level: the relevant value does not end with a newline ([*_nl] theorems; the old
       theorems with [mem_c "010" (s_string x) = false] are instances).
    4. Configuration level: [nl_safe] (decidable): no template with a closed last placeholder comes
       before a template with the same keys and an open last placeholder.  Then all three theorems
       hold for every naturally typed Sid, whatever newlines it contains ([*_conf] theorems). *)
From Coq Require Import List String Ascii Bool Arith Lia Permutation.
From Spil Require Import Base.Str Base.Dict Base.Outcome Base.Tree Base.StrProofs Base.SplitProofs
  Regex.Re Regex.MatchProofs Resolva.Template Resolva.Resolver Conf.ConfUtil Conf.Conf Conf.WF
  Sid.Query Sid.Sid Sid.TypingSpec Sid.TypingProofs Sid.SidLemmas Sid.SidProofs
  Sid.NewlineLemmas Sid.NewlineProofs Sid.NewlineHits.
Import ListNotations.
Local Open Scope string_scope.

(* [t1] closed-last, [t2] open-last, same key sequence *)
Definition bad_pair (t1 t2 : tpl) : bool :=
  strs_eqb (item_names (tp_items t1)) (item_names (tp_items t2))
  && negb (last_open t1) && last_open t2.

(* no bad pair (t1, t2) with t1 before t2 *)
Fixpoint nl_safe (l : list tpl) : bool :=
  match l with
  | [] => true
  | t1 :: rest => forallb (fun t2 => negb (bad_pair t1 t2)) rest && nl_safe rest
  end.

(* [t1] comes before [t2] in the configuration *)
Definition before (Ld : Loaded) (t1 t2 : tpl) : Prop :=
  exists a b c, r_tpls (l_sid Ld) = (a ++ t1 :: b ++ t2 :: c)%list.

(* some template before the type of [x], with the keys of [x], accepts the string of [x] minus its
   final newline *)
Definition nl_shadowed (Ld : Loaded) (x : sid) : Prop :=
  exists t tp s0, before Ld t tp /\ tp_name tp = s_type x /\
    item_names (tp_items t) = map fst (s_fields x) /\
    s_string x = s0 ++ nl /\ accepts t s0 <> None.

(** ** Lists *)

Lemma nl_safe_before : forall a t1 b t2 c,
  nl_safe (a ++ t1 :: b ++ t2 :: c) = true -> bad_pair t1 t2 = false.
Proof.
  induction a as [|x a IH]; intros t1 b t2 c H.
  - cbn [app nl_safe] in H. apply andb_true_iff in H. destruct H as (H & _).
    rewrite forallb_forall in H. specialize (H t2 (in_elt t2 b c)).
    destruct (bad_pair t1 t2); [discriminate | reflexivity].
  - cbn [app nl_safe] in H. apply andb_true_iff in H. destruct H as (_ & H).
    apply (IH t1 b t2 c H).
Qed.

Lemma NoDup_split_unique {A} : forall (l1 l1' : list A) x l2 l2',
  NoDup (l1 ++ x :: l2) -> (l1 ++ x :: l2 = l1' ++ x :: l2')%list -> l1 = l1'.
Proof.
  induction l1 as [|a l1 IH]; intros [|a' l1'] x l2 l2' Hnd E.
  - reflexivity.
  - exfalso. cbn [app] in E, Hnd. injection E as Ex El. subst a'.
    apply NoDup_cons_iff in Hnd. destruct Hnd as (Hx & _). apply Hx. rewrite El. apply in_elt.
  - exfalso. cbn [app] in E, Hnd. injection E as Ex El. subst a.
    apply NoDup_cons_iff in Hnd. destruct Hnd as (Hx & _). apply Hx. apply in_elt.
  - cbn [app] in E, Hnd. injection E as Ex El. subst a'.
    apply NoDup_cons_iff in Hnd. destruct Hnd as (_ & Hnd'). f_equal.
    apply (IH l1' x l2 l2' Hnd' El).
Qed.

Lemma last_firstn : forall (l : list string) i, 1 <= i <= List.length l ->
  last (firstn i l) "" = nth (i - 1) l "".
Proof.
  induction l as [|a l IH]; intros i Hi; [simpl in Hi; lia|].
  destruct i as [|i]; [lia|]. destruct i as [|i]; [destruct l; reflexivity|].
  destruct l as [|b l]; [simpl in Hi; lia|].
  change (firstn (S (S i)) (a :: b :: l)) with (a :: firstn (S i) (b :: l)).
  change (last (a :: firstn (S i) (b :: l)) "") with (last (firstn (S i) (b :: l)) "").
  rewrite IH by (simpl in *; lia).
  replace (S (S i) - 1) with (S (S i - 1)) by lia. reflexivity.
Qed.

Section Proofs.
Variables (c : Conf) (Ld : Loaded).
Hypothesis Hload : load c = Some Ld.
Hypothesis Hwf : wf_loadedb Ld = true.

Local Notation tpls := (r_tpls (l_sid Ld)).
Local Notation r := (l_sid Ld).
Local Notation names t := (item_names (tp_items t)).

Lemma tpls_nodup : NoDup tpls.
Proof.
  destruct (wf_loaded_parts Ld Hwf) as (H & _). apply nodupb_NoDup in H.
  apply (NoDup_map_inv tp_name). exact H.
Qed.

(** ** 1. How the guard can fail *)

Lemma nl_ok_false_inv ks s : nl_ok Ld ks s = false ->
  exists t s0, first_hit Ld ks s = Some t /\ In t tpls /\ names t = ks /\ last_open t = false /\
    accepts t s = None /\ s = s0 ++ nl /\ accepts t s0 <> None.
Proof.
  unfold nl_ok. intros H. destruct (first_hit Ld ks s) as [t|] eqn:Ef; [|discriminate].
  destruct (accepts t s) eqn:Ea; [discriminate|].
  destruct (first_hit_inv Ld ks s t Ef) as (Hin & Hn & Hh).
  destruct (false_hit_inv c Ld Hload Hwf t s Hin Hh Ea) as (Hlo & s0 & Es & Ha0).
  exists t, s0. repeat split; assumption.
Qed.

(* the first hit for the keys of a template that accepts the string is that template or an earlier one *)
Lemma first_hit_before tq s d t : In tq tpls -> accepts tq s = Some d ->
  first_hit Ld (names tq) s = Some t -> t = tq \/ before Ld t tq.
Proof.
  intros Hin Ha Ef. destruct (in_split tq tpls Hin) as (l1 & l2 & E).
  unfold first_hit in Ef. rewrite E, find_app_s in Ef.
  destruct (find _ l1) as [t1|] eqn:E1.
  - inversion Ef; subst t1. right. apply find_some in E1. destruct E1 as (Hin1 & _).
    destruct (in_split t l1 Hin1) as (a & b & ->). exists a, b, l2.
    rewrite E, <- app_assoc. reflexivity.
  - left. cbn [find] in Ef. unfold hit_sel at 1 in Ef.
    rewrite strs_eqb_refl, (rc_hit_accepts c Ld Hload Hwf tq s d Hin Ha) in Ef.
    cbn [andb] in Ef. congruence.
Qed.

(** ** 4. Configuration level *)

Theorem nl_safe_nl_ok tq s : nl_safe tpls = true -> In tq tpls -> accepts tq s <> None ->
  nl_ok Ld (names tq) s = true.
Proof.
  intros Hsafe Hin Ha. destruct (accepts tq s) as [d|] eqn:Eq; [|congruence]. clear Ha.
  destruct (nl_ok Ld (names tq) s) eqn:Eok; [reflexivity|]. exfalso.
  destruct (nl_ok_false_inv _ _ Eok) as (t & s0 & Ef & Hint & Hn & Hlo & Hat & Es & _).
  destruct (first_hit_before tq s d t Hin Eq Ef) as [-> | (a & b & c0 & E)]; [congruence|].
  (* tq accepts a string that ends with a newline: its last placeholder is open *)
  assert (Hq : last_open tq = true).
  { destruct (last_open tq) eqn:Elo; [reflexivity|]. exfalso.
    apply (closed_no_trailing c Ld Hload Hwf tq s d Hin Elo Eq s0 Es). }
  rewrite E in Hsafe. pose proof (nl_safe_before a t b tq c0 Hsafe) as Hb.
  unfold bad_pair in Hb. rewrite Hn, strs_eqb_refl, Hlo, Hq in Hb. discriminate.
Qed.

(** ** 2. The round trip, in terms of [accepts] alone *)

Theorem nl_ok_shadow x : naturally_typed Ld x ->
  (nl_ok Ld (map fst (s_fields x)) (s_string x) = true <-> ~ nl_shadowed Ld x).
Proof.
  intros H.
  destruct (nat_parts Ld x H) as (Hs & pre & tp & post & E & Hin & Hn & Ha & Hpre).
  destruct (accepts_fields Ld Hwf tp _ _ Hin Ha) as (Hfst & _).
  split.
  - intros Hok (t & tp' & s0 & (a & b & c0 & E') & Hn' & Hnt & Es & Ha0).
    assert (Hin' : In tp' tpls) by (rewrite E', app_comm_cons, app_assoc; apply in_elt).
    assert (tp' = tp) by (apply (tpl_name_inj c Ld Hload Hwf); [assumption | assumption | congruence]).
    subst tp'.
    assert (Epre : (a ++ t :: b)%list = pre).
    { apply (NoDup_split_unique (a ++ t :: b) pre tp c0 post).
      - rewrite <- app_assoc. cbn [app]. rewrite <- E'. exact tpls_nodup.
      - rewrite <- app_assoc. cbn [app]. rewrite <- E'. exact E. }
    assert (Hint : In t tpls) by (rewrite E'; apply in_elt).
    assert (Hat : accepts t (s_string x) = None) by (apply Hpre; rewrite <- Epre; apply in_elt).
    assert (Hh : rc_hit Ld t (s_string x) = true).
    { rewrite Es. destruct (accepts t s0) as [d0|] eqn:E0; [|congruence].
      apply (rc_hit_nl c Ld Hload Hwf t s0 d0 Hint E0). }
    (* the first hit is t or earlier: in any case a template before tp, which does not accept *)
    unfold nl_ok in Hok.
    destruct (first_hit Ld (map fst (s_fields x)) (s_string x)) as [t1|] eqn:Ef.
    + assert (Hin1 : In t1 pre).
      { unfold first_hit in Ef. rewrite E', find_app_s in Ef. rewrite <- Epre.
        destruct (find _ a) as [t2|] eqn:E2.
        - inversion Ef; subst t2. apply find_some in E2. apply in_or_app. left. apply E2.
        - cbn [find] in Ef. unfold hit_sel at 1 in Ef. rewrite Hnt, strs_eqb_refl, Hh in Ef.
          cbn [andb] in Ef. inversion Ef; subst t1. apply in_elt. }
      rewrite (Hpre t1 Hin1) in Hok. discriminate.
    + unfold first_hit in Ef. pose proof (find_none _ _ Ef t Hint) as Hf.
      unfold hit_sel in Hf. rewrite Hnt, strs_eqb_refl, Hh in Hf. discriminate.
  - intros Hns. destruct (nl_ok Ld _ _) eqn:Eok; [reflexivity|]. exfalso. apply Hns.
    destruct (nl_ok_false_inv _ _ Eok) as (t & s0 & Ef & Hint & Hnt & _ & Hat & Es & Ha0).
    rewrite Hfst in Ef.
    destruct (first_hit_before tp _ _ t Hin Ha Ef) as [-> | Hb]; [congruence|].
    exists t, tp, s0. repeat split; assumption.
Qed.

Theorem roundtrip_fields_shadow x d' : naturally_typed Ld x -> Permutation (s_fields x) d' ->
  (sid_factory Ld (FromFields d') = Ok x <-> ~ nl_shadowed Ld x).
Proof.
  intros H Hp. rewrite (roundtrip_fields_iff c Ld Hload Hwf x d' H Hp). apply (nl_ok_shadow x H).
Qed.

(** ** 3. String level: the relevant value does not end with a newline *)

Theorem roundtrip_fields_nl x d' : naturally_typed Ld x ->
  (forall s0, s_string x <> s0 ++ nl) ->
  Permutation (s_fields x) d' -> sid_factory Ld (FromFields d') = Ok x.
Proof.
  intros H Hs. apply (roundtrip_fields_full c Ld Hload Hwf x d' H).
  apply (nl_ok_no_trailing c Ld Hload Hwf). exact Hs.
Qed.

(* the prefix string ends with a newline only if its last value does *)
Lemma nl_ok_prefix_value x i : naturally_typed Ld x ->
  1 <= i <= List.length (s_fields x) ->
  (forall v0, nth (i - 1) (map snd (s_fields x)) "" <> v0 ++ nl) ->
  nl_ok_prefix Ld x i = true.
Proof.
  intros H Hi Hv. unfold nl_ok_prefix. apply (nl_ok_no_trailing c Ld Hload Hwf). intros s0 E.
  destruct (nat_parts Ld x H) as (_ & pre & tp & post & _ & Hin & _ & Ha & _).
  destruct (accepts_fields Ld Hwf tp _ _ Hin Ha) as (_ & Hsnd & Hne & _).
  assert (Hlen : List.length (split_c "/" (s_string x)) = List.length (s_fields x)).
  { rewrite <- Hsnd, map_length. reflexivity. }
  destruct (join_ends_nl (firstn i (split_c "/" (s_string x))) s0) as (v0 & Ev).
  - apply firstn_ne; [lia | apply split_c_not_nil].
  - exact E.
  - rewrite last_firstn in Ev by lia. rewrite <- Hsnd in Ev. exact (Hv v0 Ev).
Qed.

Theorem get_as_prefix_nl x i : naturally_typed Ld x ->
  (forall v0, nth (i - 1) (map snd (s_fields x)) "" <> v0 ++ nl) ->
  1 <= i <= List.length (s_fields x) ->
  exists y, get_as Ld x (nth (i - 1) (map fst (s_fields x)) "") = Ok y /\
    s_fields y = firstn i (s_fields x) /\
    s_string y = join "/" (firstn i (split_c "/" (s_string x))) /\
    sid_bool y = true.
Proof.
  intros H Hv Hi. apply (get_as_prefix_full c Ld Hload Hwf x i H); [|exact Hi].
  apply (nl_ok_prefix_value x i H Hi Hv).
Qed.

(* only the value of the parent's last key matters *)
Theorem div_parent_nl x y : naturally_typed Ld x ->
  1 < List.length (s_fields x) ->
  mem_c "?" (s_string x) = false -> mem_c ":" (s_string x) = false ->
  (forall v0, nth (List.length (s_fields x) - 2) (map snd (s_fields x)) "" <> v0 ++ nl) ->
  parent Ld x = Ok y ->
  sid_div Ld y (last (map snd (s_fields x)) "") = Ok x.
Proof.
  intros H Hn Hq Hc Hv. apply (div_parent_full c Ld Hload Hwf x y H Hn Hq Hc).
  apply (nl_ok_prefix_value x _ H); [lia|].
  replace (List.length (s_fields x) - 1 - 1) with (List.length (s_fields x) - 2) by lia. exact Hv.
Qed.

(** ** 4. Configuration level: unguarded theorems *)

Section Safe.
Hypothesis Hsafe : nl_safe tpls = true.

Theorem roundtrip_fields_conf x d' : naturally_typed Ld x ->
  Permutation (s_fields x) d' -> sid_factory Ld (FromFields d') = Ok x.
Proof.
  intros H. apply (roundtrip_fields_full c Ld Hload Hwf x d' H).
  destruct (nat_parts Ld x H) as (_ & pre & tp & post & _ & Hin & _ & Ha & _).
  destruct (accepts_fields Ld Hwf tp _ _ Hin Ha) as (Hfst & _).
  rewrite Hfst. apply (nl_safe_nl_ok tp _ Hsafe Hin). congruence.
Qed.

(* the prefix template accepts the prefix string *)
Lemma prefix_accepts x i : naturally_typed Ld x -> 1 <= i <= List.length (s_fields x) ->
  exists tq, In tq tpls /\ names tq = firstn i (map fst (s_fields x)) /\
    accepts tq (join "/" (firstn i (split_c "/" (s_string x)))) <> None.
Proof.
  intros H Hi.
  destruct (nat_parts Ld x H) as (Hs & pre & tp & post & _ & Hin & _ & Ha & _).
  destruct (accepts_fields Ld Hwf tp _ _ Hin Ha) as (Hfst & Hsnd & Hne & _).
  destruct (tpl_parts Ld Hwf tp Hin) as (Hsh & _ & ps & Hps & _ & Hpn).
  assert (Hlen : List.length (names tp) = List.length (s_fields x))
    by (rewrite <- Hfst, map_length; reflexivity).
  destruct (prefix_tpl Ld Hwf tp (i - 1) Hin) as (tq & Hq & Hitems); [lia|].
  assert (Hi1 : i - 1 + 1 = i) by lia.
  exists tq. split; [exact Hq|]. split.
  - rewrite Hitems, (names_firstn _ Hsh), Hi1, <- Hfst. reflexivity.
  - set (segs := firstn i (split_c "/" (s_string x))).
    assert (Hsl : Forall (fun v => mem_c "/" v = false) segs).
    { apply Forall_firstn. apply split_c_nomem_all. }
    assert (Hsn : segs <> []) by (apply firstn_ne; [lia | apply split_c_not_nil]).
    unfold accepts. rewrite Hitems, (phs_firstn _ Hsh ps (i - 1) Hps), Hi1. cbv zeta.
    pose proof (split_c_join "/" _ Hsn Hsl) as Hsj. unfold str1 in Hsj. rewrite Hsj.
    unfold accepts in Ha. rewrite Hps in Ha. cbv zeta in Ha.
    destruct (segs_ok ps (split_c "/" (s_string x))) eqn:Eok; [|discriminate].
    unfold segs. rewrite (segs_ok_firstn i _ _ Eok). discriminate.
Qed.

Lemma nl_ok_prefix_conf x i : naturally_typed Ld x -> 1 <= i <= List.length (s_fields x) ->
  nl_ok_prefix Ld x i = true.
Proof.
  intros H Hi. destruct (prefix_accepts x i H Hi) as (tq & Hq & Hnq & Haq).
  unfold nl_ok_prefix. rewrite <- Hnq. apply (nl_safe_nl_ok tq _ Hsafe Hq Haq).
Qed.

Theorem get_as_prefix_conf x i : naturally_typed Ld x ->
  1 <= i <= List.length (s_fields x) ->
  exists y, get_as Ld x (nth (i - 1) (map fst (s_fields x)) "") = Ok y /\
    s_fields y = firstn i (s_fields x) /\
    s_string y = join "/" (firstn i (split_c "/" (s_string x))) /\
    sid_bool y = true.
Proof.
  intros H Hi. apply (get_as_prefix_full c Ld Hload Hwf x i H); [|exact Hi].
  apply (nl_ok_prefix_conf x i H Hi).
Qed.

Theorem div_parent_conf x y : naturally_typed Ld x ->
  1 < List.length (s_fields x) ->
  mem_c "?" (s_string x) = false -> mem_c ":" (s_string x) = false ->
  parent Ld x = Ok y ->
  sid_div Ld y (last (map snd (s_fields x)) "") = Ok x.
Proof.
  intros H Hn Hq Hc. apply (div_parent_full c Ld Hload Hwf x y H Hn Hq Hc).
  apply (nl_ok_prefix_conf x _ H). lia.
Qed.

End Safe.

End Proofs.
