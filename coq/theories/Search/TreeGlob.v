(** C11: [fn_match] / [comp_match] / [comps_match] of FS/Fs.v against the glob specification [glob_rel]. *)
From Coq Require Import List String Ascii Bool Arith Lia.
From Spil Require Import Base.Str Base.StrProofs Base.SplitProofs Base.Outcome Sid.SidLemmas
  FS.Fs Search.FindList Search.GlobProofs Search.TreeListDefs.
Import ListNotations.
Local Open Scope string_scope.

(** * fn_match with enough fuel is glob_rel (on names without "/") *)

Lemma glob_fn_match p n : glob_rel p n ->
  forall f, S (String.length p + String.length n) <= f -> fn_match f p n = true.
Proof.
  induction 1 as [| p e H IH | p a e Ha H IH | p a e Ha H IH | p a e Ha1 Ha2 H IH]; intros f Hf;
    (destruct f as [|f]; [lia|]); cbn [String.length] in Hf.
  - reflexivity.
  - cbn [fn_match]. rewrite IH by lia. reflexivity.
  - cbn [fn_match]. rewrite (IH f) by (cbn [String.length]; lia). apply orb_true_r.
  - cbn [fn_match]. apply IH. lia.
  - cbn [fn_match].
    assert (Hgo : (Ascii.eqb a a && fn_match f p e)%bool = true).
    { rewrite Ascii.eqb_refl. apply IH. lia. }
    destruct a as [b0 b1 b2 b3 b4 b5 b6 b7].
    destruct b0, b1, b2, b3, b4, b5, b6, b7; try exact Hgo; exfalso; first [apply Ha2; reflexivity | apply Ha1; reflexivity].
Qed.

Lemma fn_match_glob : forall f p n, fn_match f p n = true -> mem_c "/" n = false -> glob_rel p n.
Proof.
  induction f as [|f IH]; intros p n H Hn; [discriminate|].
  destruct p as [|a p].
  - cbn [fn_match] in H. destruct n; [constructor | discriminate].
  - destruct (Ascii.eqb a "*") eqn:Es.
    { apply Ascii.eqb_eq in Es. subst a. cbn [fn_match] in H. apply orb_true_iff in H. destruct H as [H | H].
      - apply g_star_skip. apply (IH _ _ H Hn).
      - destruct n as [|b n]; [discriminate|]. cbn [mem_c] in Hn. apply orb_false_iff in Hn.
        destruct Hn as (Hb & Hn). apply g_star_take; [apply Ascii.eqb_neq; exact Hb | apply (IH _ _ H Hn)]. }
    destruct (Ascii.eqb a "?") eqn:Eq.
    { apply Ascii.eqb_eq in Eq. subst a. cbn [fn_match] in H.
      destruct n as [|b n]; [discriminate|]. cbn [mem_c] in Hn. apply orb_false_iff in Hn.
      destruct Hn as (Hb & Hn). apply g_quest; [apply Ascii.eqb_neq; exact Hb | apply (IH _ _ H Hn)]. }
    assert (H' : match n with String b n' => (Ascii.eqb a b && fn_match f p n')%bool | "" => false end = true).
    { apply Ascii.eqb_neq in Es. apply Ascii.eqb_neq in Eq. cbn [fn_match] in H.
      destruct a as [b0 b1 b2 b3 b4 b5 b6 b7].
      destruct b0, b1, b2, b3, b4, b5, b6, b7; try exact H; exfalso; first [apply Eq; reflexivity | apply Es; reflexivity]. }
    destruct n as [|b n]; [discriminate|]. apply andb_true_iff in H'. destruct H' as (Hab & H').
    apply Ascii.eqb_eq in Hab. subst b. cbn [mem_c] in Hn. apply orb_false_iff in Hn. destruct Hn as (_ & Hn).
    apply g_char; [apply Ascii.eqb_neq; exact Es | apply Ascii.eqb_neq; exact Eq | apply (IH _ _ H' Hn)].
Qed.

(* the fuel used by the model is enough *)
Theorem fn_match_iff_glob p n : mem_c "/" n = false ->
  (fn_match (S (String.length p + String.length n)) p n = true <-> glob_rel p n).
Proof.
  intros Hn. split; [intros H; exact (fn_match_glob _ _ _ H Hn) | intros H; apply (glob_fn_match _ _ H); lia].
Qed.

(** * Facts on glob_rel *)

Lemma glob_refl : forall s, glob_rel s s.
Proof.
  induction s as [|a s IH]; [constructor|].
  destruct (Ascii.eqb a "*") eqn:Es.
  { apply Ascii.eqb_eq in Es. subst a. apply g_star_take; [discriminate|]. apply g_star_skip. exact IH. }
  destruct (Ascii.eqb a "?") eqn:Eq.
  { apply Ascii.eqb_eq in Eq. subst a. apply g_quest; [discriminate | exact IH]. }
  apply g_char; [apply Ascii.eqb_neq; exact Es | apply Ascii.eqb_neq; exact Eq | exact IH].
Qed.

(* a pattern without "*" and "?" only matches itself *)
Lemma glob_nomagic_eq p n : glob_rel p n -> glob_magic p = false -> p = n.
Proof.
  unfold glob_magic. induction 1 as [| p e H IH | p a e Ha H IH | p a e Ha H IH | p a e Ha1 Ha2 H IH]; intros Hm.
  - reflexivity.
  - cbn [mem_c] in Hm. rewrite Ascii.eqb_refl in Hm. discriminate.
  - cbn [mem_c] in Hm. rewrite Ascii.eqb_refl in Hm. discriminate.
  - cbn [mem_c] in Hm. rewrite Ascii.eqb_refl in Hm. cbn [orb] in Hm. rewrite orb_true_r in Hm. discriminate.
  - cbn [mem_c] in Hm. apply orb_false_iff in Hm. destruct Hm as (H1 & H2).
    apply orb_false_iff in H1. apply orb_false_iff in H2. destruct H1 as (_ & H1). destruct H2 as (_ & H2).
    rewrite IH; [reflexivity|]. rewrite H1, H2. reflexivity.
Qed.

Lemma glob_star_any n : mem_c "/" n = false -> glob_rel "*" n.
Proof.
  induction n as [|a n IH]; intros Hn.
  - apply g_star_skip. constructor.
  - cbn [mem_c] in Hn. apply orb_false_iff in Hn. destruct Hn as (Ha & Hn).
    apply g_star_take; [apply Ascii.eqb_neq; exact Ha | exact (IH Hn)].
Qed.

(** * Path components *)

Lemma has_magic_false p : has_magic p = false -> glob_magic p = false.
Proof.
  unfold has_magic, glob_magic. intros H. apply orb_false_iff in H. destruct H as (H & _). exact H.
Qed.

Lemma comp_match_of_glob pc nc : glob_rel pc nc -> mem_c "/" nc = false -> is_hidden nc = false ->
  comp_match pc nc = true.
Proof.
  intros G Hn Hh. unfold comp_match. destruct (has_magic pc) eqn:Em.
  - rewrite Hh. cbn [andb]. apply (glob_fn_match _ _ G). lia.
  - rewrite (glob_nomagic_eq _ _ G (has_magic_false _ Em)). apply String.eqb_refl.
Qed.

Lemma comps_match_of_glob : forall ps ns, Forall2 glob_rel ps ns ->
  Forall (fun x => mem_c "/" x = false) ns -> forallb (fun c => negb (is_hidden c)) ns = true ->
  comps_match ps ns = true.
Proof.
  induction 1 as [|p n ps ns Hpn _ IH]; intros Hs Hh; [reflexivity|].
  inversion Hs as [|? ? Hs1 Hs2]; subst. cbn [forallb] in Hh. apply andb_true_iff in Hh. destruct Hh as (Hh1 & Hh2).
  cbn [comps_match]. rewrite (IH Hs2 Hh2), andb_true_r.
  apply comp_match_of_glob; [exact Hpn | exact Hs1|]. destruct (is_hidden n); [discriminate | reflexivity].
Qed.

(** a pattern that globs a path (in the sense of [glob_rel], "*" not crossing "/") is matched by the
    component-wise glob of the file system model, when no component of the path is hidden *)
Theorem path_glob_comps pat p : glob_rel pat p -> no_hiddenb p = true ->
  comps_match (split_c "/" pat) (split_c "/" p) = true.
Proof.
  intros G Hh. apply comps_match_of_glob; [apply glob_segmentwise; exact G | apply split_c_nomem_all | exact Hh].
Qed.
