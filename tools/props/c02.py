"""C02 string / fields / query / uri / repr / copy denote the same Sid."""
from harness.runner import PropBase, Case
from harness import gen
from props.c01 import natural, seg_accepts

def all_accepting(v, body):
    """every (type, fields) whose template accepts the string, in configuration order"""
    segs = body.split('/')
    res = []
    for t in v.order:
        keys = v.types[t]
        if len(keys) == len(segs) and all(seg_accepts(e, g) for (k, e), g in zip(keys, segs)):
            res.append((t, [[k, g] for (k, e), g in zip(keys, segs)]))
    return res

QUERY_UNSAFE = set(' \t\n\r\x0b\x0c&=?#%+~;')

class C02(PropBase):
    id = 'C02'
    rule = ('naturally typed sids over the per-key value sets of every type (concrete, "*", ">", aliases; colliding key sets '
            '*__file / *__movie_file / *__cache_file); each rebuilt from uri, shuffled fields, query, eval(repr), copy; '
            'non-trivial = typed; distinct by (sid, rebuild kind); plus histories in one process on strings that several templates accept: '
            'the plain string, then copy() / == of the same string forced to each accepting type, then the plain string again; '
            'and histories where a caller first assigns into the dictionary returned by .fields and the rebuilds are then repeated')
    def cases(self, rng, ctx, tier):
        v = gen.vocab_from_ctx(ctx)
        n = 120 if tier == 'quick' else 2500
        out = []
        for t in v.order:
            for _ in range(n):
                s = v.sid(t, rng, search_p=rng.choice([0, 0, 0.25, 0.6]))
                out.append(Case('obs', [['s', s]], 'structured'))
        for _ in range(n * 2):
            s = gen.mutate_string(v.sid(v.any_type(rng), rng), rng, v)
            if '?' not in s:
                out.append(Case('obs', [['s', s]], 'malformed'))
        # free values holding the 'optional' sign of the query syntax inside (only a LEADING '~' has a meaning there)
        for t in v.order:
            opens = [i for i, (k, e) in enumerate(v.types[t]) if v.alternatives(e) is None]
            for _ in range(3 if opens else 0):
                segs = v.sid(t, rng).split('/')
                segs[rng.choice(opens)] = rng.choice(['dagger~old', 'sim~b', 'a~', 'x~~y'])
                out.append(Case('obs', [['s', '/'.join(segs)]], 'structured'))
        # strings accepted by several templates: a typed Sid is its (type, fields), whatever else was built in the process
        seen = set()
        for t in v.order:
            for _ in range(n // 2):
                s = v.sid(t, rng, search_p=rng.choice([0, 0.5, 0.9]))
                if s in seen or any(ch in s for ch in ':?\n'):
                    continue
                acc = all_accepting(v, s)
                if len(acc) < 2:
                    continue
                seen.add(s)
                t1, f1 = acc[0]
                t2, f2 = rng.choice(acc[1:])
                steps = [['sid', [['s', s]]], ['copy', [['s', t2 + ':' + s]]], ['sid', [['x', [s, t2, f2]]]], ['copy', [['s', t1 + ':' + s]]], ['sid', [['s', s]]],
                         ['eq', [['s', t1 + ':' + s], ['s', t2 + ':' + s]]], ['eq', [['s', t2 + ':' + s], ['s', t2 + ':' + s]]],
                         ['sid', [['f', f2]]], ['sid', [['s', t2 + ':' + s]]]]
                if rng.random() < 0.5:
                    steps = steps[1:]      # without the plain string first
                exp = {'sid_s': [s, t1, f1], 'copy1': [s, t1, f1], 'copy2': [s, t2, f2]}
                out.append(Case('seq', steps, 'collide', {'s': s, 't1': t1, 'f1': f1, 't2': t2, 'f2': f2}))
        return out
    def phase2(self, rng, ctx, cases, impl_out, tier):
        more = []
        for c, o in zip(cases, impl_out):
            if c.op != 'obs' or not isinstance(o, list) or not o or not isinstance(o[0], list):
                continue
            sid, b = o[0], o[1]
            if b != '1':
                continue
            string, ty, fields = sid
            meta = {'orig': sid}
            uri = o[3]
            more.append(Case('sid', [['s', uri]], 'uri', meta))
            f2 = list(fields); rng.shuffle(f2)
            more.append(Case('sid', [['f', f2]], 'fields', meta))
            more.append(Case('sid', [['f', fields]], 'fields', meta))
            more.append(Case('sid', [['q', o[8]]], 'query', meta))
            more.append(Case('copy', [['s', uri]], 'copy', meta))
            more.append(Case('eval_repr', [['s', uri]], 'repr', meta))
            more.append(Case('eq', [['s', uri], ['f', f2]], 'eq', meta))
            if rng.random() < 0.15 and len(fields) > 1:
                # the same rebuilds after a caller changed the dictionary that .fields handed out (one process): the Sid, and every
                # later Sid made from the same string or uri, still has the string / type / fields it had
                k = rng.choice([a for a, _ in fields] + ['foo'])
                more.append(Case('seq', [['fields_mutate', [['s', uri], k, rng.choice(['zzz', '*', 'rig'])]],
                                         ['sid', [['s', uri]]], ['sid', [['s', string]]], ['copy', [['s', uri]]], ['sid', [['f', fields]]]] +
                                 ([] if any(ch in string for ch in "'\\\n\r") else [['eval_repr', [['s', uri]]]]), 'after_mutation', meta))
        return more
    def oracle(self, case, impl, ctx):
        if case.op == 'obs':
            # canonical string: a typed Sid's string is its fields joined in template order
            if isinstance(impl, list) and impl and isinstance(impl[0], list) and impl[1] == '1':
                string, ty, fields = impl[0]
                v = gen.vocab_from_ctx(ctx)
                if ty not in v.types:
                    return 'typed with unknown type %r' % ty
                if [k for k, _ in fields] != [k for k, _ in v.types[ty]]:
                    return 'fields of %r are not the keys of %s in template order' % (string, ty)
                if '/'.join(val for _, val in fields) != string:
                    return 'string %r is not the canonical rendering of its fields' % string
            return None
        if case.op == 'seq' and case.stream == 'after_mutation':
            orig = case.meta['orig']
            first = impl[0]
            if first[0] != 'ok' or first[1][0] != orig or first[1][1] != orig or first[1][2] != '1':
                return 'after item assignment on the dictionary returned by .fields the Sid %r reads %r' % (orig, first)
            for (op, a), r in zip(case.args[1:], impl[1:]):
                if op == 'sid' and a[0] == ['s', orig[0]]:
                    if r[0] == 'ok' and r[1][0] == orig[0] and r[1][1] and '/'.join(x for _, x in r[1][2]) != orig[0]:
                        return 'after a caller changed the dictionary returned by .fields, Sid(%r) has fields %r' % (orig[0], r[1][2])
                    continue       # (the plain string may have another natural type than the uri)
                if op == 'eval_repr' and any(ch in orig[0] for ch in "'\\\n\r"):
                    continue
                if r != ['ok', orig]:
                    return 'after a caller changed the dictionary returned by .fields, %s(%r) gives %r, expected %r' % (op, a, r, orig)
            return None
        if case.op == 'seq':
            m = case.meta
            s, t1, f1, t2, f2 = m['s'], m['t1'], m['f1'], m['t2'], m['f2']
            for (op, a), r in zip(case.args, impl):
                if op == 'sid' and a[0][0] == 's':
                    want = ['ok', [s, t1, f1]] if ':' not in a[0][1] else ['ok', [s, t2, f2]]
                    if r != want:
                        return 'in the history %r: Sid(%r) is %r, expected %r' % (case.args, a[0][1], r, want)
                elif op == 'copy':
                    ty = a[0][1].split(':', 1)[0]
                    want = ['ok', [s, ty, f1 if ty == t1 else f2]]
                    if r != want:
                        return 'in the history %r: Sid(%r).copy() is %r, expected %r' % (case.args, a[0][1], r, want)
                elif op == 'eq':
                    same = a[0][1] == a[1][1]
                    if r != ('1' if same else '0'):
                        return 'Sid(%r) == Sid(%r) is %r although type and fields %s' % (a[0][1], a[1][1], r, 'are equal' if same else 'differ')
            return None
        orig = case.meta.get('orig')
        if orig is None:
            return None
        string, ty, fields = orig
        if case.op == 'eq':
            return None if impl == '1' else 'Sid(uri) != Sid(fields=shuffled)'
        if case.stream == 'repr' and any(ch in string for ch in "'\\\n\r"):
            return None     # eval(repr()) is only the identity on the literal for such strings
        if impl[0] != 'ok':
            return '%s rebuild raised %r' % (case.stream, impl)
        got = impl[1]
        if case.stream == 'query' and any(set(val) & (QUERY_UNSAFE - set('~')) or val.startswith('~') or val == '' for _, val in fields):
            return None     # the property restricts the query round trip to url-safe non-empty values
        if case.stream in ('fields', 'query'):
            # rebuilt from the key set: the type is the first type whose template accepts; by the property it must be the same Sid
            pass
        if got != orig:
            return 'rebuild from %s gives %r, expected %r' % (case.stream, got, orig)
        return None
    def nontrivial(self, case, impl):
        if case.op == 'obs':
            return case.args if (isinstance(impl, list) and len(impl) > 1 and impl[1] == '1') else None
        return [case.op, case.args]
    def histogram_key_unused(self): pass
    def histogram_key(self, case, impl):
        if case.op == 'obs':
            try:
                return 'obs:' + (impl[0][1] or 'untyped')
            except Exception:
                return 'obs:error'
        return case.stream

PROP = C02()
