(** Independent statement of "which template types a string" (C01), executable.
    No reference to the compiled whole-template regex: the string is split on "/" and each
    segment is tested against its placeholder's pattern alone. *)
From Coq Require Import List String Ascii Bool Arith.
From Spil Require Import Base.Str Base.Dict Base.Outcome Regex.Re Resolva.Template Resolva.Resolver Conf.Conf.
Import ListNotations.
Local Open Scope string_scope.

(* the pattern of one placeholder *)
Definition ph_re (e : option string) : option re :=
  match e with None => Some default_expr | Some e => parse_re e end.

(* placeholders of a template, in order: (key, pattern) *)
Fixpoint phs (items : list item) : option (list (string * re)) :=
  match items with
  | [] => Some []
  | Lit _ :: rest => phs rest
  | Ph n e :: rest =>
      match ph_re e, phs rest with
      | Some r, Some l => Some ((n, r) :: l)
      | _, _ => None
      end
  end.

(* "the pattern accepts its whole segment" *)
Definition seg_ok (r : re) (seg : string) : bool := match_full r seg.

Fixpoint segs_ok (ps : list (string * re)) (segs : list string) : bool :=
  match ps, segs with
  | [], [] => true
  | (_, r) :: ps', g :: segs' => seg_ok r g && segs_ok ps' segs'
  | _, _ => false
  end.

(* as many placeholders as segments, every pattern accepts its segment: the fields *)
Definition accepts (t : tpl) (s : string) : option (dict string) :=
  match phs (tp_items t) with
  | Some ps => let segs := split_c "/" s in
               if segs_ok ps segs then Some (combine (map fst ps) segs) else None
  | None => None
  end.

Fixpoint natural_in (l : list tpl) (s : string) : option (string * dict string) :=
  match l with
  | [] => None
  | t :: rest => match accepts t s with
                 | Some d => Some (tp_name t, d)
                 | None => natural_in rest s
                 end
  end.

(* first template, in configuration order, that accepts the string *)
Definition natural (Ld : Loaded) (s : string) : option (string * dict string) :=
  if sempty s then None else natural_in (r_tpls (l_sid Ld)) s.

(* the one template named ty *)
Definition forced (Ld : Loaded) (ty s : string) : option (string * dict string) :=
  if sempty s then None else
  match find_tpl (l_sid Ld) ty with
  | Some t => match accepts t s with Some d => Some (ty, d) | None => None end
  | None => None
  end.
