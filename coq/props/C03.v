From Coq Require Import List String.
Example C03_placeholder : True. Proof. exact I. Qed.
Print Assumptions C03_placeholder.
