#!/bin/bash
# seed_run.sh <patch> <prop>... : apply a seeded change to /repo, run the checks, undo it.
# The evidence files are those of the unchanged tree: they are saved before and put back afterwards.
P=$1; shift
EV=$(mktemp -d /verif/work/evsave.XXXXXX 2>/dev/null || mktemp -d)
mkdir -p /verif/work; cp -a /verif/evidence/. $EV/ 2>/dev/null
git -C /repo apply $P || { echo APPLY-FAIL; rm -rf $EV; exit 1; }
for prop in "$@"; do
  out=$(cd /verif && ./check $prop 2>&1 | grep -E 'VIOLATION|KNOWN' | head -3)
  echo "$prop: ${out:-PASS(no violation)}"
done
git -C /repo checkout -- .
cp -a $EV/. /verif/evidence/ 2>/dev/null; rm -rf $EV
