(** C07: a declarative denotation of a search expression, independent of the unfolding pipeline
    of Search/Unfold.v.  Definitions only (the proofs are in Search/DenoteLemmas.v, DenoteQuery.v,
    DenoteTable.v and DenoteProofs.v).

    It uses: the string primitives of Base/Str.v, the configuration record, the segment-wise typing
    specification of Sid/TypingSpec.v ([accepts], [natural]), the record [sid], [basetype_of] and
    [is_search_str] of Sid/Sid.v.  Sections 3 and 4 state narrowing and query application through
    [apply_query] (C04); section 5 gives their declarative reading (no [apply_query], no [update]).
    [to_dict] only appears in the guard [narrowing_readable].
    Nothing here mentions [extensions], [or_op], [expand], [simple_typing], [type_narrow] or [unfold_search]. *)
From Coq Require Import List String Ascii Bool Arith.
From Spil Require Import Base.Str Base.Dict Base.Outcome Regex.Re
  Resolva.Template Resolva.Resolver Conf.ConfUtil Conf.Conf Conf.WF Sid.Query Sid.Sid Sid.TypingSpec.
Import ListNotations.
Local Open Scope string_scope.

Section Spec.
Variable Ld : Loaded.
Let c := l_conf Ld.
Let tpls := r_tpls (l_sid Ld).

(** ** 1. The bodies denoted by a query-free search string *)

(* an extension alias stands for its members; anything else stands for itself *)
Definition alias_members (a : string) : list string :=
  match dget (c_extension_alias c) a with Some m => m | None => [a] end.

(* the "," alternatives of one segment (stripped); a segment without "," is taken as it is *)
Definition comma_alts (g : string) : list string :=
  if mem_c "," g then map strip (split_c "," g) else [g].

(* the last segment: its alternatives, each alias replaced by its members, without duplicates *)
Definition last_alts (g : string) : list string :=
  if sempty g then [""] else nodup_s (flat_map alias_members (comma_alts g)).

Fixpoint alts_of_parts (parts : list string) : list (list string) :=
  match parts with
  | [] => []
  | [g] => [last_alts g]
  | g :: rest => comma_alts g :: alts_of_parts rest
  end.

(* per "/"-segment of s, its list of alternatives *)
Definition alts_of_segments (s : string) : list (list string) := alts_of_parts (split_c "/" s).

Fixpoint product (l : list (list string)) : list (list string) :=
  match l with
  | [] => [[]]
  | a :: rest => flat_map (fun x => map (cons x) (product rest)) a
  end.

(* one body per choice of an alternative in every segment *)
Definition bodies (s : string) : list string := map (join "/") (product (alts_of_segments s)).

(** ** 2. The typed searches denoted by one body *)

(* a body without "/**": every template that accepts it *)
Definition typed_plain (b : string) (y : sid) : Prop :=
  exists tp d, In tp tpls /\ accepts tp b = Some d /\ y = mkSid b (tp_name tp) d.

Fixpoint srepeat (s : string) (n : nat) : string :=
  match n with O => "" | S n' => s ++ srepeat s n' end.

Definition dstar : string := "/**".

(* the text before "/**" *)
Definition root_of (b : string) : string := hd "" (split_s dstar b).

(* the leaf key configured for the basetype of the root's (natural) type *)
Definition leaf_of (root : string) : option string :=
  match natural Ld root with
  | Some (t, _) =>
      match dget (c_leaf_keys c) (basetype_of Ld t) with
      | Some lk => if sempty lk then None else Some lk
      | None => None
      end
  | None => None
  end.

Definition tpl_last_key (tp : tpl) : option string := last_opt (item_names (tp_items tp)).

(* a body with one "/**": "/**" stands for n >= 0 levels "/*", completing the string to a leaf type *)
Definition typed_dstar (b : string) (y : sid) : Prop :=
  exists lk n tp d,
    leaf_of (root_of b) = Some lk /\
    In tp tpls /\ accepts tp (replace dstar (srepeat "/*" n) b) = Some d /\
    tpl_last_key tp = Some lk /\
    y = mkSid (replace dstar (srepeat "/*" n) b) (tp_name tp) d.

Definition typed_of (b : string) (y : sid) : Prop :=
  if Nat.eqb (count dstar b) 0 then typed_plain b y else typed_dstar b y.

(* the bodies for which the search is an error (SpilException) *)
Definition body_error (b : string) : Prop :=
  1 < count dstar b \/ (count dstar b = 1 /\ leaf_of (root_of b) = None).

(** ** 3. Narrowing *)

(* the narrowing query of a type: the entry of its basetype, "" when there is none *)
Definition narrowing_query (t : string) : string :=
  match dget (c_base_narrowing c) (basetype_of Ld t) with Some q => q | None => "" end.

(* [y] with the query [q] applied through the C04 table ([apply_query]); kept iff applied *)
Definition query_applied (q : string) (y x : sid) : Prop :=
  apply_query Ld (s_string y) q (s_type y) (s_fields y) = Ok (s_string x, s_type x, s_fields x) /\
  count "?" (s_string x) = 0.

(* basetype narrowing of a typed search: x is y when the basetype has no (non empty) entry, else
   y with the entry applied; a search the entry does not fit is dropped *)
Definition narrowed (y x : sid) : Prop :=
  if sempty (narrowing_query (s_type y)) then x = y
  else query_applied (narrowing_query (s_type y)) y x.

(** ** 4. A trailing query  k1=v1&...&kn=vn *)

Definition kv_str (kv : string * string) : string := fst kv ++ "=" ++ snd kv.
Definition query_str (d : list (string * string)) : string := join "&" (map kv_str d).

(* the keys whose values may be extension aliases *)
Definition leaf_names : list string :=
  (map snd (c_leaf_keys c) ++ match c_leaf_default c with Some k => [k] | None => [] end)%list.

(* the alternatives of the value v of key k: its "," alternatives; for a leaf key, aliases are
   replaced by their members *)
Definition value_alts (k v : string) : list string :=
  if in_list k leaf_names then last_alts v else comma_alts v.

(* one query per choice of an alternative for every key *)
Definition query_dicts (qd : list (string * string)) : list (list (string * string)) :=
  map (fun ch => combine (map fst qd) ch)
      (product (map (fun kv => value_alts (fst kv) (snd kv)) qd)).

Definition queries (qd : list (string * string)) : list string := map query_str (query_dicts qd).

(* the query u applied to the typed search y (nothing to apply when u is empty) *)
Definition qapplied (u : string) (y x : sid) : Prop :=
  if sempty u then x = y else query_applied u y x.

(* url-safe tokens: non empty, no whitespace, none of & = ? # % + ; , / *)
Definition atom_char (a : ascii) : bool :=
  negb (is_space a) && negb (existsb (Ascii.eqb a) ["&"; "="; "?"; "#"; "%"; "+"; ";"; ","; "/"]%char).
Definition atomb (x : string) : bool := negb (sempty x) && all_c atom_char x.

(* a value is a "," separated list of tokens (a token may start with "~") *)
Definition value_okb (v : string) : bool := forallb atomb (split_c "," v).

Definition query_okb (qd : list (string * string)) : bool :=
  negb (match qd with [] => true | _ => false end) && nodupb (map fst qd)
  && forallb (fun kv => atomb (fst kv) && value_okb (snd kv)) qd.

(** ** 5. The C04 table, declaratively: a query applied to typed fields *)

(* the effect of one pair on the fields: k=v sets k; k=~v replaces the value of k only when k is present *)
Definition set_pair (d : dict string) (kv : string * string) : dict string :=
  if startswith "~" (snd kv)
  then (if dmem d (fst kv) then dset d (fst kv) (replace "~" "" (snd kv)) else d)
  else dset d (fst kv) (snd kv).

Definition updated (d : dict string) (qd : list (string * string)) : dict string := fold_left set_pair qd d.

(* the string the template tp makes of the fields ov *)
Definition str_of (tp : tpl) (ov : dict string) : string :=
  join "/" (map (fun n => match dget ov n with Some v => v | None => "" end) (item_names (tp_items tp))).

(* tp can carry the fields ov: same key set, and it accepts the string made of their values *)
Definition carries (ov : dict string) (tp : tpl) : bool :=
  keys_eq (dkeys ov) (item_names (tp_items tp)) &&
  match accepts tp (str_of tp ov) with Some _ => true | None => false end.

Definition candidates (ov : dict string) : list tpl := filter (carries ov) tpls.

(* the only candidate; else the current type if it is a candidate; else, for a search, the first one *)
Definition chosen (ov : dict string) (ty : string) (searchy : bool) : option tpl :=
  match candidates ov with
  | [] => None
  | [tp] => Some tp
  | tp0 :: _ =>
      match find (fun tp => String.eqb (tp_name tp) ty) (candidates ov) with
      | Some tp => Some tp
      | None => if searchy then Some tp0 else None
      end
  end.

Definition table_result (ov : dict string) (ty : string) (searchy : bool) : option sid :=
  match chosen ov ty searchy with
  | Some tp => match accepts tp (str_of tp ov) with
               | Some d => Some (mkSid (str_of tp ov) (tp_name tp) d)
               | None => None
               end
  | None => None
  end.

(* the query with pairs qd applied to the typed search y: declarative reading of [query_applied] *)
Definition table_applied (qd : list (string * string)) (y x : sid) : Prop :=
  table_result (updated (s_fields y) qd) (s_type y)
               (is_search_str Ld (s_string y ++ "?" ++ query_str qd)) = Some x /\
  count "?" (s_string x) = 0.

(* reading a configured narrowing query  k1=v1&...  with url-safe keys and values *)
Definition simple_query (q : string) : option (list (string * string)) :=
  let items := map (split1_c "=") (split_c "&" q) in
  if forallb (fun it => match snd it with
                        | Some v => atomb (fst it) && atomb v
                        | None => false
                        end) items
     && nodupb (map fst items)
  then Some (map (fun it => (fst it, match snd it with Some v => v | None => "" end)) items)
  else None.

(* declarative basetype narrowing *)
Definition narrowed_decl (y x : sid) : Prop :=
  if sempty (narrowing_query (s_type y)) then x = y else
  match simple_query (narrowing_query (s_type y)) with
  | Some nq => table_applied nq y x
  | None => False
  end.

(* every configured narrowing query is of the simple form *)
Definition narrowing_simple : bool :=
  forallb (fun kv => sempty (snd kv) || match simple_query (snd kv) with Some _ => true | None => false end)
          (c_base_narrowing c).

(** ** 6. Guards *)

(* characters that have a meaning elsewhere in the pipeline or in the Sid factory *)
Definition plain_str (m : string) : bool :=
  negb (mem_c "?" m) && negb (mem_c ":" m) && negb (mem_c "010" m).

Definition start_marker_s : string := "--start--".

Definition search_ok (s : string) : bool :=
  plain_str s && negb (contains start_marker_s s).

(* an alias member is a plain token *)
Definition member_ok (m : string) : bool :=
  plain_str m && negb (mem_c "/" m) && negb (mem_c "," m) && String.eqb (strip m) m
  && negb (contains start_marker_s m) && negb (mem_c "*" m) && atomb m.

(* every alias has at least one member, every member is a plain token;
   no typed narrowing (the property only speaks of basetype narrowing) *)
Definition unfold_conf_okb : bool :=
  forallb (fun kv => negb (match snd kv with [] => true | _ => false end) && forallb member_ok (snd kv))
          (c_extension_alias c)
  && forallb (fun kv => sempty (snd kv)) (c_typed_narrowing c).

(* the narrowing queries can be read (no percent escape >= %80, which is outside the model) *)
Definition narrowing_readable : bool :=
  forallb (fun kv => match to_dict (snd kv) with Ok _ => true | Raise _ => false end) (c_base_narrowing c).

End Spec.
