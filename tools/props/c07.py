"""C07 unfolding of a search expression."""
import itertools
from harness.runner import PropBase, Case
from harness import gen
from props.c01 import seg_accepts
from props.c04 import types_of, parse_simple_query, SIMPLE

class SpecError(Exception):
    pass

def all_types(vocab, body):
    segs = body.split('/')
    out = []
    for t in vocab.order:
        keys = vocab.types[t]
        if len(keys) == len(segs) and all(seg_accepts(e, g) for (k, e), g in zip(keys, segs)):
            out.append(t)
    return out

def first_type(vocab, body):
    ts = all_types(vocab, body)
    return ts[0] if ts and body != '' else None

def expand_alias(vocab, seg):
    alts = [x.strip() for x in seg.split(',')] if ',' in seg else [seg]
    res = []
    for a in alts:
        res.extend(vocab.alias.get(a, [a]))
    return sorted(set(res))

def apply_q(vocab, ctx, body, ty, fields, pairs, qtext):
    """C04 table on a typed search; returns (string, type, fields) or None when not applied"""
    ov = dict(fields)
    for k, val in pairs:
        if val.startswith('~'):
            if k in ov:
                ov[k] = val[1:]
        else:
            ov[k] = val
    T = types_of(vocab, ov)
    if not T:
        return None
    if len(T) == 1:
        target = T[0]
    elif ty in T:
        target = ty
    elif any(sym in body + '?' + qtext for sym in ctx['rawd']['search_symbols']):
        target = T[0]
    else:
        return None
    keys = [k for k, _ in vocab.types[target]]
    return ['/'.join(ov[k] for k in keys), target, [[k, ov[k]] for k in keys]]

def denote(vocab, ctx, s):
    """The property statement, executed directly. Returns sorted list of [string, type, fields]; raises SpecError for SpilException."""
    sep = ctx['rawd']['sep']
    leaf_keys = dict(ctx['rawd']['leaf_keys'])
    narrowing = dict(ctx['rawd']['base_narrowing'])
    leaf_names = set(leaf_keys.values()) | set(ctx['rawd'].get('leaf_default') or [])
    if '?' in s:
        body, q = s.split('?', 1)
    else:
        body, q = s, ''
    pairs = []
    if q:
        pairs = parse_simple_query(q.strip('&'))
        if pairs is None:
            return None          # outside the plain query fragment: the oracle checks invariants only
        d = {}
        for k, val in pairs:
            d[k] = val
        pairs = list(d.items())
    segs = body.split('/')
    seg_alts = []
    for i, g in enumerate(segs):
        if i == len(segs) - 1:
            seg_alts.append(expand_alias(vocab, g) if g else [''])
        elif ',' in g:
            seg_alts.append([x.strip() for x in g.split(',')])
        else:
            seg_alts.append([g])
    q_alts = []
    for k, val in pairs:
        if k in leaf_names and val:
            val = ','.join(expand_alias(vocab, val))
        q_alts.append([(k, x) for x in val.split(',')] if ',' in val else [(k, val)])
    if q and any('' in alts for alts in seg_alts) and len(segs) == 1:
        return None      # an empty body with a query is the query form of a Sid (C02), not a search over templates
    results = {}
    any_comma = ',' in s
    for choice in itertools.product(*seg_alts):
        b = '/'.join(choice)
        for qchoice in itertools.product(*q_alts):
            qtext = '&'.join(k + '=' + val for k, val in qchoice)
            typed = []
            if b.count('/**') > 1:
                raise SpecError('more than one **')
            if '/**' in b:
                root = b.split('/**')[0]
                rt = first_type(vocab, root)
                if rt is None:
                    raise SpecError('untypable root')
                bt = rt.split(sep)[0]
                leaf = leaf_keys.get(bt)
                if not leaf:
                    raise SpecError('no leaf key')
                for n in range(0, 14):
                    k = b.replace('/**', '/*' * n)
                    for t in all_types(vocab, k):
                        if vocab.types[t][-1][0] == leaf:
                            typed.append((k, t))
            else:
                for t in all_types(vocab, b):
                    typed.append((b, t))
            for k, t in typed:
                fields = [[key, val] for (key, _), val in zip(vocab.types[t], k.split('/'))]
                cur = [k, t, fields]
                eff = [(kk, vv) for kk, vv in qchoice if vv != '']      # a pair with an empty value is ignored by the query parser (blank values are dropped)
                if eff:
                    cur = apply_q(vocab, ctx, k, t, fields, eff, qtext)
                    if cur is None:
                        continue
                bt = cur[1].split(sep)[0]
                nq = narrowing.get(bt)
                if nq:
                    np = parse_simple_query(nq)
                    nar = apply_q(vocab, ctx, cur[0], cur[1], cur[2], np, nq)
                    if nar is None:
                        continue      # narrowing query does not fit: the search keeps an unapplied query and is dropped
                    cur = nar
                results[(cur[0], cur[1])] = cur
    return [results[k] for k in sorted(results)]

def make_search(rng, vocab, t):
    fields = vocab.fields(t, rng)
    segs = [val for _, val in fields]
    keys = [k for k, _ in fields]
    n = len(segs)
    # replace a subset of segments
    for i in range(n):
        r = rng.random()
        e = vocab.types[t][i][1]
        if r < 0.25:
            segs[i] = '*'
        elif r < 0.30:
            segs[i] = '>'
        elif r < 0.40:
            vals = vocab.concrete_values(e, rng)
            segs[i] = ','.join(rng.sample(vals, min(len(vals), rng.randint(2, 3)))) if len(vals) > 1 else vals[0] + ',' + rng.choice(gen.OPEN_VALUES)
        elif r < 0.45 and i == n - 1 and vocab.alias:
            segs[i] = rng.choice(list(vocab.alias) + ['maya,movie', 'cache,abc'])
    # collapse a contiguous span into **
    if rng.random() < 0.35 and n >= 2:
        i = rng.randrange(1, n)
        j = rng.randrange(i, n + 1)
        segs = segs[:i] + ['**'] + segs[j:]
    s = '/'.join(segs)
    # filters
    nf = rng.choice([0, 0, 1, 1, 2])
    if nf:
        pairs = []
        for _ in range(nf):
            r = rng.random()
            k = rng.choice(keys) if r < 0.5 else (vocab.types[t][-1][0] if r < 0.62 else rng.choice(vocab.all_keys() + ['foo']))
            exprs = [e for tt in vocab.order for kk, e in vocab.types[tt] if kk == k]
            r2 = rng.random()
            if exprs and r2 < 0.5:
                val = vocab.value(rng.choice(exprs), rng)
            elif exprs and r2 < 0.65:
                vals = vocab.concrete_values(rng.choice(exprs), rng)
                val = ','.join(vals[:2]) if len(vals) > 1 else vals[0]
            elif r2 < 0.75:
                val = rng.choice(list(vocab.alias) + ['ma,mb', '*', '>', ','.join(list(vocab.alias)[:2])])
            elif r2 < 0.9:
                val = rng.choice(gen.OPEN_VALUES)
            else:
                val = rng.choice(gen.ODD_VALUES)
            if rng.random() < 0.2:
                val = '~' + val
            pairs.append(k + '=' + val)
        s = s + '?' + '&'.join(pairs)
    return s

def malformed_search(rng, vocab):
    s = make_search(rng, vocab, vocab.any_type(rng))
    r = rng.random()
    if r < 0.2:
        return s.replace('/', '/**/', 2) if '/' in s else '**/' + s
    if r < 0.3:
        return '**/' + s
    if r < 0.4:
        return s.split('?')[0] + '**'
    if r < 0.5:
        return s.split('?')[0] + ',' + ('?' + s.split('?')[1] if '?' in s else '')
    if r < 0.6:
        return s.replace('*', ',,', 1)
    if r < 0.7:
        return 'bla/**' + ('?x=y' if rng.random() < 0.5 else '')
    if r < 0.8:
        return gen.junk_string(rng)
    if r < 0.9:
        return gen.mutate_string(s.split('?')[0], rng, vocab)
    return s + rng.choice(['?', '&', '?x', '??a=b', '#', '/**/**'])

class C07(PropBase):
    id = 'C07'
    rule = ('searches built from valid sids of every type: subsets of segments replaced by *, >, comma lists, aliases; contiguous spans collapsed '
            'into **; 0-2 filters (existing, deeper, foreign, optional, comma-valued, alias); malformed searches; non-trivial = unfolds to at least one '
            'typed search or raises; distinct by search string; plus histories in one process: a "**" search followed (or preceded) by the '
            'star-filled strings it stands for')
    partial_note = 'refinement pipeline = denotation proved for plain bodies and url-safe queries under unfold_conf_okb; outside those guards the denotation is the executable python oracle (independent of model and code)'
    def cases(self, rng, ctx, tier):
        v = gen.vocab_from_ctx(ctx)
        n = 120 if tier == 'quick' else 2500
        out = []
        for t in v.order:
            for _ in range(n):
                s = make_search(rng, v, t)
                out.append(Case('unfold', [s, '0', '0'], 'structured'))
        for _ in range(n * 4):
            out.append(Case('unfold', [malformed_search(rng, v), '0', '0'], 'malformed'))
        for _ in range(n * 2):
            s = make_search(rng, v, v.any_type(rng))
            out.append(Case('unfold', [s, rng.choice('01'), '1'], 'extrapolate'))
            out.append(Case('extensions', [s], 'diag'))
            out.append(Case('or_op', [s], 'diag'))
            out.append(Case('expand', [s.replace(',', '')], 'diag'))
        # histories in one process: a '**' search, then the star-filled strings it stands for (and the other way round): each answer
        # is the denotation of its own string, whatever was unfolded before
        depths = sorted(set(len(v.types[t]) for t in v.order))
        for _ in range(n // 2):
            t = v.any_type(rng)
            segs = v.sid(t, rng).split('/')
            i = rng.randrange(1, len(segs) + 1)
            root = segs[:i]
            tail = rng.choice(['', '', '/' + segs[-1]]) if i < len(segs) else ''
            filled = ['/'.join(root) + '/*' * (d - i - (1 if tail else 0)) + tail for d in depths if d - i - (1 if tail else 0) >= 0]
            steps = [['unfold', ['/'.join(root) + '/**' + tail, '0', '0']]] + [['unfold', [f, '0', '0']] for f in filled]
            if rng.random() < 0.3:
                steps = steps[1:] + steps[:1]
            if rng.random() < 0.5:
                steps = steps + steps[:2]
            out.append(Case('seq', steps, 'history'))
        return out
    def compare(self, case, model, impl):
        if case.stream == 'diag':
            return None if model == impl else 'diagnostic:' + case.op
        if model == impl:
            return None
        return 'unfold_search differs'
    def oracle(self, case, impl, ctx):
        if case.op == 'seq':
            for k, ((op, a), r) in enumerate(zip(case.args, impl)):
                why = self.oracle(Case(op, a, 'structured'), r, ctx)
                if why:
                    return 'step %d of the history %r: %s' % (k, [x[1][0] for x in case.args], why)
            return None
        if case.op != 'unfold':
            return None
        s = case.args[0]
        v = gen.vocab_from_ctx(ctx)
        if impl[0] == 'raise':
            if impl[1] != 'SpilException':
                return 'unfold_search(%r) raised %s' % (s, impl[1])
        else:
            res = impl[1]
            uris = [(x[0], x[1]) for x in res]
            if len(set(uris)) != len(uris):
                return 'duplicates in unfold_search(%r)' % s
            for x in res:
                if not x[1] or not x[2]:
                    return 'untyped result %r' % (x,)
                if '?' in x[0]:
                    return 'result with unapplied query %r' % (x,)
            if case.args[2] == '0' and case.args[1] == '0':
                if res != sorted(res, key=lambda x: (x[0], x[1])):
                    return 'result not sorted'
        if case.args[1] == '1' or case.args[2] == '1':
            return None
        if any(ord(ch) > 126 or ord(ch) < 32 for ch in s) or set(s.split('?')[0]) - SIMPLE - set('/ '):
            return None
        if ' ' in s:
            return None
        try:
            exp = denote(v, ctx, s)
        except SpecError as e:
            if impl[0] != 'raise':
                return 'unfold_search(%r) should raise SpilException (%s), got %r' % (s, e, impl[1][:3])
            return None
        if exp is None:
            return None
        if impl[0] == 'raise':
            return 'unfold_search(%r) raised %s, the search denotes %r' % (s, impl[1], exp[:3])
        if impl[1] != exp:
            return 'unfold_search(%r): denotes %r, got %r' % (s, exp[:4], impl[1][:4])
        return None
    def nontrivial(self, case, impl):
        if case.op == 'seq':
            return case.args if any(r[0] == 'raise' or r[1] for r in impl) else None
        if case.op == 'unfold' and (impl[0] == 'raise' or impl[1]):
            return case.args
        return None
    def histogram_key(self, case, impl):
        if case.op == 'seq':
            return 'history:%d-steps' % len(case.args)
        if case.op != 'unfold':
            return 'diag:' + case.op
        if impl[0] == 'raise':
            return case.stream + ':raise:' + impl[1]
        n = len(impl[1])
        return '%s:%s' % (case.stream, n if n < 5 else '5+')

PROP = C07()
