(** Crash semantics of an attribute write (C17): the file-system effects of _write_data after the repair
    (temporary sibling, then os.replace), a crash = any prefix of the effect list. *)
From Coq Require Import List String Ascii Bool Arith Lia.
From Spil Require Import Base.Str Base.Dict Base.Outcome FS.Fs.
Import ListNotations.
Local Open Scope string_scope.

Inductive effect :=
| ETruncate (p : string)                  (* open(p, "w"): the file exists and is empty *)
| EWrite (p : string) (c : content)       (* bytes written so far make content c (CCorrupt while incomplete) *)
| EReplace (src dst : string).            (* os.replace: atomic *)

Fixpoint fs_remove (f : fs) (p : string) : fs :=
  match f with
  | [] => []
  | (q, n) :: r => if String.eqb p q then r else (q, n) :: fs_remove r p
  end.

Definition apply_effect (f : fs) (e : effect) : fs :=
  match e with
  | ETruncate p => fs_add f p (File CEmpty)
  | EWrite p c => fs_add f p (File c)
  | EReplace src dst =>
      match fs_get f src with
      | Some n => fs_add (fs_remove f src) dst n
      | None => f
      end
  end.

Definition tmp_of (dp : string) : string := dp ++ ".tmp".

(* the write of [new] to the sidecar [dp], with the text written in [chunks]+1 pieces *)
Definition write_effects (dp : string) (new : dict string) (chunks : nat) : list effect :=
  (ETruncate (tmp_of dp) :: repeat (EWrite (tmp_of dp) CCorrupt) chunks)
  ++ [EWrite (tmp_of dp) (CJson new); EReplace (tmp_of dp) dp].

Definition crash_at (f : fs) (effects : list effect) (n : nat) : fs :=
  fold_left apply_effect (firstn n effects) f.

(* what a reader sees in a sidecar *)
Definition read_sidecar (f : fs) (dp : string) : option (dict string) :=
  match fs_get f dp with
  | Some (File (CJson d)) => Some d
  | _ => None
  end.
