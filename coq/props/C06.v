From Coq Require Import List String.
Example C06_placeholder : True. Proof. exact I. Qed.
Print Assumptions C06_placeholder.
