"""Shared helpers for the data-layer checks (C15-C18): temp configuration package, alphabets, spec simulator."""
import posixpath
from harness import gen, core

def roots_of(ctx):
    roots = {}
    for pc in ctx['rawd']['path_configs']:
        tpls = dict((k, vv) for k, vv in dict((k, vv) for k, vv in pc[1])['templates'])
        r = posixpath.commonprefix([t.split('{')[0] for t in tpls.values()])
        roots[pc[0]] = r.rstrip('/')
    return roots

def pure_suffix(name):
    i = name.rfind('.')
    return name[i:] if 0 < i < len(name) - 1 else ''

def sidecar_of(p, data_suffix):
    d, name = posixpath.split(p)
    name = '.' + name
    suf = pure_suffix(name)
    stem = name[:-len(suf)] if suf else name
    return d + '/' + stem + data_suffix

def filter_dump(dump, roots):
    return sorted([e for e in dump if any(e[0] == r or e[0].startswith(r + '/') for r in roots.values())])

ALPHABET = {
    'F1': 'hamlet/a/char/x/model/v001/w/ma',
    'F2': 'hamlet/a/char/x/model/v001/w/mb',      # same path up to the extension: shares the sidecar of F1
    'F3': 'hamlet/a/char/x/model/v002/w/ma',      # sibling version
    'F4': 'hamlet/a/char/x/model/v001/p/ma',      # other state: other file name
    'M1': 'hamlet/a/char/x/model/v001/w/mov',     # movie file: other folder
    'D1': 'hamlet/a/char/x/model/v001',           # folder entity, parent of F1
    'D2': 'hamlet/a/char/x/model',
    'D3': 'hamlet/a/char/y',
    'S1': 'hamlet/s/sq001/sh0010/anim/v001/w/n1/abc',
    'S2': 'hamlet/s/sq001/sh0010/anim/v001/w/ma',       # a leaf (shot__file)
    'S3': 'hamlet/s/sq001/sh0010/anim/v001/w/ma/abc',   # a cache node named like an extension: NOT a child of S2
    'N1': 'hamlet/a/char/x/model/v001/w',         # typed, but its type has no path template
    'U1': 'bla/bla',                              # untyped
    'P1': 'hamlet',
    'A1': 'hamlet/a/char/x',                      # asset folder entity (its sidecar lies beside other asset folders)
    'G1': 'hamlet/a/char/x.y/model/v001/w/ma',    # a free value with a dot
    'G2': 'hamlet/a/char/x.y/model/v001/p/ma',    # same folder as G1, other state: another file name, another sidecar
}
