"""Tree <-> wire format shared by the OCaml driver and the harness.  A tree is a str or a list of trees."""

class Unencodable(Exception):
    pass

def enc_str(s):
    try:
        return 'x' + s.encode('latin-1').hex()
    except UnicodeEncodeError:
        raise Unencodable(s)

def enc_tree(t):
    if isinstance(t, str):
        return enc_str(t)
    return '( ' + ' '.join(enc_tree(x) for x in t) + ' )'

def dec_tree(line):
    toks = line.split()
    pos = 0
    def one():
        nonlocal pos
        tok = toks[pos]; pos += 1
        if tok == '(':
            out = []
            while toks[pos] != ')':
                out.append(one())
            pos += 1
            return out
        if tok[0] == 'x':
            return bytes.fromhex(tok[1:]).decode('latin-1')
        raise ValueError('bad token ' + tok)
    return one()

def request_line(op, args):
    return op.encode('latin-1').hex() + ' ' + enc_tree(list(args))

def coq_str(s):
    """Coq term for an 8-bit string."""
    parts = []
    cur = ''
    for ch in s:
        o = ord(ch)
        if o > 255:
            raise Unencodable(s)
        if 32 <= o <= 126:
            cur += '""' if ch == '"' else ch
        else:
            if cur:
                parts.append('"%s"' % cur); cur = ''
            parts.append('chr %d' % o)
    if cur or not parts:
        parts.append('"%s"' % cur)
    if len(parts) == 1 and parts[0].startswith('"'):
        return parts[0]
    return '(' + ' ++ '.join(parts) + ')%string'

def coq_tree(t, indent=0):
    if isinstance(t, str):
        return 'L ' + coq_str(t)
    if not t:
        return 'N []'
    inner = ';\n'.join(' ' * (indent + 2) + coq_tree(x, indent + 2) for x in t)
    return 'N [\n' + inner + ']'
