(** A file system as data: normalised absolute paths -> directory / file with abstract content.
    Models what pathlib / os / glob do for spil's path finder, writer and getter. *)
From Coq Require Import List String Ascii Bool Arith.
From Spil Require Import Base.Str Base.Dict Base.Outcome Base.PyPath.
Import ListNotations.
Local Open Scope string_scope.

Inductive content :=
| CEmpty                                  (* zero bytes *)
| CJson (d : dict string)                 (* a JSON object with string values *)
| CCorrupt.                               (* anything that json.load rejects (truncated text, junk) *)

Inductive node := Dir | File (c : content) | Unreadable.   (* Unreadable: a file whose open() fails *)

Definition fs := list (string * node).

Definition fs_get (f : fs) (p : string) : option node := dget f p.
Definition fs_exists (f : fs) (p : string) : bool := dmem f p.
Definition fs_isdir (f : fs) (p : string) : bool := match fs_get f p with Some Dir => true | _ => false end.

(* posix dirname of a normalised path *)
Definition parent_path (p : string) : string :=
  let parts := split_c "/" p in
  match removelast parts with
  | [] => "."
  | [""] => "/"
  | l => join "/" l
  end.

(* all ancestors, outermost first (for an absolute path: "/a", "/a/b", ...) *)
Fixpoint prefixes_asc (parts : list string) (n : nat) : list string :=
  match n with
  | O => []
  | S n' => (prefixes_asc parts n' ++ [join "/" (firstn n parts)])%list
  end.
Definition ancestors_and_self (p : string) : list string :=
  let parts := split_c "/" p in
  filter (fun x => negb (sempty x)) (prefixes_asc parts (List.length parts)).

Definition fs_add (f : fs) (p : string) (n : node) : fs := dset f p n.

(* Path.mkdir(parents=True): FileExistsError (OSError) if it exists; a missing ancestor chain is created;
   an ancestor that is a file -> NotADirectoryError (OSError) *)
Definition fs_mkdir_parents (f : fs) (p : string) : outcome fs :=
  if fs_exists f p then Raise OSError else
  let anc := ancestors_and_self p in
  if existsb (fun a => match fs_get f a with Some Dir | None => false | Some _ => true end) anc then Raise OSError else
  Ok (fold_left (fun acc a => if fs_exists acc a then acc else fs_add acc a Dir) anc f).

(* _create_parent + touch *)
Definition fs_touch (f : fs) (p : string) : outcome fs :=
  let par := parent_path p in
  do f1 <- (if fs_exists f par then (if fs_isdir f par then Ok f else Raise OSError) else fs_mkdir_parents f par);
  match fs_get f1 p with
  | Some Dir => Raise OSError
  | Some _ => Ok f1
  | None => Ok (fs_add f1 p (File CEmpty))
  end.

(** ** fnmatch / glob (non recursive), component-wise *)

Fixpoint fn_match (fuel : nat) (pat name : string) : bool :=
  match fuel with
  | O => false
  | S f =>
    match pat with
    | "" => sempty name
    | String "*" p' =>
        fn_match f p' name || match name with String _ n' => fn_match f pat n' | "" => false end
    | String "?" p' => match name with String _ n' => fn_match f p' n' | "" => false end
    | String a p' => match name with String b n' => Ascii.eqb a b && fn_match f p' n' | "" => false end
    end
  end.

Definition has_magic (s : string) : bool := mem_c "*" s || mem_c "?" s || mem_c "[" s.
Definition is_hidden (s : string) : bool := match s with String "." _ => true | _ => false end.

Definition comp_match (pat name : string) : bool :=
  if has_magic pat
  then (if is_hidden name && negb (is_hidden pat) then false
        else fn_match (S (String.length pat + String.length name)) pat name)
  else String.eqb pat name.

Fixpoint comps_match (pats names : list string) : bool :=
  match pats, names with
  | [], [] => true
  | p :: ps, n :: ns => comp_match p n && comps_match ps ns
  | _, _ => false
  end.

(* glob.glob(pattern) as a set (sorted by path for determinism); None = a "[" class: outside the model *)
Definition fs_glob (f : fs) (pattern : string) : option (list string) :=
  if mem_c "[" pattern then None else
  let pats := split_c "/" pattern in
  Some (sort_s (filter (fun p => comps_match pats (split_c "/" p)) (dkeys f))).
