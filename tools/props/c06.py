"""C06 a path resolves only to the Sid that owns it, and never makes Sid() fail."""
import posixpath, pathlib
from harness.runner import PropBase, Case
from harness import gen
from props.c05 import C05, PATH_VALUES

class C06(PropBase):
    id = 'C06'
    rule = ('paths of valid Sids (every type with a path, both configurations) mutated by substituting / dropping / duplicating / desynchronising field values, changing every '
            'literal part (each separator character, fixed folders, the extension dot), adding / removing trailing components, newline, switching roots between configurations; '
            'non-trivial = a mutated path derived from a real path; distinct by (path, config)')
    def cases(self, rng, ctx, tier):
        v = gen.vocab_from_ctx(ctx)
        self.c05 = C05()
        n = 40 if tier == 'quick' else 600
        cfgs = [pc[0] for pc in ctx['rawd']['path_configs']]
        out = []
        for t in v.order:
            for _ in range(n):
                s = self.c05.concrete(rng, v, t)
                for cfg in cfgs:
                    out.append(Case('path', [['s', s], cfg, 'pos'], 'base', {'sid': s, 'cfg': cfg}))
                if rng.random() < 0.25:
                    opens = [i for i, (k, e) in enumerate(v.types[t]) if v.alternatives(e) is None]
                    if opens:
                        segs = s.split('/')
                        segs[rng.choice(opens)] = rng.choice(['oph?elia', 'x?task=rig', 'a:b', 'a#b', 'x y', 'a,b', '*x'])
                        fields = [[k, g] for (k, e), g in zip(v.types[t], segs)]
                        for cfg in cfgs:
                            out.append(Case('path', [['f', fields], cfg, 'pos'], 'base', {'sid': '/'.join(segs), 'cfg': cfg}))
        return out
    def mutate(self, rng, p, other_root_pair):
        parts = p.split('/')
        r = rng.random()
        if r < 0.2:
            # desynchronise: change one occurrence of a value that occurs at least twice
            toks = set()
            for comp in parts[-3:]:
                for tok in comp.replace('.', '_').split('_'):
                    if tok and p.count(tok) >= 2:
                        toks.add(tok)
            if toks:
                tok = rng.choice(sorted(toks))
                idxs = [i for i in range(len(p)) if p.startswith(tok, i)]
                i = rng.choice(idxs)
                return p[:i] + rng.choice(PATH_VALUES + ['zz']) + p[i + len(tok):]
        if r < 0.4:
            # change one literal / separator character anywhere in the last three components
            i = rng.randrange(max(0, len(p) - 60), len(p))
            return p[:i] + rng.choice('_.-/X ') + p[i + 1:]
        if r < 0.5:
            i = rng.randrange(len(parts)); parts[i] = rng.choice(PATH_VALUES + ['oph?elia', 'x?task=rig', 'a:b', '..', 'a#b', 'x y']); return '/'.join(parts)
        if r < 0.58:
            i = rng.randrange(1, len(parts)); del parts[i]; return '/'.join(parts)
        if r < 0.66:
            i = rng.randrange(1, len(parts)); parts.insert(i, parts[i]); return '/'.join(parts)
        if r < 0.74:
            return p + rng.choice(['/', '\n', '/x', '.bak', ' ', '/.', '//'])
        if r < 0.8:
            return '/'.join(parts[:-1])
        if r < 0.9 and other_root_pair:
            a, b = other_root_pair
            return p.replace(a, b, 1) if p.startswith(a) else p
        if r < 0.95:
            return p.replace('/', '//', 1) if rng.random() < 0.5 else p.replace('/PROD/', '/prod/')
        return p.upper() if rng.random() < 0.5 else p[:-1]
    def phase2(self, rng, ctx, cases, impl_out, tier):
        more = []
        cfgs = [pc[0] for pc in ctx['rawd']['path_configs']]
        roots = {}
        for pc in ctx['rawd']['path_configs']:
            tpls = dict((k, v) for k, v in dict((k, v) for k, v in pc[1])['templates'])
            roots[pc[0]] = posixpath.commonprefix([t.split('{')[0] for t in tpls.values()])
        k = 3 if tier == 'quick' else 6
        for c, o in zip(cases, impl_out):
            if c.op == 'path' and o[0] == 'ok' and o[1]:
                p = o[1][0]
                cfg = c.meta['cfg']
                others = [x for x in cfgs if x != cfg]
                pair = (roots[cfg], roots[others[0]]) if others else None
                more.append(Case('path_owner', [p, cfg], 'valid', {'orig': p}))
                if others:
                    more.append(Case('path_owner', [p, others[0]], 'wrong-config', {'orig': p}))
                for _ in range(k):
                    q = self.mutate(rng, p, pair)
                    more.append(Case('path_owner', [q, rng.choice(cfgs + [cfg, ''])], 'mutated', {'orig': p}))
        for _ in range(50):
            more.append(Case('path_owner', [gen.junk_string(rng), rng.choice(cfgs + [''])], 'junk', {}))
        more.append(Case('path_owner', ['', ''], 'junk', {}))
        return more
    def oracle(self, case, impl, ctx):
        if case.op != 'path_owner':
            return None
        p, cfg = case.args
        if impl[0] != 'ok':
            return 'Sid(path=%r, config=%r) raised %r' % (p, cfg, impl)
        sid, owner = impl[1]
        if sid[1]:   # typed
            if not owner:
                return 'Sid(path=%r) is typed %r but has no path' % (p, sid)
            if pathlib.PurePosixPath(owner[0]) != pathlib.PurePosixPath(p):
                return 'Sid(path=%r, config=%r) = %r whose path is %r' % (p, cfg, sid, owner[0])
        else:
            if sid != ['', '', []]:
                return 'untyped result is not the empty Sid: %r' % (sid,)
        if case.stream == 'valid' and not sid[1]:
            return 'the path of a valid Sid does not resolve: %r' % p
        return None
    def nontrivial(self, case, impl):
        return [case.args] if case.op == 'path_owner' and case.stream in ('mutated', 'valid', 'wrong-config') else None
    def histogram_key(self, case, impl):
        if case.op != 'path_owner':
            return case.stream
        try:
            return '%s:%s' % (case.stream, 'typed' if impl[1][0][1] else 'untyped')
        except Exception:
            return case.stream + ':raise'

PROP = C06()
