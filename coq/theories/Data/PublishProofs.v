(** C18: "get_new('version') is the successor of the last existing version, which does not exist yet; ... the empty
    Sid instead of an invalid one (beyond the last representable version); publishing get_new repeatedly yields
    strictly increasing, never reused versions" as theorems over a data set.
    Definitions and guards: Data/PublishDefs.v; lemmas: Data/PublishLemmas.v; instances: gen/PublishExamples.v. *)
From Coq Require Import List String Ascii Bool Arith Lia.
From Spil Require Import Base.Str Base.Dict Base.Outcome Base.PyPath Base.StrProofs Base.SplitProofs Regex.Re
  Resolva.Template Resolva.Resolver Conf.ConfUtil Conf.Conf Conf.WF Conf.Routing Sid.Query Sid.Sid Sid.TypingSpec
  Sid.SidLemmas Sid.SidProofs Path.UnambiguousDefs FS.Fs
  Search.Unfold Search.FindList Search.Finders Search.TreeListDefs Search.TreeListProofs Search.TreePattern
  Search.ConstantsLemmas
  Data.Data Data.VersionProofs Data.VersionOrderProofs Data.SidLevelDefs Data.SidLevelProofs Data.SidLevelLast
  Data.CreateDefs Data.CreateFs Data.CreateProofs Data.PublishDefs Data.PublishLemmas Driver.DispatchFs.
Import ListNotations.
Local Open Scope string_scope.
Local Open Scope list_scope.

(** * The guard, unpacked *)

Lemma plain_memberb_sound e : plain_memberb e = true -> plain_member e.
Proof.
  unfold plain_memberb, plain_member. intros H. apply andb_true_iff in H. destruct H as (H1 & H2).
  apply negb_true_iff in H1. apply negb_true_iff in H2. split; assumption.
Qed.

Lemma is_gnext_sound g : is_gnext g = true -> g = GNext.
Proof. destruct g; try discriminate. reflexivity. Qed.

Section Guard.
Variables (c : Conf) (Ld : Loaded).
Hypothesis Hload : load c = Some Ld.
Hypothesis Hwf : wf_loadedb Ld = true.

(* what [chain_guardb] says, with the segments of x before and after the version *)
Record chain_facts (Rt : Routing) (id cfg : string) (x : sid) (pre : list string) (v : string) (post : list string)
    (q0 : sid) (qs : list sid) : Prop := {
  cf_last : last_guardb Ld Rt id cfg x "version" = true;
  cf_ctx : vctx Ld x pre v post;
  cf_pre : exists i, key_index x "version" = Some i /\ pre = firstn i (split_c "/" (s_string x)) /\
                     post = skipn (S i) (split_c "/" (s_string x));
  cf_plain : plain_member x;
  cf_next : getter_for Rt (s_type x) true = GNext;
  cf_truthy : truthy v = true;
  cf_q0 : get_with_kw Ld x [("version", Some ">")] = Ok q0;
  cf_qs : unfold_search Ld (s_string q0) false false = Ok qs;
  cf_types : forall q, In q qs -> exists q', starred Ld q = Ok q' /\ s_type q' = s_type x;
  cf_ne : qs <> []
}.

Lemma chain_guard_inv Rt id cfg x : chain_guardb Ld Rt id cfg x = true ->
  exists pre v post q0 qs, chain_facts Rt id cfg x pre v post q0 qs.
Proof.
  unfold chain_guardb. intros H.
  apply andb_true_iff in H. destruct H as (H & H7). apply andb_true_iff in H. destruct H as (H & H6).
  apply andb_true_iff in H. destruct H as (H & H5). apply andb_true_iff in H. destruct H as (H & H4).
  apply andb_true_iff in H. destruct H as (H & H3). apply andb_true_iff in H. destruct H as (H1 & H2).
  pose proof (nat_typedb_sound Ld x H2) as Hnat. apply negb_true_iff in H4.
  destruct (get_with_kw Ld x [("version", Some ">")]) as [q0|] eqn:Eq0; [|discriminate].
  destruct (unfold_search Ld (s_string q0) false false) as [qs|] eqn:Eqs; [|discriminate].
  destruct (sid_get x "version") as [v|] eqn:Ev; [|discriminate].
  (* the index of the key *)
  pose proof H1 as Hl. unfold last_guardb in Hl. apply andb_true_iff in Hl. destruct Hl as (_ & Hl).
  destruct (key_index x "version") as [i|] eqn:Ei; [|discriminate]. rewrite Eq0 in Hl. cbv zeta in Hl.
  apply andb_true_iff in Hl. destruct Hl as (_ & Hl). rewrite Eqs in Hl.
  apply andb_true_iff in Hl. destruct Hl as (Hl & _). apply andb_true_iff in Hl. destruct Hl as (_ & Hl).
  assert (Hne : qs <> []) by (destruct qs; [discriminate | discriminate]).
  pose proof (index_of_nth _ _ _ Ei) as Hk.
  destruct (typed_parts c Ld Hload Hwf x (nat_typed_search c Ld Hload Hwf x Hnat))
    as (ts & _ & _ & _ & _ & Hsnd & _ & _ & Hnd & _).
  assert (Hlen : i < List.length (split_c "/" (s_string x))).
  { rewrite <- Hsnd, map_length, <- (map_length fst). apply nth_error_Some. rewrite Hk. discriminate. }
  destruct (nth_error (split_c "/" (s_string x)) i) as [v'|] eqn:Ev'; [|apply nth_error_None in Ev'; lia].
  destruct (nth_error_split _ _ _ Ev') as (Hsplit & Hli).
  set (pre := firstn i (split_c "/" (s_string x))) in *. set (post := skipn (S i) (split_c "/" (s_string x))) in *.
  assert (Hctx : vctx Ld x pre v' post).
  { split; [exact Hnat|]. split; [exact Hsplit|]. split; [rewrite Hli; exact Hk | exact H4]. }
  destruct (vctx_fields c Ld Hload Hwf x pre v' post Hctx) as (_ & _ & Hget & _).
  rewrite Ev in Hget. inversion Hget; subst v'.
  exists pre, v, post, q0, qs. constructor; try assumption.
  - exists i. split; [exact Ei | split; reflexivity].
  - exact (plain_memberb_sound x H3).
  - exact (is_gnext_sound _ H5).
  - intros q Hq. unfold types_okb in H7. rewrite forallb_forall in H7. specialize (H7 q Hq).
    destruct (starred Ld q) as [q'|]; [|discriminate]. exists q'. split; [reflexivity|].
    apply String.eqb_eq. exact H7.
Qed.

End Guard.

(** * 1. get_new over a data set *)

Section Spec.
Variables (c : Conf) (Ld : Loaded).
Hypothesis Hload : load c = Some Ld.
Hypothesis Hwf : wf_loadedb Ld = true.
Hypothesis Hpu : paths_unambiguousb Ld = true.
Hypothesis Hver : version_conf Ld.
Variables (Rt : Routing) (id cfg : string).
Variable x : sid.
Variables (pre : list string) (v : string) (post : list string) (q0 : sid) (qs : list sid).
Hypothesis Hcf : chain_facts Ld Rt id cfg x pre v post q0 qs.

Let Hctx : vctx Ld x pre v post := cf_ctx _ _ _ _ _ _ _ _ _ _ Hcf.

Lemma x_bool : sid_bool x = true.
Proof. exact (proj2 (proj2 (proj2 (proj2 (vctx_fields c Ld Hload Hwf x pre v post Hctx))))). Qed.

(* get_last(version) does not see the version of the Sid it starts from *)
Lemma get_last_vsid F a : get_last Ld Rt F (vsid x a) (Some "version") = get_last Ld Rt F x (Some "version").
Proof.
  unfold get_last. pose proof x_bool as Hb. pose proof (vsid_bool x a) as Hb'. unfold sid_bool in Hb, Hb'.
  destruct (s_fields x) as [|kv d] eqn:Ex; [discriminate|]. destruct (s_fields (vsid x a)) as [|kv' d'] eqn:Ev; [discriminate|].
  cbn [sempty]. unfold get_with_kv. rewrite (kw_vsid Ld x a ">" x_bool). reflexivity.
Qed.

Section Data.
Variable E : list sid.
Variable F : fs.
Hypothesis HD : dataset_ok Ld cfg E F.
Hypothesis Hplain : forall e, In e E -> plain_member e.

(* the candidates of the ">" search: the members of the data set that are x with another version *)
Lemma candidate_iff e : last_candidate Ld E qs pre post e <-> In e E /\ exists w, e = vsid x w.
Proof.
  pose proof Hctx as (Hnat & Hsegs & Hk & Hnl).
  destruct (typed_parts c Ld Hload Hwf x (nat_typed_search c Ld Hload Hwf x Hnat))
    as (tsx & _ & _ & Hfx & Hfstx & _).
  split.
  - intros (He & (w & Hw) & q & q' & Hq & Eq & Hty). split; [exact He|]. exists w.
    destruct (cf_types _ _ _ _ _ _ _ _ _ _ Hcf q Hq) as (q2 & Eq2 & Hty2). rewrite Eq in Eq2. inversion Eq2; subst q2.
    rewrite Hty2 in Hty.
    destruct (typed_parts c Ld Hload Hwf e (nat_typed_search c Ld Hload Hwf e (ds_nat _ _ _ _ HD e He)))
      as (tse & _ & _ & Hfe & Hfste & Hsnde & Hstre & _).
    rewrite Hty, Hfx in Hfe. inversion Hfe; subst tse.
    destruct (vsid_parts c Ld Hload Hwf x pre v post w Hctx) as (P1 & P2 & P3).
    assert (Ef : s_fields e = s_fields (vsid x w)).
    { apply fst_snd_eq; [rewrite P1, Hfste, Hfstx; reflexivity | rewrite P2, Hsnde, Hw; reflexivity]. }
    destruct e as [s t d]. cbn [s_string s_type s_fields] in *. unfold vsid in *. cbn [s_string s_type s_fields] in *.
    rewrite <- Ef, Hty. f_equal. exact Hstre.
  - intros (He & w & ->). split; [exact He|]. split.
    + exists w.
      destruct (typed_parts c Ld Hload Hwf _ (nat_typed_search c Ld Hload Hwf _ (ds_nat _ _ _ _ HD _ He)))
        as (tse & _ & _ & _ & _ & Hsnde & _).
      destruct (vsid_parts c Ld Hload Hwf x pre v post w Hctx) as (_ & P2 & _). rewrite <- Hsnde. exact P2.
    + pose proof (cf_ne _ _ _ _ _ _ _ _ _ _ Hcf) as Hne. destruct qs as [|q1 rest] eqn:Eqs; [congruence|].
      destruct (cf_types _ _ _ _ _ _ _ _ _ _ Hcf q1 (or_introl eq_refl)) as (q' & Eq & Hty).
      exists q1, q'. split; [left; reflexivity|]. split; [exact Eq|]. rewrite Hty. reflexivity.
Qed.

(** get_last(version) over the chain of x: the empty Sid when x has no version in the data set,
    else x with the greatest version *)
Lemma get_last_chain n lst : chain_top E x n -> get_last Ld Rt F x (Some "version") = Ok lst ->
  (lst = empty_sid /\ n = 0 /\ forall w, ~ In (vsid x w) E) \/ (lst = vsid x (vname n) /\ In lst E).
Proof.
  intros (Hn & Hall & Htop) H.
  destruct (get_last_greatestb c Ld Hload Hwf Hpu cfg E F HD Rt id x "version" lst
              (cf_last _ _ _ _ _ _ _ _ _ _ Hcf) Hplain H) as (i & q0' & qs' & Ei & Eq0 & Eqs & Hcases).
  destruct (cf_pre _ _ _ _ _ _ _ _ _ _ Hcf) as (i' & Ei' & Epre & Epost). rewrite Ei in Ei'. inversion Ei'; subst i'.
  rewrite (cf_q0 _ _ _ _ _ _ _ _ _ _ Hcf) in Eq0. inversion Eq0; subst q0'.
  rewrite (cf_qs _ _ _ _ _ _ _ _ _ _ Hcf) in Eqs. inversion Eqs; subst qs'.
  cbv zeta in Hcases. rewrite <- Epre, <- Epost in Hcases.
  destruct Hcases as [(Hy & Hnone) | (Hc & wy & Hwy & Hget & Hmax)].
  - left. split; [exact Hy|].
    assert (Hno : forall w, ~ In (vsid x w) E).
    { intros w Hw. apply (Hnone (vsid x w)). apply candidate_iff. split; [exact Hw | exists w; reflexivity]. }
    split; [|exact Hno]. destruct Htop as [Ht | Ht]; [destruct (Hno _ Ht) | exact Ht].
  - right. destruct (proj1 (candidate_iff lst) Hc) as (He & w & ->). split; [|exact He].
    rewrite vsid_version in Hget. inversion Hget; subst wy.
    destruct (Hall w He) as (m & Hm & ->). f_equal. f_equal.
    destruct Htop as [Ht | Ht]; [|lia].
    assert (Hcn : last_candidate Ld E qs pre post (vsid x (vname n))).
    { apply candidate_iff. split; [exact Ht | exists (vname n); reflexivity]. }
    pose proof Hcn as (_ & (w' & Hw') & _).
    assert (w' = vname n).
    { destruct (typed_parts c Ld Hload Hwf _ (nat_typed_search c Ld Hload Hwf _ (ds_nat _ _ _ _ HD _ Ht)))
        as (tse & _ & _ & _ & _ & Hsnde & _).
      destruct (vsid_parts c Ld Hload Hwf x pre v post (vname n) Hctx) as (_ & P2 & _).
      rewrite <- Hsnde, P2 in Hw'. apply app_inv_head in Hw'. inversion Hw'. reflexivity. }
    subst w'. specialize (Hmax _ _ Hcn Hw'). rewrite (vname_ltb m n) in Hmax by lia.
    apply Nat.ltb_ge in Hmax. lia.
Qed.

(* the NextGetter on x with the version vname m (m the number it reads) *)
Lemma vname_plain m : mem_c "/" (vname m) = false /\ mem_c "010" (vname m) = false /\ mem_c "?" (vname m) = false /\
  mem_c ":" (vname m) = false.
Proof. repeat split; apply vname_chars; reflexivity. Qed.

Lemma request_vsid a m : request_version Ld (vsid x a) (S m) =
  Ok (if Nat.ltb (S m) 1000 then vsid x (vname (S m)) else empty_sid).
Proof.
  unfold request_version. rewrite (kw_vsid Ld x a _ x_bool). destruct (vname_plain (S m)) as (V1 & V2 & _).
  fold (vname (S m)). destruct (Nat.ltb_spec (S m) 1000) as [Hm|Hm].
  - destruct (kw_version_ok c Ld Hload Hwf Hver x pre v post (vname (S m)) Hctx) as (Hk & _);
      [right; right; exists (S m); split; [exact Hm | reflexivity] | exact V1 | exact V2|].
    rewrite Hk. cbn [bind]. rewrite vsid_bool. reflexivity.
  - rewrite (kw_version_no c Ld Hload Hwf Hver x pre v post (vname (S m)) Hctx); [reflexivity | | exact V1 | exact V2 | apply vname_ne].
    intros [Hs | [Hs | (k & Hk & Hs)]]; [exact (proj1 (vname_not_star _) Hs) | exact (proj2 (vname_not_star _) Hs)|].
    apply vname_inj in Hs. lia.
Qed.

(* typed, and read back by the factory *)
Lemma vsid_factory w : version_value w -> mem_c "/" w = false -> mem_c "010" w = false -> mem_c "?" w = false ->
  sid_factory Ld (FromSid (vsid x w)) = Ok (vsid x w).
Proof.
  intros Hv W1 W2 W3. destruct (kw_version_ok c Ld Hload Hwf Hver x pre v post w Hctx Hv W1 W2) as (_ & Ht).
  apply (ts_roundtrip c Ld Hload Hwf _ Ht).
  exact (vsid_mem c Ld Hload Hwf x pre v post w "?" Hctx eq_refl (proj1 (cf_plain _ _ _ _ _ _ _ _ _ _ Hcf)) W3).
Qed.

(** get_new(version) over the chain of x *)
Theorem get_new_top n y : chain_top E x n -> get_new Ld Rt F x "version" = Ok y ->
  y = if Nat.ltb (S n) 1000 then vsid x (vname (S n)) else empty_sid.
Proof.
  intros Htop H. pose proof Htop as (Hn & _).
  destruct (vctx_fields c Ld Hload Hwf x pre v post Hctx) as (_ & _ & Hget & _).
  unfold get_new in H. rewrite Hget, (cf_truthy _ _ _ _ _ _ _ _ _ _ Hcf) in H.
  destruct (get_last Ld Rt F x (Some "version")) as [lst|ex] eqn:El; cbn [bind] in H; [|discriminate].
  assert (Hnext : forall a, get_next Ld Rt F (vsid x a) "version" = next_version Ld Rt F (vsid x a)).
  { intros a. unfold get_next. change (s_type (vsid x a)) with (s_type x). rewrite (cf_next _ _ _ _ _ _ _ _ _ _ Hcf).
    reflexivity. }
  destruct (get_last_chain n lst Htop El) as [(-> & -> & Hno) | (-> & He)].
  - (* no version yet: from the Sid with the version "*" *)
    change (sid_bool empty_sid) with false in H. cbv iota in H. unfold get_with_kv in H.
    destruct (kw_version_ok c Ld Hload Hwf Hver x pre v post "*" Hctx) as (Hk & _);
      [left; reflexivity | reflexivity | reflexivity|].
    rewrite Hk in H. cbn [bind] in H. rewrite Hnext in H. unfold next_version in H.
    rewrite (vsid_factory "*") in H by (try reflexivity; left; reflexivity). cbn [bind] in H.
    rewrite vsid_version in H. change (truthy "*") with true in H. cbv iota in H.
    change (String.eqb "*" "*" || String.eqb "*" ">") with true in H. cbv iota in H.
    rewrite get_last_vsid, El in H. cbn [bind] in H.
    change (sid_get empty_sid "version") with (@None string) in H. cbv iota zeta in H.
    change (last_v_part "v000") with "000" in H. change (sempty "000") with false in H. cbv iota in H. cbn [bind] in H.
    change (py_int "000") with (Some 0) in H. cbv iota in H.
    fold (request_version Ld (vsid x "*") 1) in H. rewrite request_vsid in H. cbn [bind] in H.
    change (Nat.ltb 1 1000) with true in H. cbv iota in H. unfold or_empty in H. rewrite vsid_bool in H.
    inversion H. reflexivity.
  - (* the successor of the greatest version *)
    rewrite vsid_bool in H. cbn [bind] in H. rewrite Hnext in H.
    destruct (vname_plain n) as (V1 & V2 & V3 & _).
    assert (Hv : version_value (vname n)) by (right; right; exists n; split; [exact Hn | reflexivity]).
    rewrite (next_version_concrete Ld Rt F _ _ n (vsid_factory (vname n) Hv V1 V2 V3) (vsid_version x (vname n))) in H.
    rewrite request_vsid in H. cbn [bind] in H. unfold or_empty in H.
    destruct (Nat.ltb (S n) 1000); [rewrite vsid_bool in H|]; inversion H; reflexivity.
Qed.

(* ... which does not exist yet *)
Corollary get_new_fresh n : chain_top E x n -> ~ In (vsid x (vname (S n))) E.
Proof.
  intros (_ & Hall & _) Hin. destruct (Hall _ Hin) as (m & Hm & Hs). apply vname_inj in Hs. lia.
Qed.

End Data.
End Spec.

(** ** get_new_spec: the statement with the guard as one boolean *)

Section SpecB.
Variables (c : Conf) (Ld : Loaded).
Hypothesis Hload : load c = Some Ld.
Hypothesis Hwf : wf_loadedb Ld = true.
Hypothesis Hpu : paths_unambiguousb Ld = true.
Hypothesis Hver : version_conf Ld.
Variables (Rt : Routing) (id cfg : string).
Variable E : list sid.
Variable F : fs.
Hypothesis HD : dataset_ok Ld cfg E F.
Hypothesis Hplain : forall e, In e E -> plain_member e.
Variable x : sid.
Hypothesis Hg : chain_guardb Ld Rt id cfg x = true.

(* x with another version: what it is *)
Lemma vsid_spec w : agree_but "version" x (vsid x w) /\ sid_get (vsid x w) "version" = Some w /\
  s_type (vsid x w) = s_type x /\
  (version_value w -> mem_c "/" w = false -> mem_c "010" w = false -> typed_search Ld (vsid x w)).
Proof.
  split; [intros k Hk; exact (vsid_other x w k Hk)|]. split; [apply vsid_version|]. split; [reflexivity|].
  intros Hv W1 W2. destruct (chain_guard_inv c Ld Hload Hwf Rt id cfg x Hg) as (pre & v & post & q0 & qs & Hcf).
  exact (proj2 (kw_version_ok c Ld Hload Hwf Hver x pre v post w (cf_ctx _ _ _ _ _ _ _ _ _ _ Hcf) Hv W1 W2)).
Qed.

(* "some member agrees with x off the version and has the version w"  =  "x with the version w is a member" *)
Lemma chain_member_iff w :
  (exists e, In e E /\ s_type e = s_type x /\ agree_but "version" x e /\ sid_get e "version" = Some w) <->
  In (vsid x w) E.
Proof.
  destruct (chain_guard_inv c Ld Hload Hwf Rt id cfg x Hg) as (pre & v & post & q0 & qs & Hcf).
  pose proof (cf_ctx _ _ _ _ _ _ _ _ _ _ Hcf) as Hctx. pose proof Hctx as (Hnat & Hsegs & Hk & _). split.
  - intros (e & He & Hty & Hag & Hget).
    pose proof (proj2 (segments_iff_agree c Ld Hload Hwf x e "version" pre v post
                  (nat_typed_search c Ld Hload Hwf x Hnat)
                  (nat_typed_search c Ld Hload Hwf e (ds_nat _ _ _ _ HD e He)) Hty Hsegs Hk) Hag) as Hw.
    assert (Hc : last_candidate Ld E qs pre post e).
    { split; [exact He|]. split; [exact Hw|].
      pose proof (cf_ne _ _ _ _ _ _ _ _ _ _ Hcf) as Hne. destruct qs as [|q1 rest] eqn:Eqs; [congruence|].
      destruct (cf_types _ _ _ _ _ _ _ _ _ _ Hcf q1 (or_introl eq_refl)) as (q' & Eq & Hty').
      exists q1, q'. split; [left; reflexivity|]. split; [exact Eq | congruence]. }
    destruct (proj1 (candidate_iff c Ld Hload Hwf Rt id cfg x pre v post q0 qs Hcf E F HD e) Hc) as (_ & w' & ->).
    rewrite vsid_version in Hget. inversion Hget; subst w'. exact He.
  - intros Hin. exists (vsid x w). split; [exact Hin|]. destruct (vsid_spec w) as (S1 & S2 & S3 & _).
    repeat split; assumption.
Qed.

(** C18, get_new: over a data set in which the versions of x are "v" + 3 digits,
    - no version of x exists: x with the first version "v001";
    - the greatest existing version is [vname n]: x with [vname (n+1)] (every other field and the type unchanged),
      which is not in the data set; the empty Sid when n + 1 is beyond the last representable version 999 *)
Theorem get_new_spec y :
  (forall w, In (vsid x w) E -> exists m, m < 1000 /\ w = vname m) ->
  get_new Ld Rt F x "version" = Ok y ->
  ((forall w, ~ In (vsid x w) E) -> y = vsid x (vname 1) /\ ~ In y E) /\
  (forall n, In (vsid x (vname n)) E -> n < 1000 ->
     (forall m, m < 1000 -> In (vsid x (vname m)) E -> m <= n) ->
     (n + 1 < 1000 -> y = vsid x (vname (n + 1)) /\ ~ In y E) /\
     (1000 <= n + 1 -> y = empty_sid)).
Proof.
  intros HEv H. destruct (chain_guard_inv c Ld Hload Hwf Rt id cfg x Hg) as (pre & v & post & q0 & qs & Hcf).
  split.
  - intros Hno. assert (Htop : chain_top E x 0).
    { split; [lia|]. split; [intros w Hw; destruct (Hno w Hw) | right; reflexivity]. }
    rewrite (get_new_top c Ld Hload Hwf Hpu Hver Rt id cfg x pre v post q0 qs Hcf E F HD Hplain 0 y Htop H).
    change (Nat.ltb 1 1000) with true. cbv iota. split; [reflexivity | apply Hno].
  - intros n Hin Hn Hmax. assert (Htop : chain_top E x n).
    { split; [exact Hn|]. split; [|left; exact Hin]. intros w Hw. destruct (HEv w Hw) as (m & Hm & ->).
      exists m. split; [exact (Hmax m Hm Hw) | reflexivity]. }
    pose proof (get_new_top c Ld Hload Hwf Hpu Hver Rt id cfg x pre v post q0 qs Hcf E F HD Hplain n y Htop H) as Hy.
    replace (n + 1) with (S n) by lia. split.
    + intros Hlt. apply Nat.ltb_lt in Hlt. rewrite Hlt in Hy. subst y. split; [reflexivity|].
      exact (get_new_fresh x E n Htop).
    + intros Hge. apply Nat.ltb_ge in Hge. rewrite Hge in Hy. exact Hy.
Qed.

End SpecB.

Print Assumptions get_new_spec.

(** * 2. One publishing step: create(get_new(version)) *)

(* what a creation adds: the Sid, and prefix Sids of it *)
Lemma added_inv c Ld (Hload : load c = Some Ld) (Hwf : wf_loadedb Ld = true) cfg y e :
  create_guardb Ld cfg y = true -> mem_c "010" (s_string y) = false -> In e (added Ld cfg y) ->
  e = y \/ exists i, s_fields e = firstn i (s_fields y) /\
                     s_string e = join "/" (firstn i (split_c "/" (s_string y))).
Proof.
  intros Hg Hnl He. apply (added_char Ld cfg y e Hg) in He. destruct He as [-> | (k & pe & Hk & Hpe)]; [left; reflexivity|].
  right. pose proof (get_as_path_key Ld cfg y k e pe Hk Hpe) as Hin. unfold dkeys in Hin.
  destruct (In_nth _ _ "" Hin) as (j & Hj & Hnth). rewrite map_length in Hj.
  destruct (create_guardb_inv Ld cfg y Hg) as (_ & _ & Hnat & _).
  destruct (get_as_prefix c Ld Hload Hwf y (S j) Hnat Hnl) as (y' & Hy' & Hf & Hs & _); [lia|].
  replace (S j - 1) with j in Hy' by lia. rewrite Hnth, Hk in Hy'. inversion Hy'; subst y'.
  exists (S j). split; assumption.
Qed.

Section Step.
Variables (c : Conf) (Ld : Loaded).
Hypothesis Hload : load c = Some Ld.
Hypothesis Hwf : wf_loadedb Ld = true.
Hypothesis Hpu : paths_unambiguousb Ld = true.
Hypothesis Hver : version_conf Ld.
Variables (Rt : Routing) (id cfg0 : string).
Let cfg := default_cfg Ld cfg0.
Hypothesis Htouch : rt_touch Rt = true.
Variable x : sid.
Variables (pre : list string) (v : string) (post : list string) (q0 : sid) (qs : list sid).
Hypothesis Hcf : chain_facts Ld Rt id cfg x pre v post q0 qs.

Let Hctx : vctx Ld x pre v post := cf_ctx _ _ _ _ _ _ _ _ _ _ Hcf.

(* x with the version vname m: typed, plain, read back from its uri *)
Lemma vsid_vname_facts m : m < 1000 ->
  typed_search Ld (vsid x (vname m)) /\ plain_member (vsid x (vname m)) /\
  mem_c "010" (s_string (vsid x (vname m))) = false /\ Sid Ld (uri (vsid x (vname m))) = Ok (vsid x (vname m)).
Proof.
  intros Hm. destruct (vname_plain m) as (V1 & V2 & V3 & V4).
  assert (Hv : version_value (vname m)) by (right; right; exists m; split; [exact Hm | reflexivity]).
  destruct (kw_version_ok c Ld Hload Hwf Hver x pre v post (vname m) Hctx Hv V1 V2) as (_ & Ht).
  destruct (cf_plain _ _ _ _ _ _ _ _ _ _ Hcf) as (X1 & X2). pose proof Hctx as (_ & _ & _ & X3).
  assert (P1 : mem_c "?" (s_string (vsid x (vname m))) = false)
    by exact (vsid_mem c Ld Hload Hwf x pre v post _ "?" Hctx eq_refl X1 V3).
  split; [exact Ht|]. split; [split; [exact P1|]|split].
  - exact (vsid_mem c Ld Hload Hwf x pre v post _ ":" Hctx eq_refl X2 V4).
  - exact (vsid_mem c Ld Hload Hwf x pre v post _ "010" Hctx eq_refl X3 V2).
  - exact (proj2 (ts_roundtrip c Ld Hload Hwf _ Ht P1)).
Qed.

(** create() of the Sid that get_new returned: it is created, the data set grows by it (and the prefix Sids of it
    that have a path), and it is now the greatest version of x *)
Theorem publish_step E F n F' b :
  dataset_ok Ld cfg E F -> fs_inv F -> (forall e, In e E -> plain_member e) -> chain_top E x n -> S n < 1000 ->
  create_guardb Ld cfg (vsid x (vname (S n))) = true ->
  w_create Ld Rt F cfg0 (uri (vsid x (vname (S n)))) [] = Ok (F', b) ->
  b = true /\
  let E' := E ++ added Ld cfg (vsid x (vname (S n))) in
  dataset_ok Ld cfg E' F' /\ fs_inv F' /\ (forall e, In e E' -> plain_member e) /\ chain_top E' x (S n) /\
  In (vsid x (vname (S n))) E' /\ ~ In (vsid x (vname (S n))) E.
Proof.
  intros HD Hinv Hplain Htop Hn Hg Hw. set (y := vsid x (vname (S n))) in *.
  destruct (vsid_vname_facts (S n) Hn) as (Hty & Hpl & Hnl & Hs). fold y in Hty, Hpl, Hnl, Hs.
  destruct (w_create_ok_inv Ld Rt F cfg0 _ F' b Hw) as (y' & p & Hs' & Hp & Hex & _ & _).
  rewrite Hs in Hs'. inversion Hs'; subst y'. fold cfg in Hp.
  destruct (create_guardb_inv Ld cfg y Hg) as (p' & Hp' & _ & _ & _ & Habs & _).
  rewrite Hp in Hp'. inversion Hp'; subst p'.
  assert (Hb : b = true).
  { destruct (create_new Ld Rt F cfg0 _ y p Hs Hp Habs Htouch Hex) as [(F'' & _ & Hw') | (_ & Hw')];
      rewrite Hw in Hw'; inversion Hw'. reflexivity. }
  split; [exact Hb|]. subst b. cbv zeta.
  destruct (create_step_ok c Ld Hload Hwf Hpu Rt cfg0 E F F' _ y HD Hinv Hw Hs Hg) as (HD' & Hinv'). fold cfg in HD'.
  split; [exact HD'|]. split; [exact Hinv'|].
  assert (Hy : In y (added Ld cfg y)) by (unfold added; rewrite Hp; left; reflexivity).
  assert (Hfresh : ~ In y E) by exact (get_new_fresh x E n Htop).
  split; [|split; [|split; [apply in_or_app; right; exact Hy | exact Hfresh]]].
  - (* the new members are plain *)
    intros e He. apply in_app_or in He. destruct He as [He | He]; [exact (Hplain e He)|].
    destruct (added_inv c Ld Hload Hwf cfg y e Hg Hnl He) as [-> | (i & _ & Hstr)]; [exact Hpl|].
    destruct Hpl as (Y1 & Y2). unfold plain_member. rewrite Hstr. split.
    + apply mem_c_join; [reflexivity|]. apply Forall_firstn. apply mem_c_split. exact Y1.
    + apply mem_c_join; [reflexivity|]. apply Forall_firstn. apply mem_c_split. exact Y2.
  - (* the chain *)
    destruct Htop as (_ & Hall & _). split; [exact Hn|]. split; [|left; apply in_or_app; right; exact Hy].
    intros w Hw'. apply in_app_or in Hw'. destruct Hw' as [Hw' | Hw'].
    + destruct (Hall w Hw') as (m & Hm & ->). exists m. split; [lia | reflexivity].
    + exists (S n). split; [lia|].
      destruct (added_inv c Ld Hload Hwf cfg y _ Hg Hnl Hw') as [E1 | (i & Hf & _)].
      * exact (vsid_inj x _ _ E1).
      * pose proof (vsid_version x w) as G. unfold sid_get in G. rewrite Hf in G. apply dget_firstn in G.
        fold (sid_get y "version") in G. unfold y in G. rewrite vsid_version in G. inversion G. reflexivity.
Qed.

End Step.

Print Assumptions publish_step.

(** * 3. Publishing chains: create(get_new(version)) repeated *)

Lemma published_0 x n : published x n 0 = [].
Proof. reflexivity. Qed.

Lemma published_S x n j : published x n (S j) = vsid x (vname (S n)) :: published x (S n) j.
Proof.
  unfold published. cbn [seq map]. f_equal; [f_equal; f_equal; lia|].
  rewrite <- seq_shift, map_map. apply map_ext. intros i. f_equal. f_equal. lia.
Qed.

Lemma published_In x n j e : In e (published x n j) <-> exists i, 1 <= i <= j /\ e = vsid x (vname (n + i)).
Proof.
  unfold published. rewrite in_map_iff. split.
  - intros (i & <- & Hi). apply in_seq in Hi. exists i. split; [lia | reflexivity].
  - intros (i & Hi & ->). exists i. split; [reflexivity | apply in_seq; lia].
Qed.

(* the published versions are pairwise distinct Sids, in strictly increasing order of their versions *)
Theorem published_increasing x n j i i' : n + j < 1000 -> 1 <= i -> i < i' -> i' <= j ->
  str_ltb (vname (n + i)) (vname (n + i')) = true /\ vsid x (vname (n + i)) <> vsid x (vname (n + i')).
Proof.
  intros Hj H1 H2 H3. split; [apply vname_monotone; lia|].
  intros E. apply vsid_inj, vname_inj in E. lia.
Qed.

Theorem published_nodup x n j : NoDup (published x n j).
Proof.
  unfold published. apply FinFun.Injective_map_NoDup; [|apply seq_NoDup].
  intros a b E. apply vsid_inj, vname_inj in E. lia.
Qed.

Section Chain.
Variables (c : Conf) (Ld : Loaded).
Hypothesis Hload : load c = Some Ld.
Hypothesis Hwf : wf_loadedb Ld = true.
Hypothesis Hpu : paths_unambiguousb Ld = true.
Hypothesis Hver : version_conf Ld.
Variables (Rt : Routing) (id cfg0 : string).
Let cfg := default_cfg Ld cfg0.
Hypothesis Htouch : rt_touch Rt = true.
Variable x : sid.
Hypothesis Hg : chain_guardb Ld Rt id cfg x = true.

(** k publishing steps from a data set whose greatest version of x is [vname n] (n = 0: none): min k (999 - n)
    Sids are created, with the versions n+1, n+2, ... (consecutive, strictly increasing), none of which was in the
    data set; when 999 is reached get_new returns the empty Sid, the chain stops, nothing more is created *)
Theorem publish_chain_increasing : forall k n E F acc F' out,
  dataset_ok Ld cfg E F -> fs_inv F -> (forall e, In e E -> plain_member e) -> chain_top E x n ->
  (forall m, n < m -> m <= n + k -> m < 1000 -> create_guardb Ld cfg (vsid x (vname m)) = true) ->
  publish_chain Ld Rt F cfg0 x k acc = Ok (F', out) ->
  let j := Nat.min k (999 - n) in
  exists E', dataset_ok Ld cfg E' F' /\ fs_inv F' /\ (forall e, In e E' -> plain_member e) /\
    chain_top E' x (n + j) /\ incl E E' /\
    out = acc ++ map s_string (published x n j) ++ (if Nat.leb k (999 - n) then [] else [""]) /\
    (forall e, In e (published x n j) -> In e E' /\ ~ In e E).
Proof.
  destruct (chain_guard_inv c Ld Hload Hwf Rt id cfg x Hg) as (pre & v & post & q0 & qs & Hcf).
  induction k as [|k IH]; intros n E F acc F' out HD Hinv Hplain Htop Hcr H; cbv zeta.
  - cbn [publish_chain] in H. inversion H; subst F' out. exists E. cbn [Nat.min Nat.leb published_0].
    rewrite Nat.add_0_r, published_0. cbn [map app]. rewrite app_nil_r.
    repeat (split; [assumption|]). split; [apply incl_refl|]. split; [reflexivity | intros e []].
  - pose proof Htop as (Hn & _). cbn [publish_chain] in H.
    destruct (get_new Ld Rt F x "version") as [y|ex] eqn:Ey; cbn [bind] in H; [|discriminate].
    pose proof (get_new_top c Ld Hload Hwf Hpu Hver Rt id cfg x pre v post q0 qs Hcf E F HD Hplain n y Htop Ey) as Hy.
    destruct (Nat.ltb_spec (S n) 1000) as [Hlt | Hge].
    + subst y. rewrite vsid_bool in H. cbn [negb] in H.
      destruct (w_create Ld Rt F cfg0 (uri (vsid x (vname (S n)))) []) as [[F1 b]|ex] eqn:Ew; cbn [bind fst] in H;
        [|discriminate].
      destruct (publish_step c Ld Hload Hwf Hpu Hver Rt id cfg0 Htouch x pre v post q0 qs Hcf E F n F1 b
                  HD Hinv Hplain Htop Hlt (Hcr (S n) (Nat.lt_succ_diag_r n) ltac:(lia) Hlt) Ew)
        as (_ & HD1 & Hinv1 & Hplain1 & Htop1 & Hin1 & Hfresh).
      fold cfg in HD1, Hplain1, Htop1, Hin1.
      set (E1 := E ++ added Ld cfg (vsid x (vname (S n)))) in *.
      destruct (IH (S n) E1 F1 (acc ++ [s_string (vsid x (vname (S n)))]) F' out HD1 Hinv1 Hplain1 Htop1) as (E' & HD' & Hinv' & Hplain' & Htop' & Hincl & Hout & Hnew).
      { intros m Hm1 Hm2 Hm3. apply Hcr; lia. }
      { exact H. }
      assert (Ej : Nat.min (S k) (999 - n) = S (Nat.min k (999 - S n))) by lia.
      assert (Eb : Nat.leb (S k) (999 - n) = Nat.leb k (999 - S n)).
      { destruct (Nat.leb_spec (S k) (999 - n)), (Nat.leb_spec k (999 - S n)); solve [reflexivity | lia]. }
      rewrite Ej, Eb, published_S. exists E'.
      split; [exact HD'|]. split; [exact Hinv'|]. split; [exact Hplain'|].
      split; [replace (n + S (Nat.min k (999 - S n))) with (S n + Nat.min k (999 - S n)) by lia; exact Htop'|].
      assert (Hsub : incl E E1) by (intros e He; apply in_or_app; left; exact He).
      split; [exact (incl_tran Hsub Hincl)|]. split.
      * rewrite Hout. cbn [map]. rewrite <- app_assoc. reflexivity.
      * intros e [<- | He]; [split; [exact (Hincl _ Hin1) | exact Hfresh]|].
        destruct (Hnew e He) as (N1 & N2). split; [exact N1|]. intros He'. exact (N2 (Hsub e He')).
    + subst y. change (negb (sid_bool empty_sid)) with true in H. cbv iota in H. inversion H; subst F' out.
      assert (En : n = 999) by lia. subst n. exists E.
      replace (Nat.min (S k) (999 - 999)) with 0 by lia. replace (Nat.leb (S k) (999 - 999)) with false by reflexivity.
      rewrite Nat.add_0_r, published_0. cbn [map app s_string empty_sid].
      repeat (split; [assumption|]). split; [apply incl_refl|]. split; [reflexivity | intros e []].
Qed.

End Chain.

Print Assumptions published_increasing.
Print Assumptions publish_chain_increasing.

(** * The next get_new after a publishing step: on x or on the published Sid, the version after *)

Section Next.
Variables (c : Conf) (Ld : Loaded).
Hypothesis Hload : load c = Some Ld.
Hypothesis Hwf : wf_loadedb Ld = true.
Hypothesis Hpu : paths_unambiguousb Ld = true.
Hypothesis Hver : version_conf Ld.
Variables (Rt : Routing) (id cfg0 : string).
Let cfg := default_cfg Ld cfg0.
Hypothesis Htouch : rt_touch Rt = true.
Variable x : sid.
Hypothesis Hg : chain_guardb Ld Rt id cfg x = true.

(* get_new(version) does not see the (non empty) version of the Sid it starts from *)
Lemma get_new_vsid F a : truthy a = true -> get_new Ld Rt F (vsid x a) "version" = get_new Ld Rt F x "version".
Proof.
  intros Ha. destruct (chain_guard_inv c Ld Hload Hwf Rt id cfg x Hg) as (pre & v & post & q0 & qs & Hcf).
  pose proof (cf_ctx _ _ _ _ _ _ _ _ _ _ Hcf) as Hctx.
  destruct (vctx_fields c Ld Hload Hwf x pre v post Hctx) as (_ & _ & Hget & _ & Hb).
  unfold get_new. rewrite vsid_version, Ha, Hget, (cf_truthy _ _ _ _ _ _ _ _ _ _ Hcf).
  rewrite (get_last_vsid c Ld Hload Hwf Rt id cfg x pre v post q0 qs Hcf F a).
  unfold get_with_kv. rewrite (kw_vsid Ld x a "*" Hb). reflexivity.
Qed.

Theorem publish_step_next E F n F' b y' :
  dataset_ok Ld cfg E F -> fs_inv F -> (forall e, In e E -> plain_member e) -> chain_top E x n -> S n < 1000 ->
  create_guardb Ld cfg (vsid x (vname (S n))) = true ->
  w_create Ld Rt F cfg0 (uri (vsid x (vname (S n)))) [] = Ok (F', b) ->
  (get_new Ld Rt F' x "version" = Ok y' \/ get_new Ld Rt F' (vsid x (vname (S n))) "version" = Ok y') ->
  y' = if Nat.ltb (S (S n)) 1000 then vsid x (vname (S (S n))) else empty_sid.
Proof.
  intros HD Hinv Hplain Htop Hn Hcg Hw H.
  destruct (chain_guard_inv c Ld Hload Hwf Rt id cfg x Hg) as (pre & v & post & q0 & qs & Hcf).
  destruct (publish_step c Ld Hload Hwf Hpu Hver Rt id cfg0 Htouch x pre v post q0 qs Hcf E F n F' b
              HD Hinv Hplain Htop Hn Hcg Hw) as (_ & HD' & _ & Hplain' & Htop' & _).
  assert (H' : get_new Ld Rt F' x "version" = Ok y').
  { destruct H as [H | H]; [exact H|]. rewrite get_new_vsid in H; [exact H | reflexivity]. }
  exact (get_new_top c Ld Hload Hwf Hpu Hver Rt id cfg x pre v post q0 qs Hcf _ F' HD' Hplain' (S n) y' Htop' H').
Qed.

End Next.

Print Assumptions publish_step_next.

(** * The hypotheses on the data set, computed *)

Lemma dict_eqb_refl : forall d, dict_eqb d d = true.
Proof. induction d as [|[k v] d IH]; [reflexivity|]. cbn [dict_eqb]. rewrite !String.eqb_refl, IH. reflexivity. Qed.

Lemma sid_eqb_full_refl e : sid_eqb_full e e = true.
Proof. unfold sid_eqb_full. rewrite !String.eqb_refl, dict_eqb_refl. reflexivity. Qed.

Lemma chain_topb_sound E x n : chain_topb E x n = true -> chain_top E x n.
Proof.
  unfold chain_topb. intros H. apply andb_true_iff in H. destruct H as (H & H3).
  apply andb_true_iff in H. destruct H as (H1 & H2). apply Nat.ltb_lt in H1. rewrite forallb_forall in H2.
  split; [exact H1|]. split.
  - intros w Hw. specialize (H2 _ Hw). rewrite vsid_version, sid_eqb_full_refl in H2. cbn [negb orb] in H2.
    apply in_list_In, in_map_iff in H2. destruct H2 as (m & <- & Hm). apply in_seq in Hm.
    exists m. split; [lia | reflexivity].
  - apply orb_true_iff in H3. destruct H3 as [H3 | H3]; [right; apply Nat.eqb_eq; exact H3 | left].
    apply existsb_exists in H3. destruct H3 as (e & He & Heq). apply sid_eqb_full_eq in Heq. rewrite Heq. exact He.
Qed.

Lemma creatableb_sound Ld cfg x n k : creatableb Ld cfg x n k = true ->
  forall m, n < m -> m <= n + k -> m < 1000 -> create_guardb Ld cfg (vsid x (vname m)) = true.
Proof.
  unfold creatableb. rewrite forallb_forall. intros H m H1 H2 H3. specialize (H m). apply Nat.ltb_lt in H3.
  rewrite H3 in H. apply H. apply in_seq. lia.
Qed.

Lemma plain_members_sound E : forallb plain_memberb E = true -> forall e, In e E -> plain_member e.
Proof. rewrite forallb_forall. intros H e He. exact (plain_memberb_sound e (H e He)). Qed.

(** the chain theorem with every hypothesis computed *)
Theorem publish_chain_b c Ld Rt id cfg0 x E F n k F' out :
  load c = Some Ld -> wf_loadedb Ld = true -> paths_unambiguousb Ld = true -> version_confb Ld = true ->
  rt_touch Rt = true -> chain_guardb Ld Rt id (default_cfg Ld cfg0) x = true ->
  dataset_okb Ld (default_cfg Ld cfg0) E F = true -> fs_invb F = true -> forallb plain_memberb E = true ->
  chain_topb E x n = true -> creatableb Ld (default_cfg Ld cfg0) x n k = true ->
  publish_chain Ld Rt F cfg0 x k [] = Ok (F', out) ->
  let j := Nat.min k (999 - n) in
  out = map s_string (published x n j) ++ (if Nat.leb k (999 - n) then [] else [""]) /\
  exists E', dataset_ok Ld (default_cfg Ld cfg0) E' F' /\ chain_top E' x (n + j) /\ incl E E' /\
    (forall e, In e (published x n j) -> In e E' /\ ~ In e E).
Proof.
  intros Hload Hwf Hpu Hver Htouch Hg HD Hinv Hplain Htop Hcr H.
  destruct (publish_chain_increasing c Ld Hload Hwf Hpu (version_confb_sound Ld Hver) Rt id cfg0 Htouch x Hg
              k n E F [] F' out (dataset_okb_sound Ld _ E F HD) (fs_invb_sound F Hinv) (plain_members_sound E Hplain)
              (chain_topb_sound E x n Htop) (creatableb_sound Ld _ x n k Hcr) H)
    as (E' & HD' & _ & _ & Htop' & Hincl & Hout & Hnew).
  cbv zeta. split; [exact Hout|]. exists E'. split; [exact HD'|]. split; [exact Htop'|]. split; [exact Hincl | exact Hnew].
Qed.

Print Assumptions publish_chain_b.

(** get_new with every hypothesis computed: the successor of the greatest version n of x in the data set,
    not in the data set; the empty Sid beyond 999 *)
Theorem get_new_b c Ld Rt id cfg x E F n y :
  load c = Some Ld -> wf_loadedb Ld = true -> paths_unambiguousb Ld = true -> version_confb Ld = true ->
  chain_guardb Ld Rt id cfg x = true -> dataset_okb Ld cfg E F = true -> forallb plain_memberb E = true ->
  chain_topb E x n = true -> get_new Ld Rt F x "version" = Ok y ->
  y = (if Nat.ltb (S n) 1000 then vsid x (vname (S n)) else empty_sid) /\ ~ In (vsid x (vname (S n))) E.
Proof.
  intros Hload Hwf Hpu Hver Hg HD Hplain Htop H.
  destruct (chain_guard_inv c Ld Hload Hwf Rt id cfg x Hg) as (pre & v & post & q0 & qs & Hcf).
  pose proof (chain_topb_sound E x n Htop) as Htop'. split; [|exact (get_new_fresh x E n Htop')].
  exact (get_new_top c Ld Hload Hwf Hpu (version_confb_sound Ld Hver) Rt id cfg x pre v post q0 qs Hcf E F
           (dataset_okb_sound Ld cfg E F HD) (plain_members_sound E Hplain) n y Htop' H).
Qed.

Print Assumptions get_new_b.

(** * The versions of the members, from the configured pattern *)

Section Closed.
Variables (c : Conf) (Ld : Loaded).
Hypothesis Hload : load c = Some Ld.
Hypothesis Hwf : wf_loadedb Ld = true.
Hypothesis Hpu : paths_unambiguousb Ld = true.
Hypothesis Hver : version_conf Ld.
Variables (Rt : Routing) (id cfg : string).
Variable E : list sid.
Variable F : fs.
Hypothesis HD : dataset_ok Ld cfg E F.
Hypothesis Hplain : forall e, In e E -> plain_member e.
Variable x : sid.
Hypothesis Hg : chain_guardb Ld Rt id cfg x = true.

(* a member that is x with another version has a version the closed pattern accepts: "v" + 3 digits, or one of
   the search symbols *)
Lemma member_version_value w : In (vsid x w) E -> version_value w.
Proof.
  intros He. destruct (chain_guard_inv c Ld Hload Hwf Rt id cfg x Hg) as (pre & v & post & q0 & qs & Hcf).
  pose proof (cf_ctx _ _ _ _ _ _ _ _ _ _ Hcf) as Hctx. pose proof Hctx as (_ & _ & Hk & _).
  pose proof (ds_nat _ _ _ _ HD _ He) as Hnat.
  destruct (typed_parts c Ld Hload Hwf _ (nat_typed_search c Ld Hload Hwf _ Hnat)) as (ts & _ & _ & _ & _ & Hsnd & Hstr & _).
  destruct (vsid_parts c Ld Hload Hwf x pre v post w Hctx) as (P1 & P2 & _).
  apply (vctx_value Ld Hwf Hver (vsid x w) pre w post).
  split; [exact Hnat|]. split; [rewrite <- Hsnd; exact P2|]. split; [rewrite P1; exact Hk|].
  rewrite Hstr. apply mem_c_join; [reflexivity|].
  pose proof (ds_vals _ _ _ _ HD _ He) as Hv. unfold path_values_ok in Hv. rewrite Forall_forall in Hv.
  apply Forall_forall. intros g Hg'. apply in_map_iff in Hg'. destruct Hg' as (kv & <- & Hkv).
  exact (proj2 (proj2 (proj2 (Hv kv Hkv)))).
Qed.

(** get_new_spec, with the form of the versions derived from the closed pattern: it is enough that no member
    is x with a search symbol as its version *)
Theorem get_new_spec_closed y :
  ~ In (vsid x "*") E -> ~ In (vsid x ">") E ->
  get_new Ld Rt F x "version" = Ok y ->
  ((forall w, ~ In (vsid x w) E) -> y = vsid x (vname 1) /\ ~ In y E) /\
  (forall n, In (vsid x (vname n)) E -> n < 1000 ->
     (forall m, m < 1000 -> In (vsid x (vname m)) E -> m <= n) ->
     (n + 1 < 1000 -> y = vsid x (vname (n + 1)) /\ ~ In y E) /\
     (1000 <= n + 1 -> y = empty_sid)).
Proof.
  intros H1 H2. apply (get_new_spec c Ld Hload Hwf Hpu Hver Rt id cfg E F HD Hplain x Hg).
  intros w Hw. destruct (member_version_value w Hw) as [-> | [-> | Hm]]; [contradiction | contradiction | exact Hm].
Qed.

End Closed.

Print Assumptions get_new_spec_closed.
