(** C05 — Sid -> path -> Sid is the identity in every path configuration.  Property theorems only.
    The hard direction needs that the path templates are unambiguous (the first template matching a formatted path is
    its own, with its own field values).  That is an explicit hypothesis here ([path_to_dict] gives back type and fields):
    the theorems are _partial, and the hypothesis is checked on the implementation for every generated Sid on every run
    (round trip in every path configuration, both load orders), not proved for the configured templates. *)
From Coq Require Import List String Ascii Bool Arith.
From Spil Require Import Base.Str Base.Dict Base.Outcome Base.PyPath Resolva.Resolver Conf.Conf Conf.Routing Conf.WF Sid.Sid
  Search.Unfold Search.Finders FS.Fs Data.Data Data.Crash Path.PathProofs Data.DataProofs Data.CrashProofs.
From SpilGen Require Hamlet.
Import ListNotations.
Local Open Scope string_scope.

Theorem C05_roundtrip_partial : forall c Ld x cfg p, load c = Some Ld -> wf_loadedb Ld = true ->
  s_fields x <> [] -> sid_path Ld x cfg = Ok (Some p) ->
  path_to_dict Ld p cfg = Ok (Some (s_type x, s_fields x)) ->
  rdict_to_sid Ld (s_fields x) (s_type x) = Ok (s_string x) -> s_string x <> "" ->
  sid_of_path Ld p cfg = Ok x.
Proof. exact roundtrip_partial. Qed.
Print Assumptions C05_roundtrip_partial.

(* two Sids never come out of the same path *)
Theorem C05_injective : forall c Ld x y cfg p, load c = Some Ld -> wf_loadedb Ld = true ->
  sid_of_path Ld p cfg = Ok x -> sid_of_path Ld p cfg = Ok y -> x = y.
Proof. exact path_injective_partial. Qed.
Print Assumptions C05_injective.

(* an untyped Sid, or a Sid whose type has no path template, has path None rather than an error *)
Theorem C05_no_path_untyped : forall c Ld x cfg, load c = Some Ld -> wf_loadedb Ld = true ->
  s_fields x = [] -> sid_path Ld x cfg = Ok None.
Proof. exact no_path_is_none_untyped. Qed.
Print Assumptions C05_no_path_untyped.

Theorem C05_no_path_no_template : forall c Ld x cfg pc, load c = Some Ld -> wf_loadedb Ld = true ->
  get_path_config Ld cfg = Ok pc -> s_fields x <> [] -> s_type x <> "" ->
  find_tpl (lp_resolver pc) (s_type x) = None -> sid_path Ld x cfg = Ok None.
Proof. exact no_path_is_none_no_template. Qed.
Print Assumptions C05_no_path_no_template.

(* path normalisation (pathlib) is idempotent: path(c) is a function returning a normal form *)
Theorem C05_norm_idempotent : forall p, norm_path (norm_path p) = norm_path p.
Proof. exact norm_path_idem. Qed.
Print Assumptions C05_norm_idempotent.

(* the recorded finding D26: values "" and "." vanish in path normalisation, two Sids share one path (outside C05's value sets) *)
Example C05_dot_value_shares_path :
  match sid_factory Hamlet.the_loaded (FromString "hamlet/a/char/."), sid_factory Hamlet.the_loaded (FromString "hamlet/a/char") with
  | Ok x, Ok y => match sid_path Hamlet.the_loaded x "", sid_path Hamlet.the_loaded y "" with
                  | Ok (Some p), Ok (Some q) => String.eqb p q && negb (sid_eqb x y)
                  | _, _ => false
                  end
  | _, _ => false
  end = true.
Proof. vm_compute. reflexivity. Qed.
Print Assumptions C05_dot_value_shares_path.
