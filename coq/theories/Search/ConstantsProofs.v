(** C11 / C12: what the constants-backed finder (FindInConstants) answers: [constants_star_spec],
    [constants_exists], [constants_children] (and siblings). *)
From Coq Require Import List String Ascii Bool Arith Lia.
From Spil Require Import Base.Str Base.Dict Base.Outcome Base.PyPath Base.StrProofs Base.SplitProofs Regex.Re
  Regex.MatchProofs Resolva.Template Resolva.Resolver Conf.ConfUtil Conf.Conf Conf.WF Conf.Routing
  Sid.Query Sid.Sid Sid.TypingSpec Sid.TypingProofs Sid.SidLemmas Sid.SidProofs Sid.QueryProofs
  Search.Unfold Search.UnfoldProofs Search.SortLemmas Search.FindList Search.FindListProofs FS.Fs Search.Finders
  Search.FindersProofs Search.DenoteLemmas Search.TreeListDefs Search.TreePattern Search.TreeListProofs
  Data.Data Data.DataSpecProofs Data.SidLevelDefs Data.SidLevelProofs Search.ConstantsDefs Search.ConstantsLemmas.
Import ListNotations.
Local Open Scope string_scope.

Local Notation accepts := TypingSpec.accepts.

Lemma concat_mapM_map {A B} (f : A -> outcome (list B)) (g : A -> B) l :
  (forall x, In x l -> f x = Ok [g x]) -> concat_mapM f l = Ok (map g l).
Proof.
  induction l as [|x l IH]; intros H; [reflexivity|]. cbn [concat_mapM map].
  rewrite (H x (or_introl eq_refl)), IH; [reflexivity|]. intros y Hy. apply H. right. exact Hy.
Qed.

(* [par_str] is the parent string of Data/SidLevelDefs.v *)
Lemma par_str_parent_str s : par_str s = parent_str s.
Proof. reflexivity. Qed.

Lemma typed_or_untyped_string s o : s_string (typed_or_untyped s o) = s.
Proof. destruct o as [[t d]|]; reflexivity. Qed.

Lemma const_guardb_sound Ld key q : const_guardb Ld key q = true -> const_guard Ld key q.
Proof.
  unfold const_guardb, const_guard. intros H. apply andb_true_iff in H. destruct H as (H & H4).
  apply andb_true_iff in H. destruct H as (H & H3). apply andb_true_iff in H. destruct H as (H1 & H2).
  apply negb_true_iff in H3, H4. apply String.eqb_eq in H2.
  split; [exact (typed_searchb_sound Ld q H1)|]. repeat split; assumption.
Qed.

Lemma found_okb_sound Ld pkeys p : found_okb Ld pkeys p = true -> found_ok Ld pkeys p.
Proof.
  unfold found_okb, found_ok. intros H. apply andb_true_iff in H. destruct H as (H & H4).
  apply andb_true_iff in H. destruct H as (H & H3). apply andb_true_iff in H. destruct H as (H1 & H2).
  apply negb_true_iff in H1, H2, H3. repeat split; try assumption.
  destruct (natural Ld p) as [[t d]|]; [|discriminate]. exists t, d. split; [reflexivity|].
  apply strs_eqb_eq. exact H4.
Qed.

Section Star.
Variables (c : Conf) (Ld : Loaded).
Hypothesis Hload : load c = Some Ld.
Hypothesis Hwf : wf_loadedb Ld = true.

Local Notation tpls := (r_tpls (l_sid Ld)).
Local Notation names t := (item_names (tp_items t)).

(** * [append_values] *)

(* on the root of a search: the configured values replace the last segment *)
Lemma append_values_root x key values :
  typed_search Ld x -> mem_c "010" (s_string x) = false -> last (map fst (s_fields x)) "" = key ->
  forallb const_value_okb values = true ->
  append_values Ld key values x = Ok (expand Ld (map fst (s_fields x)) (s_string x) values).
Proof.
  intros H Hnl <- Hv. unfold append_values, expand.
  induction values as [|v values IH]; [reflexivity|].
  cbn [forallb] in Hv. apply andb_true_iff in Hv. destruct Hv as (Hv & Hvs).
  cbn [concat_mapM filter]. rewrite (IH Hvs). pose proof (kw_last c Ld Hload Hwf x v H Hnl Hv) as K.
  destruct (acceptedb Ld (map fst (s_fields x)) (set_last (s_string x) v)).
  - destruct K as (r & Hr & Hb & Hs). rewrite Hr. cbn [bind]. rewrite Hb, Hs. reflexivity.
  - rewrite K. reflexivity.
Qed.

(* below a naturally typed Sid of the parent level: the configured values are appended *)
Lemma append_values_below p t d key values tq :
  natural Ld p = Some (t, d) -> mem_c "010" p = false ->
  In tq tpls -> names tq = (map fst d ++ [key])%list -> forallb const_value_okb values = true ->
  append_values Ld key values (mkSid p t d) = Ok (expand_below Ld (map fst d ++ [key])%list values p).
Proof.
  intros Hnat Hnl Hq Hnq Hv. unfold append_values, expand_below.
  induction values as [|v values IH]; [reflexivity|].
  cbn [forallb] in Hv. apply andb_true_iff in Hv. destruct Hv as (Hv & Hvs).
  cbn [concat_mapM filter]. rewrite (IH Hvs).
  pose proof (kw_below c Ld Hload Hwf p t d key v tq Hnat Hnl Hv Hq Hnq) as K.
  destruct (acceptedb Ld (map fst d ++ [key])%list (child_str p v)).
  - destruct K as (r & Hr & Hb & Hs). rewrite Hr. cbn [bind]. rewrite Hb, Hs. reflexivity.
  - rewrite K. reflexivity.
Qed.

(* below an untyped string: nothing *)
Lemma append_values_untyped p key values : p <> "" ->
  append_values Ld key values (mkSid p "" []) = Ok [].
Proof.
  intros Hp. unfold append_values. induction values as [|v values IH]; [reflexivity|].
  cbn [concat_mapM]. rewrite IH. unfold get_with_kw. cbn [s_string sid_bool s_fields].
  unfold truthy. apply sempty_false in Hp. rewrite Hp. reflexivity.
Qed.

(** * [const_below]: the expansion below one root string found by the parent finder *)

Lemma const_below_star root key values pkeys p tq :
  sid_get root key = Some "*" -> found_ok Ld pkeys p ->
  In tq tpls -> names tq = (pkeys ++ [key])%list -> forallb const_value_okb values = true ->
  const_below Ld key values root p = Ok (expand_below Ld (pkeys ++ [key])%list values p).
Proof.
  intros Hget (Hq & Hc & Hnl & t & d & Hnat & <-) Htq Hnq Hv. unfold const_below.
  rewrite (Sid_plain c Ld Hload Hwf p Hq Hc), Hnat, Hget. cbn [bind typed_or_untyped String.eqb Ascii.eqb Bool.eqb].
  exact (append_values_below p t d key values tq Hnat Hnl Htq Hnq Hv).
Qed.

Lemma const_below_untyped root key values p :
  sid_get root key = Some "*" -> mem_c "?" p = false -> mem_c ":" p = false -> p <> "" ->
  natural Ld p = None -> const_below Ld key values root p = Ok [].
Proof.
  intros Hget Hq Hc Hp Hnat. unfold const_below.
  rewrite (Sid_plain c Ld Hload Hwf p Hq Hc), Hnat, Hget. cbn [bind typed_or_untyped String.eqb Ascii.eqb Bool.eqb].
  exact (append_values_untyped p key values Hp).
Qed.

(* a literal value at the key: "<found>/<value>", whatever it is *)
Lemma const_below_lit root key values p w :
  sid_get root key = Some w -> w <> "*" ->
  mem_c "?" p = false -> mem_c ":" p = false -> mem_c "?" w = false -> mem_c ":" w = false ->
  const_below Ld key values root p = Ok [child_str p w].
Proof.
  intros Hget Hw Hq Hc Hqw Hcw. unfold const_below.
  rewrite (Sid_plain c Ld Hload Hwf p Hq Hc), Hget. cbn [bind].
  apply String.eqb_neq in Hw. rewrite Hw. unfold sid_div. rewrite typed_or_untyped_string.
  assert (H1 : mem_c "?" (p ++ sip ++ w) = false) by (unfold sip; rewrite !mem_c_app, Hq, Hqw; reflexivity).
  assert (H2 : mem_c ":" (p ++ sip ++ w) = false) by (unfold sip; rewrite !mem_c_app, Hc, Hcw; reflexivity).
  rewrite (Sid_plain c Ld Hload Hwf _ H1 H2). cbn [bind]. rewrite typed_or_untyped_string. reflexivity.
Qed.

(** * The loop body on one guarded search *)

Lemma sid_eqb_refl x : sid_eqb x x = true.
Proof. unfold sid_eqb. apply String.eqb_refl. Qed.

(* the search is read back as itself, cut at its last key: same string and fields *)
Lemma const_one_root key values ps q : const_guard Ld key q ->
  exists n, typed_search Ld (mkSid (s_string q) n (s_fields q)) /\
    get_as Ld q key = Ok (mkSid (s_string q) n (s_fields q)) /\
    const_one Ld key values ps q =
    (let root := mkSid (s_string q) n (s_fields q) in
     if negb (mem_c "*" (s_string q)) then Ok [s_string q] else
     do rp <- parent Ld root;
     if mem_c "*" (s_string rp) && negb (sid_eqb root rp) then
       match ps with
       | None => Raise SpilException
       | Some ps => do found <- find_g_sid Ld ps rp; concat_mapM (const_below Ld key values root) found
       end
     else append_values Ld key values root).
Proof.
  intros (Ht & Hkey & Hq & Hnl). destruct (ts_root c Ld Hload Hwf q Ht Hnl) as (n & Hg & Hr).
  rewrite Hkey in Hg. exists n. split; [exact Hr|]. split; [exact Hg|]. unfold const_one.
  rewrite (proj1 (ts_roundtrip c Ld Hload Hwf q Ht Hq)). cbn [bind]. rewrite Hg. cbn [bind].
  rewrite (ts_sid_bool Ld Hwf _ Hr). cbn [negb s_string].
  change (contains "*") with (contains (str1 "*")). rewrite contains_str1. cbv zeta.
  destruct (mem_c "*" (s_string q)); cbn [negb]; [|reflexivity].
  destruct (parent Ld (mkSid (s_string q) n (s_fields q))) as [rp|e]; cbn [bind]; [|reflexivity].
  rewrite contains_str1. reflexivity.
Qed.

Lemma par_str_single s : List.length (split_c "/" s) = 1 -> par_str s = "".
Proof. unfold par_str. destruct (split_c "/" s) as [|a [|b l]]; try discriminate. reflexivity. Qed.

(** * 1. constants_star_spec *)

(** no "*" in the search: the search itself, whether it exists or not *)
Theorem constants_star_nostar key values ps q :
  const_guard Ld key q -> mem_c "*" (s_string q) = false ->
  const_one Ld key values ps q = Ok [s_string q].
Proof.
  intros G Hs. destruct (const_one_root key values ps q G) as (n & _ & _ & E). rewrite E. cbv zeta.
  rewrite Hs. reflexivity.
Qed.

(** a "*" in the search but none in its parent string: the configured values, in order, that give a
    typed Sid in place of the last segment; the parent finder is not consulted *)
Theorem constants_star_top key values ps q :
  const_guard Ld key q -> forallb const_value_okb values = true ->
  mem_c "*" (s_string q) = true -> mem_c "*" (par_str (s_string q)) = false ->
  const_one Ld key values ps q = Ok (expand Ld (map fst (s_fields q)) (s_string q) values).
Proof.
  intros G Hv Hs Hp. destruct (const_one_root key values ps q G) as (n & Hr & _ & E). rewrite E. cbv zeta.
  rewrite Hs. cbn [negb]. destruct G as (Ht & Hkey & Hq & Hnl). set (root := mkSid (s_string q) n (s_fields q)) in *.
  pose proof (append_values_root root key values Hr Hnl Hkey Hv) as Ha. cbn [root s_fields s_string] in Ha.
  destruct (ts_parts Ld Hwf q Ht) as (_ & ts & _ & _ & _ & _ & _ & Hne & _).
  destruct (Nat.eq_dec (List.length (s_fields q)) 1) as [H1|H1].
  - rewrite (ts_parent_top c Ld Hload Hwf root Hr Hq H1). cbn [bind]. rewrite sid_eqb_refl.
    cbn [negb]. rewrite andb_false_r. exact Ha.
  - assert (H2 : 2 <= List.length (s_fields root)).
    { cbn [root s_fields]. destruct (s_fields q) as [|a [|b l]]; [congruence | simpl in H1; congruence | simpl; lia]. }
    destruct (ts_parent c Ld Hload Hwf root Hr Hnl H2) as (n' & Hpar & _). rewrite Hpar. cbn [bind s_string root].
    rewrite Hp. cbn [andb]. exact Ha.
Qed.

(** a "*" in the parent string: the parent search goes to the parent finder, and every root string it
    finds is expanded *)
Theorem constants_star_parent key values ps q :
  const_guard Ld key q -> mem_c "*" (par_str (s_string q)) = true ->
  exists n n',
    let root := mkSid (s_string q) n (s_fields q) in
    let rp := mkSid (par_str (s_string q)) n' (removelast (s_fields q)) in
    typed_search Ld root /\ typed_search Ld rp /\ get_as Ld q key = Ok root /\ parent Ld root = Ok rp /\
    const_one Ld key values ps q =
    (match ps with
     | None => Raise SpilException
     | Some ps => do found <- find_g_sid Ld ps rp; concat_mapM (const_below Ld key values root) found
     end).
Proof.
  intros G Hp. destruct (const_one_root key values ps q G) as (n & Hr & Hga & E).
  destruct G as (Ht & Hkey & Hq & Hnl). set (root := mkSid (s_string q) n (s_fields q)) in *.
  assert (Hlen : 2 <= List.length (split_c "/" (s_string q))).
  { destruct (Nat.eq_dec (List.length (split_c "/" (s_string q))) 1) as [H1|H1].
    - rewrite (par_str_single _ H1) in Hp. discriminate.
    - pose proof (split_c_not_nil "/" (s_string q)) as Hnn.
      destruct (split_c "/" (s_string q)) as [|a [|b l]]; [congruence | simpl in H1; congruence | simpl; lia]. }
  assert (H2 : 2 <= List.length (s_fields root)).
  { cbn [root s_fields]. rewrite <- (ts_len Ld Hwf q Ht). exact Hlen. }
  destruct (ts_parent c Ld Hload Hwf root Hr Hnl H2) as (n' & Hpar & Hrp). cbn [root s_string s_fields] in Hpar, Hrp.
  exists n, n'. cbv zeta. fold root. split; [exact Hr|]. split; [exact Hrp|]. split; [exact Hga|]. split; [exact Hpar|].
  rewrite E. cbv zeta. fold root.
  assert (Hs : mem_c "*" (s_string q) = true).
  { rewrite (par_str_last (s_string q) Hlen), mem_c_app, Hp. reflexivity. }
  rewrite Hs. cbn [negb]. rewrite Hpar. cbn [bind s_string]. rewrite Hp. cbn [andb].
  assert (Hneq : sid_eqb root (mkSid (par_str (s_string q)) n' (removelast (s_fields q))) = false).
  { unfold sid_eqb. apply String.eqb_neq. intros Eu.
    rewrite (ts_uri Ld Hwf _ Hr), (ts_uri Ld Hwf _ Hrp) in Eu. cbn [root s_type s_string] in Eu.
    destruct (ts_parts Ld Hwf _ Hr) as (_ & t1 & Hin1 & Hn1 & _).
    destruct (ts_parts Ld Hwf _ Hrp) as (_ & t2 & Hin2 & Hn2 & _). cbn [root s_type] in Hn1, Hn2.
    destruct (tpl_name_ok Ld Hwf t1 Hin1) as (_ & Hc1 & _). destruct (tpl_name_ok Ld Hwf t2 Hin2) as (_ & Hc2 & _).
    rewrite Hn1 in Hc1. rewrite Hn2 in Hc2.
    apply (f_equal (split1_c ":")) in Eu.
    change (n ++ ":" ++ s_string q) with (n ++ String ":" (s_string q)) in Eu.
    change (n' ++ ":" ++ par_str (s_string q)) with (n' ++ String ":" (par_str (s_string q))) in Eu.
    rewrite (split1_c_app ":" _ _ Hc1), (split1_c_app ":" _ _ Hc2) in Eu. inversion Eu as [[En Es]].
    rewrite (par_str_last (s_string q) Hlen) in Es at 1.
    change ("/" ++ last (split_c "/" (s_string q)) "") with (String "/" (last (split_c "/" (s_string q)) "")) in Es.
    exact (app_neq_self _ _ _ Es). }
  rewrite Hneq. reflexivity.
Qed.


(* the found root strings: at the parent level / read back plainly *)
Definition plain_found (p : string) : Prop := mem_c "?" p = false /\ mem_c ":" p = false.

Lemma keys_split q key : typed_search Ld q -> last (map fst (s_fields q)) "" = key ->
  map fst (s_fields q) = (removelast (map fst (s_fields q)) ++ [key])%list.
Proof.
  intros Ht <-. destruct (ts_parts Ld Hwf q Ht) as (_ & ts & _ & _ & _ & _ & _ & Hne & _).
  apply app_removelast_last. intros E. apply map_eq_nil in E. congruence.
Qed.

(** the parent case: the root and the parent search are what [get_as] / [parent] compute *)
Lemma const_parent_rp key q root rp :
  const_guard Ld key q -> mem_c "*" (par_str (s_string q)) = true ->
  get_as Ld q key = Ok root -> parent Ld root = Ok rp ->
  typed_search Ld root /\ s_string root = s_string q /\ s_fields root = s_fields q /\
  typed_search Ld rp /\ s_string rp = par_str (s_string q) /\ s_fields rp = removelast (s_fields q) /\
  forall values ps,
    const_one Ld key values ps q =
    (match ps with
     | None => Raise SpilException
     | Some ps => do found <- find_g_sid Ld ps rp; concat_mapM (const_below Ld key values root) found
     end).
Proof.
  intros G Hp Hroot Hpar.
  destruct (constants_star_parent key [] None q G Hp) as (n & n' & Hr & Hrp & Hga & Hpa & _). cbv zeta in *.
  rewrite Hroot in Hga. inversion Hga; subst root. rewrite Hpar in Hpa. inversion Hpa; subst rp.
  split; [exact Hr|]. split; [reflexivity|]. split; [reflexivity|]. split; [exact Hrp|].
  split; [reflexivity|]. split; [reflexivity|]. intros values ps.
  destruct (constants_star_parent key values ps q G Hp) as (m & m' & _ & _ & Hga' & Hpa' & E). cbv zeta in *.
  rewrite Hroot in Hga'. assert (En : m = n) by congruence. subst m. rewrite Hpar in Hpa'.
  assert (En' : m' = n') by congruence. subst m'. exact E.
Qed.

(** the parent case, with the answer of the parent finder: "*" at the key *)
Theorem constants_star_parent_star key values ps q root rp :
  const_guard Ld key q -> forallb const_value_okb values = true ->
  mem_c "*" (par_str (s_string q)) = true -> dget (s_fields q) key = Some "*" ->
  get_as Ld q key = Ok root -> parent Ld root = Ok rp ->
  (forall e, find_g_sid Ld ps rp = Raise e -> const_one Ld key values (Some ps) q = Raise e) /\
  forall found, find_g_sid Ld ps rp = Ok found ->
    Forall (found_ok Ld (removelast (map fst (s_fields q)))) found ->
    const_one Ld key values (Some ps) q = Ok (flat_map (expand_below Ld (map fst (s_fields q)) values) found).
Proof.
  intros G Hv Hp Hget Hroot Hpar.
  destruct (const_parent_rp key q root rp G Hp Hroot Hpar) as (_ & _ & Hrf & _ & _ & _ & E).
  split.
  - intros e He. rewrite E, He. reflexivity.
  - intros found Hf Hall. rewrite E, Hf. cbn [bind]. apply concat_mapM_flat. intros p Hin.
    destruct G as (Ht & Hkey & Hq & Hnl).
    destruct (ts_parts Ld Hwf q Ht) as (_ & ts & Hts & _ & _ & Hfst & _).
    rewrite Forall_forall in Hall. rewrite (keys_split q key Ht Hkey).
    apply (const_below_star _ key values _ p ts); [| exact (Hall p Hin) | exact Hts | | exact Hv].
    + unfold sid_get. rewrite Hrf. exact Hget.
    + rewrite <- Hfst. exact (keys_split q key Ht Hkey).
Qed.

(** the parent case: a literal value at the key *)
Theorem constants_star_parent_lit key values ps q w root rp :
  const_guard Ld key q -> mem_c "*" (par_str (s_string q)) = true ->
  dget (s_fields q) key = Some w -> w <> "*" -> mem_c ":" w = false ->
  get_as Ld q key = Ok root -> parent Ld root = Ok rp ->
  forall found, find_g_sid Ld ps rp = Ok found -> Forall plain_found found ->
    const_one Ld key values (Some ps) q = Ok (map (fun p => child_str p w) found).
Proof.
  intros G Hp Hget Hw Hcw Hroot Hpar.
  destruct (const_parent_rp key q root rp G Hp Hroot Hpar) as (_ & _ & Hrf & _ & _ & _ & E).
  intros found Hf Hall. rewrite E, Hf. cbn [bind]. apply concat_mapM_map. intros p Hin.
  destruct G as (Ht & Hkey & Hq & Hnl).
  assert (Hqw : mem_c "?" w = false).
  { destruct (ts_parts Ld Hwf q Ht) as (_ & ts & _ & _ & _ & _ & Hsnd & _).
    pose proof (mem_c_split "?" "/" (s_string q) Hq) as Hall'. rewrite <- Hsnd in Hall'. rewrite Forall_forall in Hall'.
    apply Hall'. apply dget_Some_In in Hget. apply (in_map snd) in Hget. exact Hget. }
  rewrite Forall_forall in Hall. destruct (Hall p Hin) as (H1 & H2).
  apply (const_below_lit _ key values p w); try assumption. unfold sid_get. rewrite Hrf. exact Hget.
Qed.

(** membership forms *)
Lemma expand_In keys s values r :
  In r (expand Ld keys s values) <-> exists v, In v values /\ accepted Ld keys (set_last s v) /\ r = set_last s v.
Proof.
  unfold expand. rewrite in_map_iff. split.
  - intros (v & <- & Hv). apply filter_In in Hv. destruct Hv as (Hv & Ha). apply acceptedb_spec in Ha.
    exists v. repeat split; assumption.
  - intros (v & Hv & Ha & ->). exists v. split; [reflexivity|]. apply filter_In. split; [exact Hv|].
    apply acceptedb_spec. exact Ha.
Qed.

Lemma expand_below_In keys values found r :
  In r (flat_map (expand_below Ld keys values) found) <->
  exists p v, In p found /\ In v values /\ accepted Ld keys (child_str p v) /\ r = child_str p v.
Proof.
  rewrite in_flat_map. unfold expand_below. split.
  - intros (p & Hp & Hr). apply in_map_iff in Hr. destruct Hr as (v & <- & Hv).
    apply filter_In in Hv. destruct Hv as (Hv & Ha). apply acceptedb_spec in Ha.
    exists p, v. repeat split; assumption.
  - intros (p & v & Hp & Hv & Ha & ->). exists p. split; [exact Hp|]. apply in_map_iff.
    exists v. split; [reflexivity|]. apply filter_In. split; [exact Hv|]. apply acceptedb_spec. exact Ha.
Qed.


(** ** constants_star_spec: the three cases, for the star search of the finder on one search *)
Theorem constants_star_spec F id key values pfd q :
  const_guard Ld key q -> forallb const_value_okb values = true ->
  let star := fstar Ld F (FConstants id key values pfd) in
  let keys := map fst (s_fields q) in
  (* no "*" at all: the search itself, found or not *)
  (mem_c "*" (s_string q) = false -> star [q] = Ok [s_string q]) /\
  (* a "*" in the last segment only: the accepted configured values, in order *)
  (mem_c "*" (s_string q) = true -> mem_c "*" (par_str (s_string q)) = false ->
     star [q] = Ok (expand Ld keys (s_string q) values)) /\
  (* a "*" above the last segment: the parent finder answers the parent search [rp] *)
  (mem_c "*" (par_str (s_string q)) = true ->
     match pfd with
     | None => star [q] = Raise SpilException
     | Some pf =>
       forall root rp, get_as Ld q key = Ok root -> parent Ld root = Ok rp ->
         typed_search Ld rp /\ s_string rp = par_str (s_string q) /\
         s_fields rp = removelast (s_fields q) /\
         (dget (s_fields q) key = Some "*" ->
            (forall e, find_g_sid Ld (fstar Ld F pf) rp = Raise e -> star [q] = Raise e) /\
            forall found, find_g_sid Ld (fstar Ld F pf) rp = Ok found ->
              Forall (found_ok Ld (removelast keys)) found ->
              star [q] = Ok (flat_map (expand_below Ld keys values) found)) /\
         (forall w, dget (s_fields q) key = Some w -> w <> "*" -> mem_c ":" w = false ->
            forall found, find_g_sid Ld (fstar Ld F pf) rp = Ok found -> Forall plain_found found ->
              star [q] = Ok (map (fun p => child_str p w) found))
     end).
Proof.
  intros G Hv star keys. unfold star. rewrite fstar_constants_one. split; [|split].
  - exact (constants_star_nostar key values _ q G).
  - exact (constants_star_top key values _ q G Hv).
  - intros Hp. destruct pfd as [pf|]; cbn [option_map].
    + intros root rp Hroot Hpar.
      destruct (const_parent_rp key q root rp G Hp Hroot Hpar) as (_ & _ & _ & H1 & H2 & H3 & _).
      split; [exact H1|]. split; [exact H2|]. split; [exact H3|]. split.
      * intros Hget. exact (constants_star_parent_star key values (fstar Ld F pf) q root rp G Hv Hp Hget Hroot Hpar).
      * intros w Hget Hw Hcw.
        exact (constants_star_parent_lit key values (fstar Ld F pf) q w root rp G Hp Hget Hw Hcw Hroot Hpar).
    + destruct (constants_star_parent key values None q G Hp) as (n & n' & _ & _ & _ & _ & E). exact E.
Qed.

End Star.

Print Assumptions constants_star_spec.
Print Assumptions constants_star_parent.
Print Assumptions constants_star_parent_star.
Print Assumptions constants_star_parent_lit.

(** * Booleans *)

Fixpoint finder_eqb_eq (a : finder) : forall b, finder_eqb a b = true -> a = b.
Proof.
  destruct a as [i c0|i k vs p|i l]; intros [i' c'|i' k' vs' p'|i' l'] H; cbn [finder_eqb] in H; try discriminate.
  - apply andb_true_iff in H. destruct H as (H1 & H2). apply String.eqb_eq in H1, H2. subst. reflexivity.
  - apply andb_true_iff in H. destruct H as (H & H4). apply andb_true_iff in H. destruct H as (H & H3).
    apply andb_true_iff in H. destruct H as (H1 & H2). apply String.eqb_eq in H1, H2. apply strs_eqb_eq in H3.
    subst. destruct p as [x|], p' as [y|]; try discriminate; [|reflexivity].
    rewrite (finder_eqb_eq x y H4). reflexivity.
  - apply andb_true_iff in H. destruct H as (H1 & H2). apply String.eqb_eq in H1. apply strs_eqb_eq in H2.
    subst. reflexivity.
Qed.

Lemma routed_allb_sound Rt fd qs : routed_allb Rt fd qs = true -> routed_to Rt fd qs.
Proof.
  unfold routed_allb, routed_to. rewrite forallb_forall. intros H q Hq. specialize (H q Hq).
  destruct (finder_for Rt (s_type q)) as [g|]; [|discriminate]. rewrite (finder_eqb_eq g fd H). reflexivity.
Qed.

Lemma same_strb_sound s qs : same_strb s qs = true -> forall q, In q qs -> s_string q = s.
Proof. unfold same_strb. rewrite forallb_forall. intros H q Hq. apply String.eqb_eq. exact (H q Hq). Qed.

Lemma no_specialb_sound s : no_specialb s = true ->
  mem_c "*" s = false /\ mem_c ">" s = false /\ mem_c "?" s = false /\ mem_c "010" s = false.
Proof.
  unfold no_specialb. intros H. apply andb_true_iff in H. destruct H as (H & H4).
  apply andb_true_iff in H. destruct H as (H & H3). apply andb_true_iff in H. destruct H as (H1 & H2).
  apply negb_true_iff in H1, H2, H3, H4. repeat split; assumption.
Qed.

(** * De-duplication of a constant list *)

Lemma uniq_first_aux_all s : forall l, (forall y, In y l -> y = s) -> uniq_first_aux [s] l = [].
Proof.
  induction l as [|a l IH]; intros H; [reflexivity|]. cbn [uniq_first_aux].
  rewrite (H a (or_introl eq_refl)). cbn [in_list existsb]. rewrite String.eqb_refl. cbn [orb].
  apply IH. intros y Hy. apply H. right. exact Hy.
Qed.

Lemma dedup_first_const s l : l <> [] -> (forall y, In y l -> y = s) -> dedup_first l = [s].
Proof.
  intros Hne H. destruct l as [|a l]; [congruence|]. unfold dedup_first, uniq_first. cbn [uniq_first_aux in_list existsb].
  rewrite (H a (or_introl eq_refl)). rewrite uniq_first_aux_all; [reflexivity|]. intros y Hy. apply H. right. exact Hy.
Qed.

(** * 2 / 3. find_all, exists, children, siblings at a constants-backed level *)

Section Level.
Variables (c : Conf) (Ld : Loaded).
Hypothesis Hload : load c = Some Ld.
Hypothesis Hwf : wf_loadedb Ld = true.
Variable Rt : Routing.
Variable F : fs.

Lemma no_gt_existsb qs : (forall q, In q qs -> mem_c ">" (s_string q) = false) ->
  existsb (fun q => Nat.ltb 0 (count ">" (s_string q))) qs = false.
Proof.
  intros H. apply existsb_false. intros q Hq. change ">" with (str1 ">"). rewrite count_str1.
  rewrite (mem_c_count0 _ _ (H q Hq)). reflexivity.
Qed.

(* find_all when every typed search goes to the same constants finder: the loop body on each search,
   concatenated, without duplicates *)
Lemma find_all_constants s qs id key values pfd rs :
  unfold_search Ld s false false = Ok qs ->
  routed_to Rt (FConstants id key values pfd) qs ->
  (forall q, In q qs -> mem_c ">" (s_string q) = false) ->
  concat_mapM (const_one Ld key values (option_map (fstar Ld F) pfd)) qs = Ok rs ->
  find_all Ld Rt F s = Ok (dedup_first rs).
Proof.
  intros Hu Hr Hgt Hc. apply (find_all_one_finder_ok Ld Rt F _ s qs rs Hu Hr).
  rewrite (do_find_star_g Ld _ qs (no_gt_existsb qs Hgt)); [|rewrite fstar_constants; reflexivity].
  rewrite fstar_constants. exact Hc.
Qed.

(** ** searches without "*" (e.g. "hamlet/*" unfolds to "hamlet/a", "hamlet/s"): the searches themselves *)
Theorem find_all_constants_nostar s qs id key values pfd :
  unfold_search Ld s false false = Ok qs ->
  routed_to Rt (FConstants id key values pfd) qs ->
  (forall q, In q qs -> const_guard Ld key q /\ mem_c "*" (s_string q) = false /\
                        mem_c ">" (s_string q) = false) ->
  find_all Ld Rt F s = Ok (dedup_first (map s_string qs)).
Proof.
  intros Hu Hr Hqs. apply (find_all_constants s qs id key values pfd _ Hu Hr).
  - intros q Hq. exact (proj2 (proj2 (Hqs q Hq))).
  - apply concat_mapM_map. intros q Hq. destruct (Hqs q Hq) as (G & Hs & _).
    exact (constants_star_nostar c Ld Hload Hwf key values _ q G Hs).
Qed.

(** ** exists(): by configuration, whatever the file system holds *)
Theorem constants_exists x qs id key values pfd :
  naturally_typed Ld x ->
  mem_c "*" (s_string x) = false -> mem_c ">" (s_string x) = false ->
  unfold_search Ld (s_string x) false false = Ok qs -> qs <> [] ->
  routed_to Rt (FConstants id key values pfd) qs ->
  (forall q, In q qs -> s_string q = s_string x /\ const_guard Ld key q) ->
  find_all Ld Rt F (s_string x) = Ok [s_string x] /\ sid_exists Ld Rt F x = Ok true.
Proof.
  intros Hnat Hstar Hgt Hu Hne Hr Hqs.
  assert (Hc : concat_mapM (const_one Ld key values (option_map (fstar Ld F) pfd)) qs =
               Ok (flat_map (fun _ => [s_string x]) qs)).
  { apply concat_mapM_flat. intros q Hq. destruct (Hqs q Hq) as (Hs & G). rewrite <- Hs.
    apply (constants_star_nostar c Ld Hload Hwf key values _ q G). rewrite Hs. exact Hstar. }
  assert (Hf : find_all Ld Rt F (s_string x) = Ok [s_string x]).
  { rewrite (find_all_constants _ qs id key values pfd (flat_map (fun _ => [s_string x]) qs) Hu Hr);
      [|intros q Hq; rewrite (proj1 (Hqs q Hq)); exact Hgt|exact Hc].
    f_equal. apply dedup_first_const.
    - destruct qs as [|q0 qs']; [congruence | discriminate].
    - intros y Hy. apply in_flat_map in Hy. destruct Hy as (q & _ & [<-|[]]). reflexivity. }
  split; [exact Hf|]. unfold sid_exists.
  pose proof (nat_forced c Ld Hload Hwf x Hnat) as Ht.
  destruct (ts_parts Ld Hwf x Ht) as (Hs & ts & _ & _ & _ & _ & _ & Hnef & _).
  destruct (s_fields x) as [|p d0]; [congruence|]. rewrite Hf. cbn [bind]. unfold truthy.
  apply sempty_false in Hs. rewrite Hs. reflexivity.
Qed.

(* in the form of the brief: x is naturally typed, the routing sends its type to a constants finder whose
   key is the keytype of x, and the search for x's own string is x itself *)
Corollary constants_exists_self x id key values pfd :
  naturally_typed Ld x -> keytype x = Some key ->
  finder_for Rt (s_type x) = Some (FConstants id key values pfd) ->
  no_specialb (s_string x) = true ->
  unfold_search Ld (s_string x) false false = Ok [x] ->
  sid_exists Ld Rt F x = Ok true.
Proof.
  intros Hnat Hk Hfd Hsp Hu. destruct (no_specialb_sound _ Hsp) as (H1 & H2 & H3 & H4).
  apply (constants_exists x [x] id key values pfd Hnat H1 H2 Hu); [discriminate | |].
  - intros q [<-|[]]. exact Hfd.
  - intros q [<-|[]]. split; [reflexivity|]. split; [exact (nat_forced c Ld Hload Hwf x Hnat)|].
    split; [|split; assumption].
    destruct (coherence c Ld Hload Hwf x Hnat) as (tp & _ & _ & _ & _ & Hkt & _). congruence.
Qed.

(* the guard as one boolean on x *)
Corollary constants_existsb x id key values pfd :
  const_exists_guardb Ld Rt (FConstants id key values pfd) key x = true ->
  find_all Ld Rt F (s_string x) = Ok [s_string x] /\ sid_exists Ld Rt F x = Ok true.
Proof.
  unfold const_exists_guardb. intros Hg. apply andb_true_iff in Hg. destruct Hg as (Hg & Hu).
  apply andb_true_iff in Hg. destruct Hg as (Hnat & Hsp).
  destruct (no_specialb_sound _ Hsp) as (H1 & H2 & _ & _).
  destruct (unfold_search Ld (s_string x) false false) as [qs|ex] eqn:Eu; [|discriminate].
  apply andb_true_iff in Hu. destruct Hu as (Hu & H6). apply andb_true_iff in Hu. destruct Hu as (Hu & H5).
  apply andb_true_iff in Hu. destruct Hu as (H3 & H4).
  apply (constants_exists x qs id key values pfd (nat_typedb_sound Ld x Hnat) H1 H2 Eu).
  - destruct qs; [discriminate | discriminate].
  - exact (routed_allb_sound _ _ _ H4).
  - intros q Hq. split; [exact (same_strb_sound _ _ H5 q Hq)|].
    rewrite forallb_forall in H6. exact (const_guardb_sound Ld key q (H6 q Hq)).
Qed.


(** ** a search with a "*" in its last segment only: the accepted configured values, whatever the file
    system holds; the parent finder is not consulted *)
Theorem find_all_constants_top s s0 qs id key values pfd :
  unfold_search Ld s false false = Ok qs ->
  routed_to Rt (FConstants id key values pfd) qs ->
  (forall q, In q qs -> s_string q = s0 /\ const_guard Ld key q) ->
  forallb const_value_okb values = true ->
  mem_c "*" s0 = true -> mem_c "*" (par_str s0) = false -> mem_c ">" s0 = false ->
  find_all Ld Rt F s = Ok (dedup_first (flat_map (fun q => expand Ld (map fst (s_fields q)) s0 values) qs)).
Proof.
  intros Hu Hr Hqs Hv Hs Hp Hgt.
  apply (find_all_constants s qs id key values pfd _ Hu Hr).
  - intros q Hq. rewrite (proj1 (Hqs q Hq)). exact Hgt.
  - apply concat_mapM_flat. intros q Hq. destruct (Hqs q Hq) as (E & G). rewrite <- E.
    apply (constants_star_top c Ld Hload Hwf key values _ q G Hv); rewrite E; assumption.
Qed.

Lemma expand_child keys p w values : mem_c "/" w = false ->
  expand Ld keys (child_str p w) values = expand_below Ld keys values p.
Proof.
  intros Hw. unfold expand, expand_below.
  rewrite (map_ext _ (child_str p) (fun v => set_last_below p w v Hw)).
  rewrite (filter_ext _ (fun v => acceptedb Ld keys (child_str p v))); [reflexivity|].
  intros v. rewrite (set_last_below p w v Hw). reflexivity.
Qed.

Lemma expand_below_one_In keys values p r :
  In r (expand_below Ld keys values p) <->
  exists v, In v values /\ accepted Ld keys (child_str p v) /\ r = child_str p v.
Proof.
  unfold expand_below. rewrite in_map_iff. split.
  - intros (v & <- & Hv). apply filter_In in Hv. destruct Hv as (Hv & Ha). apply acceptedb_spec in Ha.
    exists v. repeat split; assumption.
  - intros (v & Hv & Ha & ->). exists v. split; [reflexivity|]. apply filter_In. split; [exact Hv|].
    apply acceptedb_spec. exact Ha.
Qed.

(* "<x>/*" is read back with that string when x has no "?" and no ":" *)
Lemma sid_div_star x : plain_found (s_string x) ->
  exists q0, sid_div Ld x "*" = Ok q0 /\ s_string q0 = child_str (s_string x) "*".
Proof.
  intros (Hq & Hc). unfold sid_div, sip.
  assert (H1 : mem_c "?" (s_string x ++ "/" ++ "*") = false) by (rewrite !mem_c_app, Hq; reflexivity).
  assert (H2 : mem_c ":" (s_string x ++ "/" ++ "*") = false) by (rewrite !mem_c_app, Hc; reflexivity).
  rewrite (Sid_plain c Ld Hload Hwf _ H1 H2). eexists. split; [reflexivity|]. apply typed_or_untyped_string.
Qed.

(** ** children() of a Sid whose child level is backed by constants: "<x>/<v>" for the accepted values.
    x itself is not looked up (its string has no "*": the parent finder is not consulted). *)
Theorem constants_children x q0 qs id key values pfd :
  is_leaf Ld x = false -> mem_c "*" (s_string x) = false -> mem_c ">" (s_string x) = false ->
  sid_div Ld x "*" = Ok q0 -> s_string q0 = child_str (s_string x) "*" ->
  unfold_search Ld (s_string q0) false false = Ok qs ->
  routed_to Rt (FConstants id key values pfd) qs ->
  (forall q, In q qs -> s_string q = s_string q0 /\ const_guard Ld key q) ->
  forallb const_value_okb values = true ->
  children Ld Rt F x =
  Ok (dedup_first (flat_map (fun q => expand_below Ld (map fst (s_fields q)) values (s_string x)) qs)).
Proof.
  intros Hleaf Hs Hgt Hdiv Hq0 Hu Hr Hqs Hv.
  rewrite (children_nonleaf Ld Rt F x Hleaf), Hdiv. cbn [bind].
  rewrite (find_all_constants_top (s_string q0) (s_string q0) qs id key values pfd Hu Hr Hqs Hv).
  - rewrite Hq0. f_equal. f_equal. apply flat_map_ext. intros q. apply expand_child. reflexivity.
  - rewrite Hq0. unfold child_str. rewrite !mem_c_app. cbn. rewrite orb_true_r. reflexivity.
  - rewrite Hq0, par_str_child; [exact Hs | reflexivity].
  - rewrite Hq0. unfold child_str. rewrite !mem_c_app, Hgt. reflexivity.
Qed.

Corollary constants_children_In x q0 qs id key values pfd l :
  is_leaf Ld x = false -> mem_c "*" (s_string x) = false -> mem_c ">" (s_string x) = false ->
  sid_div Ld x "*" = Ok q0 -> s_string q0 = child_str (s_string x) "*" ->
  unfold_search Ld (s_string q0) false false = Ok qs ->
  routed_to Rt (FConstants id key values pfd) qs ->
  (forall q, In q qs -> s_string q = s_string q0 /\ const_guard Ld key q) ->
  forallb const_value_okb values = true ->
  children Ld Rt F x = Ok l ->
  forall r, In r l <->
    exists q v, In q qs /\ In v values /\
      accepted Ld (map fst (s_fields q)) (child_str (s_string x) v) /\ r = child_str (s_string x) v.
Proof.
  intros Hleaf Hs Hgt Hdiv Hq0 Hu Hr Hqs Hv H r.
  rewrite (constants_children x q0 qs id key values pfd Hleaf Hs Hgt Hdiv Hq0 Hu Hr Hqs Hv) in H.
  inversion H; subst l. rewrite dedup_first_In, in_flat_map. split.
  - intros (q & Hq & Hin). apply expand_below_one_In in Hin. destruct Hin as (v & H1 & H2 & H3).
    exists q, v. repeat split; assumption.
  - intros (q & v & Hq & H1 & H2 & H3). exists q. split; [exact Hq|]. apply expand_below_one_In.
    exists v. repeat split; assumption.
Qed.

(* the guards as one boolean on x *)
Corollary constants_childrenb x id key values pfd :
  const_children_guardb Ld Rt (FConstants id key values pfd) key x = true ->
  forallb const_value_okb values = true ->
  exists qs, unfold_search Ld (child_str (s_string x) "*") false false = Ok qs /\
    children Ld Rt F x =
    Ok (dedup_first (flat_map (fun q => expand_below Ld (map fst (s_fields q)) values (s_string x)) qs)).
Proof.
  unfold const_children_guardb. intros Hg Hv. apply andb_true_iff in Hg. destruct Hg as (Hg & Hu).
  apply andb_true_iff in Hg. destruct Hg as (Hg & Hgt). apply andb_true_iff in Hg. destruct Hg as (Hleaf & Hs).
  apply negb_true_iff in Hleaf, Hs, Hgt.
  destruct (sid_div Ld x "*") as [q0|ex] eqn:Ed; [|discriminate].
  apply andb_true_iff in Hu. destruct Hu as (Hq0 & Hu). apply String.eqb_eq in Hq0.
  destruct (unfold_search Ld (s_string q0) false false) as [qs|ex] eqn:Eu; [|discriminate].
  apply andb_true_iff in Hu. destruct Hu as (Hu & H6). apply andb_true_iff in Hu. destruct Hu as (Hu & H5).
  apply andb_true_iff in Hu. destruct Hu as (_ & H4).
  exists qs. split; [rewrite <- Hq0; exact Eu|].
  apply (constants_children x q0 qs id key values pfd Hleaf Hs Hgt Ed Hq0 Eu (routed_allb_sound _ _ _ H4)); [|exact Hv].
  intros q Hq. split; [exact (same_strb_sound _ _ H5 q Hq)|].
  rewrite forallb_forall in H6. exact (const_guardb_sound Ld key q (H6 q Hq)).
Qed.

(* when "<x>/*" unfolds to searches without "*" (the unfolder enumerates a closed placeholder: "hamlet/*"
   gives "hamlet/a", "hamlet/s"): the children are those searches themselves *)
Theorem constants_children_unfolded x q0 qs id key values pfd :
  is_leaf Ld x = false -> sid_div Ld x "*" = Ok q0 ->
  unfold_search Ld (s_string q0) false false = Ok qs ->
  routed_to Rt (FConstants id key values pfd) qs ->
  (forall q, In q qs -> const_guard Ld key q /\ mem_c "*" (s_string q) = false /\
                        mem_c ">" (s_string q) = false) ->
  children Ld Rt F x = Ok (dedup_first (map s_string qs)).
Proof.
  intros Hleaf Hdiv Hu Hr Hqs. rewrite (children_nonleaf Ld Rt F x Hleaf), Hdiv. cbn [bind].
  exact (find_all_constants_nostar (s_string q0) qs id key values pfd Hu Hr Hqs).
Qed.

(** ** siblings() at a constants-backed level: the accepted configured values in place of the last
    segment (the Sid itself is among them iff its own value is a configured, accepted one) *)
Theorem constants_siblings x k a q0 qs id values pfd :
  keytype x = Some k -> get_as Ld x k = Ok a -> get_with_kw Ld a [(k, Some "*")] = Ok q0 ->
  unfold_search Ld (s_string q0) false false = Ok qs ->
  routed_to Rt (FConstants id k values pfd) qs ->
  (forall q, In q qs -> s_string q = s_string q0 /\ const_guard Ld k q) ->
  forallb const_value_okb values = true ->
  mem_c "*" (s_string q0) = true -> mem_c "*" (par_str (s_string q0)) = false ->
  mem_c ">" (s_string q0) = false ->
  siblings Ld Rt F x =
  Ok (dedup_first (flat_map (fun q => expand Ld (map fst (s_fields q)) (s_string q0) values) qs)).
Proof.
  intros Hk Ha Hq0 Hu Hr Hqs Hv Hs Hp Hgt. unfold siblings. rewrite Hk. unfold siblings_as.
  rewrite (keytype_dmem x k Hk). cbn [negb]. rewrite Ha. cbn [bind]. unfold get_with_kv. rewrite Hq0. cbn [bind].
  exact (find_all_constants_top (s_string q0) (s_string q0) qs id k values pfd Hu Hr Hqs Hv Hs Hp Hgt).
Qed.

(** ** a search with a "*" above its last segment (one typed search): the parent finder answers the
    parent search; the configured values are expanded below every root it finds *)
Theorem find_all_constants_parent s q id key values pf root rp :
  unfold_search Ld s false false = Ok [q] ->
  finder_for Rt (s_type q) = Some (FConstants id key values (Some pf)) ->
  const_guard Ld key q -> forallb const_value_okb values = true -> mem_c ">" (s_string q) = false ->
  mem_c "*" (par_str (s_string q)) = true -> dget (s_fields q) key = Some "*" ->
  get_as Ld q key = Ok root -> parent Ld root = Ok rp ->
  (forall e, find_g_sid Ld (fstar Ld F pf) rp = Raise e -> find_all Ld Rt F s = Raise e) /\
  forall found, find_g_sid Ld (fstar Ld F pf) rp = Ok found ->
    Forall (found_ok Ld (removelast (map fst (s_fields q)))) found ->
    find_all Ld Rt F s =
    Ok (dedup_first (flat_map (expand_below Ld (map fst (s_fields q)) values) found)).
Proof.
  intros Hu Hfd G Hv Hgt Hp Hget Hroot Hpar.
  destruct (constants_star_parent_star c Ld Hload Hwf key values (fstar Ld F pf) q root rp G Hv Hp Hget Hroot Hpar)
    as (H4 & H5).
  assert (Hr : routed_to Rt (FConstants id key values (Some pf)) [q]) by (intros q' [<-|[]]; exact Hfd).
  split.
  - intros e He. unfold find_all. rewrite Hu. cbn [bind].
    rewrite (group_by_finder_same Rt _ [q] Hr). cbn [concat_mapM fst snd].
    rewrite (do_find_star_g Ld _ [q]); [|apply no_gt_existsb; intros q' [<-|[]]; exact Hgt | rewrite fstar_constants; reflexivity].
    rewrite fstar_constants_one.
    change (option_map (fstar Ld F) (Some pf)) with (Some (fstar Ld F pf)). pose proof (H4 e He) as HH. unfold star_fn in HH. rewrite HH. reflexivity.
  - intros found Hf Hall.
    apply (find_all_constants s [q] id key values (Some pf) _ Hu Hr).
    + intros q' [<-|[]]. exact Hgt.
    + rewrite concat_mapM_one. exact (H5 found Hf Hall).
Qed.

End Level.

Print Assumptions find_all_constants_parent.
Print Assumptions constants_exists.
Print Assumptions constants_exists_self.
Print Assumptions constants_existsb.
Print Assumptions find_all_constants_nostar.
Print Assumptions find_all_constants_top.
Print Assumptions constants_children.
Print Assumptions constants_children_In.
Print Assumptions constants_childrenb.
Print Assumptions constants_children_unfolded.
Print Assumptions constants_siblings.
