(** C16 — a Getter returns one record per Sid its Finder finds, in the same order.  Property theorems only. *)
From Coq Require Import List String Ascii Bool Arith.
From Spil Require Import Base.Str Base.Dict Base.Outcome Base.PyPath Resolva.Resolver Conf.Conf Conf.Routing Conf.WF Sid.Sid
  Search.Unfold Search.Finders FS.Fs Data.Data Data.Crash Path.PathProofs Data.DataProofs Data.CrashProofs.
From SpilGen Require Hamlet.
Import ListNotations.
Local Open Scope string_scope.

Theorem C16_get_is_map_of_find : forall c Ld, load c = Some Ld -> wf_loadedb Ld = true ->
  forall F cfg q attrs enc recs, get_paths Ld F cfg q attrs enc = Ok recs ->
  exists found, ffind Ld F (FPaths "" (default_cfg Ld cfg)) q = Ok found /\
                List.length recs = List.length found /\
                Forall2 (fun s r => exists x, Sid Ld s = Ok x /\ get_data_paths Ld F cfg x attrs enc = Ok r) found recs.
Proof. exact get_is_map_of_find. Qed.
Print Assumptions C16_get_is_map_of_find.

(* with an attributes list each mapping has exactly those keys *)
Theorem C16_record_keys : forall c Ld, load c = Some Ld -> wf_loadedb Ld = true ->
  forall F cfg x attrs enc r, get_data_paths Ld F cfg x attrs enc = Ok r -> attrs <> [] ->
  (sid_path Ld x (default_cfg Ld cfg) = Ok None /\ r = []) \/ map fst r = attrs.
Proof. exact record_keys_cases. Qed.
Print Assumptions C16_record_keys.

(* the Sid under "sid", encoded by the given encoder; omitted when it returns None *)
Theorem C16_sid_key : forall c Ld, load c = Some Ld -> wf_loadedb Ld = true ->
  forall F cfg x enc r e p, get_data_paths Ld F cfg x [] enc = Ok r -> encode enc x = Some e -> truthy e = true ->
  sid_path Ld x (default_cfg Ld cfg) = Ok (Some p) -> dget r "sid" = Some (Some e).
Proof. exact record_sid_key. Qed.
Print Assumptions C16_sid_key.

Theorem C16_sid_key_omitted : forall c Ld, load c = Some Ld -> wf_loadedb Ld = true ->
  forall F cfg x enc r p, get_data_paths Ld F cfg x [] enc = Ok r -> encode enc x = None ->
  sid_path Ld x (default_cfg Ld cfg) = Ok (Some p) ->
  r = map (fun kv => (fst kv, Some (snd kv))) (load_sidecar F (sidecar Ld p)) /\
  dget r "sid" = option_map Some (dget (load_sidecar F (sidecar Ld p)) "sid").
Proof. exact record_sid_key_untouched. Qed.
Print Assumptions C16_sid_key_omitted.

(* types configured without a Getter yield nothing, without failing *)
Theorem C16_no_getter : forall c Ld Rt, load c = Some Ld -> wf_loadedb Ld = true ->
  forall F search attrs enc qs, unfold_search Ld search false false = Ok qs ->
  (forall q, In q qs -> getter_for Rt (s_type q) false = GNone) ->
  get_all Ld Rt F search attrs enc = Ok [].
Proof. exact get_all_no_getter. Qed.
Print Assumptions C16_no_getter.
