(** C15 — created entities exist, and attribute data reads back what was written.  Property theorems only
    (over the file-system model FS/Fs.v and the writer / getter model Data/Data.v).  A failing operation returns no new
    state (outcome type): "changes nothing" holds by construction.  Existence through searches goes through FindInAll and
    is checked on the implementation over exhaustive short and random histories and by tree-to-model comparison. *)
From Coq Require Import List String Ascii Bool Arith.
From Spil Require Import Base.Str Base.Dict Base.Outcome Base.PyPath Resolva.Resolver Conf.Conf Conf.Routing Conf.WF Sid.Sid
  Search.Unfold Search.Finders FS.Fs Data.Data Data.Crash Path.PathProofs Data.DataProofs Data.CrashProofs.
From Spil Require Import Sid.SidProofs Path.UnambiguousDefs Search.TreeListDefs Data.SidLevelDefs Data.CreateDefs Data.CreateFs Data.CreateProofs.
From Spil Require Import Data.HistoryDefs Data.HistoryProofs.
From SpilGen Require Hamlet.
Import ListNotations.
Local Open Scope string_scope.

Theorem C15_create_existing_fails : forall c Ld Rt, load c = Some Ld -> wf_loadedb Ld = true ->
  forall F cfg s data x p, Sid Ld s = Ok x -> sid_path Ld x (default_cfg Ld cfg) = Ok (Some p) ->
  fs_exists F p = true -> w_create Ld Rt F cfg s data = Raise SpilException.
Proof. exact create_existing_fails. Qed.
Print Assumptions C15_create_existing_fails.

Theorem C15_update_missing_fails : forall c Ld, load c = Some Ld -> wf_loadedb Ld = true ->
  forall F cfg s data x p, Sid Ld s = Ok x -> sid_path Ld x (default_cfg Ld cfg) = Ok (Some p) ->
  fs_exists F p = false -> w_update Ld F cfg s data = Raise SpilException.
Proof. exact update_missing_fails. Qed.
Print Assumptions C15_update_missing_fails.

Theorem C15_no_path_fails : forall c Ld Rt, load c = Some Ld -> wf_loadedb Ld = true ->
  forall F cfg s data x, Sid Ld s = Ok x -> sid_path Ld x (default_cfg Ld cfg) = Ok None ->
  w_create Ld Rt F cfg s data = Raise SpilException /\ w_update Ld F cfg s data = Raise SpilException.
Proof. exact no_path_write_fails. Qed.
Print Assumptions C15_no_path_fails.

(* what is read after a write is the overlay of the previous data with the written values (later replace earlier, other keys persist) *)
Theorem C15_read_after_write : forall c Ld, load c = Some Ld -> wf_loadedb Ld = true ->
  forall F cfg s data F' b x p, w_update Ld F cfg s data = Ok (F', b) -> Sid Ld s = Ok x ->
  sid_path Ld x (default_cfg Ld cfg) = Ok (Some p) ->
  load_sidecar F' (sidecar Ld p) = match fs_get F (sidecar Ld p) with
                                    | Some _ => dupdate (load_sidecar F (sidecar Ld p)) data
                                    | None => data
                                    end.
Proof. exact read_after_write_sidecar. Qed.
Print Assumptions C15_read_after_write.

(* a write touches exactly one file: the sidecar of the written entity *)
Theorem C15_isolation : forall c Ld, load c = Some Ld -> wf_loadedb Ld = true ->
  forall F cfg s data F' b, w_update Ld F cfg s data = Ok (F', b) ->
  exists x p, Sid Ld s = Ok x /\ sid_path Ld x (default_cfg Ld cfg) = Ok (Some p) /\
              forall q, q <> sidecar Ld p -> fs_get F' q = fs_get F q.
Proof. exact write_isolation. Qed.
Print Assumptions C15_isolation.

Theorem C15_isolation_read : forall c Ld, load c = Some Ld -> wf_loadedb Ld = true ->
  forall F cfg s data F' b x p, w_update Ld F cfg s data = Ok (F', b) -> Sid Ld s = Ok x ->
  sid_path Ld x (default_cfg Ld cfg) = Ok (Some p) ->
  forall cfg' y attrs enc,
  (forall py, sid_path Ld y (default_cfg Ld cfg') = Ok (Some py) -> sidecar Ld py <> sidecar Ld p) ->
  get_data_paths Ld F' cfg' y attrs enc = get_data_paths Ld F cfg' y attrs enc.
Proof. exact write_isolation_get. Qed.
Print Assumptions C15_isolation_read.

(* entities whose paths differ only by the file extension share one sidecar (by design of get_data_json_path) *)
Theorem C15_same_stem_shares : forall suf d stem, mem_c "/" stem = false ->
  sidecar_path suf (d ++ "/" ++ stem ++ ".ma") = sidecar_path suf (d ++ "/" ++ stem ++ ".mb").
Proof. exact sidecar_same_stem_ma_mb. Qed.
Print Assumptions C15_same_stem_shares.

(** ** "an entity exists exactly from the moment it or a descendant was created": an invariant over histories of creations
    (Data/CreateProofs.v).  [dataset_ok] (the tree holds exactly the paths of a set of Sids, everything else resolves to nothing)
    is kept by every successful creation of a Sid passing the decidable guard [create_guardb] (good values, no hidden component,
    and path templates that mirror the Sid hierarchy on this Sid: every directory above its path resolves to nothing or to
    one of its own prefix Sids); so after ANY history from the empty tree the members are exactly the created Sids and their
    ancestors that have a path, and exists() says so.  Creations with data add a hidden sidecar, which at a level with a free
    value resolves to a Sid (the junk class "sidecar files"): they are covered by the history correspondence, not by this theorem. *)

(* one successful creation *)
Theorem C15_create_step :
  forall (c : Conf) (Ld : Loaded),
  load c = Some Ld ->
  wf_loadedb Ld = true ->
  paths_unambiguousb Ld = true ->
  forall (Rt : Routing) (cfg : string) (E : list sid) (F F' : fs) (s : string) (x : sid),
  dataset_ok Ld (default_cfg Ld cfg) E F ->
  fs_inv F ->
  w_create Ld Rt F cfg s [] = Ok (F', true) ->
  Sid Ld s = Ok x ->
  create_guardb Ld (default_cfg Ld cfg) x = true ->
  exists E' : list sid,
    dataset_ok Ld (default_cfg Ld cfg) E' F' /\
    fs_inv F' /\
    (forall e : sid,
     In e E' <->
     In e E \/ e = x \/ (exists k pe : string, get_as Ld x k = Ok e /\ sid_path Ld e (default_cfg Ld cfg) = Ok (Some pe))).
Proof. exact create_step_spec. Qed.
Print Assumptions C15_create_step.

(* what a failing creation can be (and, the outcome carrying no new state, it changes nothing) *)
Theorem C15_create_raise :
  forall (Ld : Loaded) (Rt : Routing) (F : fs) (cfg s : string) (data : dict string) (e : exn),
  w_create Ld Rt F cfg s data = Raise e ->
  Sid Ld s = Raise e \/
  (exists x : sid,
     Sid Ld s = Ok x /\
     (sid_path Ld x (default_cfg Ld cfg) = Raise e \/
      sid_path Ld x (default_cfg Ld cfg) = Ok None /\ e = SpilException \/
      (exists p : string,
         sid_path Ld x (default_cfg Ld cfg) = Ok (Some p) /\
         (fs_exists F p = true /\ e = SpilException \/
          fs_exists F p = false /\ create_op Ld Rt F x p = Raise OSError /\ e = OSError \/
          fs_exists F p = false /\ data <> [] /\ (e = JSONDecodeError \/ e = OSError))))).
Proof. exact create_raise. Qed.
Print Assumptions C15_create_raise.

(* creating fails with SpilException exactly when the entity exists already *)
Theorem C15_create_existing_iff :
  forall (c : Conf) (Ld : Loaded),
  load c = Some Ld ->
  wf_loadedb Ld = true ->
  paths_unambiguousb Ld = true ->
  forall (Rt : Routing) (cfg : string) (E : list sid) (F : fs) (s : string) (x : sid) (p : string),
  dataset_ok Ld (default_cfg Ld cfg) E F ->
  Sid Ld s = Ok x ->
  naturally_typed Ld x ->
  concrete Ld x ->
  path_values_ok x ->
  sid_path Ld x (default_cfg Ld cfg) = Ok (Some p) -> w_create Ld Rt F cfg s [] = Raise SpilException <-> In x E.
Proof. exact create_existing_iff. Qed.
Print Assumptions C15_create_existing_iff.

(* any history of creations from the empty tree *)
Theorem C15_history_invariant :
  forall (c : Conf) (Ld : Loaded),
  load c = Some Ld ->
  wf_loadedb Ld = true ->
  paths_unambiguousb Ld = true ->
  forall (Rt : Routing) (cfg : string) (ss : list string),
  dataset_okb Ld (default_cfg Ld cfg) [] fs_root = true ->
  hist_okb Ld cfg ss = true ->
  dataset_ok Ld (default_cfg Ld cfg) (closure Ld cfg (created Ld Rt cfg fs_root ss)) (run_creates Ld Rt cfg fs_root ss) /\
  fs_inv (run_creates Ld Rt cfg fs_root ss).
Proof. exact history_from_root. Qed.
Print Assumptions C15_history_invariant.

(* exists() after any history: true exactly when the Sid or a descendant of it was created *)
Theorem C15_exists_after_history :
  forall (c : Conf) (Ld : Loaded),
  load c = Some Ld ->
  wf_loadedb Ld = true ->
  paths_unambiguousb Ld = true ->
  forall (Rt : Routing) (cfg id : string) (ss : list string) (x : sid) (b : bool),
  dataset_okb Ld (default_cfg Ld cfg) [] fs_root = true ->
  hist_okb Ld cfg ss = true ->
  exists_guardb Ld Rt id (default_cfg Ld cfg) x = true ->
  sid_exists Ld Rt (run_creates Ld Rt cfg fs_root ss) x = Ok b ->
  b = true <->
  (exists (s : string) (z : sid) (p : string),
     In s (created Ld Rt cfg fs_root ss) /\
     Sid Ld s = Ok z /\ sid_path Ld z (default_cfg Ld cfg) = Ok (Some p) /\ anc_with_path Ld (default_cfg Ld cfg) z x).
Proof. exact exists_after_history. Qed.
Print Assumptions C15_exists_after_history.

(* ... and false on the empty tree *)
Theorem C15_exists_before :
  forall (c : Conf) (Ld : Loaded),
  load c = Some Ld ->
  wf_loadedb Ld = true ->
  paths_unambiguousb Ld = true ->
  forall (Rt : Routing) (cfg id : string) (x : sid) (b : bool),
  dataset_okb Ld (default_cfg Ld cfg) [] fs_root = true ->
  exists_guardb Ld Rt id (default_cfg Ld cfg) x = true -> sid_exists Ld Rt fs_root x = Ok b -> b = false.
Proof. exact exists_before. Qed.
Print Assumptions C15_exists_before.

(* instance on the configuration of this run: the guards hold for a history of creations, and what exists() answers *)
Definition Rt15 : Routing := match parse_routing Hamlet.raw with Some r => r | None => mkRouting [] [] false end.
Definition hist15 : list string :=
  ["hamlet/a/char/ophelia/model/v001/w/ma"; "hamlet/a/char/ophelia/model/v001/w/ma"; "hamlet/a/char/ophelia";
   "hamlet/a/char/ophelia/model/v001/w"; "hamlet/s/sq010/sh0010/anim/v002/p/mov"; "hamlet/a/prop/skull"].
Example C15_instance :
  dataset_okb Hamlet.the_loaded (default_cfg Hamlet.the_loaded "") [] fs_root = true /\
  hist_okb Hamlet.the_loaded "" hist15 = true /\
  map (fun s => match Sid Hamlet.the_loaded s with
                | Ok x => sid_exists Hamlet.the_loaded Rt15 (run_creates Hamlet.the_loaded Rt15 "" fs_root hist15) x
                | Raise e => Raise e end)
      ["hamlet/a/char/ophelia/model/v001"; "hamlet/a/char/ophelia/rig"; "hamlet/a/prop/skull"; "hamlet/s/sq010/sh0010/anim"; "hamlet/s/sq010/sh0020"]
  = [Ok true; Ok false; Ok true; Ok true; Ok false].
Proof. vm_compute. repeat split; reflexivity. Qed.
Print Assumptions C15_instance.

(** ** "The data read for a Sid is the overlay, in call order, of everything written to it": histories of create / set / update
    calls (Data/HistoryDefs.v, Data/HistoryProofs.v).  [run_hist] runs the calls one after the other, a failing call leaving the
    tree as it is; [writes_to dp] collects, along the run, the data of the calls that returned True having written (a create()
    with data, any update()) and whose Sid has the sidecar file dp.  The equation holds for EVERY tree and EVERY path dp; its only
    guard is that the written dicts have distinct keys ([hist_nodupb]; without it: C15_data_history_needs_nodup).  No condition on
    paths is needed: a creation changes no node that is there, and what it adds (a directory, an empty file) reads as "no data"
    like a missing sidecar.  If dp holds something that cannot be loaded, no write to it succeeds and it stays
    (C15_data_history_blocked), so both sides are "no data". *)
Theorem C15_data_history :
  forall (L : Loaded) (R : Routing) (ops : list wop) (F : fs) (dp : string),
  hist_nodupb ops = true ->
  load_sidecar (fst (run_hist L R F ops)) dp = fold_left dupdate (writes_to L R dp F ops) (load_sidecar F dp).
Proof. exact data_history. Qed.
Print Assumptions C15_data_history.

(* a corrupt / empty / unreadable file or a directory at the place of a sidecar: it stays, and no write to it succeeds *)
Theorem C15_data_history_blocked :
  forall (L : Loaded) (R : Routing) (ops : list wop) (F : fs) (dp : string) (n : node),
  fs_get F dp = Some n ->
  node_blocked n = true ->
  fs_get (fst (run_hist L R F ops)) dp = Some n /\ writes_to L R dp F ops = [].
Proof. exact data_history_blocked. Qed.
Print Assumptions C15_data_history_blocked.

(* a path that no successful write addressed and that no creation may have added is as it was *)
Theorem C15_data_history_frame :
  forall (L : Loaded) (R : Routing) (ops : list wop) (F : fs) (q : string),
  ~ In q (written_targets L R F ops) ->
  ~ In q (created_by L R F ops) ->
  fs_get (fst (run_hist L R F ops)) q = fs_get F q.
Proof. exact data_history_frame. Qed.
Print Assumptions C15_data_history_frame.

(* the data of a Sid whose sidecar no call succeeded to write is as it was (whatever configuration it is read with) *)
Theorem C15_data_history_isolation :
  forall (L : Loaded) (R : Routing) (ops : list wop) (F : fs) (cfg' : string) (y : sid) (attrs : list string) (enc : encoder),
  (forall py : string, sid_path L y (default_cfg L cfg') = Ok (Some py) ->
                       ~ In (sidecar L py) (written_targets L R F ops)) ->
  get_data_paths L (fst (run_hist L R F ops)) cfg' y attrs enc = get_data_paths L F cfg' y attrs enc.
Proof. exact data_history_isolation. Qed.
Print Assumptions C15_data_history_isolation.

(* "writing to one entity never changes the data of an entity whose path differs from its own by more than the file extension" *)
Theorem C15_data_history_isolation_paths :
  forall (L : Loaded) (R : Routing) (ops : list wop) (F : fs) (cfg' : string) (y : sid) (attrs : list string) (enc : encoder),
  (forall (py : string) (op : wop) (p : string),
     sid_path L y (default_cfg L cfg') = Ok (Some py) ->
     In op ops ->
     entity_path L (op_cfg op) (op_sid op) = Some p ->
     parent_path p <> parent_path py \/ sidecar_stem p <> sidecar_stem py) ->
  get_data_paths L (fst (run_hist L R F ops)) cfg' y attrs enc = get_data_paths L F cfg' y attrs enc.
Proof. exact data_history_isolation_paths. Qed.
Print Assumptions C15_data_history_isolation_paths.

(* the record get_data returns after the history: the overlay, plus the "sid" entry *)
Theorem C15_data_history_read :
  forall (L : Loaded) (R : Routing) (ops : list wop) (F : fs) (cfg : string) (x : sid) (p : string) (enc : encoder),
  hist_nodupb ops = true ->
  sid_path L x (default_cfg L cfg) = Ok (Some p) ->
  get_data_paths L (fst (run_hist L R F ops)) cfg x [] enc =
  Ok (let data := map (fun kv => (fst kv, Some (snd kv)))
                      (fold_left dupdate (writes_to L R (sidecar L p) F ops) (load_sidecar F (sidecar L p))) in
      match encode enc x with
      | Some e => if truthy e then dset data "sid" (Some e) else data
      | None => data
      end).
Proof. exact data_history_read. Qed.
Print Assumptions C15_data_history_read.

(* where the visibility of the created paths matters ([hist_pathsb]: no path a create() may add has a component starting
   with "."): a sidecar (or any path with such a component) that is absent or a JSON file stays absent or a JSON file,
   so no write is refused because of what a creation put there *)
Theorem C15_data_history_unblocked :
  forall (L : Loaded) (R : Routing) (ops : list wop) (F : fs) (dp : string),
  hist_pathsb L ops = true ->
  no_hiddenb dp = false ->
  sidecar_free F dp = true ->
  sidecar_free (fst (run_hist L R F ops)) dp = true.
Proof. exact data_history_unblocked. Qed.
Print Assumptions C15_data_history_unblocked.

Theorem C15_data_history_update_succeeds :
  forall (L : Loaded) (R : Routing) (ops : list wop) (F : fs) (cfg s : string) (data : dict string) (x : sid) (p : string),
  hist_pathsb L ops = true ->
  Sid L s = Ok x ->
  sid_path L x (default_cfg L cfg) = Ok (Some p) ->
  sidecar_free F (sidecar L p) = true ->
  fs_exists (fst (run_hist L R F ops)) p = true ->
  exists F' : fs, w_update L (fst (run_hist L R F ops)) cfg s data = Ok (F', true).
Proof. exact data_history_update_succeeds. Qed.
Print Assumptions C15_data_history_update_succeeds.

(* two paths share their sidecar ONLY IF they lie in the same directory and have the same dotted stem, i.e. differ by no
   more than the last extension (the converse of C15_same_stem_shares); no hypothesis *)
Theorem C15_sidecar_path_stem :
  forall suf p : string,
  sidecar_path suf p = (if String.eqb (parent_path p) "/" then "/" else parent_path p ++ "/") ++ sidecar_stem p ++ suf.
Proof. exact sidecar_path_stem. Qed.
Print Assumptions C15_sidecar_path_stem.

Theorem C15_sidecar_injective :
  forall suf p1 p2 : string,
  sidecar_path suf p1 = sidecar_path suf p2 ->
  parent_path p1 = parent_path p2 /\ sidecar_stem p1 = sidecar_stem p2.
Proof. exact sidecar_injective. Qed.
Print Assumptions C15_sidecar_injective.

(* instance on the configuration of this run: two entities that share a sidecar (.../w/ma, .../w/mb) and one that does not;
   an update of an entity that does not exist yet and a re-creation fail and leave no trace *)
Definition ma15 : string := "hamlet/a/char/ophelia/model/v001/w/ma".
Definition mb15 : string := "hamlet/a/char/ophelia/model/v001/w/mb".
Definition skull15 : string := "hamlet/a/prop/skull".
Definition whist15 : list wop :=
  [ WUpdate "" ma15 [("a", "0")];
    WCreate "" ma15 [("a", "1"); ("b", "1")];
    WUpdate "" mb15 [("b", "9")];
    WCreate "" mb15 [("b", "2"); ("c", "2")];
    WCreate "" skull15 [("k", "v")];
    WUpdate "" ma15 [("a", "3")];
    WCreate "" ma15 [("z", "z")];
    WUpdate "" skull15 [("k", "w"); ("m", "n")] ].
Definition read15 (s : string) : list (dict string) * dict string :=
  match target Hamlet.the_loaded "" s with
  | Some dp => (writes_to Hamlet.the_loaded Rt15 dp fs_root whist15,
                load_sidecar (fst (run_hist Hamlet.the_loaded Rt15 fs_root whist15)) dp)
  | None => ([], [])
  end.
Example C15_data_history_instance :
  hist_visibleb Hamlet.the_loaded whist15 = true /\
  snd (run_hist Hamlet.the_loaded Rt15 fs_root whist15)
  = [Raise SpilException; Ok true; Raise SpilException; Ok true; Ok true; Ok true; Raise SpilException; Ok true] /\
  target Hamlet.the_loaded "" ma15 = target Hamlet.the_loaded "" mb15 /\
  target Hamlet.the_loaded "" ma15 <> None /\
  target Hamlet.the_loaded "" skull15 <> None /\
  target Hamlet.the_loaded "" ma15 <> target Hamlet.the_loaded "" skull15 /\
  read15 ma15 = ([[("a", "1"); ("b", "1")]; [("b", "2"); ("c", "2")]; [("a", "3")]], [("a", "3"); ("b", "2"); ("c", "2")]) /\
  read15 mb15 = read15 ma15 /\
  read15 skull15 = ([[("k", "v")]; [("k", "w"); ("m", "n")]], [("k", "w"); ("m", "n")]).
Proof. vm_compute. repeat split; try reflexivity; discriminate. Qed.
Print Assumptions C15_data_history_instance.

(* the guard of C15_data_history is needed: a dict given with a repeated key (not a python dict) is dumped as it is into a
   missing sidecar, while the overlay keeps one entry per key *)
Theorem C15_data_history_needs_nodup :
  exists (L : Loaded) (R : Routing) (ops : list wop) (F : fs) (dp : string),
  load_sidecar (fst (run_hist L R F ops)) dp <> fold_left dupdate (writes_to L R dp F ops) (load_sidecar F dp).
Proof.
  exists Hamlet.the_loaded, Rt15, [WCreate "" ma15 [("a", "1"); ("a", "2")]], fs_root,
    (match target Hamlet.the_loaded "" ma15 with Some dp => dp | None => "" end).
  vm_compute. discriminate.
Qed.
Print Assumptions C15_data_history_needs_nodup.
