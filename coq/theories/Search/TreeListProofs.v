(** C11: "searching the file tree = searching the list of existing Sids".
    Completeness of FindInPaths.star_search (the fold with its two skip lists), the set of results against a
    declarative description, the relation to the list finder, and the boolean guards.

    The statement proved is the general one (any "*" / "?" glob in a search value, not only whole-value "*"),
    under guards that are each necessary for the tree finder to agree with the list finder:
    - [dataset_ok]: members of E naturally typed, concrete, good values, with a path in F, no path component
      starting with "." (glob does not match hidden names: gen/TreeExamples.v has the counter-example),
      and every path of F that resolves to a non-empty Sid resolves to a member of E;
    - [searches_ok]: every search is a typed search Sid (forced typing), has good values, no ">", formats to a
      path pattern ([sid_path] is [Some]: otherwise FindInPaths globs the string "None"), and on a key that goes
      through the path mapping the search value is a literal or a whole "*" that the mapping leaves alone
      ("h*" globs the sid value "hamlet" but not the path value "HAMLET");
    - [pat_inj]: FindInPaths skips a (type, pattern) pair already searched, so two searches of the list with
      the same pair must have the same fields;
    - [types_covered] (only for equality with the list finder): FindInList does not look at types. *)
From Coq Require Import List String Ascii Bool Arith Lia.
From Spil Require Import Base.Str Base.Dict Base.Outcome Base.StrProofs Base.SplitProofs Base.PyPath
  Regex.Re Resolva.Template Resolva.Resolver Conf.ConfUtil Conf.Conf Conf.Routing Conf.WF
  Sid.Query Sid.Sid Sid.TypingSpec Sid.SidLemmas Sid.SidProofs
  Path.PathProofs Path.UnambiguousDefs Path.UnambiguousProofs
  FS.Fs Search.Unfold Search.FindList Search.GlobProofs Search.FindListProofs Search.Finders Search.FindersProofs
  Search.TreeListDefs Search.TreeGlob Search.TreePattern.
Import ListNotations.
Local Open Scope string_scope.

Lemma accepts_split q x :
  FindersProofs.accepts q x = String.eqb (s_type x) (s_type q) && sid_bool x && fields_match q x.
Proof. reflexivity. Qed.

Lemma pattern_str_of po : pattern_str po = pattern_of po.
Proof. reflexivity. Qed.

(** * Completeness of the fold of [paths_star] *)

Section Complete.
Variable Ld : Loaded.
Variable cfg : string.
Variable F : fs.

Local Notation hitq := (hit Ld cfg F).

Lemma ostep_complete q sd fp res sd' fp' res' :
  fp_inv Ld cfg fp res -> ostep Ld cfg F (Ok (sd, fp, res)) q = Ok (sd', fp', res') ->
  fp_inv Ld cfg fp' res' /\ incl res res' /\
  exists po, sid_path Ld q cfg = Ok po /\
    ((sd' = sd /\ In (s_type q, pattern_of po) sd) \/
     (sd' = (sd ++ [(s_type q, pattern_of po)])%list /\ forall s, hitq q s -> In s res')).
Proof.
  intros Hinv. unfold ostep. cbn [bind].
  destruct (sid_path Ld q cfg) as [po|e] eqn:Ep; cbn [bind]; [|discriminate].
  fold (pattern_of po). destruct (existsb _ sd) eqn:Eex.
  - intros H. inversion H; subst. split; [exact Hinv|]. split; [apply incl_refl|].
    exists po. split; [reflexivity|]. left. split; [reflexivity|].
    apply existsb_exists in Eex. destruct Eex as ([a b] & Hin & Hb). cbn [fst snd] in Hb.
    apply andb_true_iff in Hb. destruct Hb as (Ha & Hb). apply String.eqb_eq in Ha, Hb. subst a b. exact Hin.
  - destruct (fs_glob F (pattern_of po)) as [found|] eqn:Eg; [|discriminate].
    pose proof (inner_spec Ld cfg q found fp res Hinv) as S1.
    destruct (fold_left (pstep Ld cfg q) found (Ok (fp, res))) as [[a b]|e]; cbn [bind fst snd]; [|discriminate].
    intros H. inversion H; subst. destruct S1 as (I1 & _ & _ & I4). split; [exact I1|]. split.
    { intros s Hs. apply I4. left. exact Hs. }
    exists po. split; [reflexivity|]. right. split; [reflexivity|].
    intros s (po' & path & x & Hsp & Hk & Hm & Hx & Ha & ->). rewrite Ep in Hsp. inversion Hsp; subst po'.
    apply I4. right. exists path, x. split; [apply (fs_glob_spec _ _ _ Eg); split; assumption|].
    repeat split; assumption.
Qed.

Lemma ofold_complete : forall qs sd fp res sd' fp' res',
  fp_inv Ld cfg fp res -> fold_left (ostep Ld cfg F) qs (Ok (sd, fp, res)) = Ok (sd', fp', res') ->
  fp_inv Ld cfg fp' res' /\ incl res res' /\
  forall q, In q qs -> exists po, sid_path Ld q cfg = Ok po /\
    (In (s_type q, pattern_of po) sd \/
     exists q0 po0, In q0 qs /\ s_type q0 = s_type q /\ sid_path Ld q0 cfg = Ok po0 /\
       pattern_of po0 = pattern_of po /\ forall s, hitq q0 s -> In s res').
Proof.
  induction qs as [|q1 qs IH]; intros sd fp res sd' fp' res' Hinv H.
  - cbn [fold_left] in H. inversion H; subst. split; [exact Hinv|]. split; [apply incl_refl | intros q []].
  - cbn [fold_left] in H. destruct (ostep Ld cfg F (Ok (sd, fp, res)) q1) as [[[sd1 fp1] res1]|e] eqn:E1.
    2:{ rewrite ostep_raise in H. discriminate. }
    destruct (ostep_complete _ _ _ _ _ _ _ Hinv E1) as (Hinv1 & Hinc1 & po1 & Hp1 & Hcase).
    destruct (IH _ _ _ _ _ _ Hinv1 H) as (Hinv2 & Hinc2 & Hall). split; [exact Hinv2|]. split.
    { intros s Hs. apply Hinc2, Hinc1, Hs. }
    intros q [<- | Hq].
    + exists po1. split; [exact Hp1|]. destruct Hcase as [(_ & Hin) | (_ & Hhits)]; [left; exact Hin|].
      right. exists q1, po1. split; [left; reflexivity|]. split; [reflexivity|]. split; [exact Hp1|].
      split; [reflexivity|]. intros s Hs. apply Hinc2, Hhits, Hs.
    + destruct (Hall q Hq) as (po & Hp & [Hin | (q0 & po0 & Hq0 & Ht0 & Hp0 & Hpat & Hh)]).
      * exists po. split; [exact Hp|]. destruct Hcase as [(-> & _) | (-> & Hhits)]; [left; exact Hin|].
        apply in_app_or in Hin. destruct Hin as [Hin | [Heq | []]]; [left; exact Hin|].
        injection Heq as Ht Hpp. right. exists q1, po1. split; [left; reflexivity|].
        split; [exact Ht|]. split; [exact Hp1|]. split; [exact Hpp|]. intros s Hs. apply Hinc2, Hhits, Hs.
      * exists po. split; [exact Hp|]. right. exists q0, po0. split; [right; exact Hq0|]. repeat split; assumption.
Qed.

(** completeness for any list of searches: a hit of a search of the list is in the result, when two searches
    of the list with the same (type, pattern) have the same fields *)
Theorem paths_star_complete qs l : paths_star Ld F cfg qs = Ok l -> pat_inj Ld cfg qs ->
  forall q s, In q qs -> hitq q s -> In s l.
Proof.
  rewrite paths_star_unfold.
  destruct (fold_left (ostep Ld cfg F) qs (Ok ([], [], []))) as [[[sd fp] res]|e] eqn:E; cbn [bind]; [|discriminate].
  intros H Hinj q s Hq Hhit. inversion H; subst l.
  assert (H0 : fp_inv Ld cfg [] []) by (intros p []).
  destruct (ofold_complete _ _ _ _ _ _ _ H0 E) as (_ & _ & Hall).
  destruct (Hall q Hq) as (po & Hp & [[] | (q0 & po0 & Hq0 & Ht0 & Hp0 & Hpat & Hh)]).
  apply Hh. destruct Hhit as (po' & path & x & Hsp & Hk & Hm & Hx & Ha & ->).
  rewrite Hp in Hsp. inversion Hsp; subst po'.
  pose proof (Hinj q0 q po0 po Hq0 Hq Ht0 Hp0 Hp Hpat) as Hf.
  exists po0, path, x. split; [exact Hp0|]. split; [exact Hk|]. split; [rewrite Hpat; exact Hm|].
  split; [exact Hx|]. split; [|reflexivity].
  rewrite accepts_split in *. unfold fields_match in *. rewrite Ht0, Hf. exact Ha.
Qed.

(** with soundness (FindersProofs.paths_star_sound): the exact set of results *)
Corollary paths_star_exact qs l : paths_star Ld F cfg qs = Ok l -> pat_inj Ld cfg qs ->
  forall s, In s l <-> exists q, In q qs /\ hitq q s.
Proof.
  intros H Hinj s. split.
  - apply (paths_star_sound Ld cfg F qs l H).
  - intros (q & Hq & Hh). exact (paths_star_complete qs l H Hinj q s Hq Hh).
Qed.

End Complete.

(** * The tree finder on a data set *)

Definition searches_ok (Ld : Loaded) (cfg : string) (qs : list sid) : Prop :=
  forall q, In q qs -> typed_search Ld q /\ search_okb Ld cfg q = true.

(* the declarative description: members of E of the type of a search whose fields match it field-wise *)
Definition tree_answer (E qs : list sid) (s : string) : Prop :=
  exists e q, In e E /\ In q qs /\ s = s_string e /\ s_type e = s_type q /\ fields_match q e = true.

Section TreeList.
Variables (c : Conf) (Ld : Loaded).
Hypothesis Hload : load c = Some Ld.
Hypothesis Hwf : wf_loadedb Ld = true.
Hypothesis Hpu : paths_unambiguousb Ld = true.
Variable cfg : string.
Variable E : list sid.
Variable F : fs.

(** soundness needs only "everything else in F is junk" *)
Theorem tree_sound qs l :
  (forall p x, In p (dkeys F) -> sid_factory Ld (FromPath p cfg) = Ok x -> sid_bool x = true -> In x E) ->
  paths_star Ld F cfg qs = Ok l -> forall s, In s l -> tree_answer E qs s.
Proof.
  intros Honly H s Hs. destruct (paths_star_sound Ld cfg F qs l H s Hs) as (q & Hq & Hh).
  destruct Hh as (po & path & x & _ & Hk & _ & Hx & Ha & ->). rewrite accepts_split in Ha.
  apply andb_true_iff in Ha. destruct Ha as (Ha & Hfm). apply andb_true_iff in Ha. destruct Ha as (Hty & Hb).
  apply String.eqb_eq in Hty. exists x, q. split; [exact (Honly path x Hk Hx Hb)|]. repeat split; assumption.
Qed.

Hypothesis HD : dataset_ok Ld cfg E F.

(* every member of E is found at its path, and its path resolves back to it *)
Lemma member_found e : In e E ->
  exists p, sid_path Ld e cfg = Ok (Some p) /\ In p (dkeys F) /\ no_hiddenb p = true /\
            sid_factory Ld (FromPath p cfg) = Ok e.
Proof.
  intros He. destruct (ds_path _ _ _ _ HD e He) as (p & Hp & Hk & Hh).
  pose proof (ds_nat _ _ _ _ HD e He) as Hnat. pose proof (ds_conc _ _ _ _ HD e He) as Hconc.
  pose proof (ds_vals _ _ _ _ HD e He) as Hvals.
  exists p. split; [exact Hp|]. split; [exact Hk|]. split; [exact Hh|].
  destruct (own_read c Ld Hload Hwf Hpu e cfg p Hnat Hconc Hvals Hp)
    as (pc & tp & es & d' & _ & _ & _ & _ & _ & _ & Hpne & _).
  cbn [sid_factory]. apply sempty_false in Hpne. rewrite Hpne.
  exact (roundtrip c Ld e cfg p Hload Hwf Hpu Hnat Hconc Hvals Hp).
Qed.

(* a member of E that matches a good search field-wise is a hit of that search *)
Lemma member_hit e q : In e E -> typed_search Ld q -> search_okb Ld cfg q = true ->
  s_type e = s_type q -> fields_match q e = true -> hit Ld cfg F q (s_string e).
Proof.
  intros He Htq Hok Hty Hfm. destruct (member_found e He) as (p & Hp & Hk & Hh & Hx).
  pose proof (ds_nat _ _ _ _ HD e He) as Hnat. pose proof (ds_vals _ _ _ _ HD e He) as Hvals.
  unfold search_okb in Hok. apply andb_true_iff in Hok. destruct Hok as (Hok & Hmapq).
  apply andb_true_iff in Hok. destruct Hok as (Hok & Hpat). apply andb_true_iff in Hok. destruct Hok as (Hvq & Hgt).
  apply path_values_okb_sound in Hvq. unfold has_patternb in Hpat.
  destruct (sid_path Ld q cfg) as [[pat|]|ex] eqn:Epq; try discriminate.
  assert (Hmap : forall pc, get_path_config Ld cfg = Ok pc -> search_map_okb pc q = true).
  { intros pc Hpc. rewrite Hpc in Hmapq. exact Hmapq. }
  pose proof (pattern_globs_path c Ld Hload Hwf Hpu e q cfg p pat Hnat Hvals Hp Htq Hvq Hgt Epq Hmap Hty Hfm) as G.
  exists (Some pat), p, e. split; [exact Epq|]. split; [exact Hk|].
  split; [exact (path_glob_comps pat p G Hh)|]. split; [exact Hx|]. split; [|reflexivity].
  rewrite accepts_split, Hfm, Hty, String.eqb_refl. cbn [andb]. rewrite andb_true_r.
  destruct (typed_parts c Ld Hload Hwf e (nat_typed_search c Ld Hload Hwf e Hnat))
    as (_ & _ & _ & _ & _ & _ & _ & Hne & _).
  unfold sid_bool. destruct (s_fields e); [congruence | reflexivity].
Qed.

Theorem tree_complete qs l : searches_ok Ld cfg qs -> pat_inj Ld cfg qs ->
  paths_star Ld F cfg qs = Ok l -> forall s, tree_answer E qs s -> In s l.
Proof.
  intros Hqs Hinj H s (e & q & He & Hq & -> & Hty & Hfm). destruct (Hqs q Hq) as (Htq & Hok).
  apply (paths_star_complete Ld cfg F qs l H Hinj q _ Hq). exact (member_hit e q He Htq Hok Hty Hfm).
Qed.

(** C11, tree side: the set of results of FindInPaths.star_search *)
Theorem tree_search_spec qs l : searches_ok Ld cfg qs -> pat_inj Ld cfg qs ->
  paths_star Ld F cfg qs = Ok l ->
  forall s, In s l <->
    exists e q, In e E /\ In q qs /\ s = s_string e /\ s_type e = s_type q /\ fields_match q e = true.
Proof.
  intros Hqs Hinj H s. split.
  - exact (tree_sound qs l (ds_only _ _ _ _ HD) H s).
  - exact (tree_complete qs l Hqs Hinj H s).
Qed.

End TreeList.

(** * The field check is the glob of the Sid strings (for Sids of the same type) *)

Lemma forallb_ext_in {A} (f g : A -> bool) : forall l, (forall x, In x l -> f x = g x) -> forallb f l = forallb g l.
Proof.
  induction l as [|x l IH]; intros H; [reflexivity|]. cbn [forallb].
  rewrite (H x (or_introl eq_refl)), IH; [reflexivity|]. intros y Hy. apply H. right. exact Hy.
Qed.

Lemma forallb_get_Forall2 (P : string -> string -> bool) : forall (d1 d2 : dict string),
  map fst d1 = map fst d2 -> NoDup (map fst d1) ->
  (forallb (fun kv => P (snd kv) (match dget d2 (fst kv) with Some w => w | None => "None" end)) d1 = true
   <-> Forall2 (fun a b => P a b = true) (map snd d1) (map snd d2)).
Proof.
  induction d1 as [|[k v] d1 IH]; intros [|[k' w] d2] Hk Hnd; cbn [map fst] in Hk; try discriminate.
  - cbn [forallb map]. split; [constructor | reflexivity].
  - injection Hk as <- Hk. cbn [map fst] in Hnd. inversion Hnd as [|? ? Hnin Hnd']; subst.
    cbn [forallb map fst snd dget]. rewrite String.eqb_refl.
    rewrite (forallb_ext_in
               (fun kv => P (snd kv) (match (if String.eqb (fst kv) k then Some w else dget d2 (fst kv)) with
                                      | Some w0 => w0 | None => "None" end))
               (fun kv => P (snd kv) (match dget d2 (fst kv) with Some w0 => w0 | None => "None" end))).
    2:{ intros [k0 v0] Hin. cbn [fst snd]. destruct (String.eqb k0 k) eqn:Ek; [|reflexivity].
        apply String.eqb_eq in Ek. subst k0. exfalso. apply Hnin. apply in_map_iff. exists (k, v0). auto. }
    rewrite andb_true_iff, (IH d2 Hk Hnd'). split.
    + intros (H1 & H2). constructor; assumption.
    + intros H. inversion H; subst. split; assumption.
Qed.

Definition fm_test (a b : string) : bool :=
  fn_match (S (String.length (replace ">" "*" a) + String.length b)) (replace ">" "*" a) b.

Lemma Forall2_fn_glob : forall l1 l2,
  Forall (fun a => mem_c ">" a = false) l1 -> Forall (fun b => mem_c "/" b = false) l2 ->
  (Forall2 (fun a b => fm_test a b = true) l1 l2 <-> Forall2 glob_rel l1 l2).
Proof.
  induction l1 as [|a l1 IH]; intros l2 H1 H2; split; intros H; inversion H; subst; try constructor;
    inversion H1; inversion H2; subst.
  - match goal with Hm : fm_test _ _ = true |- _ => unfold fm_test in Hm; rewrite replace_gt_id in Hm by assumption;
      apply fn_match_iff_glob in Hm; assumption end.
  - apply IH; assumption.
  - unfold fm_test. rewrite replace_gt_id by assumption. apply fn_match_iff_glob; assumption.
  - apply IH; assumption.
Qed.

Section FieldsGlob.
Variables (c : Conf) (Ld : Loaded).
Hypothesis Hload : load c = Some Ld.
Hypothesis Hwf : wf_loadedb Ld = true.

Theorem fields_match_glob q e :
  typed_search Ld q -> typed_search Ld e -> s_type e = s_type q -> no_gtb q = true ->
  (fields_match q e = true <-> glob_rel (s_string q) (s_string e)).
Proof.
  intros Hq He Hty Hgt.
  destruct (typed_parts c Ld Hload Hwf q Hq) as (tsq & _ & _ & Hfq & Hfstq & Hsndq & Hjq & Hneq & Hndq & _).
  destruct (typed_parts c Ld Hload Hwf e He) as (tse & _ & _ & Hfe & Hfste & Hsnde & _).
  rewrite Hty, Hfq in Hfe. inversion Hfe; subst tse.
  assert (Hkeys : map fst (s_fields q) = map fst (s_fields e)) by (rewrite Hfstq, Hfste; reflexivity).
  change (fields_match q e) with
    (forallb (fun kv => fm_test (snd kv) (match dget (s_fields e) (fst kv) with Some w => w | None => "None" end))
             (s_fields q)).
  rewrite (forallb_get_Forall2 fm_test _ _ Hkeys Hndq).
  rewrite Forall2_fn_glob.
  - rewrite Hjq at 1. rewrite Hsnde. symmetry. apply glob_join_segments.
    + destruct (s_fields q); [congruence | discriminate].
    + rewrite Hsndq. apply split_c_nomem_all.
  - unfold no_gtb in Hgt. rewrite forallb_forall in Hgt. apply Forall_forall. intros v Hv.
    apply in_map_iff in Hv. destruct Hv as (kv & <- & Hkv). specialize (Hgt kv Hkv).
    apply negb_true_iff in Hgt. exact Hgt.
  - rewrite Hsnde. apply split_c_nomem_all.
Qed.

End FieldsGlob.

(** * Tree finder against the glob specification and against the list finder *)

(* every member of E that a search of the list globs is globbed by a search of the list of its own type
   (FindInList does not look at types; FindInPaths only looks at the paths of the searched type) *)
Definition types_covered (E qs : list sid) : Prop :=
  forall e q, In e E -> In q qs -> glob_rel (s_string q) (s_string e) ->
    exists q', In q' qs /\ s_type e = s_type q' /\ glob_rel (s_string q') (s_string e).

(* sufficient: every glob match is between Sids of the same type *)
Definition types_agree (E qs : list sid) : Prop :=
  forall e q, In e E -> In q qs -> glob_rel (s_string q) (s_string e) -> s_type e = s_type q.

Lemma types_agree_covered E qs : types_agree E qs -> types_covered E qs.
Proof. intros H e q He Hq G. exists q. split; [exact Hq|]. split; [exact (H e q He Hq G) | exact G]. Qed.

Definition globs_b (q e : sid) : bool :=
  match glob_match (s_string q) (s_string e) with Ok true => true | _ => false end.

Definition types_coveredb (E qs : list sid) : bool :=
  forallb (fun e => forallb (fun q =>
    match glob_match (s_string q) (s_string e) with
    | Ok true => existsb (fun q' => String.eqb (s_type e) (s_type q') && globs_b q' e) qs
    | Ok false => true
    | Raise _ => false
    end) qs) E.

Lemma types_coveredb_sound E qs : types_coveredb E qs = true -> types_covered E qs.
Proof.
  unfold types_coveredb, types_covered. rewrite forallb_forall. intros H e q He Hq G.
  specialize (H e He). rewrite forallb_forall in H. specialize (H q Hq).
  destruct (glob_match (s_string q) (s_string e)) as [b|ex] eqn:Eg; [|discriminate].
  assert (Hb : b = true) by (apply (glob_match_spec _ _ _ Eg); exact G). subst b.
  apply existsb_exists in H. destruct H as (q' & Hq' & Hc). apply andb_true_iff in Hc. destruct Hc as (Ht & Hg).
  apply String.eqb_eq in Ht. exists q'. split; [exact Hq'|]. split; [exact Ht|].
  unfold globs_b in Hg. destruct (glob_match (s_string q') (s_string e)) as [[|]|ex] eqn:Eg'; try discriminate.
  apply (glob_match_spec _ _ _ Eg'). reflexivity.
Qed.

Section TreeVsList.
Variables (c : Conf) (Ld : Loaded).
Hypothesis Hload : load c = Some Ld.
Hypothesis Hwf : wf_loadedb Ld = true.
Hypothesis Hpu : paths_unambiguousb Ld = true.
Variable cfg : string.
Variable E : list sid.
Variable F : fs.
Hypothesis HD : dataset_ok Ld cfg E F.
Variable qs : list sid.
Hypothesis Hqs : searches_ok Ld cfg qs.
Hypothesis Hinj : pat_inj Ld cfg qs.

Lemma search_no_gt q : In q qs -> no_gtb q = true.
Proof.
  intros Hq. destruct (Hqs q Hq) as (_ & Hok). unfold search_okb in Hok.
  apply andb_true_iff in Hok. destruct Hok as (Hok & _). apply andb_true_iff in Hok. destruct Hok as (Hok & _).
  apply andb_true_iff in Hok. destruct Hok as (_ & Hgt). exact Hgt.
Qed.

(** C11: the tree finder returns the strings of the members of E that a search of the list globs
    (glob specification [glob_rel] of C08: "*" any run without "/", "?" one character) and that have the
    type of that search *)
Theorem tree_search_glob l : paths_star Ld F cfg qs = Ok l ->
  forall s, In s l <->
    exists e q, In e E /\ In q qs /\ s = s_string e /\ s_type e = s_type q /\ glob_rel (s_string q) (s_string e).
Proof.
  intros H s. rewrite (tree_search_spec c Ld Hload Hwf Hpu cfg E F HD qs l Hqs Hinj H s).
  split; intros (e & q & He & Hq & Hs & Hty & Hm); exists e, q; repeat split; try assumption.
  - apply (fields_match_glob c Ld Hload Hwf q e); try assumption.
    + exact (proj1 (Hqs q Hq)).
    + exact (nat_typed_search c Ld Hload Hwf e (ds_nat _ _ _ _ HD e He)).
    + exact (search_no_gt q Hq).
  - apply (fields_match_glob c Ld Hload Hwf q e); try assumption.
    + exact (proj1 (Hqs q Hq)).
    + exact (nat_typed_search c Ld Hload Hwf e (ds_nat _ _ _ _ HD e He)).
    + exact (search_no_gt q Hq).
Qed.

(** against FindInList.star_search over the list of the strings of E:
    the tree finder finds a subset, exactly the list results that are typed like the search that globs them;
    what the list finder finds in addition are entries globbed only by searches of another type *)
Theorem tree_vs_list l l' :
  paths_star Ld F cfg qs = Ok l -> star_search qs (map s_string E) = Ok l' ->
  (forall s, In s l -> In s l') /\
  (forall s, In s l' -> ~ In s l ->
     forall e q, In e E -> In q qs -> s = s_string e -> glob_rel (s_string q) s -> s_type e <> s_type q).
Proof.
  intros H H'. pose proof (tree_search_glob l H) as Ht. pose proof (star_search_glob_spec qs _ l' H') as Hl. split.
  - intros s Hs. apply Ht in Hs. destruct Hs as (e & q & He & Hq & -> & _ & G). apply Hl. split.
    + apply in_map. exact He.
    + exists q. split; assumption.
  - intros s _ Hn e q He Hq -> G Hty. apply Hn. apply Ht. exists e, q. repeat split; assumption.
Qed.

(** C11: same set of Sids, when every globbed member of E is also globbed by a search of its own type *)
Theorem tree_eq_list l l' : types_covered E qs ->
  paths_star Ld F cfg qs = Ok l -> star_search qs (map s_string E) = Ok l' ->
  forall s, In s l <-> In s l'.
Proof.
  intros Hta H H' s. split; [apply (proj1 (tree_vs_list l l' H H'))|].
  intros Hs. apply (star_search_glob_spec qs _ l' H') in Hs. destruct Hs as (Hin & q & Hq & G).
  apply in_map_iff in Hin. destruct Hin as (e & <- & He).
  destruct (Hta e q He Hq G) as (q' & Hq' & Hty & G').
  apply (tree_search_glob l H). exists e, q'. repeat split; assumption.
Qed.

End TreeVsList.

(** * The decidable versions of the guards are sound *)

Lemma dict_eqb_eq : forall a b, dict_eqb a b = true -> a = b.
Proof.
  induction a as [|[k v] a IH]; intros [|[k' v'] b] H; cbn [dict_eqb] in H; try discriminate; [reflexivity|].
  apply andb_true_iff in H. destruct H as (H & H3). apply andb_true_iff in H. destruct H as (H1 & H2).
  apply String.eqb_eq in H1, H2. subst. rewrite (IH b H3). reflexivity.
Qed.

Lemma typed_searchb_sound Ld q : typed_searchb Ld q = true -> typed_search Ld q.
Proof.
  unfold typed_searchb, typed_search. destruct (forced Ld (s_type q) (s_string q)) as [[t d]|]; [|discriminate].
  intros H. apply andb_true_iff in H. destruct H as (H1 & H2). apply String.eqb_eq in H1. apply dict_eqb_eq in H2.
  subst. reflexivity.
Qed.

Lemma nat_typedb_sound Ld x : nat_typedb Ld x = true -> naturally_typed Ld x.
Proof.
  unfold nat_typedb, naturally_typed. destruct (natural Ld (s_string x)) as [[t d]|]; [|discriminate].
  intros H. apply andb_true_iff in H. destruct H as (H1 & H2). apply String.eqb_eq in H1. apply dict_eqb_eq in H2.
  subst. reflexivity.
Qed.

Lemma sid_eqb_full_eq x y : sid_eqb_full x y = true -> x = y.
Proof.
  unfold sid_eqb_full. intros H. apply andb_true_iff in H. destruct H as (H & H3).
  apply andb_true_iff in H. destruct H as (H1 & H2). apply String.eqb_eq in H1, H2. apply dict_eqb_eq in H3.
  destruct x, y. cbn in *. subst. reflexivity.
Qed.

Lemma pat_injb_sound Ld cfg qs : pat_injb Ld cfg qs = true -> pat_inj Ld cfg qs.
Proof.
  unfold pat_injb, pat_inj. rewrite forallb_forall. intros H q q' po po' Hq Hq' Hty Hp Hp' Hpat.
  specialize (H q Hq). rewrite forallb_forall in H. specialize (H q' Hq'). rewrite Hp, Hp' in H.
  rewrite Hty, Hpat, !String.eqb_refl in H. cbn [andb negb orb] in H. exact (dict_eqb_eq _ _ H).
Qed.

Lemma searches_okb_sound Ld cfg qs :
  forallb (fun q => typed_searchb Ld q && search_okb Ld cfg q) qs = true -> searches_ok Ld cfg qs.
Proof.
  rewrite forallb_forall. intros H q Hq. specialize (H q Hq). apply andb_true_iff in H. destruct H as (H1 & H2).
  split; [exact (typed_searchb_sound Ld q H1) | exact H2].
Qed.

Theorem dataset_okb_sound Ld cfg E F : dataset_okb Ld cfg E F = true -> dataset_ok Ld cfg E F.
Proof.
  unfold dataset_okb. intros H. apply andb_true_iff in H. destruct H as (HE & HF).
  rewrite forallb_forall in HE, HF.
  assert (Hmem : forall e, In e E -> nat_typedb Ld e = true /\ concreteb Ld e = true /\ path_values_okb e = true /\
            match sid_path Ld e cfg with Ok (Some p) => in_list p (dkeys F) && no_hiddenb p | _ => false end = true).
  { intros e He. specialize (HE e He). apply andb_true_iff in HE. destruct HE as (H & H4).
    apply andb_true_iff in H. destruct H as (H & H3). apply andb_true_iff in H. destruct H as (H1 & H2).
    repeat split; assumption. }
  constructor.
  - intros e He. apply nat_typedb_sound. apply (Hmem e He).
  - intros e He. apply concreteb_sound. apply (Hmem e He).
  - intros e He. apply path_values_okb_sound. apply (Hmem e He).
  - intros e He. destruct (Hmem e He) as (_ & _ & _ & H4).
    destruct (sid_path Ld e cfg) as [[p|]|ex]; try discriminate. exists p. split; [reflexivity|].
    apply andb_true_iff in H4. destruct H4 as (Hin & Hh). split; [apply in_list_In; exact Hin | exact Hh].
  - intros p x Hp Hx Hb. specialize (HF p Hp). rewrite Hx, Hb in HF. cbn [negb orb] in HF.
    apply existsb_exists in HF. destruct HF as (e & He & Heq). rewrite (sid_eqb_full_eq _ _ Heq). exact He.
Qed.

Print Assumptions paths_star_complete.
Print Assumptions tree_search_spec.
Print Assumptions tree_search_glob.
Print Assumptions tree_vs_list.
Print Assumptions tree_eq_list.
Print Assumptions dataset_okb_sound.

(** * At the level of the two Finders (find_glob.do_find on the unfolded searches, no ">") *)

Lemma do_find_star_g Ld (star : star_fn) qs :
  existsb (fun q => Nat.ltb 0 (count ">" (s_string q))) qs = false -> star [] = Ok [] ->
  do_find_g Ld star qs = star qs.
Proof. unfold do_find_g. destruct qs as [|q rest]; [intros _ H; symmetry; exact H|]. intros ->. reflexivity. Qed.

Theorem finders_agree (c : Conf) (Ld : Loaded) cfg E F qs idp idl l l' :
  load c = Some Ld -> wf_loadedb Ld = true -> paths_unambiguousb Ld = true ->
  dataset_ok Ld cfg E F -> searches_ok Ld cfg qs -> pat_inj Ld cfg qs -> types_covered E qs ->
  existsb (fun q => Nat.ltb 0 (count ">" (s_string q))) qs = false ->
  do_find_g Ld (fstar Ld F (FPaths idp cfg)) qs = Ok l ->
  do_find_g Ld (fstar Ld F (FList idl (map s_string E))) qs = Ok l' ->
  forall s, In s l <-> In s l'.
Proof.
  intros Hload Hwf Hpu HD Hqs Hinj Hcov Hgt H H'.
  rewrite (do_find_star_g Ld _ qs Hgt eq_refl) in H. rewrite (do_find_star_g Ld _ qs Hgt eq_refl) in H'.
  cbn [fstar] in H, H'.
  exact (tree_eq_list c Ld Hload Hwf Hpu cfg E F HD qs Hqs Hinj l l' Hcov H H').
Qed.

Print Assumptions finders_agree.
