From Coq Require Import List String.
Example C16_placeholder : True. Proof. exact I. Qed.
Print Assumptions C16_placeholder.
