"""C10 algebra of the search syntax (list-backed part; file-system finders are exercised by C11)."""
from harness.runner import PropBase, Case
from harness import gen, core
from props.c01 import natural
from props import listsearch as ls

class C10(PropBase):
    id = 'C10'
    rule = ('pairs (search, derived searches) by the five rewrite rules (comma -> alternatives, alias -> members, ** -> 0..n /* levels restricted to '
            'leaf types, filter k=v -> field equality, * -> literal) over generated universes on FindInList, and over real trees on FindInPaths and FindInAll; non-trivial = the left search finds something; '
            'distinct by (universe, rule, search)')
    partial_note = 'the five rules are theorems for the list-backed finder and, over a data set materialised as a tree, for FindInPaths, under explicit decidable guards; outside the guards and on FindInAll they are oracle-checked pairs on the implementation'
    def confdir(self, ws):
        return core.make_fs_confdir(ws)
    def gen_group(self, rng, v, base, pool):
        """One rewrite pair from the entry [base]: returns (rule, left, rights, meta) or None.  [pool] = entries of the universe."""
        segs = base.split('/')
        bsegs = base.split('/')
        if any('>' in g for g in bsegs):
            return None      # a '>' inside a longer value ('>x') is not a search of the grammar (DESIGN.md, O5): no rewrite pairs from such entries
        for i in range(len(segs)):
            if rng.random() < 0.35:
                segs[i] = '*'
        rule = rng.choice(['comma', 'alias', 'dstar', 'filter', 'literal'])
        if rule == 'comma' and rng.random() < 0.25:
            # the ',' list (or an alias) only in a filter value, none in the path part
            keys = self.keys_for(v, base)
            if keys:
                i = rng.randrange(len(keys))
                from props.c02 import QUERY_UNSAFE as _QU
                val = bsegs[i]
                others = sorted(set(e.split('/')[i] for e in pool if len(e.split('/')) > i and e.split('/')[i] != val))
                others = [o for o in others if o and not (set(o) & (_QU | set(',*>:'))) and all(ord(ch) < 128 for ch in o)]
                if val and not (set(val) & (_QU | set(',*>:'))) and all(ord(ch) < 128 for ch in val) and val not in v.alias and ',' not in '/'.join(segs):
                    segs[i] = '*'
                    body = '/'.join(segs)
                    if i == len(keys) - 1 and rng.random() < 0.5:
                        als = [a for a, ms in sorted(v.alias.items()) if val in ms]
                        if als:
                            al = rng.choice(als)
                            return 'alias', body + '?' + keys[i] + '=' + al, [body + '?' + keys[i] + '=' + m_ for m_ in v.alias[al]], {}
                    other = rng.choice(others) if others else 'zz'
                    return 'comma', body + '?' + keys[i] + '=' + val + ',' + other, [body + '?' + keys[i] + '=' + val, body + '?' + keys[i] + '=' + other], {}
        if rule == 'comma':
            i = rng.randrange(len(segs))
            if bsegs[i] != bsegs[i].strip() or not bsegs[i]:
                return None      # the alternatives of a ',' list are stripped
            # prefer a value that exists at this level in the universe, in particular one that extends / is extended by this value
            others = sorted(set(e.split('/')[i] for e in pool if len(e.split('/')) > i and e.split('/')[i] != bsegs[i]))
            # alternatives of a ',' list are stripped by the syntax: only values that are their own stripped form, without search symbols
            others = [o for o in others if o and o == o.strip() and not any(ch in o for ch in ',?*>:')]
            related = [o for o in others if o.endswith(bsegs[i]) or o.startswith(bsegs[i]) or bsegs[i].endswith(o) or bsegs[i].startswith(o)]
            r = rng.random()
            if related and r < 0.5:
                other = rng.choice(related)
                for j in (i - 1, i + 1):          # a wildcard next to it
                    if 0 <= j < len(segs) and rng.random() < 0.6:
                        segs[j] = '*'
            elif others and r < 0.75:
                other = rng.choice(others)
            elif r < 0.85:
                other = '*'                        # overlapping alternatives
            else:
                other = rng.choice(ls.NAMES + ['ma', 'mov', 'w', 'p', 'char', 'prop', 's', 'a'])
            alts = [bsegs[i], other]
            if rng.random() < 0.5:
                alts.sort()
            left = '/'.join(segs[:i] + [','.join(alts)] + segs[i + 1:])
            rights = ['/'.join(segs[:i] + [a] + segs[i + 1:]) for a in alts]
            return rule, left, rights, {}
        if rule == 'alias':
            if not v.alias:
                return None
            al = rng.choice(list(v.alias))
            if rng.random() < 0.4 and len(v.alias) > 1:
                al2 = rng.choice([a for a in v.alias if a != al])
                return rule, '/'.join(segs[:-1] + [al + ',' + al2]), ['/'.join(segs[:-1] + [m]) for m in v.alias[al] + v.alias[al2]], {}
            return rule, '/'.join(segs[:-1] + [al]), ['/'.join(segs[:-1] + [m]) for m in v.alias[al]], {}
        if rule == 'dstar':
            if len(segs) < 2:
                return None
            i = rng.randrange(1, len(segs))
            if rng.random() < 0.5:
                # '**' in the middle: the segments after it are kept; with j == i it stands for zero levels on the base's own depth
                j = i if rng.random() < 0.4 else rng.randrange(i, len(segs))
                return rule, '/'.join(segs[:i] + ['**'] + segs[j:]), ['/'.join(segs[:i] + ['*'] * n + segs[j:]) for n in range(0, 10)], {}
            return rule, '/'.join(segs[:i] + ['**']), ['/'.join(segs[:i] + ['*'] * n) for n in range(0, 10)], {}
        if rule == 'filter':
            keys = self.keys_for(v, base)
            if not keys:
                return None
            i = rng.randrange(len(keys))
            segs[i] = '*'
            val = bsegs[i]
            if val in v.alias:
                return None      # an alias value is itself a search (covered by the alias rule)
            from props.c02 import QUERY_UNSAFE
            if not val or set(val) & (QUERY_UNSAFE | set(',*>')) or any(ord(ch) > 127 for ch in val):
                # the filter rule is about url-safe values (as the query round trip of C02): '~' ',' '+' '%' ... have a meaning of their
                # own in a query value.  Observed outside that fragment: unfold_search decodes a query value twice (DESIGN.md, O1)
                return None
            return rule, '/'.join(segs) + '?' + keys[i] + '=' + val, ['/'.join(segs)], {'key': keys[i], 'val': val}
        stars = [i for i, g in enumerate(segs) if g == '*']
        if not stars:
            return None
        i = rng.choice(stars)
        val = bsegs[i]
        if val in v.alias or any(ch in val for ch in '*>,?'):
            return None      # (the rule replaces a '*' by a LITERAL value: an entry whose own value is a search symbol gives none)
        return rule, '/'.join(segs[:i] + [val] + segs[i + 1:]), ['/'.join(segs)], {'pos': i, 'val': val}
    def cases(self, rng, ctx, tier):
        v = gen.vocab_from_ctx(ctx)
        nu, ns = (40, 12) if tier == 'quick' else (400, 40)
        out = []
        self.gid = 0
        for _ in range(nu):
            items = [e for e in ls.universe(rng, v, kind=rng.choice(['full', 'full', 'leaf', 'mixed']), size=rng.randint(5, 16)) if ':' not in e and '?' not in e]      # entries are Sid strings, not uris
            typed_items = [s for s in items if s]
            opts = ['pre_sort'] if rng.random() < 0.4 else []      # FindInList(items, do_pre_sort=True)
            tg = [g for g in self.targeted(rng, v, [s for s in typed_items if natural(v, s)]) if g[0] == 'literal']
            for gi in range(ns + len(tg)):
                self.gid += 1
                base = rng.choice(typed_items) if typed_items else 'hamlet'
                g = tg[gi - ns] if gi >= ns else self.gen_group(rng, v, base, typed_items)
                if g is None:
                    continue
                rule, left, rights, m = g
                out.append(Case('find_list_sids', [items, left] + opts, 'pair', dict(m, g=self.gid, rule=rule, side='L')))
                for r_ in rights:
                    out.append(Case('find_list_sids', [items, r_] + opts, 'pair', dict(m, g=self.gid, rule=rule, side='R')))
                if gi >= ns and not opts:       # the targeted groups on both kinds of FindInList
                    self.gid += 1
                    out.append(Case('find_list_sids', [items, left, 'pre_sort'], 'pair', dict(m, g=self.gid, rule=rule, side='L')))
                    for r_ in rights:
                        out.append(Case('find_list_sids', [items, r_, 'pre_sort'], 'pair', dict(m, g=self.gid, rule=rule, side='R')))
        # file-system universes: the path of every entity and ancestor (the trees are built in phase 2)
        from props.c11 import C11
        self.nfs = 3 if tier == 'quick' else 24
        c11 = C11()
        self.fs_universes = [c11.leafs(rng, v, rng.randint(4, 10)) for _ in range(self.nfs)]
        self.default_cfg = ctx['rawd']['default_path_config'] or ctx['rawd']['path_configs'][0][0]
        # one deliberate family per universe: a free value that lives deep in the hierarchy (in the file name only), a sibling
        # extending it across the file-name separator on either side, and the same value under another parent
        from props.c05 import C05
        with_path = set(k for pc in ctx['rawd']['path_configs'] if pc[0] == self.default_cfg for k, _ in dict((k, vv) for k, vv in pc[1])['templates'])
        deep = [t for t in v.order if t in with_path and any(v.alternatives(e) is None and i > 4 for i, (k, e) in enumerate(v.types[t]))]
        for leafs in self.fs_universes:
            if not deep:
                break
            t = rng.choice(deep)
            s0 = C05().concrete(rng, v, t).split('/')
            i = max(i for i, (k, e) in enumerate(v.types[t]) if v.alternatives(e) is None)
            s0[i] = rng.choice(['a', 'x', 'n1'])
            s1 = list(s0); s1[i] = (rng.choice(['zz_', 'y_']) + s0[i]) if rng.random() < 0.6 else (s0[i] + rng.choice(['_y', '_WORK']))
            leafs.append('/'.join(s0)); leafs.append('/'.join(s1))
            for _ in range(3):
                s2 = C05().concrete(rng, v, t).split('/')
                if s2[:4] == s0[:4]:
                    leafs.append('/'.join(s0[:4] + s2[4:i] + s0[i:]))
                    break
        for ui, leafs in enumerate(self.fs_universes):
            seen = set()
            for s_ in leafs:
                parts = s_.split('/')
                for i in range(1, len(parts) + 1):
                    e = '/'.join(parts[:i])
                    if e not in seen:
                        seen.add(e)
                        out.append(Case('path', [['s', e], self.default_cfg, 'pos'], 'paths', {'u': ui, 'sid': e}))
        return out
    def phase2(self, rng, ctx, cases, impl_out, tier):
        v = gen.vocab_from_ctx(ctx)
        more = []
        for c in cases:
            if c.meta.get('rule') in ('dstar', 'filter') and c.meta.get('side') == 'R':
                more.append(Case('unfold', [c.args[1], '0', '0'], 'unfold', {'for': c.args[1]}))
        # the same rules on FindInPaths and FindInAll over real trees
        leaf_keys = dict(ctx['rawd']['leaf_keys'])
        def is_file(sid):
            n = natural(v, sid)
            return bool(n) and n[1][-1][0] == leaf_keys.get(n[0].split(ctx['rawd']['sep'])[0])
        per_u = {}
        for c, o in zip(cases, impl_out):
            if c.stream == 'paths' and o[0] == 'ok' and o[1]:
                per_u.setdefault(c.meta['u'], {})[c.meta['sid']] = o[1][0]
        ns = 16 if tier == 'quick' else 40
        for ui in range(getattr(self, 'nfs', 0)):
            ent = per_u.get(ui, {})
            if not ent:
                continue
            more.append(Case('fs_reset', [], 'setup', {}))
            for sid, p in sorted(ent.items(), key=lambda kv: len(kv[1])):
                more.append(Case('fs_put', [p, 'empty' if is_file(sid) else 'dir'], 'setup', {}))
            L = sorted(ent)
            groups = self.targeted(rng, v, L)
            for _ in range(ns):
                g = self.gen_group(rng, v, rng.choice(L), L)
                if g is not None:
                    groups.append(g)
            for g in groups:
                self.gid += 1
                rule, left, rights, m = g
                for q, side in [(left, 'L')] + [(r_, 'R') for r_ in rights]:
                    mm = dict(m, g=self.gid, rule=rule, side=side, u=ui)
                    more.append(Case('find_paths', [self.default_cfg, q], 'fspair', dict(mm, finder='paths')))
                    more.append(Case('find_all', [q], 'fspair', dict(mm, finder='all')))
                    more.append(Case('unfold', [q, '0', '0'], 'unfold', {'for': q}))
        more.append(Case('fs_reset', [], 'setup', {}))
        return more
    def targeted(self, rng, v, L):
        """deterministic comma groups: per level one entity with overlapping alternatives (value, '*') at its last position, and
        for every pair of entities that differ in one value, one extending the other across a '_' (x / x_y / y_x), both values as
        alternatives with a wildcard next to them"""
        out = []
        # literal rule, one wildcard only, at a value with an unusual first / last character
        import re as _re
        odd = [e for e in L if e and any(not _re.match(r'^[A-Za-z0-9][A-Za-z0-9_.-]*$', g) for g in e.split('/'))]
        for e in odd[:6] + ([rng.choice(L)] if L else []):
            segs = e.split('/')
            cand = [i for i, g in enumerate(segs) if not _re.match(r'^[A-Za-z0-9][A-Za-z0-9_.-]*$', g)] or [len(segs) - 1]
            i = rng.choice(cand)
            if segs[i] in v.alias or not segs[i] or any(ch in e for ch in '*>,?'):
                continue
            out.append(('literal', e, ['/'.join(segs[:i] + ['*'] + segs[i + 1:])], {'pos': i, 'val': segs[i]}))
        # alias rule with the alias as the only search feature (every other value explicit)
        withal = [e for e in L if e and e.split('/')[-1] in [m for ms in v.alias.values() for m in ms] and not any(ch in e for ch in '*>,?')]
        for e in rng.sample(withal, min(2, len(withal))):
            segs = e.split('/')
            al = rng.choice(sorted(a for a, ms in v.alias.items() if segs[-1] in ms))
            out.append(('alias', '/'.join(segs[:-1] + [al]), ['/'.join(segs[:-1] + [m]) for m in v.alias[al]], {}))
        bylen = {}
        for e in L:
            bylen.setdefault(len(e.split('/')), []).append(e)
        for n, es in sorted(bylen.items()):
            base = rng.choice(es).split('/')
            out.append(('comma', '/'.join(base[:-1] + [base[-1] + ',*']), ['/'.join(base), '/'.join(base[:-1] + ['*'])], {}))
            seen = 0
            for e1 in es:
                for e2 in es:
                    a, b = e1.split('/'), e2.split('/')
                    diff = [i for i in range(n) if a[i] != b[i]]
                    if len(diff) != 1 or seen >= 2:
                        continue
                    i = diff[0]
                    if not (b[i].endswith('_' + a[i]) or b[i].startswith(a[i] + '_')):
                        continue
                    seen += 1
                    for j in range(2, n):          # a wildcard in any other field (neighbours in the file name need not be neighbours in the Sid)
                        if j != i:
                            segs = list(a); segs[j] = '*'
                            alts = [a[i], b[i]]
                            out.append(('comma', '/'.join(segs[:i] + [','.join(alts)] + segs[i + 1:]),
                                        ['/'.join(segs[:i] + [x] + segs[i + 1:]) for x in alts], {}))
        return out
    def keys_for(self, v, s):
        from props.c01 import natural
        n = natural(v, s)
        return [k for k, _ in n[1]] if n else []
    def oracle_bulk(self, cases, impl_out, ctx):
        v = gen.vocab_from_ctx(ctx)
        leaf_keys = dict(ctx['rawd']['leaf_keys'])
        sep = ctx['rawd']['sep']
        groups = {}
        unfolds = {}
        for c, o in zip(cases, impl_out):
            if c.op == 'unfold':
                unfolds[c.args[0]] = o
        for c, o in zip(cases, impl_out):
            if c.op == 'find_list_sids' and 'g' in c.meta:
                groups.setdefault(c.meta['g'], []).append((c, o))
        fails = []
        fails.extend(self.fs_oracle(cases, impl_out, ctx, unfolds, v, leaf_keys, sep))
        for g, lst in groups.items():
            L = [(c, o) for c, o in lst if c.meta['side'] == 'L']
            R = [(c, o) for c, o in lst if c.meta['side'] == 'R']
            if not L:
                continue
            (lc, lo) = L[0]
            if any(o[0] != 'ok' for _, o in lst):
                # raising is only legitimate as SpilException and then on both sides of a ** pair
                if lo[0] != 'ok' and lo[1] != 'SpilException':
                    fails.append((lc, lo, 'search raised %r' % (lo,)))
                continue
            rule = lc.meta['rule']
            key = lambda x: (x[0], x[1])
            # untyped entries of a mixed universe can glob-match a search: the algebra speaks of typed results
            lst = [(c_, ['ok', [x for x in o_[1] if x[1]]]) for c_, o_ in lst]
            L = [(c_, o_) for c_, o_ in lst if c_.meta['side'] == 'L']
            R = [(c_, o_) for c_, o_ in lst if c_.meta['side'] == 'R']
            (lc, lo) = L[0]
            left = sorted(set(key(x) for x in lo[1]))
            if len(left) != len(lo[1]):
                fails.append((lc, lo, 'duplicate results')); continue
            if any(not x[1] for x in lo[1]):
                # untyped entries of a mixed universe can glob-match; the property speaks of typed results when L holds typed entries
                pass
            if rule in ('comma', 'alias'):
                right = sorted(set(key(x) for _, o in R for x in o[1]))
                if left != right:
                    fails.append((lc, lo, '%s: %r gives %r, union of alternatives %r' % (rule, lc.args[1], left, right)))
            elif rule == 'dstar':
                # "restricted to leaf types": only the levels whose unfolded forms include a leaf-typed search contribute
                right = set()
                for rc, o in R:
                    u = unfolds.get(rc.args[1])
                    if not u or u[0] != 'ok':
                        continue
                    has_leaf = any(x[2] and x[2][-1][0] == leaf_keys.get(x[1].split(sep)[0]) for x in u[1])
                    if has_leaf:
                        for x in o[1]:
                            right.add(key(x))
                if left != sorted(right):
                    fails.append((lc, lo, '**: %r gives %r, union over /* levels restricted to leaf types %r' % (lc.args[1], left, sorted(right))))
            elif rule == 'filter':
                k, val = lc.meta['key'], lc.meta['val']
                ru = unfolds.get(R[0][0].args[1]) if R else None
                if not ru or ru[0] != 'ok' or not all(k in dict(x[2]) for x in ru[1]):
                    continue      # the rule is about a key that (all) the searched types have; otherwise the filter adds a level (C07)
                right = sorted(set(key(x) for _, o in R for x in o[1] if dict(x[2]).get(k) == val))
                if left != right:
                    fails.append((lc, lo, 'filter %s=%s: %r gives %r, filtered unfiltered results %r' % (k, val, lc.args[1], left, right)))
            elif rule == 'literal':
                i, val = lc.meta['pos'], lc.meta['val']
                right = sorted(set(key(x) for _, o in R for x in o[1] if x[0].split('/')[i] == val))
                if left != right:
                    fails.append((lc, lo, 'literal: %r gives %r, subset of the * search %r' % (lc.args[1], left, right)))
        return fails
    def fs_oracle(self, cases, impl_out, ctx, unfolds, v, leaf_keys, sep):
        """the rules on FindInPaths / FindInAll results (strings): unions as sets, multiplicity of a string bounded by the
        number of searched types that accept it, filter / literal by the fields the searched types give the string"""
        from props.c02 import all_accepting
        groups = {}
        for c, o in zip(cases, impl_out):
            if c.stream == 'fspair':
                groups.setdefault((c.meta['g'], c.meta['finder']), []).append((c, o))
        fails = []
        for (g, finder), lst in sorted(groups.items()):
            L = [(c, o) for c, o in lst if c.meta['side'] == 'L']
            R = [(c, o) for c, o in lst if c.meta['side'] == 'R']
            if not L:
                continue
            (lc, lo) = L[0]
            q = lc.args[-1]
            if any(o[0] != 'ok' for _, o in lst):
                if lo[0] != 'ok' and lo[1] != 'SpilException':
                    fails.append((lc, lo, '%s: search raised %r' % (finder, lo)))
                continue
            rule = lc.meta['rule']
            # no duplicates: a string may appear once per searched type that accepts it
            for c_, o_ in lst:
                u = unfolds.get(c_.args[-1])
                if not u or u[0] != 'ok':
                    continue
                utypes = set(x[1] for x in u[1])
                for s_ in set(o_[1]):
                    cap = len([1 for t, _ in all_accepting(v, s_) if t in utypes])
                    if o_[1].count(s_) > max(cap, 1):
                        fails.append((c_, o_, '%s.find(%r) yields %r %d times (searched types accepting it: %d)' % (finder, c_.args[-1], s_, o_[1].count(s_), cap)))
            # every result matches the search: same depth as, and segment-wise glob-matched by, one of the unfolded typed searches
            import re as _re2
            def seg_match(pat, val):
                return _re2.fullmatch('.*'.join(_re2.escape(x) for x in pat.replace('>', '*').split('*')), val, _re2.S) is not None
            for c_, o_ in lst:
                u = unfolds.get(c_.args[-1])
                if not u or u[0] != 'ok':
                    continue
                forms = [x[0].split('/') for x in u[1]]
                for s_ in o_[1]:
                    ss = s_.split('/')
                    if not any(len(f) == len(ss) and all(seg_match(a, b) for a, b in zip(f, ss)) for f in forms):
                        fails.append((c_, o_, '%s.find(%r) yields %r, which matches none of the typed searches it unfolds to %r' % (
                            finder, c_.args[-1], s_, ['/'.join(f) for f in forms][:4])))
                        break
            left = sorted(set(lo[1]))
            if rule in ('comma', 'alias'):
                right = sorted(set(x for _, o in R for x in o[1]))
                if left != right:
                    fails.append((lc, lo, '%s, %s: %r gives %r, union of the alternatives %r gives %r' % (finder, rule, q, left, [c_.args[-1] for c_, _ in R], right)))
            elif rule == 'dstar':
                right = set()
                for rc, o in R:
                    u = unfolds.get(rc.args[-1])
                    if not u or u[0] != 'ok':
                        continue
                    if any(x[2] and x[2][-1][0] == leaf_keys.get(x[1].split(sep)[0]) for x in u[1]):
                        right.update(o[1])
                if left != sorted(right):
                    fails.append((lc, lo, '%s, **: %r gives %r, union over /* levels restricted to leaf types %r' % (finder, q, left, sorted(right))))
            elif rule in ('filter', 'literal'):
                ru = unfolds.get(R[0][0].args[-1]) if R else None
                if not ru or ru[0] != 'ok':
                    continue
                utypes = set(x[1] for x in ru[1])
                if rule == 'filter':
                    k, val = lc.meta['key'], lc.meta['val']
                    if not all(k in dict(x[2]) for x in ru[1]):
                        continue
                    def keep(s_):
                        vals = set(dict(f).get(k) for t, f in all_accepting(v, s_) if t in utypes)
                        return (val in vals), len(vals) <= 1
                else:
                    i, val = lc.meta['pos'], lc.meta['val']
                    def keep(s_):
                        return s_.split('/')[i] == val, True
                items = set(x for _, o in R for x in o[1])
                if not all(keep(s_)[1] for s_ in items):
                    continue      # a string typed differently by two searched types: not decidable on strings
                right = sorted(s_ for s_ in items if keep(s_)[0])
                if left != right:
                    fails.append((lc, lo, '%s, %s %s: %r gives %r, the matching part of %r is %r' % (finder, rule, val, q, left, R[0][0].args[-1], right)))
        return fails
    def nontrivial(self, case, impl):
        if case.stream == 'fspair':
            return [case.op, case.args] if case.meta.get('side') == 'L' and impl[0] == 'ok' and impl[1] else None
        return case.args if case.meta.get('side') == 'L' and impl[0] == 'ok' and impl[1] else None
    def histogram_key(self, case, impl):
        if case.stream in ('setup', 'paths', 'unfold'):
            return case.stream
        return '%s%s:%s:%s' % ('fs-' + case.meta['finder'] + ':' if case.stream == 'fspair' else '', case.meta.get('rule'), case.meta.get('side'), 'raise' if impl[0] != 'ok' else min(len(impl[1]), 3))

PROP = C10()
