(** Lemmas about [split_c], [split1_c], [join], [mem_c], [take], [drop_last] of Base/Str.v. *)
From Coq Require Import List String Ascii Bool Arith Lia.
From Spil Require Import Base.Str Base.StrProofs.
Import ListNotations.
Local Open Scope string_scope.

Lemma mem_c_app c a b : mem_c c (a ++ b) = mem_c c a || mem_c c b.
Proof.
  induction a as [|x a IH]; simpl.
  - reflexivity.
  - rewrite IH. rewrite orb_assoc. reflexivity.
Qed.

Lemma split_c_not_nil c s : split_c c s <> [].
Proof.
  destruct s as [|a s]; simpl.
  - discriminate.
  - destruct (Ascii.eqb a c); [discriminate|].
    destruct (split_c c s); discriminate.
Qed.

(* split in terms of the first separator *)
Lemma split_c_split1 c s :
  split_c c s = match split1_c c s with
                | (h, None) => [h]
                | (h, Some tl) => h :: split_c c tl
                end.
Proof.
  induction s as [|a s IH]; simpl.
  - reflexivity.
  - destruct (Ascii.eqb a c) eqn:E.
    + reflexivity.
    + rewrite IH. destruct (split1_c c s) as [h [tl|]]; reflexivity.
Qed.

Lemma split1_c_some c s h tl :
  split1_c c s = (h, Some tl) -> s = h ++ String c tl /\ mem_c c h = false.
Proof.
  revert h tl. induction s as [|a s IH]; simpl; intros h tl H.
  - discriminate.
  - destruct (Ascii.eqb a c) eqn:E.
    + inversion H; subst. apply Ascii.eqb_eq in E. subst a. split; reflexivity.
    + destruct (split1_c c s) as [h' t'] eqn:E1. inversion H; subst.
      destruct (IH h' tl eq_refl) as (-> & Hm). simpl. rewrite E. split; [reflexivity | exact Hm].
Qed.

Lemma split1_c_none c s h :
  split1_c c s = (h, None) -> h = s /\ mem_c c s = false.
Proof.
  revert h. induction s as [|a s IH]; simpl; intros h H.
  - inversion H; subst. split; reflexivity.
  - destruct (Ascii.eqb a c) eqn:E.
    + discriminate.
    + destruct (split1_c c s) as [h' t'] eqn:E1. inversion H; subst.
      destruct (IH h' eq_refl) as (-> & Hm). split; [reflexivity | exact Hm].
Qed.

Lemma split1_c_app c h tl :
  mem_c c h = false -> split1_c c (h ++ String c tl) = (h, Some tl).
Proof.
  induction h as [|a h IH]; simpl; intros Hm.
  - rewrite Ascii.eqb_refl. reflexivity.
  - apply orb_false_iff in Hm. destruct Hm as (Ha & Hm). rewrite Ha.
    rewrite (IH Hm). reflexivity.
Qed.

Lemma split1_c_nomem c s : mem_c c s = false -> split1_c c s = (s, None).
Proof.
  induction s as [|a s IH]; simpl; intros Hm.
  - reflexivity.
  - apply orb_false_iff in Hm. destruct Hm as (Ha & Hm). rewrite Ha.
    rewrite (IH Hm). reflexivity.
Qed.

Lemma split_c_nomem c s : mem_c c s = false -> split_c c s = [s].
Proof. intros H. rewrite split_c_split1, (split1_c_nomem c s H). reflexivity. Qed.

Lemma split_c_app c a b :
  mem_c c a = false -> split_c c (a ++ String c b) = a :: split_c c b.
Proof. intros H. rewrite split_c_split1, (split1_c_app c a b H). reflexivity. Qed.

Lemma join_cons2 sep x y t : join sep (x :: y :: t) = x ++ sep ++ join sep (y :: t).
Proof. reflexivity. Qed.

Lemma join_cons_ne sep x l : l <> [] -> join sep (x :: l) = x ++ sep ++ join sep l.
Proof. destruct l; [congruence | reflexivity]. Qed.

Lemma join_split_c c s : join (str1 c) (split_c c s) = s.
Proof.
  induction s as [|a s IH]; simpl.
  - reflexivity.
  - destruct (Ascii.eqb a c) eqn:E.
    + apply Ascii.eqb_eq in E. subst a.
      rewrite join_cons_ne by apply split_c_not_nil. rewrite IH. reflexivity.
    + destruct (split_c c s) as [|h t] eqn:Es.
      * exfalso. exact (split_c_not_nil c s Es).
      * destruct t as [|y t].
        -- simpl in *. rewrite IH. reflexivity.
        -- rewrite join_cons2. rewrite join_cons2 in IH. rewrite <- IH. reflexivity.
Qed.

Lemma split_c_single c s g : split_c c s = [g] -> g = s.
Proof. intros H. rewrite <- (join_split_c c s), H. reflexivity. Qed.

Lemma take_length_app a b : take (String.length a) (a ++ b) = a.
Proof. induction a as [|x a IH]; simpl; [destruct b; reflexivity | rewrite IH; reflexivity]. Qed.

Lemma drop_last_app a b : drop_last (String.length b) (a ++ b) = a.
Proof.
  unfold drop_last. rewrite length_app_s.
  replace (String.length a + String.length b - String.length b) with (String.length a) by lia.
  apply take_length_app.
Qed.

Lemma app_neq_self (a : string) x b : a ++ String x b <> a.
Proof.
  intros H. apply (f_equal String.length) in H. rewrite length_app_s in H. simpl in H. lia.
Qed.
