(** C09 for the ">" (last) search: "the answer does not depend on which Finder serves it".
    The sorted search ([find_glob.sorted_search]) of the tree finder (FindInPaths over a file tree F that
    materialises the data set E) and of the list finder (FindInList over the strings of E) return the
    identical list.  Reuses: C11 ([tree_search_glob]: what the tree finder's star search returns), C08
    ([star_search_glob_spec]: what the list finder's star search returns) and the set-level lemma behind
    [set_equal_stars] ([sort_nodup_set_eq]: sorting after de-duplication only depends on the set). *)
From Coq Require Import List String Ascii Bool Arith Lia.
From Spil Require Import Base.Str Base.Dict Base.Outcome Base.PyPath Base.StrProofs Regex.Re
  Resolva.Template Resolva.Resolver Conf.ConfUtil Conf.Conf Conf.WF Conf.Routing Sid.Query Sid.Sid Sid.TypingSpec
  Sid.SidProofs Path.UnambiguousDefs FS.Fs
  Search.Unfold Search.SortLemmas Search.FindList Search.FindListProofs Search.Finders
  Search.FindersProofs Search.GlobProofs Search.DenoteProofs
  Search.TreeListDefs Search.TreeListProofs
  Data.Data Data.VersionOrderProofs Data.SidLevelDefs Data.SidLevelProofs.
Import ListNotations.
Local Open Scope string_scope.
Local Open Scope list_scope.

(** * Generic part: the sorted search only depends on the SET of what the star searches collect *)

Lemma sorted_search_g_via_founds Ld star qs :
  sorted_search_g Ld star qs =
  match qs with
  | [] => Ok []
  | q0 :: _ =>
      match index_of ">" (split_c "/" (s_string q0)) with
      | None => Raise ValueError
      | Some index =>
          do founds <- founds_of Ld star qs;
          Ok (group_firsts (fun x => firstn index (split_c "/" x)) (rev (sort_paths (nodup_s founds))) None)
      end
  end.
Proof. destruct qs; reflexivity. Qed.

(* weaker than the hypotheses of [set_equal_stars]: the star searches need not agree call by call, only
   the unions over the whole list of searches *)
Lemma sorted_search_g_founds_eq Ld star1 star2 qs l1 l2 :
  (forall f1 f2, founds_of Ld star1 qs = Ok f1 -> founds_of Ld star2 qs = Ok f2 ->
                 forall s, In s f1 <-> In s f2) ->
  sorted_search_g Ld star1 qs = Ok l1 -> sorted_search_g Ld star2 qs = Ok l2 -> l1 = l2.
Proof.
  intros HF H1 H2. rewrite sorted_search_g_via_founds in H1, H2.
  destruct qs as [|q0 rest]; [congruence|].
  destruct (index_of ">" (split_c "/" (s_string q0))) as [index|]; [|discriminate].
  destruct (founds_of Ld star1 (q0 :: rest)) as [f1|e1] eqn:E1; cbn [bind] in H1; [|discriminate].
  destruct (founds_of Ld star2 (q0 :: rest)) as [f2|e2] eqn:E2; cbn [bind] in H2; [|discriminate].
  rewrite (sort_nodup_set_eq f1 f2 (HF f1 f2 eq_refl eq_refl)) in H1. congruence.
Qed.

(* the answer of a sorted search has no duplicates *)
Lemma sorted_search_g_NoDup Ld star qs l : sorted_search_g Ld star qs = Ok l -> NoDup l.
Proof.
  intros H. destruct (sorted_search_g_spec Ld star qs l H) as [(_ & ->) | (q0 & rest & index & founds & _ & _ & _ & H3)].
  - constructor.
  - cbv zeta in H3. destruct H3 as (_ & _ & Hnd). exact (NoDup_map_inv _ _ Hnd).
Qed.

Lemma uniq_first_aux_id : forall l seen, NoDup l -> (forall x, In x l -> ~ In x seen) -> uniq_first_aux seen l = l.
Proof.
  induction l as [|a l IH]; intros seen Hnd Hs; [reflexivity|]. cbn [uniq_first_aux].
  inversion Hnd as [|? ? Hna Hnd']; subst.
  assert (E : in_list a seen = false) by (apply in_list_false; apply Hs; left; reflexivity).
  rewrite E. f_equal. apply IH; [exact Hnd'|]. intros x Hx [<-|Hin]; [contradiction|].
  apply (Hs x (or_intror Hx) Hin).
Qed.

Lemma dedup_first_id l : NoDup l -> dedup_first l = l.
Proof. intros H. unfold dedup_first, uniq_first. apply uniq_first_aux_id; [exact H|]. intros x _ []. Qed.

(** * What [Finder.find] feeds to [do_find]: the Sid itself, or the unfolded typed searches *)

Definition find_direct (Ld : Loaded) (x : sid) : bool :=
  sid_bool x && negb (is_search Ld x)
  && negb (dmem (c_extension_alias (l_conf Ld)) (last (split_c "/" (s_string x)) ""))
  && negb (mem_c "?" (s_string x)).

Definition find_searches (Ld : Loaded) (s : string) : outcome (list sid) :=
  do x <- Sid Ld s;
  if find_direct Ld x then Ok [x] else unfold_search Ld s false false.

Lemma find_g_via_searches Ld star s :
  find_g Ld star s = do qs <- find_searches Ld s; do_find_g Ld star qs.
Proof.
  unfold find_g, find_searches, find_direct. destruct (Sid Ld s) as [x|e]; cbn [bind]; [|reflexivity].
  destruct (sid_bool x && negb (is_search Ld x) && _ && _); cbn [bind]; reflexivity.
Qed.

(** * The two finders over a data set *)

(* the "*" versions of the typed searches, re-read by the Sid factory as the sorted search does *)
Definition starred_all (Ld : Loaded) (qs qss : list sid) : Prop := mapM (starred Ld) qs = Ok qss.

Section Agree.
Variables (c : Conf) (Ld : Loaded).
Hypothesis Hload : load c = Some Ld.
Hypothesis Hwf : wf_loadedb Ld = true.
Hypothesis Hpu : paths_unambiguousb Ld = true.
Variable cfg : string.
Variable E : list sid.
Variable F : fs.
Hypothesis HD : dataset_ok Ld cfg E F.

(* the star search of the list finder over the strings of the data set *)
Definition list_star : star_fn := fun qs => star_search qs (map s_string E).

Lemma single_search_ok qss q' : searches_ok Ld cfg qss -> In q' qss ->
  searches_ok Ld cfg [q'] /\ pat_inj Ld cfg [q'].
Proof.
  intros Hqs Hq'. split.
  - intros q [<-|[]]. exact (Hqs q' Hq').
  - intros q q2 po po' [<-|[]] [<-|[]] _ _ _ _. reflexivity.
Qed.

(** what the two sorted searches collect before sorting: the same set *)
Lemma founds_agree qs qss f1 f2 :
  starred_all Ld qs qss -> searches_ok Ld cfg qss -> types_covered E qss ->
  founds_of Ld (paths_star Ld F cfg) qs = Ok f1 -> founds_of Ld list_star qs = Ok f2 ->
  forall s, In s f1 <-> In s f2.
Proof.
  intros Hst Hqs Hcov Hf1 Hf2 s. unfold founds_of in Hf1, Hf2. split.
  - intros Hs. destruct (concat_mapM_In _ _ _ _ Hf1 Hs) as (q & ys & Hq & Hy & Hsy).
    fold (starred Ld q) in Hy. destruct (starred Ld q) as [q'|ex] eqn:Eq; cbn [bind] in Hy; [|discriminate].
    destruct (mapM_In_fwd _ _ _ _ Hst Hq) as (q1 & Eq1 & Hq1). rewrite Eq in Eq1. inversion Eq1; subst q1.
    destruct (single_search_ok qss q' Hqs Hq1) as (Hso & Hpi).
    apply (tree_search_glob c Ld Hload Hwf Hpu cfg E F HD [q'] Hso Hpi ys Hy s) in Hsy.
    destruct Hsy as (e & q2 & He & [<-|[]] & -> & _ & G).
    destruct (concat_mapM_In_fwd _ _ _ _ Hf2 Hq) as (ys2 & Hy2 & Hincl). apply Hincl.
    fold (starred Ld q) in Hy2. rewrite Eq in Hy2. cbn [bind] in Hy2. unfold list_star in Hy2.
    apply (star_search_glob_spec [q'] _ ys2 Hy2). split; [apply in_map; exact He|].
    exists q'. split; [left; reflexivity | exact G].
  - intros Hs. destruct (concat_mapM_In _ _ _ _ Hf2 Hs) as (q & ys2 & Hq & Hy2 & Hsy).
    fold (starred Ld q) in Hy2. destruct (starred Ld q) as [q'|ex] eqn:Eq; cbn [bind] in Hy2; [|discriminate].
    destruct (mapM_In_fwd _ _ _ _ Hst Hq) as (q1 & Eq1 & Hq1). rewrite Eq in Eq1. inversion Eq1; subst q1.
    unfold list_star in Hy2. apply (star_search_glob_spec [q'] _ ys2 Hy2) in Hsy.
    destruct Hsy as (Hin & q2 & [<-|[]] & G). apply in_map_iff in Hin. destruct Hin as (e & <- & He).
    destruct (Hcov e q' He Hq1 G) as (q'' & Hq'' & Hty & G'').
    destruct (mapM_In _ _ _ _ Hst Hq'') as (p & Hp & Ep).
    destruct (concat_mapM_In_fwd _ _ _ _ Hf1 Hp) as (ys & Hy & Hincl). apply Hincl.
    fold (starred Ld p) in Hy. rewrite Ep in Hy. cbn [bind] in Hy.
    destruct (single_search_ok qss q'' Hqs Hq'') as (Hso & Hpi).
    apply (tree_search_glob c Ld Hload Hwf Hpu cfg E F HD [q''] Hso Hpi ys Hy).
    exists e, q''. split; [exact He|]. split; [left; reflexivity|]. split; [reflexivity|]. split; assumption.
Qed.

(** C09 (last): the sorted search of the tree finder and of the list finder give the identical list *)
Theorem last_agree_sorted qs qss l l' :
  starred_all Ld qs qss -> searches_ok Ld cfg qss -> types_covered E qss ->
  sorted_search_g Ld (paths_star Ld F cfg) qs = Ok l ->
  sorted_search_g Ld (fun q => star_search q (map s_string E)) qs = Ok l' ->
  l = l'.
Proof.
  intros Hst Hqs Hcov H H'.
  apply (sorted_search_g_founds_eq Ld (paths_star Ld F cfg) list_star qs l l'); [|exact H|exact H'].
  intros f1 f2 Hf1 Hf2. exact (founds_agree qs qss f1 f2 Hst Hqs Hcov Hf1 Hf2).
Qed.

(* against the list finder of FindList.v itself *)
Corollary last_agree_sorted_list qs qss l l' :
  starred_all Ld qs qss -> searches_ok Ld cfg qss -> types_covered E qss ->
  sorted_search_g Ld (paths_star Ld F cfg) qs = Ok l ->
  sorted_search Ld qs (map s_string E) = Ok l' ->
  l = l'.
Proof. intros Hst Hqs Hcov H H'. exact (last_agree_sorted qs qss l l' Hst Hqs Hcov H H'). Qed.

(** lifted to [find_glob.do_find] of the two Finders of the routing *)
Theorem last_agree_do_find qs qss idp idl l l' :
  starred_all Ld qs qss -> searches_ok Ld cfg qss -> types_covered E qss ->
  existsb has_gt qs = true ->
  do_find_g Ld (fstar Ld F (FPaths idp cfg)) qs = Ok l ->
  do_find_g Ld (fstar Ld F (FList idl (map s_string E))) qs = Ok l' ->
  l = l'.
Proof.
  intros Hst Hqs Hcov Hgt H H'.
  rewrite (do_find_g_sorted Ld _ qs Hgt) in H. rewrite (do_find_g_sorted Ld _ qs Hgt) in H'.
  exact (last_agree_sorted qs qss l l' Hst Hqs Hcov H H').
Qed.

(** lifted to [Finder.find] (string argument): FindInPaths.find against FindInList.find *)
Theorem last_agree_find s qs qss idp l l' :
  find_searches Ld s = Ok qs ->
  starred_all Ld qs qss -> searches_ok Ld cfg qss -> types_covered E qss ->
  existsb has_gt qs = true ->
  ffind Ld F (FPaths idp cfg) s = Ok l ->
  find_list Ld (map s_string E) s = Ok l' ->
  l = l'.
Proof.
  intros Hs Hst Hqs Hcov Hgt H H'. unfold ffind in H.
  rewrite <- (ffind_FList Ld F "" (map s_string E) s) in H'. unfold ffind in H'.
  rewrite find_g_via_searches, Hs in H, H'. cbn [bind] in H, H'.
  exact (last_agree_do_find qs qss idp "" l l' Hst Hqs Hcov Hgt H H').
Qed.

(** lifted to FindInAll.find when every typed search is routed to the path finder: FindInAll over the tree
    against FindInList over the list.  ([find_all] always unfolds, [find_list] first tries the Sid itself:
    both are given the same list of typed searches.) *)
Theorem last_agree_find_all (Rt : Routing) id s qs qss l l' :
  unfold_search Ld s false false = Ok qs -> find_searches Ld s = Ok qs ->
  routed_to Rt (FPaths id cfg) qs ->
  starred_all Ld qs qss -> searches_ok Ld cfg qss -> types_covered E qss ->
  existsb has_gt qs = true ->
  find_all Ld Rt F s = Ok l ->
  find_list Ld (map s_string E) s = Ok l' ->
  l = l'.
Proof.
  intros Hu Hs Hrt Hst Hqs Hcov Hgt H H'.
  unfold find_all in H. rewrite Hu in H. cbn [bind] in H.
  rewrite (group_by_finder_same Rt (FPaths id cfg) qs Hrt) in H.
  destruct qs as [|q0 rest] eqn:Eqs; [discriminate|]. rewrite <- Eqs in *.
  cbn [concat_mapM fst snd] in H.
  destruct (do_find_g Ld (fstar Ld F (FPaths id cfg)) qs) as [r|e] eqn:Er; cbn [bind] in H; [|discriminate].
  rewrite app_nil_r in H. inversion H; subst l. clear H.
  rewrite <- (ffind_FList Ld F "" (map s_string E) s) in H'. unfold ffind in H'.
  rewrite find_g_via_searches, Hs in H'. cbn [bind] in H'.
  assert (Hnd : NoDup r).
  { rewrite (do_find_g_sorted Ld _ qs Hgt) in Er. exact (sorted_search_g_NoDup Ld _ qs r Er). }
  rewrite (dedup_first_id r Hnd).
  exact (last_agree_do_find qs qss id "" r l' Hst Hqs Hcov Hgt Er H').
Qed.

End Agree.

(** * The guards, computed *)

Definition last_agree_guardb (Ld : Loaded) (cfg : string) (E qs : list sid) : bool :=
  match mapM (starred Ld) qs with
  | Ok qss => forallb (fun q => typed_searchb Ld q && search_okb Ld cfg q) qss && types_coveredb E qss
  | Raise _ => false
  end.

Lemma last_agree_guardb_sound Ld cfg E qs : last_agree_guardb Ld cfg E qs = true ->
  exists qss, starred_all Ld qs qss /\ searches_ok Ld cfg qss /\ types_covered E qss.
Proof.
  unfold last_agree_guardb, starred_all. destruct (mapM (starred Ld) qs) as [qss|e]; [|discriminate].
  intros H. apply andb_true_iff in H. destruct H as (H1 & H2). exists qss. split; [reflexivity|].
  split; [exact (searches_okb_sound Ld cfg qss H1) | exact (types_coveredb_sound E qss H2)].
Qed.

(* the pat_inj guard of C11 holds for every single search, which is how the sorted search calls the finder *)
Lemma pat_inj_single Ld cfg q : pat_inj Ld cfg [q].
Proof. intros q1 q2 po po' [<-|[]] [<-|[]] _ _ _ _. reflexivity. Qed.

Section AgreeB.
Variables (c : Conf) (Ld : Loaded) (cfg : string) (E : list sid) (F : fs).
Hypothesis Hload : load c = Some Ld.
Hypothesis Hwf : wf_loadedb Ld = true.
Hypothesis Hpu : paths_unambiguousb Ld = true.
Hypothesis HDb : dataset_okb Ld cfg E F = true.

Theorem last_agree_sortedb qs l l' :
  last_agree_guardb Ld cfg E qs = true ->
  sorted_search_g Ld (paths_star Ld F cfg) qs = Ok l ->
  sorted_search_g Ld (fun q => star_search q (map s_string E)) qs = Ok l' ->
  l = l'.
Proof.
  intros Hg H H'. destruct (last_agree_guardb_sound Ld cfg E qs Hg) as (qss & Hst & Hqs & Hcov).
  exact (last_agree_sorted c Ld Hload Hwf Hpu cfg E F (dataset_okb_sound Ld cfg E F HDb) qs qss l l' Hst Hqs Hcov H H').
Qed.

Theorem last_agree_do_findb qs idp idl l l' :
  last_agree_guardb Ld cfg E qs = true -> existsb has_gt qs = true ->
  do_find_g Ld (fstar Ld F (FPaths idp cfg)) qs = Ok l ->
  do_find_g Ld (fstar Ld F (FList idl (map s_string E))) qs = Ok l' ->
  l = l'.
Proof.
  intros Hg Hgt H H'. destruct (last_agree_guardb_sound Ld cfg E qs Hg) as (qss & Hst & Hqs & Hcov).
  exact (last_agree_do_find c Ld Hload Hwf Hpu cfg E F (dataset_okb_sound Ld cfg E F HDb)
           qs qss idp idl l l' Hst Hqs Hcov Hgt H H').
Qed.

Theorem last_agree_findb s qs idp l l' :
  find_searches Ld s = Ok qs ->
  last_agree_guardb Ld cfg E qs = true -> existsb has_gt qs = true ->
  ffind Ld F (FPaths idp cfg) s = Ok l ->
  find_list Ld (map s_string E) s = Ok l' ->
  l = l'.
Proof.
  intros Hs Hg Hgt H H'. destruct (last_agree_guardb_sound Ld cfg E qs Hg) as (qss & Hst & Hqs & Hcov).
  exact (last_agree_find c Ld Hload Hwf Hpu cfg E F (dataset_okb_sound Ld cfg E F HDb)
           s qs qss idp l l' Hs Hst Hqs Hcov Hgt H H').
Qed.

Theorem last_agree_find_allb (Rt : Routing) id s qs l l' :
  unfold_search Ld s false false = Ok qs -> find_searches Ld s = Ok qs ->
  routed_tob Rt id cfg qs = true ->
  last_agree_guardb Ld cfg E qs = true -> existsb has_gt qs = true ->
  find_all Ld Rt F s = Ok l ->
  find_list Ld (map s_string E) s = Ok l' ->
  l = l'.
Proof.
  intros Hu Hs Hrt Hg Hgt H H'. destruct (last_agree_guardb_sound Ld cfg E qs Hg) as (qss & Hst & Hqs & Hcov).
  exact (last_agree_find_all c Ld Hload Hwf Hpu cfg E F (dataset_okb_sound Ld cfg E F HDb)
           Rt id s qs qss l l' Hu Hs (routed_tob_sound Rt id cfg qs Hrt) Hst Hqs Hcov Hgt H H').
Qed.

End AgreeB.

Print Assumptions last_agree_sorted.
Print Assumptions last_agree_do_find.
Print Assumptions last_agree_find.
Print Assumptions last_agree_find_all.
Print Assumptions last_agree_sortedb.
Print Assumptions last_agree_do_findb.
Print Assumptions last_agree_findb.
Print Assumptions last_agree_find_allb.
