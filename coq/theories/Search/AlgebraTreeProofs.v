(** C10 for the TREE finder (FindInPaths): the characterisation of a search result and the rewrite
    rules of the search algebra, from the list-finder development (Search/AlgebraProofs.v: the C07
    denotation and the lemmas on [matched]) and "tree = list" (C11, Search/TreeListProofs.v). *)
From Coq Require Import List String Ascii Bool Arith Lia Permutation.
From Spil Require Import Base.Str Base.Dict Base.Outcome Base.StrProofs Base.SplitProofs Base.PyPath
  Regex.Re Regex.MatchProofs Resolva.Template Resolva.Resolver Conf.ConfUtil Conf.Conf Conf.WF Conf.Routing
  Sid.Query Sid.Sid Sid.TypingSpec Sid.TypingProofs Sid.SidLemmas Sid.SidProofs Sid.QueryStringProofs Sid.QueryProofs
  Path.PathProofs Path.UnambiguousDefs Path.UnambiguousProofs FS.Fs
  Search.Unfold Search.FindList Search.SortLemmas Search.UnfoldProofs Search.GlobProofs Search.FindListProofs
  Search.UnfoldSpec Search.DenoteLemmas Search.DenoteQuery Search.DenoteTable Search.DenoteProofs
  Search.Finders Search.FindersProofs Search.TreeListDefs Search.TreeGlob Search.TreePattern Search.TreeListProofs
  Search.LastAgreeProofs Search.AlgebraDefs Search.AlgebraProofs Search.AlgebraTreeDefs.
Import ListNotations.
Local Open Scope string_scope.

(** * 0. What [FindInPaths.find] globs *)

Lemma shortcut_direct Ld s :
  shortcut Ld s = match Sid Ld s with Ok x => find_direct Ld x | Raise _ => false end.
Proof. unfold shortcut, find_direct. destruct (Sid Ld s); reflexivity. Qed.

Lemma find_searches_cases Ld s qs : find_searches Ld s = Ok qs ->
  (shortcut Ld s = true /\ exists x, Sid Ld s = Ok x /\ qs = [x]) \/
  (shortcut Ld s = false /\ unfold_search Ld s false false = Ok qs).
Proof.
  unfold find_searches. rewrite shortcut_direct. destruct (Sid Ld s) as [x|ex]; cbn [bind]; [|discriminate].
  destruct (find_direct Ld x).
  - intros H. inversion H; subst. left. split; [reflexivity|]. exists x. auto.
  - intros H. right. auto.
Qed.

Lemma find_searches_unfolded Ld s : shortcut Ld s = false ->
  forall qs, find_searches Ld s = Ok qs <-> (exists x, Sid Ld s = Ok x) /\ unfold_search Ld s false false = Ok qs.
Proof.
  intros Hsc qs. unfold find_searches. rewrite shortcut_direct in Hsc.
  destruct (Sid Ld s) as [x|ex]; cbn [bind].
  - rewrite Hsc. split; [intros H; split; [exists x; reflexivity | exact H] | intros (_ & H); exact H].
  - split; [discriminate | intros ((x & Hx) & _); discriminate].
Qed.

Lemma ffind_paths Ld F id cfg s l : ffind Ld F (FPaths id cfg) s = Ok l ->
  exists qs, find_searches Ld s = Ok qs /\ do_find_g Ld (paths_star Ld F cfg) qs = Ok l.
Proof.
  unfold ffind. rewrite find_g_via_searches. cbn [fstar].
  destruct (find_searches Ld s) as [qs|ex]; cbn [bind]; [|discriminate]. intros H. exists qs. auto.
Qed.

Lemma tree_guardb_sound Ld cfg E s : tree_guardb Ld cfg E s = true -> tree_guard Ld cfg E s.
Proof.
  unfold tree_guardb, tree_guard. intros H qs Hqs. rewrite Hqs in H.
  apply andb_true_iff in H. destruct H as (H & H3). apply andb_true_iff in H. destruct H as (H1 & H2).
  split; [exact (searches_okb_sound Ld cfg qs H1)|]. split; [exact (pat_injb_sound Ld cfg qs H2)|].
  exact (types_coveredb_sound E qs H3).
Qed.

Lemma tree_guard0b_sound Ld cfg s : tree_guard0b Ld cfg s = true -> tree_guard0 Ld cfg s.
Proof.
  unfold tree_guard0b, tree_guard0. intros H qs Hqs. rewrite Hqs in H.
  apply andb_true_iff in H. destruct H as (H1 & H2).
  split; [exact (searches_okb_sound Ld cfg qs H1) | exact (pat_injb_sound Ld cfg qs H2)].
Qed.

Lemma tree_guard_guard0 Ld cfg E s : tree_guard Ld cfg E s -> tree_guard0 Ld cfg s.
Proof. intros H qs Hqs. destruct (H qs Hqs) as (H1 & H2 & _). auto. Qed.

(** * 1. No duplicates *)

(* the path p of the tree is globbed by the pattern of the search q, resolves to x, and q accepts x
   (the path behind a [hit] of FindersProofs.v) *)
Definition hit_path (Ld : Loaded) (cfg : string) (F : fs) (q : sid) (p : string) (x : sid) : Prop :=
  exists po, sid_path Ld q cfg = Ok po /\ In p (dkeys F) /\
    comps_match (split_c "/" (pattern_of po)) (split_c "/" p) = true /\
    sid_factory Ld (FromPath p cfg) = Ok x /\ FindersProofs.accepts q x = true.

Lemma Forall2_snoc {A B} (R : A -> B -> Prop) l1 l2 a b : Forall2 R l1 l2 -> R a b -> Forall2 R (l1 ++ [a]) (l2 ++ [b]).
Proof. intros H Hab. apply Forall2_app; [exact H|]. constructor; [exact Hab | constructor]. Qed.

Lemma NoDup_snoc {A} (l : list A) a : NoDup l -> ~ In a l -> NoDup (l ++ [a]).
Proof.
  induction l as [|x l IH]; intros Hnd Hn; cbn [app].
  - constructor; [intros [] | constructor].
  - inversion Hnd as [|? ? Hx Hl]; subst. constructor.
    + intros Hin. apply in_app_or in Hin. destruct Hin as [Hin | [<- | []]]; [exact (Hx Hin)|].
      apply Hn. left. reflexivity.
    + apply IH; [exact Hl|]. intros Hin. apply Hn. right. exact Hin.
Qed.

Section NoDup.
Variable Ld : Loaded.
Variable cfg : string.
Variable F : fs.
Variable qs0 : list sid.
(* two hits of searches of the list with the same result string come from the same path *)
Hypothesis Hdist : forall q1 q2 p1 p2 x1 x2, In q1 qs0 -> In q2 qs0 ->
  hit_path Ld cfg F q1 p1 x1 -> hit_path Ld cfg F q2 p2 x2 -> s_string x1 = s_string x2 -> p1 = p2.

(* the recorded paths are distinct, and the results are, in order, the strings of the Sids they resolve to *)
Definition res_of (p s : string) : Prop :=
  exists q x, In q qs0 /\ hit_path Ld cfg F q p x /\ s = s_string x.

Definition nd_inv (fp res : list string) : Prop := NoDup fp /\ Forall2 res_of fp res.

Lemma nd_inner q po : In q qs0 -> sid_path Ld q cfg = Ok po ->
  forall found fp res fp' res',
  (forall p, In p found -> In p (dkeys F) /\ comps_match (split_c "/" (pattern_of po)) (split_c "/" p) = true) ->
  nd_inv fp res -> fold_left (pstep Ld cfg q) found (Ok (fp, res)) = Ok (fp', res') -> nd_inv fp' res'.
Proof.
  intros Hq Hpo. induction found as [|p found IH]; intros fp res fp' res' Hsub Hinv H.
  - cbn [fold_left] in H. inversion H; subst. exact Hinv.
  - cbn [fold_left] in H. rewrite pstep_ok in H.
    assert (Hsub' : forall p0, In p0 found ->
              In p0 (dkeys F) /\ comps_match (split_c "/" (pattern_of po)) (split_c "/" p0) = true)
      by (intros p0 Hp0; apply Hsub; right; exact Hp0).
    destruct (in_list p fp) eqn:Ein; [exact (IH _ _ _ _ Hsub' Hinv H)|].
    destruct (sid_factory Ld (FromPath p cfg)) as [x|ex] eqn:Ex; cbn [bind] in H.
    2:{ rewrite pstep_raise in H. discriminate. }
    destruct (FindersProofs.accepts q x) eqn:Ea; [|exact (IH _ _ _ _ Hsub' Hinv H)].
    apply (IH _ _ _ _ Hsub') in H; [exact H|]. destruct Hinv as (Hnd & Hall).
    apply in_list_false in Ein. split; [apply NoDup_snoc; assumption|].
    apply Forall2_snoc; [exact Hall|]. exists q, x. split; [exact Hq|]. split; [|reflexivity].
    destruct (Hsub p (or_introl eq_refl)) as (Hk & Hm). exists po. auto.
Qed.

Lemma nd_outer : forall qs sd fp res sd' fp' res', incl qs qs0 -> nd_inv fp res ->
  fold_left (ostep Ld cfg F) qs (Ok (sd, fp, res)) = Ok (sd', fp', res') -> nd_inv fp' res'.
Proof.
  induction qs as [|q qs IH]; intros sd fp res sd' fp' res' Hincl Hinv H.
  - cbn [fold_left] in H. inversion H; subst. exact Hinv.
  - cbn [fold_left] in H.
    destruct (ostep Ld cfg F (Ok (sd, fp, res)) q) as [[[sd1 fp1] res1]|ex] eqn:E1.
    2:{ rewrite ostep_raise in H. discriminate. }
    apply (IH _ _ _ _ _ _) in H; [exact H | intros q' Hq'; apply Hincl; right; exact Hq' |]. clear H IH.
    unfold ostep in E1. cbn [bind] in E1.
    destruct (sid_path Ld q cfg) as [po|ex] eqn:Ep; cbn [bind] in E1; [|discriminate].
    destruct (existsb _ sd); [inversion E1; subst; exact Hinv|].
    fold (pattern_of po) in E1.
    destruct (fs_glob F (pattern_of po)) as [found|] eqn:Eg; [|discriminate].
    destruct (fold_left (pstep Ld cfg q) found (Ok (fp, res))) as [[a b]|ex] eqn:Ef; cbn [bind fst snd] in E1; [|discriminate].
    inversion E1; subst.
    apply (nd_inner q po (Hincl q (or_introl eq_refl)) Ep found fp res fp1 res1); [|exact Hinv | exact Ef].
    intros p Hp. apply (fs_glob_spec _ _ _ Eg) in Hp. exact Hp.
Qed.

Lemma nd_inv_NoDup : forall fp res, nd_inv fp res -> NoDup res.
Proof.
  intros fp res (Hnd & Hall). revert Hnd. induction Hall as [|p s fp res Hps Hall IH]; intros Hnd; [constructor|].
  inversion Hnd as [|? ? Hp Hnd']; subst. constructor; [|exact (IH Hnd')].
  intros Hs. destruct (Forall2_In_r _ _ _ _ Hall Hs) as (p' & Hp' & (q' & x' & Hq' & Hh' & Es')).
  destruct Hps as (q & x & Hq & Hh & Es). apply Hp.
  rewrite (Hdist q q' p p' x x' Hq Hq' Hh Hh'); [exact Hp' | congruence].
Qed.

Theorem paths_star_NoDup_hits l : paths_star Ld F cfg qs0 = Ok l -> NoDup l.
Proof.
  rewrite paths_star_unfold.
  destruct (fold_left (ostep Ld cfg F) qs0 (Ok ([], [], []))) as [[[sd fp] res]|e] eqn:E; cbn [bind]; [|discriminate].
  intros H. inversion H; subst l. apply (nd_inv_NoDup fp).
  apply (nd_outer qs0 [] [] [] sd fp res (incl_refl _)); [|exact E].
  split; constructor.
Qed.

End NoDup.

(** ** 1a. From "distinct paths of the tree give distinct Sids" (no data set needed) *)

Theorem paths_star_NoDup Ld cfg F : paths_distinct Ld cfg F ->
  forall qs l, paths_star Ld F cfg qs = Ok l -> NoDup l.
Proof.
  intros Hdist qs l. apply paths_star_NoDup_hits.
  intros q1 q2 p1 p2 x1 x2 _ _ (po1 & _ & Hk1 & _ & Hx1 & Ha1) (po2 & _ & Hk2 & _ & Hx2 & Ha2) Es.
  rewrite accepts_split in Ha1, Ha2.
  apply andb_true_iff in Ha1. destruct Ha1 as (Ha1 & _). apply andb_true_iff in Ha1. destruct Ha1 as (_ & Hb1).
  apply andb_true_iff in Ha2. destruct Ha2 as (Ha2 & _). apply andb_true_iff in Ha2. destruct Ha2 as (_ & Hb2).
  exact (Hdist p1 p2 x1 x2 Hk1 Hk2 Hx1 Hx2 Hb1 Hb2 Es).
Qed.

Lemma paths_distinctb_sound Ld cfg F : paths_distinctb Ld cfg F = true -> paths_distinct Ld cfg F.
Proof.
  unfold paths_distinctb, paths_distinct. rewrite forallb_forall. intros H p1 p2 x1 x2 H1 H2 Hx1 Hx2 Hb1 Hb2 Es.
  specialize (H p1 H1). rewrite forallb_forall in H. specialize (H p2 H2).
  rewrite Hx1, Hx2, Hb1, Hb2, Es, String.eqb_refl in H. cbn [andb negb] in H. rewrite orb_false_r in H.
  apply String.eqb_eq. exact H.
Qed.

(* normal paths: two paths that resolve to the same member of the data set are its path *)
Lemma fs_normal_distinct (c : Conf) Ld cfg E F : load c = Some Ld -> wf_loadedb Ld = true ->
  dataset_ok Ld cfg E F -> fs_normalb F = true -> paths_distinct Ld cfg F.
Proof.
  intros Hload Hwf HD Hn p1 p2 x1 x2 H1 H2 Hx1 Hx2 Hb1 Hb2 Es.
  unfold fs_normalb in Hn. rewrite forallb_forall in Hn.
  pose proof (Hn p1 H1) as N1. pose proof (Hn p2 H2) as N2. apply String.eqb_eq in N1, N2.
  pose proof (ds_only _ _ _ _ HD p1 x1 H1 Hx1 Hb1) as E1. pose proof (ds_only _ _ _ _ HD p2 x2 H2 Hx2 Hb2) as E2.
  pose proof (ds_nat _ _ _ _ HD x1 E1) as T1. pose proof (ds_nat _ _ _ _ HD x2 E2) as T2.
  unfold naturally_typed in T1, T2. rewrite Es, T2 in T1. inversion T1 as [[Ht Hf]].
  assert (Ex : x1 = x2) by (destruct x1, x2; cbn in *; subst; reflexivity). subst x2.
  cbn [sid_factory] in Hx1, Hx2.
  destruct (sempty p1); [inversion Hx1; subst x1; discriminate|].
  destruct (sempty p2); [inversion Hx2; subst x1; discriminate|].
  pose proof (path_owner c Ld p1 cfg x1 Hload Hwf Hx1 Hb1) as P1.
  pose proof (path_owner c Ld p2 cfg x1 Hload Hwf Hx2 Hb2) as P2.
  rewrite P1 in P2. inversion P2 as [P]. rewrite N1, N2 in P. exact P.
Qed.

(** ** 1b. Over a data set: a hit of a good search comes from the path of the member it resolves to *)

Lemma filter_length_le' {A} (f : A -> bool) : forall l, List.length (filter f l) <= List.length l.
Proof. induction l as [|x l IH]; [apply le_n|]. cbn [filter]. destruct (f x); cbn [List.length]; lia. Qed.

Lemma filter_length_all {A} (f : A -> bool) : forall l, List.length (filter f l) = List.length l -> filter f l = l.
Proof.
  induction l as [|x l IH]; intros H; [reflexivity|]. cbn [filter] in *. destruct (f x).
  - cbn [List.length] in H. f_equal. apply IH. lia.
  - pose proof (filter_length_le' f l). cbn [List.length] in H. lia.
Qed.

Lemma join_head_slash l rest : Forall part_ok l -> join "/" l <> String "/" rest.
Proof.
  intros H E. destruct l as [|x t]; [discriminate|]. inversion H as [|? ? (Hne & _ & Hm) _]; subst.
  destruct x as [|a x]; [congruence|].
  assert (Ea : a = "/"%char).
  { destruct t; [inversion E; reflexivity|]. rewrite join_cons2 in E. inversion E; reflexivity. }
  subst a. cbn [mem_c] in Hm. rewrite Ascii.eqb_refl in Hm. discriminate.
Qed.

Lemma splitroot_slash p rel : splitroot p = ("/", rel) -> p = String "/" rel.
Proof.
  intros H. destruct p as [|a p]; [discriminate|].
  destruct (Ascii.eqb_spec a "/") as [->|Ha]; [|rewrite (splitroot_0 a p Ha) in H; discriminate].
  destruct p as [|b p]; [inversion H; reflexivity|].
  destruct (Ascii.eqb_spec b "/") as [->|Hb].
  2:{ rewrite (splitroot_1 (String b p) Hb) in H. inversion H. reflexivity. }
  destruct p as [|d p]; [inversion H|].
  destruct (Ascii.eqb_spec d "/") as [->|Hd].
  - cbn in H. inversion H. reflexivity.
  - rewrite (splitroot_2 (String d p) Hd) in H. discriminate.
Qed.

(* a path with as many components as its normal form  /c1/.../ck  (every ci a proper component) is that
   normal form: pathlib only ever removes components *)
Lemma norm_same_length p rel0 : norm_path p = String "/" rel0 -> Forall part_ok (split_c "/" rel0) ->
  List.length (split_c "/" p) = S (List.length (split_c "/" rel0)) -> p = String "/" rel0.
Proof.
  intros Hn Hparts Hlen. unfold norm_path in Hn. destruct (path_parts p) as [root tail] eqn:Epp.
  destruct (path_parts_spec p root tail Epp) as (Hroot & Htail).
  unfold path_parts in Epp. destruct (sempty p) eqn:Ep; [inversion Epp; subst; discriminate|].
  destruct (splitroot p) as [root' rel] eqn:Es. inversion Epp; subst root'. clear Epp. fold keep_part in H1.
  unfold format_parts in Hn.
  destruct Hroot as [-> | [-> | ->]].
  - cbn [append] in Hn. destruct (sempty (join "/" tail)); [discriminate|].
    exfalso. exact (join_head_slash tail rel0 Htail Hn).
  - cbn [append sempty] in Hn. injection Hn as Hj.
    apply splitroot_slash in Es. subst p.
    assert (Hsp : split_c "/" (String "/" rel) = "" :: split_c "/" rel).
    { cbn [split_c]. rewrite Ascii.eqb_refl. reflexivity. }
    rewrite Hsp in Hlen. cbn [List.length] in Hlen.
    assert (Ht : tail = split_c "/" rel0).
    { destruct tail as [|x t] eqn:Et.
      - cbn [join] in Hj. subst rel0. cbn in Hparts. inversion Hparts as [|? ? (Hne & _) _]; congruence.
      - rewrite <- Hj. symmetry. change "/" with (str1 "/"). apply split_c_join; [discriminate|].
        eapply Forall_impl; [|exact Htail]. intros y (_ & _ & Hy). exact Hy. }
    rewrite <- Ht in Hlen. rewrite <- H1 in Hlen.
    assert (Hall : filter keep_part (split_c "/" rel) = split_c "/" rel) by (apply filter_length_all; lia).
    rewrite Hall in H1. f_equal. transitivity (join "/" tail); [|exact Hj].
    rewrite <- H1. symmetry. exact (join_split_c "/" rel).
  - cbn [append sempty] in Hn. injection Hn as Hj. exfalso.
    rewrite <- Hj in Hparts. cbn [split_c] in Hparts. rewrite Ascii.eqb_refl in Hparts.
    inversion Hparts as [|? ? (Hne & _) _]. congruence.
Qed.

Lemma comps_match_length : forall ps ns, comps_match ps ns = true -> List.length ps = List.length ns.
Proof.
  induction ps as [|p ps IH]; intros [|n ns] H; cbn [comps_match] in H; try discriminate; [reflexivity|].
  apply andb_true_iff in H. destruct H as (_ & H). cbn [List.length]. f_equal. exact (IH ns H).
Qed.

(* the formatted path of an absolute template:  /c1/.../ck  with proper components, k fixed by the template *)
Lemma cword_shape d es : comps_ok es = true -> Forall (elem_val_wk d) es ->
  exists rel, cword d es = String "/" rel /\ Forall part_ok (split_c "/" rel) /\
              S (List.length (split_c "/" rel)) = List.length (split_at is_sl es).
Proof.
  unfold comps_ok. intros Hc Hv.
  destruct es as [|e1 es1]; [discriminate|]. cbn [split_at] in Hc |- *.
  destruct (is_sl e1) eqn:E1.
  2:{ destruct (split_at is_sl es1) as [|h r]; discriminate. }
  destruct (split_at is_sl es1) as [|c0 cs] eqn:Es; [discriminate|].
  inversion Hv as [|? ? Hv1 Hv2]; subst.
  exists (cword d es1). split.
  { unfold cword. cbn [map sconcat]. rewrite (is_sl_word d e1 E1). reflexivity. }
  rewrite (split_words_wk d es1 Hv2), Es. split; [|rewrite map_length; reflexivity].
  rewrite forallb_forall in Hc. apply Forall_forall. intros x Hx. apply in_map_iff in Hx.
  destruct Hx as (c1 & <- & Hc1). apply comp_part_ok_wk; [exact (Hc c1 Hc1)|].
  intros y Hy. rewrite <- Es in Hc1. destruct (split_at_In is_sl es1 c1 y Hc1 Hy) as (G1 & G2).
  split; [|exact G1]. rewrite Forall_forall in Hv2. exact (Hv2 y G2).
Qed.

Section Own.
Variables (c : Conf) (Ld : Loaded).
Hypothesis Hload : load c = Some Ld.
Hypothesis Hwf : wf_loadedb Ld = true.
Hypothesis Hpu : paths_unambiguousb Ld = true.
Variable cfg : string.
Variable E : list sid.
Variable F : fs.
Hypothesis HD : dataset_ok Ld cfg E F.

(* the pattern and the path have the components of the path template of the type; the path resolved to x, so
   its normal form is the path of x (C06 [path_owner]), which has the same number of components *)
Lemma hit_path_own q p x : typed_search Ld q -> search_okb Ld cfg q = true -> hit_path Ld cfg F q p x ->
  In x E /\ sid_path Ld x cfg = Ok (Some p).
Proof.
  intros Htq Hok (po & Hsp & Hk & Hm & Hx & Ha).
  rewrite accepts_split in Ha. apply andb_true_iff in Ha. destruct Ha as (Ha & _).
  apply andb_true_iff in Ha. destruct Ha as (Hty & Hb). apply String.eqb_eq in Hty.
  pose proof (ds_only _ _ _ _ HD p x Hk Hx Hb) as HxE. split; [exact HxE|].
  pose proof (ds_nat _ _ _ _ HD x HxE) as Hnat. pose proof (ds_vals _ _ _ _ HD x HxE) as Hvals.
  pose proof (nat_typed_search c Ld Hload Hwf x Hnat) as Hte.
  cbn [sid_factory] in Hx. destruct (sempty p) eqn:Ep; [inversion Hx; subst x; discriminate|].
  pose proof (path_owner c Ld p cfg x Hload Hwf Hx Hb) as Hown.
  unfold search_okb in Hok. apply andb_true_iff in Hok. destruct Hok as (Hok & _).
  apply andb_true_iff in Hok. destruct Hok as (Hok & Hpat). apply andb_true_iff in Hok. destruct Hok as (Hvq & _).
  apply path_values_okb_sound in Hvq. unfold has_patternb in Hpat. rewrite Hsp in Hpat.
  destruct po as [pat|]; [|discriminate]. cbn [pattern_of] in Hm.
  destruct (search_read c Ld Hload Hwf Hpu x cfg _ Hte Hvals Hown) as (pc & tp & es & Hpc & Hlp & Hfind & He & _ & Ep0 & Hv).
  destruct (search_read c Ld Hload Hwf Hpu q cfg pat Htq Hvq Hsp) as (pc' & tp' & es' & Hpc' & _ & Hfind' & He' & _ & Epat & Hv').
  rewrite Hpc in Hpc'. inversion Hpc'; subst pc'. rewrite <- Hty, Hfind in Hfind'. inversion Hfind'; subst tp'.
  rewrite He in He'. inversion He'; subst es'.
  assert (Hin : In tp (r_tpls (lp_resolver pc))) by (unfold find_tpl in Hfind; exact (proj1 (find_some _ _ Hfind))).
  destruct (path_conf_parts Ld Hpu pc Hlp) as (Htok & _). rewrite forallb_forall in Htok.
  destruct (tpl_ok_inv tp (Htok tp Hin)) as (es2 & _ & _ & He2 & _ & _ & _ & _ & Hcomps).
  rewrite He in He2. inversion He2; subst es2.
  destruct (cword_shape (path_data pc x) es Hcomps Hv) as (rel0 & E0 & Hparts & Hlen0).
  destruct (cword_shape (path_data pc q) es Hcomps Hv') as (relq & Eq & _ & Hlenq).
  rewrite E0 in Ep0. rewrite Eq in Epat.
  apply comps_match_length in Hm. rewrite Epat in Hm. cbn [split_c] in Hm. rewrite Ascii.eqb_refl in Hm.
  cbn [List.length] in Hm.
  assert (Hp : p = String "/" rel0) by (apply norm_same_length; [exact Ep0 | exact Hparts | lia]).
  rewrite Hown, Ep0, Hp. reflexivity.
Qed.

(* FindInPaths.star_search over a data set returns no duplicates *)
Theorem paths_star_NoDup_dataset qs l : searches_ok Ld cfg qs -> paths_star Ld F cfg qs = Ok l -> NoDup l.
Proof.
  intros Hqs. apply paths_star_NoDup_hits. intros q1 q2 p1 p2 x1 x2 Hq1 Hq2 Hh1 Hh2 Es.
  destruct (Hqs q1 Hq1) as (Ht1 & Hok1). destruct (Hqs q2 Hq2) as (Ht2 & Hok2).
  destruct (hit_path_own q1 p1 x1 Ht1 Hok1 Hh1) as (E1 & P1).
  destruct (hit_path_own q2 p2 x2 Ht2 Hok2 Hh2) as (E2 & P2).
  pose proof (ds_nat _ _ _ _ HD x1 E1) as T1. pose proof (ds_nat _ _ _ _ HD x2 E2) as T2.
  unfold naturally_typed in T1, T2. rewrite Es, T2 in T1. inversion T1 as [[Ht Hf]].
  assert (Ex : x1 = x2) by (destruct x1, x2; cbn in *; subst; reflexivity). subst x2.
  rewrite P1 in P2. inversion P2. reflexivity.
Qed.

End Own.

(** * 2. The characterisation of the tree finder on a data set *)

Section TreeAlgebra.
Variables (c : Conf) (Ld : Loaded).
Hypothesis Hload : load c = Some Ld.
Hypothesis Hwf : wf_loadedb Ld = true.
Hypothesis Hconf : unfold_conf_okb Ld = true.
Hypothesis Hpu : paths_unambiguousb Ld = true.
Variable cfg : string.
Variable E : list sid.
Variable F : fs.
Hypothesis HD : dataset_ok Ld cfg E F.

Local Notation tpls := (r_tpls (l_sid Ld)).
Local Notation items := (map s_string E).

(* good searches have no ">" : [do_find] runs the star search *)
Lemma searches_ok_no_gt qs q : searches_ok Ld cfg qs -> In q qs -> mem_c ">" (s_string q) = false.
Proof.
  intros Hqs Hq. destruct (Hqs q Hq) as (Ht & Hok).
  destruct (typed_parts c Ld Hload Hwf q Ht) as (_ & _ & _ & _ & _ & _ & Hj & _).
  unfold search_okb in Hok. apply andb_true_iff in Hok. destruct Hok as (Hok & _).
  apply andb_true_iff in Hok. destruct Hok as (Hok & _). apply andb_true_iff in Hok. destruct Hok as (_ & Hgt).
  rewrite Hj. apply mem_c_join; [reflexivity|]. unfold no_gtb in Hgt. rewrite forallb_forall in Hgt.
  apply Forall_forall. intros v Hv. apply in_map_iff in Hv. destruct Hv as (kv & <- & Hkv).
  specialize (Hgt kv Hkv). apply negb_true_iff in Hgt. exact Hgt.
Qed.

Lemma searches_ok_star qs : searches_ok Ld cfg qs ->
  do_find_g Ld (paths_star Ld F cfg) qs = paths_star Ld F cfg qs.
Proof.
  intros Hqs. apply do_find_star_g; [|reflexivity].
  destruct (existsb _ qs) eqn:Ex; [|reflexivity]. exfalso.
  apply existsb_exists in Ex. destruct Ex as (q & Hq & Hc).
  rewrite mem_gt_count, (searches_ok_no_gt qs q Hqs Hq) in Hc. discriminate.
Qed.

(* [do_find] of the tree finder on good searches: the members of E of a searched type globbed by it *)
Lemma tree_do_find_typed qs l : searches_ok Ld cfg qs -> pat_inj Ld cfg qs ->
  do_find_g Ld (paths_star Ld F cfg) qs = Ok l ->
  forall e, In e l <-> exists x q, In x E /\ In q qs /\ e = s_string x /\ s_type x = s_type q /\
                                   glob_rel (s_string q) (s_string x).
Proof.
  intros Hqs Hinj H. rewrite (searches_ok_star qs Hqs) in H.
  exact (tree_search_glob c Ld Hload Hwf Hpu cfg E F HD qs Hqs Hinj l H).
Qed.

(* ... and, when the searched types cover the matches, what the list finder finds in the strings of E *)
Lemma tree_do_find qs l : searches_ok Ld cfg qs -> pat_inj Ld cfg qs -> types_covered E qs ->
  do_find_g Ld (paths_star Ld F cfg) qs = Ok l ->
  forall e, In e l <-> In e items /\ exists q, In q qs /\ glob_rel (s_string q) e.
Proof.
  intros Hqs Hinj Hcov H e. rewrite (tree_do_find_typed qs l Hqs Hinj H e). split.
  - intros (x & q & Hx & Hq & -> & _ & Hg). split; [apply in_map; exact Hx|]. exists q. auto.
  - intros (Hin & q & Hq & Hg). apply in_map_iff in Hin. destruct Hin as (x & <- & Hx).
    destruct (Hcov x q Hx Hq Hg) as (q' & Hq' & Hty & Hg'). exists x, q'. auto.
Qed.

Lemma tree_do_find_NoDup qs l : searches_ok Ld cfg qs ->
  do_find_g Ld (paths_star Ld F cfg) qs = Ok l -> NoDup l.
Proof.
  intros Hqs H. rewrite (searches_ok_star qs Hqs) in H.
  exact (paths_star_NoDup_dataset c Ld Hload Hwf Hpu cfg E F HD qs l Hqs H).
Qed.

(** ** 2a. Rule 0 for the tree finder *)

(* query-free search: the result set is  { e in strings(E) | matched Ld s e }, as for the list finder
   ([find_list_denotes]).  [nosort] is not asked: it follows from the guard ([searches_ok] has no ">") *)
Theorem find_paths_result id s l :
  search_ok s = true -> shortcut_okb Ld s = true -> tree_guard Ld cfg E s ->
  ffind Ld F (FPaths id cfg) s = Ok l ->
  forall e, In e l <-> In e items /\ matched Ld s e.
Proof.
  intros Hs Hok Hg H. destruct (ffind_paths Ld F id cfg s l H) as (qs & Hfs & Hf).
  destruct (Hg qs Hfs) as (Hqs & Hinj & Hcov).
  pose proof (tree_do_find qs l Hqs Hinj Hcov Hf) as Hin.
  destruct (find_searches_cases Ld s qs Hfs) as [(Hsc & x & Hx & ->) | (Hsc & Hu)].
  - destruct (shortcut_inv c Ld Hload Hwf s Hs Hsc) as (t & d & _ & E1). rewrite E1 in Hx. inversion Hx; subst x.
    intros e. rewrite Hin. destruct (shortcut_matched c Ld Hload Hwf s e Hs Hsc Hok) as (_ & Hm). rewrite Hm.
    cbn [s_string]. split.
    + intros (Hi & q & [<-|[]] & Hgl). auto.
    + intros (Hi & Hgl). split; [exact Hi|]. exists (mkSid s t d). split; [left; reflexivity | exact Hgl].
  - pose proof (unfold_noquery_spec c Ld Hload Hwf Hconf s qs Hs Hu) as Hspec.
    intros e. rewrite Hin. split; intros (Hi & q & Hq & Hgl); (split; [exact Hi|]); exists q;
      (split; [apply Hspec; exact Hq | exact Hgl]).
Qed.

(* no duplicates: needs only the part of the guard that does not mention the data set *)
Theorem find_paths_NoDup id s l :
  tree_guard0 Ld cfg s -> ffind Ld F (FPaths id cfg) s = Ok l -> NoDup l.
Proof.
  intros Hg H. destruct (ffind_paths Ld F id cfg s l H) as (qs & Hfs & Hf).
  destruct (Hg qs Hfs) as (Hqs & _). exact (tree_do_find_NoDup qs l Hqs Hf).
Qed.

(* Rule 0 for the tree finder, in the shape of [find_list_denotes] *)
Theorem find_paths_denotes id s l :
  search_ok s = true -> shortcut_okb Ld s = true -> tree_guard Ld cfg E s ->
  ffind Ld F (FPaths id cfg) s = Ok l ->
  NoDup l /\ forall e, In e l <-> In e items /\ matched Ld s e.
Proof.
  intros Hs Hok Hg H. split.
  - exact (find_paths_NoDup id s l (tree_guard_guard0 Ld cfg E s Hg) H).
  - exact (find_paths_result id s l Hs Hok Hg H).
Qed.

(* ... with the guard [guarded] of the list finder (its [nosort] clause is not used) *)
Corollary find_paths_denotes_guarded id s l :
  guarded Ld s -> tree_guard Ld cfg E s ->
  ffind Ld F (FPaths id cfg) s = Ok l ->
  NoDup l /\ forall e, In e l <-> In e items /\ matched Ld s e.
Proof. intros (Hs & Hok & _) Hg H. exact (find_paths_denotes id s l Hs Hok Hg H). Qed.

(* the guard implies [nosort] whenever the finder is given its searches *)
Lemma tree_guard_nosort s qs : search_ok s = true -> shortcut_okb Ld s = true -> tree_guard0 Ld cfg s ->
  find_searches Ld s = Ok qs -> nosort Ld s.
Proof.
  intros Hs Hok Hg Hfs. destruct (Hg qs Hfs) as (Hqs & _).
  destruct (find_searches_cases Ld s qs Hfs) as [(Hsc & x & Hx & ->) | (Hsc & Hu)].
  - intros y (b & y0 & Hb & Hy & Hn).
    destruct (shortcut_matched c Ld Hload Hwf s "" Hs Hsc Hok) as (Hgt & _).
    unfold shortcut_okb in Hok. rewrite Hsc in Hok. cbn [negb orb] in Hok.
    apply andb_true_iff in Hok. destruct Hok as (Hok & Hst).
    apply andb_true_iff in Hok. destruct Hok as (Hok & _).
    apply andb_true_iff in Hok. destruct Hok as (Hb1 & Hd). apply Nat.eqb_eq in Hd.
    assert (Hbs : bodies Ld s = [s]).
    { destruct (bodies Ld s) as [|b1 [|b2 t]]; try discriminate. apply String.eqb_eq in Hb1. subst b1. reflexivity. }
    rewrite Hbs in Hb. destruct Hb as [<-|[]].
    unfold typed_of in Hy. rewrite Hd in Hy. cbn [Nat.eqb] in Hy. destruct Hy as (tp & d & Htp & Ha & ->).
    destruct (search_ok_parts s Hs) as (Hq & _).
    assert (Hin : In s (bodies Ld s)) by (rewrite Hbs; left; reflexivity).
    destruct (stable_at_spec Ld s tp d (narrow_stable_at Ld s s tp Hst Hin Htp) Ha Hq) as (_ & Hu).
    rewrite (Hu y Hn). exact Hgt.
  - intros y Hy. apply (unfold_noquery_spec c Ld Hload Hwf Hconf s qs Hs Hu) in Hy.
    exact (searches_ok_no_gt qs y Hqs Hy).
Qed.

(** ** 2b. Without [types_covered]: the typed characterisation (unfolded branch) *)

Theorem find_paths_denotes_typed id s l :
  search_ok s = true -> shortcut Ld s = false -> tree_guard0 Ld cfg s ->
  ffind Ld F (FPaths id cfg) s = Ok l ->
  forall e, In e l <-> exists x, In x E /\ e = s_string x /\ matched_typed Ld s x.
Proof.
  intros Hs Hsc Hg H. destruct (ffind_paths Ld F id cfg s l H) as (qs & Hfs & Hf).
  destruct (Hg qs Hfs) as (Hqs & Hinj).
  pose proof (tree_do_find_typed qs l Hqs Hinj Hf) as Hin.
  destruct (find_searches_cases Ld s qs Hfs) as [(Hsc' & _) | (_ & Hu)]; [congruence|].
  pose proof (unfold_noquery_spec c Ld Hload Hwf Hconf s qs Hs Hu) as Hspec.
  intros e. rewrite Hin. split.
  - intros (x & q & Hx & Hq & -> & Hty & Hgl). exists x. split; [exact Hx|]. split; [reflexivity|].
    exists q. split; [apply Hspec; exact Hq | auto].
  - intros (x & Hx & -> & q & Hq & Hty & Hgl). exists x, q. split; [exact Hx|]. split; [apply Hspec; exact Hq | auto].
Qed.

(* the tree finder finds a subset of what the list characterisation gives (no [types_covered] needed) *)
Corollary find_paths_sound id s l :
  search_ok s = true -> shortcut Ld s = false -> tree_guard0 Ld cfg s ->
  ffind Ld F (FPaths id cfg) s = Ok l ->
  forall e, In e l -> In e items /\ matched Ld s e.
Proof.
  intros Hs Hsc Hg H e He. apply (find_paths_denotes_typed id s l Hs Hsc Hg H) in He.
  destruct He as (x & Hx & -> & q & Hq & _ & Hgl). split; [apply in_map; exact Hx|]. exists q. auto.
Qed.

(** ** 2c. With a trailing url-safe query (unfolded branch) *)

Theorem find_paths_query_denotes id body qd l :
  search_ok body = true -> query_okb qd = true -> ~ In "" (bodies Ld body) ->
  shortcut Ld (body ++ "?" ++ query_str qd) = false ->
  tree_guard Ld cfg E (body ++ "?" ++ query_str qd) ->
  ffind Ld F (FPaths id cfg) (body ++ "?" ++ query_str qd) = Ok l ->
  NoDup l /\ forall e, In e l <-> In e items /\ matched_by (denotes_q Ld body qd) e.
Proof.
  intros Hs Hq Hne Hsc Hg H. destruct (ffind_paths Ld F id cfg _ l H) as (qs & Hfs & Hf).
  destruct (Hg qs Hfs) as (Hqs & Hinj & Hcov). split; [exact (tree_do_find_NoDup qs l Hqs Hf)|].
  pose proof (tree_do_find qs l Hqs Hinj Hcov Hf) as Hin.
  destruct (find_searches_cases Ld _ qs Hfs) as [(Hsc' & _) | (_ & Hu)]; [congruence|].
  pose proof (unfold_query_spec c Ld Hload Hwf Hconf body qd qs Hs Hq Hne Hu) as Hspec.
  intros e. rewrite Hin. split; intros (Hi & q & Hq' & Hgl); (split; [exact Hi|]); exists q;
    (split; [apply Hspec; exact Hq' | exact Hgl]).
Qed.

End TreeAlgebra.

(** * 3. The rules at the level of [matched] (what the proofs of Search/AlgebraProofs.v establish
      after rewriting both sides with [find_list_denotes]; independent of the finder) *)

Section MatchedRules.
Variables (c : Conf) (Ld : Loaded).
Hypothesis Hload : load c = Some Ld.
Hypothesis Hwf : wf_loadedb Ld = true.
Hypothesis Hconf : unfold_conf_okb Ld = true.

Local Notation tpls := (r_tpls (l_sid Ld)).

(* rule 3: what  pre/**/post  denotes, when its unfolding succeeds *)
Lemma dstar_denotes pre post :
  pre <> [] -> Forall noslash pre -> Forall noslash post ->
  (post = [] -> dmem (c_extension_alias (l_conf Ld)) "**" = false) ->
  (post = [] -> dmem (c_extension_alias (l_conf Ld)) "*" = false) ->
  (post = [] -> lastpre_ok Ld pre) ->
  search_ok (mk pre "**" post) = true ->
  (exists qs, unfold_search Ld (mk pre "**" post) false false = Ok qs) ->
  forall x, denotes Ld (mk pre "**" post) x <-> exists n, levels_on Ld pre n post x.
Proof.
  intros Hne Hpre Hpost Hdd Hstar Hlp Hs (qs & Hu).
  assert (Herr : forall b, In b (bodies Ld (mk pre "**" post)) -> ~ body_error Ld b).
  { intros b Hb Hbe. destruct (unfold_noquery_errors c Ld Hload Hwf Hconf _ Hs) as (Hr & _).
    rewrite Hr in Hu by (exists b; auto). discriminate. }
  assert (Hdstar : forall x, In x (seg_alts Ld post "**") <-> x = "**").
  { apply seg_alts_self; [reflexivity|]. intros E. split; [discriminate | apply (Hdd E)]. }
  assert (Hbod : forall b, In b (bodies Ld (mk pre "**" post)) <->
            exists c1 c2, b = join "/" (c1 ++ "**" :: c2) /\ choice_pre pre c1 /\ choice_post Ld post c2).
  { intros b. rewrite (bodies_mk Ld pre "**" post Hpre eq_refl Hpost). split.
    - intros (c1 & x & c2 & -> & H1 & Hx & H2). apply Hdstar in Hx. subst x. exists c1, c2. auto.
    - intros (c1 & c2 & -> & H1 & H2). exists c1, "**", c2. split; [reflexivity|]. split; [exact H1|].
      split; [apply Hdstar; reflexivity | exact H2]. }
  assert (Hroot : forall c1 c2 n, choice_pre pre c1 -> choice_post Ld post c2 ->
            firstn (List.length pre) (split_c "/" (join "/" (c1 ++ repeat "*" n ++ c2))) = c1).
  { intros c1 c2 n H1 H2. rewrite (split_c_join "/").
    - rewrite (Forall2_length_s _ _ _ H1). apply firstn_app_exact.
    - pose proof (choice_pre_ne pre c1 Hne H1). destruct c1; [congruence | discriminate].
    - apply Forall_app. split; [apply (choice_pre_noslash pre c1 Hpre H1)|]. apply Forall_app.
      split; [apply noslash_stars | apply (choice_post_noslash Ld Hconf post c2 Hpost H2)]. }
  intros x. split.
  - intros (b & y & Hb & Hy & Hn). pose proof (Herr b Hb) as Hbe. apply Hbod in Hb.
    destruct Hb as (c1 & c2 & -> & H1 & H2). pose proof (choice_pre_ne pre c1 Hne H1) as Hc1.
    pose proof (dstar_body_count Ld c1 c2 Hc1 Hbe) as Hcnt.
    unfold typed_of, dstar in Hy. rewrite Hcnt in Hy. cbn [Nat.eqb] in Hy.
    destruct Hy as (lk & n & tp & d & Hleaf & Htp & Ha & Hlast & ->).
    destruct (dstar_body c1 c2 n Hc1 Hcnt) as (Er & Eroot). rewrite Er in Ha, Hn. rewrite Eroot in Hleaf.
    exists n, (join "/" (c1 ++ repeat "*" n ++ c2)), tp, d, lk.
    split; [apply (bodies_mkn Ld pre n post Hne Hpre Hpost Hstar Hlp); exists c1, c2; auto|].
    rewrite (Hroot c1 c2 n H1 H2). auto.
  - intros (n & bn & tp & d & lk & Hb & Htp & Ha & Hleaf & Hlast & Hn).
    apply (bodies_mkn Ld pre n post Hne Hpre Hpost Hstar Hlp) in Hb. destruct Hb as (c1 & c2 & -> & H1 & H2).
    rewrite (Hroot c1 c2 n H1 H2) in Hleaf. pose proof (choice_pre_ne pre c1 Hne H1) as Hc1.
    assert (Hb : In (join "/" (c1 ++ "**" :: c2)) (bodies Ld (mk pre "**" post))) by (apply Hbod; exists c1, c2; auto).
    pose proof (dstar_body_count Ld c1 c2 Hc1 (Herr _ Hb)) as Hcnt.
    destruct (dstar_body c1 c2 n Hc1 Hcnt) as (Er & Eroot).
    exists (join "/" (c1 ++ "**" :: c2)), (mkSid (join "/" (c1 ++ repeat "*" n ++ c2)) (tp_name tp) d).
    split; [exact Hb|]. split; [|exact Hn]. unfold typed_of, dstar. rewrite Hcnt. cbn [Nat.eqb].
    exists lk, n, tp, d. rewrite Er, Eroot. auto 6.
Qed.

Lemma dstar_matched pre post :
  pre <> [] -> Forall noslash pre -> Forall noslash post ->
  (post = [] -> dmem (c_extension_alias (l_conf Ld)) "**" = false) ->
  (post = [] -> dmem (c_extension_alias (l_conf Ld)) "*" = false) ->
  (post = [] -> lastpre_ok Ld pre) ->
  search_ok (mk pre "**" post) = true ->
  (exists qs, unfold_search Ld (mk pre "**" post) false false = Ok qs) ->
  forall e, matched Ld (mk pre "**" post) e <-> exists n, matched_by (levels_on Ld pre n post) e.
Proof.
  intros Hne Hpre Hpost Hdd Hstar Hlp Hs Hu e.
  pose proof (dstar_denotes pre post Hne Hpre Hpost Hdd Hstar Hlp Hs Hu) as Hden. split.
  - intros (x & Hx & Hg). apply Hden in Hx. destruct Hx as (n & Hx). exists n, x. auto.
  - intros (n & x & Hx & Hg). exists x. split; [apply Hden; exists n; exact Hx | exact Hg].
Qed.

(* rule 5 *)
Lemma literal_matched pre v post e :
  Forall noslash pre -> Forall noslash post -> noslash v -> literalb v = true -> mem_c "," v = false ->
  (post = [] -> v <> "" /\ dmem (c_extension_alias (l_conf Ld)) v = false) ->
  (post = [] -> dmem (c_extension_alias (l_conf Ld)) "*" = false) ->
  lit_ok Ld pre post v ->
  search_ok (mk pre "*" post) = true -> contains "**" (mk pre "*" post) = false ->
  narrow_stableb Ld (mk pre "*" post) = true ->
  search_ok (mk pre v post) = true -> contains "**" (mk pre v post) = false ->
  narrow_stableb Ld (mk pre v post) = true ->
  (matched Ld (mk pre v post) e <->
   matched Ld (mk pre "*" post) e /\ nth_error (split_c "/" e) (List.length pre) = Some v).
Proof.
  intros Hpre Hpost Hv Hl Hc Hlastv Hlasts Hlit Hs Hd Hst Hsv Hdv Hstv.
  rewrite (matched_plain Ld Hconf _ e Hs Hd Hst), (matched_plain Ld Hconf _ e Hsv Hdv Hstv).
  assert (Hstar : forall x, In x (seg_alts Ld post "*") <-> x = "*").
  { apply seg_alts_self; [reflexivity|]. intros E. split; [discriminate | apply (Hlasts E)]. }
  pose proof (seg_alts_self Ld post v Hc Hlastv) as Hval.
  split.
  - intros (b & Hb & Ht & Hg). apply (bodies_mk Ld pre v post Hpre Hv Hpost) in Hb.
    destruct Hb as (c1 & x & c2 & -> & H1 & Hx & H2). apply Hval in Hx. subst x.
    apply (glob_literal_seg c1 c2 v e (choice_pre_noslash pre c1 Hpre H1) (choice_post_noslash Ld Hconf post c2 Hpost H2) Hv Hl) in Hg.
    destruct Hg as (Hg & Hn). rewrite <- (Forall2_length_s _ _ _ H1) in Hn. split; [|exact Hn].
    exists (join "/" (c1 ++ "*" :: c2)). split; [|split; [apply (Hlit c1 c2 H1 H2); exact Ht | exact Hg]].
    apply (bodies_mk Ld pre "*" post Hpre eq_refl Hpost). exists c1, "*", c2. split; [reflexivity|]. split; [exact H1|].
    split; [apply Hstar; reflexivity | exact H2].
  - intros ((b & Hb & Ht & Hg) & Hn). apply (bodies_mk Ld pre "*" post Hpre eq_refl Hpost) in Hb.
    destruct Hb as (c1 & x & c2 & -> & H1 & Hx & H2). apply Hstar in Hx. subst x.
    exists (join "/" (c1 ++ v :: c2)). split; [|split; [apply (Hlit c1 c2 H1 H2); exact Ht|]].
    + apply (bodies_mk Ld pre v post Hpre Hv Hpost). exists c1, v, c2. split; [reflexivity|]. split; [exact H1|].
      split; [apply Hval; reflexivity | exact H2].
    + apply (glob_literal_seg c1 c2 v e (choice_pre_noslash pre c1 Hpre H1) (choice_post_noslash Ld Hconf post c2 Hpost H2) Hv Hl).
      split; [exact Hg|]. rewrite <- (Forall2_length_s _ _ _ H1). exact Hn.
Qed.

(* rule 4 *)
Lemma filter_matched_field body k v e :
  search_ok body = true -> contains "**" body = false -> narrow_stableb Ld body = true ->
  atomb k = true -> atomb v = true -> literalb v = true -> startswith "~" v = false ->
  value_alts Ld k v = [v] -> filt_okb Ld body k v = true ->
  (matched_by (denotes_q Ld body [(k, v)]) e <-> matched Ld body e /\ field_in Ld body k e v).
Proof.
  intros Hs Hd Hst Hk Hv Hl Ht Hva Hf.
  rewrite (filter_matched c Ld Hload Hwf Hconf body k v e Hs Hd Hk Hv Ht Hva Hf).
  rewrite (matched_plain Ld Hconf body e Hs Hd Hst). split.
  - intros (b & tp & d & Hb & Htp & Ha & Hg).
    destruct (filt_at_spec Ld body k v b tp d Hf Hb Htp Ha) as (Hget & _).
    apply (filter_glob Ld Hwf k v b tp d e Htp Ha Hget Hv Hl) in Hg. destruct Hg as (Hg & Hfield).
    split; [exists b; split; [exact Hb|]; split; [exists tp, d; auto | exact Hg]|].
    exists b, tp, d. auto 6.
  - intros (_ & b & tp & d & Hb & Htp & Ha & Hg & Hfield).
    exists b, tp, d. repeat (split; [assumption|]).
    destruct (filt_at_spec Ld body k v b tp d Hf Hb Htp Ha) as (Hget & _).
    apply (filter_glob Ld Hwf k v b tp d e Htp Ha Hget Hv Hl). auto.
Qed.

Lemma filter_query_okb k v : atomb k = true -> atomb v = true -> query_okb [(k, v)] = true.
Proof.
  intros Hk Hv. unfold query_okb. cbn [map fst snd nodupb forallb negb andb]. rewrite Hk. cbn [andb].
  unfold value_okb. rewrite (split_c_nomem "," v); [cbn [forallb]; rewrite Hv; reflexivity|].
  apply (atom_nomem v "," Hv). reflexivity.
Qed.

End MatchedRules.

(** * 4. The rules for any finder whose result set is  { e in items | matched Ld s e }  under a guard G *)

Section DenotingFinder.
Variables (c : Conf) (Ld : Loaded).
Hypothesis Hload : load c = Some Ld.
Hypothesis Hwf : wf_loadedb Ld = true.
Hypothesis Hconf : unfold_conf_okb Ld = true.
Variable fnd : string -> outcome (list string).
Variable items : list string.
Variable G : string -> Prop.
Hypothesis fnd_den : forall s l, search_ok s = true -> shortcut_okb Ld s = true -> G s -> fnd s = Ok l ->
  forall e, In e l <-> In e items /\ matched Ld s e.
Hypothesis fnd_unf : forall s l, shortcut Ld s = false -> fnd s = Ok l ->
  exists qs, unfold_search Ld s false false = Ok qs.
Hypothesis fnd_qden : forall body qd l, search_ok body = true -> query_okb qd = true -> ~ In "" (bodies Ld body) ->
  shortcut Ld (body ++ "?" ++ query_str qd) = false -> G (body ++ "?" ++ query_str qd) ->
  fnd (body ++ "?" ++ query_str qd) = Ok l ->
  forall e, In e l <-> In e items /\ matched_by (denotes_q Ld body qd) e.

Lemma shortcut_false_okb s : shortcut Ld s = false -> shortcut_okb Ld s = true.
Proof. intros H. unfold shortcut_okb. rewrite H. reflexivity. Qed.

Theorem gen_union_rule s ss l ls :
  (forall b, In b (bodies Ld s) <-> exists s', In s' ss /\ In b (bodies Ld s')) ->
  search_ok s = true -> shortcut_okb Ld s = true -> G s ->
  (forall s', In s' ss -> search_ok s' = true /\ shortcut_okb Ld s' = true /\ G s') ->
  fnd s = Ok l ->
  Forall2 (fun s' l' => fnd s' = Ok l') ss ls ->
  forall e, In e l <-> exists l', In l' ls /\ In e l'.
Proof.
  intros Hb Hs Hok Hg Hss H Hall e. rewrite (fnd_den s l Hs Hok Hg H e). split.
  - intros (Hi & Hm). apply (matched_union Ld s ss Hb) in Hm. destruct Hm as (s' & Hs' & Hm).
    destruct (Forall2_In_l _ _ _ _ Hall Hs') as (l' & Hl' & Hf). exists l'. split; [exact Hl'|].
    destruct (Hss s' Hs') as (H1 & H2 & H3). apply (fnd_den s' l' H1 H2 H3 Hf). auto.
  - intros (l' & Hl' & He). destruct (Forall2_In_r _ _ _ _ Hall Hl') as (s' & Hs' & Hf).
    destruct (Hss s' Hs') as (H1 & H2 & H3). apply (fnd_den s' l' H1 H2 H3 Hf) in He. destruct He as (Hi & Hm).
    split; [exact Hi|]. apply (matched_union Ld s ss Hb). exists s'. auto.
Qed.

Theorem gen_comma_rule pre alts post l ls :
  alts <> [] -> Forall noslash pre -> Forall noslash post ->
  Forall (fun a => alt_okb a = true) alts -> (post = [] -> Forall (fun a => a <> "") alts) ->
  search_ok (mk pre (join "," alts) post) = true -> shortcut_okb Ld (mk pre (join "," alts) post) = true ->
  G (mk pre (join "," alts) post) ->
  (forall a, In a alts -> search_ok (mk pre a post) = true /\ shortcut_okb Ld (mk pre a post) = true /\ G (mk pre a post)) ->
  fnd (mk pre (join "," alts) post) = Ok l ->
  Forall2 (fun a l' => fnd (mk pre a post) = Ok l') alts ls ->
  forall e, In e l <-> exists l', In l' ls /\ In e l'.
Proof.
  intros Hne Hpre Hpost Hall Hlast Hs Hok Hg Hss H Hfs.
  apply (gen_union_rule _ (map (fun a => mk pre a post) alts) l ls
           (comma_bodies Ld pre alts post Hne Hpre Hpost Hall Hlast) Hs Hok Hg).
  - intros s' Hs'. apply in_map_iff in Hs'. destruct Hs' as (a & <- & Ha). apply (Hss a Ha).
  - exact H.
  - apply Forall2_map_l. exact Hfs.
Qed.

Corollary gen_comma_rule2 pre a b post l la lb :
  Forall noslash pre -> Forall noslash post -> alt_okb a = true -> alt_okb b = true ->
  (post = [] -> a <> "" /\ b <> "") ->
  search_ok (mk pre (a ++ "," ++ b) post) = true -> shortcut_okb Ld (mk pre (a ++ "," ++ b) post) = true ->
  G (mk pre (a ++ "," ++ b) post) ->
  search_ok (mk pre a post) = true -> shortcut_okb Ld (mk pre a post) = true -> G (mk pre a post) ->
  search_ok (mk pre b post) = true -> shortcut_okb Ld (mk pre b post) = true -> G (mk pre b post) ->
  fnd (mk pre (a ++ "," ++ b) post) = Ok l ->
  fnd (mk pre a post) = Ok la -> fnd (mk pre b post) = Ok lb ->
  forall e, In e l <-> In e la \/ In e lb.
Proof.
  intros Hpre Hpost Ha Hb Hlast Hs Hok Hg Hsa Hoa Hga Hsb Hob Hgb H Hfa Hfb e.
  change (a ++ "," ++ b) with (join "," [a; b]) in *.
  rewrite (gen_comma_rule pre [a; b] post l [la; lb]); try assumption.
  - split.
    + intros (l' & [<-|[<-|[]]] & He); auto.
    + intros [He|He]; [exists la | exists lb]; cbn; auto.
  - discriminate.
  - constructor; [exact Ha|]. constructor; [exact Hb | constructor].
  - intros E. destruct (Hlast E). constructor; [assumption|]. constructor; [assumption | constructor].
  - intros x [<-|[<-|[]]]; auto.
  - constructor; [exact Hfa|]. constructor; [exact Hfb | constructor].
Qed.

Theorem gen_alias_rule pre a ms l ls :
  Forall noslash pre -> noslash a ->
  dget (c_extension_alias (l_conf Ld)) a = Some ms -> a <> "" -> mem_c "," a = false ->
  Forall (fun m => dmem (c_extension_alias (l_conf Ld)) m = false) ms ->
  search_ok (mk pre a []) = true -> shortcut_okb Ld (mk pre a []) = true -> G (mk pre a []) ->
  (forall m, In m ms -> search_ok (mk pre m []) = true /\ shortcut_okb Ld (mk pre m []) = true /\ G (mk pre m [])) ->
  fnd (mk pre a []) = Ok l ->
  Forall2 (fun m l' => fnd (mk pre m []) = Ok l') ms ls ->
  forall e, In e l <-> exists l', In l' ls /\ In e l'.
Proof.
  intros Hpre Hsl Ha Hne Hc Hms Hs Hok Hg Hss H Hfs.
  apply (gen_union_rule _ (map (fun m => mk pre m []) ms) l ls
           (alias_bodies Ld Hconf pre a ms Hpre Hsl Ha Hne Hc Hms) Hs Hok Hg).
  - intros s' Hs'. apply in_map_iff in Hs'. destruct Hs' as (m & <- & Hm). apply (Hss m Hm).
  - exact H.
  - apply Forall2_map_l. exact Hfs.
Qed.

Theorem gen_dstar_rule pre post l :
  pre <> [] -> Forall noslash pre -> Forall noslash post ->
  (post = [] -> dmem (c_extension_alias (l_conf Ld)) "**" = false) ->
  (post = [] -> dmem (c_extension_alias (l_conf Ld)) "*" = false) ->
  (post = [] -> lastpre_ok Ld pre) ->
  search_ok (mk pre "**" post) = true -> shortcut Ld (mk pre "**" post) = false -> G (mk pre "**" post) ->
  fnd (mk pre "**" post) = Ok l ->
  forall e, In e l <-> In e items /\ exists n, matched_by (levels_on Ld pre n post) e.
Proof.
  intros Hne Hpre Hpost Hdd Hstar Hlp Hs Hsc Hg H e.
  rewrite (fnd_den _ l Hs (shortcut_false_okb _ Hsc) Hg H e).
  rewrite (dstar_matched c Ld Hload Hwf Hconf pre post Hne Hpre Hpost Hdd Hstar Hlp Hs (fnd_unf _ l Hsc H) e).
  reflexivity.
Qed.

(* every result of pre/**/post is a result of one of the n-level searches *)
Corollary gen_dstar_rule_incl pre post l e :
  pre <> [] -> Forall noslash pre -> Forall noslash post ->
  (post = [] -> dmem (c_extension_alias (l_conf Ld)) "**" = false) ->
  (post = [] -> dmem (c_extension_alias (l_conf Ld)) "*" = false) ->
  (post = [] -> lastpre_ok Ld pre) ->
  search_ok (mk pre "**" post) = true -> shortcut Ld (mk pre "**" post) = false -> G (mk pre "**" post) ->
  fnd (mk pre "**" post) = Ok l -> In e l ->
  exists n, forall ln, search_ok (mkn pre n post) = true -> shortcut_okb Ld (mkn pre n post) = true ->
    G (mkn pre n post) -> contains "**" (mkn pre n post) = false ->
    fnd (mkn pre n post) = Ok ln -> In e ln.
Proof.
  intros Hne Hpre Hpost Hdd Hstar Hlp Hs Hsc Hg H He.
  apply (gen_dstar_rule pre post l Hne Hpre Hpost Hdd Hstar Hlp Hs Hsc Hg H) in He.
  destruct He as (Hi & n & x & Hx & Hgl). exists n. intros ln Hsn Hokn Hgn Hd Hf.
  apply (fnd_den _ ln Hsn Hokn Hgn Hf). split; [exact Hi|]. exists x. split; [|exact Hgl].
  apply (plain_denotes_iff Ld Hconf _ x Hd). apply levels_plain. exact Hx.
Qed.

(* conversely, a level all of whose typed searches are of a leaf type is included *)
Corollary gen_dstar_rule_level pre post l n ln :
  pre <> [] -> Forall noslash pre -> Forall noslash post ->
  (post = [] -> dmem (c_extension_alias (l_conf Ld)) "**" = false) ->
  (post = [] -> dmem (c_extension_alias (l_conf Ld)) "*" = false) ->
  (post = [] -> lastpre_ok Ld pre) ->
  search_ok (mk pre "**" post) = true -> shortcut Ld (mk pre "**" post) = false -> G (mk pre "**" post) ->
  fnd (mk pre "**" post) = Ok l ->
  (forall x, plain_denotes Ld (mkn pre n post) x -> levels_on Ld pre n post x) ->
  search_ok (mkn pre n post) = true -> shortcut_okb Ld (mkn pre n post) = true ->
  G (mkn pre n post) -> contains "**" (mkn pre n post) = false ->
  fnd (mkn pre n post) = Ok ln -> incl ln l.
Proof.
  intros Hne Hpre Hpost Hdd Hstar Hlp Hs Hsc Hg H Hleaf Hsn Hokn Hgn Hd Hf e He.
  apply (fnd_den _ ln Hsn Hokn Hgn Hf) in He. destruct He as (Hi & x & Hx & Hgl).
  apply (gen_dstar_rule pre post l Hne Hpre Hpost Hdd Hstar Hlp Hs Hsc Hg H). split; [exact Hi|].
  exists n, x. split; [|exact Hgl]. apply Hleaf. apply (plain_denotes_iff Ld Hconf _ x Hd). exact Hx.
Qed.

Theorem gen_filter_rule body k v l lf :
  search_ok body = true -> contains "**" body = false ->
  narrow_stableb Ld body = true -> shortcut_okb Ld body = true -> G body ->
  atomb k = true -> atomb v = true -> literalb v = true -> startswith "~" v = false ->
  value_alts Ld k v = [v] -> filt_okb Ld body k v = true ->
  ~ In "" (bodies Ld body) ->
  shortcut Ld (body ++ "?" ++ k ++ "=" ++ v) = false ->
  G (body ++ "?" ++ k ++ "=" ++ v) ->
  fnd body = Ok l ->
  fnd (body ++ "?" ++ k ++ "=" ++ v) = Ok lf ->
  forall e, In e lf <-> In e l /\ field_in Ld body k e v.
Proof.
  intros Hs Hd Hst Hok Hg Hk Hv Hl Ht Hva Hf Hne Hsc Hgf H Hff e.
  change (body ++ "?" ++ k ++ "=" ++ v) with (body ++ "?" ++ query_str [(k, v)]) in Hsc, Hgf, Hff.
  rewrite (fnd_qden body [(k, v)] lf Hs (filter_query_okb k v Hk Hv) Hne Hsc Hgf Hff e).
  rewrite (fnd_den body l Hs Hok Hg H e).
  rewrite (filter_matched_field c Ld Hload Hwf Hconf body k v e Hs Hd Hst Hk Hv Hl Ht Hva Hf). tauto.
Qed.

Theorem gen_literal_rule pre v post l lv :
  Forall noslash pre -> Forall noslash post -> noslash v -> literalb v = true -> mem_c "," v = false ->
  (post = [] -> v <> "" /\ dmem (c_extension_alias (l_conf Ld)) v = false) ->
  (post = [] -> dmem (c_extension_alias (l_conf Ld)) "*" = false) ->
  lit_ok Ld pre post v ->
  search_ok (mk pre "*" post) = true -> contains "**" (mk pre "*" post) = false ->
  narrow_stableb Ld (mk pre "*" post) = true -> shortcut_okb Ld (mk pre "*" post) = true -> G (mk pre "*" post) ->
  search_ok (mk pre v post) = true -> contains "**" (mk pre v post) = false ->
  narrow_stableb Ld (mk pre v post) = true -> shortcut_okb Ld (mk pre v post) = true -> G (mk pre v post) ->
  fnd (mk pre "*" post) = Ok l ->
  fnd (mk pre v post) = Ok lv ->
  forall e, In e lv <-> In e l /\ nth_error (split_c "/" e) (List.length pre) = Some v.
Proof.
  intros Hpre Hpost Hv Hl Hc Hlastv Hlasts Hlit Hs Hd Hst Hok Hg Hsv Hdv Hstv Hokv Hgv H Hfv e.
  rewrite (fnd_den _ l Hs Hok Hg H e), (fnd_den _ lv Hsv Hokv Hgv Hfv e).
  rewrite (literal_matched Ld Hconf pre v post e Hpre Hpost Hv Hl Hc Hlastv Hlasts Hlit Hs Hd Hst Hsv Hdv Hstv). tauto.
Qed.

End DenotingFinder.

(** * 5. The rules for the tree finder *)

Section TreeRules.
Variables (c : Conf) (Ld : Loaded).
Hypothesis Hload : load c = Some Ld.
Hypothesis Hwf : wf_loadedb Ld = true.
Hypothesis Hconf : unfold_conf_okb Ld = true.
Hypothesis Hpu : paths_unambiguousb Ld = true.
Variable cfg : string.
Variable E : list sid.
Variable F : fs.
Hypothesis HD : dataset_ok Ld cfg E F.
Variable id : string.

Local Notation fnd := (ffind Ld F (FPaths id cfg)).
Local Notation items := (map s_string E).
Local Notation G := (tree_guard Ld cfg E).

Lemma tree_den : forall s l, search_ok s = true -> shortcut_okb Ld s = true -> G s -> fnd s = Ok l ->
  forall e, In e l <-> In e items /\ matched Ld s e.
Proof. exact (find_paths_result c Ld Hload Hwf Hconf Hpu cfg E F HD id). Qed.

Lemma tree_unf : forall s l, shortcut Ld s = false -> fnd s = Ok l ->
  exists qs, unfold_search Ld s false false = Ok qs.
Proof.
  intros s l Hsc H. destruct (ffind_paths Ld F id cfg s l H) as (qs & Hfs & _).
  destruct (find_searches_cases Ld s qs Hfs) as [(Hsc' & _) | (_ & Hu)]; [congruence|]. exists qs. exact Hu.
Qed.

Lemma tree_qden : forall body qd l, search_ok body = true -> query_okb qd = true -> ~ In "" (bodies Ld body) ->
  shortcut Ld (body ++ "?" ++ query_str qd) = false -> G (body ++ "?" ++ query_str qd) ->
  fnd (body ++ "?" ++ query_str qd) = Ok l ->
  forall e, In e l <-> In e items /\ matched_by (denotes_q Ld body qd) e.
Proof.
  intros body qd l Hs Hq Hne Hsc Hg H.
  exact (proj2 (find_paths_query_denotes c Ld Hload Hwf Hconf Hpu cfg E F HD id body qd l Hs Hq Hne Hsc Hg H)).
Qed.

Lemma tree_nd : forall s l, G s -> fnd s = Ok l -> NoDup l.
Proof.
  intros s l Hg H.
  exact (find_paths_NoDup c Ld Hload Hwf Hpu cfg E F HD id s l (tree_guard_guard0 Ld cfg E s Hg) H).
Qed.

(* the result set of s is the union of the result sets of the searches ss *)
Theorem tree_union_rule s ss l ls :
  (forall b, In b (bodies Ld s) <-> exists s', In s' ss /\ In b (bodies Ld s')) ->
  search_ok s = true -> shortcut_okb Ld s = true -> G s ->
  (forall s', In s' ss -> search_ok s' = true /\ shortcut_okb Ld s' = true /\ G s') ->
  fnd s = Ok l ->
  Forall2 (fun s' l' => fnd s' = Ok l') ss ls ->
  NoDup l /\ forall e, In e l <-> exists l', In l' ls /\ In e l'.
Proof.
  intros. split; [apply (tree_nd (s) l); assumption | apply (gen_union_rule Ld fnd items G tree_den s ss l ls); assumption].
Qed.

(* Rule 1, n alternatives.  Guards as for the list finder ([comma_rule]) with [nosort] replaced by the
   tree guard of every search involved *)
Theorem tree_comma_rule pre alts post l ls :
  alts <> [] -> Forall noslash pre -> Forall noslash post ->
  Forall (fun a => alt_okb a = true) alts -> (post = [] -> Forall (fun a => a <> "") alts) ->
  search_ok (mk pre (join "," alts) post) = true -> shortcut_okb Ld (mk pre (join "," alts) post) = true ->
  G (mk pre (join "," alts) post) ->
  (forall a, In a alts -> search_ok (mk pre a post) = true /\ shortcut_okb Ld (mk pre a post) = true /\ G (mk pre a post)) ->
  fnd (mk pre (join "," alts) post) = Ok l ->
  Forall2 (fun a l' => fnd (mk pre a post) = Ok l') alts ls ->
  NoDup l /\ forall e, In e l <-> exists l', In l' ls /\ In e l'.
Proof.
  intros. split; [apply (tree_nd (mk pre (join "," alts) post) l); assumption | apply (gen_comma_rule Ld fnd items G tree_den pre alts post l ls); assumption].
Qed.

(* Rule 1, two alternatives *)
Corollary tree_comma_rule2 pre a b post l la lb :
  Forall noslash pre -> Forall noslash post -> alt_okb a = true -> alt_okb b = true ->
  (post = [] -> a <> "" /\ b <> "") ->
  search_ok (mk pre (a ++ "," ++ b) post) = true -> shortcut_okb Ld (mk pre (a ++ "," ++ b) post) = true ->
  G (mk pre (a ++ "," ++ b) post) ->
  search_ok (mk pre a post) = true -> shortcut_okb Ld (mk pre a post) = true -> G (mk pre a post) ->
  search_ok (mk pre b post) = true -> shortcut_okb Ld (mk pre b post) = true -> G (mk pre b post) ->
  fnd (mk pre (a ++ "," ++ b) post) = Ok l ->
  fnd (mk pre a post) = Ok la -> fnd (mk pre b post) = Ok lb ->
  NoDup l /\ forall e, In e l <-> In e la \/ In e lb.
Proof.
  intros. split; [apply (tree_nd (mk pre (a ++ "," ++ b) post) l); assumption | apply (gen_comma_rule2 Ld fnd items G tree_den pre a b post l la lb); assumption].
Qed.

(* Rule 2 *)
Theorem tree_alias_rule pre a ms l ls :
  Forall noslash pre -> noslash a ->
  dget (c_extension_alias (l_conf Ld)) a = Some ms -> a <> "" -> mem_c "," a = false ->
  Forall (fun m => dmem (c_extension_alias (l_conf Ld)) m = false) ms ->
  search_ok (mk pre a []) = true -> shortcut_okb Ld (mk pre a []) = true -> G (mk pre a []) ->
  (forall m, In m ms -> search_ok (mk pre m []) = true /\ shortcut_okb Ld (mk pre m []) = true /\ G (mk pre m [])) ->
  fnd (mk pre a []) = Ok l ->
  Forall2 (fun m l' => fnd (mk pre m []) = Ok l') ms ls ->
  NoDup l /\ forall e, In e l <-> exists l', In l' ls /\ In e l'.
Proof.
  intros. split; [apply (tree_nd (mk pre a []) l); assumption | apply (gen_alias_rule Ld Hconf fnd items G tree_den pre a ms l ls); assumption].
Qed.

(* Rule 3 *)
Theorem tree_dstar_rule pre post l :
  pre <> [] -> Forall noslash pre -> Forall noslash post ->
  (post = [] -> dmem (c_extension_alias (l_conf Ld)) "**" = false) ->
  (post = [] -> dmem (c_extension_alias (l_conf Ld)) "*" = false) ->
  (post = [] -> lastpre_ok Ld pre) ->
  search_ok (mk pre "**" post) = true -> shortcut Ld (mk pre "**" post) = false -> G (mk pre "**" post) ->
  fnd (mk pre "**" post) = Ok l ->
  NoDup l /\ forall e, In e l <-> In e items /\ exists n, matched_by (levels_on Ld pre n post) e.
Proof.
  intros. split; [apply (tree_nd (mk pre "**" post) l); assumption | apply (gen_dstar_rule c Ld Hload Hwf Hconf fnd items G tree_den tree_unf pre post l); assumption].
Qed.

Corollary tree_dstar_rule_incl pre post l e :
  pre <> [] -> Forall noslash pre -> Forall noslash post ->
  (post = [] -> dmem (c_extension_alias (l_conf Ld)) "**" = false) ->
  (post = [] -> dmem (c_extension_alias (l_conf Ld)) "*" = false) ->
  (post = [] -> lastpre_ok Ld pre) ->
  search_ok (mk pre "**" post) = true -> shortcut Ld (mk pre "**" post) = false -> G (mk pre "**" post) ->
  fnd (mk pre "**" post) = Ok l -> In e l ->
  exists n, forall ln, search_ok (mkn pre n post) = true -> shortcut_okb Ld (mkn pre n post) = true ->
    G (mkn pre n post) -> contains "**" (mkn pre n post) = false ->
    fnd (mkn pre n post) = Ok ln -> In e ln.
Proof. exact (gen_dstar_rule_incl c Ld Hload Hwf Hconf fnd items G tree_den tree_unf pre post l e). Qed.

Corollary tree_dstar_rule_level pre post l n ln :
  pre <> [] -> Forall noslash pre -> Forall noslash post ->
  (post = [] -> dmem (c_extension_alias (l_conf Ld)) "**" = false) ->
  (post = [] -> dmem (c_extension_alias (l_conf Ld)) "*" = false) ->
  (post = [] -> lastpre_ok Ld pre) ->
  search_ok (mk pre "**" post) = true -> shortcut Ld (mk pre "**" post) = false -> G (mk pre "**" post) ->
  fnd (mk pre "**" post) = Ok l ->
  (forall x, plain_denotes Ld (mkn pre n post) x -> levels_on Ld pre n post x) ->
  search_ok (mkn pre n post) = true -> shortcut_okb Ld (mkn pre n post) = true ->
  G (mkn pre n post) -> contains "**" (mkn pre n post) = false ->
  fnd (mkn pre n post) = Ok ln -> incl ln l.
Proof. exact (gen_dstar_rule_level c Ld Hload Hwf Hconf fnd items G tree_den tree_unf pre post l n ln). Qed.

(* Rule 4 *)
Theorem tree_filter_rule body k v l lf :
  search_ok body = true -> contains "**" body = false ->
  narrow_stableb Ld body = true -> shortcut_okb Ld body = true -> G body ->
  atomb k = true -> atomb v = true -> literalb v = true -> startswith "~" v = false ->
  value_alts Ld k v = [v] -> filt_okb Ld body k v = true ->
  ~ In "" (bodies Ld body) ->
  shortcut Ld (body ++ "?" ++ k ++ "=" ++ v) = false ->
  G (body ++ "?" ++ k ++ "=" ++ v) ->
  fnd body = Ok l ->
  fnd (body ++ "?" ++ k ++ "=" ++ v) = Ok lf ->
  NoDup lf /\ forall e, In e lf <-> In e l /\ field_in Ld body k e v.
Proof.
  intros. split; [apply (tree_nd (body ++ "?" ++ k ++ "=" ++ v) lf); assumption | apply (gen_filter_rule c Ld Hload Hwf Hconf fnd items G tree_den tree_qden body k v l lf); assumption].
Qed.

(* Rule 5 *)
Theorem tree_literal_rule pre v post l lv :
  Forall noslash pre -> Forall noslash post -> noslash v -> literalb v = true -> mem_c "," v = false ->
  (post = [] -> v <> "" /\ dmem (c_extension_alias (l_conf Ld)) v = false) ->
  (post = [] -> dmem (c_extension_alias (l_conf Ld)) "*" = false) ->
  lit_ok Ld pre post v ->
  search_ok (mk pre "*" post) = true -> contains "**" (mk pre "*" post) = false ->
  narrow_stableb Ld (mk pre "*" post) = true -> shortcut_okb Ld (mk pre "*" post) = true -> G (mk pre "*" post) ->
  search_ok (mk pre v post) = true -> contains "**" (mk pre v post) = false ->
  narrow_stableb Ld (mk pre v post) = true -> shortcut_okb Ld (mk pre v post) = true -> G (mk pre v post) ->
  fnd (mk pre "*" post) = Ok l ->
  fnd (mk pre v post) = Ok lv ->
  NoDup lv /\ forall e, In e lv <-> In e l /\ nth_error (split_c "/" e) (List.length pre) = Some v.
Proof.
  intros. split; [apply (tree_nd (mk pre v post) lv); assumption | apply (gen_literal_rule Ld Hconf fnd items G tree_den pre v post l lv); assumption].
Qed.

(** ** Tree finder = list finder on the strings of the data set, as sets (whole [find], star searches) *)
Theorem find_paths_eq_find_list s l l' :
  guarded Ld s -> G s -> fnd s = Ok l -> find_list Ld items s = Ok l' ->
  forall e, In e l <-> In e l'.
Proof.
  intros Hgd Hg H H' e. pose proof Hgd as (Hs & Hok & _).
  rewrite (tree_den s l Hs Hok Hg H e).
  destruct (find_list_denotes c Ld Hload Hwf Hconf items s l' Hgd H') as (_ & Hin). rewrite Hin. reflexivity.
Qed.

End TreeRules.

Print Assumptions paths_star_NoDup.
Print Assumptions paths_star_NoDup_dataset.
Print Assumptions fs_normal_distinct.
Print Assumptions find_paths_result.
Print Assumptions find_paths_NoDup.
Print Assumptions find_paths_denotes.
Print Assumptions find_paths_denotes_guarded.
Print Assumptions find_paths_denotes_typed.
Print Assumptions find_paths_query_denotes.
Print Assumptions tree_comma_rule.
Print Assumptions tree_comma_rule2.
Print Assumptions tree_alias_rule.
Print Assumptions tree_dstar_rule.
Print Assumptions tree_dstar_rule_incl.
Print Assumptions tree_dstar_rule_level.
Print Assumptions tree_filter_rule.
Print Assumptions tree_literal_rule.
Print Assumptions find_paths_eq_find_list.
