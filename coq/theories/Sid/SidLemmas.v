(** Infrastructure for Sid/SidProofs.v: string/list facts, consequences of the wf clauses,
    what [accepts], [natural], [forced], [resolve_tpl], [format_tpl] and [sid_of_fields] compute
    for a well-formed loaded configuration. *)
From Coq Require Import List String Ascii Bool Arith Lia Permutation.
From Spil Require Import Base.Str Base.Dict Base.Outcome Base.Tree Base.StrProofs Base.SplitProofs
  Regex.Re Regex.MatchProofs Resolva.Template Resolva.Resolver Conf.ConfUtil Conf.Conf Conf.WF
  Sid.Query Sid.Sid Sid.TypingSpec Sid.TypingProofs.
Import ListNotations.
Local Open Scope string_scope.

(** ** Strings and lists *)

Lemma sempty_false s : sempty s = false <-> s <> "".
Proof. destruct s; simpl; split; congruence. Qed.

Lemma sempty_app_r a x b : sempty (a ++ String x b) = false.
Proof. destruct a; reflexivity. Qed.

Lemma split_c_nomem_all c s : Forall (fun x => mem_c c x = false) (split_c c s).
Proof.
  induction s as [|a s IH]; simpl.
  - constructor; [reflexivity | constructor].
  - destruct (Ascii.eqb a c) eqn:E.
    + constructor; [reflexivity | exact IH].
    + destruct (split_c c s) as [|h t].
      * constructor; [simpl; rewrite E; reflexivity | constructor].
      * inversion IH as [|? ? Hh Ht]; subst. constructor; [|exact Ht].
        simpl. rewrite E. exact Hh.
Qed.

Lemma split_c_join c l :
  l <> [] -> Forall (fun x => mem_c c x = false) l -> split_c c (join (str1 c) l) = l.
Proof.
  induction l as [|x l IH]; intros Hne Hall; [congruence|].
  inversion Hall as [|? ? Hx Hl]; subst.
  destruct l as [|y l].
  - simpl. apply split_c_nomem. exact Hx.
  - rewrite join_cons2. unfold str1 at 1. cbn [append].
    rewrite (split_c_app c x _ Hx). rewrite IH; [reflexivity | discriminate | exact Hl].
Qed.

Lemma mem_c_split a c s :
  mem_c a s = false -> Forall (fun x => mem_c a x = false) (split_c c s).
Proof.
  induction s as [|b s IH]; simpl; intros H.
  - constructor; [reflexivity | constructor].
  - apply orb_false_iff in H. destruct H as (Hb & Hs). specialize (IH Hs).
    destruct (Ascii.eqb b c).
    + constructor; [reflexivity | exact IH].
    + destruct (split_c c s) as [|h t].
      * constructor; [simpl; rewrite Hb; reflexivity | constructor].
      * inversion IH as [|? ? Hh Ht]; subst. constructor; [|exact Ht].
        simpl. rewrite Hb. exact Hh.
Qed.

Lemma mem_c_join a sep l :
  mem_c a sep = false -> Forall (fun x => mem_c a x = false) l -> mem_c a (join sep l) = false.
Proof.
  intros Hsep. induction l as [|x l IH]; intros Hall; [reflexivity|].
  inversion Hall as [|? ? Hx Hl]; subst.
  destruct l as [|y l]; [exact Hx|].
  rewrite join_cons2, !mem_c_app, Hx, Hsep, (IH Hl). reflexivity.
Qed.

Lemma Forall_firstn {A} (P : A -> Prop) n l : Forall P l -> Forall P (firstn n l).
Proof.
  revert l. induction n as [|n IH]; intros l H; [constructor|].
  destruct l as [|x l]; [constructor|]. inversion H; subst. constructor; auto.
Qed.

Lemma join_snoc sep l x : l <> [] -> join sep (l ++ [x]) = join sep l ++ sep ++ x.
Proof.
  induction l as [|y l IH]; intros Hne; [congruence|].
  destruct l as [|z l].
  - reflexivity.
  - change ((y :: z :: l) ++ [x])%list with (y :: ((z :: l) ++ [x]))%list.
    rewrite join_cons_ne by (destruct l; discriminate).
    rewrite IH by discriminate. rewrite join_cons2. rewrite !app_assoc_s. reflexivity.
Qed.

(* length of the split = length of the joined list: no element contained the separator *)
Lemma count_split c s : List.length (split_c c s) = S (count_c c s).
Proof.
  induction s as [|a s IH]; [reflexivity|]. simpl.
  destruct (Ascii.eqb a c); simpl.
  - rewrite IH. reflexivity.
  - destruct (split_c c s); simpl in *; [discriminate | exact IH].
Qed.

Lemma count_c_app c a b : count_c c (a ++ b) = count_c c a + count_c c b.
Proof. induction a as [|x a IH]; simpl; [reflexivity | rewrite IH; lia]. Qed.

Lemma count_c_0 c s : count_c c s = 0 -> mem_c c s = false.
Proof.
  induction s as [|a s IH]; simpl; [reflexivity|].
  destruct (Ascii.eqb a c); simpl; [discriminate | exact IH].
Qed.

Fixpoint sum_count (c : ascii) (l : list string) : nat :=
  match l with [] => 0 | x :: t => count_c c x + sum_count c t end.

Lemma count_join c l :
  l <> [] -> count_c c (join (str1 c) l) = List.length l - 1 + sum_count c l.
Proof.
  induction l as [|x l IH]; intros Hne; [congruence|].
  destruct l as [|y l].
  - simpl. lia.
  - rewrite join_cons2, !count_c_app, IH by discriminate.
    cbn [count_c str1 sum_count List.length]. rewrite Ascii.eqb_refl. lia.
Qed.

Lemma sum_count_0 c l : sum_count c l = 0 -> Forall (fun x => mem_c c x = false) l.
Proof.
  induction l as [|x l IH]; simpl; intros H; constructor.
  - apply count_c_0. lia.
  - apply IH. lia.
Qed.

Lemma split_join_len c l :
  List.length (split_c c (join (str1 c) l)) = List.length l -> l <> [] ->
  split_c c (join (str1 c) l) = l.
Proof.
  intros Hlen Hne. apply split_c_join; [exact Hne|].
  apply sum_count_0. rewrite count_split, (count_join c l Hne) in Hlen.
  destruct l; [congruence|]. simpl in *. lia.
Qed.

Lemma strs_eqb_eq a b : strs_eqb a b = true -> a = b.
Proof.
  revert b. induction a as [|x a IH]; intros [|y b] H; simpl in H; try discriminate; [reflexivity|].
  apply andb_true_iff in H. destruct H as (H1 & H2).
  apply String.eqb_eq in H1. subst. f_equal. auto.
Qed.

Lemma item_eqb_eq a b : item_eqb a b = true -> a = b.
Proof.
  destruct a as [x|n e], b as [y|n' e']; simpl; intros H; try discriminate.
  - apply String.eqb_eq in H. subst. reflexivity.
  - apply andb_true_iff in H. destruct H as (H1 & H2). apply String.eqb_eq in H1. subst.
    destruct e, e'; simpl in H2; try discriminate; [|reflexivity].
    apply String.eqb_eq in H2. subst. reflexivity.
Qed.

Lemma items_eqb_eq a b : items_eqb a b = true -> a = b.
Proof.
  revert b. induction a as [|x a IH]; intros [|y b] H; simpl in H; try discriminate; [reflexivity|].
  apply andb_true_iff in H. destruct H as (H1 & H2).
  apply item_eqb_eq in H1. subst. f_equal. auto.
Qed.

Lemma incl_s_incl a b : incl_s a b = true <-> incl a b.
Proof.
  unfold incl_s. rewrite forallb_forall. split.
  - intros H x Hx. apply in_list_In. apply H. exact Hx.
  - intros H x Hx. apply in_list_In. apply H. exact Hx.
Qed.

Lemma keys_eq_iff a b : keys_eq a b = true <-> (incl a b /\ incl b a).
Proof. unfold keys_eq. rewrite andb_true_iff, !incl_s_incl. reflexivity. Qed.

(** ** Dicts *)

Lemma dget_In_keys {V} (d : dict V) k : dget d k <> None <-> In k (map fst d).
Proof.
  induction d as [|[k' v] d IH]; simpl.
  - split; [congruence | intros []].
  - destruct (String.eqb k k') eqn:E.
    + apply String.eqb_eq in E. subst. split; [intros _; left; reflexivity | discriminate].
    + rewrite IH. split; [intros H; right; exact H|].
      intros [H|H]; [|exact H]. subst. rewrite String.eqb_refl in E. discriminate.
Qed.

Lemma dget_None_keys {V} (d : dict V) k : dget d k = None <-> ~ In k (map fst d).
Proof.
  rewrite <- dget_In_keys. destruct (dget d k); split; intros H; try congruence.
  exfalso. apply H. discriminate.
Qed.

Lemma dget_In {V} (d : dict V) k v : NoDup (map fst d) -> In (k, v) d -> dget d k = Some v.
Proof.
  induction d as [|[k' v'] d IH]; simpl; intros Hnd Hin; [destruct Hin|].
  inversion Hnd as [|? ? Hk Hnd']; subst.
  destruct Hin as [Hin|Hin].
  - inversion Hin; subst. rewrite String.eqb_refl. reflexivity.
  - destruct (String.eqb k k') eqn:E.
    + apply String.eqb_eq in E. subst. exfalso. apply Hk.
      apply (in_map fst) in Hin. exact Hin.
    + apply IH; assumption.
Qed.

Lemma dget_Some_In {V} (d : dict V) k v : dget d k = Some v -> In (k, v) d.
Proof.
  induction d as [|[k' v'] d IH]; simpl; intros H; [discriminate|].
  destruct (String.eqb k k') eqn:E.
  - apply String.eqb_eq in E. inversion H; subst. left. reflexivity.
  - right. auto.
Qed.

Lemma dget_perm {V} (d d' : dict V) k :
  NoDup (map fst d) -> Permutation d d' -> dget d' k = dget d k.
Proof.
  intros Hnd Hp.
  assert (Hnd' : NoDup (map fst d')).
  { apply (Permutation_NoDup (Permutation_map fst Hp) Hnd). }
  destruct (dget d k) as [v|] eqn:E.
  - apply dget_In; [exact Hnd'|]. apply (Permutation_in _ Hp). apply dget_Some_In. exact E.
  - apply dget_None_keys. apply dget_None_keys in E. intros H. apply E.
    apply (Permutation_in _ (Permutation_sym (Permutation_map fst Hp))). exact H.
Qed.

Definition vals_for (d : dict string) (names : list string) : list string :=
  map (fun n => match dget d n with Some v => v | None => "" end) names.

Lemma vals_for_length d names : List.length (vals_for d names) = List.length names.
Proof. unfold vals_for. apply map_length. Qed.

Lemma vals_for_ext d d' names :
  (forall k, In k names -> dget d' k = dget d k) -> vals_for d' names = vals_for d names.
Proof. intros H. unfold vals_for. apply map_ext_in. intros k Hk. rewrite (H k Hk). reflexivity. Qed.

Lemma vals_for_self (d : dict string) : NoDup (map fst d) -> vals_for d (map fst d) = map snd d.
Proof.
  unfold vals_for. intros Hnd. rewrite map_map.
  apply map_ext_in. intros [k v] Hin. cbn [fst snd].
  rewrite (dget_In d k v Hnd Hin). reflexivity.
Qed.

Lemma combine_fst_snd {A B} (l : list (A * B)) : combine (map fst l) (map snd l) = l.
Proof. induction l as [|[a b] l IH]; simpl; congruence. Qed.

Lemma map_fst_combine {A B} (a : list A) (b : list B) :
  List.length a = List.length b -> map fst (combine a b) = a.
Proof.
  revert b. induction a as [|x a IH]; intros [|y b] H; simpl in *; try discriminate; [reflexivity|].
  f_equal. apply IH. lia.
Qed.

Lemma map_snd_combine {A B} (a : list A) (b : list B) :
  List.length a = List.length b -> map snd (combine a b) = b.
Proof.
  revert b. induction a as [|x a IH]; intros [|y b] H; simpl in *; try discriminate; [reflexivity|].
  f_equal. apply IH. lia.
Qed.

Lemma dget_combine_vals d names k :
  dget (combine names (vals_for d names)) k =
  if in_list k names then Some (match dget d k with Some v => v | None => "" end) else None.
Proof.
  induction names as [|n names IH]; [reflexivity|].
  cbn [vals_for map combine dget in_list existsb].
  destruct (String.eqb k n) eqn:E.
  - apply String.eqb_eq in E. subst. reflexivity.
  - cbn [orb]. exact IH.
Qed.

Lemma firstn_combine {A B} n (a : list A) (b : list B) :
  firstn n (combine a b) = combine (firstn n a) (firstn n b).
Proof.
  revert a b. induction n as [|n IH]; intros a b; [reflexivity|].
  destruct a as [|x a], b as [|y b]; simpl; try reflexivity.
  rewrite IH. reflexivity.
Qed.

Lemma NoDup_firstn {A} n (l : list A) : NoDup l -> NoDup (firstn n l).
Proof.
  revert l. induction n as [|n IH]; intros l H; [constructor|].
  destruct l as [|x l]; [constructor|]. inversion H as [|? ? Hx Hl]; subst.
  simpl. constructor; [|auto]. intros Hin. apply Hx.
  rewrite <- (firstn_skipn n l). apply in_or_app. left. exact Hin.
Qed.

(** ** Consequences of [load] and of the wf clauses *)

Lemma wf_ext_parts Ld : wf_loadedb Ld = true ->
  forallb (fun t => type_name_ok (tp_name t) && first_nonempty t) (r_tpls (l_sid Ld)) = true /\
  same_keys_same_seq (r_tpls (l_sid Ld)) = true /\
  prefix_closed (r_tpls (l_sid Ld)) = true /\
  forallb (fun sym => negb (sempty sym)) (c_search_symbols (l_conf Ld)) = true.
Proof.
  unfold wf_loadedb, wf_loaded_ext. intros H.
  apply andb_true_iff in H. destruct H as (_ & H).
  apply andb_true_iff in H. destruct H as (H & _).
  apply andb_true_iff in H. destruct H as (H & H4).
  apply andb_true_iff in H. destruct H as (H & H3).
  apply andb_true_iff in H. destruct H as (H1 & H2).
  repeat split; assumption.
Qed.

Lemma uniq_first_aux_nodup : forall l seen,
  NoDup l -> (forall x, In x l -> ~ In x seen) -> uniq_first_aux seen l = l.
Proof.
  induction l as [|a l IH]; intros seen Hnd Hdis; simpl; [reflexivity|].
  inversion Hnd as [|? ? Ha Hnd']; subst.
  destruct (in_list a seen) eqn:E.
  - apply in_list_In in E. exfalso. apply (Hdis a); [left; reflexivity | exact E].
  - f_equal. apply IH; [exact Hnd'|].
    intros x Hx [Hx'|Hx'].
    + subst. contradiction.
    + apply (Hdis x); [right; exact Hx | exact Hx'].
Qed.

Lemma mk_tpl_keys n src t : mk_tpl n src = Some t -> tp_keys t = tkeys (tp_items t).
Proof.
  unfold mk_tpl. destruct (parse_template src) as [items|]; [|discriminate].
  destruct (compile items) as [r|]; [|discriminate].
  intros H. inversion H; subst. reflexivity.
Qed.

Lemma mk_tpls_keys : forall l tpls, mk_tpls l = Some tpls ->
  forall t, In t tpls -> tp_keys t = tkeys (tp_items t).
Proof.
  induction l as [|[n src] l IH]; intros tpls H t Hin; simpl in H.
  - inversion H; subst. destruct Hin.
  - destruct (mk_tpl n src) as [x|] eqn:Ex; [|discriminate].
    destruct (mk_tpls l) as [rs|]; [|discriminate].
    inversion H; subst. destruct Hin as [<- | Hin].
    + apply (mk_tpl_keys n src). exact Ex.
    + apply (IH rs eq_refl). exact Hin.
Qed.

Lemma load_keys c Ld : load c = Some Ld ->
  forall t, In t (r_tpls (l_sid Ld)) -> tp_keys t = tkeys (tp_items t).
Proof.
  unfold load. destruct (mk_resolver (load_sid_templates c) false) as [r|] eqn:Er; [|discriminate].
  destruct (opt_all _); [|discriminate]. intros H. inversion H; subst. cbn [l_sid].
  unfold mk_resolver in Er. destruct (mk_tpls (load_sid_templates c)) as [ts|] eqn:Et; [|discriminate].
  inversion Er; subst. cbn [r_tpls]. apply (mk_tpls_keys _ _ Et).
Qed.

Lemma segs_ok_length : forall ps segs, segs_ok ps segs = true -> List.length segs = List.length ps.
Proof.
  induction ps as [|[n r] ps IH]; intros [|g segs] H; simpl in H; try discriminate; [reflexivity|].
  apply andb_true_iff in H. destruct H as (_ & H). simpl. f_equal. auto.
Qed.

Lemma segs_ok_firstn : forall i ps segs,
  segs_ok ps segs = true -> segs_ok (firstn i ps) (firstn i segs) = true.
Proof.
  induction i as [|i IH]; intros ps segs H; [reflexivity|].
  destruct ps as [|[n r] ps], segs as [|g segs]; simpl in H; try discriminate; [reflexivity|].
  apply andb_true_iff in H. destruct H as (H1 & H2).
  cbn [firstn segs_ok]. rewrite H1. cbn [andb]. auto.
Qed.

Lemma in_combine_map {A B} (f : A -> B) (l : list A) a b :
  In (a, b) (combine l (map f l)) -> In a l /\ b = f a.
Proof.
  induction l as [|x l IH]; simpl; intros H; [destruct H|].
  destruct H as [H|H].
  - inversion H; subst. split; [left; reflexivity | reflexivity].
  - destruct (IH H) as (H1 & H2). split; [right; exact H1 | exact H2].
Qed.

Lemma fmt_vals items dd : Shape items ->
  (forall n, In n (item_names items) -> dget dd n <> None) ->
  fmt items dd = Ok (join "/" (vals_for dd (item_names items))).
Proof.
  intros Hsh Hall. apply (fmt_shape items Hsh).
  - apply vals_for_length.
  - intros n v Hin. unfold vals_for in Hin. apply in_combine_map in Hin.
    destruct Hin as (Hn & ->). specialize (Hall n Hn).
    destruct (dget dd n); [reflexivity | congruence].
Qed.

(* stronger form of [tpl_spec]: what the data of a successful [resolve_tpl] looks like *)
Definition tpl_spec2 (r : resolver) (t : tpl) (s : string) : Prop :=
  exists x, resolve_tpl r t s = Ok x /\
    match x with
    | None => accepts t s = None
    | Some d => d <> [] /\ exists segs s2,
        d = combine (item_names (tp_items t)) segs /\
        List.length segs = List.length (item_names (tp_items t)) /\
        s = join "/" segs ++ s2 /\
        ((s2 = "" /\ accepts t s = Some d) \/ (s2 = nl /\ accepts t s = None))
    end.

Lemma tpl_spec2_holds r t s :
  r_check_dup r = false ->
  compile (tp_items t) = Some (tp_re t) ->
  wf_sid_tpl t = true ->
  tpl_spec2 r t s.
Proof.
  intros Hdup Hcomp Hwf.
  unfold wf_sid_tpl in Hwf. apply andb_true_iff in Hwf. destruct Hwf as (Hwf & Hok).
  apply andb_true_iff in Hwf. destruct Hwf as (Hshape & Hnd).
  apply sid_shape_Shape in Hshape. apply nodupb_NoDup in Hnd.
  destruct (compile_shape (tp_items t) Hshape Hnd Hok [])
    as (ps & Hps & Hc & Hne & Hnames & Hall).
  { intros n _ []. }
  unfold compile in Hcomp. rewrite Hc in Hcomp. inversion Hcomp as [Hre].
  rewrite seq_of_sid_res in Hre.
  unfold tpl_spec2, resolve_tpl, search_anchored. rewrite <- Hre, Hdup.
  pose proof (sid_re_spec ps Hne Hall s [] _ kspec_init) as H.
  destruct (m (sid_re ps) s _) as [x|].
  - destruct H as (segs & s2 & Hx & Hlen & Es & Hcases).
    cbn [app] in Hx.
    assert (Hx' : x = combine (map g001 (item_names (tp_items t))) segs).
    { rewrite Hx. unfold names001. rewrite <- Hnames, map_map. reflexivity. }
    unfold match_to_dict. rewrite Hx'.
    rewrite (mtd_aux (item_names (tp_items t)) segs [] Hnd) by (intros n _ []).
    cbn [app bind].
    set (d := combine (item_names (tp_items t)) segs).
    assert (Hlen' : List.length segs = List.length (item_names (tp_items t))).
    { rewrite <- Hnames, map_length. exact Hlen. }
    assert (Hd : d <> []).
    { unfold d. destruct (item_names (tp_items t)) eqn:En.
      - exfalso. rewrite <- Hnames in En. destruct ps; [congruence | discriminate].
      - destruct segs; [discriminate Hlen' | discriminate]. }
    exists (Some d). split.
    + destruct d; [congruence | reflexivity].
    + split; [exact Hd|]. exists segs, s2.
      split; [reflexivity|]. split; [exact Hlen'|]. split; [exact Es|].
      unfold accepts. rewrite Hps. cbv zeta.
      destruct Hcases as [(-> & Hsok & Hsp) | (-> & Hbad)].
      * left. split; [reflexivity|]. rewrite Hsp, Hsok, Hnames. reflexivity.
      * right. split; [reflexivity|]. rewrite Hbad. reflexivity.
  - exists None. split; [reflexivity|].
    unfold accepts. rewrite Hps. cbv zeta. rewrite H. reflexivity.
Qed.

(** ** Everything below is relative to one well-formed loaded configuration *)

Section Loaded.
Variables (c : Conf) (Ld : Loaded).
Hypothesis Hload : load c = Some Ld.
Hypothesis Hwf : wf_loadedb Ld = true.

Local Notation tpls := (r_tpls (l_sid Ld)).
Local Notation r := (l_sid Ld).
Local Notation names t := (item_names (tp_items t)).

Lemma tpl_wf t : In t tpls -> wf_sid_tpl t = true.
Proof.
  intros Hin. destruct (wf_loaded_parts Ld Hwf) as (_ & Hall & _).
  rewrite forallb_forall in Hall. apply Hall. exact Hin.
Qed.

Lemma tpl_parts t : In t tpls ->
  Shape (tp_items t) /\ NoDup (names t) /\
  exists ps, phs (tp_items t) = Some ps /\ ps <> [] /\ map fst ps = names t.
Proof.
  intros Hin. pose proof (tpl_wf t Hin) as H.
  unfold wf_sid_tpl in H. apply andb_true_iff in H. destruct H as (H & Hok).
  apply andb_true_iff in H. destruct H as (Hshape & Hnd).
  apply sid_shape_Shape in Hshape. apply nodupb_NoDup in Hnd.
  destruct (compile_shape (tp_items t) Hshape Hnd Hok [])
    as (ps & Hps & Hc & Hne & Hnames & Hall).
  { intros n _ []. }
  split; [exact Hshape|]. split; [exact Hnd|]. exists ps. repeat split; assumption.
Qed.

Lemma names_ne t : In t tpls -> names t <> [].
Proof. intros Hin. destruct (tpl_parts t Hin) as (Hs & _). apply Shape_names_ne. exact Hs. Qed.

Lemma tpl_keys t : In t tpls -> tp_keys t = names t.
Proof.
  intros Hin. rewrite (load_keys c Ld Hload t Hin). unfold tkeys, uniq_first.
  destruct (tpl_parts t Hin) as (_ & Hnd & _).
  apply uniq_first_aux_nodup; [exact Hnd | intros x _ []].
Qed.

Lemma tpl_find t : In t tpls -> find_tpl r (tp_name t) = Some t.
Proof. apply (loaded_find c Ld Hload Hwf). Qed.

Lemma find_tpl_in n t : find_tpl r n = Some t -> In t tpls /\ tp_name t = n.
Proof.
  unfold find_tpl. intros Ef. apply find_some in Ef. destruct Ef as (Hin & E).
  apply String.eqb_eq in E. split; assumption.
Qed.

Lemma tpl_name_ok t : In t tpls ->
  tp_name t <> "" /\ mem_c ":" (tp_name t) = false /\ mem_c "?" (tp_name t) = false.
Proof.
  intros Hin. destruct (wf_ext_parts Ld Hwf) as (H & _).
  rewrite forallb_forall in H. specialize (H t Hin).
  apply andb_true_iff in H. destruct H as (H & _). unfold type_name_ok in H.
  apply andb_true_iff in H. destruct H as (H & H3).
  apply andb_true_iff in H. destruct H as (H1 & H2).
  repeat split.
  - destruct (tp_name t); [discriminate | discriminate].
  - destruct (mem_c ":" (tp_name t)); [discriminate | reflexivity].
  - destruct (mem_c "?" (tp_name t)); [discriminate | reflexivity].
Qed.

Lemma same_seq t1 t2 : In t1 tpls -> In t2 tpls ->
  incl (names t1) (names t2) -> incl (names t2) (names t1) -> names t1 = names t2.
Proof.
  intros H1 H2 Ha Hb. destruct (wf_ext_parts Ld Hwf) as (_ & H & _).
  unfold same_keys_same_seq in H. rewrite forallb_forall in H. specialize (H t1 H1).
  rewrite forallb_forall in H. specialize (H t2 H2).
  assert (Hk : keys_eq (names t1) (names t2) = true) by (apply keys_eq_iff; split; assumption).
  rewrite Hk in H. simpl in H. apply strs_eqb_eq. exact H.
Qed.

Lemma prefix_tpl t i : In t tpls -> i < List.length (names t) ->
  exists t', In t' tpls /\ tp_items t' = firstn (2 * i + 1) (tp_items t).
Proof.
  intros Hin Hi. destruct (wf_ext_parts Ld Hwf) as (_ & _ & H & _).
  unfold prefix_closed in H. rewrite forallb_forall in H. specialize (H t Hin).
  rewrite forallb_forall in H. specialize (H i).
  rewrite existsb_exists in H. destruct H as (t' & Hin' & E).
  - apply in_seq. lia.
  - exists t'. split; [exact Hin'|]. apply items_eqb_eq. exact E.
Qed.

Lemma search_symbols_nonempty sym : In sym (c_search_symbols (l_conf Ld)) -> sym <> "".
Proof.
  intros Hin. destruct (wf_ext_parts Ld Hwf) as (_ & _ & _ & H).
  rewrite forallb_forall in H. specialize (H sym Hin). destruct sym; [discriminate | discriminate].
Qed.

(** *** accepts / natural / forced *)

Lemma accepts_inv t s d : In t tpls -> accepts t s = Some d ->
  d = combine (names t) (split_c "/" s) /\
  List.length (split_c "/" s) = List.length (names t).
Proof.
  intros Hin Ha. destruct (tpl_parts t Hin) as (_ & _ & ps & Hps & _ & Hn).
  unfold accepts in Ha. rewrite Hps in Ha. cbv zeta in Ha.
  destruct (segs_ok ps (split_c "/" s)) eqn:E; [|discriminate].
  inversion Ha; subst. rewrite Hn. split; [reflexivity|].
  rewrite (segs_ok_length _ _ E), <- Hn, map_length. reflexivity.
Qed.

Lemma accepts_fields t s d : In t tpls -> accepts t s = Some d ->
  map fst d = names t /\ map snd d = split_c "/" s /\ d <> [] /\ s = join "/" (map snd d).
Proof.
  intros Hin Ha. destruct (accepts_inv t s d Hin Ha) as (-> & Hlen).
  symmetry in Hlen.
  rewrite (map_fst_combine _ _ Hlen), (map_snd_combine _ _ Hlen).
  repeat split.
  - pose proof (names_ne t Hin) as Hne.
    destruct (names t); [congruence|]. destruct (split_c "/" s); [discriminate Hlen | discriminate].
  - symmetry. apply (join_split_c "/" s).
Qed.

Lemma natural_in_inv s : forall l n d, natural_in l s = Some (n, d) ->
  exists pre t post, l = (pre ++ t :: post)%list /\ tp_name t = n /\ accepts t s = Some d /\
    (forall t', In t' pre -> accepts t' s = None).
Proof.
  induction l as [|t l IH]; intros n d H; simpl in H; [discriminate|].
  destruct (accepts t s) as [d0|] eqn:E.
  - inversion H; subst. exists [], t, l. repeat split; auto. intros t' [].
  - destruct (IH n d H) as (pre & t1 & post & -> & Hn & Ha & Hpre).
    exists (t :: pre), t1, post. repeat split; auto.
    intros t' [<-|Hin]; [exact E | apply Hpre; exact Hin].
Qed.

Lemma natural_inv s n d : natural Ld s = Some (n, d) ->
  s <> "" /\ exists pre t post, tpls = (pre ++ t :: post)%list /\ tp_name t = n /\
    accepts t s = Some d /\ (forall t', In t' pre -> accepts t' s = None).
Proof.
  unfold natural. destruct (sempty s) eqn:Es; [discriminate|]. intros H.
  split; [apply sempty_false; exact Es|]. apply natural_in_inv. exact H.
Qed.

Lemma forced_of_accepts t s d : In t tpls -> s <> "" -> accepts t s = Some d ->
  forced Ld (tp_name t) s = Some (tp_name t, d).
Proof.
  intros Hin Hs Ha. unfold forced. apply sempty_false in Hs. rewrite Hs.
  rewrite (tpl_find t Hin), Ha. reflexivity.
Qed.

Lemma forced_inv n s n' d : forced Ld n s = Some (n', d) ->
  n' = n /\ s <> "" /\ exists t, In t tpls /\ tp_name t = n /\ accepts t s = Some d.
Proof.
  unfold forced. destruct (sempty s) eqn:Es; [discriminate|].
  destruct (find_tpl r n) as [t|] eqn:Ef; [|discriminate].
  destruct (accepts t s) as [d0|] eqn:Ea; [|discriminate].
  intros H. inversion H; subst. split; [reflexivity|]. split; [apply sempty_false; exact Es|].
  destruct (find_tpl_in _ _ Ef) as (Hin & Hn). exists t. repeat split; assumption.
Qed.

Lemma first_seg_nonempty t s d : In t tpls -> accepts t s = Some d ->
  hd "" (split_c "/" s) <> "".
Proof.
  intros Hin Ha. destruct (wf_ext_parts Ld Hwf) as (H & _).
  rewrite forallb_forall in H. specialize (H t Hin).
  apply andb_true_iff in H. destruct H as (_ & H). unfold first_nonempty in H.
  unfold accepts in Ha.
  destruct (tp_items t) as [|[lit|n [e|]] rest]; try discriminate.
  cbn [phs ph_re] in Ha. destruct (parse_re e) as [re0|]; [|discriminate].
  destruct (phs rest) as [l|]; [|discriminate]. cbv zeta in Ha.
  destruct (split_c "/" s) as [|g segs]; [discriminate|].
  cbn [segs_ok] in Ha. unfold seg_ok in Ha. cbn [hd]. intros ->.
  destruct (match_full re0 ""); [discriminate H | discriminate Ha].
Qed.

(** *** resolve_tpl *)

Lemma tpl_spec2_all t s : In t tpls -> tpl_spec2 r t s.
Proof.
  intros Hin. destruct (wf_loaded_parts Ld Hwf) as (_ & _ & Hdup).
  apply tpl_spec2_holds; [exact Hdup | apply (load_compile c Ld Hload t Hin) | apply tpl_wf; exact Hin].
Qed.

Lemma resolve_tpl_total t s : In t tpls ->
  exists x, resolve_tpl r t s = Ok x /\ (match x with Some d => d <> [] | None => True end).
Proof.
  intros Hin. destruct (tpl_spec2_all t s Hin) as (x & Hx & H). exists x. split; [exact Hx|].
  destruct x; [destruct H as (H & _); exact H | exact I].
Qed.

Lemma resolve_tpl_nonl t s : In t tpls -> mem_c "010" s = false ->
  resolve_tpl r t s = Ok (accepts t s).
Proof.
  intros Hin Hnl. destruct (tpl_spec2_all t s Hin) as (x & Hx & H). rewrite Hx.
  destruct x as [d|]; [|rewrite H; reflexivity].
  destruct H as (_ & segs & s2 & _ & _ & Es & [(-> & Ha) | (-> & Ha)]).
  - rewrite Ha. reflexivity.
  - exfalso. rewrite Es, mem_nl_nl in Hnl. discriminate.
Qed.

(** *** format_tpl *)

Definition fmt_str (t : tpl) (dd : dict string) : string := join "/" (vals_for dd (names t)).

Lemma keys_eq_dget (dd : dict string) t : keys_eq (dkeys dd) (names t) = true ->
  forall n, In n (names t) -> dget dd n <> None.
Proof.
  intros Hk n Hn. apply keys_eq_iff in Hk. destruct Hk as (_ & Hk).
  apply dget_In_keys. apply Hk. exact Hn.
Qed.

Lemma format_tpl_cases t dd : In t tpls ->
  format_tpl r t dd = Ok None \/
  (keys_eq (dkeys dd) (names t) = true /\ format_tpl r t dd = Ok (Some (fmt_str t dd)) /\
   fmt_str t dd <> "").
Proof.
  intros Hin. unfold format_tpl. rewrite (tpl_keys t Hin).
  destruct (keys_eq (dkeys dd) (names t)) eqn:Hk; cbn [negb]; [|left; reflexivity].
  destruct (tpl_parts t Hin) as (Hsh & _).
  rewrite (fmt_vals _ dd Hsh (keys_eq_dget dd t Hk)). cbn [bind].
  fold (fmt_str t dd). unfold resolve_one.
  destruct (sempty (fmt_str t dd)) eqn:Es; [left; reflexivity|].
  rewrite (tpl_find t Hin).
  destruct (resolve_tpl_total t (fmt_str t dd) Hin) as (x & Hx & Hd). rewrite Hx. cbn [bind].
  destruct x as [d|]; [|left; reflexivity].
  destruct d; [congruence|]. right. split; [reflexivity|]. split; [reflexivity|].
  apply sempty_false. exact Es.
Qed.

Lemma format_tpl_nonl t dd : In t tpls ->
  keys_eq (dkeys dd) (names t) = true -> mem_c "010" (fmt_str t dd) = false ->
  fmt_str t dd <> "" ->
  format_tpl r t dd = Ok (match accepts t (fmt_str t dd) with
                         | Some _ => Some (fmt_str t dd) | None => None end).
Proof.
  intros Hin Hk Hnl Hne. unfold format_tpl. rewrite (tpl_keys t Hin), Hk. cbn [negb].
  destruct (tpl_parts t Hin) as (Hsh & _).
  rewrite (fmt_vals _ dd Hsh (keys_eq_dget dd t Hk)). cbn [bind].
  fold (fmt_str t dd). unfold resolve_one.
  apply sempty_false in Hne. rewrite Hne, (tpl_find t Hin).
  rewrite (resolve_tpl_nonl t _ Hin Hnl). cbn [bind].
  destruct (accepts t (fmt_str t dd)) as [d|] eqn:Ea; [|reflexivity].
  destruct (accepts_fields t _ d Hin Ea) as (_ & _ & Hd & _).
  destruct d; [congruence | reflexivity].
Qed.

Lemma format_tpl_keys_false t dd : In t tpls ->
  keys_eq (dkeys dd) (names t) = false -> format_tpl r t dd = Ok None.
Proof.
  intros Hin Hk. unfold format_tpl. rewrite (tpl_keys t Hin), Hk. reflexivity.
Qed.

(* a hit of format_tpl that the specification accepts: the accepted fields are the data, reordered *)
Lemma format_hit_fields t dd f d0 : In t tpls ->
  format_tpl r t dd = Ok (Some f) -> accepts t f = Some d0 ->
  keys_eq (dkeys dd) (names t) = true /\ f = fmt_str t dd /\
  d0 = combine (names t) (vals_for dd (names t)).
Proof.
  intros Hin Hf Ha. destruct (format_tpl_cases t dd Hin) as [H | (Hk & H & Hne)];
    rewrite H in Hf; [discriminate|]. inversion Hf; subst f.
  split; [exact Hk|]. split; [reflexivity|].
  destruct (accepts_inv t _ d0 Hin Ha) as (-> & Hlen). f_equal.
  unfold fmt_str in *. apply (split_join_len "/").
  - rewrite vals_for_length. exact Hlen.
  - pose proof (names_ne t Hin) as Hn. destruct (names t); [congruence | discriminate].
Qed.

(** *** format_all, dict_to_types, rdict_to_sid, sid_of_fields *)

Definition fhit (dd : dict string) (t : tpl) : list (string * string) :=
  match format_tpl r t dd with Ok (Some f) => [(tp_name t, f)] | _ => [] end.

Lemma format_all_flat dd : forall l, incl l tpls ->
  format_all_in r l dd = Ok (flat_map (fhit dd) l).
Proof.
  induction l as [|t l IH]; intros Hincl; [reflexivity|].
  assert (Hin : In t tpls) by (apply Hincl; left; reflexivity).
  cbn [format_all_in flat_map]. rewrite IH by (intros x Hx; apply Hincl; right; exact Hx).
  destruct (format_tpl_cases t dd Hin) as [H | (_ & H & _)]; unfold fhit; rewrite H; reflexivity.
Qed.

Lemma dict_to_types_eq dd : dd <> [] ->
  dict_to_types Ld dd = Ok (map fst (flat_map (fhit dd) tpls)).
Proof.
  intros Hd. unfold dict_to_types, format_all. destruct dd; [congruence|].
  rewrite (format_all_flat _ tpls (incl_refl _)). reflexivity.
Qed.

Lemma fhit_in dd n f : In (n, f) (flat_map (fhit dd) tpls) ->
  exists t, In t tpls /\ tp_name t = n /\ format_tpl r t dd = Ok (Some f).
Proof.
  intros H. apply in_flat_map in H. destruct H as (t & Hin & H). exists t.
  unfold fhit in H. destruct (format_tpl r t dd) as [[g|]|]; try destruct H.
  - inversion H; subst. repeat split; auto.
  - destruct H.
Qed.

Lemma types_in dd n : In n (map fst (flat_map (fhit dd) tpls)) ->
  exists t f, In t tpls /\ tp_name t = n /\ format_tpl r t dd = Ok (Some f).
Proof.
  intros H. apply in_map_iff in H. destruct H as ([n' f] & E & H). simpl in E. subst n'.
  destruct (fhit_in dd n f H) as (t & H1 & H2 & H3). exists t, f. auto.
Qed.

Lemma flat_map_first {A B} (g : A -> list B) pre t post y :
  (forall t', In t' pre -> g t' = []) -> g t = [y] ->
  flat_map g (pre ++ t :: post) = y :: flat_map g post.
Proof.
  intros Hpre Ht. induction pre as [|a pre IH]; simpl.
  - rewrite Ht. reflexivity.
  - rewrite (Hpre a) by (left; reflexivity). simpl. apply IH.
    intros t' Hin. apply Hpre. right. exact Hin.
Qed.

Lemma flat_map_nil_inv {A B} (g : A -> list B) l : flat_map g l = [] -> forall t, In t l -> g t = [].
Proof.
  induction l as [|a l IH]; simpl; intros H t Hin; [destruct Hin|].
  apply app_eq_nil in H. destruct H as (H1 & H2). destruct Hin as [<-|Hin]; auto.
Qed.

Lemma rdict_hit t dd f : In t tpls -> dd <> [] -> format_tpl r t dd = Ok (Some f) ->
  rdict_to_sid Ld dd (tp_name t) = Ok f.
Proof.
  intros Hin Hd Hf. unfold rdict_to_sid, format_one. destruct dd; [congruence|].
  rewrite (tpl_find t Hin), Hf. reflexivity.
Qed.

Lemma sid_to_dict_typed t f : In t tpls ->
  sid_to_dict Ld f (tp_name t) = Ok (forced Ld (tp_name t) f).
Proof.
  intros Hin. apply (sid_to_dict_forced c Ld f (tp_name t) Hload Hwf).
  apply (tpl_name_ok t Hin).
Qed.

Definition of_forced (f n : string) : sid :=
  match forced Ld n f with Some (_, d0) => mkSid f n d0 | None => empty_sid end.

Lemma sid_of_fields_eq dd : dd <> [] ->
  sid_of_fields Ld dd = Ok (match flat_map (fhit dd) tpls with
                            | [] => empty_sid
                            | (n, f) :: _ => of_forced f n
                            end).
Proof.
  intros Hd. unfold sid_of_fields. rewrite (dict_to_types_eq dd Hd). cbn [bind].
  destruct (flat_map (fhit dd) tpls) as [|[n f] rest] eqn:E; [reflexivity|].
  cbn [map fst].
  destruct (fhit_in dd n f) as (t & Hin & Hn & Hf). { rewrite E. left. reflexivity. }
  subst n. rewrite (rdict_hit t dd f Hin Hd Hf). cbn [bind].
  rewrite (sid_to_dict_typed t f Hin). cbn [bind]. unfold of_forced.
  destruct (forced Ld (tp_name t) f) as [[n' d0]|]; reflexivity.
Qed.

Lemma sid_of_fields_first dd pre t post f : dd <> [] ->
  tpls = (pre ++ t :: post)%list ->
  (forall t', In t' pre -> format_tpl r t' dd = Ok None) ->
  format_tpl r t dd = Ok (Some f) ->
  sid_of_fields Ld dd = Ok (of_forced f (tp_name t)).
Proof.
  intros Hd E Hpre Hf. rewrite (sid_of_fields_eq dd Hd). rewrite E.
  rewrite (flat_map_first (fhit dd) pre t post (tp_name t, f)).
  - reflexivity.
  - intros t' Hin. unfold fhit. rewrite (Hpre t' Hin). reflexivity.
  - unfold fhit. rewrite Hf. reflexivity.
Qed.

End Loaded.
