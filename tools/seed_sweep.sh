#!/bin/bash
# seed_sweep.sh [dir-glob] : every kept seeded change against the check of the property it was aimed at (and the checks named in
# seeded/<id>/also.txt, if any); one line per change in notes/seed_sweep_results.txt.  Touches /repo (apply / revert): run nothing else meanwhile.
cd "$(dirname "$0")/.."
OUT=notes/seed_sweep_results.txt
: > $OUT
for d in seeded/${1:-*}; do
  id=$(basename $d)
  prop=${id%%-*}
  props="$prop $(cat $d/also.txt 2>/dev/null)"
  res=$(tools/seed_run.sh /verif/$d/patch.diff $props 2>&1 | tr '\n' ' ')
  echo "$id | $res" >> $OUT
done
git -C /repo status --short >> $OUT
echo DONE >> $OUT
