(** C06 — a path resolves only to the Sid that owns it, and never makes Sid() fail.  Property theorems only. *)
From Coq Require Import List String Ascii Bool Arith.
From Spil Require Import Base.Str Base.Dict Base.Outcome Base.PyPath Resolva.Resolver Conf.Conf Conf.Routing Conf.WF Sid.Sid
  Search.Unfold Search.Finders FS.Fs Data.Data Data.Crash Path.PathProofs Data.DataProofs Data.CrashProofs
  Path.UnambiguousDefs Path.TotalDefs Path.TotalProofs.
From SpilGen Require Hamlet.
Import ListNotations.
Local Open Scope string_scope.

(* whenever Sid(path=p, config=c) is typed, that Sid's path(c) is p (as a pathlib path: normalised) *)
Theorem C06_owner : forall c Ld p cfg x, load c = Some Ld -> wf_loadedb Ld = true ->
  sid_of_path Ld p cfg = Ok x -> sid_bool x = true -> sid_path Ld x cfg = Ok (Some (norm_path p)).
Proof. exact path_owner. Qed.
Print Assumptions C06_owner.

(* otherwise it is the empty (False) Sid *)
Theorem C06_untyped_is_empty : forall c Ld p cfg x, load c = Some Ld -> wf_loadedb Ld = true ->
  sid_of_path Ld p cfg = Ok x -> sid_bool x = false -> x = empty_sid.
Proof. exact path_untyped_is_empty. Qed.
Print Assumptions C06_untyped_is_empty.

(* for every path string and every configured path configuration: a Sid, or ResolvaException... *)
Theorem C06_total_partial : forall c Ld, load c = Some Ld -> wf_loadedb Ld = true ->
  forall p cfg, (exists pc, get_path_config Ld cfg = Ok pc) ->
  (exists x, sid_of_path Ld p cfg = Ok x) \/ sid_of_path Ld p cfg = Raise ResolvaException.
Proof. exact path_total. Qed.
Print Assumptions C06_total_partial.

(* ...and that exception can only come from the reverse check of the path the resolved fields format to
   (the resolver's own exception on desynchronised fields is caught: the repaired D5); it is excluded when the path
   templates are unambiguous in the sense that format_one's reverse check never sees differing duplicates *)
Theorem C06_total : forall c Ld, load c = Some Ld -> wf_loadedb Ld = true ->
  forall p cfg pc, get_path_config Ld cfg = Ok pc ->
  (forall d t, format_one (lp_resolver pc) d t <> Raise ResolvaException) ->
  exists x, sid_of_path Ld p cfg = Ok x.
Proof. exact path_total_ok. Qed.
Print Assumptions C06_total.

(* "never raises", in full: for every configuration passing the decidable checks paths_unambiguousb and paths_totalb
   (templates with a duplicated placeholder end in a literal / open placeholder / newline-free alternative and are closed
   under the mapping round trip; template names distinct) and EVERY string p (no guard: newlines, any characters, any length) *)
Theorem C06_never_raises : forall c Ld p cfg pc, load c = Some Ld -> wf_loadedb Ld = true ->
  paths_unambiguousb Ld = true -> paths_totalb Ld = true -> get_path_config Ld cfg = Ok pc ->
  exists x, sid_of_path Ld p cfg = Ok x.
Proof. exact path_never_raises. Qed.
Print Assumptions C06_never_raises.

(* through the factory: Sid(path=p, config=cfg) *)
Theorem C06_factory_never_raises : forall c Ld p cfg pc, load c = Some Ld -> wf_loadedb Ld = true ->
  paths_unambiguousb Ld = true -> paths_totalb Ld = true -> get_path_config Ld cfg = Ok pc ->
  exists x, sid_factory Ld (FromPath p cfg) = Ok x.
Proof. exact factory_path_never_raises. Qed.
Print Assumptions C06_factory_never_raises.

(* the extra clause is needed: without it the statement is false (counterexample configurations inside the proof) *)
Theorem C06_clause_needed :
  ~ (forall (c : Conf) (Ld : Loaded) p cfg pc,
       load c = Some Ld -> wf_loadedb Ld = true -> paths_unambiguousb Ld = true ->
       get_path_config Ld cfg = Ok pc -> exists x, sid_of_path Ld p cfg = Ok x).
Proof. exact path_never_raises_without_clause_false. Qed.
Print Assumptions C06_clause_needed.

(* the configuration of this run passes both checks: on it Sid(path=p) never raises, for every p *)
Example C06_checks_hold : paths_unambiguousb Hamlet.the_loaded = true /\ paths_totalb Hamlet.the_loaded = true.
Proof. vm_compute. auto. Qed.
Print Assumptions C06_checks_hold.

Theorem C06_never_raises_here : forall p cfg pc, get_path_config Hamlet.the_loaded cfg = Ok pc ->
  exists x, sid_of_path Hamlet.the_loaded p cfg = Ok x.
Proof.
  intros p cfg pc. destruct C06_checks_hold as [Hu Ht].
  exact (path_never_raises Hamlet.the_conf Hamlet.the_loaded p cfg pc Hamlet.the_loaded_eq Hamlet.conf_wf Hu Ht).
Qed.
Print Assumptions C06_never_raises_here.

(* instance: a path with desynchronised duplicate fields resolves to the empty Sid on today's configuration *)
Example C06_desync_instance :
  let root := match c_path_confs Hamlet.the_conf with pc :: _ => fst (split1_c "{" (match pc_templates pc with (_, t) :: _ => t | [] => "" end)) | [] => "" end in
  sid_of_path Hamlet.the_loaded (root ++ "HAMLET/PROD/ASSETS/char/ophelia/model/v001/char_ophelib_model_WORK_v001.ma") "" = Ok empty_sid.
Proof. vm_compute. reflexivity. Qed.
Print Assumptions C06_desync_instance.
