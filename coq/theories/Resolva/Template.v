(** Model of resolva/template.py (third-party, in site-packages): template parsing, regex
    construction, format specification, keys. Fail-closed: [parse_template] returns [None]
    for anything outside the fragment described in DESIGN.md 4.3. *)
From Coq Require Import List String Ascii Bool Arith.
From Spil Require Import Base.Str Base.Dict Base.Outcome Regex.Re.
Import ListNotations.
Local Open Scope string_scope.

Inductive item :=
| Lit (text : string)
| Ph (name : string) (expr : option string).

Definition name_ok (n : string) : bool :=
  match n with
  | "" => false
  | String a _ => negb (is_digit a) && all_c is_alnum_ n
  end.

(* read up to the first ':' or '}' *)
Fixpoint read_name (s : string) : string * string :=
  match s with
  | "" => ("", "")
  | String a s' =>
      if Ascii.eqb a ":" || Ascii.eqb a "}" then ("", s)
      else let (n, r) := read_name s' in (String a n, r)
  end.
Fixpoint read_to_close (s : string) : string * string :=
  match s with
  | "" => ("", "")
  | String a s' =>
      if Ascii.eqb a "}" then ("", s)
      else let (n, r) := read_to_close s' in (String a n, r)
  end.

Definition add_lit (a : ascii) (items : list item) : list item :=
  match items with
  | Lit t :: rest => Lit (String a t) :: rest
  | _ => Lit (str1 a) :: items
  end.

(* [fuel] = length of the string *)
Fixpoint parse_items (fuel : nat) (s : string) : option (list item) :=
  match fuel with
  | O => match s with "" => Some [] | _ => None end
  | S f =>
      match s with
      | "" => Some []
      | String "{" s' =>
          let (name, r) := read_name s' in
          if negb (name_ok name) then None else
          match r with
          | String "}" r' =>
              match parse_items f r' with Some l => Some (Ph name None :: l) | None => None end
          | String ":" r' =>
              let (e, r'') := read_to_close r' in
              if sempty e || mem_c "{" e then None else
              match r'' with
              | String "}" r3 =>
                  match parse_items f r3 with Some l => Some (Ph name (Some e) :: l) | None => None end
              | _ => None
              end
          | _ => None
          end
      | String "}" _ => None
      | String a s' =>
          match parse_items f s' with Some l => Some (add_lit a l) | None => None end
      end
  end.

Definition parse_template (s : string) : option (list item) := parse_items (String.length s) s.

Definition digit_of (n : nat) : ascii := ascii_of_nat (48 + n).
Definition pad3 (n : nat) : string :=
  String (digit_of ((n / 100) mod 10)) (String (digit_of ((n / 10) mod 10)) (String (digit_of (n mod 10)) "")).

Definition default_expr : re := Star CNotSlash.

(* literal template text is regex text (resolva does not escape it) *)
Fixpoint parse_lit (fuel : nat) (s : string) : option (list re) :=
  match fuel with
  | O => match s with "" => Some [] | _ => None end
  | S f =>
      match s with
      | "" => Some []
      | _ => match parse_atom s with
             | Some (r, s') => match parse_lit f s' with Some l => Some (r :: l) | None => None end
             | None => None
             end
      end
  end.

Definition count_name (n : string) (seen : list string) : nat :=
  List.length (filter (String.eqb n) seen).

(* construct_regular_expression: body between "^" and "$" *)
Fixpoint compile_items (items : list item) (seen : list string) : option (list re) :=
  match items with
  | [] => Some []
  | Lit t :: rest =>
      match parse_lit (String.length t) t, compile_items rest seen with
      | Some l, Some r => Some (l ++ r)%list
      | _, _ => None
      end
  | Ph n e :: rest =>
      let cnt := S (count_name n seen) in
      if Nat.leb 1000 cnt then None else
      let body := match e with
                  | None => Some default_expr
                  | Some e => parse_re e
                  end in
      match body, compile_items rest (n :: seen) with
      | Some b, Some r => Some (Grp (n ++ pad3 cnt) b :: r)
      | _, _ => None
      end
  end.

Definition compile (items : list item) : option re :=
  match compile_items items [] with Some l => Some (seq_of l) | None => None end.

Definition item_names (items : list item) : list string :=
  flat_map (fun i => match i with Ph n _ => [n] | Lit _ => [] end) items.

(* get_keys as a set: distinct names, first-occurrence order *)
Definition tkeys (items : list item) : list string := uniq_first (item_names items).

(* format_spec.format( **data ) *)
Fixpoint fmt (items : list item) (d : dict string) : outcome string :=
  match items with
  | [] => Ok ""
  | Lit t :: rest => do r <- fmt rest d; Ok (t ++ r)
  | Ph n _ :: rest =>
      match dget d n with
      | Some v => do r <- fmt rest d; Ok (v ++ r)
      | None => Raise KeyError
      end
  end.

(* the format specification string itself: placeholders without their expression *)
Fixpoint fmt_spec (items : list item) : string :=
  match items with
  | [] => ""
  | Lit t :: rest => t ++ fmt_spec rest
  | Ph n _ :: rest => "{" ++ n ++ "}" ++ fmt_spec rest
  end.
