(** D. C04: queries are all-or-nothing ([apply_query], [get_with_kw]). *)
From Coq Require Import List String Ascii Bool Arith Lia Permutation.
From Spil Require Import Base.Str Base.Dict Base.Outcome Base.Tree Base.StrProofs Base.SplitProofs
  Regex.Re Regex.MatchProofs Resolva.Template Resolva.Resolver Conf.ConfUtil Conf.Conf Conf.WF
  Sid.Query Sid.Sid Sid.TypingSpec Sid.TypingProofs Sid.SidLemmas Sid.SidProofs Sid.QueryStringProofs.
Import ListNotations.
Local Open Scope string_scope.

(* the local function [finish] of [apply_query] *)
Definition finish (Ld : Loaded) (s query ty : string) (fields new_data : dict string) (t : string)
  : outcome (string * string * dict string) :=
  do ns <- rdict_to_sid Ld new_data t;
  if sempty ns then Raise SpilException else
  do back <- sid_to_dict Ld ns t;
  match back with
  | Some (_, ordered) => Ok (ns, t, ordered)
  | None => Ok (s ++ "?" ++ query, ty, fields)
  end.

Lemma apply_query_unfold Ld s q ty fields :
  apply_query Ld s q ty fields =
  if sempty ty && negb (match fields with [] => true | _ => false end) then Raise SpilException else
  if sempty q then Ok (s, ty, fields) else
  do new_data <- update fields q;
  do new_types <- dict_to_types Ld new_data;
  match new_types with
  | [] => Ok (s ++ "?" ++ q, ty, fields)
  | [t] => finish Ld s q ty fields new_data t
  | t0 :: _ =>
      if in_list ty new_types then finish Ld s q ty fields new_data ty
      else if is_search_str Ld (s ++ "?" ++ q) then finish Ld s q ty fields new_data t0
      else Ok (s ++ "?" ++ q, ty, fields)
  end.
Proof. reflexivity. Qed.

Lemma fold_dset_nodup {A} (F : dict string -> A -> dict string) :
  (forall acc a, NoDup (map fst acc) -> NoDup (map fst (F acc a))) ->
  forall l acc, NoDup (map fst acc) -> NoDup (map fst (fold_left F l acc)).
Proof.
  intros HF. induction l as [|a l IH]; intros acc H; simpl; [exact H|]. apply IH. apply HF. exact H.
Qed.

Lemma update_nodup d q ov : NoDup (map fst d) -> update d q = Ok ov -> NoDup (map fst ov).
Proof.
  intros Hnd. unfold update. destruct (to_dict q) as [nd|e]; [|discriminate]. cbn [bind].
  intros H. injection H as H. rewrite <- H. apply fold_dset_nodup; [|exact Hnd].
  intros acc kv Hacc. cbv beta.
  match goal with |- NoDup (map fst (if ?b then _ else _)) => destruct b end; [|exact Hacc].
  apply dset_nodup. exact Hacc.
Qed.

Lemma ordered_dget (dd : dict string) nm : keys_eq (dkeys dd) nm = true ->
  forall k, dget (combine nm (vals_for dd nm)) k = dget dd k.
Proof.
  intros Hk k. apply keys_eq_iff in Hk. destruct Hk as (Hk1 & Hk2).
  rewrite dget_combine_vals. destruct (in_list k nm) eqn:E.
  - apply in_list_In in E. apply Hk2 in E. apply dget_In_keys in E.
    destruct (dget dd k); [reflexivity | congruence].
  - apply in_list_false in E. symmetry. apply dget_None_keys. intros H. apply E. apply Hk1. exact H.
Qed.

Lemma ordered_length (dd : dict string) nm : keys_eq (dkeys dd) nm = true ->
  NoDup (map fst dd) -> NoDup nm ->
  List.length (combine nm (vals_for dd nm)) = List.length dd.
Proof.
  intros Hk H1 H2. apply keys_eq_iff in Hk. destruct Hk as (Hk1 & Hk2). unfold dkeys in *.
  rewrite combine_length, vals_for_length, Nat.min_id.
  pose proof (NoDup_incl_length H1 Hk1) as L1. pose proof (NoDup_incl_length H2 Hk2) as L2.
  rewrite map_length in *. lia.
Qed.

Lemma existsb_false {A} (f : A -> bool) l : (forall x, In x l -> f x = false) -> existsb f l = false.
Proof.
  induction l as [|a l IH]; intros H; [reflexivity|]. simpl.
  rewrite (H a) by (left; reflexivity). apply IH. intros x Hx. apply H. right. exact Hx.
Qed.

Section QueryProofs.
Variables (c : Conf) (Ld : Loaded).
Hypothesis Hload : load c = Some Ld.
Hypothesis Hwf : wf_loadedb Ld = true.

Local Notation tpls := (r_tpls (l_sid Ld)).
Local Notation r := (l_sid Ld).
Local Notation names t := (item_names (tp_items t)).

Lemma finish_eq s q ty fields (dd : dict string) tt : dd <> [] ->
  In tt (map fst (flat_map (fhit Ld dd) tpls)) ->
  exists t1 f, In t1 tpls /\ tp_name t1 = tt /\ format_tpl r t1 dd = Ok (Some f) /\
    finish Ld s q ty fields dd tt =
    Ok (match forced Ld tt f with
        | Some (_, o) => (f, tt, o)
        | None => (s ++ "?" ++ q, ty, fields)
        end).
Proof.
  intros Hdd Hin. destruct (types_in Ld dd tt Hin) as (t1 & f & Hin1 & Hn & Hf).
  exists t1, f. repeat split; auto. subst tt.
  unfold finish. rewrite (rdict_hit c Ld Hload Hwf t1 dd f Hin1 Hdd Hf). cbn [bind].
  assert (Hne : sempty f = false).
  { destruct (format_tpl_cases c Ld Hload Hwf t1 dd Hin1) as [H | (_ & H & Hne)];
      rewrite H in Hf; [discriminate|]. inversion Hf; subst. apply sempty_false. exact Hne. }
  rewrite Hne, (sid_to_dict_typed c Ld Hload Hwf t1 f Hin1). cbn [bind].
  destruct (forced Ld (tp_name t1) f) as [[n' o]|]; reflexivity.
Qed.

Lemma forced_hit t1 (dd : dict string) f n' o : In t1 tpls ->
  format_tpl r t1 dd = Ok (Some f) -> forced Ld (tp_name t1) f = Some (n', o) ->
  n' = tp_name t1 /\ o <> [] /\ keys_eq (dkeys dd) (names t1) = true /\
  o = combine (names t1) (vals_for dd (names t1)).
Proof.
  intros Hin1 Hf Hfo. destruct (forced_inv Ld _ _ _ _ Hfo) as (-> & Hne & t & Hin & Hn & Ha).
  assert (t = t1).
  { pose proof (tpl_find c Ld Hload Hwf t Hin) as F1. pose proof (tpl_find c Ld Hload Hwf t1 Hin1) as F2.
    rewrite Hn in F1. congruence. }
  subst t. destruct (format_hit_fields c Ld Hload Hwf t1 dd f o Hin1 Hf Ha) as (Hk & _ & Ho).
  destruct (accepts_fields Ld Hwf t1 f o Hin1 Ha) as (_ & _ & Hne' & _).
  repeat split; assumption.
Qed.

Lemma dict_to_types_nil : dict_to_types Ld [] = Ok [].
Proof. reflexivity. Qed.

(** D1: the [Raise SpilException] branches are unreachable; only [to_dict] (inside [update]) can fail *)
Theorem apply_query_never_raises s q t d ov :
  (t = "" -> d = []) -> update d q = Ok ov -> exists res, apply_query Ld s q t d = Ok res.
Proof.
  intros Hg Hu. rewrite apply_query_unfold.
  assert (G : sempty t && negb (match d with [] => true | _ => false end) = false).
  { destruct (sempty t) eqn:E; [|reflexivity]. destruct t; [|discriminate].
    rewrite (Hg eq_refl). reflexivity. }
  rewrite G. destruct (sempty q); [eexists; reflexivity|].
  rewrite Hu. cbn [bind].
  destruct ov as [|p ov'] eqn:Eov; [rewrite dict_to_types_nil; eexists; reflexivity|]. rewrite <- Eov.
  assert (Hdd : ov <> []) by (rewrite Eov; discriminate).
  rewrite (dict_to_types_eq c Ld Hload Hwf ov Hdd). cbn [bind].
  set (types := map fst (flat_map (fhit Ld ov) tpls)).
  assert (Hfin : forall tt, In tt types -> exists res, finish Ld s q t d ov tt = Ok res).
  { intros tt Hin. destruct (finish_eq s q t d ov tt Hdd Hin) as (t1 & f & _ & _ & _ & E).
    rewrite E. eexists. reflexivity. }
  destruct types as [|t0 [|t1 l]] eqn:Et.
  - eexists. reflexivity.
  - apply Hfin. left. reflexivity.
  - destruct (in_list t (t0 :: t1 :: l)) eqn:Ei.
    + apply Hfin. apply in_list_In. exact Ei.
    + destruct (is_search_str Ld (s ++ "?" ++ q)); [|eexists; reflexivity].
      apply Hfin. left. reflexivity.
Qed.

(** D2: all-or-nothing.  Deviation from the brief: [NoDup (map fst d)] is required (the fields of a
    Sid always have distinct keys); it is only used for the clause on lengths. *)
Theorem apply_query_all_or_nothing s q t d s' t' d' :
  NoDup (map fst d) ->
  apply_query Ld s q t d = Ok (s', t', d') -> q <> "" ->
  (s' = s ++ "?" ++ q /\ t' = t /\ d' = d)
  \/ (exists ov, update d q = Ok ov /\ (forall k, dget d' k = dget ov k) /\
                 List.length d' = List.length ov /\
                 forced Ld t' s' = Some (t', d')).
Proof.
  intros Hnd H Hq. rewrite apply_query_unfold in H.
  destruct (sempty t && negb (match d with [] => true | _ => false end)); [discriminate|].
  apply sempty_false in Hq. rewrite Hq in H.
  destruct (update d q) as [ov|e] eqn:Hu; [|discriminate]. cbn [bind] in H.
  destruct ov as [|p ov'] eqn:Eov.
  { rewrite dict_to_types_nil in H. cbn [bind] in H. inversion H. left. auto. }
  rewrite <- Eov in *.
  assert (Hdd : ov <> []) by (rewrite Eov; discriminate).
  rewrite (dict_to_types_eq c Ld Hload Hwf ov Hdd) in H. cbn [bind] in H.
  set (types := map fst (flat_map (fhit Ld ov) tpls)) in *.
  assert (Hfin : forall tt, In tt types -> finish Ld s q t d ov tt = Ok (s', t', d') ->
            (s' = s ++ "?" ++ q /\ t' = t /\ d' = d)
            \/ (exists ov0, Ok ov = Ok ov0 /\ (forall k, dget d' k = dget ov0 k) /\
                 List.length d' = List.length ov0 /\ forced Ld t' s' = Some (t', d'))).
  { intros tt Hin Hf. destruct (finish_eq s q t d ov tt Hdd Hin) as (t1 & f & Hin1 & Hn & Hfmt & E).
    rewrite E in Hf. clear E. subst tt.
    destruct (forced Ld (tp_name t1) f) as [[n' o]|] eqn:Efo.
    - right. inversion Hf; subst s' t' d'. clear Hf.
      destruct (forced_hit t1 ov f n' o Hin1 Hfmt Efo) as (-> & _ & Hk & Ho).
      exists ov. split; [reflexivity|]. split; [|split].
      + intros k. rewrite Ho. apply ordered_dget. exact Hk.
      + rewrite Ho. apply ordered_length; [exact Hk | apply (update_nodup d q ov Hnd Hu)|].
        apply (tpl_parts Ld Hwf t1 Hin1).
      + exact Efo.
    - left. inversion Hf. auto. }
  destruct types as [|t0 [|t1 l]] eqn:Et.
  - inversion H. left. auto.
  - apply (Hfin t0); [left; reflexivity | exact H].
  - destruct (in_list t (t0 :: t1 :: l)) eqn:Ei.
    + apply (Hfin t); [apply in_list_In; exact Ei | exact H].
    + destruct (is_search_str Ld (s ++ "?" ++ q)).
      * apply (Hfin t0); [left; reflexivity | exact H].
      * inversion H. left. auto.
Qed.

Lemma is_search_empty : is_search Ld empty_sid = false.
Proof.
  unfold is_search, is_search_str. cbn [s_string empty_sid]. apply existsb_false.
  intros sym Hin. pose proof (search_symbols_nonempty Ld Hwf sym Hin) as Hne.
  destruct sym; [congruence | reflexivity].
Qed.

(** D3: the guard of the brief ([s_fields x <> []] or [s_string x = ""]) is not needed. *)
Theorem get_with_kw_exact x kw y : get_with_kw Ld x kw = Ok y ->
  y = empty_sid \/
  (sid_bool y = true /\
   (forall k, dget (s_fields y) k = dget (apply_kwargs (s_fields x) kw) k) /\
   forced Ld (s_type y) (s_string y) = Some (s_type y, s_fields y)).
Proof.
  unfold get_with_kw. destruct (truthy (s_string x) && negb (sid_bool x)).
  { intros H. inversion H. left. reflexivity. }
  set (data := apply_kwargs (s_fields x) kw).
  assert (Hns : exists ns, sid_factory Ld (FromFields data) = Ok ns /\
            (ns = empty_sid \/
             (sid_bool ns = true /\ (forall k, dget (s_fields ns) k = dget data k) /\
              forced Ld (s_type ns) (s_string ns) = Some (s_type ns, s_fields ns)))).
  { unfold sid_factory. destruct data as [|p data'] eqn:Ed; [exists empty_sid; auto|]. rewrite <- Ed.
    assert (Hdd : data <> []) by (rewrite Ed; discriminate).
    rewrite (sid_of_fields_eq c Ld Hload Hwf data Hdd). eexists. split; [reflexivity|].
    destruct (flat_map (fhit Ld data) tpls) as [|[n f] rest] eqn:E; [left; reflexivity|].
    destruct (fhit_in Ld data n f) as (t1 & Hin1 & Hn & Hf). { rewrite E. left. reflexivity. }
    subst n. unfold of_forced.
    destruct (forced Ld (tp_name t1) f) as [[n' o]|] eqn:Efo; [|left; reflexivity].
    right. destruct (forced_hit t1 data f n' o Hin1 Hf Efo) as (-> & Hne & Hk & Ho).
    cbn [s_fields s_type s_string]. split; [|split].
    - unfold sid_bool. cbn [s_fields]. destruct o; [congruence | reflexivity].
    - intros k. rewrite Ho. apply ordered_dget. exact Hk.
    - exact Efo. }
  destruct Hns as (ns & Hns & Hcases). rewrite Hns. cbn [bind].
  destruct Hcases as [-> | (Hb & Hrest)].
  - rewrite is_search_empty. cbn [andb]. intros H. inversion H. left. reflexivity.
  - rewrite Hb. cbn [negb]. rewrite andb_false_r. intros H. inversion H; subst y.
    right. split; [exact Hb | exact Hrest].
Qed.

(** * B5 (second half): the factory on the query form of a naturally typed Sid *)

Lemma startswith_nomem a s : mem_c a s = false -> startswith (str1 a) s = false.
Proof.
  destruct s as [|b s]; [reflexivity|]. cbn [mem_c str1 startswith]. intros H.
  apply orb_false_iff in H. destruct H as (H & _). rewrite Ascii.eqb_sym, H. reflexivity.
Qed.

Lemma update_fold : forall (l acc : dict string), query_safe l ->
  NoDup (map fst acc ++ map fst l) ->
  fold_left
    (fun d kv =>
       let key := fst kv in
       let value := snd kv in
       let optional := startswith option_prefix value in
       let value' := if optional then replace option_prefix "" value else value in
       if dmem d key || negb optional then dset d key value' else d) l acc = (acc ++ l)%list.
Proof.
  induction l as [|[k v] l IH]; intros acc Hs H.
  - rewrite app_nil_r. reflexivity.
  - inversion Hs as [|? ? (Hk & Hv) Hs']; subst. cbn [fst snd] in *.
    cbn [fold_left fst snd]. cbv zeta.
    assert (Ho : startswith option_prefix v = false).
    { apply (startswith_nomem "~"). apply q_safe_mem; auto. }
    rewrite Ho. cbn [negb]. rewrite orb_true_r.
    cbn [map fst] in H.
    assert (Hk' : ~ In k (map fst acc)).
    { apply NoDup_remove_2 in H. intros Hin. apply H. apply in_or_app. left. exact Hin. }
    rewrite (dset_new acc k v Hk'). rewrite IH.
    + rewrite <- app_assoc. reflexivity.
    + exact Hs'.
    + rewrite map_app. cbn [map fst]. rewrite <- app_assoc. exact H.
Qed.

Lemma update_to_string d : query_safe d -> NoDup (map fst d) -> update [] (to_string d) = Ok d.
Proof.
  intros Hs Hnd. unfold update. rewrite (to_dict_to_string d Hs Hnd). cbn [bind].
  f_equal. apply (update_fold d [] Hs Hnd).
Qed.

Lemma to_string_ne d : query_safe d -> d <> [] -> sempty (to_string d) = false.
Proof.
  intros Hs Hne. rewrite (to_string_enc d Hs).
  destruct (qs_first d Hs Hne) as (a & rest & E & _). rewrite E. reflexivity.
Qed.

Lemma sid_of_string_query q : sempty q = false ->
  sid_of_string Ld ("?" ++ q) =
  (do '(s', t', f') <- apply_query Ld "" q "" []; Ok (mkSid s' t' f')).
Proof.
  intros Hq. unfold sid_of_string.
  change (split1_c "?" ("?" ++ q)) with ("", Some q). cbv beta iota zeta.
  change (split1_c ":" "") with ("", @None string). cbv beta iota zeta.
  rewrite (sid_to_dict_natural c Ld "" Hload Hwf).
  change (natural Ld "") with (@None (string * dict string)). cbn [bind].
  unfold truthy. rewrite Hq. reflexivity.
Qed.

Lemma NoDup_names_post pre (tp : tpl) post t' :
  tpls = (pre ++ tp :: post)%list -> In t' post -> tp_name t' <> tp_name tp.
Proof.
  intros E Hin. destruct (wf_loaded_parts Ld Hwf) as (Hnd & _).
  apply nodupb_NoDup in Hnd. rewrite E, map_app in Hnd. cbn [map] in Hnd.
  apply NoDup_remove_2 in Hnd. intros Heq. apply Hnd. apply in_or_app. right.
  rewrite <- Heq. apply in_map. exact Hin.
Qed.

(** guards: the fields are query-safe; and either the query string is a search (contains a search
    symbol), or no other template with the same keys accepts the string (otherwise [apply_query]
    sees several candidate types, none of which is the (empty) current type, and leaves a
    non-search query unapplied). *)
Theorem roundtrip_query x : naturally_typed Ld x -> query_safe (s_fields x) ->
  (is_search_str Ld ("?" ++ as_query x) = true \/
   (forall t', In t' tpls -> tp_name t' <> s_type x ->
               keys_eq (dkeys (s_fields x)) (names t') = true -> accepts t' (s_string x) = None)) ->
  to_dict (to_string (s_fields x)) = Ok (s_fields x) /\
  sid_factory Ld (FromQuery (as_query x)) = Ok x.
Proof.
  intros H Hs Hguard.
  pose proof (nat_nodup Ld Hwf x H) as Hnd.
  split; [apply (to_dict_to_string _ Hs Hnd)|].
  destruct (nat_parts Ld x H) as (Hsne & pre & tp & post & E & Hin & Hn & Ha & Hpre).
  destruct (accepts_fields Ld Hwf tp _ _ Hin Ha) as (Hfst & Hsnd & Hne & Hstr).
  set (d := s_fields x) in *. set (s := s_string x) in *.
  assert (Hq : sempty (to_string d) = false) by (apply to_string_ne; assumption).
  assert (Hnl : mem_c "010" s = false).
  { rewrite Hstr. apply mem_c_join; [reflexivity|]. apply Forall_forall. intros v Hv.
    apply in_map_iff in Hv. destruct Hv as (kv & <- & Hkv).
    unfold query_safe in Hs. rewrite Forall_forall in Hs. destruct (Hs kv Hkv) as (_ & Hv).
    apply q_safe_mem; auto. }
  unfold sid_factory, as_query. fold d. rewrite Hq, (sid_of_string_query _ Hq).
  assert (G : apply_query Ld "" (to_string d) "" [] = Ok (s, s_type x, d)).
  { rewrite apply_query_unfold. cbn [sempty andb negb]. rewrite Hq.
    rewrite (update_to_string d Hs Hnd). cbn [bind].
    rewrite (dict_to_types_eq c Ld Hload Hwf d Hne). cbn [bind].
    assert (Hpf : forall t', In t' tpls -> format_tpl r t' d =
              Ok (if keys_eq (dkeys d) (names t')
                  then match accepts t' s with Some _ => Some s | None => None end else None)).
    { intros t' Hin'. apply (perm_format c Ld Hload Hwf x d t' H Hnl (Permutation_refl _) Hin'). }
    assert (Hk : keys_eq (dkeys d) (names tp) = true).
    { unfold dkeys. rewrite Hfst. apply keys_eq_refl. }
    assert (Htp : format_tpl r tp d = Ok (Some s)).
    { rewrite (Hpf tp Hin), Hk, Ha. reflexivity. }
    rewrite E. rewrite (flat_map_first (fhit Ld d) pre tp post (tp_name tp, s)).
    2:{ intros t' Hin'. unfold fhit. rewrite (Hpf t') by (rewrite E; apply in_or_app; left; exact Hin').
        rewrite (Hpre t' Hin'). destruct (keys_eq (dkeys d) (names t')); reflexivity. }
    2:{ unfold fhit. rewrite Htp. reflexivity. }
    assert (Hfin : finish Ld "" (to_string d) "" [] d (tp_name tp) = Ok (s, s_type x, d)).
    { destruct (finish_eq "" (to_string d) "" [] d (tp_name tp) Hne) as (t1 & f & Hin1 & Hn1 & Hf1 & Efin).
      { rewrite E. rewrite (flat_map_first (fhit Ld d) pre tp post (tp_name tp, s)).
        - left. reflexivity.
        - intros t' Hin'. unfold fhit. rewrite (Hpf t') by (rewrite E; apply in_or_app; left; exact Hin').
          rewrite (Hpre t' Hin'). destruct (keys_eq (dkeys d) (names t')); reflexivity.
        - unfold fhit. rewrite Htp. reflexivity. }
      assert (t1 = tp).
      { pose proof (tpl_find c Ld Hload Hwf t1 Hin1) as F1. pose proof (tpl_find c Ld Hload Hwf tp Hin) as F2.
        rewrite Hn1 in F1. congruence. }
      subst t1. rewrite Htp in Hf1. inversion Hf1; subst f.
      pose proof (nat_forced c Ld Hload Hwf x H) as Hfo. fold s in Hfo. fold d in Hfo.
      rewrite Efin, Hn, Hfo. reflexivity. }
    cbn [map fst].
    destruct (map fst (flat_map (fhit Ld d) post)) as [|t1 l] eqn:Epost; [exact Hfin|].
    assert (Hnoty : in_list "" (tp_name tp :: t1 :: l) = false).
    { apply in_list_false. intros Hin0.
      assert (Hin0' : In "" (map fst (flat_map (fhit Ld d) tpls))).
      { rewrite E. rewrite (flat_map_first (fhit Ld d) pre tp post (tp_name tp, s)).
        - cbn [map fst]. rewrite Epost. exact Hin0.
        - intros t' Hin'. unfold fhit. rewrite (Hpf t') by (rewrite E; apply in_or_app; left; exact Hin').
          rewrite (Hpre t' Hin'). destruct (keys_eq (dkeys d) (names t')); reflexivity.
        - unfold fhit. rewrite Htp. reflexivity. }
      destruct (types_in Ld d "" Hin0') as (t0 & f0 & Hin00 & Hn0 & _).
      destruct (tpl_name_ok Ld Hwf t0 Hin00) as (Hne0 & _). congruence. }
    rewrite Hnoty.
    destruct Hguard as [Hsearch | Honly].
    - unfold as_query in Hsearch. fold d in Hsearch.
      change ("" ++ "?" ++ to_string d) with ("?" ++ to_string d). rewrite Hsearch. exact Hfin.
    - exfalso.
      assert (Hin1 : In t1 (map fst (flat_map (fhit Ld d) post))) by (rewrite Epost; left; reflexivity).
      apply in_map_iff in Hin1. destruct Hin1 as ([n1 f1] & En1 & Hin1). cbn [fst] in En1. subst n1.
      apply in_flat_map in Hin1. destruct Hin1 as (t' & Hpost & Hhit).
      assert (Hin' : In t' tpls) by (rewrite E; apply in_or_app; right; right; exact Hpost).
      unfold fhit in Hhit. rewrite (Hpf t' Hin') in Hhit.
      destruct (keys_eq (dkeys d) (names t')) eqn:Hk'; [|destruct Hhit].
      rewrite (Honly t' Hin') in Hhit; [destruct Hhit | | exact Hk'].
      rewrite <- Hn. apply (NoDup_names_post pre tp post t' E Hpost). }
  rewrite G. cbn [bind]. destruct x; reflexivity.
Qed.

End QueryProofs.
