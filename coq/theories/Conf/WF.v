(** wf_confb: the decidable well-formedness predicate the general theorems assume (DESIGN.md 5).
    Every clause is syntactic and evaluated by vm_compute on the generated configuration. *)
From Coq Require Import List String Ascii Bool Arith.
From Spil Require Import Base.Str Base.Dict Base.Outcome Base.Tree Regex.Re
  Resolva.Template Resolva.Resolver Conf.ConfUtil Conf.Conf.
Import ListNotations.
Local Open Scope string_scope.

Fixpoint nodupb (l : list string) : bool :=
  match l with
  | [] => true
  | x :: t => negb (in_list x t) && nodupb t
  end.

(* every character class / literal of a pattern excludes "/" *)
Fixpoint slash_free (r : re) : bool :=
  match r with
  | Eps => true
  | Chr a => negb (Ascii.eqb a "/")
  | Cls c | Star c => match c with
                      | CDigit | CNotSlash => true
                      | CDot | CAny => false
                      | CSet neg chars => if neg then existsb (Ascii.eqb "/") chars
                                          else negb (existsb (Ascii.eqb "/") chars)
                      end
  | Seq a b | Alt a b => slash_free a && slash_free b
  | Grp _ a => slash_free a
  end.

(* a sid template is  ph "/" ph "/" ... "/" ph  with distinct keys *)
Fixpoint sid_shape (items : list item) : bool :=
  match items with
  | [Ph _ _] => true
  | Ph _ _ :: Lit "/" :: rest => sid_shape rest
  | _ => false
  end.

(* the pattern's language contains no string with a newline (so python's "$" cannot swallow one) *)
Fixpoint nl_free (r : re) : bool :=
  match r with
  | Eps => true
  | Chr a => negb (Ascii.eqb a "010")
  | Cls c | Star c => match c with
                      | CDigit | CDot => true
                      | CNotSlash | CAny => false
                      | CSet neg chars => if neg then false else negb (existsb (Ascii.eqb "010") chars)
                      end
  | Seq a b | Alt a b => nl_free a && nl_free b
  | Grp _ a => nl_free a
  end.

Fixpoint group_free (r : re) : bool :=
  match r with
  | Eps | Chr _ | Cls _ | Star _ => true
  | Seq a b | Alt a b => group_free a && group_free b
  | Grp _ _ => false
  end.

(* a placeholder is open (the default pattern) or closed: slash-free, newline-free, no inner groups *)
Definition ph_ok (i : item) : bool :=
  match i with
  | Lit _ => true
  | Ph _ None => true
  | Ph _ (Some e) => match parse_re e with
                     | Some r => slash_free r && nl_free r && group_free r
                     | None => false
                     end
  end.

Definition wf_sid_tpl (t : tpl) : bool :=
  sid_shape (tp_items t) && nodupb (item_names (tp_items t)) && forallb ph_ok (tp_items t).

Definition wf_loaded_base (Ld : Loaded) : bool :=
  nodupb (map tp_name (r_tpls (l_sid Ld)))
  && forallb wf_sid_tpl (r_tpls (l_sid Ld))
  && negb (r_check_dup (l_sid Ld))
  && nodupb (map fst (c_sid_templates (l_conf Ld))).

(** Additional clauses used by Sid/SidLemmas.v and Sid/SidProofs.v (C01-C04). *)

Definition opt_eqb (a b : option string) : bool :=
  match a, b with
  | Some x, Some y => String.eqb x y
  | None, None => true
  | _, _ => false
  end.

Definition item_eqb (a b : item) : bool :=
  match a, b with
  | Lit x, Lit y => String.eqb x y
  | Ph n e, Ph n' e' => String.eqb n n' && opt_eqb e e'
  | _, _ => false
  end.

Fixpoint items_eqb (a b : list item) : bool :=
  match a, b with
  | [], [] => true
  | x :: a', y :: b' => item_eqb x y && items_eqb a' b'
  | _, _ => false
  end.

Fixpoint strs_eqb (a b : list string) : bool :=
  match a, b with
  | [], [] => true
  | x :: a', y :: b' => String.eqb x y && strs_eqb a' b'
  | _, _ => false
  end.

(* a type name is not empty and contains neither ":" nor "?" (so that "type:string" splits back) *)
Definition type_name_ok (n : string) : bool :=
  negb (sempty n) && negb (mem_c ":" n) && negb (mem_c "?" n).

(* two templates with the same key set have the same key sequence *)
Definition same_keys_same_seq (tpls : list tpl) : bool :=
  forallb (fun t1 =>
    forallb (fun t2 =>
      implb (keys_eq (item_names (tp_items t1)) (item_names (tp_items t2)))
            (strs_eqb (item_names (tp_items t1)) (item_names (tp_items t2)))) tpls) tpls.

(* prefix closure: for every template and every i < (number of placeholders), some template
   consists of exactly its first i+1 placeholders (same names, same patterns) *)
Definition prefix_closed (tpls : list tpl) : bool :=
  forallb (fun t =>
    forallb (fun i =>
      existsb (fun t' => items_eqb (tp_items t') (firstn (2 * i + 1) (tp_items t))) tpls)
      (seq 0 (List.length (item_names (tp_items t))))) tpls.

(* the pattern of the first placeholder does not accept the empty string
   (so no prefix of a typed sid is the empty string) *)
Definition first_nonempty (t : tpl) : bool :=
  match tp_items t with
  | Ph _ (Some e) :: _ => match parse_re e with
                          | Some r => negb (match_full r "")
                          | None => false
                          end
  | _ => false
  end.

(** Clause used by Path/PathProofs.v (C05, C06): every template of every path configuration is named
    by a non-empty type whose basetype has an entry in key_types (so that [path_to_dict] can order the
    fields it reads; without it the lookup is a TypeError in the implementation). *)
Definition path_tpls_ok (Ld : Loaded) : bool :=
  forallb (fun lp =>
    forallb (fun t => negb (sempty (tp_name t))
                      && dmem (c_key_types (l_conf Ld)) (hd "" (split_s (c_sep (l_conf Ld)) (tp_name t))))
            (r_tpls (lp_resolver lp))) (l_paths Ld).

Definition wf_loaded_ext (Ld : Loaded) : bool :=
  forallb (fun t => type_name_ok (tp_name t) && first_nonempty t) (r_tpls (l_sid Ld))
  && same_keys_same_seq (r_tpls (l_sid Ld))
  && prefix_closed (r_tpls (l_sid Ld))
  && forallb (fun sym => negb (sempty sym)) (c_search_symbols (l_conf Ld))
  && path_tpls_ok Ld.

Definition wf_loadedb (Ld : Loaded) : bool := wf_loaded_base Ld && wf_loaded_ext Ld.

Definition wf_confb (c : Conf) : bool :=
  match load c with
  | Some Ld => wf_loadedb Ld
  | None => false
  end.
