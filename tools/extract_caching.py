#!/usr/bin/env python3
"""Translator for the cache layer (C13): reads, with python's ast and without importing anything,
  - spil/util/caching.py : every decorator is turned into a wrapper descriptor (Cache/Desc.v: wrapper_desc);
  - every other module under spil/ and the configuration package: each decorated function, with the decorator resolved
    through the module's imports.
It is fail-closed: a statement, expression or decorator that is not of a recognised shape is an error (exit 2 with the place),
so that the generated Coq file only ever says what the source says.  Output: one JSON object on stdout.
Usage: extract_caching.py <repo root> [<conf dir>]"""
import ast, sys, os, json

class Unrecognised(Exception):
    pass

def dump(n):
    return ast.dump(n, annotate_fields=False)

def is_name(n, name):
    return isinstance(n, ast.Name) and n.id == name

def is_call_to(n, fname, nargs=None):
    return isinstance(n, ast.Call) and is_name(n.func, fname) and not n.keywords and (nargs is None or len(n.args) == nargs)

LOG_NAMES = ('debug', 'info', 'warning', 'warn', 'error', 'print')

def is_logging(s):
    """a statement that only logs: debug(...), log.info(...), print(...) - it has no part in what the wrapper computes, provided
    its arguments do not call anything themselves (f-strings, names, attributes, subscripts and constants only)"""
    if not (isinstance(s, ast.Expr) and isinstance(s.value, ast.Call)):
        return False
    f = s.value.func
    name = f.id if isinstance(f, ast.Name) else (f.attr if isinstance(f, ast.Attribute) else None)
    if name not in LOG_NAMES:
        return False
    for a in list(s.value.args) + [k.value for k in s.value.keywords]:
        for n in ast.walk(a):
            if isinstance(n, (ast.Call, ast.Await, ast.Yield, ast.YieldFrom, ast.NamedExpr, ast.Lambda)):
                # format(), str() and repr() of a name are harmless; anything else is not recognised
                if isinstance(n, ast.Call) and isinstance(n.func, ast.Name) and n.func.id in ('str', 'repr', 'len', 'format') :
                    continue
                if isinstance(n, ast.Call) and isinstance(n.func, ast.Attribute) and n.func.attr == 'format':
                    continue
                return False
    return True

def strip_doc(body):
    body = list(body)
    if body and isinstance(body[0], ast.Expr) and isinstance(body[0].value, ast.Constant) and isinstance(body[0].value.value, str):
        body = body[1:]
    return [s for s in body if not isinstance(s, ast.Pass) and not is_logging(s)]

def key_form(expr, where):
    # tuple(args)
    def tuple_args(e):
        return is_call_to(e, 'tuple', 1) and is_name(e.args[0], 'args')
    if tuple_args(expr) or is_name(expr, 'args'):
        return 'KArgs'
    if isinstance(expr, ast.BinOp) and isinstance(expr.op, ast.Add) and tuple_args(expr.left):
        r = expr.right
        if is_call_to(r, 'tuple', 1):
            a = r.args[0]
            if is_name(a, 'kwargs'):
                return 'KNamesOnly'
            if is_call_to(a, 'sorted', 1):
                it = a.args[0]
                if isinstance(it, ast.Call) and isinstance(it.func, ast.Attribute) and it.func.attr == 'items' and is_name(it.func.value, 'kwargs') and not it.args and not it.keywords:
                    return 'KSortedItems'
    raise Unrecognised('%s: key expression %s' % (where, ast.unparse(expr)))

def user_call(e, where):
    """user_function(*args[, **kwargs]) -> passes_kw"""
    if not (isinstance(e, ast.Call) and is_name(e.func, 'user_function')):
        raise Unrecognised('%s: expected a call of user_function, got %s' % (where, ast.unparse(e)))
    if len(e.args) != 1 or not (isinstance(e.args[0], ast.Starred) and is_name(e.args[0].value, 'args')):
        raise Unrecognised('%s: user_function must be called with *args: %s' % (where, ast.unparse(e)))
    if not e.keywords:
        return False
    if len(e.keywords) == 1 and e.keywords[0].arg is None and is_name(e.keywords[0].value, 'kwargs'):
        return True
    raise Unrecognised('%s: keywords of the user_function call: %s' % (where, ast.unparse(e)))

def cache_key_sub(n):
    return isinstance(n, ast.Subscript) and is_name(n.value, 'cache') and is_name(n.slice, 'key')

def evict_stmt(s, where):
    """if len(cache) >= _max_size: cache.popitem() | cache.clear()"""
    if not (isinstance(s, ast.If) and not s.orelse and isinstance(s.test, ast.Compare) and len(s.test.ops) == 1 and isinstance(s.test.ops[0], ast.GtE)
            and is_call_to(s.test.left, 'len', 1) and is_name(s.test.left.args[0], 'cache') and is_name(s.test.comparators[0], '_max_size')):
        raise Unrecognised('%s: expected "if len(cache) >= _max_size:", got %s' % (where, ast.unparse(s).splitlines()[0]))
    body = strip_doc(s.body)
    if len(body) == 1 and isinstance(body[0], ast.Expr) and isinstance(body[0].value, ast.Call) and isinstance(body[0].value.func, ast.Attribute) \
            and is_name(body[0].value.func.value, 'cache') and not body[0].value.args and not body[0].value.keywords:
        m = body[0].value.func.attr
        if m == 'popitem':
            return 'EvPop'
        if m == 'clear':
            return 'EvClear'
    raise Unrecognised('%s: eviction body %s' % (where, ast.unparse(s)))

def wrapper_desc(fn, where):
    """fn: the ast.FunctionDef of the inner wrapper"""
    a = fn.args
    if a.posonlyargs or a.args or a.kwonlyargs or a.defaults or a.kw_defaults or a.vararg is None or a.vararg.arg != 'args':
        raise Unrecognised('%s: wrapper signature must be (*args[, **kwargs])' % where)
    if a.kwarg is not None and a.kwarg.arg != 'kwargs':
        raise Unrecognised('%s: wrapper keyword parameter must be **kwargs' % where)
    kw = a.kwarg is not None
    body = strip_doc(fn.body)
    if len(body) != 3:
        raise Unrecognised('%s: wrapper body must be: key = ...; if key not in cache: ...; return cache[key] (got %d statements)' % (where, len(body)))
    s_key, s_if, s_ret = body
    if not (isinstance(s_key, ast.Assign) and len(s_key.targets) == 1 and is_name(s_key.targets[0], 'key')):
        raise Unrecognised('%s: first statement must assign key' % where)
    kf = key_form(s_key.value, where)
    if not (isinstance(s_ret, ast.Return) and cache_key_sub(s_ret.value)):
        raise Unrecognised('%s: last statement must be "return cache[key]"' % where)
    if not (isinstance(s_if, ast.If) and isinstance(s_if.test, ast.Compare) and len(s_if.test.ops) == 1 and isinstance(s_if.test.ops[0], ast.NotIn)
            and is_name(s_if.test.left, 'key') and is_name(s_if.test.comparators[0], 'cache')):
        raise Unrecognised('%s: second statement must be "if key not in cache:"' % where)
    if strip_doc(s_if.orelse):
        raise Unrecognised('%s: the hit branch must be empty' % where)
    miss = strip_doc(s_if.body)
    evict = 'EvNone'
    if miss and isinstance(miss[0], ast.If) and isinstance(miss[0].test, ast.Compare) and is_call_to(miss[0].test.left, 'len'):
        evict = evict_stmt(miss[0], where)
        miss = miss[1:]
    # store
    if len(miss) == 1 and isinstance(miss[0], ast.Assign) and len(miss[0].targets) == 1 and cache_key_sub(miss[0].targets[0]):
        passes = user_call(miss[0].value, where)
        store = 'StAlways'
    elif len(miss) == 2 and isinstance(miss[0], ast.Assign) and len(miss[0].targets) == 1 and is_name(miss[0].targets[0], 'returned') \
            and isinstance(miss[1], ast.If) and is_name(miss[1].test, 'returned'):
        passes = user_call(miss[0].value, where)
        t, e = strip_doc(miss[1].body), strip_doc(miss[1].orelse)
        ok_t = len(t) == 1 and isinstance(t[0], ast.Assign) and len(t[0].targets) == 1 and cache_key_sub(t[0].targets[0]) and is_name(t[0].value, 'returned')
        ok_e = len(e) == 1 and isinstance(e[0], ast.Return) and is_name(e[0].value, 'returned')
        if not (ok_t and ok_e):
            raise Unrecognised('%s: truthy-store branch not of the shape "if returned: cache[key] = returned else: return returned"' % where)
        store = 'StTruthy'
    else:
        raise Unrecognised('%s: miss branch: %s' % (where, ' ; '.join(ast.unparse(s).splitlines()[0] for s in miss)))
    return {'kw': kw, 'key': kf, 'pass_kw': passes, 'evict': evict, 'store': store}

def caching_module(path):
    tree = ast.parse(open(path).read())
    wrappers = []
    max_size = None
    for node in tree.body:
        if isinstance(node, ast.Assign) and len(node.targets) == 1 and is_name(node.targets[0], '_max_size'):
            try:
                max_size = int(eval(compile(ast.Expression(node.value), path, 'eval'), {'__builtins__': {}}))
            except Exception:
                raise Unrecognised('%s: _max_size is not a constant expression' % path)
        elif isinstance(node, ast.FunctionDef):
            where = '%s:%s' % (os.path.basename(path), node.name)
            a = node.args
            if [x.arg for x in a.args] != ['user_function'] or a.vararg or a.kwarg or a.kwonlyargs:
                raise Unrecognised('%s: a function of caching.py that is not a decorator of one user_function' % where)
            body = strip_doc(node.body)
            inner = [s for s in body if isinstance(s, ast.FunctionDef)]
            w = [s for s in inner if s.name == 'wrapper']
            if len(w) != 1:
                raise Unrecognised('%s: no single inner "wrapper"' % where)
            # cache = {}
            if not any(isinstance(s, ast.Assign) and len(s.targets) == 1 and is_name(s.targets[0], 'cache') and isinstance(s.value, ast.Dict) and not s.value.keys for s in body):
                raise Unrecognised('%s: "cache = {}" not found' % where)
            # the decorator returns the wrapper
            if not (isinstance(body[-1], ast.Return) and is_name(body[-1].value, 'wrapper')):
                raise Unrecognised('%s: must end with "return wrapper"' % where)
            for s in body:
                if s is w[0] or isinstance(s, ast.Return):
                    continue
                if isinstance(s, ast.Assign):
                    t = s.targets[0]
                    if is_name(t, 'cache'):
                        continue
                    if isinstance(t, ast.Attribute) and is_name(t.value, 'wrapper') and t.attr in ('cache_clear', 'cache_info'):
                        continue
                if isinstance(s, ast.FunctionDef) and s.name in ('cache_clear', 'cache_info'):
                    # helpers: cache_clear may only clear; cache_info may only read
                    src = ast.unparse(s)
                    if s.name == 'cache_clear' and [ast.unparse(x) for x in strip_doc(s.body)] != ['cache.clear()']:
                        raise Unrecognised('%s: cache_clear does more than cache.clear()' % where)
                    if s.name == 'cache_info' and any(isinstance(x, (ast.Assign, ast.AugAssign, ast.Delete)) for x in ast.walk(s)):
                        raise Unrecognised('%s: cache_info assigns' % where)
                    continue
                raise Unrecognised('%s: unexpected statement in the decorator: %s' % (where, ast.unparse(s).splitlines()[0]))
            # wrapper decorators: only functools.wraps(user_function)
            for d in w[0].decorator_list:
                if not (is_call_to(d, 'wraps', 1) and is_name(d.args[0], 'user_function')):
                    raise Unrecognised('%s: wrapper decorated by %s' % (where, ast.unparse(d)))
            wrappers.append([node.name, wrapper_desc(w[0], where)])
        elif isinstance(node, (ast.Import, ast.ImportFrom)):
            continue
        elif isinstance(node, ast.Expr) and isinstance(node.value, ast.Constant):
            continue
        else:
            raise Unrecognised('%s: unexpected top-level statement: %s' % (path, ast.unparse(node).splitlines()[0]))
    if max_size is None:
        raise Unrecognised('%s: _max_size not found' % path)
    return wrappers, max_size

CACHE_NAMES = ('cache', 'lru_cache', 'lru_kw_cache', 'hit_cache')

def wired_functions(root, pkg_dirs):
    """every decorated function whose decorator resolves to a cache wrapper"""
    out = []
    for base in pkg_dirs:
        for dirpath, dirnames, files in os.walk(base):
            dirnames[:] = [d for d in dirnames if d not in ('__pycache__', 'data', 'tests')]
            for fn in sorted(files):
                if not fn.endswith('.py'):
                    continue
                path = os.path.join(dirpath, fn)
                rel = os.path.relpath(path, root)
                if rel.replace(os.sep, '/') == 'spil/util/caching.py':
                    continue
                try:
                    tree = ast.parse(open(path).read())
                except SyntaxError as e:
                    raise Unrecognised('%s: %s' % (rel, e))
                # imports: local name -> dotted origin
                imp = {}
                for node in ast.walk(tree):
                    if isinstance(node, ast.ImportFrom) and node.module:
                        for al in node.names:
                            imp[al.asname or al.name] = node.module + '.' + al.name
                    elif isinstance(node, ast.Import):
                        for al in node.names:
                            imp[al.asname or al.name.split('.')[0]] = al.name if al.asname else al.name.split('.')[0]
                def resolve(d):
                    if isinstance(d, ast.Call):
                        d = d.func        # lru_cache(maxsize=...)
                    if isinstance(d, ast.Name):
                        return imp.get(d.id, d.id)
                    if isinstance(d, ast.Attribute):
                        parts = []
                        while isinstance(d, ast.Attribute):
                            parts.append(d.attr); d = d.value
                        if isinstance(d, ast.Name):
                            parts.append(imp.get(d.id, d.id))
                            return '.'.join(reversed(parts))
                    return None
                def visit(node, qual):
                    for ch in ast.iter_child_nodes(node):
                        if isinstance(ch, (ast.FunctionDef, ast.AsyncFunctionDef)):
                            for d in ch.decorator_list:
                                r = resolve(d)
                                if r is None:
                                    continue
                                last = r.split('.')[-1]
                                if r.startswith('spil.util.caching.') or r in ('functools.lru_cache', 'functools.cache') or (last in CACHE_NAMES and ('caching' in r or 'functools' in r)):
                                    a = ch.args
                                    params = [x.arg for x in a.posonlyargs + a.args] + (['*' + a.vararg.arg] if a.vararg else []) + [x.arg for x in a.kwonlyargs] + (['**' + a.kwarg.arg] if a.kwarg else [])
                                    out.append({'module': rel.replace(os.sep, '/'), 'function': (qual + '.' if qual else '') + ch.name, 'decorator': r, 'params': params})
                            visit(ch, (qual + '.' if qual else '') + ch.name)
                        elif isinstance(ch, ast.ClassDef):
                            visit(ch, (qual + '.' if qual else '') + ch.name)
                        else:
                            visit(ch, qual)
                visit(tree, '')
    return out

def main():
    root = sys.argv[1]
    pkgs = [os.path.join(root, 'spil')] + ([sys.argv[2]] if len(sys.argv) > 2 else [os.path.join(root, 'spil_hamlet_conf')])
    try:
        wrappers, max_size = caching_module(os.path.join(root, 'spil', 'util', 'caching.py'))
        wired = wired_functions(root, pkgs)
    except Unrecognised as e:
        print(json.dumps({'error': str(e)}))
        sys.exit(2)
    print(json.dumps({'wrappers': wrappers, 'max_size': max_size, 'wired': wired}))

if __name__ == '__main__':
    main()
